(* C19: the date builtins (date addDate year month day hour minute second weekDay millSecond
   useTimezone) proved of the model in Sem/Builtins.v and Sem/Eval.v: days_from_civil and
   civil_from_days are mutually inverse bijections between valid proleptic-Gregorian dates and day
   numbers, for all years in Z.
   Not covered (the model answers Unk): timeFormat, now, toDay; zones with daylight saving (the
   model has fixed-offset zones only). *)
From Coq Require Import String Ascii.
From Formula Require Import Sem.Eval.
Local Open Scope Z_scope.

Arguments str s%string.

(* ---------- the proleptic Gregorian calendar ---------- *)

Definition leap (y : Z) : bool := (y mod 4 =? 0) && (negb (y mod 100 =? 0) || (y mod 400 =? 0)).

Definition days_in_month (y m : Z) : Z :=
  if m =? 2 then (if leap y then 29 else 28)
  else if (m =? 4) || (m =? 6) || (m =? 9) || (m =? 11) then 30 else 31.

Definition valid_date (y m d : Z) : bool :=
  (1 <=? m) && (m <=? 12) && (1 <=? d) && (d <=? days_in_month y m).

Lemma gregorian_rules y m d :
  leap y = (y mod 4 =? 0) && (negb (y mod 100 =? 0) || (y mod 400 =? 0)) /\
  days_in_month y m =
    (if m =? 2 then (if leap y then 29 else 28)
     else if (m =? 4) || (m =? 6) || (m =? 9) || (m =? 11) then 30 else 31) /\
  valid_date y m d = (1 <=? m) && (m <=? 12) && (1 <=? d) && (d <=? days_in_month y m).
Proof. repeat split. Qed.

(* ---------- exhaustive checks over finite ranges ---------- *)

Fixpoint all_from (n : nat) (z : Z) (f : Z -> bool) : bool :=
  match n with
  | O => true
  | S k => if f z then all_from k (z + 1) f else false
  end.

Lemma all_from_spec : forall n z f, all_from n z f = true ->
  forall i, z <= i < z + Z.of_nat n -> f i = true.
Proof.
  induction n as [|k IH]; intros z f H i Hi; [lia|].
  cbn [all_from] in H. destruct (f z) eqn:Hz; [|discriminate H].
  destruct (Z.eq_dec i z) as [->|Hne]; [exact Hz|].
  apply (IH (z + 1) f H). lia.
Qed.

Definition triple_eqb (a b : Z * Z * Z) : bool :=
  let '(a1, a2, a3) := a in let '(b1, b2, b3) := b in (a1 =? b1) && (a2 =? b2) && (a3 =? b3).

Lemma triple_eqb_eq a b : triple_eqb a b = true -> a = b.
Proof.
  destruct a as [[a1 a2] a3]. destruct b as [[b1 b2] b3]. unfold triple_eqb. intros H.
  apply andb_true_iff in H as [H H3]. apply andb_true_iff in H as [H1 H2].
  apply Z.eqb_eq in H1. apply Z.eqb_eq in H2. apply Z.eqb_eq in H3. subst. reflexivity.
Qed.

(* one 400-year era: the days 0000-03-01 .. 0400-02-29, i.e. z + 719468 in [0, 146097) *)
Definition check_day (z : Z) : bool :=
  let '(y, m, d) := civil_from_days z in valid_date y m d && (days_from_civil y m d =? z).

Definition check_year (y : Z) : bool :=
  all_from 12 1 (fun m => all_from 31 1 (fun d =>
    if d <=? days_in_month y m then triple_eqb (civil_from_days (days_from_civil y m d)) (y, m, d)
    else true)).

(* complete enumeration of the 146097 days of one era, and of the 146097 valid dates of the
   years 0..399 *)
Lemma sweep_days : all_from (Z.to_nat 146097) (-719468) check_day = true.
Proof. vm_compute. reflexivity. Qed.

Lemma sweep_years : all_from (Z.to_nat 400) 0 check_year = true.
Proof. vm_compute. reflexivity. Qed.

Lemma era_day z : -719468 <= z < -719468 + 146097 ->
  let '(y, m, d) := civil_from_days z in valid_date y m d = true /\ days_from_civil y m d = z.
Proof.
  intros Hz. pose proof (all_from_spec _ _ _ sweep_days z) as H.
  rewrite Z2Nat.id in H by lia. specialize (H Hz). unfold check_day in H.
  destruct (civil_from_days z) as [[y m] d]. apply andb_true_iff in H as [H1 H2].
  apply Z.eqb_eq in H2. split; assumption.
Qed.

Lemma era_date y m d : 0 <= y < 400 -> valid_date y m d = true ->
  civil_from_days (days_from_civil y m d) = (y, m, d).
Proof.
  intros Hy Hv. unfold valid_date in Hv.
  apply andb_true_iff in Hv as [Hv H4]. apply andb_true_iff in Hv as [Hv H3].
  apply andb_true_iff in Hv as [H1 H2].
  apply Z.leb_le in H1. apply Z.leb_le in H2. apply Z.leb_le in H3.
  pose proof (all_from_spec _ _ _ sweep_years y) as H.
  rewrite Z2Nat.id in H by lia. specialize (H ltac:(lia)). unfold check_year in H.
  pose proof (all_from_spec _ _ _ H m ltac:(lia)) as Hm. cbv beta in Hm.
  assert (Hd31 : d <= 31).
  { apply Z.leb_le in H4. unfold days_in_month in H4.
    destruct (m =? 2); [destruct (leap y); lia|].
    destruct ((m =? 4) || (m =? 6) || (m =? 9) || (m =? 11)); lia. }
  pose proof (all_from_spec _ _ _ Hm d ltac:(lia)) as Hd. cbv beta in Hd.
  rewrite H4 in Hd. apply triple_eqb_eq. exact Hd.
Qed.

(* ---------- periodicity: 400 years = 146097 days ---------- *)

Lemma leap_period y k : leap (y + 400 * k) = leap y.
Proof.
  unfold leap.
  replace (y + 400 * k) with (y + (100 * k) * 4) at 1 by lia. rewrite Z.mod_add by lia.
  replace (y + 400 * k) with (y + (4 * k) * 100) at 1 by lia. rewrite Z.mod_add by lia.
  replace (y + 400 * k) with (y + k * 400) by lia. rewrite Z.mod_add by lia. reflexivity.
Qed.

Lemma dim_period y k m : days_in_month (y + 400 * k) m = days_in_month y m.
Proof. unfold days_in_month. rewrite leap_period. reflexivity. Qed.

Lemma valid_period y k m d : valid_date (y + 400 * k) m d = valid_date y m d.
Proof. unfold valid_date. rewrite dim_period. reflexivity. Qed.

Lemma days_period y k m d :
  days_from_civil (y + 400 * k) m d = days_from_civil y m d + 146097 * k.
Proof.
  unfold days_from_civil. cbv zeta.
  replace (if m <=? 2 then y + 400 * k - 1 else y + 400 * k)
    with ((if m <=? 2 then y - 1 else y) + k * 400) by (destruct (m <=? 2); lia).
  set (y' := if m <=? 2 then y - 1 else y).
  rewrite Z.div_add by lia. set (era := y' / 400).
  replace (y' + k * 400 - (era + k) * 400) with (y' - era * 400) by lia.
  set (yoe := y' - era * 400). lia.
Qed.

Lemma civil_period z k :
  civil_from_days (z + 146097 * k) =
  let '(y, m, d) := civil_from_days z in (y + 400 * k, m, d).
Proof.
  unfold civil_from_days. cbv zeta.
  replace (z + 146097 * k + 719468) with (z + 719468 + k * 146097) by lia.
  rewrite Z.div_add by lia. set (era := (z + 719468) / 146097).
  replace (z + 719468 + k * 146097 - (era + k) * 146097) with (z + 719468 - era * 146097) by lia.
  set (doe := z + 719468 - era * 146097).
  set (yoe := (doe - doe / 1460 + doe / 36524 - doe / 146096) / 365).
  set (doy := doe - (365 * yoe + yoe / 4 - yoe / 100)).
  set (mp := (5 * doy + 2) / 153).
  destruct ((if mp <? 10 then mp + 3 else mp - 9) <=? 2); f_equal; f_equal; lia.
Qed.

(* ---------- the two inverse laws, for all years ---------- *)

Theorem days_civil_inverse y m d : valid_date y m d = true ->
  civil_from_days (days_from_civil y m d) = (y, m, d).
Proof.
  intros Hv. pose proof (Z.div_mod y 400 ltac:(lia)) as Hdm.
  pose proof (Z.mod_pos_bound y 400 ltac:(lia)) as Hr.
  set (k := y / 400) in *. set (y0 := y mod 400) in *.
  assert (Hy : y = y0 + 400 * k) by lia. rewrite Hy in *.
  rewrite valid_period in Hv. rewrite days_period, civil_period.
  rewrite (era_date y0 m d Hr Hv). reflexivity.
Qed.

Theorem civil_days_inverse z :
  let '(y, m, d) := civil_from_days z in days_from_civil y m d = z /\ valid_date y m d = true.
Proof.
  pose proof (Z.div_mod (z + 719468) 146097 ltac:(lia)) as Hdm.
  pose proof (Z.mod_pos_bound (z + 719468) 146097 ltac:(lia)) as Hr.
  set (k := (z + 719468) / 146097) in *. set (r := (z + 719468) mod 146097) in *.
  assert (Hz : z = (r - 719468) + 146097 * k) by lia. rewrite Hz.
  rewrite civil_period. pose proof (era_day (r - 719468) ltac:(lia)) as He.
  destruct (civil_from_days (r - 719468)) as [[y m] d]. destruct He as [Hv Hd].
  rewrite days_period, valid_period, Hd. split; [reflexivity|exact Hv].
Qed.

Lemma civil_days_fields z y m d : civil_from_days z = (y, m, d) ->
  days_from_civil y m d = z /\ valid_date y m d = true.
Proof. intros H. pose proof (civil_days_inverse z) as Hc. rewrite H in Hc. exact Hc. Qed.

Lemma valid_date_range y m d : valid_date y m d = true ->
  1 <= m <= 12 /\ 1 <= d <= days_in_month y m.
Proof.
  unfold valid_date. intros Hv.
  apply andb_true_iff in Hv as [Hv H4]. apply andb_true_iff in Hv as [Hv H3].
  apply andb_true_iff in Hv as [H1 H2].
  apply Z.leb_le in H1. apply Z.leb_le in H2. apply Z.leb_le in H3. apply Z.leb_le in H4. lia.
Qed.

Lemma days_in_month_range y m : 28 <= days_in_month y m <= 31.
Proof.
  unfold days_in_month. destruct (m =? 2); [destruct (leap y); lia|].
  destruct ((m =? 4) || (m =? 6) || (m =? 9) || (m =? 11)); lia.
Qed.

(* the day number is affine in the day of month; consecutive days have consecutive numbers *)
Lemma days_from_civil_day y m d : days_from_civil y m d = days_from_civil y m 1 + (d - 1).
Proof. unfold days_from_civil. cbv zeta. lia. Qed.

Example ex_epoch :
  days_from_civil 1970 1 1 = 0 /\ civil_from_days 0 = (1970, 1, 1) /\
  days_from_civil 2000 2 29 = 11016 /\ civil_from_days 11017 = (2000, 3, 1) /\
  civil_from_days (-719528) = (0, 1, 1) /\ civil_from_days (-719529) = (-1, 12, 31) /\
  valid_date 2000 2 29 = true /\ valid_date 1900 2 29 = false.
Proof. repeat split. Qed.

(* ---------- the dispatch ---------- *)

Lemma ba_date off k1 y k2 m k3 d :
  builtin_apply off (str "date") [VGoInt k1 y; VGoInt k2 m; VGoInt k3 d] =
  Ok (VTime (go_date y m d 0 0 0 0 off)).
Proof. reflexivity. Qed.
Lemma ba_addDate off t k1 y k2 m k3 d :
  builtin_apply off (str "addDate") [VTime t; VGoInt k1 y; VGoInt k2 m; VGoInt k3 d] =
  Ok (VTime (t_add_date t y m d)).
Proof. reflexivity. Qed.
Lemma ba_year off t : builtin_apply off (str "year") [VTime t] = Ok (gi (t_year t)).
Proof. reflexivity. Qed.
Lemma ba_month off t : builtin_apply off (str "month") [VTime t] = Ok (gi (t_month t)).
Proof. reflexivity. Qed.
Lemma ba_day off t : builtin_apply off (str "day") [VTime t] = Ok (gi (t_day t)).
Proof. reflexivity. Qed.
Lemma ba_hour off t : builtin_apply off (str "hour") [VTime t] = Ok (gi (t_hour t)).
Proof. reflexivity. Qed.
Lemma ba_minute off t : builtin_apply off (str "minute") [VTime t] = Ok (gi (t_minute t)).
Proof. reflexivity. Qed.
Lemma ba_second off t : builtin_apply off (str "second") [VTime t] = Ok (gi (t_second t)).
Proof. reflexivity. Qed.
Lemma ba_weekDay off t : builtin_apply off (str "weekDay") [VTime t] = Ok (gi (t_weekday t)).
Proof. reflexivity. Qed.
Lemma ba_millSecond off t :
  builtin_apply off (str "millSecond") [VTime t] = Ok (VGoInt GInt64 (t_millis t)).
Proof. reflexivity. Qed.
Lemma ba_useTimezone off t s :
  builtin_apply off (str "useTimezone") [VTime t; VStr s] =
  match zone_lookup s zones with Some o => Ok (VTime (mkTime (t_ns t) o)) | None => Err end.
Proof. reflexivity. Qed.

Theorem clock_not_modelled off :
  builtin_apply off (str "now") [] = Unk /\ builtin_apply off (str "toDay") [] = Unk.
Proof. repeat split. Qed.

Lemma ba_timeFormat off t s :
  builtin_apply off (str "timeFormat") [VTime t; VStr s] =
  match TimeFormat.time_format t s with Some r => Ok (VStr r) | None => Unk end.
Proof. reflexivity. Qed.

(* ---------- the civil fields of an instant in its zone ---------- *)

Definition t_civil (t : gotime) : Z * Z * Z := civil_from_days (t_days t).

Lemma t_fields_civil t : t_civil t = (t_year t, t_month t, t_day t).
Proof.
  unfold t_civil, t_year, t_month, t_day. destruct (civil_from_days (t_days t)) as [[y m] d].
  reflexivity.
Qed.

Lemma t_sod_range t : 0 <= t_sod t < 86400.
Proof. unfold t_sod. apply Z.mod_pos_bound. lia. Qed.

Lemma local_secs_split t : local_secs t = t_days t * 86400 + t_sod t.
Proof. unfold t_days, t_sod. pose proof (Z.div_mod (local_secs t) 86400 ltac:(lia)). lia. Qed.

Lemma hms_split t :
  t_hour t * 3600 + t_minute t * 60 + t_second t = t_sod t /\
  0 <= t_hour t < 24 /\ 0 <= t_minute t < 60 /\ 0 <= t_second t < 60.
Proof.
  unfold t_hour, t_minute, t_second. pose proof (t_sod_range t) as Hs.
  set (s := t_sod t) in *. clearbody s. clear t.
  pose proof (Z.div_mod s 3600 ltac:(lia)) as H1.
  pose proof (Z.mod_pos_bound s 3600 ltac:(lia)) as H2.
  pose proof (Z.div_mod (s mod 3600) 60 ltac:(lia)) as H3.
  pose proof (Z.mod_pos_bound (s mod 3600) 60 ltac:(lia)) as H4.
  assert (H5 : s mod 60 = (s mod 3600) mod 60).
  { rewrite (Z.div_mod s 3600) at 1 by lia.
    replace (3600 * (s / 3600) + s mod 3600) with (s mod 3600 + (60 * (s / 3600)) * 60) by lia.
    rewrite Z.mod_add by lia. reflexivity. }
  assert (H6 : 0 <= s / 3600 < 24).
  { split; [apply Z.div_pos; lia|apply Z.div_lt_upper_bound; lia]. }
  assert (H7 : 0 <= (s mod 3600) / 60 < 60).
  { split; [apply Z.div_pos; lia|apply Z.div_lt_upper_bound; lia]. }
  rewrite H5. repeat split; lia.
Qed.

(* year, month, day, hour, minute, second are the civil fields of the local time t_ns/10^9 + t_off *)
Theorem fields_spec off t :
  builtin_apply off (str "year") [VTime t] = Ok (VGoInt GInt (t_year t)) /\
  builtin_apply off (str "month") [VTime t] = Ok (VGoInt GInt (t_month t)) /\
  builtin_apply off (str "day") [VTime t] = Ok (VGoInt GInt (t_day t)) /\
  builtin_apply off (str "hour") [VTime t] = Ok (VGoInt GInt (t_hour t)) /\
  builtin_apply off (str "minute") [VTime t] = Ok (VGoInt GInt (t_minute t)) /\
  builtin_apply off (str "second") [VTime t] = Ok (VGoInt GInt (t_second t)) /\
  valid_date (t_year t) (t_month t) (t_day t) = true /\
  0 <= t_hour t < 24 /\ 0 <= t_minute t < 60 /\ 0 <= t_second t < 60 /\
  t_ns t / NS + t_off t =
    days_from_civil (t_year t) (t_month t) (t_day t) * 86400 +
    t_hour t * 3600 + t_minute t * 60 + t_second t.
Proof.
  repeat (split; [reflexivity|]).
  destruct (civil_days_fields _ _ _ _ (t_fields_civil t)) as [Hd Hv].
  destruct (hms_split t) as [Hs [Hh [Hm Hsec]]].
  split; [exact Hv|]. split; [exact Hh|]. split; [exact Hm|]. split; [exact Hsec|].
  rewrite Hd. pose proof (local_secs_split t) as Hl. unfold local_secs in Hl. lia.
Qed.

(* ---------- time.Date ---------- *)

Lemma go_date_fields y m d h mi s ns off :
  0 <= h * 3600 + mi * 60 + s < 86400 -> 0 <= ns < NS ->
  let t := go_date y m d h mi s ns off in
  t_days t = days_from_civil (y + (m - 1) / 12) ((m - 1) mod 12 + 1) 1 + (d - 1) /\
  t_sod t = h * 3600 + mi * 60 + s /\ t_ns t mod NS = ns /\ t_off t = off.
Proof.
  intros Hsod Hns t. unfold t, go_date. cbv zeta.
  set (days := days_from_civil (y + (m - 1) / 12) ((m - 1) mod 12 + 1) 1 + (d - 1)).
  set (sod := h * 3600 + mi * 60 + s) in *.
  unfold t_days, t_sod, local_secs. cbn [t_ns t_off].
  replace (days * 86400 + h * 3600 + mi * 60 + s - off) with (days * 86400 + sod - off) by (unfold sod; lia).
  assert (HNS : 0 < NS) by (unfold NS; lia).
  assert (Hdiv : ((days * 86400 + sod - off) * NS + ns) / NS = days * 86400 + sod - off).
  { rewrite Z.div_add_l by lia. rewrite Z.div_small by lia. lia. }
  rewrite Hdiv.
  replace (days * 86400 + sod - off + off) with (days * 86400 + sod) by lia.
  split; [|split; [|split]].
  - rewrite Z.div_add_l by lia. rewrite Z.div_small by lia. lia.
  - rewrite Z.add_comm, Z.mod_add by lia. apply Z.mod_small. lia.
  - rewrite Z.add_comm, Z.mod_add by lia. apply Z.mod_small. lia.
  - reflexivity.
Qed.

(* months outside 1..12 are carried into the year *)
Lemma month_normalise m : let m' := (m - 1) mod 12 + 1 in
  1 <= m' <= 12 /\ 12 * ((m - 1) / 12) + (m' - 1) = m - 1.
Proof.
  cbv zeta. pose proof (Z.div_mod (m - 1) 12 ltac:(lia)).
  pose proof (Z.mod_pos_bound (m - 1) 12 ltac:(lia)). lia.
Qed.

Lemma month_in_range m : 1 <= m <= 12 -> (m - 1) / 12 = 0 /\ (m - 1) mod 12 + 1 = m.
Proof.
  intros H. rewrite Z.div_small by lia. rewrite Z.mod_small by lia. lia.
Qed.

Lemma sod_zero_fields t : t_sod t = 0 -> t_hour t = 0 /\ t_minute t = 0 /\ t_second t = 0.
Proof. unfold t_hour, t_minute, t_second. intros ->. repeat split. Qed.

(* date(y,m,d) in the zone of offset off: local midnight of the day reached from the first of the
   month-normalised (y', m') by going d - 1 days on (or back) *)
Theorem date_spec off k1 y k2 m k3 d : exists t,
  builtin_apply off (str "date") [VGoInt k1 y; VGoInt k2 m; VGoInt k3 d] = Ok (VTime t) /\
  let y' := y + (m - 1) / 12 in
  let m' := (m - 1) mod 12 + 1 in
  1 <= m' <= 12 /\ 12 * y' + (m' - 1) = 12 * y + (m - 1) /\
  (t_year t, t_month t, t_day t) = civil_from_days (days_from_civil y' m' 1 + (d - 1)) /\
  t_hour t = 0 /\ t_minute t = 0 /\ t_second t = 0 /\ t_ns t mod NS = 0 /\ t_off t = off /\
  t_ns t = ((days_from_civil y' m' 1 + (d - 1)) * 86400 - off) * NS.
Proof.
  exists (go_date y m d 0 0 0 0 off). rewrite ba_date. split; [reflexivity|]. cbv zeta.
  destruct (go_date_fields y m d 0 0 0 0 off) as [Hdays [Hsod [Hns Hoff]]]; [lia|unfold NS; lia|].
  destruct (month_normalise m) as [Hm1 Hm2].
  split; [exact Hm1|]. split; [lia|]. split.
  { rewrite <- t_fields_civil. unfold t_civil. rewrite Hdays. reflexivity. }
  destruct (sod_zero_fields _ Hsod) as [Hh [Hmi Hs]].
  split; [exact Hh|]. split; [exact Hmi|]. split; [exact Hs|]. split; [exact Hns|].
  split; [exact Hoff|]. unfold go_date. cbn [t_ns]. lia.
Qed.

Theorem date_fields_roundtrip off k1 y k2 m k3 d : valid_date y m d = true -> exists t,
  builtin_apply off (str "date") [VGoInt k1 y; VGoInt k2 m; VGoInt k3 d] = Ok (VTime t) /\
  t_year t = y /\ t_month t = m /\ t_day t = d /\
  t_hour t = 0 /\ t_minute t = 0 /\ t_second t = 0 /\ t_off t = off.
Proof.
  intros Hv. destruct (date_spec off k1 y k2 m k3 d) as [t [Ht H]]. cbv zeta in H.
  destruct H as [_ [_ [Hc [Hh [Hmi [Hs [_ [Hoff _]]]]]]]].
  exists t. split; [exact Ht|].
  destruct (valid_date_range y m d Hv) as [Hm _].
  destruct (month_in_range m Hm) as [Hq Hr]. rewrite Hq, Hr, Z.add_0_r in Hc.
  rewrite <- days_from_civil_day, (days_civil_inverse y m d Hv) in Hc.
  injection Hc as Hy Hmo Hd. repeat split; assumption.
Qed.

(* days beyond the end of the month carry into the following months: the day after the last day
   of a month is the first of the next month (December -> January of the next year) *)
Theorem date_day_carry y m : 1 <= m <= 12 ->
  civil_from_days (days_from_civil y m 1 + (days_in_month y m + 1 - 1)) =
  (if m =? 12 then (y + 1, 1, 1) else (y, m + 1, 1)).
Proof.
  intros Hm.
  assert (Hnext : days_from_civil y m 1 + (days_in_month y m + 1 - 1) =
                  if m =? 12 then days_from_civil (y + 1) 1 1 else days_from_civil y (m + 1) 1).
  { pose proof (Z.div_mod y 400 ltac:(lia)) as Hdm.
    pose proof (Z.mod_pos_bound y 400 ltac:(lia)) as Hr.
    set (k := y / 400) in *. set (y0 := y mod 400) in *.
    assert (Hy : y = y0 + 400 * k) by lia. rewrite Hy.
    replace (y0 + 400 * k + 1) with (y0 + 1 + 400 * k) by lia.
    rewrite dim_period, !days_period.
    assert (Hchk : all_from 400 0 (fun yy => all_from 12 1 (fun mm =>
              days_from_civil yy mm 1 + (days_in_month yy mm + 1 - 1) =?
              (if mm =? 12 then days_from_civil (yy + 1) 1 1 else days_from_civil yy (mm + 1) 1))) = true)
      by (vm_compute; reflexivity).
    pose proof (all_from_spec _ _ _ Hchk y0 ltac:(lia)) as H1. cbv beta in H1.
    pose proof (all_from_spec _ _ _ H1 m ltac:(lia)) as H2. cbv beta in H2.
    apply Z.eqb_eq in H2. destruct (m =? 12); lia. }
  rewrite Hnext. destruct (m =? 12) eqn:E.
  - apply days_civil_inverse. reflexivity.
  - apply Z.eqb_neq in E. apply days_civil_inverse. unfold valid_date.
    pose proof (days_in_month_range y (m + 1)).
    apply andb_true_iff. split; [|apply Z.leb_le; lia].
    apply andb_true_iff. split; [|reflexivity].
    apply andb_true_iff. split; apply Z.leb_le; lia.
Qed.

Example ex_date :
  (let t := go_date 2024 14 31 0 0 0 0 28800 in (t_year t, t_month t, t_day t, t_hour t)) = (2025, 3, 3, 0) /\
  (let t := go_date 2024 3 0 0 0 0 0 0 in (t_year t, t_month t, t_day t)) = (2024, 2, 29) /\
  (let t := go_date 2023 (-1) 15 0 0 0 0 (-18000) in (t_year t, t_month t, t_day t)) = (2022, 11, 15) /\
  valid_date 2024 2 29 = true.
Proof. repeat split. Qed.

(* ---------- weekDay ---------- *)

Theorem weekday_spec off t :
  builtin_apply off (str "weekDay") [VTime t] = Ok (VGoInt GInt (t_weekday t)) /\
  0 <= t_weekday t <= 6 /\
  t_weekday t = (days_from_civil (t_year t) (t_month t) (t_day t) + 4) mod 7.
Proof.
  split; [reflexivity|]. unfold t_weekday.
  pose proof (Z.mod_pos_bound (t_days t + 4) 7 ltac:(lia)). split; [lia|].
  destruct (civil_days_fields _ _ _ _ (t_fields_civil t)) as [Hd _]. rewrite Hd. reflexivity.
Qed.

(* the next local day has the next weekday, and seven days later the weekday repeats *)
Theorem weekday_succ t t' : t_days t' = t_days t + 1 -> t_weekday t' = (t_weekday t + 1) mod 7.
Proof.
  unfold t_weekday. intros ->. replace (t_days t + 1 + 4) with (t_days t + 4 + 1) by lia.
  rewrite (Z.add_mod (t_days t + 4) 1 7) by lia. reflexivity.
Qed.

Theorem weekday_period t t' k : t_days t' = t_days t + 7 * k -> t_weekday t' = t_weekday t.
Proof.
  unfold t_weekday. intros ->. replace (t_days t + 7 * k + 4) with (t_days t + 4 + k * 7) by lia.
  apply Z.mod_add. lia.
Qed.

(* Sunday = 0: 1970-01-01 was a Thursday, 2000-01-01 a Saturday, 2024-02-29 a Thursday *)
Example ex_weekday :
  t_weekday (mkTime 0 0) = 4 /\
  t_weekday (go_date 2000 1 1 0 0 0 0 0) = 6 /\
  t_weekday (go_date 2024 2 29 0 0 0 0 28800) = 4 /\
  t_weekday (go_date 1969 12 28 0 0 0 0 0) = 0.
Proof. repeat split. Qed.

(* ---------- millSecond ---------- *)

Theorem millis_spec off t :
  builtin_apply off (str "millSecond") [VTime t] = Ok (VGoInt GInt64 (t_ns t / 1000000)) /\
  1000000 * (t_ns t / 1000000) <= t_ns t < 1000000 * (t_ns t / 1000000 + 1) /\
  forall o, t_millis (mkTime (t_ns t) o) = t_millis t.
Proof.
  split; [reflexivity|]. split; [|intros o; reflexivity].
  pose proof (Z.div_mod (t_ns t) 1000000 ltac:(lia)).
  pose proof (Z.mod_pos_bound (t_ns t) 1000000 ltac:(lia)). lia.
Qed.

(* ---------- addDate ---------- *)

Lemma ns_mod_range t : 0 <= t_ns t mod NS < NS.
Proof. apply Z.mod_pos_bound. unfold NS. lia. Qed.

(* addDate(t, y, m, d) = time.Date on the shifted civil fields: same carry rule as date, same
   time of day (hour, minute, second, sub-second part) and same zone *)
Theorem addDate_spec off t k1 y k2 m k3 d : exists t',
  builtin_apply off (str "addDate") [VTime t; VGoInt k1 y; VGoInt k2 m; VGoInt k3 d] = Ok (VTime t') /\
  t' = go_date (t_year t + y) (t_month t + m) (t_day t + d) (t_hour t) (t_minute t) (t_second t)
               (t_ns t mod NS) (t_off t) /\
  let Y := t_year t + y + (t_month t + m - 1) / 12 in
  let M := (t_month t + m - 1) mod 12 + 1 in
  (t_year t', t_month t', t_day t') = civil_from_days (days_from_civil Y M 1 + (t_day t + d - 1)) /\
  t_hour t' = t_hour t /\ t_minute t' = t_minute t /\ t_second t' = t_second t /\
  t_ns t' mod NS = t_ns t mod NS /\ t_off t' = t_off t.
Proof.
  exists (t_add_date t y m d). rewrite ba_addDate. split; [reflexivity|]. split; [reflexivity|].
  cbv zeta. unfold t_add_date.
  destruct (hms_split t) as [Hs _]. pose proof (t_sod_range t) as Hr.
  destruct (go_date_fields (t_year t + y) (t_month t + m) (t_day t + d) (t_hour t) (t_minute t)
              (t_second t) (t_ns t mod NS) (t_off t)) as [Hdays [Hsod [Hns Hoff]]];
    [lia|apply ns_mod_range|].
  set (t' := go_date (t_year t + y) (t_month t + m) (t_day t + d) (t_hour t) (t_minute t)
              (t_second t) (t_ns t mod NS) (t_off t)) in *.
  split.
  { rewrite <- t_fields_civil. unfold t_civil. rewrite Hdays. reflexivity. }
  assert (Hsod' : t_sod t' = t_sod t) by lia.
  unfold t_hour, t_minute, t_second. rewrite Hsod'.
  split; [reflexivity|]. split; [reflexivity|]. split; [reflexivity|]. split; [exact Hns|exact Hoff].
Qed.

Theorem addDate_zero off t k1 k2 k3 :
  builtin_apply off (str "addDate") [VTime t; VGoInt k1 0; VGoInt k2 0; VGoInt k3 0] = Ok (VTime t).
Proof.
  rewrite ba_addDate. f_equal. f_equal. unfold t_add_date, go_date. cbv zeta.
  rewrite !Z.add_0_r.
  destruct (civil_days_fields _ _ _ _ (t_fields_civil t)) as [Hd Hv].
  destruct (valid_date_range _ _ _ Hv) as [Hm _].
  destruct (month_in_range _ Hm) as [Hq Hr]. rewrite Hq, Hr, Z.add_0_r.
  rewrite <- days_from_civil_day, Hd.
  destruct (hms_split t) as [Hs _]. pose proof (local_secs_split t) as Hl.
  assert (HNS : 0 < NS) by (unfold NS; lia).
  pose proof (Z.div_mod (t_ns t) NS ltac:(lia)) as Hdm.
  replace (t_days t * 86400 + t_hour t * 3600 + t_minute t * 60 + t_second t - t_off t)
    with (t_ns t / NS) by (unfold local_secs in Hl; lia).
  destruct t as [ns o]. cbn [t_ns t_off] in *. f_equal. lia.
Qed.

(* adding whole days moves the local day number by that amount (months of any length, leap years) *)
Theorem addDate_days off t k1 k2 k3 d : exists t',
  builtin_apply off (str "addDate") [VTime t; VGoInt k1 0; VGoInt k2 0; VGoInt k3 d] = Ok (VTime t') /\
  t_days t' = t_days t + d /\ t_sod t' = t_sod t /\ t_ns t' = t_ns t + d * 86400 * NS.
Proof.
  destruct (addDate_spec off t k1 0 k2 0 k3 d) as [t' [Hb [Ht' _]]].
  exists t'. split; [exact Hb|].
  destruct (hms_split t) as [Hs _]. pose proof (t_sod_range t) as Hr.
  destruct (go_date_fields (t_year t + 0) (t_month t + 0) (t_day t + d) (t_hour t) (t_minute t)
              (t_second t) (t_ns t mod NS) (t_off t)) as [Hdays [Hsod _]];
    [lia|apply ns_mod_range|]. rewrite <- Ht' in Hdays, Hsod.
  destruct (civil_days_fields _ _ _ _ (t_fields_civil t)) as [Hd Hv].
  destruct (valid_date_range _ _ _ Hv) as [Hm _].
  rewrite !Z.add_0_r in Hdays.
  destruct (month_in_range _ Hm) as [Hq Hrr]. rewrite Hq, Hrr, Z.add_0_r in Hdays.
  assert (Hdays' : t_days t' = t_days t + d).
  { rewrite Hdays. rewrite (days_from_civil_day _ _ (t_day t)) in Hd. lia. }
  split; [exact Hdays'|]. split; [lia|].
  rewrite Ht'. unfold go_date. cbn [t_ns]. rewrite !Z.add_0_r, Hq, Hrr, Z.add_0_r.
  pose proof (local_secs_split t) as Hl. unfold local_secs in Hl.
  assert (HNS : 0 < NS) by (unfold NS; lia).
  pose proof (Z.div_mod (t_ns t) NS ltac:(lia)) as Hdm.
  rewrite (days_from_civil_day _ _ (t_day t)) in Hd. nia.
Qed.

Example ex_addDate :
  (let t := t_add_date (go_date 2024 1 31 13 45 10 5 3600) 0 1 0 in
   (t_year t, t_month t, t_day t, t_hour t, t_minute t, t_second t, t_off t)) = (2024, 3, 2, 13, 45, 10, 3600) /\
  (let t := t_add_date (go_date 2023 12 31 23 59 59 0 0) 0 0 1 in
   (t_year t, t_month t, t_day t, t_hour t, t_minute t, t_second t)) = (2024, 1, 1, 23, 59, 59) /\
  (let t := t_add_date (go_date 2024 2 29 0 0 0 0 0) 1 0 0 in (t_year t, t_month t, t_day t)) = (2025, 3, 1).
Proof. repeat split. Qed.

(* ---------- useTimezone ---------- *)

Theorem useTimezone_keeps_instant off t s o : zone_lookup s zones = Some o -> exists t',
  builtin_apply off (str "useTimezone") [VTime t; VStr s] = Ok (VTime t') /\
  t_ns t' = t_ns t /\ t_off t' = o /\
  builtin_apply off (str "millSecond") [VTime t'] = builtin_apply off (str "millSecond") [VTime t].
Proof.
  intros Hz. exists (mkTime (t_ns t) o). rewrite ba_useTimezone, Hz. repeat split.
Qed.

Theorem useTimezone_unknown_zone off t s : zone_lookup s zones = None ->
  builtin_apply off (str "useTimezone") [VTime t; VStr s] = Err.
Proof. intros Hz. rewrite ba_useTimezone, Hz. reflexivity. Qed.

(* the local fields move by the difference of the offsets *)
Theorem useTimezone_local_time t o : local_secs (mkTime (t_ns t) o) = local_secs t + (o - t_off t).
Proof. unfold local_secs. cbn [t_ns t_off]. lia. Qed.

Example ex_useTimezone :
  zone_lookup (str "Etc/GMT-8") zones = Some 28800 /\
  zone_lookup (str "UTC") zones = Some 0 /\
  zone_lookup (str "Mars/Olympus") zones = None /\
  builtin_apply 0 (str "useTimezone") [VTime (mkTime 0 0); VStr (str "Mars/Olympus")] = Err /\
  builtin_apply 0 (str "hour") [VTime (mkTime 0 28800)] = Ok (gi 8) /\
  builtin_apply 0 (str "useTimezone") [VTime (mkTime 86399000000000 0); VStr (str "Etc/GMT-8")] =
    Ok (VTime (mkTime 86399000000000 28800)) /\
  (let t := mkTime 86399000000000 28800 in (t_year t, t_month t, t_day t, t_hour t, t_minute t, t_second t)) =
    (1970, 1, 2, 7, 59, 59).
Proof. repeat split. Qed.
