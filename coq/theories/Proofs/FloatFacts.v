(* Facts about the binary64 conversion of Num/Float.v.  Everything is stated on integers:
   a finite binary64 number (m, e) is read through its value scaled by 2^1074,
   m * 2^(e + 1074), and a rational num/den through num * 2^1074 and den, so that
   |num/den - m * 2^e| <= |num/den - m' * 2^e'| becomes
   |num * 2^1074 - m * 2^(e+1074) * den| <= |num * 2^1074 - m' * 2^(e'+1074) * den|.

   Main results, for every num and every den > 0 (no magnitude bounds):
     f64_of_ratio_range        the result is an infinity or a canonical finite number
     f64_of_ratio_nearest      a finite result is a nearest representable number
     f64_of_ratio_tie_even     on a tie the mantissa is even
     f64_of_ratio_inf_iff      overflow exactly from 2^1024 - 2^970 on
     f64_of_ratio_zero         zero up to half the smallest subnormal number
     f64_of_ratio_exact        representable values convert exactly
     nearest_even_unique       the three properties above determine the result
     f64_of_ratio_ext          the result depends on the ratio only
     f64_of_ratio_mono         monotonicity
     f64_of_dec_spec_eq        the out-of-range short-circuits agree with the specification
     f64_of_dec_int            integers up to 2^53 in magnitude convert exactly
     f64_bits_range/_inj       the bit pattern lies in [0, 2^64) and is injective
     f64_examples              the known conversions *)
From Coq Require Import ZArith Bool Lia List.
From Formula Require Import Num.Dec Num.Float Proofs.DecFacts.
Import ListNotations.
Open Scope Z_scope.

(* ---------- representable and canonical numbers ---------- *)

(* m * 2^e is a binary64 number *)
Definition rep (m e : Z) : Prop := 0 <= m < 2 ^ 53 /\ -1074 <= e <= 971.
(* ... in its unique form: a mantissa below 2^52 only with the smallest exponent *)
Definition canon (m e : Z) : Prop := rep m e /\ (m < 2 ^ 52 -> e = -1074).

(* ---------- constants and small arithmetic facts ---------- *)

Lemma p52_eq : p52 = 2 ^ 52. Proof. reflexivity. Qed.
Lemma p53_eq : p53 = 2 ^ 53. Proof. reflexivity. Qed.
Lemma p63_eq : p63 = 2 ^ 63. Proof. reflexivity. Qed.

Lemma pow2_pos n : 0 <= n -> 0 < 2 ^ n.
Proof. intros. apply Z.pow_pos_nonneg; lia. Qed.

(* ---------- the rounding step: nearest integer to n/d, ties to even ---------- *)

Lemma f64_round_cases q r d : f64_round q r d = q \/ f64_round q r d = q + 1.
Proof. unfold f64_round. destruct (_ || _); auto. Qed.

Lemma even_succ_odd q : Z.odd q = true -> Z.even (q + 1) = true.
Proof. intros H. rewrite Z.add_1_r, Z.even_succ. exact H. Qed.

Lemma even_of_not_odd q : Z.odd q = false -> Z.even q = true.
Proof. intros H. rewrite <- Z.negb_odd, H. reflexivity. Qed.

Lemma f64_round_nearest n d q r z : 0 < d -> n = d * q + r -> 0 <= r < d ->
  Z.abs (n - f64_round q r d * d) <= Z.abs (n - z * d).
Proof.
  intros Hd Hn Hr. unfold f64_round.
  destruct (d <? 2 * r) eqn:E1; [apply Z.ltb_lt in E1|apply Z.ltb_ge in E1]; cbn [orb].
  - destruct (Z_le_gt_dec z q).
    + assert (0 <= (q - z) * d) by nia. nia.
    + assert (d <= (z - q) * d) by nia. nia.
  - destruct (2 * r =? d) eqn:E2; [apply Z.eqb_eq in E2|apply Z.eqb_neq in E2]; cbn [andb].
    + destruct (Z.odd q).
      * destruct (Z_le_gt_dec z q).
        -- assert (0 <= (q - z) * d) by nia. nia.
        -- assert (d <= (z - q) * d) by nia. nia.
      * destruct (Z_le_gt_dec z q).
        -- assert (0 <= (q - z) * d) by nia. nia.
        -- assert (d <= (z - q) * d) by nia. nia.
    + destruct (Z_le_gt_dec z q).
      * assert (0 <= (q - z) * d) by nia. nia.
      * assert (d <= (z - q) * d) by nia. nia.
Qed.

Lemma f64_round_tie n d q r z : 0 < d -> n = d * q + r -> 0 <= r < d ->
  z <> f64_round q r d ->
  Z.abs (n - f64_round q r d * d) = Z.abs (n - z * d) ->
  Z.even (f64_round q r d) = true.
Proof.
  intros Hd Hn Hr. unfold f64_round.
  destruct (d <? 2 * r) eqn:E1; [apply Z.ltb_lt in E1|apply Z.ltb_ge in E1]; cbn [orb].
  - intros Hz He. exfalso. destruct (Z_le_gt_dec z q).
    + assert (0 <= (q - z) * d) by nia. nia.
    + assert (2 * d <= (z - q) * d) by nia. nia.
  - destruct (2 * r =? d) eqn:E2; [apply Z.eqb_eq in E2|apply Z.eqb_neq in E2]; cbn [andb].
    + destruct (Z.odd q) eqn:Eo; intros Hz He.
      * apply even_succ_odd; exact Eo.
      * apply even_of_not_odd; exact Eo.
    + intros Hz He. exfalso. destruct (Z_le_gt_dec z (q - 1)).
      * assert (d <= (q - z) * d) by nia. nia.
      * assert (d <= (z - q) * d) by nia. nia.
Qed.
(* ---------- the exponent: scaling with Z.log2 ---------- *)

Lemma mul_le_cancel_r x y p : 0 < p -> x * p <= y * p -> x <= y.
Proof. intros; nia. Qed.
Lemma mul_lt_cancel_r x y p : 0 < p -> x * p < y * p -> x < y.
Proof. intros; nia. Qed.
Lemma mul_lt_mono_r x y p : 0 < p -> x < y -> x * p < y * p.
Proof. intros; nia. Qed.
Lemma mul_le_mono_r x y p : 0 <= p -> x <= y -> x * p <= y * p.
Proof. intros; nia. Qed.
Lemma mul_le_mono_l x y p : 0 <= p -> x <= y -> p * x <= p * y.
Proof. intros; nia. Qed.

Lemma log2_bounds n : 0 < n -> 2 ^ Z.log2 n <= n < 2 * 2 ^ Z.log2 n.
Proof.
  intros Hn. pose proof (Z.log2_spec n Hn) as H.
  rewrite Z.pow_succ_r in H by apply Z.log2_nonneg. exact H.
Qed.

(* 2^(k+52) <= num/den < 2^(k+53) for k = f64_expo num den, with the power of two written as
   a quotient 2^u / 2^v of two non-negative powers *)
Lemma f64_expo_spec num den u v : 0 < num -> 0 < den -> 0 <= u -> 0 <= v ->
  u - v = f64_expo num den + 52 ->
  den * 2 ^ u <= num * 2 ^ v < 2 * (den * 2 ^ u).
Proof.
  intros Hn Hd Hu Hv. unfold f64_expo.
  pose proof (Z.log2_nonneg num) as Ha0. pose proof (Z.log2_nonneg den) as Hb0.
  pose proof (log2_bounds num Hn) as Ha. pose proof (log2_bounds den Hd) as Hb.
  rewrite !Z.shiftl_mul_pow2 by assumption.
  set (a := Z.log2 num) in *. set (b := Z.log2 den) in *.
  pose proof (pow2_pos a Ha0) as HA. pose proof (pow2_pos b Hb0) as HB.
  pose proof (pow2_pos u Hu) as HU. pose proof (pow2_pos v Hv) as HV.
  destruct (den * 2 ^ a <=? num * 2 ^ b) eqn:E; [apply Z.leb_le in E|apply Z.leb_gt in E]; intros Hk.
  - assert (Hp : 2 ^ u * 2 ^ b = 2 ^ v * 2 ^ a).
    { rewrite <- !Z.pow_add_r by lia. f_equal. lia. }
    set (A := 2 ^ a) in *. set (B := 2 ^ b) in *. set (U := 2 ^ u) in *. set (V := 2 ^ v) in *. clearbody A B U V.
    split.
    + apply (mul_le_cancel_r _ _ B HB).
      replace (den * U * B) with (den * A * V) by nia.
      replace (num * V * B) with (num * B * V) by ring.
      apply mul_le_mono_r; lia.
    + apply (mul_lt_cancel_r _ _ B HB).
      replace (2 * (den * U) * B) with (2 * A * V * den) by nia.
      assert (num * V * B < 2 * A * V * B) by (apply mul_lt_mono_r; [lia|]; apply mul_lt_mono_r; lia).
      assert (2 * A * V * B <= 2 * A * V * den) by (apply mul_le_mono_l; nia).
      lia.
  - assert (Hp : 2 * (2 ^ u * 2 ^ b) = 2 ^ v * 2 ^ a).
    { replace 2 with (2 ^ 1) at 1 by reflexivity. rewrite <- !Z.pow_add_r by lia. f_equal. lia. }
    set (A := 2 ^ a) in *. set (B := 2 ^ b) in *. set (U := 2 ^ u) in *. set (V := 2 ^ v) in *. clearbody A B U V.
    assert (HdA : den * A < 2 * (num * B)).
    { assert (den * A < 2 * B * A) by (apply mul_lt_mono_r; lia).
      assert (2 * B * A <= 2 * B * num) by (apply mul_le_mono_l; lia). lia. }
    split.
    + apply (mul_le_cancel_r _ _ (2 * B)); [lia|].
      replace (den * U * (2 * B)) with (den * A * V) by nia.
      replace (num * V * (2 * B)) with (2 * (num * B) * V) by ring.
      apply mul_le_mono_r; lia.
    + apply (mul_lt_cancel_r _ _ B HB).
      replace (2 * (den * U) * B) with (den * A * V) by nia.
      replace (num * V * B) with (num * B * V) by ring.
      apply mul_lt_mono_r; lia.
Qed.

(* the division performed by f64_of_ratio: n / d = (num/den) / 2^k lies in [2^52, 2^53), or
   below 2^52 when the exponent was clamped to -1074; T is the common factor that relates
   n and d to num * 2^1074 and 2^(k+1074) * den *)
Lemma f64_scaled num den : 0 < num -> 0 < den ->
  let k := Z.max (f64_expo num den) (-1074) in
  let sh := Z.max 0 (- k) in
  let N := num * 2 ^ sh in
  let D := den * 2 ^ (k + sh) in
  0 < D /\ N < p53 * D /\ (-1074 < k -> p52 * D <= N) /\
  exists T, 0 < T /\ num * 2 ^ 1074 = N * T /\ 2 ^ (k + 1074) * den = D * T.
Proof.
  intros Hn Hd k sh N D.
  assert (Hk : -1074 <= k) by (unfold k; lia).
  assert (Hsh : 0 <= sh <= 1074) by (unfold sh; lia).
  assert (Hks : 0 <= k + sh) by (unfold sh; lia).
  pose proof (pow2_pos sh ltac:(lia)) as HS. pose proof (pow2_pos (k + sh) Hks) as HKS.
  assert (HD : 0 < D) by (unfold D; nia).
  split; [exact HD|].
  assert (HND : N < p53 * D /\ (-1074 < k -> p52 * D <= N)).
  { destruct (Z_le_gt_dec (-1074) (f64_expo num den)) as [Hc|Hc].
    - assert (Ek : k = f64_expo num den) by (unfold k; lia).
      pose proof (f64_expo_spec num den (k + sh + 52) sh Hn Hd ltac:(lia) ltac:(lia) ltac:(lia)) as H.
      rewrite Z.pow_add_r in H by lia. fold D N in H.
      rewrite p53_eq, p52_eq. change (2 ^ 53) with (2 * 2 ^ 52).
      unfold D, N in *. set (P := 2 ^ 52) in *. clearbody P. split; [|intros _]; nia.
    - assert (Ek : k = -1074) by (unfold k; lia).
      assert (Es : sh = 1074) by (unfold sh; lia).
      split; [|lia].
      set (v := - (f64_expo num den + 52)).
      pose proof (f64_expo_spec num den 0 v Hn Hd ltac:(lia) ltac:(unfold v; lia) ltac:(unfold v; lia)) as H.
      rewrite Z.pow_0_r, Z.mul_1_r in H.
      assert (Hv : 2 ^ v = 2 ^ 1023 * 2 ^ (v - 1023)).
      { rewrite <- Z.pow_add_r by (unfold v; lia). f_equal. lia. }
      pose proof (pow2_pos (v - 1023) ltac:(unfold v; lia)) as Hvp.
      unfold N, D. rewrite Ek, Es. replace (-1074 + 1074) with 0 by lia.
      rewrite Z.pow_0_r, Z.mul_1_r.
      replace (2 ^ 1074) with (2 ^ 1022 * 2 ^ 52) by (rewrite <- Z.pow_add_r by lia; reflexivity).
      rewrite Hv in H. change (2 ^ 1023) with (2 * 2 ^ 1022) in H.
      rewrite p53_eq. change (2 ^ 53) with (2 * 2 ^ 52).
      set (P := 2 ^ 52) in *. set (Q := 2 ^ 1022) in *. set (R := 2 ^ (v - 1023)) in *.
      assert (0 < P) by (unfold P; apply pow2_pos; lia).
      assert (0 < Q) by (unfold Q; apply pow2_pos; lia).
      clearbody P Q R.
      assert (num * Q * 2 <= num * (2 * Q * R)) by nia.
      assert (num * Q < den) by lia. nia. }
  split; [apply HND|]. split; [apply HND|].
  exists (2 ^ (1074 - sh)). split; [apply pow2_pos; lia|]. split.
  - unfold N. rewrite <- Z.mul_assoc, <- Z.pow_add_r by lia. do 2 f_equal. lia.
  - unfold D. rewrite <- Z.mul_assoc, <- Z.pow_add_r by lia.
    rewrite Z.mul_comm. do 2 f_equal. lia.
Qed.

(* ---------- the shape of the computation ---------- *)

(* the last step: carry out of the 53 bits and overflow *)
Definition f64_pack (neg : bool) (q k : Z) : f64 :=
  let m := if q =? p53 then p52 else q in
  let e := if q =? p53 then k + 1 else k in
  if f64_emax <? e then FInf neg else FFin neg m e.

(* q is the integer nearest (ties to even) to (num/den) / 2^(j-1074), and j is the right
   exponent: the scaled value lies in [2^52, 2^53) unless j = 0 *)
Definition rounds (num den j q : Z) : Prop :=
  0 <= j /\ 0 <= q <= p53 /\ (0 < j -> p52 <= q) /\
  (forall z, Z.abs (num * 2 ^ 1074 - q * (2 ^ j * den)) <= Z.abs (num * 2 ^ 1074 - z * (2 ^ j * den))) /\
  (forall z, z <> q ->
     Z.abs (num * 2 ^ 1074 - q * (2 ^ j * den)) = Z.abs (num * 2 ^ 1074 - z * (2 ^ j * den)) ->
     Z.even q = true) /\
  (0 < j -> p52 * (2 ^ j * den) <= num * 2 ^ 1074) /\
  num * 2 ^ 1074 < p53 * (2 ^ j * den).

Lemma scale_abs T N D z : 0 < T -> Z.abs (N * T - z * (D * T)) = T * Z.abs (N - z * D).
Proof.
  intros HT. replace (N * T - z * (D * T)) with (T * (N - z * D)) by ring.
  rewrite Z.abs_mul, (Z.abs_eq T) by lia. reflexivity.
Qed.

Lemma f64_of_ratio_shape neg num den : 0 < num -> 0 < den ->
  exists j q, rounds num den j q /\ f64_of_ratio neg num den = f64_pack neg q (j - 1074).
Proof.
  intros Hn Hd. unfold f64_of_ratio.
  destruct (num <=? 0) eqn:E0; [apply Z.leb_le in E0; lia|clear E0].
  pose proof (f64_scaled num den Hn Hd) as H. cbv zeta in H.
  unfold f64_emin. set (k := Z.max (f64_expo num den) (-1074)) in *.
  set (sh := Z.max 0 (- k)) in *.
  assert (Hk : -1074 <= k) by (unfold k; lia).
  assert (Hsh : 0 <= sh) by (unfold sh; lia).
  assert (Hks : 0 <= k + sh) by (unfold sh; lia).
  rewrite !Z.shiftl_mul_pow2 by assumption.
  set (N := num * 2 ^ sh) in *. set (D := den * 2 ^ (k + sh)) in *.
  clearbody N D. clearbody sh. clearbody k.
  destruct H as (HD & Hhi & Hlo & T & HT & HNT & HDT).
  pose proof (Z_div_mod N D ltac:(lia)) as Hdm.
  destruct (Z.div_eucl N D) as [q r]. destruct Hdm as [Hdm Hr].
  exists (k + 1074), (f64_round q r D).
  replace (k + 1074 - 1074) with k by lia.
  split; [|reflexivity].
  assert (Hq : 0 <= q < p53) by (unfold p53 in *; nia).
  assert (Hq2 : -1074 < k -> p52 <= q) by (intros Hk'; specialize (Hlo Hk'); unfold p52 in *; nia).
  pose proof (f64_round_cases q r D) as Hc.
  unfold rounds. rewrite HNT, HDT. clear HNT HDT.
  split; [lia|]. split; [lia|]. split; [intros; specialize (Hq2 ltac:(lia)); lia|].
  split; [|split; [|split]].
  - intros z. rewrite !scale_abs by exact HT.
    apply Z.mul_le_mono_nonneg_l; [lia|]. apply f64_round_nearest; assumption.
  - intros z Hz He. rewrite !scale_abs in He by exact HT.
    apply (f64_round_tie N D q r z); try assumption. nia.
  - intros Hj. specialize (Hlo ltac:(lia)). nia.
  - nia.
Qed.


Lemma f64_pack_fin neg q k n m e : f64_pack neg q k = FFin n m e ->
  n = neg /\ e <= 971 /\ ((q = p53 /\ m = p52 /\ e = k + 1) \/ (q <> p53 /\ m = q /\ e = k)).
Proof.
  unfold f64_pack, f64_emax.
  destruct (q =? p53) eqn:E; [apply Z.eqb_eq in E|apply Z.eqb_neq in E].
  - destruct (971 <? k + 1) eqn:E2; [discriminate|apply Z.ltb_ge in E2].
    intros H; inversion H; subst. split; [reflexivity|]. split; [lia|]. left; auto.
  - destruct (971 <? k) eqn:E2; [discriminate|apply Z.ltb_ge in E2].
    intros H; inversion H; subst. split; [reflexivity|]. split; [lia|]. right; auto.
Qed.

Lemma f64_pack_inf neg q k n : f64_pack neg q k = FInf n ->
  n = neg /\ ((q = p53 /\ 971 <= k) \/ (q <> p53 /\ 971 < k)).
Proof.
  unfold f64_pack, f64_emax.
  destruct (q =? p53) eqn:E; [apply Z.eqb_eq in E|apply Z.eqb_neq in E].
  - destruct (971 <? k + 1) eqn:E2; [apply Z.ltb_lt in E2|discriminate].
    intros H; inversion H; subst. split; [reflexivity|left; lia].
  - destruct (971 <? k) eqn:E2; [apply Z.ltb_lt in E2|discriminate].
    intros H; inversion H; subst. split; [reflexivity|right; lia].
Qed.

Lemma f64_pack_not_nan neg q k : f64_pack neg q k <> FNaN.
Proof. unfold f64_pack. destruct (_ <? _); discriminate. Qed.

Lemma f64_pack_total neg q k :
  (exists m e, f64_pack neg q k = FFin neg m e) \/ f64_pack neg q k = FInf neg.
Proof. unfold f64_pack. destruct (_ <? _); eauto. Qed.

(* the value of the packed result, scaled by 2^1074 *)
Lemma f64_pack_val neg q k n m e : -1074 <= k -> f64_pack neg q k = FFin n m e ->
  m * 2 ^ (e + 1074) = q * 2 ^ (k + 1074).
Proof.
  intros Hk H. apply f64_pack_fin in H. destruct H as (_ & _ & [(Hq & Hm & He)|(Hq & Hm & He)]); subst.
  - replace (k + 1 + 1074) with (k + 1074 + 1) by lia.
    rewrite Z.pow_add_r by lia. change (2 ^ 1) with 2. unfold p52, p53. lia.
  - reflexivity.
Qed.

(* the subnormal clamp and smaller exponents: a candidate m' * 2^j' with j' >= j is a multiple
   of 2^j; one with j' < j exists only when j > 0, and then it lies below 2^52 * 2^j <= num/den *)
Lemma rounds_nearest num den j q m' j' : 0 < den -> rounds num den j q ->
  0 <= m' < p53 -> 0 <= j' ->
  Z.abs (num * 2 ^ 1074 - q * (2 ^ j * den)) <= Z.abs (num * 2 ^ 1074 - m' * 2 ^ j' * den) /\
  (m' * 2 ^ j' <> q * 2 ^ j ->
   Z.abs (num * 2 ^ 1074 - q * (2 ^ j * den)) = Z.abs (num * 2 ^ 1074 - m' * 2 ^ j' * den) ->
   Z.even q = true).
Proof.
  intros Hd (Hj & Hq & Hq52 & Hnear & Htie & Hlo & Hhi) Hm' Hj'.
  destruct (Z_le_gt_dec j j') as [Hc|Hc].
  - assert (E : m' * 2 ^ j' * den = (m' * 2 ^ (j' - j)) * (2 ^ j * den)).
    { replace j' with (j' - j + j) at 1 by lia. rewrite Z.pow_add_r by lia. ring. }
    rewrite E. split; [apply Hnear|].
    intros Hne. apply Htie. intros Hz. apply Hne. rewrite <- Hz.
    replace j' with (j' - j + j) at 1 by lia. rewrite Z.pow_add_r by lia. ring.
  - (* a smaller exponent: the candidate lies below 2^52 * 2^j, which is itself not closer *)
    specialize (Hlo ltac:(lia)). specialize (Hq52 ltac:(lia)).
    pose proof (Hnear p52) as H52.
    assert (Hlt : m' * 2 ^ j' < p52 * 2 ^ j).
    { replace j with (j - j' - 1 + 1 + j') by lia. rewrite !Z.pow_add_r by lia.
      change (2 ^ 1) with 2.
      pose proof (pow2_pos j' Hj'). pose proof (pow2_pos (j - j' - 1) ltac:(lia)).
      unfold p52, p53 in *. nia. }
    pose proof (pow2_pos j Hj) as HP.
    set (X := num * 2 ^ 1074) in *. set (P := 2 ^ j) in *. set (Y := m' * 2 ^ j') in *.
    clearbody X P Y.
    assert (Y * den < p52 * (P * den)) by nia.
    split; [lia|]. intros _ He. lia.
Qed.

(* ---------- (a) range, (b) nearest and ties to even ---------- *)

Lemma f64_of_ratio_nonpos neg num den : num <= 0 -> f64_of_ratio neg num den = f64_zero neg.
Proof.
  intros H. unfold f64_of_ratio. destruct (num <=? 0) eqn:E; [reflexivity|apply Z.leb_gt in E; lia].
Qed.

(* (a) range and canonical form *)
Theorem f64_of_ratio_range neg num den : 0 < den ->
  match f64_of_ratio neg num den with
  | FNaN => False
  | FInf n => n = neg
  | FFin n m e => n = neg /\ canon m e
  end.
Proof.
  intros Hd. destruct (Z_le_gt_dec num 0) as [Hn|Hn].
  - rewrite f64_of_ratio_nonpos by exact Hn. unfold f64_zero, f64_emin, canon, rep. cbv beta iota.
    rewrite <- p53_eq, <- p52_eq. unfold p52, p53. split; [reflexivity|lia].
  - destruct (f64_of_ratio_shape neg num den ltac:(lia) Hd) as (j & q & Hr & ->).
    destruct Hr as (Hj & Hq & Hq52 & _).
    destruct (f64_pack neg q (j - 1074)) as [|n|n m e] eqn:E.
    + exact (f64_pack_not_nan _ _ _ E).
    + apply f64_pack_inf in E. apply E.
    + apply f64_pack_fin in E. destruct E as (-> & He & Hc). split; [reflexivity|].
      unfold canon, rep. rewrite <- p53_eq, <- p52_eq.
      destruct Hc as [(Hq' & -> & ->)|(Hq' & -> & ->)].
      * unfold p52, p53. lia.
      * destruct (Z.eq_dec j 0) as [->|Hj0]; [lia|]. specialize (Hq52 ltac:(lia)). lia.
Qed.

Corollary f64_of_ratio_total neg num den : 0 < den ->
  f64_of_ratio neg num den = FInf neg \/
  exists m e, f64_of_ratio neg num den = FFin neg m e /\ canon m e.
Proof.
  intros Hd. pose proof (f64_of_ratio_range neg num den Hd) as H.
  destruct (f64_of_ratio neg num den) as [|n|n m e].
  - contradiction.
  - left. congruence.
  - right. destruct H as [-> H]. eauto.
Qed.

(* (b) the result is a nearest representable number *)
Theorem f64_of_ratio_nearest neg num den n m e : 0 <= num -> 0 < den ->
  f64_of_ratio neg num den = FFin n m e ->
  forall m' e', rep m' e' ->
  Z.abs (num * 2 ^ 1074 - m * 2 ^ (e + 1074) * den)
  <= Z.abs (num * 2 ^ 1074 - m' * 2 ^ (e' + 1074) * den).
Proof.
  intros Hn Hd E m' e' (Hm' & He').
  destruct (Z.eq_dec num 0) as [->|Hn0].
  - rewrite f64_of_ratio_nonpos in E by lia. unfold f64_zero in E. inversion E; subst. lia.
  - destruct (f64_of_ratio_shape neg num den ltac:(lia) Hd) as (j & q & Hr & E').
    rewrite E' in E. pose proof Hr as (Hj & _).
    apply f64_pack_val in E; [|lia]. replace (j - 1074 + 1074) with j in E by lia.
    rewrite E. rewrite <- Z.mul_assoc.
    apply (rounds_nearest num den j q m' (e' + 1074) Hd Hr); [rewrite p53_eq|]; lia.
Qed.

(* (b) ties go to the even mantissa *)
Theorem f64_of_ratio_tie_even neg num den n m e : 0 <= num -> 0 < den ->
  f64_of_ratio neg num den = FFin n m e ->
  forall m' e', rep m' e' ->
  m' * 2 ^ (e' + 1074) <> m * 2 ^ (e + 1074) ->
  Z.abs (num * 2 ^ 1074 - m * 2 ^ (e + 1074) * den)
  = Z.abs (num * 2 ^ 1074 - m' * 2 ^ (e' + 1074) * den) ->
  Z.even m = true.
Proof.
  intros Hn Hd E m' e' (Hm' & He').
  destruct (Z.eq_dec num 0) as [->|Hn0].
  - rewrite f64_of_ratio_nonpos in E by lia. unfold f64_zero in E. inversion E; subst. reflexivity.
  - destruct (f64_of_ratio_shape neg num den ltac:(lia) Hd) as (j & q & Hr & E').
    rewrite E' in E. pose proof Hr as (Hj & _).
    pose proof (f64_pack_val neg q (j - 1074) n m e ltac:(lia) E) as Ev.
    replace (j - 1074 + 1074) with j in Ev by lia.
    rewrite Ev. rewrite <- (Z.mul_assoc q). intros Hne Heq.
    assert (Hqe : Z.even q = true).
    { apply (rounds_nearest num den j q m' (e' + 1074) Hd Hr); [rewrite p53_eq; lia|lia|exact Hne|exact Heq]. }
    apply f64_pack_fin in E. destruct E as (_ & _ & [(_ & -> & _)|(_ & -> & _)]); [reflexivity|exact Hqe].
Qed.

(* ---------- the carry to 2^53 and the overflow threshold ---------- *)

Lemma rounds_carry_lo num den j q : 0 < den -> rounds num den j q -> q = p53 ->
  (2 * p53 - 1) * (2 ^ j * den) <= 2 * (num * 2 ^ 1074).
Proof.
  intros Hd (Hj & Hq & _ & Hnear & _ & _ & Hhi) ->.
  specialize (Hnear (p53 - 1)). pose proof (pow2_pos j Hj) as HP.
  set (X := num * 2 ^ 1074) in *. set (W := 2 ^ j * den) in *.
  assert (0 < W) by (unfold W; nia). clearbody X W. unfold p53 in *. lia.
Qed.

Lemma rounds_carry_hi num den j q : 0 < den -> rounds num den j q ->
  (2 * p53 - 1) * (2 ^ j * den) <= 2 * (num * 2 ^ 1074) -> q = p53.
Proof.
  intros Hd (Hj & Hq & _ & Hnear & Htie & _ & Hhi) H.
  destruct (Z.eq_dec q p53) as [|Hne]; [assumption|exfalso].
  pose proof (Hnear p53) as H1. specialize (Htie p53 ltac:(lia)).
  pose proof (pow2_pos j Hj) as HP.
  set (X := num * 2 ^ 1074) in *. set (W := 2 ^ j * den) in *.
  assert (HW : 0 < W) by (unfold W; nia). clearbody X W.
  assert (Hle : q * W <= (p53 - 1) * W) by (apply mul_le_mono_r; lia).
  assert (Heq : q * W = (p53 - 1) * W) by (unfold p53 in *; lia).
  assert (q = p53 - 1) by nia. subst q.
  assert (Hev : Z.even (p53 - 1) = true) by (apply Htie; unfold p53 in *; lia).
  vm_compute in Hev. discriminate.
Qed.

Lemma pow2_split j c : c <= j -> 0 <= c -> 2 ^ j = 2 ^ (j - c) * 2 ^ c.
Proof. intros. rewrite <- Z.pow_add_r by lia. f_equal. lia. Qed.

Lemma pow2_mono a b : 0 <= a <= b -> 2 ^ a <= 2 ^ b.
Proof. intros. apply Z.pow_le_mono_r; lia. Qed.

(* overflow happens exactly from 2^1024 - 2^970 on (the midpoint between the largest finite
   number and 2^1024, which would round to the even 2^1024) *)
Theorem f64_of_ratio_inf_iff neg num den : 0 < den ->
  f64_of_ratio neg num den = FInf neg <-> (2 ^ 1024 - 2 ^ 970) * den <= num.
Proof.
  intros Hd.
  assert (HB : 0 < 2 ^ 1024 - 2 ^ 970) by (vm_compute; reflexivity).
  destruct (Z_le_gt_dec num 0) as [Hn|Hn].
  { rewrite f64_of_ratio_nonpos by exact Hn. split; [discriminate|]. intros H. exfalso. nia. }
  destruct (f64_of_ratio_shape neg num den ltac:(lia) Hd) as (j & q & Hr & ->).
  pose proof (rounds_carry_lo num den j q Hd Hr) as Hclo.
  pose proof (rounds_carry_hi num den j q Hd Hr) as Hchi.
  pose proof Hr as (Hj & Hq & Hq52 & _ & _ & Hlo & Hhi).
  assert (HS : 0 < 2 ^ 1074) by (apply pow2_pos; lia).
  (* three ranges of the exponent *)
  assert (Hbig : 2046 <= j -> (2 ^ 1024 - 2 ^ 970) * den <= num).
  { intros Hc. specialize (Hlo ltac:(lia)).
    rewrite (pow2_split j 2046) in Hlo by lia.
    pose proof (pow2_pos (j - 2046) ltac:(lia)) as HR.
    replace (2 ^ 2046) with (2 ^ 972 * 2 ^ 1074) in Hlo by (rewrite <- Z.pow_add_r by lia; reflexivity).
    apply (mul_le_cancel_r _ _ (2 ^ 1074) HS).
    assert (Hc1 : 2 ^ 1024 - 2 ^ 970 <= p52 * 2 ^ 972) by (vm_compute; discriminate).
    replace (p52 * (2 ^ (j - 2046) * (2 ^ 972 * 2 ^ 1074) * den))
      with (p52 * 2 ^ 972 * den * 2 ^ 1074 * 2 ^ (j - 2046)) in Hlo by ring.
    set (S := 2 ^ 1074) in *. set (R := 2 ^ (j - 2046)) in *.
    set (B := 2 ^ 1024 - 2 ^ 970) in *. set (C := p52 * 2 ^ 972) in *. clearbody S R B C.
    assert (B * den <= C * den) by (apply mul_le_mono_r; lia).
    assert (C * den * S * 1 <= C * den * S * R) by (apply mul_le_mono_l; nia).
    nia. }
  assert (Hsmall : j <= 2044 -> num < (2 ^ 1024 - 2 ^ 970) * den).
  { intros Hc.
    assert (Hp : 2 ^ j <= 2 ^ 2044) by (apply pow2_mono; lia).
    replace (2 ^ 2044) with (2 ^ 970 * 2 ^ 1074) in Hp by (rewrite <- Z.pow_add_r by lia; reflexivity).
    apply (mul_lt_cancel_r _ _ (2 ^ 1074) HS).
    assert (Hc1 : p53 * 2 ^ 970 <= 2 ^ 1024 - 2 ^ 970) by (vm_compute; discriminate).
    pose proof (pow2_pos j Hj) as HP.
    set (S := 2 ^ 1074) in *. set (P := 2 ^ j) in *.
    set (B := 2 ^ 1024 - 2 ^ 970) in *. set (C := 2 ^ 970) in *. clearbody S P B C.
    assert (p53 * (P * den) <= p53 * (C * S * den)) by (apply mul_le_mono_l; [unfold p53; lia|nia]).
    assert (p53 * C * (den * S) <= B * (den * S)) by (apply mul_le_mono_r; nia).
    nia. }
  assert (Hmid : j = 2045 ->
    ((2 ^ 1024 - 2 ^ 970) * den <= num <-> (2 * p53 - 1) * (2 ^ j * den) <= 2 * (num * 2 ^ 1074))).
  { intros ->.
    replace (2 ^ 2045) with (2 ^ 971 * 2 ^ 1074) by (rewrite <- Z.pow_add_r by lia; reflexivity).
    assert (Hc1 : (2 * p53 - 1) * 2 ^ 971 = 2 * (2 ^ 1024 - 2 ^ 970)) by (vm_compute; reflexivity).
    set (S := 2 ^ 1074) in *. set (B := 2 ^ 1024 - 2 ^ 970) in *.
    replace ((2 * p53 - 1) * (2 ^ 971 * S * den)) with ((2 * p53 - 1) * 2 ^ 971 * (den * S)) by ring.
    rewrite Hc1. clearbody S B. split; intros H; nia. }
  split.
  - intros E. apply f64_pack_inf in E. destruct E as (_ & [(Eq & Hk)|(Eq & Hk)]).
    + destruct (Z.eq_dec j 2045) as [Ej|Ej]; [|apply Hbig; lia].
      apply (Hmid Ej). apply Hclo. exact Eq.
    + apply Hbig. lia.
  - intros H. destruct (f64_pack_total neg q (j - 1074)) as [(m & e & E)|E]; [exfalso|exact E].
    apply f64_pack_fin in E. destruct E as (_ & He & [(Eq & _ & ->)|(Eq & _ & ->)]).
    + specialize (Hsmall ltac:(lia)). lia.
    + destruct (Z.eq_dec j 2045) as [Ej|Ej]; [|specialize (Hsmall ltac:(lia)); lia].
      apply Eq. apply Hchi. apply (Hmid Ej). exact H.
Qed.

Corollary f64_of_ratio_finite neg num den : 0 < den -> num < (2 ^ 1024 - 2 ^ 970) * den ->
  exists m e, f64_of_ratio neg num den = FFin neg m e /\ canon m e.
Proof.
  intros Hd H. destruct (f64_of_ratio_total neg num den Hd) as [E|E]; [|exact E].
  apply f64_of_ratio_inf_iff in E; [lia|exact Hd].
Qed.

(* ---------- underflow to zero: at most half the smallest subnormal number ---------- *)

Theorem f64_of_ratio_zero neg num den : 0 < den -> num * 2 ^ 1075 <= den ->
  f64_of_ratio neg num den = f64_zero neg.
Proof.
  intros Hd H.
  destruct (Z_le_gt_dec num 0) as [Hn|Hn]; [apply f64_of_ratio_nonpos; exact Hn|].
  destruct (f64_of_ratio_shape neg num den ltac:(lia) Hd) as (j & q & Hr & ->).
  destruct Hr as (Hj & Hq & Hq52 & Hnear & Htie & Hlo & Hhi).
  replace (num * 2 ^ 1075) with (2 * (num * 2 ^ 1074)) in H
    by (change 1075 with (Z.succ 1074); rewrite Z.pow_succ_r by lia; ring).
  assert (HS : 0 < 2 ^ 1074) by (apply pow2_pos; lia).
  assert (Ej : j = 0).
  { destruct (Z.eq_dec j 0) as [|Hne]; [assumption|exfalso]. specialize (Hlo ltac:(lia)).
    assert (Hp : 2 ^ 1 <= 2 ^ j) by (apply pow2_mono; lia). change (2 ^ 1) with 2 in Hp.
    set (X := num * 2 ^ 1074) in *. set (P := 2 ^ j) in *. clearbody X P.
    assert (2 * den <= P * den) by (apply mul_le_mono_r; lia).
    unfold p52 in *. lia. }
  subst j. rewrite Z.pow_0_r, Z.mul_1_l in *.
  assert (Eq : q = 0).
  { pose proof (Hnear 0) as H0. specialize (Htie 0).
    set (X := num * 2 ^ 1074) in *. clearbody X.
    assert (Hc : q = 0 \/ q = 1 \/ 2 <= q) by lia. destruct Hc as [|[->|Hc]]; [assumption|exfalso|exfalso].
    - assert (Hev : Z.even 1 = true) by (apply Htie; lia). discriminate.
    - assert (2 * den <= q * den) by (apply mul_le_mono_r; lia). lia. }
  subst q. reflexivity.
Qed.

(* ---------- (c) exactness ---------- *)

Lemma canon_unique m e m' e' : canon m e -> canon m' e' ->
  m * 2 ^ (e + 1074) = m' * 2 ^ (e' + 1074) -> m = m' /\ e = e'.
Proof.
  assert (W : forall m e m' e', canon m e -> canon m' e' -> e <= e' ->
            m * 2 ^ (e + 1074) = m' * 2 ^ (e' + 1074) -> m = m' /\ e = e').
  { clear. intros m e m' e' ((Hm & He) & Hc) ((Hm' & He') & Hc') Hle H.
    destruct (Z.eq_dec e e') as [->|Hne].
    - split; [|reflexivity]. pose proof (pow2_pos (e' + 1074) ltac:(lia)). nia.
    - exfalso. rewrite (pow2_split (e' + 1074) (e + 1074)) in H by lia.
      replace (e' + 1074 - (e + 1074)) with (e' - e - 1 + 1) in H by lia.
      rewrite (Z.pow_add_r 2 (e' - e - 1) 1) in H by lia. change (2 ^ 1) with 2 in H.
      pose proof (pow2_pos (e + 1074) ltac:(lia)). pose proof (pow2_pos (e' - e - 1) ltac:(lia)).
      assert (2 ^ 52 <= m') by lia.
      change (2 ^ 53) with (2 * 2 ^ 52) in *.
      set (P := 2 ^ 52) in *. set (A := 2 ^ (e + 1074)) in *. set (R := 2 ^ (e' - e - 1)) in *.
      clearbody P A R.
      assert (m < m' * (R * 2)) by nia. nia. }
  intros Hc Hc' H. destruct (Z_le_gt_dec e e').
  - apply W; assumption.
  - destruct (W m' e' m e Hc' Hc ltac:(lia) (eq_sym H)). split; congruence.
Qed.

Theorem f64_of_ratio_exact neg num den m' e' : 0 < den -> rep m' e' ->
  num * 2 ^ 1074 = m' * 2 ^ (e' + 1074) * den ->
  exists m e, f64_of_ratio neg num den = FFin neg m e /\ canon m e /\
              m * 2 ^ (e + 1074) = m' * 2 ^ (e' + 1074).
Proof.
  intros Hd (Hm' & He') H.
  assert (HS : 0 < 2 ^ 1074) by (apply pow2_pos; lia).
  pose proof (pow2_pos (e' + 1074) ltac:(lia)) as HP.
  assert (Hn : 0 <= num) by nia.
  assert (Hfin : num < (2 ^ 1024 - 2 ^ 970) * den).
  { assert (Hp : 2 ^ (e' + 1074) <= 2 ^ 2045) by (apply pow2_mono; lia).
    replace (2 ^ 2045) with (2 ^ 971 * 2 ^ 1074) in Hp by (rewrite <- Z.pow_add_r by lia; reflexivity).
    apply (mul_lt_cancel_r _ _ (2 ^ 1074) HS). rewrite H.
    assert (Hc1 : (2 ^ 53 - 1) * 2 ^ 971 < 2 ^ 1024 - 2 ^ 970) by (vm_compute; reflexivity).
    assert (Hc2 : 0 < 2 ^ 971) by (apply pow2_pos; lia).
    set (S := 2 ^ 1074) in *. set (P := 2 ^ (e' + 1074)) in *. set (B := 2 ^ 1024 - 2 ^ 970) in *.
    set (C := 2 ^ 971) in *. set (M := 2 ^ 53) in *. clearbody S P B C M.
    assert (m' * P <= (M - 1) * (C * S)) by nia.
    assert ((M - 1) * C * (S * den) < B * (S * den)) by (apply mul_lt_mono_r; nia).
    nia. }
  destruct (f64_of_ratio_finite neg num den Hd Hfin) as (m & e & E & Hc).
  exists m, e. split; [exact E|]. split; [exact Hc|].
  pose proof (f64_of_ratio_nearest neg num den neg m e Hn Hd E m' e' (conj Hm' He')) as Hnear.
  rewrite <- H in Hnear. rewrite Z.sub_diag in Hnear. cbn [Z.abs] in Hnear.
  assert (num * 2 ^ 1074 = m * 2 ^ (e + 1074) * den) by lia.
  nia.
Qed.

Corollary f64_of_ratio_exact_canon neg num den m e : 0 < den -> canon m e ->
  num * 2 ^ 1074 = m * 2 ^ (e + 1074) * den ->
  f64_of_ratio neg num den = FFin neg m e.
Proof.
  intros Hd Hc H. destruct (f64_of_ratio_exact neg num den m e Hd (proj1 Hc) H) as (m1 & e1 & E & Hc1 & Hv).
  destruct (canon_unique _ _ _ _ Hc1 Hc Hv) as [-> ->]. exact E.
Qed.

(* ---------- the specification determines the result ---------- *)

(* value scaled by 2^1074: an integer *)
Definition ival (m e : Z) : Z := m * 2 ^ (e + 1074).

(* (m, e) is a correctly rounded (nearest, ties to even) canonical result for num/den *)
Definition nearest_even (num den m e : Z) : Prop :=
  canon m e /\
  (forall m' e', rep m' e' ->
     Z.abs (num * 2 ^ 1074 - ival m e * den) <= Z.abs (num * 2 ^ 1074 - ival m' e' * den)) /\
  (forall m' e', rep m' e' -> ival m' e' <> ival m e ->
     Z.abs (num * 2 ^ 1074 - ival m e * den) = Z.abs (num * 2 ^ 1074 - ival m' e' * den) ->
     Z.even m = true).

Theorem f64_of_ratio_nearest_even neg num den n m e : 0 <= num -> 0 < den ->
  f64_of_ratio neg num den = FFin n m e -> nearest_even num den m e.
Proof.
  intros Hn Hd E. split; [|split].
  - pose proof (f64_of_ratio_range neg num den Hd) as H. rewrite E in H. apply H.
  - exact (f64_of_ratio_nearest neg num den n m e Hn Hd E).
  - exact (f64_of_ratio_tie_even neg num den n m e Hn Hd E).
Qed.

(* the next representable number above a canonical one is one unit in the last place away *)
Lemma ival_succ m e m' e' : canon m e -> rep m' e' -> ival m e < ival m' e' ->
  ival m e + 2 ^ (e + 1074) <= ival m' e'.
Proof.
  unfold ival. intros ((Hm & He) & Hc) (Hm' & He') H.
  pose proof (pow2_pos (e + 1074) ltac:(lia)) as HP.
  destruct (Z_le_gt_dec e e') as [Hle|Hgt].
  - rewrite (pow2_split (e' + 1074) (e + 1074)) in * by lia.
    pose proof (pow2_pos (e' + 1074 - (e + 1074)) ltac:(lia)) as HR.
    set (P := 2 ^ (e + 1074)) in *. set (R := 2 ^ (e' + 1074 - (e + 1074))) in *. clearbody P R.
    assert (m < m' * R) by nia. nia.
  - exfalso. assert (2 ^ 52 <= m) by lia.
    rewrite (pow2_split (e + 1074) (e' + 1074)) in * by lia.
    replace (e + 1074 - (e' + 1074)) with (e - e' - 1 + 1) in * by lia.
    rewrite (Z.pow_add_r 2 (e - e' - 1) 1) in * by lia. change (2 ^ 1) with 2 in *.
    pose proof (pow2_pos (e' + 1074) ltac:(lia)). pose proof (pow2_pos (e - e' - 1) ltac:(lia)).
    change (2 ^ 53) with (2 * 2 ^ 52) in *.
    set (P := 2 ^ (e' + 1074)) in *. set (R := 2 ^ (e - e' - 1)) in *. set (Q := 2 ^ 52) in *.
    clearbody P R Q.
    assert (m' * P < 2 * Q * P) by nia.
    assert (2 * Q * P <= Q * (R * 2 * P)) by nia.
    assert (Q * (R * 2 * P) <= m * (R * 2 * P)) by (apply mul_le_mono_r; nia).
    lia.
Qed.

(* a canonical number with an even mantissa is not the successor of an even one *)
Lemma ival_parity m e m' e' : canon m e -> canon m' e' ->
  Z.even m = true -> Z.even m' = true ->
  ival m' e' <> ival m e + 2 ^ (e + 1074).
Proof.
  unfold ival. intros ((Hm & He) & Hc) ((Hm' & He') & Hc') Hev Hev' H.
  apply Z.even_spec in Hev. apply Z.even_spec in Hev'.
  destruct Hev as [a ->]. destruct Hev' as [b ->].
  pose proof (pow2_pos (e + 1074) ltac:(lia)) as HP.
  destruct (Z_le_gt_dec e e') as [Hle|Hgt].
  - rewrite (pow2_split (e' + 1074) (e + 1074)) in * by lia.
    pose proof (pow2_pos (e' + 1074 - (e + 1074)) ltac:(lia)) as HR.
    set (P := 2 ^ (e + 1074)) in *. set (R := 2 ^ (e' + 1074 - (e + 1074))) in *. clearbody P R.
    assert (2 * b * R = 2 * a + 1) by nia. lia.
  - assert (2 ^ 52 <= 2 * a) by lia.
    rewrite (pow2_split (e + 1074) (e' + 1074)) in * by lia.
    replace (e + 1074 - (e' + 1074)) with (e - e' - 1 + 1) in * by lia.
    rewrite (Z.pow_add_r 2 (e - e' - 1) 1) in * by lia. change (2 ^ 1) with 2 in *.
    pose proof (pow2_pos (e' + 1074) ltac:(lia)). pose proof (pow2_pos (e - e' - 1) ltac:(lia)).
    change (2 ^ 53) with (2 * 2 ^ 52) in *.
    set (P := 2 ^ (e' + 1074)) in *. set (R := 2 ^ (e - e' - 1)) in *. set (Q := 2 ^ 52) in *.
    clearbody P R Q.
    assert (2 * b = (2 * a + 1) * (R * 2)) by nia.
    assert ((Q + 1) * 2 <= (2 * a + 1) * (R * 2)) by nia. lia.
Qed.

Lemma nearest_even_lt_false num den m1 e1 m2 e2 : 0 < den ->
  nearest_even num den m1 e1 -> nearest_even num den m2 e2 ->
  ival m1 e1 < ival m2 e2 -> False.
Proof.
  intros Hd (Hc1 & Hn1 & Ht1) (Hc2 & Hn2 & Ht2) Hlt.
  pose proof (Hn1 m2 e2 (proj1 Hc2)) as H12. pose proof (Hn2 m1 e1 (proj1 Hc1)) as H21.
  assert (Heq : Z.abs (num * 2 ^ 1074 - ival m1 e1 * den) = Z.abs (num * 2 ^ 1074 - ival m2 e2 * den)) by lia.
  assert (Hev1 : Z.even m1 = true) by (apply (Ht1 m2 e2 (proj1 Hc2)); [lia|exact Heq]).
  assert (Hev2 : Z.even m2 = true) by (apply (Ht2 m1 e1 (proj1 Hc1)); [lia|symmetry; exact Heq]).
  (* the successor of (m1, e1) lies strictly between the two, hence strictly closer *)
  assert (Hrep : rep (m1 + 1) e1).
  { destruct Hc1 as ((Hm & He) & _). split; [|exact He].
    apply Z.even_spec in Hev1. destruct Hev1 as [a ->]. change (2 ^ 53) with (2 * 2 ^ 52) in *. lia. }
  pose proof (ival_succ m1 e1 m2 e2 Hc1 (proj1 Hc2) Hlt) as Hs.
  pose proof (ival_parity m1 e1 m2 e2 Hc1 Hc2 Hev1 Hev2) as Hp.
  pose proof (Hn1 (m1 + 1) e1 Hrep) as Hw.
  assert (Ew : ival (m1 + 1) e1 = ival m1 e1 + 2 ^ (e1 + 1074)) by (unfold ival; ring).
  rewrite Ew in Hw.
  pose proof (pow2_pos (e1 + 1074) ltac:(destruct Hc1 as ((_ & ?) & _); lia)) as HP.
  set (X := num * 2 ^ 1074) in *. set (v1 := ival m1 e1) in *. set (v2 := ival m2 e2) in *.
  set (u := 2 ^ (e1 + 1074)) in *. clearbody X v1 v2 u.
  assert (v1 * den < (v1 + u) * den) by (apply mul_lt_mono_r; lia).
  assert ((v1 + u) * den < v2 * den) by (apply mul_lt_mono_r; lia).
  lia.
Qed.

Theorem nearest_even_unique num den m1 e1 m2 e2 : 0 < den ->
  nearest_even num den m1 e1 -> nearest_even num den m2 e2 -> m1 = m2 /\ e1 = e2.
Proof.
  intros Hd H1 H2.
  destruct (Z.lt_total (ival m1 e1) (ival m2 e2)) as [H|[H|H]].
  - exfalso. exact (nearest_even_lt_false num den m1 e1 m2 e2 Hd H1 H2 H).
  - apply canon_unique; [apply H1|apply H2|exact H].
  - exfalso. exact (nearest_even_lt_false num den m2 e2 m1 e1 Hd H2 H1 H).
Qed.

(* ---------- the result depends on the ratio only; (d) monotonicity ---------- *)

Lemma abs_cross n1 d1 n2 d2 S v : 0 < d1 -> 0 < d2 -> n1 * d2 = n2 * d1 ->
  Z.abs (n2 * S - v * d2) * d1 = Z.abs (n1 * S - v * d1) * d2.
Proof.
  intros H1 H2 H.
  rewrite <- (Z.abs_eq d1) at 1 by lia. rewrite <- (Z.abs_eq d2) at 2 by lia.
  rewrite <- !Z.abs_mul. f_equal.
  replace ((n2 * S - v * d2) * d1) with ((n2 * d1) * S - v * d2 * d1) by ring.
  rewrite <- H. ring.
Qed.

Lemma nearest_even_ratio n1 d1 n2 d2 m e : 0 < d1 -> 0 < d2 -> n1 * d2 = n2 * d1 ->
  nearest_even n1 d1 m e -> nearest_even n2 d2 m e.
Proof.
  intros H1 H2 H (Hc & Hn & Ht). split; [exact Hc|]. split.
  - intros m' e' Hr. specialize (Hn m' e' Hr).
    apply (mul_le_cancel_r _ _ d1 H1).
    rewrite !(abs_cross n1 d1 n2 d2 _ _ H1 H2 H). apply mul_le_mono_r; lia.
  - intros m' e' Hr Hne Heq. apply (Ht m' e' Hr Hne).
    apply (Z.mul_cancel_r _ _ d2); [lia|].
    rewrite <- !(abs_cross n1 d1 n2 d2 _ _ H1 H2 H). rewrite Heq. reflexivity.
Qed.

Theorem f64_of_ratio_ext neg n1 d1 n2 d2 : 0 < d1 -> 0 < d2 -> n1 * d2 = n2 * d1 ->
  f64_of_ratio neg n1 d1 = f64_of_ratio neg n2 d2.
Proof.
  intros H1 H2 H.
  destruct (Z_le_gt_dec n1 0) as [Hn|Hn].
  { assert (n2 <= 0) by nia. rewrite !f64_of_ratio_nonpos by assumption. reflexivity. }
  assert (Hn2 : 0 < n2) by nia.
  assert (HB : 0 < 2 ^ 1024 - 2 ^ 970) by (vm_compute; reflexivity).
  pose proof (f64_of_ratio_inf_iff neg n1 d1 H1) as I1.
  pose proof (f64_of_ratio_inf_iff neg n2 d2 H2) as I2.
  assert (Hiff : (2 ^ 1024 - 2 ^ 970) * d1 <= n1 <-> (2 ^ 1024 - 2 ^ 970) * d2 <= n2).
  { set (B := 2 ^ 1024 - 2 ^ 970) in *. clearbody B. split; intros Hb.
    - apply (mul_le_cancel_r _ _ d1 H1). rewrite <- H.
      replace (B * d2 * d1) with (B * d1 * d2) by ring. apply mul_le_mono_r; lia.
    - apply (mul_le_cancel_r _ _ d2 H2). rewrite H.
      replace (B * d1 * d2) with (B * d2 * d1) by ring. apply mul_le_mono_r; lia. }
  destruct (f64_of_ratio_total neg n1 d1 H1) as [E1|(m1 & e1 & E1 & _)];
    destruct (f64_of_ratio_total neg n2 d2 H2) as [E2|(m2 & e2 & E2 & _)].
  - congruence.
  - exfalso. apply I1, Hiff, I2 in E1. congruence.
  - exfalso. apply I2, Hiff, I1 in E2. congruence.
  - pose proof (f64_of_ratio_nearest_even neg n1 d1 neg m1 e1 ltac:(lia) H1 E1) as N1.
    pose proof (f64_of_ratio_nearest_even neg n2 d2 neg m2 e2 ltac:(lia) H2 E2) as N2.
    apply (nearest_even_ratio n1 d1 n2 d2 m1 e1 H1 H2 H) in N1.
    destruct (nearest_even_unique n2 d2 m1 e1 m2 e2 H2 N1 N2) as [-> ->]. congruence.
Qed.

(* comparison of magnitudes, an infinity above every finite number *)
Definition f64_mag_le (f g : f64) : Prop :=
  match f, g with
  | FFin _ m e, FFin _ m' e' => ival m e <= ival m' e'
  | FFin _ _ _, FInf _ => True
  | FInf _, FInf _ => True
  | _, _ => False
  end.

Theorem f64_of_ratio_mono neg1 neg2 n1 d1 n2 d2 : 0 <= n1 -> 0 < d1 -> 0 < d2 ->
  n1 * d2 <= n2 * d1 ->
  f64_mag_le (f64_of_ratio neg1 n1 d1) (f64_of_ratio neg2 n2 d2).
Proof.
  intros Hn1 H1 H2 H.
  assert (Hn2 : 0 <= n2) by nia.
  assert (HB : 0 < 2 ^ 1024 - 2 ^ 970) by (vm_compute; reflexivity).
  destruct (f64_of_ratio_total neg1 n1 d1 H1) as [E1|(m1 & e1 & E1 & _)];
    destruct (f64_of_ratio_total neg2 n2 d2 H2) as [E2|(m2 & e2 & E2 & _)];
    rewrite ?E1, ?E2; cbn [f64_mag_le]; try exact I.
  - (* overflow is monotone *)
    apply f64_of_ratio_inf_iff in E1; [|exact H1].
    assert (E2' : f64_of_ratio neg2 n2 d2 = FInf neg2).
    { apply f64_of_ratio_inf_iff; [exact H2|].
      set (B := 2 ^ 1024 - 2 ^ 970) in *. clearbody B.
      apply (mul_le_cancel_r _ _ d1 H1).
      assert (B * d1 * d2 <= n1 * d2) by (apply mul_le_mono_r; lia). lia. }
    congruence.
  - destruct (Z_le_gt_dec (ival m1 e1) (ival m2 e2)) as [|Hgt]; [assumption|exfalso].
    pose proof (f64_of_ratio_nearest_even neg1 n1 d1 neg1 m1 e1 Hn1 H1 E1) as N1.
    pose proof (f64_of_ratio_nearest_even neg2 n2 d2 neg2 m2 e2 Hn2 H2 E2) as N2.
    pose proof (proj1 (proj2 N1) m2 e2 (proj1 (proj1 N2))) as A1.
    pose proof (proj1 (proj2 N2) m1 e1 (proj1 (proj1 N1))) as A2.
    assert (HS : 0 < 2 ^ 1074) by (apply pow2_pos; lia).
    assert (Heq : n1 * d2 = n2 * d1).
    { set (v1 := ival m1 e1) in *. set (v2 := ival m2 e2) in *. set (S := 2 ^ 1074) in *.
      clearbody v1 v2 S.
      assert (v2 * d1 < v1 * d1) by (apply mul_lt_mono_r; lia).
      assert (v2 * d2 < v1 * d2) by (apply mul_lt_mono_r; lia).
      assert (B1 : v1 * d1 + v2 * d1 <= 2 * (n1 * S)) by lia.
      assert (B2 : 2 * (n2 * S) <= v1 * d2 + v2 * d2) by lia.
      assert (C1 : (v1 * d1 + v2 * d1) * d2 <= 2 * (n1 * S) * d2) by (apply mul_le_mono_r; lia).
      assert (C2 : 2 * (n2 * S) * d1 <= (v1 * d2 + v2 * d2) * d1) by (apply mul_le_mono_r; lia).
      assert (C3 : n1 * d2 * S <= n2 * d1 * S) by (apply mul_le_mono_r; lia).
      apply (Z.mul_cancel_r _ _ S); [lia|]. lia. }
    apply (nearest_even_ratio n1 d1 n2 d2 m1 e1 H1 H2 Heq) in N1.
    destruct (nearest_even_unique n2 d2 m1 e1 m2 e2 H2 N1 N2) as [-> ->]. lia.
Qed.

(* ---------- the decimal conversion: the short-circuits agree with the specification ---------- *)

Lemma pow10_mono a b : 0 <= a <= b -> 10 ^ a <= 10 ^ b.
Proof. intros. apply Z.pow_le_mono_r; lia. Qed.

Theorem f64_of_dec_spec_eq d :
  match d with Fin _ c _ => 0 <= c | _ => True end ->
  f64_of_dec d = f64_of_dec_spec d.
Proof.
  destruct d as [n c e| |]; [|reflexivity|reflexivity].
  intros Hc. unfold f64_of_dec, f64_of_dec_spec.
  destruct (c <=? 0) eqn:E0; [apply Z.leb_le in E0|apply Z.leb_gt in E0].
  { assert (c = 0) by lia. subst c.
    destruct (0 <=? e); rewrite f64_of_ratio_nonpos; try reflexivity; lia. }
  pose proof (ndigits_spec c E0) as Hnd. pose proof (ndigits_pos c) as Hnp.
  set (nd := ndigits c) in *. clearbody nd. unfold pow10.
  destruct (310 <? nd + e) eqn:E1; [apply Z.ltb_lt in E1|apply Z.ltb_ge in E1].
  { (* at least 10^310 > 2^1024 *)
    assert (Hc1 : 2 ^ 1024 - 2 ^ 970 <= 10 ^ 310) by (vm_compute; discriminate).
    symmetry. destruct (0 <=? e) eqn:E2; [apply Z.leb_le in E2|apply Z.leb_gt in E2];
      apply f64_of_ratio_inf_iff.
    - lia.
    - rewrite Z.mul_1_r.
      assert (10 ^ 310 <= 10 ^ (nd - 1 + e)) by (apply pow10_mono; lia).
      rewrite Z.pow_add_r in H by lia.
      assert (0 < 10 ^ e) by (apply Z.pow_pos_nonneg; lia).
      assert (10 ^ (nd - 1) * 10 ^ e <= c * 10 ^ e) by (apply mul_le_mono_r; lia). lia.
    - apply Z.pow_pos_nonneg; lia.
    - assert (10 ^ 310 <= 10 ^ (nd - 1 + e)) by (apply pow10_mono; lia).
      assert (0 < 10 ^ (- e)) by (apply Z.pow_pos_nonneg; lia).
      assert (10 ^ (nd - 1) = 10 ^ (nd - 1 + e) * 10 ^ (- e)).
      { rewrite <- Z.pow_add_r by lia. f_equal. lia. }
      assert (10 ^ 310 * 10 ^ (- e) <= 10 ^ (nd - 1 + e) * 10 ^ (- e)) by (apply mul_le_mono_r; lia).
      assert ((2 ^ 1024 - 2 ^ 970) * 10 ^ (- e) <= 10 ^ 310 * 10 ^ (- e)) by (apply mul_le_mono_r; lia).
      lia. }
  destruct (nd + e <? -400) eqn:E2; [apply Z.ltb_lt in E2|reflexivity].
  (* below 10^-401 < 2^-1075 *)
  destruct (0 <=? e) eqn:E3; [apply Z.leb_le in E3; lia|apply Z.leb_gt in E3].
  symmetry. apply f64_of_ratio_zero; [apply Z.pow_pos_nonneg; lia|].
  assert (Hc1 : 2 ^ 1075 <= 10 ^ 401) by (vm_compute; discriminate).
  assert (Hp : 10 ^ (- e) = 10 ^ nd * 10 ^ (- e - nd)).
  { rewrite <- Z.pow_add_r by lia. f_equal. lia. }
  assert (10 ^ 401 <= 10 ^ (- e - nd)) by (apply pow10_mono; lia).
  rewrite Hp.
  assert (0 < 10 ^ nd) by (apply Z.pow_pos_nonneg; lia).
  assert (0 < 2 ^ 1075) by (apply pow2_pos; lia).
  set (A := 10 ^ nd) in *. set (B := 10 ^ (- e - nd)) in *. set (C := 2 ^ 1075) in *.
  set (D := 10 ^ 401) in *. clearbody A B C D. nia.
Qed.

(* (c) integers up to 2^53 in magnitude convert exactly *)
Corollary f64_of_dec_int neg n : 0 <= n <= 2 ^ 53 ->
  exists m e, f64_of_dec (Fin neg n 0) = FFin neg m e /\ canon m e /\
              m * 2 ^ (e + 1074) = n * 2 ^ 1074.
Proof.
  intros Hn. rewrite f64_of_dec_spec_eq by lia. unfold f64_of_dec_spec.
  change (0 <=? 0) with true. cbv iota. unfold pow10. rewrite Z.pow_0_r, Z.mul_1_r.
  destruct (Z.eq_dec n (2 ^ 53)) as [->|Hne].
  - destruct (f64_of_ratio_exact neg (2 ^ 53) 1 (2 ^ 52) 1 ltac:(lia)) as (m & e & E & Hc & Hv).
    + unfold rep. split; [|lia]. split; [apply Z.lt_le_incl, pow2_pos; lia|apply Z.pow_lt_mono_r; lia].
    + rewrite Z.mul_1_r. rewrite <- !Z.pow_add_r by lia. reflexivity.
    + exists m, e. split; [exact E|]. split; [exact Hc|]. rewrite Hv.
      rewrite <- !Z.pow_add_r by lia. reflexivity.
  - destruct (f64_of_ratio_exact neg n 1 n 0 ltac:(lia)) as (m & e & E & Hc & Hv).
    + unfold rep. lia.
    + rewrite Z.mul_1_r. reflexivity.
    + exists m, e. split; [exact E|]. split; [exact Hc|]. exact Hv.
Qed.

(* ---------- (e) the bit pattern ---------- *)

Definition f64_canon (f : f64) : Prop :=
  match f with FFin _ m e => canon m e | _ => True end.

Lemma frac_cases m : 0 <= m < 2 ^ 53 ->
  (m < p52 /\ m mod p52 = m) \/ (p52 <= m /\ m mod p52 = m - p52).
Proof.
  rewrite <- p53_eq. intros Hm. destruct (Z_lt_le_dec m p52) as [H|H].
  - left. split; [exact H|]. apply Z.mod_small. lia.
  - right. split; [exact H|]. symmetry. apply (Z.mod_unique m p52 1); unfold p52, p53 in *; lia.
Qed.

Lemma f64_bits_fin neg m e : canon m e ->
  exists E F, f64_bits (FFin neg m e) = (if neg then p63 else 0) + E * p52 + F /\
              0 <= E <= 2046 /\ 0 <= F < p52 /\
              ((E = 0 /\ F = m /\ e = -1074) \/ (1 <= E /\ E = e + 1075 /\ F = m - p52)).
Proof.
  intros ((Hm & He) & Hc). rewrite <- p52_eq in Hc. unfold f64_bits.
  destruct (frac_cases m Hm) as [(H1 & ->)|(H1 & ->)].
  - destruct (m <? p52) eqn:E; [|apply Z.ltb_ge in E; lia].
    exists 0, m. split; [reflexivity|]. specialize (Hc H1). lia.
  - destruct (m <? p52) eqn:E; [apply Z.ltb_lt in E; lia|].
    exists (e + 1075), (m - p52). split; [reflexivity|]. rewrite <- p53_eq in Hm. unfold p52, p53 in *. lia.
Qed.

Theorem f64_bits_range f : f64_canon f -> 0 <= f64_bits f < 2 ^ 64.
Proof.
  change (2 ^ 64) with 18446744073709551616.
  destruct f as [|neg|neg m e]; intros Hc.
  - unfold f64_bits. lia.
  - unfold f64_bits, p63, p52. destruct neg; lia.
  - destruct (f64_bits_fin neg m e Hc) as (E & F & -> & HE & HF & _).
    unfold p63, p52 in *. destruct neg; lia.
Qed.

Theorem f64_bits_inj f g : f64_canon f -> f64_canon g -> f64_bits f = f64_bits g -> f = g.
Proof.
  destruct f as [|n1|n1 m1 e1]; destruct g as [|n2|n2 m2 e2]; intros Hf Hg;
    try (destruct (f64_bits_fin n1 m1 e1 Hf) as (E1 & F1 & -> & HE1 & HF1 & Hd1));
    try (destruct (f64_bits_fin n2 m2 e2 Hg) as (E2 & F2 & -> & HE2 & HF2 & Hd2));
    unfold f64_bits, p63, p52 in *; intros H.
  - reflexivity.
  - exfalso. destruct n2; lia.
  - exfalso. destruct n2; lia.
  - exfalso. destruct n1; lia.
  - destruct n1, n2; try reflexivity; exfalso; lia.
  - exfalso. destruct n1, n2; lia.
  - exfalso. destruct n1; lia.
  - exfalso. destruct n1, n2; lia.
  - assert (n1 = n2) by (destruct n1, n2; try reflexivity; exfalso; lia). subst n2.
    assert (E1 = E2 /\ F1 = F2) by (destruct n1; lia).
    assert (m1 = m2 /\ e1 = e2) by lia.
    destruct H1 as [-> ->]. reflexivity.
Qed.

(* ---------- the decimal conversion as a ratio ---------- *)

(* c * 10^e as the ratio dec_num c e / dec_den e *)
Definition dec_num (c e : Z) : Z := if 0 <=? e then c * 10 ^ e else c.
Definition dec_den (e : Z) : Z := if 0 <=? e then 1 else 10 ^ (- e).

Lemma dec_den_pos e : 0 < dec_den e.
Proof.
  unfold dec_den. destruct (0 <=? e) eqn:E; [lia|apply Z.leb_gt in E].
  apply Z.pow_pos_nonneg; lia.
Qed.

Theorem f64_of_dec_ratio n c e : 0 <= c ->
  f64_of_dec (Fin n c e) = f64_of_ratio n (dec_num c e) (dec_den e).
Proof.
  intros Hc. rewrite f64_of_dec_spec_eq by exact Hc.
  unfold f64_of_dec_spec, dec_num, dec_den, pow10. destruct (0 <=? e); reflexivity.
Qed.

Theorem f64_of_dec_canon d :
  match d with Fin _ c _ => 0 <= c | _ => True end -> f64_canon (f64_of_dec d).
Proof.
  destruct d as [n c e|n|]; intros Hc; [|exact I|exact I].
  rewrite f64_of_dec_ratio by exact Hc.
  pose proof (f64_of_ratio_range n (dec_num c e) (dec_den e) (dec_den_pos e)) as H.
  destruct (f64_of_ratio n (dec_num c e) (dec_den e)); [exact I|exact I|apply H].
Qed.

(* ---------- (f) examples (bit patterns as math.Float64bits prints them) ---------- *)

Example f64_examples :
  map (fun d => f64_bits (f64_of_dec d))
    [ Fin false 1 (-1)                          (* 0.1                        3FB999999999999A *)
    ; Fin false 1 0                             (* 1                          3FF0000000000000 *)
    ; Fin false 5 (-324)                        (* 5e-324                     0000000000000001 *)
    ; Fin false 24703282292062327208 (-343)     (* 2.4703282292062327208e-324 0000000000000000 *)
    ; Fin false 24703282292062328 (-340)        (* 2.4703282292062328e-324    0000000000000001 *)
    ; Fin false 17976931348623157 292           (* 1.7976931348623157e308     7FEFFFFFFFFFFFFF *)
    ; Fin false 17976931348623158 292           (* 1.7976931348623158e308     7FEFFFFFFFFFFFFF *)
    ; Fin false 1797693134862315807 290         (* 1.797693134862315807e308   7FEFFFFFFFFFFFFF *)
    ; Fin false 1797693134862315808 290         (* 1.797693134862315808e308   7FF0000000000000 *)
    ; Fin false (2 ^ 1024 - 2 ^ 970 - 1) 0      (* just below the threshold   7FEFFFFFFFFFFFFF *)
    ; Fin false (2 ^ 1024 - 2 ^ 970) 0          (* the overflow threshold     7FF0000000000000 *)
    ; Fin false 9007199254740993 0              (* 2^53 + 1, a tie            4340000000000000 *)
    ; Fin false 9007199254740995 0              (* 2^53 + 3, a tie            4340000000000002 *)
    ; Fin true 0 0                              (* -0                         8000000000000000 *)
    ; Fin false 30000000000000004 (-17)         (* 0.30000000000000004        3FD3333333333334 *)
    ; Fin false 123456789 (-3)                  (* 123456.789                 40FE240C9FBE76C9 *)
    ; Fin false 22250738585072011 (-324)        (* 2.2250738585072011e-308    000FFFFFFFFFFFFF *)
    ; Fin false 22250738585072014 (-324)        (* 2.2250738585072014e-308    0010000000000000 *)
    ; Fin false 1 23                            (* 1e23                       44B52D02C7E14AF6 *)
    ; Fin false 1 1000000                       (* 1e1000000                  7FF0000000000000 *)
    ; Fin false 1 (-1000000)                    (* 1e-1000000                 0000000000000000 *)
    ; Fin true 1 400                            (* -1e400                     FFF0000000000000 *)
    ; Fin true 15 (-1)                          (* -1.5                       BFF8000000000000 *)
    ; Inf true                                  (* -Inf                       FFF0000000000000 *)
    ; NaN                                       (* NaN                        7FF8000000000001 *)
    ]
  = [ 4591870180066957722; 4607182418800017408; 1; 0; 1;
      9218868437227405311; 9218868437227405311; 9218868437227405311; 9218868437227405312;
      9218868437227405311; 9218868437227405312;
      4845873199050653696; 4845873199050653698; 9223372036854775808;
      4599075939470750516; 4683220299150161609; 4503599627370495; 4503599627370496;
      4950912855330343670; 9218868437227405312; 0; 18442240474082181120;
      13832806255468478464; 18442240474082181120; 9221120237041090561 ].
Proof. vm_compute. reflexivity. Qed.

Print Assumptions f64_of_ratio_range.
Print Assumptions f64_of_ratio_nearest.
Print Assumptions f64_of_ratio_tie_even.
Print Assumptions f64_of_ratio_inf_iff.
Print Assumptions f64_of_ratio_finite.
Print Assumptions f64_of_ratio_zero.
Print Assumptions f64_of_ratio_exact.
Print Assumptions f64_of_ratio_exact_canon.
Print Assumptions nearest_even_unique.
Print Assumptions f64_of_ratio_ext.
Print Assumptions f64_of_ratio_mono.
Print Assumptions f64_of_dec_spec_eq.
Print Assumptions f64_of_dec_ratio.
Print Assumptions f64_of_dec_canon.
Print Assumptions f64_of_dec_int.
Print Assumptions f64_bits_range.
Print Assumptions f64_bits_inj.
Print Assumptions f64_examples.
