(* Totality of the recovering parser of Syn/Parser.v, and what acceptance implies.

   1. parse_tokens_total     enough fuel: [parse_fuel] never runs out on a scanner-shaped stream
   2. parse_source_total_from  the same from source text, given the two scanner facts
   3. accepted_complete      an accepted tree has no missing node / missing colon / empty name
   4. accepted_consumed_all  acceptance means the parser stopped at the end-of-file token

   Method.  Fuel bounds recursion DEPTH.  The measure of a call is (number of tokens after the
   current one, rank of the function in the chain of calls that do not consume a token):
     rank 0  member_rest, parse_primary, parse_binary_rest, comma_loop
          1  call_rest   2  parse_unary   3  parse_binary   4  parse_assign
          5  parse_expression, delimited_list
   and [need n r = 6 * n + r + 1] fuel suffices.
   The file has three inductions on fuel, each over all functions at once:
     PC    (partial correctness) the output state is a suffix of the input state with at least
           as many diagnostics ([after]); under the function's consumption condition it is
           strictly shorter
     TERM  enough fuel -> Some
     CP    final diagnostics empty -> the tree is complete. *)
From Coq Require Import List ZArith Lia Bool Arith.
From Formula Require Import Syn.Parser Syn.Grammar.
Import ListNotations.
Local Open Scope Z_scope.

(* ------------------------------------------------------------------------------------------ *)
(* kinds                                                                                       *)

Lemma kind_code_inj a b : kind_code a = kind_code b -> a = b.
Proof.
  destruct a; destruct b; intros H; try reflexivity; vm_compute in H; discriminate H.
Qed.

Lemma kind_eqb_true a b : kind_eqb a b = true -> a = b.
Proof. unfold kind_eqb. intros H. apply Z.eqb_eq in H. apply kind_code_inj. exact H. Qed.

Lemma kind_eqb_refl a : kind_eqb a a = true.
Proof. unfold kind_eqb. apply Z.eqb_refl. Qed.

(* a test on kinds that fails on KEOF excludes KEOF *)
Lemma not_eof (P : kind -> bool) k : P KEOF = false -> P k = true -> k <> KEOF.
Proof. intros H0 H1 E. subst k. rewrite H0 in H1. discriminate H1. Qed.

Lemma prec_not_eof p k : 0 <= p -> (p <? prec_of k) = true -> k <> KEOF.
Proof.
  intros Hp H E. subst k. apply Z.ltb_lt in H. cbn in H. lia.
Qed.

(* consumption conditions *)
Definition c_prim (k : kind) : bool :=
  is_literal_start k || kind_eqb k KOpenParen || kind_eqb k KOpenBracket || is_identifier_kind k.
Definition c_unary (k : kind) : bool := is_prefix_op k || c_prim k.

(* every token that passes the gate of the list loop is consumed by an element parsed at
   precedence 0, except the comma of the array context *)
Lemma start_of_expression_consumed k :
  is_start_of_expression k = true -> (c_unary k || (0 <? prec_of k)) = true.
Proof. destruct k; intros H; try reflexivity; vm_compute in H; discriminate H. Qed.

(* ------------------------------------------------------------------------------------------ *)
(* diagnostics only grow                                                                       *)

Lemma add_diag_nonempty ds d : add_diag ds d <> [].
Proof.
  unfold add_diag. destruct ds as [|l ds']; [discriminate|].
  destruct (dstart l =? dstart d); discriminate.
Qed.

Lemma add_diags_nil new : forall ds, add_diags ds new = [] -> ds = [].
Proof.
  unfold add_diags. induction new as [|d new IH]; intros ds H; cbn in H; [exact H|].
  apply IH in H. exfalso. exact (add_diag_nonempty _ _ H).
Qed.

(* ------------------------------------------------------------------------------------------ *)
(* parser states                                                                               *)

Definition toks_of (s : pst) : list token := cur s :: rest s.
Definition len (s : pst) : nat := length (rest s).

(* [after s1 s]: s1 is reached from s by consuming tokens and adding diagnostics *)
Definition after (s1 s : pst) : Prop :=
  (exists pre, toks_of s = pre ++ toks_of s1) /\ (diags s1 = [] -> diags s = []).

Definition lt_st (s1 s : pst) : Prop := (len s1 < len s)%nat.

Lemma after_refl s : after s s.
Proof. split; [exists []; reflexivity | auto]. Qed.

Lemma after_trans s2 s1 s : after s2 s1 -> after s1 s -> after s2 s.
Proof.
  intros [[p2 E2] D2] [[p1 E1] D1]. split; [|auto].
  exists (p1 ++ p2). rewrite E1, E2. apply app_assoc.
Qed.

Lemma after_advance s : after (advance s) s.
Proof.
  unfold advance. destruct (rest s) as [|t r] eqn:E; [apply after_refl|].
  split.
  - exists [cur s]. unfold toks_of. rewrite E. reflexivity.
  - cbn [diags]. apply add_diags_nil.
Qed.

Lemma after_eac s c : after (error_at_current s c) s.
Proof.
  split; [exists []; reflexivity|].
  unfold error_at_current. cbn [diags]. intros H. exfalso. exact (add_diag_nonempty _ _ H).
Qed.

Lemma after_error_at s a b c : after (error_at s a b c) s.
Proof.
  split; [exists []; reflexivity|].
  unfold error_at. cbn [diags]. intros H. exfalso. exact (add_diag_nonempty _ _ H).
Qed.

Lemma after_want s k : after (want s k) s.
Proof. unfold want. destruct (at_kind s k); [apply after_advance | apply after_eac]. Qed.

Lemma after_len s1 s : after s1 s -> (len s1 <= len s)%nat.
Proof.
  intros [[pre E] _]. unfold len. unfold toks_of in E.
  apply (f_equal (@length token)) in E. rewrite app_length in E. cbn [length] in E. lia.
Qed.

(* either something was consumed or the tokens are untouched *)
Lemma after_cases s1 s : after s1 s -> lt_st s1 s \/ (cur s1 = cur s /\ rest s1 = rest s).
Proof.
  intros [[pre E] _]. unfold lt_st, len. unfold toks_of in E. destruct pre as [|a pre].
  - right. cbn in E. injection E as E1 E2. auto.
  - left. apply (f_equal (@length token)) in E. rewrite app_length in E. cbn [length] in E. lia.
Qed.

Lemma lt_after s2 s1 s : after s2 s1 -> lt_st s1 s -> lt_st s2 s.
Proof. intros A L. apply after_len in A. unfold lt_st in *. lia. Qed.

Lemma after_lt s2 s1 s : lt_st s2 s1 -> after s1 s -> lt_st s2 s.
Proof. intros L A. apply after_len in A. unfold lt_st in *. lia. Qed.

(* chains of [after] facts *)
Ltac aft_atom :=
  first [ eassumption | apply after_advance | apply after_eac | apply after_error_at | apply after_want ].
Ltac aft :=
  first [ assumption | apply after_refl | aft_atom
        | eapply after_trans; [ solve [aft_atom] | aft ] ].

(* the end-of-file token is last and only last: current token :: rest *)
Fixpoint ends_eof (c : token) (r : list token) : Prop :=
  match r with
  | [] => tk c = KEOF
  | t :: r' => tk c <> KEOF /\ ends_eof t r'
  end.

Definition st_ok (s : pst) : Prop := ends_eof (cur s) (rest s).

Lemma ends_eof_suffix : forall pre c r, ends_eof c r ->
  forall c1 r1, c :: r = pre ++ c1 :: r1 -> ends_eof c1 r1.
Proof.
  induction pre as [|a pre IH]; intros c r H c1 r1 E.
  - cbn in E. injection E as E1 E2. subst. exact H.
  - cbn in E. injection E as E1 E2. subst a.
    destruct pre as [|b pre].
    + cbn in E2. subst r. cbn in H. destruct H as [_ H]. exact H.
    + cbn in E2. subst r. cbn [ends_eof] in H. destruct H as [_ H].
      eapply IH; [exact H | reflexivity].
Qed.

Lemma after_st_ok s1 s : after s1 s -> st_ok s -> st_ok s1.
Proof.
  intros [[pre E] _] H. unfold st_ok in *. unfold toks_of in E.
  eapply ends_eof_suffix; [exact H | exact E].
Qed.

Lemma stream_ok_ends_eof t0 r : stream_ok (t0 :: r) -> ends_eof t0 r.
Proof.
  intros (pre & t & E & Ht & Hpre). revert t0 r E Hpre.
  induction pre as [|a pre IH]; intros t0 r E Hpre.
  - cbn in E. injection E as E1 E2. subst. exact Ht.
  - cbn in E. injection E as E1 E2. subst a.
    pose proof (Forall_inv Hpre) as Ha. pose proof (Forall_inv_tail Hpre) as Hp.
    destruct pre as [|b pre].
    + cbn in E2. subst r. cbn. auto.
    + cbn in E2. subst r. cbn [ends_eof]. split; [exact Ha|].
      apply IH; [reflexivity | exact Hp].
Qed.

(* the end-of-file token is never consumed: a guarded advance strictly shortens the input *)
Lemma adv_lt s : st_ok s -> tk (cur s) <> KEOF -> lt_st (advance s) s.
Proof.
  unfold st_ok, lt_st, len, advance. intros H N.
  destruct (rest s) as [|t r] eqn:E; [cbn in H; contradiction|].
  cbn [rest length]. lia.
Qed.

Lemma at_kind_true s k : at_kind s k = true -> tk (cur s) = k.
Proof. unfold at_kind. apply kind_eqb_true. Qed.

Lemma at_kind_not_eof s k : k <> KEOF -> at_kind s k = true -> tk (cur s) <> KEOF.
Proof. intros N H. apply at_kind_true in H. congruence. Qed.

(* ------------------------------------------------------------------------------------------ *)
(* one-step unfoldings of the fuel functions                                                   *)

Lemma member_rest_S f e s : member_rest (S f) e s =
  if tnl (cur s) then Some (e, s)
  else if at_kind s KDot || at_kind s KBangDot then
    let asrt := at_kind s KBangDot in
    let s1 := advance s in
    let '(nm, s2) := parse_right_side_of_dot s1 in
    member_rest f (ESel e nm asrt (epos e) (node_pos s2)) s2
  else Some (e, s).
Proof. reflexivity. Qed.

Lemma parse_expression_S f s : parse_expression (S f) s =
  (do (e, s1) <- parse_assign f s; comma_loop f e s1).
Proof. reflexivity. Qed.

Lemma comma_loop_S f l s : comma_loop (S f) l s =
  if at_kind s KComma then
    let t := cur s in
    let s1 := advance s in
    do (r, s2) <- parse_assign f s1;
    comma_loop f (EBin l KComma (tstart t) (node_pos s1) r (epos l) (node_pos s2)) s2
  else Some (l, s).
Proof. reflexivity. Qed.

Lemma parse_assign_S f s : parse_assign (S f) s =
  (do (e, s1) <- parse_binary f 0 s;
   if is_assignment_op (tk (cur s1)) then
     let t := cur s1 in
     let s2 := advance s1 in
     do (r, s3) <- parse_assign f s2;
     Some (EBin e (tk t) (tstart t) (node_pos s2) r (epos e) (node_pos s3), s3)
   else if at_kind s1 KQuestion then
     let q := cur s1 in
     let s2 := advance s1 in
     do (wt, s3) <- parse_assign f s2;
     let '(colon, cp, ce, s4) :=
       if at_kind s3 KColon then
         let s4 := advance s3 in (true, tstart (cur s3), node_pos s4, s4)
       else (false, node_pos s3, node_pos s3, error_at_current s3 C_0_expected) in
     do (wf, s5) <- parse_assign f s4;
     Some (ECond e (tstart q) (node_pos s2) wt colon cp ce wf (epos e) (node_pos s5), s5)
   else Some (e, s1)).
Proof. reflexivity. Qed.

Lemma parse_binary_S f p s : parse_binary (S f) p s =
  (do (l, s1) <- parse_unary f s; parse_binary_rest f p l s1).
Proof. reflexivity. Qed.

Lemma parse_binary_rest_S f p l s : parse_binary_rest (S f) p l s =
  let np := prec_of (tk (cur s)) in
  if p <? np then
    let t := cur s in
    let s1 := advance s in
    do (r, s2) <- parse_binary f np s1;
    parse_binary_rest f p (EBin l (tk t) (tstart t) (node_pos s1) r (epos l) (node_pos s2)) s2
  else Some (l, s).
Proof. reflexivity. Qed.

Lemma parse_unary_S f s : parse_unary (S f) s =
  let t := cur s in
  if is_prefix_op (tk t) then
    let s1 := advance s in
    do (x, s2) <- parse_unary f s1;
    Some (EPrefix (tk t) (tstart t) (node_pos s1) x (tstart t) (node_pos s2), s2)
  else if kind_eqb (tk t) KTypeof then
    let s1 := advance s in
    do (x, s2) <- parse_unary f s1;
    Some (ETypeof x (tstart t) (node_pos s2), s2)
  else
    do (e, s1) <- parse_primary f s;
    do (e2, s2) <- member_rest f e s1;
    call_rest f e2 s2.
Proof. reflexivity. Qed.

Lemma call_rest_S f e s : call_rest (S f) e s =
  if tnl (cur s) then Some (e, s)
  else
    do (e1, s1) <- member_rest f e s;
    if at_kind s1 KOpenParen && negb (tnl (cur s1)) then
      let s2 := advance s1 in
      let lp := node_pos s2 in
      do (args, s3) <- delimited_list f PArgs false s2;
      let le := node_pos s3 in
      let '(sp, s4) :=
        if at_kind s3 KDotDotDot then
          let s4 := advance s3 in (Some (tstart (cur s3), node_pos s4), s4)
        else (None, s3) in
      let s5 := want s4 KCloseParen in
      call_rest f (ECall e1 args lp le sp (epos e1) (node_pos s5)) s5
    else Some (e1, s1).
Proof. reflexivity. Qed.

Lemma parse_primary_S f s : parse_primary (S f) s =
  let t := cur s in
  if is_literal_start (tk t) then
    let s1 := advance s in Some (ELit (tk t) (tval t) (tstart t) (node_pos s1), s1)
  else if kind_eqb (tk t) KOpenParen then
    let s1 := advance s in
    do (x, s2) <- parse_expression f s1;
    let s3 := want s2 KCloseParen in
    Some (EParen x (tstart t) (node_pos s3), s3)
  else if kind_eqb (tk t) KOpenBracket then
    let s1 := advance s in
    let lp := node_pos s1 in
    do (es, s2) <- delimited_list f PArray false s1;
    let le := node_pos s2 in
    let s3 := want s2 KCloseBracket in
    Some (EArr es lp le (tstart t) (node_pos s3), s3)
  else Some (parse_identifier s C_Expression_expected).
Proof. reflexivity. Qed.

Lemma delimited_list_S f c trailing s : delimited_list (S f) c trailing s =
  if is_list_element c (tk (cur s)) then
    do (e, s1) <- parse_assign f s;
    if at_kind s1 KComma then
      match delimited_list f c true (advance s1) with
      | Some (es, s2) => Some (e :: es, s2)
      | None => None
      end
    else if is_list_terminator c (tk (cur s1)) then Some ([e], s1)
    else
      match delimited_list f c false (error_at_current s1 C_0_expected) with
      | Some (es, s2) => Some (e :: es, s2)
      | None => None
      end
  else if is_list_terminator c (tk (cur s)) then
    Some ([], if trailing then error_at_current s C_Trailing_comma else s)
  else delimited_list f c trailing (advance (error_at_current s (ctx_error c))).
Proof. reflexivity. Qed.

(* destruct the sub-call at the head of a [do] in hypothesis H *)
Ltac step H e s E :=
  match type of H with
  | context [match ?x with Some _ => _ | None => _ end] =>
    destruct x as [[e s]|] eqn:E; [|discriminate H]
  end.

(* ------------------------------------------------------------------------------------------ *)
(* PC: the non-recursive helpers and member_rest                                               *)

Lemma identifier_kind_not_eof k : is_identifier_kind k = true -> k <> KEOF.
Proof. apply not_eof. reflexivity. Qed.

Lemma pc_identifier s code e s1 : parse_identifier s code = (e, s1) ->
  after s1 s /\ (st_ok s -> is_identifier_kind (tk (cur s)) = true -> lt_st s1 s).
Proof.
  unfold parse_identifier. destruct (is_identifier_kind (tk (cur s))) eqn:Hi;
    cbv zeta; intros H; injection H as He Hs; subst e s1; (split; [aft|]).
  - intros Hok _. apply adv_lt; [exact Hok|]. apply identifier_kind_not_eof. exact Hi.
  - intros _ D. discriminate D.
Qed.

Lemma pc_right_side_of_dot s e s1 : parse_right_side_of_dot s = (e, s1) -> after s1 s.
Proof.
  unfold parse_right_side_of_dot. cbv zeta.
  match goal with |- (if ?b then _ else _) = _ -> _ => destruct b end.
  - intros H. injection H as He Hs. subst e s1. aft.
  - intros H. apply pc_identifier in H. apply H.
Qed.

Lemma pc_member : forall f e0 s e s1, member_rest f e0 s = Some (e, s1) -> after s1 s.
Proof.
  induction f as [|f IH]; intros e0 s e s1 H; [discriminate H|].
  rewrite member_rest_S in H.
  destruct (tnl (cur s)); [injection H as He Hs; subst; aft|].
  destruct (at_kind s KDot || at_kind s KBangDot); [|injection H as He Hs; subst; aft].
  cbv zeta in H.
  destruct (parse_right_side_of_dot (advance s)) as [nm s2] eqn:Hr.
  apply pc_right_side_of_dot in Hr. apply IH in H. aft.
Qed.

(* ------------------------------------------------------------------------------------------ *)
(* PC: the mutually recursive functions                                                        *)

Definition PC (f : nat) : Prop :=
  (forall s e s1, parse_expression f s = Some (e, s1) -> after s1 s) /\
  (forall l s e s1, comma_loop f l s = Some (e, s1) -> after s1 s) /\
  (forall s e s1, parse_assign f s = Some (e, s1) ->
     after s1 s /\
     (st_ok s -> (c_unary (tk (cur s)) || (0 <? prec_of (tk (cur s)))) = true -> lt_st s1 s)) /\
  (forall p s e s1, parse_binary f p s = Some (e, s1) ->
     after s1 s /\
     (st_ok s -> 0 <= p -> (c_unary (tk (cur s)) || (p <? prec_of (tk (cur s)))) = true ->
      lt_st s1 s)) /\
  (forall p l s e s1, parse_binary_rest f p l s = Some (e, s1) ->
     after s1 s /\
     (st_ok s -> 0 <= p -> (p <? prec_of (tk (cur s))) = true -> lt_st s1 s)) /\
  (forall s e s1, parse_unary f s = Some (e, s1) ->
     after s1 s /\ (st_ok s -> c_unary (tk (cur s)) = true -> lt_st s1 s)) /\
  (forall e0 s e s1, call_rest f e0 s = Some (e, s1) -> after s1 s) /\
  (forall s e s1, parse_primary f s = Some (e, s1) ->
     after s1 s /\ (st_ok s -> c_prim (tk (cur s)) = true -> lt_st s1 s)) /\
  (forall c tr s es s1, delimited_list f c tr s = Some (es, s1) -> after s1 s).

Lemma pc : forall f, PC f.
Proof.
  induction f as [|f (IHexp & IHcom & IHasg & IHbin & IHbrs & IHun & IHcall & IHprim & IHlist)].
  { unfold PC. repeat (split; [intros; discriminate|]). intros; discriminate. }
  unfold PC.
  refine (conj _ (conj _ (conj _ (conj _ (conj _ (conj _ (conj _ (conj _ _)))))))).
  - (* parse_expression *)
    intros s e s' H. rewrite parse_expression_S in H.
    step H e1 s1 H1. apply IHasg in H1 as [A1 _]. apply IHcom in H. aft.
  - (* comma_loop *)
    intros l s e s' H. rewrite comma_loop_S in H.
    destruct (at_kind s KComma); [|injection H as He Hs; subst; aft].
    cbv zeta in H. step H r s2 H2. apply IHasg in H2 as [A2 _]. apply IHcom in H. aft.
  - (* parse_assign *)
    intros s e s' H. rewrite parse_assign_S in H.
    step H e1 s1 H1. apply IHbin in H1 as [A1 C1].
    assert (C : forall s3, after s3 s1 -> st_ok s ->
              (c_unary (tk (cur s)) || (0 <? prec_of (tk (cur s)))) = true -> lt_st s3 s).
    { intros s3 A3 Hok Hc. eapply lt_after; [exact A3|]. apply C1; [exact Hok | lia | exact Hc]. }
    destruct (is_assignment_op (tk (cur s1))).
    { cbv zeta in H. step H r s3 H3. apply IHasg in H3 as [A3 _].
      injection H as He Hs; subst e s'.
      assert (A : after s3 s1) by aft. split; [aft | apply C; exact A]. }
    destruct (at_kind s1 KQuestion); [|injection H as He Hs; subst e s'; split; [aft | apply C; aft]].
    cbv zeta in H. step H wt s3 H3. apply IHasg in H3 as [A3 _].
    destruct (at_kind s3 KColon); cbv beta iota zeta in H;
      step H wfl s5 H5; apply IHasg in H5 as [A5 _]; injection H as He Hs; subst e s';
      (assert (A : after s5 s1) by aft); (split; [aft | apply C; exact A]).
  - (* parse_binary *)
    intros p s e s' H. rewrite parse_binary_S in H.
    step H l s1 H1. apply IHun in H1 as [A1 C1]. apply IHbrs in H as [A2 C2].
    split; [aft|]. intros Hok Hp Hc.
    destruct (after_cases _ _ A1) as [L | [Ec Er]]; [eapply lt_after; eassumption|].
    destruct (c_unary (tk (cur s))) eqn:Hu.
    + eapply lt_after; [exact A2 | apply C1; auto].
    + cbn [orb] in Hc. eapply after_lt; [|exact A1].
      apply C2; [eapply after_st_ok; eassumption | exact Hp | rewrite Ec; exact Hc].
  - (* parse_binary_rest *)
    intros p l s e s' H. rewrite parse_binary_rest_S in H. cbv zeta in H.
    destruct (p <? prec_of (tk (cur s))) eqn:Hlt.
    + step H r s2 H2. apply IHbin in H2 as [A2 _]. apply IHbrs in H as [A3 _].
      split; [aft|]. intros Hok Hp _.
      eapply lt_after; [eapply after_trans; eassumption|].
      apply adv_lt; [exact Hok | eapply prec_not_eof; eassumption].
    + injection H as He Hs; subst. split; [aft|]. intros _ _ D. discriminate D.
  - (* parse_unary *)
    intros s e s' H. rewrite parse_unary_S in H. cbv zeta in H.
    destruct (is_prefix_op (tk (cur s))) eqn:Hpre.
    { step H x s2 H2. apply IHun in H2 as [A2 _]. injection H as He Hs; subst e s'.
      split; [aft|]. intros Hok _. eapply lt_after; [exact A2|].
      apply adv_lt; [exact Hok|]. revert Hpre. apply not_eof. reflexivity. }
    destruct (kind_eqb (tk (cur s)) KTypeof) eqn:Hty.
    { step H x s2 H2. apply IHun in H2 as [A2 _]. injection H as He Hs; subst e s'.
      split; [aft|]. intros Hok _. eapply lt_after; [exact A2|].
      apply adv_lt; [exact Hok|]. apply kind_eqb_true in Hty. rewrite Hty. discriminate. }
    step H e1 s1 H1. step H e2 s2 H2.
    apply IHprim in H1 as [A1 C1]. apply pc_member in H2. apply IHcall in H.
    split; [aft|]. intros Hok Hc. unfold c_unary in Hc. rewrite Hpre in Hc. cbn [orb] in Hc.
    eapply lt_after; [eapply after_trans; eassumption|]. apply C1; assumption.
  - (* call_rest *)
    intros e0 s e s' H. rewrite call_rest_S in H.
    destruct (tnl (cur s)); [injection H as He Hs; subst; aft|].
    step H e1 s1 H1. apply pc_member in H1.
    destruct (at_kind s1 KOpenParen && negb (tnl (cur s1))); [|injection H as He Hs; subst; aft].
    cbv zeta in H. step H args s3 H3. apply IHlist in H3.
    destruct (at_kind s3 KDotDotDot); cbv beta iota zeta in H; apply IHcall in H; aft.
  - (* parse_primary *)
    intros s e s' H. rewrite parse_primary_S in H. cbv zeta in H.
    destruct (is_literal_start (tk (cur s))) eqn:Hlit.
    { injection H as He Hs; subst e s'. split; [aft|]. intros Hok _.
      apply adv_lt; [exact Hok|]. revert Hlit. apply not_eof. reflexivity. }
    destruct (kind_eqb (tk (cur s)) KOpenParen) eqn:Hop.
    { step H x s2 H2. apply IHexp in H2. injection H as He Hs; subst e s'.
      split; [aft|]. intros Hok _.
      eapply lt_after; [eapply after_trans; [apply after_want | exact H2]|].
      apply adv_lt; [exact Hok|]. apply kind_eqb_true in Hop. rewrite Hop. discriminate. }
    destruct (kind_eqb (tk (cur s)) KOpenBracket) eqn:Hob.
    { step H es s2 H2. apply IHlist in H2. injection H as He Hs; subst e s'.
      split; [aft|]. intros Hok _.
      eapply lt_after; [eapply after_trans; [apply after_want | exact H2]|].
      apply adv_lt; [exact Hok|]. apply kind_eqb_true in Hob. rewrite Hob. discriminate. }
    injection H as H. destruct (parse_identifier s C_Expression_expected) as [e0 s0] eqn:Hid.
    injection H as He Hs; subst e0 s0.
    apply pc_identifier in Hid as [A C]. split; [exact A|]. intros Hok Hc. apply C; [exact Hok|].
    unfold c_prim in Hc. rewrite Hlit, Hop, Hob in Hc. cbn [orb] in Hc. exact Hc.
  - (* delimited_list *)
    intros c tr s es s' H. rewrite delimited_list_S in H.
    destruct (is_list_element c (tk (cur s))).
    { step H e1 s1 H1. apply IHasg in H1 as [A1 _].
      destruct (at_kind s1 KComma).
      { step H es2 s2 H2. apply IHlist in H2. injection H as He Hs; subst. aft. }
      destruct (is_list_terminator c (tk (cur s1))); [injection H as He Hs; subst; aft|].
      step H es2 s2 H2. apply IHlist in H2. injection H as He Hs; subst. aft. }
    destruct (is_list_terminator c (tk (cur s))).
    { injection H as He Hs; subst. destruct tr; aft. }
    apply IHlist in H. aft.
Qed.

Lemma pc_expression f s e s1 : parse_expression f s = Some (e, s1) -> after s1 s.
Proof. destruct (pc f) as (H & _). apply H. Qed.
Lemma pc_comma f l s e s1 : comma_loop f l s = Some (e, s1) -> after s1 s.
Proof. destruct (pc f) as (_ & H & _). apply H. Qed.
Lemma pc_assign f s e s1 : parse_assign f s = Some (e, s1) ->
  after s1 s /\
  (st_ok s -> (c_unary (tk (cur s)) || (0 <? prec_of (tk (cur s)))) = true -> lt_st s1 s).
Proof. destruct (pc f) as (_ & _ & H & _). apply H. Qed.
Lemma pc_binary f p s e s1 : parse_binary f p s = Some (e, s1) -> after s1 s.
Proof. destruct (pc f) as (_ & _ & _ & H & _). apply H. Qed.
Lemma pc_binary_rest f p l s e s1 : parse_binary_rest f p l s = Some (e, s1) -> after s1 s.
Proof. destruct (pc f) as (_ & _ & _ & _ & H & _). apply H. Qed.
Lemma pc_unary f s e s1 : parse_unary f s = Some (e, s1) -> after s1 s.
Proof. destruct (pc f) as (_ & _ & _ & _ & _ & H & _). apply H. Qed.
Lemma pc_call f e0 s e s1 : call_rest f e0 s = Some (e, s1) -> after s1 s.
Proof. destruct (pc f) as (_ & _ & _ & _ & _ & _ & H & _). apply H. Qed.
Lemma pc_primary f s e s1 : parse_primary f s = Some (e, s1) -> after s1 s.
Proof. destruct (pc f) as (_ & _ & _ & _ & _ & _ & _ & H & _). apply H. Qed.
Lemma pc_list f c tr s es s1 : delimited_list f c tr s = Some (es, s1) -> after s1 s.
Proof. destruct (pc f) as (_ & _ & _ & _ & _ & _ & _ & _ & H). apply H. Qed.

(* ------------------------------------------------------------------------------------------ *)
(* TERM: enough fuel -> Some                                                                   *)

Definition need (n r : nat) : nat := 6 * n + r + 1.

(* [st_ok x] from [st_ok y] when x is after y *)
Ltac ok :=
  match goal with
  | H : st_ok ?y |- st_ok ?x => first [ exact H | apply (after_st_ok x y); [aft | exact H] ]
  end.

(* fuel side conditions: turn every [after] fact into an inequality on lengths *)
Ltac lens :=
  unfold need, lt_st in *;
  repeat match goal with H : after _ _ |- _ => apply after_len in H end;
  lia.

Ltac red1 := cbv beta iota zeta.

Lemma term_member : forall f e s, st_ok s -> (len s < f)%nat ->
  exists r, member_rest f e s = Some r.
Proof.
  induction f as [|f IH]; intros e s Hok Hf; [lia|].
  rewrite member_rest_S.
  destruct (tnl (cur s)); [eauto|].
  destruct (at_kind s KDot || at_kind s KBangDot) eqn:Hd; [|eauto].
  cbv zeta.
  destruct (parse_right_side_of_dot (advance s)) as [nm s2] eqn:Hr.
  pose proof (pc_right_side_of_dot _ _ _ Hr) as A.
  assert (L : lt_st (advance s) s).
  { apply adv_lt; [exact Hok|].
    apply orb_true_iff in Hd as [Hd|Hd]; (eapply at_kind_not_eof; [|exact Hd]); discriminate. }
  pose proof (after_advance s) as A0.
  apply IH; [ok | lens].
Qed.

Definition TERM (f : nat) : Prop :=
  (forall s, st_ok s -> (need (len s) 5 <= f)%nat -> exists r, parse_expression f s = Some r) /\
  (forall l s, st_ok s -> (need (len s) 0 <= f)%nat -> exists r, comma_loop f l s = Some r) /\
  (forall s, st_ok s -> (need (len s) 4 <= f)%nat -> exists r, parse_assign f s = Some r) /\
  (forall p s, st_ok s -> 0 <= p -> (need (len s) 3 <= f)%nat ->
     exists r, parse_binary f p s = Some r) /\
  (forall p l s, st_ok s -> 0 <= p -> (need (len s) 0 <= f)%nat ->
     exists r, parse_binary_rest f p l s = Some r) /\
  (forall s, st_ok s -> (need (len s) 2 <= f)%nat -> exists r, parse_unary f s = Some r) /\
  (forall e0 s, st_ok s -> (need (len s) 1 <= f)%nat -> exists r, call_rest f e0 s = Some r) /\
  (forall s, st_ok s -> (need (len s) 0 <= f)%nat -> exists r, parse_primary f s = Some r) /\
  (forall c tr s, st_ok s -> (need (len s) 5 <= f)%nat ->
     exists r, delimited_list f c tr s = Some r).

Lemma term : forall f, TERM f.
Proof.
  induction f as [|f (IHexp & IHcom & IHasg & IHbin & IHbrs & IHun & IHcall & IHprim & IHlist)].
  { unfold TERM, need. repeat (split; [intros; lia|]). intros; lia. }
  unfold TERM.
  refine (conj _ (conj _ (conj _ (conj _ (conj _ (conj _ (conj _ (conj _ _)))))))).
  - (* parse_expression *)
    intros s Hok Hf. rewrite parse_expression_S.
    destruct (IHasg s Hok) as [[e1 s1] H1]; [lens|]. rewrite H1; red1.
    pose proof (pc_assign _ _ _ _ H1) as [A1 _].
    apply IHcom; [ok | lens].
  - (* comma_loop *)
    intros l s Hok Hf. rewrite comma_loop_S.
    destruct (at_kind s KComma) eqn:Hc; [|eauto]. cbv zeta.
    assert (L : lt_st (advance s) s).
    { apply adv_lt; [exact Hok|]. eapply at_kind_not_eof; [|exact Hc]. discriminate. }
    pose proof (after_advance s) as A0.
    destruct (IHasg (advance s)) as [[r s2] H2]; [ok | lens |]. rewrite H2; red1.
    pose proof (pc_assign _ _ _ _ H2) as [A2 _].
    apply IHcom; [ok | lens].
  - (* parse_assign *)
    intros s Hok Hf. rewrite parse_assign_S.
    destruct (IHbin 0 s Hok) as [[e1 s1] H1]; [lia | lens |]. rewrite H1; red1.
    pose proof (pc_binary _ _ _ _ _ H1) as A1.
    destruct (is_assignment_op (tk (cur s1))) eqn:Ha.
    { assert (L : lt_st (advance s1) s1).
      { apply adv_lt; [ok|]. revert Ha. apply not_eof. reflexivity. }
      pose proof (after_advance s1) as A2.
      destruct (IHasg (advance s1)) as [[r s3] H3]; [ok | lens |]. rewrite H3; red1. eauto. }
    destruct (at_kind s1 KQuestion) eqn:Hq; [|eauto].
    assert (L : lt_st (advance s1) s1).
    { apply adv_lt; [ok|]. eapply at_kind_not_eof; [|exact Hq]. discriminate. }
    pose proof (after_advance s1) as A2.
    destruct (IHasg (advance s1)) as [[wt s3] H3]; [ok | lens |]. rewrite H3; red1.
    pose proof (pc_assign _ _ _ _ H3) as [A3 _].
    destruct (at_kind s3 KColon); red1.
    + pose proof (after_advance s3) as A4.
      destruct (IHasg (advance s3)) as [[wfl s5] H5]; [ok | lens |]. rewrite H5; red1. eauto.
    + pose proof (after_eac s3 C_0_expected) as A4.
      destruct (IHasg (error_at_current s3 C_0_expected)) as [[wfl s5] H5]; [ok | lens |].
      rewrite H5; red1. eauto.
  - (* parse_binary *)
    intros p s Hok Hp Hf. rewrite parse_binary_S.
    destruct (IHun s Hok) as [[l s1] H1]; [lens|]. rewrite H1; red1.
    pose proof (pc_unary _ _ _ _ H1) as A1.
    apply IHbrs; [ok | exact Hp | lens].
  - (* parse_binary_rest *)
    intros p l s Hok Hp Hf. rewrite parse_binary_rest_S. cbv zeta.
    destruct (p <? prec_of (tk (cur s))) eqn:Hlt; [|eauto].
    assert (L : lt_st (advance s) s).
    { apply adv_lt; [exact Hok|]. eapply prec_not_eof; eassumption. }
    pose proof (after_advance s) as A0. apply Z.ltb_lt in Hlt.
    destruct (IHbin (prec_of (tk (cur s))) (advance s)) as [[r s2] H2]; [ok | lia | lens |].
    rewrite H2; red1. pose proof (pc_binary _ _ _ _ _ H2) as A2.
    apply IHbrs; [ok | exact Hp | lens].
  - (* parse_unary *)
    intros s Hok Hf. rewrite parse_unary_S. cbv zeta.
    destruct (is_prefix_op (tk (cur s))) eqn:Hpre.
    { assert (L : lt_st (advance s) s).
      { apply adv_lt; [exact Hok|]. revert Hpre. apply not_eof. reflexivity. }
      pose proof (after_advance s) as A0.
      destruct (IHun (advance s)) as [[x s2] H2]; [ok | lens |]. rewrite H2; red1. eauto. }
    destruct (kind_eqb (tk (cur s)) KTypeof) eqn:Hty.
    { assert (L : lt_st (advance s) s).
      { apply adv_lt; [exact Hok|]. apply kind_eqb_true in Hty. rewrite Hty. discriminate. }
      pose proof (after_advance s) as A0.
      destruct (IHun (advance s)) as [[x s2] H2]; [ok | lens |]. rewrite H2; red1. eauto. }
    destruct (IHprim s Hok) as [[e1 s1] H1]; [lens|]. rewrite H1; red1.
    pose proof (pc_primary _ _ _ _ H1) as A1.
    destruct (term_member f e1 s1) as [[e2 s2] H2]; [ok | lens |]. rewrite H2; red1.
    pose proof (pc_member _ _ _ _ _ H2) as A2.
    apply IHcall; [ok | lens].
  - (* call_rest *)
    intros e0 s Hok Hf. rewrite call_rest_S.
    destruct (tnl (cur s)); [eauto|].
    destruct (term_member f e0 s) as [[e1 s1] H1]; [ok | lens |]. rewrite H1; red1.
    pose proof (pc_member _ _ _ _ _ H1) as A1.
    destruct (at_kind s1 KOpenParen && negb (tnl (cur s1))) eqn:Hop; [|eauto].
    apply andb_true_iff in Hop as [Hop _].
    assert (L : lt_st (advance s1) s1).
    { apply adv_lt; [ok|]. eapply at_kind_not_eof; [|exact Hop]. discriminate. }
    pose proof (after_advance s1) as A2.
    destruct (IHlist PArgs false (advance s1)) as [[args s3] H3]; [ok | lens |].
    rewrite H3; red1. pose proof (pc_list _ _ _ _ _ _ H3) as A3.
    destruct (at_kind s3 KDotDotDot); red1.
    + assert (A5 : after (want (advance s3) KCloseParen) s3) by aft.
      apply IHcall; [ok | lens].
    + pose proof (after_want s3 KCloseParen) as A5.
      apply IHcall; [ok | lens].
  - (* parse_primary *)
    intros s Hok Hf. rewrite parse_primary_S. cbv zeta.
    destruct (is_literal_start (tk (cur s))); [eauto|].
    destruct (kind_eqb (tk (cur s)) KOpenParen) eqn:Hop.
    { assert (L : lt_st (advance s) s).
      { apply adv_lt; [exact Hok|]. apply kind_eqb_true in Hop. rewrite Hop. discriminate. }
      pose proof (after_advance s) as A0.
      destruct (IHexp (advance s)) as [[x s2] H2]; [ok | lens |]. rewrite H2; red1. eauto. }
    destruct (kind_eqb (tk (cur s)) KOpenBracket) eqn:Hob.
    { assert (L : lt_st (advance s) s).
      { apply adv_lt; [exact Hok|]. apply kind_eqb_true in Hob. rewrite Hob. discriminate. }
      pose proof (after_advance s) as A0.
      destruct (IHlist PArray false (advance s)) as [[es s2] H2]; [ok | lens |].
      rewrite H2; red1. eauto. }
    eauto.
  - (* delimited_list *)
    intros c tr s Hok Hf. rewrite delimited_list_S.
    destruct (is_list_element c (tk (cur s))) eqn:Hel.
    { destruct (IHasg s Hok) as [[e1 s1] H1]; [lens|]. rewrite H1; red1.
      pose proof (pc_assign _ _ _ _ H1) as [A1 C1].
      destruct (at_kind s1 KComma) eqn:Hcm.
      { assert (L : lt_st (advance s1) s1).
        { apply adv_lt; [ok|]. eapply at_kind_not_eof; [|exact Hcm]. discriminate. }
        pose proof (after_advance s1) as A2.
        destruct (IHlist c true (advance s1)) as [[es s2] H2]; [ok | lens |].
        rewrite H2. eauto. }
      destruct (is_list_terminator c (tk (cur s1))); [eauto|].
      (* the element passed the gate, so it consumed a token: no progress is impossible *)
      assert (L : lt_st s1 s).
      { destruct (is_start_of_expression (tk (cur s))) eqn:Hst.
        - apply C1; [exact Hok | apply start_of_expression_consumed; exact Hst].
        - destruct (after_cases _ _ A1) as [L | [Ec Er]]; [exact L|]. exfalso.
          destruct c; cbn [is_list_element] in Hel; [congruence|].
          rewrite Hst, orb_false_r in Hel.
          unfold at_kind in Hcm. rewrite Ec in Hcm. congruence. }
      pose proof (after_eac s1 C_0_expected) as A2.
      destruct (IHlist c false (error_at_current s1 C_0_expected)) as [[es s2] H2]; [ok | lens |].
      rewrite H2. eauto. }
    destruct (is_list_terminator c (tk (cur s))) eqn:Hterm; [eauto|].
    assert (N : tk (cur s) <> KEOF).
    { intros E. rewrite E in Hterm. destruct c; vm_compute in Hterm; discriminate Hterm. }
    assert (L : lt_st (advance (error_at_current s (ctx_error c))) s).
    { apply (adv_lt (error_at_current s (ctx_error c))); [exact Hok | exact N]. }
    assert (A : after (advance (error_at_current s (ctx_error c))) s) by aft.
    apply IHlist; [ok | lens].
Qed.

(* ------------------------------------------------------------------------------------------ *)
(* theorems 1 and 2                                                                            *)

Theorem parse_tokens_total : forall toks,
  stream_ok toks -> parse_tokens (parse_fuel (length toks)) toks <> OutOfFuel.
Proof.
  intros toks H. destruct toks as [|t0 r].
  { destruct H as (pre & t & E & _). destruct pre; discriminate E. }
  unfold parse_tokens. cbv zeta.
  destruct (term (parse_fuel (length (t0 :: r)))) as (T & _).
  destruct (T (mkSt t0 r (add_diags [] (tdiags t0)))) as [[e s1] H1].
  - unfold st_ok. cbn [cur rest]. apply stream_ok_ends_eof. exact H.
  - unfold need, parse_fuel, len. cbn [rest length]. lia.
  - rewrite H1. red1.
    destruct (rev (diags (advance (if at_kind s1 KEOF then s1 else error_at_current s1 C_0_expected))));
      discriminate.
Qed.

(* the hypothesis of theorem 1 is satisfiable on a non-trivial stream: "a +" then end of file;
   the parser recovers (the right operand is missing) and returns a tree with a diagnostic *)
Definition ex_toks : list token :=
  [mkTok KIdent [97] 0 0 1 false []; mkTok KPlus [] 1 2 3 false []; mkTok KEOF [] 3 3 3 false []].

Example ex_toks_stream_ok : stream_ok ex_toks.
Proof.
  exists [mkTok KIdent [97] 0 0 1 false []; mkTok KPlus [] 1 2 3 false []],
         (mkTok KEOF [] 3 3 3 false []).
  split; [reflexivity|]. split; [reflexivity|].
  repeat constructor; discriminate.
Qed.

Example ex_toks_total : parse_tokens (parse_fuel (length ex_toks)) ex_toks <> OutOfFuel.
Proof. apply parse_tokens_total. exact ex_toks_stream_ok. Qed.

Example ex_toks_result :
  parse_tokens (parse_fuel (length ex_toks)) ex_toks =
  Rejected (3, 0, C_Expression_expected) [(3, 0, C_Expression_expected)]
           (EBin (EIdent KIdent [97] 0 1) KPlus 1 3 (EMissing 3) 0 3).
Proof. vm_compute. reflexivity. Qed.

(* theorem 2, from the two scanner facts (Proofs/ScannerFacts.v: scan_all_total,
   stream_ends_with_eof) taken as hypotheses *)
Theorem parse_source_total_from :
  (forall text, exists toks, scan_all text = Some toks) ->
  (forall text toks, scan_all text = Some toks -> stream_ok toks) ->
  forall text, parse_source text <> OutOfFuel.
Proof.
  intros Hscan Hok text. unfold parse_source.
  destruct (Hscan text) as [toks E]. rewrite E.
  apply parse_tokens_total. eapply Hok. exact E.
Qed.

(* ------------------------------------------------------------------------------------------ *)
(* CP: final diagnostics empty -> complete tree                                                *)

(* Hypotheses on the token records (both follow from the scanner's tiling theorem, see
   Lex/ScanSpec.v [tiles]); kept as hypotheses of theorem 3. *)
Definition tok_sane (t : token) : Prop :=
  tstart t <= tpos t /\
  (tk t <> KEOF -> tpos t < tend t) /\
  (is_identifier_kind (tk t) = true -> tval t <> []).

(* each token's leading trivia starts where the previous token ends *)
Fixpoint contiguous (toks : list token) : Prop :=
  match toks with
  | a :: ((b :: _) as l) => tstart b = tend a /\ contiguous l
  | _ => True
  end.

Definition sane_st (s : pst) : Prop := Forall tok_sane (toks_of s) /\ contiguous (toks_of s).

Lemma contiguous_suffix pre l : contiguous (pre ++ l) -> contiguous l.
Proof.
  induction pre as [|a pre IH]; [auto|].
  cbn [app]. intros H. apply IH.
  destruct (pre ++ l) as [|b m]; [exact I|]. exact (proj2 H).
Qed.

Lemma after_sane s1 s : after s1 s -> sane_st s -> sane_st s1.
Proof.
  intros [[pre E] _] [F C]. rewrite E in F, C. split.
  - apply Forall_app in F. apply F.
  - eapply contiguous_suffix. exact C.
Qed.

(* the state is not stuck on a last token other than end of file (without [stream_ok] the
   token list may end early; then [advance] stays put and the final check reports an error) *)
Definition live (s : pst) : Prop := rest s <> [] \/ tk (cur s) = KEOF.
Definition fin (s : pst) : Prop := diags s = [] /\ live s.

Lemma fin_after s1 s : after s1 s -> fin s1 -> fin s.
Proof.
  intros A [D L]. split; [apply A; exact D|].
  destruct A as [[pre E] _]. unfold live in *. unfold toks_of in E.
  destruct (rest s) as [|t r] eqn:Er; [|left; discriminate].
  right. destruct pre as [|a pre].
  - cbn in E. injection E as E1 E2. destruct L as [L|L]; congruence.
  - cbn in E. injection E as _ E2. destruct pre; discriminate E2.
Qed.

Lemma fin_eac s c : fin (error_at_current s c) -> False.
Proof. intros [D _]. unfold error_at_current in D. cbn [diags] in D. exact (add_diag_nonempty _ _ D). Qed.

Lemma fin_error_at s a b c : fin (error_at s a b c) -> False.
Proof. intros [D _]. unfold error_at in D. cbn [diags] in D. exact (add_diag_nonempty _ _ D). Qed.

Fixpoint all_complete (l : list expr) : Prop :=
  match l with [] => True | a :: t => complete a /\ all_complete t end.

Lemma complete_arr es lp le p e : complete (EArr es lp le p e) = all_complete es.
Proof. reflexivity. Qed.

Lemma complete_call f args lp le sp p e :
  complete (ECall f args lp le sp p e) = (complete f /\ all_complete args).
Proof. reflexivity. Qed.

Ltac finb :=
  match goal with
  | F : fin ?y |- fin ?x => first [ exact F | apply (fin_after y x); [aft | exact F] ]
  end.
Ltac sane :=
  match goal with
  | F : sane_st ?y |- sane_st ?x => first [ exact F | apply (after_sane x y); [aft | exact F] ]
  end.

Lemma cp_identifier s code e s1 : parse_identifier s code = (e, s1) ->
  sane_st s -> fin s1 -> complete e.
Proof.
  unfold parse_identifier. destruct (is_identifier_kind (tk (cur s))) eqn:Hi;
    cbv zeta; intros H; injection H as He Hs; subst e s1.
  - intros [F C] [D L]. cbn [complete].
    pose proof (Forall_inv F) as (S1 & S2 & S3). pose proof (identifier_kind_not_eof _ Hi) as N.
    split; [apply S3; exact Hi|].
    unfold node_pos, advance, live in *. unfold toks_of in C.
    destruct (rest s) as [|t2 r] eqn:Er.
    + exfalso. rewrite Er in L. destruct L as [L|L]; [apply L; reflexivity | exact (N L)].
    + cbn [cur]. destruct C as [C _]. specialize (S2 N). lia.
  - intros _ F. exfalso. exact (fin_eac _ _ F).
Qed.

Lemma cp_right_side_of_dot s e s1 : parse_right_side_of_dot s = (e, s1) ->
  sane_st s -> fin s1 -> complete e.
Proof.
  unfold parse_right_side_of_dot. cbv zeta.
  match goal with |- (if ?b then _ else _) = _ -> _ => destruct b end.
  - intros H. injection H as He Hs. subst e s1. intros _ F. exfalso. exact (fin_error_at _ _ _ _ F).
  - apply cp_identifier.
Qed.

Lemma cp_member : forall f e0 s e s1, member_rest f e0 s = Some (e, s1) ->
  sane_st s -> fin s1 -> complete e0 -> complete e.
Proof.
  induction f as [|f IH]; intros e0 s e s1 H Hs Hf He0; [discriminate H|].
  rewrite member_rest_S in H.
  destruct (tnl (cur s)); [injection H as He _; subst; exact He0|].
  destruct (at_kind s KDot || at_kind s KBangDot); [|injection H as He _; subst; exact He0].
  cbv zeta in H.
  destruct (parse_right_side_of_dot (advance s)) as [nm s2] eqn:Hr.
  pose proof (pc_right_side_of_dot _ _ _ Hr) as A1. pose proof (pc_member _ _ _ _ _ H) as A2.
  eapply IH; [exact H | sane | exact Hf |].
  cbn [complete]. split; [exact He0|].
  eapply cp_right_side_of_dot; [exact Hr | sane | finb].
Qed.

Definition CP (f : nat) : Prop :=
  (forall s e s1, parse_expression f s = Some (e, s1) -> sane_st s -> fin s1 -> complete e) /\
  (forall l s e s1, comma_loop f l s = Some (e, s1) -> sane_st s -> fin s1 ->
     complete l -> complete e) /\
  (forall s e s1, parse_assign f s = Some (e, s1) -> sane_st s -> fin s1 -> complete e) /\
  (forall p s e s1, parse_binary f p s = Some (e, s1) -> sane_st s -> fin s1 -> complete e) /\
  (forall p l s e s1, parse_binary_rest f p l s = Some (e, s1) -> sane_st s -> fin s1 ->
     complete l -> complete e) /\
  (forall s e s1, parse_unary f s = Some (e, s1) -> sane_st s -> fin s1 -> complete e) /\
  (forall e0 s e s1, call_rest f e0 s = Some (e, s1) -> sane_st s -> fin s1 ->
     complete e0 -> complete e) /\
  (forall s e s1, parse_primary f s = Some (e, s1) -> sane_st s -> fin s1 -> complete e) /\
  (forall c tr s es s1, delimited_list f c tr s = Some (es, s1) -> sane_st s -> fin s1 ->
     all_complete es).

Lemma cp : forall f, CP f.
Proof.
  induction f as [|f (IHexp & IHcom & IHasg & IHbin & IHbrs & IHun & IHcall & IHprim & IHlist)].
  { unfold CP. repeat (split; [intros; discriminate|]). intros; discriminate. }
  unfold CP.
  refine (conj _ (conj _ (conj _ (conj _ (conj _ (conj _ (conj _ (conj _ _)))))))).
  - (* parse_expression *)
    intros s e s' H Hs Hf. rewrite parse_expression_S in H. step H e1 s1 H1.
    pose proof (pc_assign _ _ _ _ H1) as [A1 _]. pose proof (pc_comma _ _ _ _ _ H) as A2.
    eapply IHcom; [exact H | sane | exact Hf |].
    eapply IHasg; [exact H1 | exact Hs | finb].
  - (* comma_loop *)
    intros l s e s' H Hs Hf Hl. rewrite comma_loop_S in H.
    destruct (at_kind s KComma); [|injection H as He _; subst; exact Hl].
    cbv zeta in H. step H r s2 H2.
    pose proof (pc_assign _ _ _ _ H2) as [A2 _]. pose proof (pc_comma _ _ _ _ _ H) as A3.
    eapply IHcom; [exact H | sane | exact Hf |].
    cbn [complete]. split; [exact Hl|].
    eapply IHasg; [exact H2 | sane | finb].
  - (* parse_assign *)
    intros s e s' H Hs Hf. rewrite parse_assign_S in H. step H e1 s1 H1.
    pose proof (pc_binary _ _ _ _ _ H1) as A1.
    destruct (is_assignment_op (tk (cur s1))).
    { cbv zeta in H. step H r s3 H3. pose proof (pc_assign _ _ _ _ H3) as [A3 _].
      injection H as He Hs'; subst e s'. cbn [complete]. split.
      - eapply IHbin; [exact H1 | exact Hs | finb].
      - eapply IHasg; [exact H3 | sane | exact Hf]. }
    destruct (at_kind s1 KQuestion);
      [|injection H as He Hs'; subst e s'; eapply IHbin; [exact H1 | exact Hs | exact Hf]].
    cbv zeta in H. step H wt s3 H3. pose proof (pc_assign _ _ _ _ H3) as [A3 _].
    destruct (at_kind s3 KColon); cbv beta iota zeta in H;
      step H wfl s5 H5; pose proof (pc_assign _ _ _ _ H5) as [A5 _];
      injection H as He Hs'; subst e s'.
    + cbn [complete]. refine (conj _ (conj _ (conj eq_refl _))).
      * eapply IHbin; [exact H1 | exact Hs | finb].
      * eapply IHasg; [exact H3 | sane | finb].
      * eapply IHasg; [exact H5 | sane | exact Hf].
    + (* no colon: a diagnostic was reported *)
      exfalso. apply (fin_eac s3 C_0_expected). finb.
  - (* parse_binary *)
    intros p s e s' H Hs Hf. rewrite parse_binary_S in H. step H l s1 H1.
    pose proof (pc_unary _ _ _ _ H1) as A1. pose proof (pc_binary_rest _ _ _ _ _ _ H) as A2.
    eapply IHbrs; [exact H | sane | exact Hf |].
    eapply IHun; [exact H1 | exact Hs | finb].
  - (* parse_binary_rest *)
    intros p l s e s' H Hs Hf Hl. rewrite parse_binary_rest_S in H. cbv zeta in H.
    destruct (p <? prec_of (tk (cur s))); [|injection H as He _; subst; exact Hl].
    step H r s2 H2.
    pose proof (pc_binary _ _ _ _ _ H2) as A2. pose proof (pc_binary_rest _ _ _ _ _ _ H) as A3.
    eapply IHbrs; [exact H | sane | exact Hf |].
    cbn [complete]. split; [exact Hl|].
    eapply IHbin; [exact H2 | sane | finb].
  - (* parse_unary *)
    intros s e s' H Hs Hf. rewrite parse_unary_S in H. cbv zeta in H.
    destruct (is_prefix_op (tk (cur s))).
    { step H x s2 H2. injection H as He Hs'; subst e s'. cbn [complete].
      eapply IHun; [exact H2 | sane | exact Hf]. }
    destruct (kind_eqb (tk (cur s)) KTypeof).
    { step H x s2 H2. injection H as He Hs'; subst e s'. cbn [complete].
      eapply IHun; [exact H2 | sane | exact Hf]. }
    step H e1 s1 H1. step H e2 s2 H2.
    pose proof (pc_primary _ _ _ _ H1) as A1. pose proof (pc_member _ _ _ _ _ H2) as A2.
    pose proof (pc_call _ _ _ _ _ H) as A3.
    eapply IHcall; [exact H | sane | exact Hf |].
    eapply cp_member; [exact H2 | sane | finb |].
    eapply IHprim; [exact H1 | exact Hs | finb].
  - (* call_rest *)
    intros e0 s e s' H Hs Hf He0. rewrite call_rest_S in H.
    destruct (tnl (cur s)); [injection H as He _; subst; exact He0|].
    step H e1 s1 H1. pose proof (pc_member _ _ _ _ _ H1) as A1.
    destruct (at_kind s1 KOpenParen && negb (tnl (cur s1)));
      [|injection H as He Hs'; subst e s'; eapply cp_member; [exact H1 | exact Hs | exact Hf | exact He0]].
    cbv zeta in H. step H args s3 H3. pose proof (pc_list _ _ _ _ _ _ H3) as A3.
    destruct (at_kind s3 KDotDotDot); cbv beta iota zeta in H;
      pose proof (pc_call _ _ _ _ _ H) as A4;
      (eapply IHcall; [exact H | sane | exact Hf |]);
      rewrite complete_call;
      (split; [eapply cp_member; [exact H1 | exact Hs | finb | exact He0]
              | eapply IHlist; [exact H3 | sane | finb]]).
  - (* parse_primary *)
    intros s e s' H Hs Hf. rewrite parse_primary_S in H. cbv zeta in H.
    destruct (is_literal_start (tk (cur s))).
    { injection H as He _; subst e. exact I. }
    destruct (kind_eqb (tk (cur s)) KOpenParen).
    { step H x s2 H2. pose proof (pc_expression _ _ _ _ H2) as A2.
      injection H as He Hs'; subst e s'. cbn [complete].
      eapply IHexp; [exact H2 | sane | finb]. }
    destruct (kind_eqb (tk (cur s)) KOpenBracket).
    { step H es s2 H2. pose proof (pc_list _ _ _ _ _ _ H2) as A2.
      injection H as He Hs'; subst e s'. rewrite complete_arr.
      eapply IHlist; [exact H2 | sane | finb]. }
    injection H as H. eapply cp_identifier; [exact H | exact Hs | exact Hf].
  - (* delimited_list *)
    intros c tr s es s' H Hs Hf. rewrite delimited_list_S in H.
    destruct (is_list_element c (tk (cur s))).
    { step H e1 s1 H1. pose proof (pc_assign _ _ _ _ H1) as [A1 _].
      destruct (at_kind s1 KComma).
      { step H es2 s2 H2. pose proof (pc_list _ _ _ _ _ _ H2) as A2.
        injection H as He Hs'; subst es s'. cbn [all_complete]. split.
        - eapply IHasg; [exact H1 | exact Hs | finb].
        - eapply IHlist; [exact H2 | sane | exact Hf]. }
      destruct (is_list_terminator c (tk (cur s1))).
      { injection H as He Hs'; subst es s'. cbn [all_complete]. split; [|exact I].
        eapply IHasg; [exact H1 | exact Hs | exact Hf]. }
      (* separator missing: a diagnostic was reported *)
      step H es2 s2 H2. pose proof (pc_list _ _ _ _ _ _ H2) as A2.
      injection H as He Hs'; subst es s'.
      exfalso. apply (fin_eac s1 C_0_expected). finb. }
    destruct (is_list_terminator c (tk (cur s))).
    { injection H as He _; subst es. exact I. }
    pose proof (pc_list _ _ _ _ _ _ H) as A.
    eapply IHlist; [exact H | sane | exact Hf].
Qed.

(* ------------------------------------------------------------------------------------------ *)
(* theorems 3 and 4                                                                            *)

Lemma accepted_inv fuel toks e : parse_tokens fuel toks = Accepted e ->
  exists t0 r s1, toks = t0 :: r /\
    parse_expression fuel (mkSt t0 r (add_diags [] (tdiags t0))) = Some (e, s1) /\
    tk (cur s1) = KEOF /\ diags s1 = [].
Proof.
  unfold parse_tokens. destruct toks as [|t0 r]; [discriminate|]. cbv zeta.
  destruct (parse_expression fuel (mkSt t0 r (add_diags [] (tdiags t0)))) as [[e' s1]|] eqn:H1;
    [|discriminate].
  destruct (rev (diags (advance (if at_kind s1 KEOF then s1 else error_at_current s1 C_0_expected))))
    as [|d ds] eqn:Hr; [|discriminate].
  intros H. injection H as He. subst e'.
  assert (D : diags (advance (if at_kind s1 KEOF then s1 else error_at_current s1 C_0_expected)) = []).
  { rewrite <- (rev_involutive (diags _)), Hr. reflexivity. }
  apply (proj2 (after_advance _)) in D.
  destruct (at_kind s1 KEOF) eqn:Hk.
  - exists t0, r, s1. repeat split; auto. apply at_kind_true. exact Hk.
  - exfalso. unfold error_at_current in D. cbn [diags] in D. exact (add_diag_nonempty _ _ D).
Qed.

(* Original statement (false without hypotheses on the token records: completeness of an
   identifier node asks for a non-empty name and a non-empty source range, which arbitrary
   token records need not have):
     forall fuel toks e, parse_tokens fuel toks = Accepted e -> complete e.
   Proved with the two named hypotheses [Forall tok_sane toks] and [contiguous toks]. *)
Theorem accepted_complete : forall fuel toks e,
  Forall tok_sane toks -> contiguous toks ->
  parse_tokens fuel toks = Accepted e -> complete e.
Proof.
  intros fuel toks e Hsane Hcont H.
  destruct (accepted_inv _ _ _ H) as (t0 & r & s1 & E & Hp & Hk & Hd). subst toks.
  destruct (cp fuel) as (C & _). eapply C; [exact Hp | |].
  - split; [exact Hsane | exact Hcont].
  - split; [exact Hd | right; exact Hk].
Qed.

Theorem accepted_consumed_all : forall fuel toks e,
  parse_tokens fuel toks = Accepted e ->
  exists s1,
    (exists t0 r, toks = t0 :: r /\
       parse_expression fuel (mkSt t0 r (add_diags [] (tdiags t0))) = Some (e, s1)) /\
    tk (cur s1) = KEOF /\ diags s1 = [].
Proof.
  intros fuel toks e H.
  destruct (accepted_inv _ _ _ H) as (t0 & r & s1 & E & Hp & Hk & Hd).
  exists s1. split; [exists t0, r; auto | auto].
Qed.

(* the hypotheses on token records are needed: an identifier token with an empty name *)
Definition cex_toks : list token :=
  [mkTok KIdent [] 0 0 1 false []; mkTok KEOF [] 1 1 1 false []].
Example cex_accepted_incomplete :
  parse_tokens (parse_fuel (length cex_toks)) cex_toks = Accepted (EIdent KIdent [] 0 1).
Proof. vm_compute. reflexivity. Qed.

Example accepted_complete_needs_hypotheses :
  ~ (forall fuel toks e, parse_tokens fuel toks = Accepted e -> complete e).
Proof.
  intros H. specialize (H _ _ _ cex_accepted_incomplete). cbn [complete] in H.
  destruct H as [H _]. apply H. reflexivity.
Qed.

Print Assumptions parse_tokens_total.
Print Assumptions parse_source_total_from.
Print Assumptions accepted_complete.
Print Assumptions accepted_consumed_all.
