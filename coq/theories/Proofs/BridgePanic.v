(* Totality of the evaluator model and the fate of run-time panics (property C03):
   evaluation terminates, the public entry never reports Panic, every misuse named in the
   property text ends in Err at the entry, and the primitive situations in which the inner
   evaluator panics are characterised. *)
From Coq Require Import String Ascii.
From Formula Require Import Sem.Eval Proofs.BridgeFacts.
Open Scope Z_scope.

(* ================================================================== *)
(* 1. Termination, no panic at the entry, value xor error              *)
(* ================================================================== *)

(* [eval] is a structural Fixpoint on the tree without fuel: Coq's guard checker accepted it,
   every recursive call is on a proper subtree.  Hence it is a total function; this lemma is the
   statement "evaluation terminates with an outcome and a final state". *)
Lemma eval_total : forall hosts off e st, exists r st', eval hosts off e st = (r, st').
Proof. intros hosts off e st. destruct (eval hosts off e st) as [r st']. exists r, st'. reflexivity. Qed.

Lemma resolve_total : forall hosts off e st, exists r st', resolve_entry hosts off e st = (r, st').
Proof. intros hosts off e st. destruct (resolve_entry hosts off e st) as [r st']. exists r, st'. reflexivity. Qed.

Lemma resolve_never_panics : forall hosts off e st, fst (resolve_entry hosts off e st) <> Panic.
Proof.
  intros hosts off e st. unfold resolve_entry.
  destruct (eval hosts off e st) as [[v| | |] st']; cbn; discriminate.
Qed.

Lemma value_xor_error : forall hosts off e st,
  let o := fst (resolve_entry hosts off e st) in
  ((exists v, o = Ok v) /\ o <> Err /\ o <> Unk) \/
  (o = Err /\ (forall v, o <> Ok v) /\ o <> Unk) \/
  (o = Unk /\ (forall v, o <> Ok v) /\ o <> Err).
Proof.
  intros hosts off e st o. pose proof (resolve_never_panics hosts off e st) as Hp. fold o in Hp.
  destruct o as [v| | |].
  - left. split; [exists v; reflexivity|]. split; discriminate.
  - right. left. split; [reflexivity|]. split; [intros v|]; discriminate.
  - exfalso. apply Hp. reflexivity.
  - right. right. split; [reflexivity|]. split; [intros v|]; discriminate.
Qed.

(* the entry agrees with the inner evaluator except that Panic becomes Err *)
Lemma resolve_entry_spec : forall hosts off e st,
  resolve_entry hosts off e st =
  (match fst (eval hosts off e st) with Panic => Err | o => o end, snd (eval hosts off e st)).
Proof.
  intros hosts off e st. unfold resolve_entry.
  destruct (eval hosts off e st) as [[v| | |] st']; reflexivity.
Qed.

Lemma entry_err : forall hosts off e st,
  fst (eval hosts off e st) = Err \/ fst (eval hosts off e st) = Panic ->
  fst (resolve_entry hosts off e st) = Err.
Proof. intros hosts off e st H. rewrite resolve_entry_spec. cbn [fst]. destruct H as [H|H]; rewrite H; reflexivity. Qed.

(* ================================================================== *)
(* 2. Misuse is an error                                               *)
(* ================================================================== *)

Definition is_callable (v : value) : bool :=
  match v with VFunc _ | VBuiltin _ => true | _ => false end.

(* a call whose callee and arguments evaluate, and whose bridge reports Err or Panic *)
Lemma call_misuse_lift : forall hosts off f args sp st fv st1 vs st2,
  eval hosts off f st = (Ok fv, st1) ->
  eval_list hosts off args st1 = (Ok vs, st2) ->
  fst (call_value hosts off fv vs sp st2) = Err \/ fst (call_value hosts off fv vs sp st2) = Panic ->
  fst (resolve_entry hosts off (SCall f args sp) st) = Err.
Proof.
  intros hosts off f args sp st fv st1 vs st2 Hf Ha Hc. apply entry_err.
  rewrite eval_SCall, Hf. destruct (negb (is_name_path f)).
  - left. reflexivity.
  - rewrite Ha. destruct Hc as [Hc|Hc]; [left; apply fmt_fst_err|right; apply fmt_fst_panic]; exact Hc.
Qed.

(* a. calling something that is not a function *)
Lemma call_non_function : forall hosts off f args sp st fv st1 vs st2,
  eval hosts off f st = (Ok fv, st1) ->
  eval_list hosts off args st1 = (Ok vs, st2) ->
  is_callable fv = false ->
  fst (resolve_entry hosts off (SCall f args sp) st) = Err.
Proof.
  intros hosts off f args sp st fv st1 vs st2 Hf Ha Hn.
  apply (call_misuse_lift hosts off f args sp st fv st1 vs st2 Hf Ha).
  destruct fv; try discriminate Hn; cbn [call_value fst]; auto.
Qed.

Lemma call_value_non_function : forall hosts off fv vs sp st,
  is_callable fv = false ->
  call_value hosts off fv vs sp st = (match fv with VNull => Panic | _ => Err end, st).
Proof. intros hosts off fv vs sp st H. destruct fv; try discriminate H; reflexivity. Qed.

(* b. wrong argument count *)
Lemma call_wrong_arity_gen : forall hosts off f args sp st fv st1 vs st2 sg,
  eval hosts off f st = (Ok fv, st1) ->
  eval_list hosts off args st1 = (Ok vs, st2) ->
  callee_sig hosts fv = Some sg ->
  arity_ok sg (length vs) sp = false ->
  fst (resolve_entry hosts off (SCall f args sp) st) = Err.
Proof.
  intros hosts off f args sp st fv st1 vs st2 sg Hf Ha Hsg Har.
  apply (call_misuse_lift hosts off f args sp st fv st1 vs st2 Hf Ha). left.
  rewrite (proj1 (not_called_on_error hosts off fv sg vs sp st2 Hsg) (or_introl Har)). reflexivity.
Qed.

Lemma call_wrong_arity : forall hosts off f args sp st fv st1 vs st2 sg,
  eval hosts off f st = (Ok fv, st1) ->
  eval_list hosts off args st1 = (Ok vs, st2) ->
  callee_sig hosts fv = Some sg ->
  (sig_variadic sg = false /\ length vs <> length (sig_params sg)) \/
  (sig_variadic sg = true /\ sp = false /\ (S (length vs) < length (sig_params sg))%nat) ->
  fst (resolve_entry hosts off (SCall f args sp) st) = Err.
Proof.
  intros hosts off f args sp st fv st1 vs st2 sg Hf Ha Hsg H.
  apply (call_wrong_arity_gen hosts off f args sp st fv st1 vs st2 sg Hf Ha Hsg).
  unfold arity_ok. destruct H as [[Hv Hn]|[Hv [Hs Hn]]]; rewrite Hv.
  - apply Z.eqb_neq. lia.
  - rewrite Hs. apply Z.leb_gt. lia.
Qed.

(* c. an argument that cannot be converted (conv_args Err, or Panic for the nil cases) *)
Lemma call_unconvertible_argument : forall hosts off f args sp st fv st1 vs st2 sg,
  eval hosts off f st = (Ok fv, st1) ->
  eval_list hosts off args st1 = (Ok vs, st2) ->
  callee_sig hosts fv = Some sg ->
  conv_args (sig_params sg) (sig_variadic sg) (expanded_args vs sp) = Err \/
  conv_args (sig_params sg) (sig_variadic sg) (expanded_args vs sp) = Panic ->
  fst (resolve_entry hosts off (SCall f args sp) st) = Err.
Proof.
  intros hosts off f args sp st fv st1 vs st2 sg Hf Ha Hsg Hc.
  apply (call_misuse_lift hosts off f args sp st fv st1 vs st2 Hf Ha).
  rewrite (call_value_eq hosts off fv vs sp st2 sg Hsg).
  destruct (arity_ok sg (length vs) sp && spread_ok sg vs sp); [|left; reflexivity].
  destruct Hc as [Hc|Hc]; rewrite Hc; [left|right]; reflexivity.
Qed.

(* ... in particular a number that is NaN, infinite or beyond the range of the integer parameter it
   is given to (the arguments before it converting): Err at the entry, the function is not called *)
Lemma call_num_out_of_range : forall hosts off f args sp st fv st1 vs st2 sg i k d,
  eval hosts off f st = (Ok fv, st1) ->
  eval_list hosts off args st1 = (Ok vs, st2) ->
  callee_sig hosts fv = Some sg ->
  nth_error (expanded_args vs sp) i = Some (VNum d) ->
  arg_type (sig_params sg) (sig_variadic sg) i = Some (TInt k) ->
  is_finite d = false \/ wrap_int k (trunc_dec d) <> trunc_dec d ->
  (forall j b, (j < i)%nat -> nth_error (expanded_args vs sp) j = Some b ->
     exists tj c, arg_type (sig_params sg) (sig_variadic sg) j = Some tj /\ conv_to tj b = Ok c) ->
  call_value hosts off fv vs sp st2 = (Err, st2) /\
  fst (resolve_entry hosts off (SCall f args sp) st) = Err.
Proof.
  intros hosts off f args sp st fv st1 vs st2 sg i k d Hf Ha Hsg Hi Ht Hr Hb.
  pose proof (num_out_of_range_not_called hosts off fv sg vs sp st2 i k d Hsg Hi Ht Hr Hb) as Hc.
  split; [exact Hc|].
  apply (call_misuse_lift hosts off f args sp st fv st1 vs st2 Hf Ha). left. rewrite Hc. reflexivity.
Qed.

(* left("abc", 1e30): the count does not fit int - Err, and no longer outside the model *)
Example ex_left_out_of_range :
  let e := SCall (SIdent KIdent (str "left")) [SLit KString (str "abc"); SLit KNumber (str "1e30")] false in
  eval [] 0 e (mkR None []) = (Err, mkR None []) /\ fst (resolve_entry [] 0 e (mkR None [])) = Err.
Proof. split; vm_compute; reflexivity. Qed.

Example ex_unconvertible_str_for_int :
  conv_args [TInt GInt] false [VStr (str "x")] = Err /\ conv_args [TDec] false [VBool true] = Err /\
  conv_args [TSlice TString] false [VNull] = Panic.
Proof. repeat split; reflexivity. Qed.

(* d. string positions out of range *)

Lemma slice_panic_iff : forall s a b, slice s a b = Panic <-> ~ (0 <= a <= b /\ b <= slen s).
Proof.
  intros s a b. unfold slice.
  destruct (0 <=? a) eqn:E1; destruct (a <=? b) eqn:E2; destruct (b <=? slen s) eqn:E3; cbn [andb];
  try apply Z.leb_le in E1; try apply Z.leb_le in E2; try apply Z.leb_le in E3;
  try apply Z.leb_gt in E1; try apply Z.leb_gt in E2; try apply Z.leb_gt in E3;
  split; intros H; try discriminate H; try reflexivity; try lia.
Qed.

Lemma slen_nonneg : forall s, 0 <= slen s.
Proof. intros s. unfold slen. lia. Qed.

Lemma builtin_apply_str_int : forall off name s k n,
  builtin_apply off name [VStr s; VGoInt k n] =
  let l := if slen s <? n then slen s else n in
  if name_is name "left" then obind (slice s 0 l) (fun r => Ok (VStr r))
  else if name_is name "right" then obind (slice s (slen s - l) (slen s)) (fun r => Ok (VStr r))
  else Err.
Proof. reflexivity. Qed.

Lemma builtin_apply_str_int_int : forall off name s k a k' b,
  builtin_apply off name [VStr s; VGoInt k a; VGoInt k' b] =
  if name_is name "mid" then
    obind (slice s (if a <? 0 then 0 else a) (if slen s <? b then slen s else b)) (fun r => Ok (VStr r))
  else Err.
Proof. reflexivity. Qed.

Lemma builtin_apply_str_str_int : forall off name s ps k l,
  builtin_apply off name [VStr s; VStr ps; VGoInt k l] =
  if name_is name "lpad" then
    if l <? slen s then obind (slice s 0 l) (fun r => Ok (VStr r))
    else Ok (VStr (str_repeat (Z.to_nat (l - slen s)) ps ++ s))
  else if name_is name "rpad" then
    if l <? slen s then obind (slice s 0 l) (fun r => Ok (VStr r))
    else Ok (VStr (s ++ str_repeat (Z.to_nat (l - slen s)) ps))
  else Err.
Proof. reflexivity. Qed.

Lemma obind_panic : forall (A B : Type) (f : A -> outcome B), obind Panic f = Panic.
Proof. reflexivity. Qed.

Lemma left_negative_panics : forall off s k n, n < 0 ->
  builtin_apply off (str "left") [VStr s; VGoInt k n] = Panic.
Proof.
  intros off s k n Hn. rewrite builtin_apply_str_int. cbv zeta.
  change (name_is (str "left") "left") with true. cbv iota.
  pose proof (slen_nonneg s) as Hs.
  destruct (slen s <? n) eqn:E; [apply Z.ltb_lt in E; lia|].
  assert (Hp : slice s 0 n = Panic) by (apply slice_panic_iff; lia).
  rewrite Hp. reflexivity.
Qed.

Lemma right_negative_panics : forall off s k n, n < 0 ->
  builtin_apply off (str "right") [VStr s; VGoInt k n] = Panic.
Proof.
  intros off s k n Hn. rewrite builtin_apply_str_int. cbv zeta.
  change (name_is (str "right") "left") with false.
  change (name_is (str "right") "right") with true. cbv iota.
  pose proof (slen_nonneg s) as Hs.
  destruct (slen s <? n) eqn:E; [apply Z.ltb_lt in E; lia|].
  assert (Hp : slice s (slen s - n) (slen s) = Panic) by (apply slice_panic_iff; lia).
  rewrite Hp. reflexivity.
Qed.

Lemma mid_crossed_panics : forall off s k a k' b, Z.max 0 a > Z.min (slen s) b ->
  builtin_apply off (str "mid") [VStr s; VGoInt k a; VGoInt k' b] = Panic.
Proof.
  intros off s k a k' b H. rewrite builtin_apply_str_int_int.
  change (name_is (str "mid") "mid") with true. cbv iota.
  assert (Hp : slice s (if a <? 0 then 0 else a) (if slen s <? b then slen s else b) = Panic).
  { apply slice_panic_iff.
    destruct (a <? 0) eqn:E1; destruct (slen s <? b) eqn:E2;
    try apply Z.ltb_lt in E1; try apply Z.ltb_lt in E2; try apply Z.ltb_ge in E1; try apply Z.ltb_ge in E2; lia. }
  rewrite Hp. reflexivity.
Qed.

Lemma pad_negative_panics : forall off s ps k l, l < 0 ->
  builtin_apply off (str "lpad") [VStr s; VStr ps; VGoInt k l] = Panic /\
  builtin_apply off (str "rpad") [VStr s; VStr ps; VGoInt k l] = Panic.
Proof.
  intros off s ps k l Hl. rewrite !builtin_apply_str_str_int.
  change (name_is (str "lpad") "lpad") with true.
  change (name_is (str "rpad") "lpad") with false.
  change (name_is (str "rpad") "rpad") with true. cbv iota.
  pose proof (slen_nonneg s) as Hs.
  destruct (l <? slen s) eqn:E; [|apply Z.ltb_ge in E; lia].
  assert (Hp : slice s 0 l = Panic) by (apply slice_panic_iff; lia).
  rewrite Hp. split; reflexivity.
Qed.

Lemma string_position_panics_inside : forall off s k n k' m ps,
  (n < 0 -> builtin_apply off (str "left") [VStr s; VGoInt k n] = Panic) /\
  (n < 0 -> builtin_apply off (str "right") [VStr s; VGoInt k n] = Panic) /\
  (Z.max 0 n > Z.min (slen s) m -> builtin_apply off (str "mid") [VStr s; VGoInt k n; VGoInt k' m] = Panic) /\
  (n < 0 -> builtin_apply off (str "lpad") [VStr s; VStr ps; VGoInt k n] = Panic /\
            builtin_apply off (str "rpad") [VStr s; VStr ps; VGoInt k n] = Panic).
Proof.
  intros off s k n k' m ps. split; [|split; [|split]].
  - exact (left_negative_panics off s k n).
  - exact (right_negative_panics off s k n).
  - exact (mid_crossed_panics off s k n k' m).
  - exact (pad_negative_panics off s ps k n).
Qed.

(* the same through the bridge: formula numbers arrive as VNum and are truncated to int *)
Definition fits_int (d : dec) : bool := is_finite d && (wrap_int GInt (trunc_dec d) =? trunc_dec d).

Lemma conv_num_to_int : forall d, fits_int d = true -> conv_to (TInt GInt) (VNum d) = Ok (VGoInt GInt (trunc_dec d)).
Proof.
  intros d H. unfold fits_int in H. apply andb_prop in H. destruct H as [H1 H2].
  apply num_to_int_truncates; [reflexivity|exact H1|apply Z.eqb_eq; exact H2].
Qed.

Lemma builtin_call_not_minmax : forall off name args,
  existsb is_opaque args = false ->
  bytes_eqb name (str "max") = false -> bytes_eqb name (str "min") = false ->
  builtin_call off name args = builtin_apply off name args.
Proof. intros off name args H1 H2 H3. unfold builtin_call. rewrite H1, H2, H3. reflexivity. Qed.

Lemma call_left_negative : forall hosts off s d st,
  fits_int d = true -> trunc_dec d < 0 ->
  call_value hosts off (VBuiltin (str "left")) [VStr s; VNum d] false st = (Panic, st).
Proof.
  intros hosts off s d st Hf Hn.
  rewrite (builtin_outcome hosts off (str "left") (sig0 [TString; TI]) _ false st eq_refl).
  change (arity_ok (sig0 [TString; TI]) (length [VStr s; VNum d]) false) with true.
  change (spread_ok (sig0 [TString; TI]) [VStr s; VNum d] false) with true. cbn [andb].
  assert (Hc : conv_args (sig_params (sig0 [TString; TI])) (sig_variadic (sig0 [TString; TI]))
                 (expanded_args [VStr s; VNum d] false) = Ok [VStr s; VGoInt GInt (trunc_dec d)]).
  { change (conv_args [TString; TInt GInt] false [VStr s; VNum d] = Ok [VStr s; VGoInt GInt (trunc_dec d)]).
    rewrite conv_args_fixed_cons, string_to_string. cbn [obind].
    rewrite conv_args_fixed_cons, (conv_num_to_int d Hf). reflexivity. }
  rewrite Hc, builtin_call_not_minmax by reflexivity.
  rewrite (left_negative_panics off s GInt (trunc_dec d) Hn). reflexivity.
Qed.

Lemma call_right_negative : forall hosts off s d st,
  fits_int d = true -> trunc_dec d < 0 ->
  call_value hosts off (VBuiltin (str "right")) [VStr s; VNum d] false st = (Panic, st).
Proof.
  intros hosts off s d st Hf Hn.
  rewrite (builtin_outcome hosts off (str "right") (sig0 [TString; TI]) _ false st eq_refl).
  change (arity_ok (sig0 [TString; TI]) (length [VStr s; VNum d]) false) with true.
  change (spread_ok (sig0 [TString; TI]) [VStr s; VNum d] false) with true. cbn [andb].
  assert (Hc : conv_args (sig_params (sig0 [TString; TI])) (sig_variadic (sig0 [TString; TI]))
                 (expanded_args [VStr s; VNum d] false) = Ok [VStr s; VGoInt GInt (trunc_dec d)]).
  { change (conv_args [TString; TInt GInt] false [VStr s; VNum d] = Ok [VStr s; VGoInt GInt (trunc_dec d)]).
    rewrite conv_args_fixed_cons, string_to_string. cbn [obind].
    rewrite conv_args_fixed_cons, (conv_num_to_int d Hf). reflexivity. }
  rewrite Hc, builtin_call_not_minmax by reflexivity.
  rewrite (right_negative_panics off s GInt (trunc_dec d) Hn). reflexivity.
Qed.

Lemma call_mid_crossed : forall hosts off s da db st,
  fits_int da = true -> fits_int db = true ->
  Z.max 0 (trunc_dec da) > Z.min (slen s) (trunc_dec db) ->
  call_value hosts off (VBuiltin (str "mid")) [VStr s; VNum da; VNum db] false st = (Panic, st).
Proof.
  intros hosts off s da db st Ha Hb Hn.
  rewrite (builtin_outcome hosts off (str "mid") (sig0 [TString; TI; TI]) _ false st eq_refl).
  change (arity_ok (sig0 [TString; TI; TI]) (length [VStr s; VNum da; VNum db]) false) with true.
  change (spread_ok (sig0 [TString; TI; TI]) [VStr s; VNum da; VNum db] false) with true. cbn [andb].
  assert (Hc : conv_args (sig_params (sig0 [TString; TI; TI])) (sig_variadic (sig0 [TString; TI; TI]))
                 (expanded_args [VStr s; VNum da; VNum db] false)
               = Ok [VStr s; VGoInt GInt (trunc_dec da); VGoInt GInt (trunc_dec db)]).
  { change (conv_args [TString; TInt GInt; TInt GInt] false [VStr s; VNum da; VNum db]
            = Ok [VStr s; VGoInt GInt (trunc_dec da); VGoInt GInt (trunc_dec db)]).
    rewrite conv_args_fixed_cons, string_to_string. cbn [obind].
    rewrite conv_args_fixed_cons, (conv_num_to_int da Ha). cbn [obind].
    rewrite conv_args_fixed_cons, (conv_num_to_int db Hb). reflexivity. }
  rewrite Hc, builtin_call_not_minmax by reflexivity.
  rewrite (mid_crossed_panics off s GInt (trunc_dec da) GInt (trunc_dec db) Hn). reflexivity.
Qed.

(* ... and as formulas: left("s", a), right("s", a), mid("s", a, b) for any argument expressions
   that evaluate to such numbers *)
Lemma lookup_builtin : forall name st,
  existsb (bytes_eqb name) builtin_names = true -> lookup_ident name st = VBuiltin name.
Proof. intros name st H. unfold lookup_ident. rewrite H. reflexivity. Qed.

Lemma eval_builtin_ident : forall hosts off k name st,
  existsb (bytes_eqb name) builtin_names = true ->
  eval hosts off (SIdent k name) st = (Ok (VBuiltin name), st).
Proof. intros hosts off k name st H. rewrite eval_SIdent, (lookup_builtin name st H). reflexivity. Qed.

Lemma eval_string_lit : forall hosts off s st, eval hosts off (SLit KString s) st = (Ok (VStr s), st).
Proof. reflexivity. Qed.

Lemma eval_list_str_1 : forall hosts off s a st v st',
  eval hosts off a st = (Ok v, st') ->
  eval_list hosts off [SLit KString s; a] st = (Ok [VStr s; v], st').
Proof.
  intros hosts off s a st v st' Ha.
  rewrite eval_list_cons, eval_string_lit, eval_list_cons, Ha, eval_list_nil. reflexivity.
Qed.

Lemma eval_list_str_2 : forall hosts off s a b st va st1 vb st2,
  eval hosts off a st = (Ok va, st1) -> eval hosts off b st1 = (Ok vb, st2) ->
  eval_list hosts off [SLit KString s; a; b] st = (Ok [VStr s; va; vb], st2).
Proof.
  intros hosts off s a b st va st1 vb st2 Ha Hb.
  rewrite eval_list_cons, eval_string_lit, eval_list_cons, Ha, eval_list_cons, Hb, eval_list_nil. reflexivity.
Qed.

Lemma string_position_out_of_range_left : forall hosts off s a st d st',
  eval hosts off a st = (Ok (VNum d), st') -> fits_int d = true -> trunc_dec d < 0 ->
  fst (resolve_entry hosts off (SCall (SIdent KIdent (str "left")) [SLit KString s; a] false) st) = Err.
Proof.
  intros hosts off s a st d st' Ha Hf Hn.
  apply (call_misuse_lift hosts off _ _ false st (VBuiltin (str "left")) st [VStr s; VNum d] st').
  - apply eval_builtin_ident. reflexivity.
  - apply eval_list_str_1. exact Ha.
  - right. rewrite (call_left_negative hosts off s d st' Hf Hn). reflexivity.
Qed.

Lemma string_position_out_of_range_right : forall hosts off s a st d st',
  eval hosts off a st = (Ok (VNum d), st') -> fits_int d = true -> trunc_dec d < 0 ->
  fst (resolve_entry hosts off (SCall (SIdent KIdent (str "right")) [SLit KString s; a] false) st) = Err.
Proof.
  intros hosts off s a st d st' Ha Hf Hn.
  apply (call_misuse_lift hosts off _ _ false st (VBuiltin (str "right")) st [VStr s; VNum d] st').
  - apply eval_builtin_ident. reflexivity.
  - apply eval_list_str_1. exact Ha.
  - right. rewrite (call_right_negative hosts off s d st' Hf Hn). reflexivity.
Qed.

Lemma string_position_out_of_range_mid : forall hosts off s a b st da st1 db st2,
  eval hosts off a st = (Ok (VNum da), st1) -> eval hosts off b st1 = (Ok (VNum db), st2) ->
  fits_int da = true -> fits_int db = true ->
  Z.max 0 (trunc_dec da) > Z.min (slen s) (trunc_dec db) ->
  fst (resolve_entry hosts off (SCall (SIdent KIdent (str "mid")) [SLit KString s; a; b] false) st) = Err.
Proof.
  intros hosts off s a b st da st1 db st2 Ha Hb Hfa Hfb Hn.
  apply (call_misuse_lift hosts off _ _ false st (VBuiltin (str "mid")) st [VStr s; VNum da; VNum db] st2).
  - apply eval_builtin_ident. reflexivity.
  - apply (eval_list_str_2 hosts off s a b st (VNum da) st1 (VNum db) st2 Ha Hb).
  - right. rewrite (call_mid_crossed hosts off s da db st2 Hfa Hfb Hn). reflexivity.
Qed.

(* left('abc', -1), right('abc', -1), mid('abc', 2, 1): Panic inside, Err at the entry *)
Example ex_left_minus_one :
  let e := SCall (SIdent KIdent (str "left")) [SLit KString (str "abc"); SPrefix KMinus (SLit KNumber (str "1"))] false in
  fst (eval [] 0 e (mkR None [])) = Panic /\ fst (resolve_entry [] 0 e (mkR None [])) = Err.
Proof. split; vm_compute; reflexivity. Qed.

Example ex_right_minus_one :
  let e := SCall (SIdent KIdent (str "right")) [SLit KString (str "abc"); SPrefix KMinus (SLit KNumber (str "1"))] false in
  fst (eval [] 0 e (mkR None [])) = Panic /\ fst (resolve_entry [] 0 e (mkR None [])) = Err.
Proof. split; vm_compute; reflexivity. Qed.

Example ex_mid_2_1 :
  let e := SCall (SIdent KIdent (str "mid")) [SLit KString (str "abc"); SLit KNumber (str "2"); SLit KNumber (str "1")] false in
  fst (eval [] 0 e (mkR None [])) = Panic /\ fst (resolve_entry [] 0 e (mkR None [])) = Err.
Proof. split; vm_compute; reflexivity. Qed.

Example ex_left_hyps :
  let d := dec_neg (dec_of_string (str "1")) in
  eval [] 0 (SPrefix KMinus (SLit KNumber (str "1"))) (mkR None []) = (Ok (VNum d), mkR None []) /\
  fits_int d = true /\ trunc_dec d = -1.
Proof. repeat split; vm_compute; reflexivity. Qed.

(* regexp is not modelled: the model answers Unk for every call of regexp that reaches the builtin *)
Example ex_regexp_unmodelled :
  fst (resolve_entry [] 0 (SCall (SIdent KIdent (str "regexp")) [SLit KString (str "a"); SLit KString (str "(")] false)
         (mkR None [])) = Unk.
Proof. vm_compute. reflexivity. Qed.

(* e. comparing arrays or maps *)

Definition is_eq_op (op : kind) : bool :=
  match op with KEqEq | KNe | KEqEqEq | KNeEq => true | _ => false end.

(* the pairs on which Go's == panics in the model: two arrays, two maps, the same host function
   (equal id), the same builtin (equal name).  Two different functions, or a host function and a
   builtin, are outside the model (Unk), as are two times and two opaque values. *)
Definition uncomparable (a b : value) : bool :=
  match a, b with
  | VArr _, VArr _ | VMap _, VMap _ => true
  | VFunc f, VFunc g => f =? g
  | VBuiltin m, VBuiltin n => bytes_eqb m n
  | _, _ => false
  end.

Lemma iface_eq_panic_iff : forall a b, iface_eq a b = Panic <-> uncomparable a b = true.
Proof.
  intros a b. destruct a; destruct b; cbn [iface_eq uncomparable];
  try (split; intros H; try discriminate H; reflexivity).
  - destruct (_ =? _); split; intros H; try discriminate H; reflexivity.
  - destruct (bytes_eqb _ _); split; intros H; try discriminate H; reflexivity.
Qed.

(* the same characterisation spelled out *)
Lemma uncomparable_cases : forall a b, uncomparable a b = true <->
  (exists x y, a = VArr x /\ b = VArr y) \/ (exists x y, a = VMap x /\ b = VMap y) \/
  (exists f, a = VFunc f /\ b = VFunc f) \/
  (exists m n, a = VBuiltin m /\ b = VBuiltin n /\ bytes_eqb m n = true).
Proof.
  intros a b. split.
  - intros H. destruct a; try discriminate H; destruct b; try discriminate H; cbn [uncomparable] in H.
    + left. eexists. eexists. split; reflexivity.
    + right. left. eexists. eexists. split; reflexivity.
    + right. right. left. apply Z.eqb_eq in H. subst. eexists. split; reflexivity.
    + right. right. right. eexists. eexists. split; [reflexivity|]. split; [reflexivity|exact H].
  - intros [(x & y & -> & ->)|[(x & y & -> & ->)|[(f & -> & ->)|(m & n & -> & -> & H)]]];
      cbn [uncomparable]; [reflexivity|reflexivity|apply Z.eqb_refl|exact H].
Qed.

(* where the model says Unk: both operands functions, but not known to be the same one; two
   times; two opaque values *)
Lemma iface_eq_unk_iff : forall a b, iface_eq a b = Unk <->
  match a, b with
  | VFunc f, VFunc g => (f =? g) = false
  | VBuiltin m, VBuiltin n => bytes_eqb m n = false
  | VFunc _, VBuiltin _ | VBuiltin _, VFunc _ => True
  | VTime _, VTime _ | VOpaque _, VOpaque _ | VStruct _ _, VStruct _ _ => True
  | _, _ => False
  end.
Proof.
  intros a b. destruct a; destruct b; cbn [iface_eq];
  try (split; intros H; try discriminate H; try contradiction; try reflexivity; exact I).
  - destruct (_ =? _); split; intros H; try discriminate H; reflexivity.
  - destruct (bytes_eqb _ _); split; intros H; try discriminate H; reflexivity.
Qed.

Lemma uncomparable_not_null : forall a b, uncomparable a b = true -> is_null a = false.
Proof. intros a b H. destruct a; try discriminate H; reflexivity. Qed.

Lemma loose_eq_panic_iff : forall a b, loose_eq a b = Panic <-> uncomparable a b = true.
Proof.
  intros a b. split.
  - intros H. apply iface_eq_panic_iff. unfold loose_eq in H.
    destruct a; try discriminate H;
    try (destruct (conv_to_string b); discriminate H);
    try (destruct (_ && _) in H; [discriminate H|exact H]).
  - intros H. pose proof (uncomparable_not_null a b H) as Hn.
    apply iface_eq_panic_iff in H. unfold loose_eq.
    destruct a; try discriminate H; try (destruct b; discriminate H); cbn [is_null andb]; exact H.
Qed.

(* === passes the outcome of Go's == through unchanged *)
Lemma strict_eq_alt : forall a b,
  strict_eq a b =
  if is_null a && is_null b then Ok true
  else match a, b with
       | VNum x, VNum y => Ok (dec_cmp x y =? 0)
       | _, _ => iface_eq a b
       end.
Proof.
  intros a b. unfold strict_eq. destruct (is_null a && is_null b); [reflexivity|].
  destruct a; destruct b; try reflexivity;
    destruct (iface_eq _ _) as [[|]| | |]; reflexivity.
Qed.

Lemma strict_eq_panic_iff : forall a b, strict_eq a b = Panic <-> uncomparable a b = true.
Proof.
  intros a b. rewrite strict_eq_alt. split.
  - intros H. apply iface_eq_panic_iff.
    destruct (is_null a && is_null b); [discriminate H|].
    destruct a; try exact H; destruct b; try exact H; discriminate H.
  - intros H. pose proof (uncomparable_not_null a b H) as Hn.
    rewrite Hn. cbn [andb].
    destruct a; try discriminate H; destruct b; try discriminate H;
      apply iface_eq_panic_iff; exact H.
Qed.

Lemma rel_op_no_panic : forall op a b, rel_op op a b <> Panic.
Proof.
  intros op a b. unfold rel_op. destruct a; try discriminate.
  destruct (conv_to_string b); discriminate.
Qed.

Lemma arith_no_panic : forall op a b, arith op a b <> Panic.
Proof.
  intros op a b. unfold arith.
  destruct op; try discriminate;
  try (destruct a; try discriminate; destruct (conv_to_string b); discriminate);
  destruct (to_i64_opt (conv_to_number a)); try discriminate;
  destruct (to_i64_opt (conv_to_number b)); discriminate.
Qed.

Lemma obind_bool_panic : forall (o : outcome bool) (f : bool -> value),
  obind o (fun b => Ok (f b)) = Panic <-> o = Panic.
Proof. intros o f. destruct o; cbn; split; intros H; try discriminate H; reflexivity. Qed.

Lemma binary_op_panic_iff : forall op a b,
  binary_op op a b = Panic <-> is_eq_op op = true /\ uncomparable a b = true.
Proof.
  intros op a b.
  destruct op; cbn [binary_op is_eq_op];
  try (split; [intros H; exfalso; first [exact (rel_op_no_panic _ _ _ H) | exact (arith_no_panic _ _ _ H) | discriminate H]
              | intros [H _]; discriminate H]).
  - rewrite obind_bool_panic, loose_eq_panic_iff. tauto.
  - rewrite obind_bool_panic, strict_eq_panic_iff. tauto.
  - rewrite obind_bool_panic, loose_eq_panic_iff. tauto.
  - rewrite obind_bool_panic, strict_eq_panic_iff. tauto.
Qed.

Lemma bin_node : forall hosts off l op r st v1 st1 v2 st2,
  kind_eqb op KEquals = false ->
  eval hosts off l st = (Ok v1, st1) -> eval hosts off r st1 = (Ok v2, st2) ->
  eval hosts off (SBin l op r) st = fmt (binary_op op v1 v2, st2).
Proof. intros hosts off l op r st v1 st1 v2 st2 Hop Hl Hr. rewrite eval_SBin, Hop, Hl, Hr. reflexivity. Qed.

Lemma is_eq_op_not_assign : forall op, is_eq_op op = true -> kind_eqb op KEquals = false.
Proof. intros op H. destruct op; try discriminate H; reflexivity. Qed.

Lemma compare_uncomparable : forall hosts off l op r st v1 st1 v2 st2,
  is_eq_op op = true ->
  eval hosts off l st = (Ok v1, st1) -> eval hosts off r st1 = (Ok v2, st2) ->
  uncomparable v1 v2 = true ->
  fst (eval hosts off (SBin l op r) st) = Panic /\
  fst (resolve_entry hosts off (SBin l op r) st) = Err.
Proof.
  intros hosts off l op r st v1 st1 v2 st2 Hop Hl Hr Hu.
  assert (Hp : fst (eval hosts off (SBin l op r) st) = Panic).
  { rewrite (bin_node hosts off l op r st v1 st1 v2 st2 (is_eq_op_not_assign op Hop) Hl Hr).
    apply fmt_fst_panic. cbn [fst]. apply binary_op_panic_iff. split; assumption. }
  split; [exact Hp|]. apply entry_err. right. exact Hp.
Qed.

Lemma arr_node : forall hosts off es st vs st1,
  eval_list hosts off es st = (Ok vs, st1) -> eval hosts off (SArr es) st = (Ok (VArr vs), st1).
Proof. intros hosts off es st vs st1 H. rewrite eval_SArr, H. reflexivity. Qed.

(* [..] == [..] (also !=, ===, !==) for any two array literals whose elements evaluate *)
Lemma compare_arrays : forall hosts off es1 op es2 st vs1 st1 vs2 st2,
  is_eq_op op = true ->
  eval_list hosts off es1 st = (Ok vs1, st1) -> eval_list hosts off es2 st1 = (Ok vs2, st2) ->
  fst (resolve_entry hosts off (SBin (SArr es1) op (SArr es2)) st) = Err.
Proof.
  intros hosts off es1 op es2 st vs1 st1 vs2 st2 Hop H1 H2.
  apply (compare_uncomparable hosts off (SArr es1) op (SArr es2) st (VArr vs1) st1 (VArr vs2) st2 Hop).
  - apply arr_node. exact H1.
  - apply arr_node. exact H2.
  - reflexivity.
Qed.

(* any two operands that evaluate to arrays, or to maps *)
Lemma compare_arrays_or_maps : forall hosts off l op r st v1 st1 v2 st2,
  is_eq_op op = true ->
  eval hosts off l st = (Ok v1, st1) -> eval hosts off r st1 = (Ok v2, st2) ->
  (exists a b, v1 = VArr a /\ v2 = VArr b) \/ (exists a b, v1 = VMap a /\ v2 = VMap b) ->
  fst (resolve_entry hosts off (SBin l op r) st) = Err.
Proof.
  intros hosts off l op r st v1 st1 v2 st2 Hop Hl Hr H.
  apply (compare_uncomparable hosts off l op r st v1 st1 v2 st2 Hop Hl Hr).
  destruct H as [(a & b & H1 & H2)|(a & b & H1 & H2)]; subst v1 v2; reflexivity.
Qed.

(* [1] == [1] and this == this *)
Example ex_compare_arrays :
  let e := SBin (SArr [SLit KNumber (str "1")]) KEqEq (SArr [SLit KNumber (str "1")]) in
  fst (eval [] 0 e (mkR None [])) = Panic /\ fst (resolve_entry [] 0 e (mkR None [])) = Err.
Proof. split; vm_compute; reflexivity. Qed.

Example ex_compare_maps :
  let e := SBin (SLit KThis []) KEqEqEq (SLit KThis []) in
  fst (eval [] 0 e (mkR None [])) = Panic /\ fst (resolve_entry [] 0 e (mkR None [])) = Err.
Proof. split; vm_compute; reflexivity. Qed.

(* the same function on both sides: any two operands that evaluate to the same host function or
   to the same builtin *)
Lemma compare_same_function : forall hosts off l op r st v1 st1 v2 st2,
  is_eq_op op = true ->
  eval hosts off l st = (Ok v1, st1) -> eval hosts off r st1 = (Ok v2, st2) ->
  (exists f, v1 = VFunc f /\ v2 = VFunc f) \/
  (exists m n, v1 = VBuiltin m /\ v2 = VBuiltin n /\ bytes_eqb m n = true) ->
  fst (resolve_entry hosts off (SBin l op r) st) = Err.
Proof.
  intros hosts off l op r st v1 st1 v2 st2 Hop Hl Hr H.
  apply (compare_uncomparable hosts off l op r st v1 st1 v2 st2 Hop Hl Hr).
  apply uncomparable_cases. right. right. exact H.
Qed.

(* left == left: Panic inside, Err at the entry; left == right: outside the model *)
Example ex_compare_same_builtin :
  let e := SBin (SIdent KIdent (str "left")) KEqEq (SIdent KIdent (str "left")) in
  fst (eval [] 0 e (mkR None [])) = Panic /\ fst (resolve_entry [] 0 e (mkR None [])) = Err.
Proof. split; vm_compute; reflexivity. Qed.

Example ex_compare_different_builtins :
  let e := SBin (SIdent KIdent (str "left")) KEqEq (SIdent KIdent (str "right")) in
  fst (resolve_entry [] 0 e (mkR None [])) = Unk.
Proof. vm_compute. reflexivity. Qed.

(* f. reading a field a struct does not have (time.Time is the model's struct) *)
Lemma member_of_struct_missing_field : forall hosts off a nk name asrt st t st1,
  eval hosts off a st = (Ok (VTime t), st1) ->
  fst (eval hosts off (SSel a nk name asrt) st) = Panic /\
  fst (resolve_entry hosts off (SSel a nk name asrt) st) = Err.
Proof.
  intros hosts off a nk name asrt st t st1 Ha.
  assert (Hp : fst (eval hosts off (SSel a nk name asrt) st) = Panic).
  { rewrite eval_SSel, Ha. reflexivity. }
  split; [exact Hp|]. apply entry_err. right. exact Hp.
Qed.

(* ... and a Go struct value proper: a name that is not among its selectable fields *)
Lemma member_of_go_struct_missing_field : forall hosts off a nk name asrt st id fs st1,
  eval hosts off a st = (Ok (VStruct id fs), st1) -> assoc name fs = None ->
  fst (eval hosts off (SSel a nk name asrt) st) = Panic /\
  fst (resolve_entry hosts off (SSel a nk name asrt) st) = Err.
Proof.
  intros hosts off a nk name asrt st id fs st1 Ha Hn.
  assert (Hp : fst (eval hosts off (SSel a nk name asrt) st) = Panic).
  { rewrite eval_SSel, Ha. cbn [is_null andb]. rewrite Hn. reflexivity. }
  split; [exact Hp|]. apply entry_err. right. exact Hp.
Qed.

(* date(2020,1,2).year *)
Example ex_struct_field :
  let e := SSel (SCall (SIdent KIdent (str "date"))
                   [SLit KNumber (str "2020"); SLit KNumber (str "1"); SLit KNumber (str "2")] false)
                KIdent (str "year") false in
  fst (eval [] 0 e (mkR None [])) = Panic /\ fst (resolve_entry [] 0 e (mkR None [])) = Err.
Proof. split; vm_compute; reflexivity. Qed.

(* calling null: f() with f undefined *)
Example ex_call_null :
  let e := SCall (SIdent KIdent (str "f")) [] false in
  fst (eval [] 0 e (mkR None [])) = Panic /\ fst (resolve_entry [] 0 e (mkR None [])) = Err.
Proof. split; vm_compute; reflexivity. Qed.

Example ex_call_non_function_hyps :
  eval [] 0 (SIdent KIdent (str "f")) (mkR None []) = (Ok VNull, mkR None []) /\
  eval_list [] 0 [] (mkR None []) = (Ok [], mkR None []) /\ is_callable VNull = false.
Proof. repeat split. Qed.

(* "abc"(1): callee is not a name; x(1) with x = 5 *)
Example ex_call_number :
  fst (resolve_entry [] 0 (SCall (SIdent KIdent (str "x")) [SLit KNumber (str "1")] false)
         (mkR (Some [(str "x", VGoInt GInt 5)]) [])) = Err.
Proof. vm_compute. reflexivity. Qed.

(* ================================================================== *)
(* 3. Where the inner evaluator panics                                 *)
(* ================================================================== *)

(* --- 3a. primitives that never panic --- *)

Ltac kill_cases H :=
  repeat match type of H with
  | context [if ?c then _ else _] => destruct c
  | context [match ?c with Some _ => _ | None => _ end] => destruct c
  end; try discriminate H.

Lemma unary_op_no_panic : forall op v, unary_op op v <> Panic.
Proof.
  intros op v H. destruct op; try discriminate H; destruct v; try discriminate H; cbn in H; kill_cases H.
Qed.

Lemma iface_builtin_no_panic : forall name v, iface_builtin name v <> Panic.
Proof.
  intros name v. unfold iface_builtin.
  destruct (name_is name "finite"); [discriminate|].
  destruct (name_is name "toString"); [destruct (conv_to_string v); discriminate|].
  destruct (name_is name "toInt"); [discriminate|].
  destruct (name_is name "toFloat"); discriminate.
Qed.

(* --- 3b. builtins: only the string slicers panic, exactly on out-of-range positions --- *)

Definition slice_builtin_panics (name : list Z) (args : list value) : Prop :=
  (exists s k n, args = [VStr s; VGoInt k n] /\
     (name_is name "left" = true \/ name_is name "right" = true) /\ n < 0) \/
  (exists s ps k l, args = [VStr s; VStr ps; VGoInt k l] /\
     (name_is name "lpad" = true \/ name_is name "rpad" = true) /\ l < 0) \/
  (exists s k a k' b, args = [VStr s; VGoInt k a; VGoInt k' b] /\
     name_is name "mid" = true /\ Z.max 0 a > Z.min (slen s) b).

Lemma builtin_apply_panic_inv : forall off name args,
  builtin_apply off name args = Panic -> slice_builtin_panics name args.
Proof.
  intros off name args H.
  destruct args as [|a [|b [|c [|d [|e r]]]]].
  - discriminate H.
  - exfalso. destruct a; try exact (iface_builtin_no_panic _ _ H); cbn in H; kill_cases H;
      exact (iface_builtin_no_panic _ _ H).
  - destruct a; try (exfalso; cbn in H; discriminate H);
    destruct b; try (exfalso; cbn in H; kill_cases H; fail).
    left. rewrite builtin_apply_str_int in H. cbv zeta in H. exists s, k, v. split; [reflexivity|].
    pose proof (slen_nonneg s) as Hs.
    destruct (name_is name "left") eqn:E1.
    + split; [left; reflexivity|].
      destruct (slice s 0 (if slen s <? v then slen s else v)) eqn:Es; try discriminate H.
      apply slice_panic_iff in Es. destruct (slen s <? v) eqn:E; [apply Z.ltb_lt in E|apply Z.ltb_ge in E]; lia.
    + destruct (name_is name "right") eqn:E2; [|discriminate H].
      split; [right; reflexivity|].
      destruct (slice s (slen s - (if slen s <? v then slen s else v)) (slen s)) eqn:Es; try discriminate H.
      apply slice_panic_iff in Es. destruct (slen s <? v) eqn:E; [apply Z.ltb_lt in E|apply Z.ltb_ge in E]; lia.
  - destruct a; try (exfalso; cbn in H; discriminate H);
    destruct b; try (exfalso; cbn in H; discriminate H);
    destruct c; try (exfalso; cbn in H; kill_cases H; fail).
    + right. left. rewrite builtin_apply_str_str_int in H. exists s, s0, k, v. split; [reflexivity|].
      pose proof (slen_nonneg s) as Hs0.
      assert (Hs : forall x, (if v <? slen s then obind (slice s 0 v) (fun r => Ok (VStr r)) else Ok x) = Panic -> v < 0).
      { intros x Hx. destruct (v <? slen s) eqn:E; [|discriminate Hx]. apply Z.ltb_lt in E.
        destruct (slice s 0 v) eqn:Es; try discriminate Hx. apply slice_panic_iff in Es. lia. }
      destruct (name_is name "lpad").
      * split; [left; reflexivity|]. exact (Hs _ H).
      * destruct (name_is name "rpad"); [|discriminate H]. split; [right; reflexivity|]. exact (Hs _ H).
    + right. right. rewrite builtin_apply_str_int_int in H. exists s, k, v, k0, v0. split; [reflexivity|].
      destruct (name_is name "mid"); [|discriminate H]. split; [reflexivity|].
      destruct (slice s (if v <? 0 then 0 else v) (if slen s <? v0 then slen s else v0)) eqn:Es; try discriminate H.
      apply slice_panic_iff in Es. pose proof (slen_nonneg s) as Hs0.
      destruct (v <? 0) eqn:E1; destruct (slen s <? v0) eqn:E2;
      try apply Z.ltb_lt in E1; try apply Z.ltb_lt in E2; try apply Z.ltb_ge in E1; try apply Z.ltb_ge in E2; lia.
  - exfalso. destruct a; cbn in H; try discriminate H; destruct b; cbn in H; try discriminate H;
    destruct c; cbn in H; try discriminate H; destruct d; cbn in H; try discriminate H; kill_cases H.
  - exfalso. destruct a; cbn in H; try discriminate H; destruct b; cbn in H; try discriminate H;
    destruct c; cbn in H; try discriminate H; destruct d; cbn in H; try discriminate H; kill_cases H.
Qed.

Lemma builtin_call_panic_inv : forall off name args,
  builtin_call off name args = Panic -> slice_builtin_panics name args.
Proof.
  intros off name args H. unfold builtin_call in H.
  destruct (existsb is_opaque args); [discriminate H|].
  destruct (bytes_eqb name (str "max")).
  { destruct (nums_of args) as [[|d r]|]; discriminate H. }
  destruct (bytes_eqb name (str "min")).
  { destruct (nums_of args) as [[|d r]|]; discriminate H. }
  exact (builtin_apply_panic_inv off name args H).
Qed.

(* --- 3c. conversions --- *)

Lemma conv_to_ok_null_iff : forall t v, conv_to t v = Ok VNull <-> t = TIface /\ v = VNull.
Proof.
  intros t v. split; [|intros [Ht Hv]; subst t v; reflexivity].
  intros H. destruct t.
  - destruct v; cbn in H; try discriminate H. split; reflexivity.
  - exfalso. destruct v; cbn in H; try discriminate H; kill_cases H.
  - exfalso. destruct v; cbn in H; try discriminate H; kill_cases H.
  - exfalso. destruct k; destruct v; cbn in H; try discriminate H; kill_cases H.
  - exfalso. destruct v; cbn in H; try discriminate H; kill_cases H.
  - exfalso. destruct v; cbn in H; try discriminate H; kill_cases H.
  - exfalso. destruct v; cbn in H; try discriminate H; kill_cases H.
  - exfalso. rewrite conv_to_slice in H. destruct v; try discriminate H. destruct (conv_slice_elems t l); discriminate H.
  - exfalso. rewrite conv_to_map in H. destruct v; try discriminate H. destruct (conv_map_elems t m); discriminate H.
  - discriminate H.
Qed.

Lemma is_null_dec : forall v : value, v = VNull \/ v <> VNull.
Proof. intros v. destruct v; try (right; discriminate). left. reflexivity. Qed.

(* the element loops: the first element whose own conversion panics decides (an element converted
   to nil is kept, it is no longer a panic) *)
Lemma conv_slice_elems_panic_iff : forall et l,
  conv_slice_elems et l = Panic <->
  exists l1 x l2, l = l1 ++ x :: l2 /\ (exists l1', conv_slice_elems et l1 = Ok l1') /\
                  conv_to et x = Panic.
Proof.
  intros et l. split.
  - induction l as [|x r IH]; intros H; [discriminate H|].
    rewrite conv_slice_elems_cons in H.
    destruct (conv_to et x) as [x'| | |] eqn:Ex; try discriminate H.
    + destruct (conv_slice_elems et r) as [r'| | |] eqn:Er; try discriminate H.
      destruct (IH eq_refl) as (l1 & y & l2 & Hl & [l1' Hl1] & Hy).
      exists (x :: l1), y, l2. split; [rewrite Hl; reflexivity|]. split; [|exact Hy].
      exists (x' :: l1'). rewrite conv_slice_elems_cons, Ex, Hl1. reflexivity.
    + exists [], x, r. split; [reflexivity|]. split; [exists []; reflexivity|]. exact Ex.
  - intros (l1 & x & l2 & Hl & [l1' Hl1] & Hx). subst l. revert l1' Hl1.
    induction l1 as [|y l1 IH]; intros l1' Hl1.
    + cbn [app]. rewrite conv_slice_elems_cons, Hx. reflexivity.
    + cbn [app]. rewrite conv_slice_elems_cons. rewrite conv_slice_elems_cons in Hl1.
      destruct (conv_to et y) as [y'| | |]; try discriminate Hl1.
      destruct (conv_slice_elems et l1) as [r'| | |] eqn:Er; try discriminate Hl1.
      rewrite (IH r' eq_refl). reflexivity.
Qed.
