(* Facts about the evaluator model (Sem/Eval.v): unfolding lemmas, an induction principle for
   position-free trees, the formatting invariant, truthiness and selection operators (C06),
   assignment / sequencing / frame (C07), names and member access (C16). *)
From Coq Require Import List ZArith Lia Bool String.
From Formula Require Import Sem.Eval.
Import ListNotations.
Local Open Scope Z_scope.

(* ---------------------------------------------------------------------------------------- *)
(* byte strings, association lists                                                           *)
(* ---------------------------------------------------------------------------------------- *)

Lemma ev_bytes_eqb_refl : forall a, bytes_eqb a a = true.
Proof.
  induction a as [|x a IH]; cbn [bytes_eqb]; [reflexivity|].
  rewrite Z.eqb_refl, IH. reflexivity.
Qed.

Lemma ev_bytes_eqb_eq : forall a b, bytes_eqb a b = true -> a = b.
Proof.
  induction a as [|x a IH]; intros [|y b] H; cbn [bytes_eqb] in H; try discriminate H.
  - reflexivity.
  - apply andb_true_iff in H. destruct H as [H1 H2].
    apply Z.eqb_eq in H1. apply IH in H2. subst. reflexivity.
Qed.

Lemma starts_dollar_inv : forall n, starts_dollar n = true -> exists t, n = 36 :: t.
Proof.
  intros [|c t] H; [discriminate H|].
  destruct c as [|p|p]; try discriminate H.
  do 6 (destruct p as [p|p|]; try discriminate H).
  exists t. reflexivity.
Qed.

Lemma dollar_neq_nondollar : forall k n,
  starts_dollar k = false -> starts_dollar n = true -> bytes_eqb k n = false.
Proof.
  intros k n Hk Hn. destruct (bytes_eqb k n) eqn:E; [|reflexivity].
  apply ev_bytes_eqb_eq in E. subst k. rewrite Hn in Hk. discriminate Hk.
Qed.

Lemma dollar_not_builtin : forall name,
  starts_dollar name = true -> existsb (bytes_eqb name) builtin_names = false.
Proof.
  intros name H. apply starts_dollar_inv in H. destruct H as [t ->]. reflexivity.
Qed.

Lemma assoc_set_same : forall k v m, assoc k (assoc_set k v m) = Some v.
Proof.
  intros k v m. induction m as [|[k' v'] m IH]; cbn [assoc_set assoc].
  - rewrite ev_bytes_eqb_refl. reflexivity.
  - destruct (bytes_eqb k k') eqn:E; cbn [assoc].
    + rewrite ev_bytes_eqb_refl. reflexivity.
    + rewrite E. exact IH.
Qed.

Lemma assoc_set_other : forall k n v m, bytes_eqb k n = false -> assoc k (assoc_set n v m) = assoc k m.
Proof.
  intros k n v m Hkn. induction m as [|[k' v'] m IH]; cbn [assoc_set assoc].
  - rewrite Hkn. reflexivity.
  - destruct (bytes_eqb n k') eqn:E; cbn [assoc].
    + apply ev_bytes_eqb_eq in E. subst k'. rewrite Hkn. reflexivity.
    + rewrite IH. reflexivity.
Qed.

(* ---------------------------------------------------------------------------------------- *)
(* format_input                                                                              *)
(* ---------------------------------------------------------------------------------------- *)

Lemma format_input_idem : forall v, format_input (format_input v) = format_input v.
Proof. intros v. destruct v as [| | | | | | | | |k n| | | | |]; try reflexivity. destruct k; reflexivity. Qed.

Definition fmt_res (r : outcome value * rstate) : outcome value * rstate :=
  match r with (Ok v, s) => (Ok (format_input v), s) | _ => r end.

Lemma fmt_res_ok_inv : forall r v s, fmt_res r = (Ok v, s) -> exists v0, r = (Ok v0, s) /\ v = format_input v0.
Proof.
  intros [[v0| | |] s0] v s H; cbn [fmt_res] in H; try discriminate H.
  inversion H. subst. exists v0. split; reflexivity.
Qed.

Lemma fmt_res_fixed : forall r,
  (forall v s, r = (Ok v, s) -> format_input v = v) -> fmt_res r = r.
Proof.
  intros [[v0| | |] s0] H; cbn [fmt_res]; try reflexivity.
  rewrite (H v0 s0 eq_refl). reflexivity.
Qed.

Lemma fmt_res_snd : forall r, snd (fmt_res r) = snd r.
Proof. intros [[v0| | |] s0]; reflexivity. Qed.

(* ---------------------------------------------------------------------------------------- *)
(* induction principle for sexpr                                                             *)
(* ---------------------------------------------------------------------------------------- *)

Section SexprInd.
Variable P : sexpr -> Prop.
Hypothesis HIdent : forall k v, P (SIdent k v).
Hypothesis HMissing : P SMissing.
Hypothesis HLit : forall k v, P (SLit k v).
Hypothesis HPrefix : forall op x, P x -> P (SPrefix op x).
Hypothesis HTypeof : forall x, P x -> P (STypeof x).
Hypothesis HBin : forall l op r, P l -> P r -> P (SBin l op r).
Hypothesis HCond : forall c t f, P c -> P t -> P f -> P (SCond c t f).
Hypothesis HArr : forall es, Forall P es -> P (SArr es).
Hypothesis HParen : forall x, P x -> P (SParen x).
Hypothesis HSel : forall x nk name a, P x -> P (SSel x nk name a).
Hypothesis HSelMissing : forall x a, P x -> P (SSelMissing x a).
Hypothesis HCall : forall f args sp, P f -> Forall P args -> P (SCall f args sp).

Fixpoint sexpr_ind' (e : sexpr) : P e :=
  match e with
  | SIdent k v => HIdent k v
  | SMissing => HMissing
  | SLit k v => HLit k v
  | SPrefix op x => HPrefix op x (sexpr_ind' x)
  | STypeof x => HTypeof x (sexpr_ind' x)
  | SBin l op r => HBin l op r (sexpr_ind' l) (sexpr_ind' r)
  | SCond c t f => HCond c t f (sexpr_ind' c) (sexpr_ind' t) (sexpr_ind' f)
  | SArr es =>
    HArr es ((fix go (l : list sexpr) : Forall P l :=
                match l with [] => Forall_nil P | a :: t => Forall_cons a (sexpr_ind' a) (go t) end) es)
  | SParen x => HParen x (sexpr_ind' x)
  | SSel x nk name a => HSel x nk name a (sexpr_ind' x)
  | SSelMissing x a => HSelMissing x a (sexpr_ind' x)
  | SCall f args sp =>
    HCall f args sp (sexpr_ind' f)
      ((fix go (l : list sexpr) : Forall P l :=
          match l with [] => Forall_nil P | a :: t => Forall_cons a (sexpr_ind' a) (go t) end) args)
  end.
End SexprInd.

(* ---------------------------------------------------------------------------------------- *)
(* one-step unfolding of eval                                                                *)
(* ---------------------------------------------------------------------------------------- *)

Section Ev.
Variable hosts : list (Z * hostfn).
Variable off : Z.

Notation ev := (eval hosts off).

(* the inner list loop of eval as a standalone function *)
Fixpoint eval_list (l : list sexpr) (st : rstate) : outcome (list value) * rstate :=
  match l with
  | [] => (Ok [], st)
  | a :: t =>
    match ev a st with
    | (Ok v, st1) =>
      match eval_list t st1 with
      | (Ok vs, st2) => (Ok (v :: vs), st2)
      | (Err, st2) => (Err, st2)
      | (Panic, st2) => (Panic, st2)
      | (Unk, st2) => (Unk, st2)
      end
    | (Err, st1) => (Err, st1)
    | (Panic, st1) => (Panic, st1)
    | (Unk, st1) => (Unk, st1)
    end
  end.

Lemma eval_ident : forall k name st, ev (SIdent k name) st = fmt_res (Ok (lookup_ident name st), st).
Proof. reflexivity. Qed.

Lemma eval_missing : forall st, ev SMissing st = fmt_res (Ok (lookup_ident [] st), st).
Proof. reflexivity. Qed.

Lemma eval_lit : forall k v st,
  ev (SLit k v) st =
  fmt_res match k with
          | KTrue => (Ok (VBool true), st)
          | KFalse => (Ok (VBool false), st)
          | KNull => (Ok VNull, st)
          | KThis => (Ok (VMap (match r_this st with Some m => m | None => [] end)), st)
          | KCtx => (Ok VCtx, st)
          | KNumber => (match v with [] => Err | _ => Ok (VNum (dec_of_string v)) end, st)
          | KString => (Ok (VStr v), st)
          | _ => (Err, st)
          end.
Proof. reflexivity. Qed.

Lemma eval_prefix : forall op a st,
  ev (SPrefix op a) st =
  fmt_res match ev a st with
          | (Ok v, st1) => (unary_op op v, st1)
          | r => r
          end.
Proof. reflexivity. Qed.

Lemma eval_typeof : forall a st,
  ev (STypeof a) st =
  fmt_res match ev a st with
          | (Ok v, st1) =>
            (Ok (VStr (match v with
                       | VBool _ => str "boolean" | VStr _ => str "string" | VNum _ => str "number"
                       | _ => str "object" end)), st1)
          | r => r
          end.
Proof. reflexivity. Qed.

Lemma eval_bin : forall l op r st,
  ev (SBin l op r) st =
  fmt_res
    (if kind_eqb op KEquals then
       match l with
       | SIdent _ name =>
         if starts_dollar name then
           match ev r st with
           | (Ok v, st1) => (Ok v, set_this_value name v st1)
           | x => x
           end
         else (Err, st)
       | _ => (Err, st)
       end
     else
       match ev l st with
       | (Ok v1, st1) =>
         match ev r st1 with
         | (Ok v2, st2) => (binary_op op v1 v2, st2)
         | x => x
         end
       | x => x
       end).
Proof. reflexivity. Qed.

Lemma eval_cond : forall c t f st,
  ev (SCond c t f) st =
  fmt_res match ev c st with
          | (Ok v, st1) => if truthy v then ev t st1 else ev f st1
          | x => x
          end.
Proof. reflexivity. Qed.

Lemma eval_arr : forall es st,
  ev (SArr es) st =
  fmt_res match eval_list es st with
          | (Ok vs, st1) => (Ok (VArr vs), st1)
          | (Err, st1) => (Err, st1)
          | (Panic, st1) => (Panic, st1)
          | (Unk, st1) => (Unk, st1)
          end.
Proof. reflexivity. Qed.

Lemma eval_paren : forall a st, ev (SParen a) st = fmt_res (ev a st).
Proof. reflexivity. Qed.

Lemma eval_sel : forall a k name asrt st,
  ev (SSel a k name asrt) st =
  fmt_res match ev a st with
          | (Ok v, st1) =>
            if is_null v && asrt then (Err, st1)
            else
              (match v with
               | VMap m => Ok (match assoc name m with Some x => (if is_null x then VNull else x) | None => VNull end)
               | VTime _ => Panic
               | VOpaque _ => Unk
               | VStruct _ fs =>
                 match assoc name fs with Some x => Ok (if is_null x then VNull else x) | None => Panic end
               | _ => Ok VNull
               end, st1)
          | x => x
          end.
Proof. reflexivity. Qed.

Lemma eval_selmissing : forall a asrt st, ev (SSelMissing a asrt) st = fmt_res (ev a st).
Proof. reflexivity. Qed.

Lemma eval_call : forall f args spread st,
  ev (SCall f args spread) st =
  fmt_res match ev f st with
          | (Ok fv, st1) =>
            if negb (is_name_path f) then (Err, st1)
            else
              match eval_list args st1 with
              | (Ok vs, st2) => call_value hosts off fv vs spread st2
              | (Err, st2) => (Err, st2)
              | (Panic, st2) => (Panic, st2)
              | (Unk, st2) => (Unk, st2)
              end
          | x => x
          end.
Proof. reflexivity. Qed.

Lemma eval_is_fmt : forall e st, exists X, ev e st = fmt_res X.
Proof.
  intros e st. destruct e.
  - eexists. apply eval_ident.
  - eexists. apply eval_missing.
  - eexists. apply eval_lit.
  - eexists. apply eval_prefix.
  - eexists. apply eval_typeof.
  - eexists. apply eval_bin.
  - eexists. apply eval_cond.
  - eexists. apply eval_arr.
  - eexists. apply eval_paren.
  - eexists. apply eval_sel.
  - eexists. apply eval_selmissing.
  - eexists. apply eval_call.
Qed.

(* every Ok result of eval is already normalised *)
Lemma eval_result_formatted : forall e st v st', ev e st = (Ok v, st') -> format_input v = v.
Proof.
  intros e st v st' H. destruct (eval_is_fmt e st) as [X HX]. rewrite HX in H.
  apply fmt_res_ok_inv in H. destruct H as [v0 [_ ->]]. apply format_input_idem.
Qed.

Lemma fmt_res_eval : forall e st, fmt_res (ev e st) = ev e st.
Proof.
  intros e st. apply fmt_res_fixed. intros v s H. exact (eval_result_formatted e st v s H).
Qed.

End Ev.

(* ---------------------------------------------------------------------------------------- *)
(* C06: truthiness and the selection operators                                               *)
(* ---------------------------------------------------------------------------------------- *)

Lemma truthy_spec : forall v,
  truthy v = false <->
  (v = VNull \/ v = VNilPtr \/ v = VBool false \/
   (exists d, v = VNum d /\ (dec_cmp d dec_zero = 0 \/ is_nan d = true)) \/ v = VStr []).
Proof.
  intros v. split.
  - intros H. destruct v as [|b|d|s| | | | | | | | | | |]; cbn in H; try discriminate H.
    + left. reflexivity.
    + destruct b; [discriminate H|]. right. right. left. reflexivity.
    + right. right. right. left. exists d. split; [reflexivity|].
      destruct (dec_cmp d dec_zero =? 0) eqn:E.
      * left. apply Z.eqb_eq. exact E.
      * right. cbn in H. destruct (is_nan d); [reflexivity|discriminate H].
    + destruct s; [|discriminate H]. right. right. right. right. reflexivity.
    + right. left. reflexivity.
  - intros [H|[H|[H|[[d [H Hd]]|H]]]]; subst v; try reflexivity.
    cbn [truthy]. destruct Hd as [Hc|Hn].
    + rewrite Hc. reflexivity.
    + rewrite Hn. apply andb_false_r.
Qed.

(* the kinds of value on which `!` is defined *)
Definition bang_defined (v : value) : bool :=
  match v with VBool _ | VNum _ | VNull => true | _ => false end.

Section C06.
Variable hosts : list (Z * hostfn).
Variable off : Z.
Notation ev := (eval hosts off).

Lemma bangbang_is_truthy : forall a st v st1,
  ev a st = (Ok v, st1) -> ev (SPrefix KBangBang a) st = (Ok (VBool (truthy v)), st1).
Proof. intros a st v st1 H. rewrite eval_prefix, H. reflexivity. Qed.

Lemma bang_is_negation : forall a st v st1,
  ev a st = (Ok v, st1) -> bang_defined v = true ->
  ev (SPrefix KBang a) st = (Ok (VBool (negb (truthy v))), st1).
Proof.
  intros a st v st1 H Hd. rewrite eval_prefix, H.
  destruct v; try discriminate Hd; reflexivity.
Qed.

Lemma bang_on_other_is_error : forall a st v st1,
  ev a st = (Ok v, st1) -> bang_defined v = false ->
  ev (SPrefix KBang a) st = (Err, st1).
Proof.
  intros a st v st1 H Hd. rewrite eval_prefix, H.
  destruct v; try discriminate Hd; reflexivity.
Qed.

Lemma cond_selects : forall c t f st v st1,
  ev c st = (Ok v, st1) ->
  ev (SCond c t f) st = if truthy v then ev t st1 else ev f st1.
Proof.
  intros c t f st v st1 H. rewrite eval_cond, H.
  destruct (truthy v); apply fmt_res_eval.
Qed.

Lemma cond_ignores_unselected_true : forall c t st v st1,
  ev c st = (Ok v, st1) -> truthy v = true ->
  forall f f', ev (SCond c t f) st = ev (SCond c t f') st.
Proof.
  intros c t st v st1 H Ht f f'.
  rewrite (cond_selects c t f st v st1 H), (cond_selects c t f' st v st1 H), Ht. reflexivity.
Qed.

Lemma cond_ignores_unselected_false : forall c f st v st1,
  ev c st = (Ok v, st1) -> truthy v = false ->
  forall t t', ev (SCond c t f) st = ev (SCond c t' f) st.
Proof.
  intros c f st v st1 H Ht t t'.
  rewrite (cond_selects c t f st v st1 H), (cond_selects c t' f st v st1 H), Ht. reflexivity.
Qed.

(* a condition that does not evaluate is handed on, neither branch runs *)
Lemma cond_condition_fails : forall c t f st r st1,
  ev c st = (r, st1) -> (forall v, r <> Ok v) ->
  ev (SCond c t f) st = (r, st1).
Proof.
  intros c t f st r st1 H Hr. rewrite eval_cond, H.
  destruct r as [v| | |]; try reflexivity. exfalso. exact (Hr v eq_refl).
Qed.

Lemma eval_bin_ok : forall l op r st v1 st1 v2 st2,
  kind_eqb op KEquals = false ->
  ev l st = (Ok v1, st1) -> ev r st1 = (Ok v2, st2) ->
  ev (SBin l op r) st = fmt_res (binary_op op v1 v2, st2).
Proof.
  intros l op r st v1 st1 v2 st2 Hop H1 H2. rewrite eval_bin, Hop, H1, H2. reflexivity.
Qed.

Lemma and_returns_operand : forall l r st v1 st1 v2 st2,
  ev l st = (Ok v1, st1) -> ev r st1 = (Ok v2, st2) ->
  ev (SBin l KAmpAmp r) st = (Ok (if truthy v1 then v2 else v1), st2).
Proof.
  intros l r st v1 st1 v2 st2 H1 H2.
  rewrite (eval_bin_ok l KAmpAmp r st v1 st1 v2 st2 eq_refl H1 H2).
  cbn [binary_op fmt_res].
  destruct (truthy v1);
    [rewrite (eval_result_formatted _ _ _ _ _ _ H2)|rewrite (eval_result_formatted _ _ _ _ _ _ H1)]; reflexivity.
Qed.

Lemma or_returns_operand : forall l r st v1 st1 v2 st2,
  ev l st = (Ok v1, st1) -> ev r st1 = (Ok v2, st2) ->
  ev (SBin l KBarBar r) st = (Ok (if truthy v1 then v1 else v2), st2).
Proof.
  intros l r st v1 st1 v2 st2 H1 H2.
  rewrite (eval_bin_ok l KBarBar r st v1 st1 v2 st2 eq_refl H1 H2).
  cbn [binary_op fmt_res].
  destruct (truthy v1);
    [rewrite (eval_result_formatted _ _ _ _ _ _ H1)|rewrite (eval_result_formatted _ _ _ _ _ _ H2)]; reflexivity.
Qed.

Lemma coalesce_returns_operand : forall l r st v1 st1 v2 st2,
  ev l st = (Ok v1, st1) -> ev r st1 = (Ok v2, st2) ->
  ev (SBin l KQQ r) st = (Ok (if is_null v1 then v2 else v1), st2).
Proof.
  intros l r st v1 st1 v2 st2 H1 H2.
  rewrite (eval_bin_ok l KQQ r st v1 st1 v2 st2 eq_refl H1 H2).
  cbn [binary_op fmt_res].
  destruct (is_null v1);
    [rewrite (eval_result_formatted _ _ _ _ _ _ H2)|rewrite (eval_result_formatted _ _ _ _ _ _ H1)]; reflexivity.
Qed.

(* Observation: `&&`, `||`, `??` are NOT short-circuit in the model (nor in runner.go): the right
   operand is always evaluated, so its failure fails the whole expression whatever the left is. *)
Lemma binary_right_failure_propagates : forall l op r st v1 st1 x st2,
  kind_eqb op KEquals = false ->
  ev l st = (Ok v1, st1) -> ev r st1 = (x, st2) -> (forall v, x <> Ok v) ->
  ev (SBin l op r) st = (x, st2).
Proof.
  intros l op r st v1 st1 x st2 Hop H1 H2 Hx. rewrite eval_bin, Hop, H1, H2.
  destruct x as [v| | |]; try reflexivity. exfalso. exact (Hx v eq_refl).
Qed.

Lemma selection_consistent : forall c a b st v st1,
  ev c st = (Ok v, st1) ->
  ev (SPrefix KBangBang c) st = (Ok (VBool (truthy v)), st1) /\
  ev (SCond c a b) st = (if truthy v then ev a st1 else ev b st1) /\
  (forall v2 st2, ev b st1 = (Ok v2, st2) ->
     ev (SBin c KAmpAmp b) st = (Ok (if truthy v then v2 else v), st2) /\
     ev (SBin c KBarBar b) st = (Ok (if truthy v then v else v2), st2)).
Proof.
  intros c a b st v st1 H. split; [|split].
  - exact (bangbang_is_truthy c st v st1 H).
  - exact (cond_selects c a b st v st1 H).
  - intros v2 st2 H2. split.
    + exact (and_returns_operand c b st v st1 v2 st2 H H2).
    + exact (or_returns_operand c b st v st1 v2 st2 H H2).
Qed.

End C06.

(* ---------------------------------------------------------------------------------------- *)
(* C07: assignment, sequencing, frame                                                        *)
(* ---------------------------------------------------------------------------------------- *)

(* is the tree a bare `$`-prefixed name (the only legal assignment target) *)
Definition is_dollar_ident (l : sexpr) : bool :=
  match l with SIdent _ name => starts_dollar name | _ => false end.

(* the entry of key k in the data map of a state *)
Definition data_lookup (k : list Z) (st : rstate) : option value :=
  match r_this st with Some m => assoc k m | None => None end.

(* st' differs from st only in `$` entries of the data map and in appended host calls *)
Definition st_le (st st' : rstate) : Prop :=
  (forall k, starts_dollar k = false -> data_lookup k st' = data_lookup k st) /\
  (exists calls, r_trace st' = calls ++ r_trace st).

Lemma st_le_refl : forall st, st_le st st.
Proof. intros st. split; [reflexivity|]. exists []. reflexivity. Qed.

Lemma st_le_trans : forall a b c, st_le a b -> st_le b c -> st_le a c.
Proof.
  intros a b c [H1 [c1 T1]] [H2 [c2 T2]]. split.
  - intros k Hk. rewrite (H2 k Hk). exact (H1 k Hk).
  - exists (c2 ++ c1). rewrite T2, T1. apply app_assoc.
Qed.

Lemma st_le_set : forall name v st, starts_dollar name = true -> st_le st (set_this_value name v st).
Proof.
  intros name v st Hn. split.
  - intros k Hk. unfold data_lookup, set_this_value. cbn [r_this].
    rewrite (assoc_set_other k name v _ (dollar_neq_nondollar k name Hk Hn)).
    destruct (r_this st); reflexivity.
  - exists []. reflexivity.
Qed.

Lemma fmt_res_inv_snd : forall X r s, fmt_res X = (r, s) -> exists r0, X = (r0, s).
Proof.
  intros [x s0] r s H. exists x. f_equal.
  assert (E : snd (fmt_res (x, s0)) = s) by (rewrite H; reflexivity).
  rewrite fmt_res_snd in E. exact E.
Qed.

Section C07.
Variable hosts : list (Z * hostfn).
Variable off : Z.
Notation ev := (eval hosts off).
Notation evl := (eval_list hosts off).

Lemma assign_binds : forall k name r st v st1,
  starts_dollar name = true -> ev r st = (Ok v, st1) ->
  ev (SBin (SIdent k name) KEquals r) st = (Ok v, set_this_value name v st1).
Proof.
  intros k name r st v st1 Hd H. rewrite eval_bin.
  change (kind_eqb KEquals KEquals) with true. cbv iota. rewrite Hd, H. cbn [fmt_res].
  rewrite (eval_result_formatted _ _ _ _ _ _ H). reflexivity.
Qed.

Lemma lookup_after_set : forall name v st,
  existsb (bytes_eqb name) builtin_names = false ->
  lookup_ident name (set_this_value name v st) = v.
Proof.
  intros name v st Hb. unfold lookup_ident. rewrite Hb.
  unfold set_this_value. cbn [r_this]. rewrite assoc_set_same. reflexivity.
Qed.

Lemma assign_then_read : forall name v st,
  starts_dollar name = true -> lookup_ident name (set_this_value name v st) = v.
Proof. intros name v st Hd. apply lookup_after_set. apply dollar_not_builtin. exact Hd. Qed.

(* a read of `$name` in the state left by the assignment (later evaluation by the same runner) *)
Lemma assign_visible_later : forall k k' name r st v st1,
  starts_dollar name = true -> ev r st = (Ok v, st1) ->
  ev (SIdent k' name) (snd (ev (SBin (SIdent k name) KEquals r) st)) =
  (Ok v, set_this_value name v st1).
Proof.
  intros k k' name r st v st1 Hd H. rewrite (assign_binds k name r st v st1 Hd H). cbn [snd].
  rewrite eval_ident, (assign_then_read name v st1 Hd). cbn [fmt_res].
  rewrite (eval_result_formatted _ _ _ _ _ _ H). reflexivity.
Qed.

Lemma assign_target_error : forall l r st,
  is_dollar_ident l = false -> ev (SBin l KEquals r) st = (Err, st).
Proof.
  intros l r st Hl. rewrite eval_bin. change (kind_eqb KEquals KEquals) with true. cbv iota.
  destruct l; try reflexivity. cbn [is_dollar_ident] in Hl. rewrite Hl. reflexivity.
Qed.

Lemma assign_rhs_failure : forall k name r st x st1,
  starts_dollar name = true -> ev r st = (x, st1) -> (forall v, x <> Ok v) ->
  ev (SBin (SIdent k name) KEquals r) st = (x, st1).
Proof.
  intros k name r st x st1 Hd H Hx. rewrite eval_bin.
  change (kind_eqb KEquals KEquals) with true. cbv iota. rewrite Hd, H.
  destruct x as [v| | |]; try reflexivity. exfalso. exact (Hx v eq_refl).
Qed.

Lemma comma_sequences : forall l r st v1 st1 v2 st2,
  ev l st = (Ok v1, st1) -> ev r st1 = (Ok v2, st2) ->
  ev (SBin l KComma r) st = (Ok v2, st2).
Proof.
  intros l r st v1 st1 v2 st2 H1 H2.
  rewrite (eval_bin_ok hosts off l KComma r st v1 st1 v2 st2 eq_refl H1 H2).
  cbn [binary_op fmt_res]. rewrite (eval_result_formatted _ _ _ _ _ _ H2). reflexivity.
Qed.

(* `$x = e, $x` : the read further right sees the binding *)
Lemma assign_comma_read : forall k k' name r st v st1,
  starts_dollar name = true -> ev r st = (Ok v, st1) ->
  ev (SBin (SBin (SIdent k name) KEquals r) KComma (SIdent k' name)) st =
  (Ok v, set_this_value name v st1).
Proof.
  intros k k' name r st v st1 Hd H.
  apply (comma_sequences _ _ st v (set_this_value name v st1)).
  - exact (assign_binds k name r st v st1 Hd H).
  - rewrite eval_ident, (assign_then_read name v st1 Hd). cbn [fmt_res].
    rewrite (eval_result_formatted _ _ _ _ _ _ H). reflexivity.
Qed.

Lemma eval_list_nil : forall st, evl [] st = (Ok [], st).
Proof. reflexivity. Qed.

Lemma eval_list_cons : forall a t st v st1 vs st2,
  ev a st = (Ok v, st1) -> evl t st1 = (Ok vs, st2) ->
  evl (a :: t) st = (Ok (v :: vs), st2).
Proof. intros a t st v st1 vs st2 H1 H2. cbn [eval_list]. rewrite H1, H2. reflexivity. Qed.

Lemma eval_list_head_fails : forall a t st x st1,
  ev a st = (x, st1) -> (forall v, x <> Ok v) ->
  exists y, evl (a :: t) st = (y, st1) /\ (forall vs, y <> Ok vs).
Proof.
  intros a t st x st1 H Hx. cbn [eval_list]. rewrite H.
  destruct x as [v| | |].
  - exfalso. exact (Hx v eq_refl).
  - exists Err. split; [reflexivity|discriminate].
  - exists Panic. split; [reflexivity|discriminate].
  - exists Unk. split; [reflexivity|discriminate].
Qed.

Lemma array_left_to_right : forall es st vs st1,
  evl es st = (Ok vs, st1) -> ev (SArr es) st = (Ok (VArr vs), st1).
Proof. intros es st vs st1 H. rewrite eval_arr, H. reflexivity. Qed.

Lemma args_left_to_right : forall f args sp st fv st1 vs st2,
  is_name_path f = true -> ev f st = (Ok fv, st1) -> evl args st1 = (Ok vs, st2) ->
  ev (SCall f args sp) st = fmt_res (call_value hosts off fv vs sp st2).
Proof.
  intros f args sp st fv st1 vs st2 Hp Hf Ha. rewrite eval_call, Hf, Hp, Ha. reflexivity.
Qed.

Lemma args_left_to_right_explicit : forall f args sp st fv st1 vs st2,
  is_name_path f = true -> ev f st = (Ok fv, st1) -> evl args st1 = (Ok vs, st2) ->
  ev (SCall f args sp) st =
  (match fst (call_value hosts off fv vs sp st2) with Ok v => Ok (format_input v) | x => x end,
   snd (call_value hosts off fv vs sp st2)).
Proof.
  intros f args sp st fv st1 vs st2 Hp Hf Ha.
  rewrite (args_left_to_right f args sp st fv st1 vs st2 Hp Hf Ha).
  destruct (call_value hosts off fv vs sp st2) as [[v| | |] s]; reflexivity.
Qed.

(* ---- frame ---- *)

Lemma call_value_frame : forall f args sp st r st',
  call_value hosts off f args sp st = (r, st') ->
  r_this st' = r_this st /\ exists calls, r_trace st' = calls ++ r_trace st.
Proof.
  intros f args sp st r st' H. unfold call_value in H.
  repeat match type of H with
         | context [match ?x with _ => _ end] => destruct x eqn:?; cbv beta iota zeta in H
         end;
  inversion H; subst; cbn [r_this r_trace];
  (split; [reflexivity|]);
  first [exists []; reflexivity | eexists [_]; reflexivity].
Qed.

Lemma call_value_st_le : forall f args sp st r st',
  call_value hosts off f args sp st = (r, st') -> st_le st st'.
Proof.
  intros f args sp st r st' H. apply call_value_frame in H. destruct H as [Ht Hc]. split.
  - intros k _. unfold data_lookup. rewrite Ht. reflexivity.
  - exact Hc.
Qed.

Definition frame_P (e : sexpr) : Prop := forall st r st', ev e st = (r, st') -> st_le st st'.

Lemma eval_list_frame : forall l, Forall frame_P l ->
  forall st r st', evl l st = (r, st') -> st_le st st'.
Proof.
  intros l HF. induction HF as [|a t Ha _ IH]; intros st r st' H.
  - cbn [eval_list] in H. inversion H. apply st_le_refl.
  - cbn [eval_list] in H. destruct (ev a st) as [x s1] eqn:E. apply Ha in E.
    destruct x as [v| | |]; try (inversion H; subst; exact E).
    destruct (evl t s1) as [y s2] eqn:E2. apply IH in E2.
    assert (s2 = st') by (destruct y; inversion H; reflexivity). subst s2.
    exact (st_le_trans _ _ _ E E2).
Qed.

Lemma eval_frame : forall e, frame_P e.
Proof.
  induction e as [k v| |k v|op x IHx|x IHx|l op r0 IHl IHr|c t f IHc IHt IHf|es HF|x IHx
                 |x nk name a IHx|x a IHx|f args sp IHf HF] using sexpr_ind';
    unfold frame_P in *; intros st r st' H.
  - rewrite eval_ident in H. inversion H. apply st_le_refl.
  - rewrite eval_missing in H. inversion H. apply st_le_refl.
  - rewrite eval_lit in H. apply fmt_res_inv_snd in H. destruct H as [r1 H].
    destruct k; inversion H; apply st_le_refl.
  - rewrite eval_prefix in H. apply fmt_res_inv_snd in H. destruct H as [r1 H].
    destruct (ev x st) as [y s1] eqn:E. apply IHx in E.
    destruct y; inversion H; subst; exact E.
  - rewrite eval_typeof in H. apply fmt_res_inv_snd in H. destruct H as [r1 H].
    destruct (ev x st) as [y s1] eqn:E. apply IHx in E.
    destruct y; inversion H; subst; exact E.
  - rewrite eval_bin in H. apply fmt_res_inv_snd in H. destruct H as [r1 H].
    destruct (kind_eqb op KEquals) eqn:Eop.
    + destruct l as [k name| | | | | | | | | | |]; try (inversion H; apply st_le_refl).
      destruct (starts_dollar name) eqn:Ed; [|inversion H; apply st_le_refl].
      destruct (ev r0 st) as [y s1] eqn:E. apply IHr in E.
      destruct y as [w| | |]; inversion H; subst; try exact E.
      exact (st_le_trans _ _ _ E (st_le_set name w s1 Ed)).
    + destruct (ev l st) as [y s1] eqn:E1. apply IHl in E1.
      destruct y as [w| | |]; try (inversion H; subst; exact E1).
      destruct (ev r0 s1) as [z s2] eqn:E2. apply IHr in E2.
      assert (s2 = st') by (destruct z; inversion H; reflexivity). subst s2.
      exact (st_le_trans _ _ _ E1 E2).
  - rewrite eval_cond in H. apply fmt_res_inv_snd in H. destruct H as [r1 H].
    destruct (ev c st) as [y s1] eqn:E1. apply IHc in E1.
    destruct y as [w| | |]; try (inversion H; subst; exact E1).
    destruct (truthy w).
    + apply IHt in H. exact (st_le_trans _ _ _ E1 H).
    + apply IHf in H. exact (st_le_trans _ _ _ E1 H).
  - rewrite eval_arr in H. apply fmt_res_inv_snd in H. destruct H as [r1 H].
    destruct (evl es st) as [y s1] eqn:E. apply (eval_list_frame es HF) in E.
    destruct y; inversion H; subst; exact E.
  - rewrite eval_paren in H. apply fmt_res_inv_snd in H. destruct H as [r1 H]. exact (IHx _ _ _ H).
  - rewrite eval_sel in H. apply fmt_res_inv_snd in H. destruct H as [r1 H].
    destruct (ev x st) as [y s1] eqn:E. apply IHx in E.
    destruct y as [w| | |]; try (inversion H; subst; exact E).
    destruct (is_null w && a); inversion H; subst; exact E.
  - rewrite eval_selmissing in H. apply fmt_res_inv_snd in H. destruct H as [r1 H]. exact (IHx _ _ _ H).
  - rewrite eval_call in H. apply fmt_res_inv_snd in H. destruct H as [r1 H].
    destruct (ev f st) as [y s1] eqn:E. apply IHf in E.
    destruct y as [w| | |]; try (inversion H; subst; exact E).
    destruct (negb (is_name_path f)); [inversion H; subst; exact E|].
    destruct (evl args s1) as [z s2] eqn:E2. apply (eval_list_frame args HF) in E2.
    destruct z; try (inversion H; subst; exact (st_le_trans _ _ _ E E2)).
    apply call_value_st_le in H.
    exact (st_le_trans _ _ _ E (st_le_trans _ _ _ E2 H)).
Qed.

Lemma frame : forall e st r st', ev e st = (r, st') ->
  forall k, starts_dollar k = false ->
  match r_this st' with Some m' => assoc k m' | None => None end =
  match r_this st with Some m => assoc k m | None => None end.
Proof. intros e st r st' H. exact (proj1 (eval_frame e st r st' H)). Qed.

Lemma trace_grows : forall e st r st', ev e st = (r, st') ->
  exists new_calls, r_trace st' = new_calls ++ r_trace st.
Proof. intros e st r st' H. exact (proj2 (eval_frame e st r st' H)). Qed.

Lemma domain_grows_only_by_dollar : forall e st r st' k x, ev e st = (r, st') ->
  match r_this st' with Some m' => assoc k m' | None => None end = Some x ->
  match r_this st with Some m => assoc k m | None => None end = None ->
  starts_dollar k = true.
Proof.
  intros e st r st' k x H Ha Hb. destruct (starts_dollar k) eqn:Ek; [reflexivity|].
  rewrite (frame e st r st' H k Ek), Hb in Ha. discriminate Ha.
Qed.

Lemma values_never_mutated : forall e st r st' k x, ev e st = (r, st') ->
  starts_dollar k = false ->
  match r_this st with Some m => assoc k m | None => None end = Some x ->
  match r_this st' with Some m' => assoc k m' | None => None end = Some x.
Proof. intros e st r st' k x H Ek Hb. rewrite (frame e st r st' H k Ek). exact Hb. Qed.

(* the public entry point inherits the frame property *)
Lemma resolve_entry_frame : forall e st r st', resolve_entry hosts off e st = (r, st') ->
  forall k, starts_dollar k = false ->
  match r_this st' with Some m' => assoc k m' | None => None end =
  match r_this st with Some m => assoc k m | None => None end.
Proof.
  intros e st r st' H. unfold resolve_entry in H.
  destruct (ev e st) as [x s1] eqn:E.
  assert (s1 = st') by (destruct x; inversion H; reflexivity). subst s1.
  exact (frame e st x st' E).
Qed.

End C07.

(* ---------------------------------------------------------------------------------------- *)
(* C16: names, member access, normalisation                                                  *)
(* ---------------------------------------------------------------------------------------- *)

(* a dotted path: a name or `this`, followed by plain `.k` selections *)
Fixpoint all_dot (p : sexpr) : bool :=
  match p with
  | SIdent _ _ => true
  | SLit KThis _ => true
  | SSel a _ _ false => all_dot a
  | _ => false
  end.

(* values built from maps, slices, null and scalars only: no time.Time, no other Go struct *)
Fixpoint maps_only (v : value) : bool :=
  match v with
  | VTime _ | VOpaque _ | VStruct _ _ => false
  | VArr l => forallb maps_only l
  | VMap m => forallb (fun kv => maps_only (snd kv)) m
  | _ => true
  end.

Definition state_maps_only (st : rstate) : bool :=
  match r_this st with Some m => maps_only (VMap m) | None => true end.

(* the kinds of value format_input leaves alone *)
Definition not_normalised (v : value) : bool :=
  match v with
  | VGoInt GInt _ | VGoInt GInt32 _ | VGoInt GInt64 _ | VGoFloat _ => false
  | _ => true
  end.

Lemma maps_only_format : forall v, maps_only v = true -> maps_only (format_input v) = true.
Proof. intros v H. destruct v as [| | | | | | | | |k n| | | | |]; try exact H; try reflexivity. destruct k; reflexivity. Qed.

Lemma maps_only_assoc : forall name m x,
  forallb (fun kv => maps_only (snd kv)) m = true -> assoc name m = Some x -> maps_only x = true.
Proof.
  intros name m x. induction m as [|[k' v'] m IH]; intros HF HA; cbn [assoc] in HA; [discriminate HA|].
  cbn [forallb snd] in HF. apply andb_true_iff in HF. destruct HF as [H1 H2].
  destruct (bytes_eqb name k').
  - inversion HA. subst. exact H1.
  - exact (IH H2 HA).
Qed.

Lemma lookup_ident_spec : forall name st,
  lookup_ident name st =
  if existsb (bytes_eqb name) builtin_names then VBuiltin name
  else match (match r_this st with Some m => assoc name m | None => None end) with
       | Some v => v
       | None => VNull
       end.
Proof.
  intros name st. unfold lookup_ident. destruct (existsb (bytes_eqb name) builtin_names); [reflexivity|].
  destruct (r_this st); reflexivity.
Qed.

Lemma missing_name_is_null : forall name st,
  existsb (bytes_eqb name) builtin_names = false ->
  match r_this st with Some m => assoc name m | None => None end = None ->
  lookup_ident name st = VNull.
Proof. intros name st Hb Hm. rewrite lookup_ident_spec, Hb, Hm. reflexivity. Qed.

Lemma normalise_numbers :
  (forall n, format_input (VGoInt GInt n) = VNum (dec_of_Z n)) /\
  (forall n, format_input (VGoInt GInt32 n) = VNum (dec_of_Z n)) /\
  (forall n, format_input (VGoInt GInt64 n) = VNum (dec_of_Z n)) /\
  (forall s, format_input (VGoFloat s) = VNum (dec_of_string s)).
Proof. repeat split. Qed.

Lemma others_unchanged : forall v, not_normalised v = true -> format_input v = v.
Proof.
  intros v H. destruct v as [| | | | | | | | |k n| | | | |]; try reflexivity; [|discriminate H].
  destruct k; try reflexivity; discriminate H.
Qed.

Lemma others_unchanged_list :
  (forall s, format_input (VStr s) = VStr s) /\ (forall b, format_input (VBool b) = VBool b) /\
  (forall t, format_input (VTime t) = VTime t) /\ (forall l, format_input (VArr l) = VArr l) /\
  (forall m, format_input (VMap m) = VMap m) /\ format_input VNull = VNull /\
  (forall d, format_input (VNum d) = VNum d) /\
  (forall k n, k <> GInt -> k <> GInt32 -> k <> GInt64 -> format_input (VGoInt k n) = VGoInt k n).
Proof.
  repeat split. intros k n H1 H2 H3. destruct k; try reflexivity; congruence.
Qed.

Section C16.
Variable hosts : list (Z * hostfn).
Variable off : Z.
Notation ev := (eval hosts off).

Lemma ident_lookup : forall k name st,
  ev (SIdent k name) st = (Ok (format_input (lookup_ident name st)), st).
Proof. reflexivity. Qed.

Lemma member_map : forall a k name asrt st m st1,
  ev a st = (Ok (VMap m), st1) ->
  ev (SSel a k name asrt) st =
  (Ok (format_input (match assoc name m with
                     | Some x => if is_null x then VNull else x
                     | None => VNull
                     end)), st1).
Proof. intros a k name asrt st m st1 H. rewrite eval_sel, H. reflexivity. Qed.

Lemma missing_key_is_null : forall a k name asrt st m st1,
  ev a st = (Ok (VMap m), st1) -> assoc name m = None ->
  ev (SSel a k name asrt) st = (Ok VNull, st1).
Proof. intros a k name asrt st m st1 H Hn. rewrite (member_map a k name asrt st m st1 H), Hn. reflexivity. Qed.

Lemma typed_nil_is_null : forall a k name asrt st m st1,
  ev a st = (Ok (VMap m), st1) -> assoc name m = Some VNilPtr ->
  ev (SSel a k name asrt) st = (Ok VNull, st1).
Proof. intros a k name asrt st m st1 H Hn. rewrite (member_map a k name asrt st m st1 H), Hn. reflexivity. Qed.

Lemma this_member : forall v k name st,
  ev (SSel (SLit KThis v) k name false) st =
  (Ok (format_input (match assoc name (match r_this st with Some m => m | None => [] end) with
                     | Some x => if is_null x then VNull else x
                     | None => VNull
                     end)), st).
Proof. intros v k name st. apply member_map. reflexivity. Qed.

Lemma member_on_null_is_null : forall a k name st v st1,
  ev a st = (Ok v, st1) -> is_null v = true ->
  ev (SSel a k name false) st = (Ok VNull, st1).
Proof.
  intros a k name st v st1 H Hn. rewrite eval_sel, H.
  destruct v; try discriminate Hn; reflexivity.
Qed.

(* holds for every receiver value, not only the modelled kinds *)
Lemma assert_errors_iff_null : forall a k name st v st1,
  ev a st = (Ok v, st1) ->
  (ev (SSel a k name true) st = (Err, st1) <-> is_null v = true).
Proof.
  intros a k name st v st1 H. rewrite eval_sel, H.
  destruct v as [| | | | | | | | | | | | | |id fs]; cbn; split; intros H0; try reflexivity; try discriminate H0.
  destruct (assoc name fs) as [x|]; discriminate H0.
Qed.

(* the struct story: a member of a time.Time panics (recovered into an error by Resolve) *)
Lemma member_on_time_panics : forall a k name asrt st t st1,
  ev a st = (Ok (VTime t), st1) ->
  ev (SSel a k name asrt) st = (Panic, st1) /\
  resolve_entry hosts off (SSel a k name asrt) st = (Err, st1).
Proof.
  intros a k name asrt st t st1 H.
  assert (E : ev (SSel a k name asrt) st = (Panic, st1)) by (rewrite eval_sel, H; reflexivity).
  split; [exact E|]. unfold resolve_entry. rewrite E. reflexivity.
Qed.

(* a Go struct value: the selector reads the field of that name (exported fields, promoted ones
   included, are the ones listed); a name that is not listed panics *)
Lemma member_struct : forall a k name asrt st id fs st1,
  ev a st = (Ok (VStruct id fs), st1) ->
  ev (SSel a k name asrt) st =
  match assoc name fs with
  | Some x => (Ok (format_input (if is_null x then VNull else x)), st1)
  | None => (Panic, st1)
  end.
Proof.
  intros a k name asrt st id fs st1 H. rewrite eval_sel, H. cbn [is_null andb].
  destruct (assoc name fs) as [x|]; reflexivity.
Qed.

Lemma select_struct_field : forall a k name asrt st id fs x st1,
  ev a st = (Ok (VStruct id fs), st1) -> assoc name fs = Some x ->
  ev (SSel a k name asrt) st = (Ok (format_input (if is_null x then VNull else x)), st1).
Proof.
  intros a k name asrt st id fs x st1 H Hx. rewrite (member_struct a k name asrt st id fs st1 H), Hx.
  reflexivity.
Qed.

(* when the field holds a value that needs no normalisation (anything but a Go int, int32, int64 or
   float64), the result is the field itself *)
Lemma select_struct_field_plain : forall a k name asrt st id fs x st1,
  ev a st = (Ok (VStruct id fs), st1) -> assoc name fs = Some x -> not_normalised x = true ->
  ev (SSel a k name asrt) st = (Ok (if is_null x then VNull else x), st1).
Proof.
  intros a k name asrt st id fs x st1 H Hx Hn.
  rewrite (select_struct_field a k name asrt st id fs x st1 H Hx).
  destruct (is_null x); [reflexivity|]. rewrite (others_unchanged x Hn). reflexivity.
Qed.

Lemma select_struct_nil_field : forall a k name asrt st id fs st1,
  ev a st = (Ok (VStruct id fs), st1) -> assoc name fs = Some VNilPtr ->
  ev (SSel a k name asrt) st = (Ok VNull, st1).
Proof.
  intros a k name asrt st id fs st1 H Hx.
  rewrite (select_struct_field a k name asrt st id fs VNilPtr st1 H Hx). reflexivity.
Qed.

Lemma select_struct_missing : forall a k name asrt st id fs st1,
  ev a st = (Ok (VStruct id fs), st1) -> assoc name fs = None ->
  ev (SSel a k name asrt) st = (Panic, st1) /\
  resolve_entry hosts off (SSel a k name asrt) st = (Err, st1).
Proof.
  intros a k name asrt st id fs st1 H Hn.
  assert (E : ev (SSel a k name asrt) st = (Panic, st1)).
  { rewrite (member_struct a k name asrt st id fs st1 H), Hn. reflexivity. }
  split; [exact E|]. unfold resolve_entry. rewrite E. reflexivity.
Qed.

(* so a selector on a struct panics exactly when the name is not one of its fields, and never
   fails in any other way *)
Lemma select_struct_panics_iff : forall a k name asrt st id fs st1,
  ev a st = (Ok (VStruct id fs), st1) ->
  (ev (SSel a k name asrt) st = (Panic, st1) <-> assoc name fs = None) /\
  ((exists v, ev (SSel a k name asrt) st = (Ok v, st1)) <-> (exists x, assoc name fs = Some x)).
Proof.
  intros a k name asrt st id fs st1 H. rewrite (member_struct a k name asrt st id fs st1 H).
  destruct (assoc name fs) as [x|]; split; split; intros H0; try reflexivity; try discriminate H0.
  - destruct H0 as [v H0]. exists x. reflexivity.
  - eexists. reflexivity.
  - destruct H0 as [v H0]. discriminate H0.
  - destruct H0 as [x H0]. discriminate H0.
Qed.

Lemma dotted_chain_strong : forall p, all_dot p = true ->
  forall st, state_maps_only st = true ->
  exists v, ev p st = (Ok v, st) /\ maps_only v = true.
Proof.
  induction p as [k name| |k lv| | | | | | |a IHa nk name asrt| |]; intros Hp st Hst;
    try discriminate Hp.
  - exists (format_input (lookup_ident name st)). split; [reflexivity|].
    apply maps_only_format. rewrite lookup_ident_spec.
    destruct (existsb (bytes_eqb name) builtin_names); [reflexivity|].
    unfold state_maps_only in Hst. destruct (r_this st) as [m|]; [|reflexivity].
    destruct (assoc name m) as [x|] eqn:E; [|reflexivity].
    cbn [maps_only] in Hst. exact (maps_only_assoc name m x Hst E).
  - destruct k; try discriminate Hp.
    exists (VMap (match r_this st with Some m => m | None => [] end)). split; [reflexivity|].
    unfold state_maps_only in Hst. destruct (r_this st) as [m|]; [exact Hst|reflexivity].
  - cbn [all_dot] in Hp. destruct asrt; [discriminate Hp|].
    destruct (IHa Hp st Hst) as [v [Ev Hv]].
    rewrite eval_sel, Ev, andb_false_r.
    destruct v as [| | | | | |m| | | | | | | |]; try discriminate Hv;
      try (exists VNull; split; reflexivity).
    cbn [maps_only] in Hv.
    destruct (assoc name m) as [x|] eqn:E; [|exists VNull; split; reflexivity].
    destruct (is_null x) eqn:En; [exists VNull; split; reflexivity|].
    exists (format_input x). split; [reflexivity|].
    apply maps_only_format. exact (maps_only_assoc name m x Hv E).
Qed.

Lemma dotted_chain_null_safe : forall p st,
  all_dot p = true -> state_maps_only st = true ->
  exists v, ev p st = (Ok v, st).
Proof.
  intros p st Hp Hst. destruct (dotted_chain_strong p Hp st Hst) as [v [E _]]. exists v. exact E.
Qed.

Lemma typed_nil_equals_null :
  binary_op KEqEq VNilPtr VNull = Ok (VBool true) /\
  binary_op KEqEq VNull VNilPtr = Ok (VBool true) /\
  binary_op KEqEqEq VNilPtr VNull = Ok (VBool true) /\
  binary_op KEqEqEq VNull VNilPtr = Ok (VBool true) /\
  binary_op KNe VNilPtr VNull = Ok (VBool false) /\
  binary_op KNeEq VNilPtr VNull = Ok (VBool false).
Proof. repeat split. Qed.

End C16.
