(* Tie between the model's table of builtins (Sem/Builtins.v: [builtin_names], [builtin_sig]) and the builtin table
   of the running library, read by reflection on every run (Gen/ImplBuiltins.v): the same names, and for every name
   the same signature - leading context, parameter types, variadic tail, number of results.  A builtin that is
   added, removed, renamed, or whose Go signature changes (an `int` that becomes `int64`, a new parameter, a
   variadic tail) makes this file stop compiling. *)
From Coq Require Import List ZArith Bool String.
From Formula Require Import Sem.Value Sem.Builtins Gen.ImplBuiltins.
Import ListNotations.
Local Open Scope Z_scope.

Fixpoint gotype_eqb (a b : gotype) : bool :=
  match a, b with
  | TIface, TIface | TString, TString | TBool, TBool | TDec, TDec | TTime, TTime | TOther, TOther => true
  | TInt k, TInt k' => gokind_eqb k k'
  | TFloat x, TFloat y => Bool.eqb x y
  | TSlice x, TSlice y => gotype_eqb x y
  | TMapStr x, TMapStr y => gotype_eqb x y
  | _, _ => false
  end.

Fixpoint gotypes_eqb (a b : list gotype) : bool :=
  match a, b with
  | [], [] => true
  | x :: a', y :: b' => gotype_eqb x y && gotypes_eqb a' b'
  | _, _ => false
  end.

Definition gosig_eqb (a b : gosig) : bool :=
  Bool.eqb (sig_ctx a) (sig_ctx b) && gotypes_eqb (sig_params a) (sig_params b) &&
  Bool.eqb (sig_variadic a) (sig_variadic b) && (sig_nres a =? sig_nres b).

Lemma gokind_eqb_eq' k k' : gokind_eqb k k' = true -> k = k'.
Proof. destruct k, k'; intros H; try reflexivity; discriminate H. Qed.

Lemma gotype_eqb_eq : forall a b, gotype_eqb a b = true -> a = b.
Proof.
  induction a as [| | |k|x| | |a IH|a IH|]; intros b H; destruct b; try discriminate H; try reflexivity.
  - cbn in H. apply gokind_eqb_eq' in H. subst. reflexivity.
  - cbn in H. apply eqb_prop in H. subst. reflexivity.
  - cbn in H. rewrite (IH _ H). reflexivity.
  - cbn in H. rewrite (IH _ H). reflexivity.
Qed.

Lemma gotypes_eqb_eq : forall a b, gotypes_eqb a b = true -> a = b.
Proof.
  induction a as [|x a IH]; intros [|y b] H; try discriminate H; [reflexivity|].
  cbn in H. apply andb_true_iff in H. destruct H as [H1 H2].
  rewrite (gotype_eqb_eq _ _ H1), (IH _ H2). reflexivity.
Qed.

Lemma gosig_eqb_eq a b : gosig_eqb a b = true -> a = b.
Proof.
  destruct a as [c1 p1 v1 n1], b as [c2 p2 v2 n2]. unfold gosig_eqb. cbn [sig_ctx sig_params sig_variadic sig_nres].
  rewrite !andb_true_iff. intros [[[H1 H2] H3] H4].
  apply eqb_prop in H1. apply gotypes_eqb_eq in H2. apply eqb_prop in H3. apply Z.eqb_eq in H4. subst. reflexivity.
Qed.

(* every function of the code's table has, in the model, exactly its signature *)
Definition sigs_ok : bool :=
  forallb (fun e => match builtin_sig (fst e) with Some s => gosig_eqb s (snd e) | None => false end) impl_builtin_sigs.
(* the model knows no builtin the code does not have, and no name twice *)
Definition names_ok : bool :=
  forallb (fun n => existsb (bytes_eqb n) (map fst impl_builtin_sigs)) builtin_names &&
  (length builtin_names =? length impl_builtin_sigs)%nat.
(* what else the table holds: the two boolean constants (keywords never reach them) *)
Definition values_ok : bool :=
  match impl_builtin_values with
  | [a; b] => bytes_eqb a (str "false"%string) && bytes_eqb b (str "true"%string)
  | _ => false
  end.

Lemma builtin_sigs_tie : sigs_ok = true.
Proof. vm_compute. reflexivity. Qed.
Lemma builtin_names_tie : names_ok = true.
Proof. vm_compute. reflexivity. Qed.
Lemma builtin_values_tie : values_ok = true.
Proof. vm_compute. reflexivity. Qed.

Theorem builtin_signature_is_the_code's : forall name sg,
  In (name, sg) impl_builtin_sigs -> builtin_sig name = Some sg.
Proof.
  intros name sg Hin. pose proof builtin_sigs_tie as H. unfold sigs_ok in H. rewrite forallb_forall in H.
  specialize (H _ Hin). cbn [fst snd] in H. destruct (builtin_sig name) as [s|]; [|discriminate H].
  rewrite (gosig_eqb_eq _ _ H). reflexivity.
Qed.

Theorem builtin_names_are_the_code's : forall n,
  In n builtin_names -> exists n' sg, In (n', sg) impl_builtin_sigs /\ bytes_eqb n n' = true.
Proof.
  intros n Hin. pose proof builtin_names_tie as H. unfold names_ok in H. apply andb_true_iff in H. destruct H as [H _].
  rewrite forallb_forall in H. specialize (H _ Hin). apply existsb_exists in H. destruct H as [n' [Hn' Heq]].
  apply in_map_iff in Hn'. destruct Hn' as [[n'' sg] [E Hin']]. cbn [fst] in E. subst n''. exists n', sg. auto.
Qed.
