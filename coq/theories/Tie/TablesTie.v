(* Tie between the hand-written model and the tables REGENERATED from /repo's working tree on
   every run (Gen/ImplTables.v, produced by executing the implementation over the whole finite
   domain of each function).  Every lemma here is a closed computation; if the code's tables
   change, this file stops compiling and every property that depends on the table is reported. *)
From Formula Require Import Lex.Scanner Lex.ScanSpec Lex.CaseTables Lex.CaseMap Syn.Parser Gen.ImplTables Proofs.CharsFacts.

Local Open Scope Z_scope.

(* ---------- per-kind tables of the parser and of types.go ---------- *)

Definition model_kind_row (k : kind) :=
  (kind_code k, prec_of k,
   (is_start_of_expression k, is_list_element PArgs k, is_list_element PArray k,
    is_list_terminator PArgs k, is_list_terminator PArray k),
   (is_assignment_op k, is_keyword k, is_identifier_kind k)).

Definition b5_eqb (a b : bool * bool * bool * bool * bool) : bool :=
  let '(a1, a2, a3, a4, a5) := a in let '(b1, b2, b3, b4, b5) := b in
  Bool.eqb a1 b1 && Bool.eqb a2 b2 && Bool.eqb a3 b3 && Bool.eqb a4 b4 && Bool.eqb a5 b5.
Definition b3_eqb (a b : bool * bool * bool) : bool :=
  let '(a1, a2, a3) := a in let '(b1, b2, b3) := b in
  Bool.eqb a1 b1 && Bool.eqb a2 b2 && Bool.eqb a3 b3.

Definition row_eqb (a b : Z * Z * (bool * bool * bool * bool * bool) * (bool * bool * bool)) : bool :=
  let '(c1, p1, x1, y1) := a in let '(c2, p2, x2, y2) := b in
  (c1 =? c2) && (p1 =? p2) && b5_eqb x1 x2 && b3_eqb y1 y2.

Definition kind_table_ok : bool :=
  forallb (fun k => existsb (row_eqb (model_kind_row k)) impl_kind_table) all_kinds.

(* the binary precedence ladder, the list-element gates, the terminators, the assignment /
   keyword / identifier classes of every token kind the scanner can produce *)
Lemma kind_table_tie : kind_table_ok = true.
Proof. vm_compute. reflexivity. Qed.

(* every kind code the implementation gives a positive precedence is a kind of the model
   (no binary operator exists in the code that the model does not know) *)
Lemma no_unknown_operator :
  forallb (fun row => let '(c, p, _, _) := row in
             (p <=? 0) || existsb (fun k => kind_code k =? c) all_kinds) impl_kind_table = true.
Proof. vm_compute. reflexivity. Qed.

(* ---------- keywords ---------- *)

Definition kw_eqb (a : list Z * kind) (b : list Z * Z) : bool :=
  bytes_eqb (fst a) (fst b) && (kind_code (snd a) =? snd b).

Lemma keyword_table_tie :
  (length keyword_table =? length impl_keywords)%nat &&
  forallb (fun a => existsb (kw_eqb a) impl_keywords) keyword_table = true.
Proof. vm_compute. reflexivity. Qed.

(* ---------- character classes: all 1,114,112 code points, as maximal ranges ---------- *)

Lemma white_space_tie :
  impl_white_space = [(9,9);(11,12);(32,32);(160,160);(5760,5760);(8192,8203);(8239,8239);(8287,8287);(12288,12288);(65279,65279)].
Proof. reflexivity. Qed.

Lemma line_break_tie : impl_line_break = [(10,10);(13,13);(133,133);(8232,8233)].
Proof. reflexivity. Qed.

Lemma digit_tie : impl_digit = [(48,57)].
Proof. reflexivity. Qed.

Lemma ident_start_tie :
  impl_ident_start = [(36,36);(65,90);(95,95);(97,122)] ++ canon_ranges es5_id_start.
Proof. vm_compute. reflexivity. Qed.

Lemma ident_part_tie :
  impl_ident_part = [(36,36);(48,57);(65,90);(95,95);(97,122)] ++ canon_ranges es5_id_part.
Proof. vm_compute. reflexivity. Qed.

Lemma in_pairs_app : forall a b r, in_pairs (a ++ b) r = in_pairs a r || in_pairs b r.
Proof.
  induction a as [|[lo hi] a IH]; intros b r; cbn [app in_pairs]; [reflexivity|].
  rewrite IH. rewrite orb_assoc. reflexivity.
Qed.

Lemma in_pairs_above : forall ps r, forallb (fun p => 127 <? fst p) ps = true ->
  (127 <? r) && in_pairs ps r = in_pairs ps r.
Proof.
  induction ps as [|[lo hi] ps IH]; intros r H; cbn [in_pairs]; [apply andb_false_r|].
  cbn [forallb fst] in H. apply andb_true_iff in H. destruct H as [H1 H2].
  destruct (127 <? r) eqn:E; [reflexivity|].
  cbn [andb]. symmetry. apply orb_false_iff. split.
  - apply Z.ltb_lt in H1. apply Z.ltb_ge in E.
    destruct (lo <=? r) eqn:E2; [apply Z.leb_le in E2; lia|reflexivity].
  - rewrite <- (IH r H2). rewrite E. reflexivity.
Qed.

(* the implementation's identifier classes, over every code point, are the model's *)
Theorem ident_start_all_code_points : forall r, is_ident_start r = in_pairs impl_ident_start r.
Proof.
  intros r. rewrite ident_start_canon, ident_start_tie, in_pairs_app.
  rewrite (in_pairs_above (canon_ranges es5_id_start) r) by (vm_compute; reflexivity).
  unfold is_ascii_letter. cbn [in_pairs].
  destruct (65 <=? r) eqn:A; destruct (r <=? 90) eqn:B; destruct (97 <=? r) eqn:C;
  destruct (r <=? 122) eqn:D; destruct (r =? 36) eqn:E; destruct (r =? 95) eqn:F;
  destruct (36 <=? r) eqn:G; destruct (r <=? 36) eqn:H; destruct (95 <=? r) eqn:I;
  destruct (r <=? 95) eqn:J; cbn [andb orb]; try reflexivity;
  repeat match goal with
  | X : (_ =? _) = true |- _ => apply Z.eqb_eq in X
  | X : (_ =? _) = false |- _ => apply Z.eqb_neq in X
  | X : (_ <=? _) = true |- _ => apply Z.leb_le in X
  | X : (_ <=? _) = false |- _ => apply Z.leb_gt in X
  end; try lia; destruct (in_pairs (canon_ranges es5_id_start) r); reflexivity.
Qed.

Theorem white_space_all_code_points : forall r, is_white_space r = in_pairs impl_white_space r.
Proof. intros r. rewrite white_space_tie. apply whitespace_set. Qed.

Theorem line_break_all_code_points : forall r, is_line_break r = in_pairs impl_line_break r.
Proof. intros r. rewrite line_break_tie. apply linebreak_set. Qed.

(* ---------- operator dispatch: every string of 1..3 punctuation characters ---------- *)

Definition first_token (text : list Z) : Z * Z :=
  let '(tok, _) := scan_one (decode_all text) 0 in (kind_code (tk tok), tend tok - tpos tok).

Definition dispatch_ok : bool :=
  forallb (fun row => let '(text, k, len) := row in
             let '(k', len') := first_token text in (k =? k') && (len =? len')) impl_op_dispatch.

Lemma operator_dispatch_tie : dispatch_ok = true.
Proof. vm_compute. reflexivity. Qed.

(* ---------- escapes: '\c' for every code point c ---------- *)

Definition escape_value (c : Z) : list Z :=
  let '(tok, _) := scan_one (decode_all ([39; 92] ++ encode_rune c ++ [90; 39])) 0 in tval tok.

Lemma escape_table_tie :
  forallb (fun row => bytes_eqb (escape_value (fst row)) (snd row)) impl_escapes = true /\
  map fst impl_escapes = [10; 13; 48; 98; 102; 110; 114; 116; 118; 8232; 8233] /\
  impl_escapes_identity_count = 1114112 - 2048 - 2 - Z.of_nat (length impl_escapes).
Proof. vm_compute. repeat split; reflexivity. Qed.

(* ---------- diagnostic codes ---------- *)

Lemma diag_codes_tie :
  impl_diag_codes =
  [C_Invalid_character; C_Digit_expected; C_0_expected; C_Identifier_expected;
   C_Hexadecimal_digit_expected; C_Expression_expected; C_Argument_expression_expected;
   C_Expression_or_comma_expected; C_Unexpected_end_of_text; C_Unterminated_string_literal;
   C_Multiple_separators; C_Separators_not_allowed; C_Identifier_after_number; C_Trailing_comma].
Proof. reflexivity. Qed.

(* ---------- case mapping: the builtins upper / lower applied to every one-character string ---------- *)

(* the tables regenerated from the running builtins equal the pinned Unicode tables of the model, and every
   code point maps to exactly one character *)
Lemma case_tables_tie :
  impl_upper_ranges = CaseTables.upper_ranges /\ impl_lower_ranges = CaseTables.lower_ranges /\ impl_case_odd = [].
Proof. vm_compute. repeat split; reflexivity. Qed.

Theorem upper_all_code_points : forall r, CaseMap.to_upper_rune r = r + CaseMap.case_delta impl_upper_ranges r.
Proof. intros r. unfold CaseMap.to_upper_rune. rewrite (proj1 case_tables_tie). reflexivity. Qed.

Theorem lower_all_code_points : forall r, CaseMap.to_lower_rune r = r + CaseMap.case_delta impl_lower_ranges r.
Proof. intros r. unfold CaseMap.to_lower_rune. rewrite (proj1 (proj2 case_tables_tie)). reflexivity. Qed.
