(* Model of runner.go: the tree-walking evaluator, the host-call bridge (argument checks and
   conversions) and the builtins' semantics.  The evaluator is a structural Fixpoint on the
   tree, so it terminates on every tree and every data map by construction.
   Outcomes: Ok v | Err (returned error) | Panic (a Go run-time panic inside the evaluator; the
   public entry point Resolve recovers it into an error).  Definitions only. *)
From Coq Require Import String Ascii.
From Formula Require Export Sem.Builtins Syn.Ast.
From Formula Require Import Lex.CaseMap Num.Sqrt Sem.TimeFormat.

(* a host function of the data map: signature, the value it returns, whether it returns an error *)
Record hostfn := mkHost { h_sig : gosig; h_result : value; h_fail : bool }.

(* runner state visible to formulas: the data map (None = never set) and the log of host calls
   (function id, converted arguments), most recent first *)
Record rstate := mkR { r_this : option (list (list Z * value)); r_trace : list (Z * list value) }.

Definition obind {A B} (a : outcome A) (f : A -> outcome B) : outcome B :=
  match a with Ok v => f v | Err => Err | Panic => Panic | Unk => Unk end.

(* ---------- conversions ---------- *)

Definition bool_str (b : bool) : list Z := if b then str "true" else str "false".

Fixpoint bytes_ltb (a b : list Z) : bool :=
  match a, b with
  | _, [] => false
  | [], _ :: _ => true
  | x :: a', y :: b' => (x <? y) || ((x =? y) && bytes_ltb a' b')
  end.

(* fmt's %v of a value inside an array or a map: elements between brackets separated by one space, the entries of
   a map as key:value in the byte order of the keys (fmt sorts them), strings raw, numbers as at the top level, nil
   and typed nil pointers as <nil>; None = a rendering that is not modelled (NaN payload digits, Go floats - whose
   %v spelling depends on their width -, times, structs, functions, other Go values) *)
Fixpoint insert_ent (e : list Z * list Z) (l : list (list Z * list Z)) : list (list Z * list Z) :=
  match l with
  | [] => [e]
  | x :: t => if bytes_ltb (fst x) (fst e) then x :: insert_ent e t else e :: l
  end.
Definition sort_ents (l : list (list Z * list Z)) : list (list Z * list Z) := fold_right insert_ent [] l.

Fixpoint show_value (v : value) : option (list Z) :=
  match v with
  | VStr s => Some s
  | VNum d => if is_nan d then None else Some (dec_to_string d)
  | VBool b => Some (bool_str b)
  | VNull | VNilPtr => Some (str "<nil>")
  | VGoInt _ n => Some (dec_to_string (dec_of_Z n))
  | VArr l =>
    match (fix go (l : list value) : option (list (list Z)) :=
             match l with
             | [] => Some []
             | x :: r => match show_value x, go r with Some a, Some b => Some (a :: b) | _, _ => None end
             end) l with
    | Some parts => Some (91 :: join_strs parts [32] ++ [93])
    | None => None
    end
  | VMap m =>
    match (fix go (m : list (list Z * value)) : option (list (list Z * list Z)) :=
             match m with
             | [] => Some []
             | (k, x) :: r => match show_value x, go r with Some a, Some b => Some ((k, a) :: b) | _, _ => None end
             end) m with
    | Some ents => Some (str "map[" ++ join_strs (map (fun e => fst e ++ 58 :: snd e) (sort_ents ents)) [32] ++ [93])
    | None => None
    end
  | _ => None
  end.

(* convToString; None = a Go value whose %v rendering is not modelled *)
Definition conv_to_string (v : value) : option (list Z) :=
  match v with
  | VStr s => Some s
  | VNum d => if is_nan d then None else Some (dec_to_string d)   (* NaN payload digits are not modelled *)
  | VBool b => Some (bool_str b)
  | VNull | VNilPtr => Some (str "<nil>")
  | VGoInt _ n => Some (dec_to_string (dec_of_Z n))
  | VArr _ | VMap _ => show_value v
  | _ => None
  end.

(* strconv.Atoi: optional sign, digits, int64 range *)
Definition atoi (s : list Z) : option Z :=
  let '(neg, t) := match s with 43 :: t => (false, t) | 45 :: t => (true, t) | _ => (false, s) end in
  match t with
  | [] => None
  | _ => match scan_digits t 0 with
         | Some n => let v := if neg then - n else n in
                     if (-9223372036854775808 <=? v) && (v <=? 9223372036854775807) then Some v else None
         | None => None
         end
  end.

Definition is_basic_number (t : gotype) : bool :=
  match t with
  | TInt GInt | TInt GInt8 | TInt GInt16 | TInt GInt32 | TInt GInt64 | TFloat _ => true
  | _ => false
  end.

(* truncation toward zero of a finite number; 0 otherwise (Go's conversion of NaN/Inf is not modelled) *)
Definition trunc_dec (d : dec) : Z :=
  match d with
  | Fin n c e => scoef n (if 0 <=? e then c * pow10 e else c / pow10 (- e))
  | _ => 0
  end.

(* funToInt: the number truncated toward zero (0 for NaN and the infinities); within int64 the result is built
   from the integer, beyond it the decimal itself is truncated *)
Definition to_int_dec (d : dec) : dec :=
  match to_i64_opt d with
  | Some a => dec_of_Z a
  | None =>
    match d with
    | Fin n c e => if 0 <=? e then Fin n c e else Fin n (c / pow10 (- e)) 0
    | _ => dec_zero
    end
  end.

(* the default branch of convTypeToTarget: reflect convertibility of the dynamic type *)
Definition reflect_convert (v : value) (t : gotype) : option value :=
  match v, t with
  | VStr _, TString => Some v
  | VBool _, TBool => Some v
  | VNum _, TDec => Some v
  | VGoInt _ n, TInt k => Some (VGoInt k (wrap_int k n))
  | VGoInt _ n, TFloat _ => Some (VGoFloat (dec_to_string (dec_of_Z n)))
  | VGoFloat s, TFloat _ => Some v
  | VGoFloat s, TInt k => Some (VGoInt k (wrap_int k (trunc_dec (dec_of_string s))))
  | _, _ => None
  end.

(* convTypeToTarget *)
Fixpoint conv_to (t : gotype) (v : value) : outcome value :=
  match t with
  | TIface => Ok v
  | TSlice et =>
    match v with
    | VArr l =>
      match (fix go (l : list value) : outcome (list value) :=
         match l with
         | [] => Ok []
         | x :: r =>
           match conv_to et x with
           | Ok x' => match go r with Ok r' => Ok (x' :: r') | Err => Err | Panic => Panic | Unk => Unk end
           | Err => Err
           | Panic => Panic
           | Unk => Unk
           end
         end) l with Ok l' => Ok (VArr l') | Err => Err | Panic => Panic | Unk => Unk end
    | VNull => Panic                        (* Type() of the zero reflect.Value *)
    | _ => Err
    end
  | TTime => match v with VTime _ => Ok v | _ => Err end
  | TMapStr et =>
    match v with
    | VMap m =>
      match (fix go (m : list (list Z * value)) : outcome (list (list Z * value)) :=
         match m with
         | [] => Ok []
         | (k, x) :: r =>
           match conv_to et x with
           | Ok x' => match go r with
                      | Ok r' => Ok ((k, x') :: r')
                      | Err => Err | Panic => Panic | Unk => Unk end
           | Err => Err
           | Panic => Panic
           | Unk => Unk
           end
         end) m with Ok m' => Ok (VMap m') | Err => Err | Panic => Panic | Unk => Unk end
    | _ => Panic                            (* Key() of a nil or non-map type *)
    end
  | TOther => Err
  | _ =>
    match (match v with VNull => None | _ => reflect_convert v t end) with
    | Some v' => Ok v'
    | None =>
      if is_basic_number t then
        match v, t with
        | VNum d, TInt k =>
          (* out-of-range float-to-int conversion is implementation-defined in Go *)
          if is_finite d && (wrap_int k (trunc_dec d) =? trunc_dec d) then Ok (VGoInt k (trunc_dec d)) else Err
        | VNum d, TFloat _ => Ok (VGoFloat (dec_to_string d))
        | _, _ => Err
        end
      else
        match t with
        | TString =>
          if is_null v then Ok (VStr [])
          else match conv_to_string v with Some s => Ok (VStr s) | None => Unk end
        | _ => Err
        end
    end
  end.

(* ---------- builtins on converted arguments ---------- *)

Definition name_is (name : list Z) (n : string) : bool := bytes_eqb name (str n).

Definition as_strs (v : value) : option (list (list Z)) :=
  match v with
  | VArr l => fold_right (fun x acc => match x, acc with VStr s, Some r => Some (s :: r) | _, _ => None end) (Some []) l
  | _ => None
  end.

Definition zones : list (list Z * Z) :=
  [(str "UTC", 0); (str "Etc/GMT-8", 28800); (str "Etc/GMT+5", -18000); (str "Etc/GMT-14", 50400)].

Fixpoint zone_lookup (n : list Z) (z : list (list Z * Z)) : option Z :=
  match z with [] => None | (k, o) :: t => if bytes_eqb n k then Some o else zone_lookup n t end.

Definition gi (n : Z) : value := VGoInt GInt n.

(* the interface{} builtins on a value that has no more specific case *)
Definition iface_builtin (name : list Z) (v : value) : outcome value :=
  if name_is name "finite" then Ok (VNum dec_zero)
  else if name_is name "toString" then (match conv_to_string v with Some s => Ok (VStr s) | None => Unk end)
  else if name_is name "toInt" then Ok (VNum (to_int_dec (conv_to_number v)))
  else if name_is name "toFloat" then Ok (VNum (conv_to_number v))
  else Err.

Definition builtin_apply (local_off : Z) (name : list Z) (args : list value) : outcome value :=
  match args with
  | [] => Unk                                           (* now, toDay: the clock is not modelled *)
  | [VGoInt _ y; VGoInt _ m; VGoInt _ d] =>
    if name_is name "date" then Ok (VTime (go_date y m d 0 0 0 0 local_off)) else Err
  | [VTime t; VGoInt _ y; VGoInt _ m; VGoInt _ d] =>
    if name_is name "addDate" then Ok (VTime (t_add_date t y m d)) else Err
  | [VTime t] =>
    if name_is name "year" then Ok (gi (t_year t)) else if name_is name "month" then Ok (gi (t_month t))
    else if name_is name "day" then Ok (gi (t_day t)) else if name_is name "hour" then Ok (gi (t_hour t))
    else if name_is name "minute" then Ok (gi (t_minute t)) else if name_is name "second" then Ok (gi (t_second t))
    else if name_is name "weekDay" then Ok (gi (t_weekday t))
    else if name_is name "millSecond" then Ok (VGoInt GInt64 (t_millis t))
    else iface_builtin name (VTime t)
  | [VTime t; VStr s] =>
    if name_is name "useTimezone" then
      match zone_lookup s zones with Some o => Ok (VTime (mkTime (t_ns t) o)) | None => Err end
    else if name_is name "timeFormat" then
      match time_format t s with Some r => Ok (VStr r) | None => Unk end   (* None: the zone abbreviation (MST) *)
    else Unk
  | [VNum d] =>
    if name_is name "abs" then Ok (VNum (dec_abs d))
    else if name_is name "ceil" then Ok (VNum (dec_ceil d))
    else if name_is name "floor" then Ok (VNum (match d with NaN => NaN | _ => dec_floor d end))
    else if name_is name "round" then Ok (VNum (round_to_int 2 d))
    else if name_is name "roundBank" then Ok (VNum (round_to_int 1 d))
    else if name_is name "finite" then Ok (VNum (if is_finite d then d else dec_zero))
    else if name_is name "toString" then (if is_nan d then Unk else Ok (VStr (dec_to_string d)))   (* the digits after "NaN" (the library prints a diagnostic payload) are not modelled *)
    else if name_is name "toInt" then Ok (VNum (to_int_dec d))
    else if name_is name "toFloat" then Ok (VNum d)
    else if name_is name "max" || name_is name "min" then Ok (VNum d)
    else if name_is name "sqrt" then Ok (VNum (dec_sqrt16 d))   (* the correctly rounded root; the library is within one unit of the 16th digit of it *)
    else Unk                                             (* exp ln log: not modelled *)
  | [VNum v; VNum _] =>
    (* roundCash(v, places) as the code has it: places is ignored; the remainder of v by 1 is compared with
       decimal.New(5, -2), which is 500 (the second argument of New is a scale, the negated exponent), so the
       result is ceil(v) for every v; not mentioned by any property *)
    if name_is name "roundCash" then
      if dec_cmp (dec_rem v dec_one) (Fin false 5 2) <=? 0 then Ok (VNum (dec_ceil v))
      else Ok (VNum (match v with NaN => NaN | _ => dec_floor v end))
    else Err
  | [VStr s; VStr t] =>
    if name_is name "startWith" then Ok (VBool (str_index s t =? 0))
    else if name_is name "endWith" then Ok (VBool (is_suffix t s))
    else if name_is name "contains" then Ok (VBool (0 <=? str_index s t))
    else if name_is name "find" then Ok (gi (str_index s t))
    else if name_is name "regexp" then Unk
    else Err
  | [VStr s; VGoInt _ n] =>
    let l := if slen s <? n then slen s else n in
    if name_is name "left" then obind (slice s 0 l) (fun r => Ok (VStr r))
    else if name_is name "right" then obind (slice s (slen s - l) (slen s)) (fun r => Ok (VStr r))
    else Err
  | [VStr s] =>
    if name_is name "len" then Ok (gi (slen s))
    else if name_is name "lower" then Ok (VStr (if all_ascii s then to_lower_ascii s else lower_utf8 s))
    else if name_is name "upper" then Ok (VStr (if all_ascii s then to_upper_ascii s else upper_utf8 s))
    else if name_is name "trim" then Ok (VStr (if all_ascii s then trim_space s else trim_utf8 s))
    else if name_is name "finite" then Ok (VNum dec_zero)
    else if name_is name "toString" then Ok (VStr s)
    else if name_is name "toInt" then Ok (VNum (to_int_dec (num_of_text s)))
    else if name_is name "toFloat" then Ok (VNum (num_of_text s))
    else Err
  | [VStr s; VStr ps; VGoInt _ l] =>
    if name_is name "lpad" then
      if l <? slen s then obind (slice s 0 l) (fun r => Ok (VStr r))
      else Ok (VStr (str_repeat (Z.to_nat (l - slen s)) ps ++ s))
    else if name_is name "rpad" then
      if l <? slen s then obind (slice s 0 l) (fun r => Ok (VStr r))
      else Ok (VStr (s ++ str_repeat (Z.to_nat (l - slen s)) ps))
    else Err
  | [VStr s; VGoInt _ a; VGoInt _ b] =>
    if name_is name "mid" then
      obind (slice s (if a <? 0 then 0 else a) (if slen s <? b then slen s else b)) (fun r => Ok (VStr r))
    else Err
  | [VStr s; VStr old; VStr new] =>
    if name_is name "replace" then
      match str_replace s old new with Some r => Ok (VStr r) | None => Unk end
    else Err
  | [VArr l; VStr x] =>
    match as_strs (VArr l) with
    | Some ss =>
      if name_is name "includes" then Ok (VBool (existsb (fun y => bytes_eqb y x) ss))
      else if name_is name "join" then Ok (VStr (join_strs ss x))
      else if name_is name "mapToArr" then (match l with [] => Ok (VArr []) | _ => Err end)   (* no rows: no values *)
      else Err
    | None =>
      if name_is name "mapToArr" then
        Ok (VArr (map (fun m => match m with
                                | VMap kv => match assoc x kv with Some v => v | None => VNull end
                                | _ => VNull end) l))
      else Err
    end
  | [v] => iface_builtin name v
  | _ => Err
  end.

(* max / min receive their variadic tail as individual numbers *)
Definition nums_of (args : list value) : option (list dec) :=
  fold_right (fun x acc => match x, acc with VNum d, Some r => Some (d :: r) | _, _ => None end) (Some []) args.

Fixpoint dec_min (l : list dec) (cur : dec) : dec :=
  match l with
  | [] => cur
  | v :: t => if dec_cmp v cur <? 0 then dec_min t v else dec_min t cur
  end.

Definition is_opaque (v : value) : bool := match v with VOpaque _ | VStruct _ _ => true | _ => false end.

Definition builtin_call (local_off : Z) (name : list Z) (args : list value) : outcome value :=
  if existsb is_opaque args then Unk
  else if bytes_eqb name (str "max") then
    match nums_of args with
    | Some (d :: r) => Ok (VNum (dec_max r d))
    | Some [] => Err
    | None => Err
    end
  else if bytes_eqb name (str "min") then
    match nums_of args with
    | Some (d :: r) => Ok (VNum (dec_min r d))
    | Some [] => Err
    | None => Err
    end
  else builtin_apply local_off name args.

(* ---------- the evaluator ---------- *)

Section Eval.
Variable hosts : list (Z * hostfn).
Variable local_off : Z.

Fixpoint host_lookup (id : Z) (l : list (Z * hostfn)) : option hostfn :=
  match l with [] => None | (i, h) :: t => if i =? id then Some h else host_lookup id t end.

Definition lookup_ident (name : list Z) (st : rstate) : value :=
  if existsb (bytes_eqb name) builtin_names then VBuiltin name
  else match r_this st with
       | Some m => match assoc name m with Some v => v | None => VNull end
       | None => VNull
       end.

Definition set_this_value (k : list Z) (v : value) (st : rstate) : rstate :=
  mkR (Some (assoc_set k v (match r_this st with Some m => m | None => [] end))) (r_trace st).

(* Go's == on two interface values (used by the default branches of == and ===) *)
Definition iface_eq (a b : value) : outcome bool :=
  match a, b with
  | VArr _, VArr _ | VMap _, VMap _ => Panic                 (* same uncomparable dynamic type *)
  (* two function values: a run-time panic when their Go types are identical, false otherwise;
     the model knows the types are identical only when it is the same function *)
  | VFunc a, VFunc b => if a =? b then Panic else Unk
  | VBuiltin a, VBuiltin b => if bytes_eqb a b then Panic else Unk
  | VFunc _, VBuiltin _ | VBuiltin _, VFunc _ => Unk
  | VTime _, VTime _ | VOpaque _, VOpaque _ | VStruct _ _, VStruct _ _ => Unk  (* struct equality: not modelled *)
  | VNull, VNull => Ok true
  | VBool x, VBool y => Ok (Bool.eqb x y)
  | VStr x, VStr y => Ok (bytes_eqb x y)
  | VGoInt k x, VGoInt k' y => Ok ((x =? y) && gokind_eqb k k')
  | VNum _, VNum _ => Ok false        (* distinct pointers (identity is decided before this is reached) *)
  | VCtx, VCtx => Ok true
  | _, _ => Ok false
  end.

(* relational operators: string comparison when the LEFT operand is a string *)
Definition rel_op (op : kind) (v1 v2 : value) : outcome value :=
  match v1 with
  | VStr s1 =>
    match conv_to_string v2 with
    | Some s2 =>
      Ok (VBool (match op with
                 | KLt => bytes_ltb s1 s2
                 | KGt => bytes_ltb s2 s1
                 | KLe => negb (bytes_ltb s2 s1)
                 | _ => negb (bytes_ltb s1 s2)
                 end))
    | None => Unk
    end
  | _ =>
    let c := dec_cmp (conv_to_number v1) (conv_to_number v2) in
    Ok (VBool (match op with
               | KLt => c =? -1
               | KGt => c =? 1
               | KLe => c <=? 0
               | _ => 0 <=? c
               end))
  end.

(* valueLikeEqualTo *)
Definition loose_eq (v1 v2 : value) : outcome bool :=
  match v1 with
  | VNum _ | VBool _ => Ok (dec_cmp (conv_to_number v1) (conv_to_number v2) =? 0)
  | VStr s1 => match conv_to_string v2 with Some s2 => Ok (bytes_eqb s1 s2) | None => Unk end
  | _ => if is_null v1 && is_null v2 then Ok true else iface_eq v1 v2
  end.

(* valueEqualTo *)
Definition strict_eq (v1 v2 : value) : outcome bool :=
  if is_null v1 && is_null v2 then Ok true
  else
    match v1, v2 with
    | VNum a, VNum b => Ok (dec_cmp a b =? 0)
    | _, _ =>
      match iface_eq v1 v2 with
      | Ok true => Ok true
      | Ok false => Ok false        (* same-kind comparisons of bool and string coincide with == *)
      | Err => Err
      | Panic => Panic
      | Unk => Unk
      end
    end.

Definition arith (op : kind) (v1 v2 : value) : outcome value :=
  let n1 := conv_to_number v1 in
  let n2 := conv_to_number v2 in
  match op with
  | KPlus | KMinus =>
    match v1 with
    | VStr s1 => match conv_to_string v2 with Some s2 => Ok (VStr (s1 ++ s2)) | None => Unk end
    | _ => Ok (VNum (if kind_eqb op KPlus then dec_add n1 n2 else dec_sub n1 n2))
    end
  | KAsterisk => Ok (VNum (dec_mul n1 n2))
  | KSlash => Ok (VNum (dec_quo n1 n2))
  | KPercent => Ok (VNum (dec_rem n1 n2))
  | KAmp | KBar | KCaret =>
    (* Int64() of a non-finite or out-of-range operand is unspecified in the library: not modelled *)
    match to_i64_opt n1, to_i64_opt n2 with
    | Some a, Some b =>
      Ok (VNum (dec_of_Z (wrap64 (if kind_eqb op KAmp then Z.land a b
                                  else if kind_eqb op KBar then Z.lor a b else Z.lxor a b))))
    | _, _ => Unk
    end
  | _ => Ok VNull
  end.

Definition binary_op (op : kind) (v1 v2 : value) : outcome value :=
  match op with
  | KLt | KGt | KLe | KGe => rel_op op v1 v2
  | KPlus | KMinus | KAsterisk | KSlash | KPercent | KAmp | KBar | KCaret => arith op v1 v2
  | KEqEq => obind (loose_eq v1 v2) (fun b => Ok (VBool b))
  | KNe => obind (loose_eq v1 v2) (fun b => Ok (VBool (negb b)))
  | KEqEqEq => obind (strict_eq v1 v2) (fun b => Ok (VBool b))
  | KNeEq => obind (strict_eq v1 v2) (fun b => Ok (VBool (negb b)))
  | KAmpAmp => Ok (if truthy v1 then v2 else v1)
  | KBarBar => Ok (if truthy v1 then v1 else v2)
  | KQQ => Ok (if is_null v1 then v2 else v1)
  | KComma => Ok v2
  | _ => Ok VNull
  end.

Definition unary_op (op : kind) (v : value) : outcome value :=
  match op with
  | KPlus =>
    match v with
    | VNum _ => Ok v
    | VStr s => match atoi s with Some n => Ok (gi n) | None => Ok (VNum NaN) end
    | VMap _ => Ok (VNum NaN)
    | _ => Err
    end
  | KMinus =>
    match v with
    | VNum d => Ok (VNum (dec_neg d))
    | VStr s => match atoi s with Some n => Ok (gi (wrap64 (- n))) | None => Ok (VNum NaN) end
    | VMap _ => Ok (VNum NaN)
    | _ => Err
    end
  | KBang =>
    match v with
    | VBool b => Ok (VBool (negb b))
    | VNum _ => Ok (VBool (negb (truthy v)))
    | VNull => Ok (VBool true)
    | _ => Err
    end
  | KBangBang => Ok (VBool (truthy v))
  | KTilde =>
    match v with
    | VNum d => match to_i64_opt d with
                | Some a => Ok (VNum (dec_of_Z (wrap64 (- a - 1))))
                | None => Unk
                end
    | _ => Err
    end
  | _ => Err
  end.

(* resolveCallNames / resolveSelecotrNames: the callee must be a name or a dotted path *)
Fixpoint is_name_path (e : sexpr) : bool :=
  match e with
  | SIdent _ _ | SMissing => true
  | SSel a _ _ _ | SSelMissing a _ => is_name_path a
  | _ => false
  end.

Definition starts_dollar (n : list Z) : bool := match n with 36 :: _ => true | _ => false end.

(* convert the evaluated arguments for a signature; the arity rules of resolveCallExpression *)
Fixpoint conv_args (params : list gotype) (variadic : bool) (args : list value) : outcome (list value) :=
  match args with
  | [] => Ok []
  | a :: rest =>
    match params with
    | [] => Err
    | [p] =>
      if variadic then
        match p with
        | TSlice et =>
          obind (conv_to et a) (fun a' => obind (conv_args params variadic rest) (fun r => Ok (a' :: r)))
        | _ => Panic
        end
      else obind (conv_to p a) (fun a' => obind (conv_args [] variadic rest) (fun r => Ok (a' :: r)))
    | p :: ps =>
      obind (conv_to p a) (fun a' => obind (conv_args ps variadic rest) (fun r => Ok (a' :: r)))
    end
  end.

Definition call_value (f : value) (args : list value) (spread : bool) (st : rstate)
  : outcome value * rstate :=
  let with_sig (sg : gosig) (run : list value -> outcome value * rstate) : outcome value * rstate :=
    let n := Z.of_nat (length (sig_params sg)) in
    let na := Z.of_nat (length args) in
    if spread && negb (sig_variadic sg) then (Err, st)
    else if (negb (sig_variadic sg) || spread) && negb (na =? n) then (Err, st)
    else if sig_variadic sg && negb spread && (na <? n - 1) then (Err, st)
    else
      let expanded : outcome (list value) :=
        if spread && (0 <? na) then
          match last args VNull with
          | VArr l => Ok (removelast args ++ l)
          | _ => Err
          end
        else Ok args in
      match expanded with
      | Ok args1 =>
        match conv_args (sig_params sg) (sig_variadic sg) args1 with
        | Ok cargs => run cargs
        | Err => (Err, st)
        | Panic => (Panic, st)
        | Unk => (Unk, st)
        end
      | Err => (Err, st)
      | Panic => (Panic, st)
      | Unk => (Unk, st)
      end in
  match f with
  | VBuiltin name =>
    match builtin_sig name with
    | Some sg => with_sig sg (fun cargs => (builtin_call local_off name cargs, st))
    | None => (Err, st)
    end
  | VFunc id =>
    match host_lookup id hosts with
    | Some h =>
      with_sig (h_sig h) (fun cargs =>
        let st' := mkR (r_this st) ((id, cargs) :: r_trace st) in
        if negb (sig_nres (h_sig h) =? 2) then (Err, st')
        else if h_fail h then (Err, st') else (Ok (h_result h), st'))
    | None => (Err, st)
    end
  | VNull => (Panic, st)                        (* reflect.TypeOf(nil).Kind() *)
  | _ => (Err, st)                              (* "value not is function" *)
  end.

Fixpoint eval (e : sexpr) (st : rstate) : outcome value * rstate :=
  let fmt (r : outcome value * rstate) :=
    match r with (Ok v, s) => (Ok (format_input v), s) | _ => r end in
  let eval_list :=
    fix go (l : list sexpr) (st : rstate) : outcome (list value) * rstate :=
      match l with
      | [] => (Ok [], st)
      | a :: t =>
        match eval a st with
        | (Ok v, st1) =>
          match go t st1 with
          | (Ok vs, st2) => (Ok (v :: vs), st2)
          | (Err, st2) => (Err, st2)
          | (Panic, st2) => (Panic, st2)
          | (Unk, st2) => (Unk, st2)
          end
        | (Err, st1) => (Err, st1)
        | (Panic, st1) => (Panic, st1)
        | (Unk, st1) => (Unk, st1)
        end
      end in
  fmt
  match e with
  | SIdent _ name => (Ok (lookup_ident name st), st)
  | SMissing => (Ok (lookup_ident [] st), st)
  | SLit k v =>
    match k with
    | KTrue => (Ok (VBool true), st)
    | KFalse => (Ok (VBool false), st)
    | KNull => (Ok VNull, st)
    | KThis => (Ok (VMap (match r_this st with Some m => m | None => [] end)), st)
    | KCtx => (Ok VCtx, st)
    | KNumber => (match v with [] => Err | _ => Ok (VNum (dec_of_string v)) end, st)
    | KString => (Ok (VStr v), st)
    | _ => (Err, st)
    end
  | SPrefix op a =>
    match eval a st with
    | (Ok v, st1) => (unary_op op v, st1)
    | r => r
    end
  | STypeof a =>
    match eval a st with
    | (Ok v, st1) =>
      (Ok (VStr (match v with
                 | VBool _ => str "boolean" | VStr _ => str "string" | VNum _ => str "number"
                 | _ => str "object" end)), st1)
    | r => r
    end
  | SBin l op r =>
    if kind_eqb op KEquals then
      match l with
      | SIdent _ name =>
        if starts_dollar name then
          match eval r st with
          | (Ok v, st1) => (Ok v, set_this_value name v st1)
          | x => x
          end
        else (Err, st)
      | _ => (Err, st)
      end
    else
      match eval l st with
      | (Ok v1, st1) =>
        match eval r st1 with
        | (Ok v2, st2) => (binary_op op v1 v2, st2)
        | x => x
        end
      | x => x
      end
  | SCond c t f =>
    match eval c st with
    | (Ok v, st1) => if truthy v then eval t st1 else eval f st1
    | x => x
    end
  | SArr es =>
    match eval_list es st with
    | (Ok vs, st1) => (Ok (VArr vs), st1)
    | (Err, st1) => (Err, st1)
    | (Panic, st1) => (Panic, st1)
    | (Unk, st1) => (Unk, st1)
    end
  | SParen a => eval a st
  | SSel a _ name asrt =>
    match eval a st with
    | (Ok v, st1) =>
      if is_null v && asrt then (Err, st1)
      else
        (match v with
         | VMap m => Ok (match assoc name m with Some x => (if is_null x then VNull else x) | None => VNull end)
         | VTime _ => Panic        (* FieldByName on time.Time: no exported field *)
         | VOpaque _ => Unk
         | VStruct _ fs =>         (* FieldByName(name).Interface(): the zero Value of a missing or unexported field panics *)
           match assoc name fs with Some x => Ok (if is_null x then VNull else x) | None => Panic end
         | _ => Ok VNull
         end, st1)
    | x => x
    end
  | SSelMissing a asrt => eval a st
  | SCall f args spread =>
    match eval f st with
    | (Ok fv, st1) =>
      if negb (is_name_path f) then (Err, st1)
      else
        match eval_list args st1 with
        | (Ok vs, st2) => call_value fv vs spread st2
        | (Err, st2) => (Err, st2)
        | (Panic, st2) => (Panic, st2)
        | (Unk, st2) => (Unk, st2)
        end
    | x => x
    end
  end.

(* Runner.Resolve: a panic becomes an error; the final number-to-float64 conversion is left to
   the observer (the number is returned as a decimal) *)
Definition resolve_entry (e : sexpr) (st : rstate) : outcome value * rstate :=
  match eval e st with
  | (Panic, st') => (Err, st')
  | r => r
  end.

End Eval.
