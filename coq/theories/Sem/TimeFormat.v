(* Model of time.Time.Format (Go's reference-time layouts), the function behind the builtin timeFormat.
   A layout is cut into literal text and "std" elements exactly as time.nextStdChunk does (first match from the
   left, longest alternatives first, "Jan"/"Mon" not followed by a lower-case letter, "_2006" = a literal '_' and a
   year, a fraction ".000"/",999" only when the run of digits ends there); each element renders a civil field of
   the time in its own (fixed-offset) zone as time.appendFormat does.  The zone ABBREVIATION (element "MST") is
   not part of the model's time: a layout that contains it has no modelled rendering (None).
   Definitions only; facts in Proofs/TimeFormatFacts.v. *)
From Coq Require Import String Ascii.
From Formula Require Export Sem.Builtins.
Open Scope Z_scope.

Inductive std :=
| SYear | SLongYear | SMonth | SLongMonth | SNumMonth | SZeroMonth | SWeekDay | SLongWeekDay
| SDay | SUnderDay | SZeroDay | SUnderYearDay | SZeroYearDay
| SHour | SHour12 | SZeroHour12 | SMinute | SZeroMinute | SSecond | SZeroSecond | SPM | Spm
| STZ
| SNumTZ (iso colon short secs : bool)      (* -0700 -07:00 -07 -070000 -07:00:00 and the Z variants *)
| SFrac (nine : bool) (n : nat) (sep : Z).  (* .000 / ,000 (fixed) or .999 / ,999 (trailing zeros dropped) *)

Definition is_lower (b : Z) : bool := (97 <=? b) && (b <=? 122).
Definition is_dig (b : Z) : bool := (48 <=? b) && (b <=? 57).
Definition starts_lower (l : list Z) : bool := match l with b :: _ => is_lower b | [] => false end.
Definition drop (n : nat) (l : list Z) : list Z := skipn n l.
Definition pre (s : string) (l : list Z) : bool := is_prefix (str s) l.

Fixpoint run_of (ch : Z) (l : list Z) : nat * list Z :=
  match l with
  | b :: t => if b =? ch then let '(n, r) := run_of ch t in (S n, r) else (O, l)
  | [] => (O, [])
  end.

(* does a std element start here?  (extra literal prefix, element, rest of the layout) *)
Definition try_std (l : list Z) : option (list Z * std * list Z) :=
  match l with
  | [] => None
  | c :: t =>
    if c =? 74 then                                   (* J *)
      if pre "Jan" l then
        if pre "January" l then Some ([], SLongMonth, drop 7 l)
        else if negb (starts_lower (drop 3 l)) then Some ([], SMonth, drop 3 l) else None
      else None
    else if c =? 77 then                              (* M *)
      if pre "Monday" l then Some ([], SLongWeekDay, drop 6 l)
      else if pre "Mon" l && negb (starts_lower (drop 3 l)) then Some ([], SWeekDay, drop 3 l)
      else if pre "MST" l then Some ([], STZ, drop 3 l)
      else None
    else if c =? 48 then                              (* 0 *)
      match t with
      | d :: r =>
        if d =? 49 then Some ([], SZeroMonth, r) else if d =? 50 then Some ([], SZeroDay, r)
        else if d =? 51 then Some ([], SZeroHour12, r) else if d =? 52 then Some ([], SZeroMinute, r)
        else if d =? 53 then Some ([], SZeroSecond, r) else if d =? 54 then Some ([], SYear, r)
        else if pre "002" l then Some ([], SZeroYearDay, drop 3 l) else None
      | [] => None
      end
    else if c =? 49 then                              (* 1 *)
      match t with
      | d :: r => if d =? 53 then Some ([], SHour, r) else Some ([], SNumMonth, t)
      | [] => Some ([], SNumMonth, t)
      end
    else if c =? 50 then                              (* 2 *)
      if pre "2006" l then Some ([], SLongYear, drop 4 l) else Some ([], SDay, t)
    else if c =? 95 then                              (* _ *)
      if pre "_2" l then
        if pre "_2006" l then Some ([95], SLongYear, drop 5 l) else Some ([], SUnderDay, drop 2 l)
      else if pre "__2" l then Some ([], SUnderYearDay, drop 3 l) else None
    else if c =? 51 then Some ([], SHour12, t)
    else if c =? 52 then Some ([], SMinute, t)
    else if c =? 53 then Some ([], SSecond, t)
    else if c =? 80 then if pre "PM" l then Some ([], SPM, drop 2 l) else None
    else if c =? 112 then if pre "pm" l then Some ([], Spm, drop 2 l) else None
    else if c =? 45 then                              (* - *)
      if pre "-070000" l then Some ([], SNumTZ false false false true, drop 7 l)
      else if pre "-07:00:00" l then Some ([], SNumTZ false true false true, drop 9 l)
      else if pre "-0700" l then Some ([], SNumTZ false false false false, drop 5 l)
      else if pre "-07:00" l then Some ([], SNumTZ false true false false, drop 6 l)
      else if pre "-07" l then Some ([], SNumTZ false false true false, drop 3 l)
      else None
    else if c =? 90 then                              (* Z *)
      if pre "Z070000" l then Some ([], SNumTZ true false false true, drop 7 l)
      else if pre "Z07:00:00" l then Some ([], SNumTZ true true false true, drop 9 l)
      else if pre "Z0700" l then Some ([], SNumTZ true false false false, drop 5 l)
      else if pre "Z07:00" l then Some ([], SNumTZ true true false false, drop 6 l)
      else if pre "Z07" l then Some ([], SNumTZ true false true false, drop 3 l)
      else None
    else if (c =? 46) || (c =? 44) then               (* . , *)
      match t with
      | ch :: _ =>
        if (ch =? 48) || (ch =? 57) then
          let '(n, r) := run_of ch t in
          if match r with b :: _ => is_dig b | [] => false end then None
          else Some ([], SFrac (ch =? 57) (Nat.modulo n 4096) c, r)   (* the digit count is kept in 12 bits *)
        else None
      | [] => None
      end
    else None
  end.

(* time.nextStdChunk: literal prefix, first element (if any), rest *)
Fixpoint next_chunk (l : list Z) : list Z * option std * list Z :=
  match l with
  | [] => ([], None, [])
  | c :: t =>
    match try_std l with
    | Some (p, s, r) => (p, Some s, r)
    | None => let '(p, s, r) := next_chunk t in (c :: p, s, r)
    end
  end.

(* ---------- rendering ---------- *)

Fixpoint digits_fuel (fuel : nat) (n : Z) (acc : list Z) : list Z :=
  match fuel with
  | O => acc
  | S f => if n <? 10 then (48 + n) :: acc else digits_fuel f (n / 10) ((48 + n mod 10) :: acc)
  end.
Definition udigits (n : Z) : list Z := digits_fuel (S (Z.to_nat (Z.log2 (Z.max n 1)))) n [].

Fixpoint zeros (n : nat) : list Z := match n with O => [] | S k => 48 :: zeros k end.

(* time.appendInt: a minus sign, then the digits padded with zeros to the width *)
Definition append_int (x : Z) (width : nat) : list Z :=
  let d := udigits (Z.abs x) in
  (if x <? 0 then [45] else []) ++ zeros (width - length d) ++ d.

Local Open Scope string_scope.
Definition month_names : list string :=
  ["January"; "February"; "March"; "April"; "May"; "June"; "July"; "August"; "September"; "October"; "November"; "December"].
Definition day_names : list string := ["Sunday"; "Monday"; "Tuesday"; "Wednesday"; "Thursday"; "Friday"; "Saturday"].
Local Close Scope string_scope.
Definition month_name (m : Z) : list Z := str (nth (Z.to_nat (m - 1)) month_names EmptyString).
Definition day_name (d : Z) : list Z := str (nth (Z.to_nat d) day_names EmptyString).

Definition t_yday (t : gotime) : Z := t_days t - days_from_civil (t_year t) 1 1 + 1.
Definition t_nanos (t : gotime) : Z := t_ns t mod NS.
Definition hour12 (h : Z) : Z := if h mod 12 =? 0 then 12 else h mod 12.

Fixpoint strip_zeros_rev (l : list Z) : list Z :=
  match l with 48 :: t => strip_zeros_rev t | _ => l end.

(* time.appendNano *)
Definition render_frac (nine : bool) (n : nat) (sep : Z) (nanos : Z) : list Z :=
  if nine && ((Nat.eqb n 0) || (nanos =? 0)) then []
  else
    let d := firstn n (append_int nanos 9) in
    if nine then
      match strip_zeros_rev (rev d) with
      | [] => []
      | r => sep :: rev r
      end
    else sep :: d.

Definition render_tz (iso colon short secs : bool) (off : Z) : list Z :=
  if iso && (off =? 0) then [90]
  else
    let zone := Z.quot off 60 in
    let sign := if zone <? 0 then [45] else [43] in
    let z := Z.abs zone in
    let a := if zone <? 0 then - off else off in
    sign ++ append_int (z / 60) 2 ++ (if colon then [58] else []) ++ (if short then [] else append_int (z mod 60) 2) ++
    (if secs then (if colon then [58] else []) ++ append_int (Z.rem a 60) 2 else []).

Definition render (s : std) (t : gotime) : option (list Z) :=
  match s with
  | SYear => Some (append_int (Z.abs (t_year t) mod 100) 2)
  | SLongYear => Some (append_int (t_year t) 4)
  | SMonth => Some (firstn 3 (month_name (t_month t)))
  | SLongMonth => Some (month_name (t_month t))
  | SNumMonth => Some (append_int (t_month t) 0)
  | SZeroMonth => Some (append_int (t_month t) 2)
  | SWeekDay => Some (firstn 3 (day_name (t_weekday t)))
  | SLongWeekDay => Some (day_name (t_weekday t))
  | SDay => Some (append_int (t_day t) 0)
  | SUnderDay => Some ((if t_day t <? 10 then [32] else []) ++ append_int (t_day t) 0)
  | SZeroDay => Some (append_int (t_day t) 2)
  | SUnderYearDay => Some ((if t_yday t <? 100 then [32] else []) ++ (if t_yday t <? 10 then [32] else []) ++ append_int (t_yday t) 0)
  | SZeroYearDay => Some (append_int (t_yday t) 3)
  | SHour => Some (append_int (t_hour t) 2)
  | SHour12 => Some (append_int (hour12 (t_hour t)) 0)
  | SZeroHour12 => Some (append_int (hour12 (t_hour t)) 2)
  | SMinute => Some (append_int (t_minute t) 0)
  | SZeroMinute => Some (append_int (t_minute t) 2)
  | SSecond => Some (append_int (t_second t) 0)
  | SZeroSecond => Some (append_int (t_second t) 2)
  | SPM => Some (if 12 <=? t_hour t then [80; 77] else [65; 77])
  | Spm => Some (if 12 <=? t_hour t then [112; 109] else [97; 109])
  | STZ => None
  | SNumTZ iso colon short secs => Some (render_tz iso colon short secs (t_off t))
  | SFrac nine n sep => Some (render_frac nine n sep (t_nanos t))
  end.

(* time.appendFormat: every round consumes at least one byte of the layout, so its length (+1) is fuel enough *)
Fixpoint format_fuel (fuel : nat) (t : gotime) (layout : list Z) : option (list Z) :=
  match fuel with
  | O => None
  | S f =>
    match layout with
    | [] => Some []
    | _ =>
      let '(p, s, r) := next_chunk layout in
      match s with
      | None => Some p
      | Some e =>
        match render e t, format_fuel f t r with
        | Some x, Some y => Some (p ++ x ++ y)
        | _, _ => None
        end
      end
    end
  end.

Definition time_format (t : gotime) (layout : list Z) : option (list Z) :=
  format_fuel (S (length layout)) t layout.
