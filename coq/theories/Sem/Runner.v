(* Model of the Runner object (runner.go:85-112, 1004-1010): a reference to the caller's data map
   (maps live in a heap so that aliasing after SetThis is explicit) and the auxiliary store.
   Plus the abstract specification the property compares it with.  Definitions only. *)
From Formula Require Export Sem.Eval.

Definition gomap := list (list Z * value).

Record runner := mkRunner {
  heap : list (Z * gomap);       (* caller-owned maps by id, and maps created by the runner *)
  this_ref : option Z;           (* which map the runner currently points to *)
  aux : gomap;                   (* the Set/Get store *)
  next_id : Z }.

Inductive rop :=
| OpSetThis (id : option Z)                    (* SetThis(map number id) / SetThis(nil) *)
| OpSetThisValue (k : list Z) (v : value)
| OpResolve (e : sexpr)
| OpSet (k : list Z) (v : value)
| OpGet (k : list Z)
| OpCallerWrite (id : Z) (k : list Z) (v : value).   (* the caller changes one of its own maps *)

Inductive robs :=
| ObsNone
| ObsValue (r : outcome value)
| ObsGet (v : value).

Fixpoint heap_get (id : Z) (h : list (Z * gomap)) : gomap :=
  match h with [] => [] | (i, m) :: t => if i =? id then m else heap_get id t end.

Fixpoint heap_set (id : Z) (m : gomap) (h : list (Z * gomap)) : list (Z * gomap) :=
  match h with
  | [] => [(id, m)]
  | (i, m') :: t => if i =? id then (i, m) :: t else (i, m') :: heap_set id m t
  end.

Section Run.
Variable hosts : list (Z * hostfn).
Variable local_off : Z.

Definition new_runner (caller_maps : list (Z * gomap)) : runner :=
  mkRunner caller_maps None [] 1000.

Definition rstep (r : runner) (o : rop) : runner * robs :=
  match o with
  | OpSetThis id => (mkRunner (heap r) id (aux r) (next_id r), ObsNone)
  | OpSetThisValue k v =>
    match this_ref r with
    | Some id => (mkRunner (heap_set id (assoc_set k v (heap_get id (heap r))) (heap r)) (Some id) (aux r) (next_id r), ObsNone)
    | None => (mkRunner (heap_set (next_id r) [(k, v)] (heap r)) (Some (next_id r)) (aux r) (next_id r + 1), ObsNone)
    end
  | OpResolve e =>
    let st := mkR (match this_ref r with Some id => Some (heap_get id (heap r)) | None => None end) [] in
    let '(out, st') := resolve_entry hosts local_off e st in
    let r' :=
      match r_this st', this_ref r with
      | Some m, Some id => mkRunner (heap_set id m (heap r)) (Some id) (aux r) (next_id r)
      | Some m, None => mkRunner (heap_set (next_id r) m (heap r)) (Some (next_id r)) (aux r) (next_id r + 1)
      | None, _ => r
      end in
    (r', ObsValue out)
  | OpSet k v => (mkRunner (heap r) (this_ref r) (assoc_set k v (aux r)) (next_id r), ObsNone)
  | OpGet k => (r, ObsGet (match assoc k (aux r) with Some v => v | None => VNull end))
  | OpCallerWrite id k v => (mkRunner (heap_set id (assoc_set k v (heap_get id (heap r))) (heap r)) (this_ref r) (aux r) (next_id r), ObsNone)
  end.

Fixpoint rrun (r : runner) (ops : list rop) : list robs :=
  match ops with
  | [] => []
  | o :: t => let '(r', ob) := rstep r o in ob :: rrun r' t
  end.

(* ---- the simple model of the property: "a plain map of data plus a separate key-value store".
   The data map is a VALUE here (no heap): data = the current data map as the formulas see it. *)
Record amodel := mkA { a_data : option gomap; a_store : gomap }.

End Run.
