(* Model of resolve.go: the referenced-field analysis.  Definitions only. *)
From Formula Require Export Sem.Eval.

(* resolveSelecotrNames: the names of a dotted path; None when the base is not a name or a path *)
Fixpoint sel_names (e : sexpr) : option (list (list Z)) :=
  match e with
  | SIdent _ n => Some [n]
  | SMissing => Some [[]]
  | SSel a _ n _ => match sel_names a with Some l => Some (l ++ [n]) | None => None end
  | SSelMissing a _ => match sel_names a with Some l => Some (l ++ [[]]) | None => None end
  | _ => None
  end.

Fixpoint join_dot (l : list (list Z)) : list Z :=
  match l with
  | [] => []
  | [a] => a
  | a :: t => a ++ 46 :: join_dot t
  end.

(* the walker: the list of reported fields in visiting order (with duplicates); None = error *)
Fixpoint fields_raw (e : sexpr) : option (list (list Z)) :=
  let all :=
    fix go (l : list sexpr) : option (list (list Z)) :=
      match l with
      | [] => Some []
      | a :: t => match fields_raw a with
                  | Some x => match go t with Some y => Some (x ++ y) | None => None end
                  | None => None
                  end
      end in
  match e with
  | SIdent _ n => Some [n]
  | SMissing => Some [[]]
  | SLit _ _ => Some []
  | SPrefix _ a => fields_raw a
  | STypeof a => fields_raw a
  | SBin l _ r => match fields_raw l with
                  | Some x => match fields_raw r with Some y => Some (x ++ y) | None => None end
                  | None => None
                  end
  | SCond c t f => all [c; t; f]
  | SArr es => all es
  | SParen a => fields_raw a
  | SSel _ _ _ _ | SSelMissing _ _ =>
    match sel_names e with Some l => Some [join_dot l] | None => None end
  | SCall _ args _ => all args
  end.

(* stringsUniq: the set of reported fields (the implementation's order is unspecified) *)
Fixpoint dedup (l : list (list Z)) : list (list Z) :=
  match l with
  | [] => []
  | a :: t => if existsb (bytes_eqb a) t then dedup t else a :: dedup t
  end.

Definition fields_of (e : sexpr) : option (list (list Z)) :=
  match fields_raw e with Some l => Some (dedup l) | None => None end.

Definition fields_not_local (e : sexpr) : option (list (list Z)) :=
  match fields_of e with
  | Some l => Some (filter (fun f => negb (starts_dollar f)) l)
  | None => None
  end.
