(* Builtin functions of runner.go (string, list, numeric, conversion, date) over model values.
   Each builtin has a Go signature (used by the call bridge for arity checks and argument
   conversion) and a semantics on already converted arguments.  Definitions only. *)
From Coq Require Import String Ascii.
From Formula Require Export Sem.Value.

Definition str (s : string) : list Z := map (fun c => Z.of_nat (Ascii.nat_of_ascii c)) (String.list_ascii_of_string s).

(* ---------- strings as byte lists ---------- *)

Fixpoint is_prefix (p s : list Z) : bool :=
  match p, s with
  | [], _ => true
  | x :: p', y :: s' => (x =? y) && is_prefix p' s'
  | _ :: _, [] => false
  end.

(* strings.Index: first index of sub in s, or -1 *)
Fixpoint index_from (sub s : list Z) (i : Z) : Z :=
  if is_prefix sub s then i
  else match s with
       | [] => -1
       | _ :: t => index_from sub t (i + 1)
       end.
Definition str_index (s sub : list Z) : Z := index_from sub s 0.

Definition is_suffix (p s : list Z) : bool := is_prefix (rev p) (rev s).

Definition slen (s : list Z) : Z := Z.of_nat (length s).

(* s[a:b] with Go's bounds check: 0 <= a <= b <= len *)
Definition slice (s : list Z) (a b : Z) : outcome (list Z) :=
  if (0 <=? a) && (a <=? b) && (b <=? slen s)
  then Ok (firstn (Z.to_nat (b - a)) (skipn (Z.to_nat a) s))
  else Panic.

(* strings.ReplaceAll; replace_go is for a non-empty old *)
Fixpoint replace_go (fuel : nat) (s old new : list Z) : list Z :=
  match fuel with
  | O => s
  | S f =>
    match s with
    | [] => []
    | c :: t =>
      if is_prefix old s then new ++ replace_go f (skipn (length old) s) old new
      else c :: replace_go f t old new
    end
  end.

Definition str_replace (s old new : list Z) : option (list Z) :=
  match old with
  | [] => Some (new ++ flat_map (fun st => snd st ++ new) (decode_all s))
          (* an empty old matches before every character and at the end; characters as utf8.DecodeRune steps
             through the text: every invalid byte is one of its own *)
  | _ => Some (replace_go (S (length s)) s old new)
  end.

Fixpoint str_repeat (n : nat) (s : list Z) : list Z :=
  match n with O => [] | S m => s ++ str_repeat m s end.

(* ASCII case mapping; None when the string has a non-ASCII byte (Unicode mapping not modelled) *)
Definition all_ascii (s : list Z) : bool := forallb (fun b => b <? 128) s.
Definition to_lower_ascii (s : list Z) : list Z := map (fun b => if (65 <=? b) && (b <=? 90) then b + 32 else b) s.
Definition to_upper_ascii (s : list Z) : list Z := map (fun b => if (97 <=? b) && (b <=? 122) then b - 32 else b) s.

(* strings.TrimSpace on ASCII strings: space, \t \n \v \f \r *)
Definition is_space_ascii (b : Z) : bool := (b =? 32) || ((9 <=? b) && (b <=? 13)).
Fixpoint trim_left (s : list Z) : list Z :=
  match s with
  | b :: t => if is_space_ascii b then trim_left t else s
  | [] => []
  end.
Definition trim_space (s : list Z) : list Z := rev (trim_left (rev (trim_left s))).

Fixpoint join_strs (l : list (list Z)) (sep : list Z) : list Z :=
  match l with
  | [] => []
  | [a] => a
  | a :: t => a ++ sep ++ join_strs t sep
  end.

(* ---------- numbers ---------- *)

(* Context.RoundToInt with a given decision "round the magnitude up?" :
   mode 0 = toward -inf (floor), 1 = half-even, 2 = half-away-from-zero *)
Definition round_to_int (mode : Z) (x : dec) : dec :=
  match x with
  | Fin n c e =>
    if 0 <=? e then x
    else
      let pw := pow10 (- e) in
      let q := c / pw in
      let r := c mod pw in
      let up :=
        if r =? 0 then false
        else if mode =? 0 then n
        else if mode =? 1 then (pw <? 2 * r) || ((2 * r =? pw) && Z.odd q)
        else pw <=? 2 * r in
      Fin n (if up then q + 1 else q) 0
  | _ => x
  end.

Definition dec_floor (x : dec) : dec := round_to_int 0 x.

(* Context64 operations round their result to 16 digits *)
Definition fin_round16 (x : dec) : dec :=
  match x with
  | Fin n c e => let '(c', e') := round_he 16 c e in Fin n c' e'
  | _ => x
  end.

(* Ceil = Neg(Floor(CopyNeg x)) in Context64 *)
Definition dec_ceil (x : dec) : dec :=
  match x with
  | NaN => NaN
  | _ =>
    match dec_floor (flip x) with
    | Fin n c e => if c =? 0 then Fin false 0 e else fin_round16 (Fin (negb n) c e)
    | Inf n => Inf (negb n)
    | NaN => NaN
    end
  end.

Fixpoint dec_max (l : list dec) (cur : dec) : dec :=
  match l with
  | [] => cur
  | v :: t => if 0 <? dec_cmp v cur then dec_max t v else dec_max t cur
  end.

(* convToNumber *)
Definition conv_to_number (v : value) : dec :=
  match v with
  | VNum d => d
  | VStr s => num_of_text s
  | VBool b => if b then dec_one else dec_zero
  | _ => if is_null v then dec_zero else NaN
  end.

(* 64-bit two's-complement view of Int64() (0 when the conversion fails) *)
Definition to_i64 (d : dec) : Z := match dec_to_int d with Some v => v | None => 0 end.
(* Int64() as the library behaves: 0 for NaN and infinities, the truncation when it fits;
   None = finite but outside int64 (the library's result is unspecified there) *)
Definition to_i64_opt (d : dec) : option Z :=
  match d with
  | Fin _ _ _ => dec_to_int d
  | _ => Some 0
  end.
Definition wrap64 (v : Z) : Z := wrap_int GInt64 v.

(* ---------- signatures ---------- *)

Definition TI := TInt GInt.
Local Open Scope string_scope.
Definition sig0 (ps : list gotype) := mkSig false ps false 2.

Definition builtin_sig (name : list Z) : option gosig :=
  let is n := bytes_eqb name (str n) in
  if is "now" || is "toDay" then Some (sig0 [])
  else if is "date" then Some (sig0 [TI; TI; TI])
  else if is "addDate" then Some (sig0 [TTime; TI; TI; TI])
  else if is "year" || is "month" || is "day" || is "hour" || is "minute" || is "second" ||
          is "millSecond" || is "weekDay" then Some (sig0 [TTime])
  else if is "timeFormat" || is "useTimezone" then Some (sig0 [TTime; TString])
  else if is "abs" || is "ceil" || is "exp" || is "floor" || is "ln" || is "log" || is "round" ||
          is "roundBank" || is "sqrt" then Some (sig0 [TDec])
  else if is "roundCash" then Some (sig0 [TDec; TDec])
  else if is "max" || is "min" then Some (mkSig false [TSlice TDec] true 2)
  else if is "finite" || is "toString" || is "toInt" || is "toFloat" then Some (sig0 [TIface])
  else if is "startWith" || is "endWith" || is "contains" || is "find" || is "regexp" then Some (sig0 [TString; TString])
  else if is "includes" then Some (sig0 [TSlice TString; TString])
  else if is "left" || is "right" then Some (sig0 [TString; TI])
  else if is "len" || is "lower" || is "upper" || is "trim" then Some (sig0 [TString])
  else if is "lpad" || is "rpad" then Some (sig0 [TString; TString; TI])
  else if is "mid" then Some (sig0 [TString; TI; TI])
  else if is "replace" then Some (sig0 [TString; TString; TString])
  else if is "mapToArr" then Some (sig0 [TSlice (TMapStr TIface); TString])
  else if is "join" then Some (sig0 [TSlice TString; TString])
  else None.

Definition builtin_names : list (list Z) :=
  map str ["now"; "toDay"; "date"; "addDate"; "year"; "month"; "day"; "hour"; "minute"; "second";
           "millSecond"; "weekDay"; "timeFormat"; "useTimezone"; "abs"; "ceil"; "exp"; "floor"; "ln";
           "log"; "max"; "min"; "round"; "roundBank"; "roundCash"; "sqrt"; "finite"; "startWith";
           "endWith"; "contains"; "find"; "includes"; "left"; "right"; "len"; "lower"; "upper"; "lpad";
           "rpad"; "mid"; "replace"; "trim"; "regexp"; "mapToArr"; "join"; "toString"; "toInt";
           "toFloat"].
Local Close Scope string_scope.

(* ---------- calendar (proleptic Gregorian), fixed-offset zones ---------- *)

(* days since 1970-01-01 of the civil date y-m-d, m in 1..12 (d may be any integer) *)
Definition days_from_civil (y m d : Z) : Z :=
  let y' := if m <=? 2 then y - 1 else y in
  let era := y' / 400 in
  let yoe := y' - era * 400 in
  let mp := (m + 9) mod 12 in
  let doy := (153 * mp + 2) / 5 + d - 1 in
  let doe := yoe * 365 + yoe / 4 - yoe / 100 + doy in
  era * 146097 + doe - 719468.

Definition civil_from_days (z : Z) : Z * Z * Z :=
  let z' := z + 719468 in
  let era := z' / 146097 in
  let doe := z' - era * 146097 in
  let yoe := (doe - doe / 1460 + doe / 36524 - doe / 146096) / 365 in
  let y := yoe + era * 400 in
  let doy := doe - (365 * yoe + yoe / 4 - yoe / 100) in
  let mp := (5 * doy + 2) / 153 in
  let d := doy - (153 * mp + 2) / 5 + 1 in
  let m := if mp <? 10 then mp + 3 else mp - 9 in
  (if m <=? 2 then y + 1 else y, m, d).

Definition NS : Z := 1000000000.

(* time.Date(y, m, d, h, mi, s, ns, fixed zone off): months and days out of range carry over *)
Definition go_date (y m d h mi s ns off : Z) : gotime :=
  let m0 := m - 1 in
  let y' := y + m0 / 12 in
  let m' := m0 mod 12 + 1 in
  let days := days_from_civil y' m' 1 + (d - 1) in
  mkTime (((days * 86400 + h * 3600 + mi * 60 + s) - off) * NS + ns) off.

(* local civil fields of an instant *)
Definition local_secs (t : gotime) : Z := t_ns t / NS + t_off t.
Definition t_days (t : gotime) : Z := local_secs t / 86400.
Definition t_sod (t : gotime) : Z := local_secs t mod 86400.
Definition t_year (t : gotime) : Z := let '(y, _, _) := civil_from_days (t_days t) in y.
Definition t_month (t : gotime) : Z := let '(_, m, _) := civil_from_days (t_days t) in m.
Definition t_day (t : gotime) : Z := let '(_, _, d) := civil_from_days (t_days t) in d.
Definition t_hour (t : gotime) : Z := t_sod t / 3600.
Definition t_minute (t : gotime) : Z := (t_sod t mod 3600) / 60.
Definition t_second (t : gotime) : Z := t_sod t mod 60.
Definition t_weekday (t : gotime) : Z := (t_days t + 4) mod 7.
(* UnixMilli: floor *)
Definition t_millis (t : gotime) : Z := t_ns t / 1000000.

Definition t_add_date (t : gotime) (y m d : Z) : gotime :=
  go_date (t_year t + y) (t_month t + m) (t_day t + d) (t_hour t) (t_minute t) (t_second t)
          (t_ns t mod NS) (t_off t).
