(* Values of the evaluator (the Go values a formula can see), Go types of host-function
   parameters, outcomes.  Definitions only. *)
From Formula Require Export Num.Dec Lex.Scanner.

Inductive gokind := GInt | GInt8 | GInt16 | GInt32 | GInt64 | GUint | GUint8 | GUint16 | GUint32 | GUint64 | GUintptr.

(* an instant with a fixed-offset zone: nanoseconds since the Unix epoch, offset in seconds *)
Record gotime := mkTime { t_ns : Z; t_off : Z }.

Inductive value :=
| VNull                                   (* nil *)
| VBool (b : bool)
| VNum (d : dec)                          (* *decimal.Big *)
| VStr (s : list Z)
| VTime (t : gotime)                      (* time.Time *)
| VArr (l : list value)                   (* []interface{} *)
| VMap (m : list (list Z * value))        (* map[string]interface{}; keys unique *)
| VFunc (id : Z)                          (* host function number id *)
| VBuiltin (name : list Z)                (* entry of the builtin table *)
| VGoInt (k : gokind) (v : Z)             (* a Go integer that has not been normalised *)
| VGoFloat (s : list Z)                   (* a Go float64, by its shortest decimal spelling *)
| VNilPtr                                 (* typed nil pointer *)
| VCtx                                    (* the context.Context of the evaluation *)
| VOpaque (tag : Z)                       (* any other non-nil Go value *)
| VStruct (id : Z) (fs : list (list Z * value)).
   (* a Go struct value of type number id, by the fields a selector can read: the exported fields, promoted fields
      of embedded structs included; an unexported or missing name is absent.  Everywhere but under a selector it
      behaves like VOpaque *)

Inductive gotype :=
| TIface | TString | TBool | TInt (k : gokind) | TFloat (is32 : bool) | TDec | TTime
| TSlice (t : gotype) | TMapStr (t : gotype) | TOther.

(* signature of a callable: optional leading context, parameters, is the last one variadic,
   number of results (the bridge insists on 2) *)
Record gosig := mkSig { sig_ctx : bool; sig_params : list gotype; sig_variadic : bool; sig_nres : Z }.

Inductive outcome (A : Type) :=
| Ok (v : A)
| Err                  (* returned error *)
| Panic                (* a Go run-time panic inside the evaluator (turned into an error at the entry) *)
| Unk.                 (* the behaviour of the code at this point is not modelled (excluded from comparison) *)
Arguments Ok {A} v.
Arguments Err {A}.
Arguments Panic {A}.
Arguments Unk {A}.

(* IsNull: nil or a nil pointer *)
Definition is_null (v : value) : bool := match v with VNull | VNilPtr => true | _ => false end.

Fixpoint assoc (k : list Z) (m : list (list Z * value)) : option value :=
  match m with
  | [] => None
  | (k', v) :: t => if bytes_eqb k k' then Some v else assoc k t
  end.

Fixpoint assoc_set (k : list Z) (v : value) (m : list (list Z * value)) : list (list Z * value) :=
  match m with
  | [] => [(k, v)]
  | (k', v') :: t => if bytes_eqb k k' then (k, v) :: t else (k', v') :: assoc_set k v t
  end.

Definition int_bits (k : gokind) : Z :=
  match k with
  | GInt8 | GUint8 => 8 | GInt16 | GUint16 => 16 | GInt32 | GUint32 => 32 | _ => 64
  end.

(* identity of Go integer types: uint and uint64 (or int and int64) have the same width and signedness and are
   still different types, so two interface values holding them are never == *)
Definition gokind_eqb (a b : gokind) : bool :=
  match a, b with
  | GInt, GInt | GInt8, GInt8 | GInt16, GInt16 | GInt32, GInt32 | GInt64, GInt64
  | GUint, GUint | GUint8, GUint8 | GUint16, GUint16 | GUint32, GUint32 | GUint64, GUint64 | GUintptr, GUintptr => true
  | _, _ => false
  end.

Definition int_signed (k : gokind) : bool :=
  match k with GInt | GInt8 | GInt16 | GInt32 | GInt64 => true | _ => false end.

(* two's-complement wrap of an integer to the width of kind k *)
Definition wrap_int (k : gokind) (v : Z) : Z :=
  let m := 2 ^ int_bits k in
  let r := v mod m in
  if int_signed k && (m / 2 <=? r) then r - m else r.

(* formatInput: Go int, int32, int64, float32, float64 become numbers; everything else unchanged *)
Definition format_input (v : value) : value :=
  match v with
  | VGoInt GInt n | VGoInt GInt32 n | VGoInt GInt64 n => VNum (dec_of_Z n)
  | VGoFloat s => VNum (dec_of_string s)
  | _ => v
  end.

(* truthiness (toBool) *)
Definition truthy (v : value) : bool :=
  match v with
  | VBool b => b
  | VStr s => match s with [] => false | _ => true end
  | VNum d => negb (dec_cmp d dec_zero =? 0) && negb (is_nan d)
  | _ => negb (is_null v)
  end.
