(* Clock builtins as functions of the ONE clock reading they take (definitions only).
   `now` hands back the reading; `toDay` the local midnight of the reading's civil day, in the reading's zone.
   That the code takes exactly one reading per call is an obligation over the regenerated effect table
   (Conc/Footprint.v: environment_read_by_clock_builtins_once). *)
From Coq Require Import ZArith.
From Formula Require Import Sem.Value Sem.Builtins.
Open Scope Z_scope.

Definition now_of (reading : gotime) : gotime := reading.

Definition today_of (reading : gotime) : gotime :=
  mkTime ((t_days reading * 86400 - t_off reading) * NS) (t_off reading).

(* the wall-clock bracket of a call: readings taken between its start and its end (same zone) *)
Definition in_bracket (lo hi t : gotime) : Prop := t_ns lo <= t_ns t <= t_ns hi /\ t_off t = t_off lo /\ t_off hi = t_off lo.
