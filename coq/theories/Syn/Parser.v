(* Model of parser.go: the recovering precedence-climbing parser, over the token stream of
   Lex/Scanner.v.  Diagnostics are collected exactly as the code does (scanner diagnostics when
   the parser advances onto a token; same-start suppression against the previous diagnostic).
   Every function takes fuel (= bound on recursion depth); None = out of fuel, excluded by
   Proofs/ParserTotal.v.  Definitions only. *)
From Formula Require Export Lex.Scanner Syn.Ast.

(* ---------- finite tables of the parser ---------- *)

Definition prec_of (k : kind) : Z :=
  match k with
  | KBarBar | KQQ => 1
  | KAmpAmp => 2
  | KBar => 3
  | KCaret => 4
  | KAmp => 5
  | KEqEq | KEqEqEq | KNe | KNeEq => 6
  | KLt | KGt | KLe | KGe => 7
  | KPlus | KMinus => 9
  | KAsterisk | KSlash | KPercent => 10
  | _ => -1
  end.

Definition is_keyword (k : kind) : bool :=
  match k with KTrue | KFalse | KNull | KThis | KCtx | KTypeof => true | _ => false end.

Definition is_identifier_kind (k : kind) : bool :=
  match k with KIdent => true | _ => is_keyword k end.

Definition is_assignment_op (k : kind) : bool :=
  match k with KEquals => true | _ => false end.

Definition is_prefix_op (k : kind) : bool :=
  match k with KPlus | KMinus | KTilde | KBang | KBangBang => true | _ => false end.

Definition is_start_of_lhs (k : kind) : bool :=
  match k with
  | KTrue | KFalse | KNumber | KString | KOpenParen | KOpenBracket | KSlash | KIdent => true
  | _ => is_identifier_kind k
  end.

Definition is_start_of_expression (k : kind) : bool :=
  is_start_of_lhs k ||
  match k with
  | KPlus | KMinus | KTilde | KBang | KBangBang | KLt => true
  | _ => (0 <? prec_of k) || is_identifier_kind k
  end.

(* parsing contexts *)
Inductive pctx := PArgs | PArray.

Definition is_list_element (c : pctx) (k : kind) : bool :=
  match c with
  | PArgs => is_start_of_expression k
  | PArray => kind_eqb k KComma || is_start_of_expression k
  end.

Definition is_list_terminator (c : pctx) (k : kind) : bool :=
  kind_eqb k KEOF ||
  match c with
  | PArgs => kind_eqb k KCloseParen || kind_eqb k KDotDotDot
  | PArray => kind_eqb k KCloseBracket
  end.

Definition ctx_error (c : pctx) : Z :=
  match c with PArgs => C_Argument_expression_expected | PArray => C_Expression_or_comma_expected end.

(* ---------- parser state ---------- *)

(* current token, the tokens after it, diagnostics so far (most recent first) *)
Record pst := mkSt { cur : token; rest : list token; diags : list diag }.

(* errorAtPosition: dropped when it starts where the previous diagnostic starts *)
Definition add_diag (ds : list diag) (d : diag) : list diag :=
  match ds with
  | last :: _ => if dstart last =? dstart d then ds else d :: ds
  | [] => [d]
  end.

Definition add_diags (ds : list diag) (new : list diag) : list diag := fold_left add_diag new ds.

(* nextToken: scan the next token (its scanner diagnostics are reported now).
   At end of input the scanner keeps returning the end-of-file token. *)
Definition advance (s : pst) : pst :=
  match rest s with
  | t :: r => mkSt t r (add_diags (diags s) (tdiags t))
  | [] => s
  end.

Definition error_at_current (s : pst) (code : Z) : pst :=
  let t := cur s in mkSt t (rest s) (add_diag (diags s) (tpos t, tend t - tpos t, code)).

Definition error_at (s : pst) (start len code : Z) : pst :=
  mkSt (cur s) (rest s) (add_diag (diags s) (start, len, code)).

Definition at_kind (s : pst) (k : kind) : bool := kind_eqb (tk (cur s)) k.

(* startPos of the scanner = start of the current token's leading trivia = end of the previous token *)
Definition node_pos (s : pst) : Z := tstart (cur s).

(* want(kind): advance when present, else report "kind expected" at the current token *)
Definition want (s : pst) (k : kind) : pst :=
  if at_kind s k then advance s else error_at_current s C_0_expected.

Definition R := option (expr * pst).

(* parseIdentifier / createIdentifier *)
Definition parse_identifier (s : pst) (code : Z) : expr * pst :=
  let t := cur s in
  if is_identifier_kind (tk t) then
    let s1 := advance s in (EIdent (tk t) (tval t) (tstart t) (node_pos s1), s1)
  else (EMissing (node_pos s), error_at_current s code).

(* parseRightSideOfDot *)
Definition parse_right_side_of_dot (s : pst) : expr * pst :=
  let t := cur s in
  if tnl t && is_identifier_kind (tk t) &&
     match rest s with
     | t2 :: _ => is_identifier_kind (tk t2) && negb (tnl t2)
     | [] => false
     end
  then (EMissing (node_pos s), error_at s (node_pos s) 0 C_Identifier_expected)
  else parse_identifier s C_Identifier_expected.

Definition is_literal_start (k : kind) : bool :=
  match k with KNumber | KString | KNull | KTrue | KFalse | KThis | KCtx => true | _ => false end.

Notation "'do' '(' x ',' s ')' '<-' a ';' b" :=
  (match a with Some (x, s) => b | None => None end)
    (at level 200, x name, s name, a at level 100, b at level 200).

(* parseMemberExpressionRest *)
Fixpoint member_rest (f : nat) (e : expr) (s : pst) : R :=
  match f with O => None | S f =>
    if tnl (cur s) then Some (e, s)
    else if at_kind s KDot || at_kind s KBangDot then
      let asrt := at_kind s KBangDot in
      let s1 := advance s in
      let '(nm, s2) := parse_right_side_of_dot s1 in
      member_rest f (ESel e nm asrt (epos e) (node_pos s2)) s2
    else Some (e, s)
  end.

Fixpoint parse_expression (f : nat) (s : pst) : R :=
  match f with O => None | S f =>
    do (e, s1) <- parse_assign f s;
    comma_loop f e s1
  end
with comma_loop (f : nat) (l : expr) (s : pst) : R :=
  match f with O => None | S f =>
    if at_kind s KComma then
      let t := cur s in
      let s1 := advance s in
      do (r, s2) <- parse_assign f s1;
      comma_loop f (EBin l KComma (tstart t) (node_pos s1) r (epos l) (node_pos s2)) s2
    else Some (l, s)
  end
with parse_assign (f : nat) (s : pst) : R :=
  match f with O => None | S f =>
    do (e, s1) <- parse_binary f 0 s;
    if is_assignment_op (tk (cur s1)) then
      let t := cur s1 in
      let s2 := advance s1 in
      do (r, s3) <- parse_assign f s2;
      Some (EBin e (tk t) (tstart t) (node_pos s2) r (epos e) (node_pos s3), s3)
    else if at_kind s1 KQuestion then
      let q := cur s1 in
      let s2 := advance s1 in
      do (wt, s3) <- parse_assign f s2;
      let '(colon, cp, ce, s4) :=
        if at_kind s3 KColon then
          let s4 := advance s3 in (true, tstart (cur s3), node_pos s4, s4)
        else (false, node_pos s3, node_pos s3, error_at_current s3 C_0_expected) in
      do (wf, s5) <- parse_assign f s4;
      Some (ECond e (tstart q) (node_pos s2) wt colon cp ce wf (epos e) (node_pos s5), s5)
    else Some (e, s1)
  end
with parse_binary (f : nat) (p : Z) (s : pst) : R :=
  match f with O => None | S f =>
    do (l, s1) <- parse_unary f s;
    parse_binary_rest f p l s1
  end
with parse_binary_rest (f : nat) (p : Z) (l : expr) (s : pst) : R :=
  match f with O => None | S f =>
    let np := prec_of (tk (cur s)) in
    if p <? np then
      let t := cur s in
      let s1 := advance s in
      do (r, s2) <- parse_binary f np s1;
      parse_binary_rest f p (EBin l (tk t) (tstart t) (node_pos s1) r (epos l) (node_pos s2)) s2
    else Some (l, s)
  end
with parse_unary (f : nat) (s : pst) : R :=
  match f with O => None | S f =>
    let t := cur s in
    if is_prefix_op (tk t) then
      let s1 := advance s in
      do (x, s2) <- parse_unary f s1;
      Some (EPrefix (tk t) (tstart t) (node_pos s1) x (tstart t) (node_pos s2), s2)
    else if kind_eqb (tk t) KTypeof then
      let s1 := advance s in
      do (x, s2) <- parse_unary f s1;
      Some (ETypeof x (tstart t) (node_pos s2), s2)
    else
      do (e, s1) <- parse_primary f s;
      do (e2, s2) <- member_rest f e s1;
      call_rest f e2 s2
  end
with call_rest (f : nat) (e : expr) (s : pst) : R :=
  match f with O => None | S f =>
    if tnl (cur s) then Some (e, s)
    else
      do (e1, s1) <- member_rest f e s;
      if at_kind s1 KOpenParen && negb (tnl (cur s1)) then
        let s2 := advance s1 in
        let lp := node_pos s2 in
        do (args, s3) <- delimited_list f PArgs false s2;
        let le := node_pos s3 in
        let '(sp, s4) :=
          if at_kind s3 KDotDotDot then
            let s4 := advance s3 in (Some (tstart (cur s3), node_pos s4), s4)
          else (None, s3) in
        let s5 := want s4 KCloseParen in
        call_rest f (ECall e1 args lp le sp (epos e1) (node_pos s5)) s5
      else Some (e1, s1)
  end
with parse_primary (f : nat) (s : pst) : R :=
  match f with O => None | S f =>
    let t := cur s in
    if is_literal_start (tk t) then
      let s1 := advance s in Some (ELit (tk t) (tval t) (tstart t) (node_pos s1), s1)
    else if kind_eqb (tk t) KOpenParen then
      let s1 := advance s in
      do (x, s2) <- parse_expression f s1;
      let s3 := want s2 KCloseParen in
      Some (EParen x (tstart t) (node_pos s3), s3)
    else if kind_eqb (tk t) KOpenBracket then
      let s1 := advance s in
      let lp := node_pos s1 in
      do (es, s2) <- delimited_list f PArray false s1;
      let le := node_pos s2 in
      let s3 := want s2 KCloseBracket in
      Some (EArr es lp le (tstart t) (node_pos s3), s3)
    else Some (parse_identifier s C_Expression_expected)
  end
(* parseDelimitedList; [trailing] = the last thing consumed by the loop was a separating comma *)
with delimited_list (f : nat) (c : pctx) (trailing : bool) (s : pst) : option (list expr * pst) :=
  match f with O => None | S f =>
    if is_list_element c (tk (cur s)) then
      do (e, s1) <- parse_assign f s;
      if at_kind s1 KComma then
        match delimited_list f c true (advance s1) with
        | Some (es, s2) => Some (e :: es, s2)
        | None => None
        end
      else if is_list_terminator c (tk (cur s1)) then Some ([e], s1)
      else
        match delimited_list f c false (error_at_current s1 C_0_expected) with
        | Some (es, s2) => Some (e :: es, s2)
        | None => None
        end
    else if is_list_terminator c (tk (cur s)) then
      Some ([], if trailing then error_at_current s C_Trailing_comma else s)
    else delimited_list f c trailing (advance (error_at_current s (ctx_error c)))
  end.

(* ---------- entry point: ParseSourceCode ---------- *)

Inductive parse_result :=
| Accepted (e : expr)
| Rejected (first : diag) (all : list diag) (e : expr)   (* first diagnostic; all, oldest first *)
| OutOfFuel.

Definition parse_fuel (ntoks : nat) : nat := 40 * (ntoks + 2).

Definition parse_tokens (fuel : nat) (toks : list token) : parse_result :=
  match toks with
  | [] => OutOfFuel
  | t0 :: r =>
    let s0 := mkSt t0 r (add_diags [] (tdiags t0)) in
    match parse_expression fuel s0 with
    | None => OutOfFuel
    | Some (e, s1) =>
      (* end-of-input check: anything left over is reported at the current token *)
      let s2 := if at_kind s1 KEOF then s1 else error_at_current s1 C_0_expected in
      (* EndOfFileToken = parseToken(): consumes the current token, scanning one more *)
      let s2 := advance s2 in
      match rev (diags s2) with
      | [] => Accepted e
      | d :: ds => Rejected d (d :: ds) e
      end
    end
  end.

Definition parse_source (text : list Z) : parse_result :=
  match scan_all text with
  | None => OutOfFuel
  | Some toks => parse_tokens (parse_fuel (length toks)) toks
  end.
