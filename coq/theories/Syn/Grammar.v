(* The grammar of the formula language as constraints on position-free trees, and the token
   sequence a tree denotes.  A tree [x] is a derivation of the grammar iff [wf x]; [yield x] is the
   token sequence it derives.  Levels (loosest to tightest):
     0 comma | 1 assignment, conditional | 1 + p binary operator of ladder precedence p (1..10)
     12 prefix, typeof | 13 member access, call | 14 primary
   Left association = the left operand may be at the operator's own level, the right one must be
   tighter; right association (=, ?:) the other way round.  Definitions only. *)
From Formula Require Export Syn.Parser.

Definition slvl (x : sexpr) : Z :=
  match x with
  | SBin _ op _ =>
    if kind_eqb op KComma then 0 else if kind_eqb op KEquals then 1 else 1 + prec_of op
  | SCond _ _ _ => 1
  | SPrefix _ _ | STypeof _ => 12
  | SSel _ _ _ _ | SSelMissing _ _ | SCall _ _ _ => 13
  | _ => 14
  end.

Fixpoint wf (x : sexpr) : Prop :=
  match x with
  | SIdent k v => k = KIdent
  | SMissing => False
  | SLit k v => is_literal_start k = true
  | SPrefix op a => is_prefix_op op = true /\ wf a /\ 12 <= slvl a
  | STypeof a => wf a /\ 12 <= slvl a
  | SBin l op r =>
    wf l /\ wf r /\
    (if kind_eqb op KComma then 1 <= slvl r
     else if kind_eqb op KEquals then 2 <= slvl l /\ 1 <= slvl r
     else 0 < prec_of op /\ 1 + prec_of op <= slvl l /\ 1 + prec_of op < slvl r)
  | SCond c t f => wf c /\ wf t /\ wf f /\ 2 <= slvl c /\ 1 <= slvl t /\ 1 <= slvl f
  | SArr es => (fix all (l : list sexpr) : Prop :=
                  match l with [] => True | a :: t => wf a /\ 1 <= slvl a /\ all t end) es
  | SParen a => wf a
  | SSel a nk n asrt => wf a /\ 13 <= slvl a /\ is_identifier_kind nk = true
  | SSelMissing _ _ => False
  | SCall f args sp => wf f /\ 13 <= slvl f /\
                       (fix all (l : list sexpr) : Prop :=
                          match l with [] => True | a :: t => wf a /\ 1 <= slvl a /\ all t end) args
  end.

(* abstract token: kind, value, "must be on the line of the preceding token" *)
Definition atok := (kind * list Z * bool)%type.

Definition punct (k : kind) : atok := (k, [], false).

Fixpoint yield (x : sexpr) : list atok :=
  match x with
  | SIdent k v => [(k, v, false)]
  | SMissing => []
  | SLit k v => [(k, v, false)]
  | SPrefix op a => punct op :: yield a
  | STypeof a => (KTypeof, kw_typeof, false) :: yield a
  | SBin l op r => yield l ++ punct op :: yield r
  | SCond c t f => yield c ++ punct KQuestion :: yield t ++ punct KColon :: yield f
  | SArr es =>
    punct KOpenBracket ::
    (fix go (l : list sexpr) : list atok :=
       match l with
       | [] => []
       | [a] => yield a
       | a :: t => yield a ++ punct KComma :: go t
       end) es ++ [punct KCloseBracket]
  | SParen a => punct KOpenParen :: yield a ++ [punct KCloseParen]
  | SSel a nk n asrt => yield a ++ [((if asrt then KBangDot else KDot), [], true); (nk, n, false)]
  | SSelMissing a asrt => yield a ++ [((if asrt then KBangDot else KDot), [], true)]
  | SCall f args sp =>
    yield f ++ (KOpenParen, [], true) ::
    (fix go (l : list sexpr) : list atok :=
       match l with
       | [] => []
       | [a] => yield a
       | a :: t => yield a ++ punct KComma :: go t
       end) args ++ (if sp then [punct KDotDotDot] else []) ++ [punct KCloseParen]
  end.

Definition tok_matches (a : atok) (t : token) : Prop :=
  let '(k, v, same_line) := a in
  tk t = k /\ tval t = v /\ (same_line = true -> tnl t = false).

(* the token stream is exactly the tree's yield followed by the end-of-file token *)
Definition derives (x : sexpr) (toks : list token) : Prop :=
  Forall2 tok_matches (yield x ++ [punct KEOF]) toks.

(* token streams as the scanner produces them: the end-of-file token is last and only last *)
Definition stream_ok (toks : list token) : Prop :=
  exists pre t, toks = pre ++ [t] /\ tk t = KEOF /\ Forall (fun u => tk u <> KEOF) pre.

(* C01: an accepted tree is complete *)
Fixpoint complete (x : expr) : Prop :=
  match x with
  | EIdent _ v p e => v <> [] /\ p < e
  | EMissing _ => False
  | ELit _ _ _ _ => True
  | EPrefix _ _ _ a _ _ => complete a
  | ETypeof a _ _ => complete a
  | EBin l _ _ _ r _ _ => complete l /\ complete r
  | ECond c _ _ t colon _ _ f _ _ => complete c /\ complete t /\ colon = true /\ complete f
  | EArr es _ _ _ _ => (fix all (l : list expr) : Prop :=
                          match l with [] => True | a :: t => complete a /\ all t end) es
  | EParen a _ _ => complete a
  | ESel a nm _ _ _ => complete a /\ complete nm
  | ECall f args _ _ _ _ _ => complete f /\
                            (fix all (l : list expr) : Prop :=
                               match l with [] => True | a :: t => complete a /\ all t end) args
  end.

(* C15: source ranges nest: children lie inside the parent, in source order *)
Fixpoint nested (x : expr) : Prop :=
  epos x <= eend x /\
  match x with
  | EIdent _ _ _ _ | EMissing _ | ELit _ _ _ _ => True
  | EPrefix _ opp ope a p e => p <= opp /\ opp <= ope /\ ope <= epos a /\ eend a <= e /\ nested a
  | ETypeof a p e => p <= epos a /\ eend a <= e /\ nested a
  | EBin l _ opp ope r p e =>
    p <= epos l /\ eend l <= opp /\ opp <= ope /\ ope <= epos r /\ eend r <= e /\ nested l /\ nested r
  | ECond c qp qe t _ cp ce f p e =>
    p <= epos c /\ eend c <= qp /\ qp <= qe /\ qe <= epos t /\ eend t <= cp /\ cp <= ce /\
    ce <= epos f /\ eend f <= e /\ nested c /\ nested t /\ nested f
  | EArr es lp le p e =>
    p <= lp /\ lp <= le /\ le <= e /\
    (fix go (l : list expr) (from : Z) : Prop :=
       match l with [] => True | a :: t => from <= epos a /\ eend a <= le /\ nested a /\ go t (eend a) end) es lp
  | EParen a p e => p <= epos a /\ eend a <= e /\ nested a
  | ESel a nm _ p e => p <= epos a /\ eend a <= epos nm /\ eend nm <= e /\ nested a /\ nested nm
  | ECall f args lp le _ p e =>
    p <= epos f /\ eend f <= lp /\ lp <= le /\ le <= e /\ nested f /\
    (fix go (l : list expr) (from : Z) : Prop :=
       match l with [] => True | a :: t => from <= epos a /\ eend a <= le /\ nested a /\ go t (eend a) end) args lp
  end.
