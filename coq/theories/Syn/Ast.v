(* Syntax trees of types.go with source ranges, and the position-free view used by the
   grammar theorems.  Definitions only. *)
From Formula Require Export Lex.Scanner.

(* p e = Pos() End() of the node; op positions = the operator TokenNode's range *)
Inductive expr :=
| EIdent (orig : kind) (v : list Z) (p e : Z)
| EMissing (p : Z)                                  (* zero-width identifier created with a diagnostic *)
| ELit (k : kind) (v : list Z) (p e : Z)
| EPrefix (op : kind) (opp ope : Z) (x : expr) (p e : Z)
| ETypeof (x : expr) (p e : Z)
| EBin (l : expr) (op : kind) (opp ope : Z) (r : expr) (p e : Z)
| ECond (c : expr) (qp qe : Z) (t : expr) (colon : bool) (cp ce : Z) (f : expr) (p e : Z)
| EArr (es : list expr) (lp le : Z) (p e : Z)
| EParen (x : expr) (p e : Z)
| ESel (x : expr) (name : expr) (assert : bool) (p e : Z)
| ECall (f : expr) (args : list expr) (lp le : Z) (spread : option (Z * Z)) (p e : Z).

Definition epos (x : expr) : Z :=
  match x with
  | EIdent _ _ p _ | EMissing p | ELit _ _ p _ | EPrefix _ _ _ _ p _ | ETypeof _ p _
  | EBin _ _ _ _ _ p _ | ECond _ _ _ _ _ _ _ _ p _ | EArr _ _ _ p _ | EParen _ p _
  | ESel _ _ _ p _ | ECall _ _ _ _ _ p _ => p
  end.

Definition eend (x : expr) : Z :=
  match x with
  | EMissing p => p
  | EIdent _ _ _ e | ELit _ _ _ e | EPrefix _ _ _ _ _ e | ETypeof _ _ e
  | EBin _ _ _ _ _ _ e | ECond _ _ _ _ _ _ _ _ _ e | EArr _ _ _ _ e | EParen _ _ e
  | ESel _ _ _ _ e | ECall _ _ _ _ _ _ e => e
  end.

(* position-free trees *)
Inductive sexpr :=
| SIdent (k : kind) (v : list Z)
| SMissing
| SLit (k : kind) (v : list Z)
| SPrefix (op : kind) (x : sexpr)
| STypeof (x : sexpr)
| SBin (l : sexpr) (op : kind) (r : sexpr)
| SCond (c t f : sexpr)
| SArr (es : list sexpr)
| SParen (x : sexpr)
| SSel (x : sexpr) (nk : kind) (name : list Z) (assert : bool)
| SSelMissing (x : sexpr) (assert : bool)
| SCall (f : sexpr) (args : list sexpr) (spread : bool).

Fixpoint strip (x : expr) : sexpr :=
  match x with
  | EIdent k v _ _ => SIdent k v
  | EMissing _ => SMissing
  | ELit k v _ _ => SLit k v
  | EPrefix op _ _ a _ _ => SPrefix op (strip a)
  | ETypeof a _ _ => STypeof (strip a)
  | EBin l op _ _ r _ _ => SBin (strip l) op (strip r)
  | ECond c _ _ t _ _ _ f _ _ => SCond (strip c) (strip t) (strip f)
  | EArr es _ _ _ _ => SArr (map strip es)
  | EParen a _ _ => SParen (strip a)
  | ESel a (EIdent k v _ _) asrt _ _ => SSel (strip a) k v asrt
  | ESel a _ asrt _ _ => SSelMissing (strip a) asrt
  | ECall f args _ _ sp _ _ => SCall (strip f) (map strip args) (match sp with Some _ => true | None => false end)
  end.
