(* Bytes are Z values in 0..255; a text is a list of bytes.
   [decode_all] is the model of walking a []byte with utf8.DecodeRune and advancing by the
   returned size: it yields the list of decode steps (rune, bytes of the step).
   Every invalid byte is a step of its own with rune 0xFFFD (utf8.RuneError), size 1,
   exactly as Go's unicode/utf8 does (first-byte table + accept ranges).
   Definitions only; proofs are in Proofs/Utf8Facts.v. *)
From Coq Require Export List ZArith Bool Lia.
Export ListNotations.
Open Scope Z_scope.

Definition byte := Z.
Definition bytes := list Z.
Definition rune := Z.

Definition RuneError : Z := 65533.

Definition is_cont (b : Z) : bool := (128 <=? b) && (b <=? 191).
Definition in_rng (lo hi b : Z) : bool := (lo <=? b) && (b <=? hi).

(* one decode step: rune and the bytes it covers *)
Definition step := (Z * list Z)%type.
Definition step_rune (s : step) : Z := fst s.
Definition step_bytes (s : step) : list Z := snd s.
Definition step_size (s : step) : Z := Z.of_nat (length (snd s)).

Fixpoint decode_all (l : list Z) : list step :=
  match l with
  | [] => []
  | b0 :: t =>
    if b0 <? 128 then (b0, [b0]) :: decode_all t
    else if (b0 <? 194) || (244 <? b0) then (RuneError, [b0]) :: decode_all t
    else if b0 <? 224 then
      match t with
      | b1 :: t1 =>
        if is_cont b1 then ((b0 - 192) * 64 + (b1 - 128), [b0; b1]) :: decode_all t1
        else (RuneError, [b0]) :: decode_all t
      | [] => (RuneError, [b0]) :: decode_all t
      end
    else if b0 <? 240 then
      match t with
      | b1 :: t1 =>
        if in_rng (if b0 =? 224 then 160 else 128) (if b0 =? 237 then 159 else 191) b1 then
          match t1 with
          | b2 :: t2 =>
            if is_cont b2 then
              ((b0 - 224) * 4096 + (b1 - 128) * 64 + (b2 - 128), [b0; b1; b2]) :: decode_all t2
            else (RuneError, [b0]) :: decode_all t
          | [] => (RuneError, [b0]) :: decode_all t
          end
        else (RuneError, [b0]) :: decode_all t
      | [] => (RuneError, [b0]) :: decode_all t
      end
    else
      match t with
      | b1 :: t1 =>
        if in_rng (if b0 =? 240 then 144 else 128) (if b0 =? 244 then 143 else 191) b1 then
          match t1 with
          | b2 :: t2 =>
            if is_cont b2 then
              match t2 with
              | b3 :: t3 =>
                if is_cont b3 then
                  ((b0 - 240) * 262144 + (b1 - 128) * 4096 + (b2 - 128) * 64 + (b3 - 128),
                   [b0; b1; b2; b3]) :: decode_all t3
                else (RuneError, [b0]) :: decode_all t
              | [] => (RuneError, [b0]) :: decode_all t
              end
            else (RuneError, [b0]) :: decode_all t
          | [] => (RuneError, [b0]) :: decode_all t
          end
        else (RuneError, [b0]) :: decode_all t
      | [] => (RuneError, [b0]) :: decode_all t
      end
  end.

Definition steps_bytes (ss : list step) : list Z := concat (map snd ss).
Definition steps_len (ss : list step) : Z := Z.of_nat (length (steps_bytes ss)).

(* Go's utf8.EncodeRune / string(rune(r)) : surrogates and out-of-range become U+FFFD *)
Definition encode_rune (r : Z) : list Z :=
  if (r <? 0) || (1114111 <? r) || ((55296 <=? r) && (r <=? 57343)) then [239; 191; 189]
  else if r <? 128 then [r]
  else if r <? 2048 then [192 + r / 64; 128 + r mod 64]
  else if r <? 65536 then [224 + r / 4096; 128 + (r / 64) mod 64; 128 + r mod 64]
  else [240 + r / 262144; 128 + (r / 4096) mod 64; 128 + (r / 64) mod 64; 128 + r mod 64].

Definition blen (bs : list Z) : Z := Z.of_nat (length bs).

Definition is_byte (b : Z) : Prop := 0 <= b < 256.
