(* Model of scanner.go: ComputeLineStarts, BinarySearch, PositionFromOffsetWithCache,
   PositionToLineAndCharacter; and the specification-side direct count.
   Definitions only. *)
From Formula Require Export Base.Utf8 Lex.Chars.

(* ComputeLineStarts: the loop over decode steps; [pos] = offset of the head step,
   [ls] = start of the current line.  CR LF is one terminator. *)
Fixpoint ls_go (ss : list step) (pos ls : Z) : list Z :=
  match ss with
  | [] => [ls]
  | (r, bs) :: t =>
    let pos1 := pos + blen bs in
    if r =? 13 then
      match t with
      | (r2, _) :: t2 =>
        if r2 =? 10 then ls :: ls_go t2 (pos1 + 1) (pos1 + 1)
        else ls :: ls_go t pos1 pos1
      | [] => ls :: ls_go t pos1 pos1
      end
    else if r =? 10 then ls :: ls_go t pos1 pos1
    else if (127 <? r) && is_line_break r then ls :: ls_go t pos1 pos1
    else ls_go t pos1 ls
  end.

Definition line_starts (text : list Z) : list Z := ls_go (decode_all text) 0 0.

(* BinarySearch(array, value): index if found, else ^low = -low-1.  None = out of fuel. *)
Fixpoint bsearch (fuel : nat) (arr : list Z) (value low high : Z) : option Z :=
  match fuel with
  | O => None
  | S f =>
    if low <=? high then
      let middle := low + Z.shiftr (high - low) 1 in
      match nth_error arr (Z.to_nat middle) with
      | None => None     (* index out of range: a Go panic; excluded by bsearch_in_range *)
      | Some midValue =>
        if midValue =? value then Some middle
        else if value <? midValue then bsearch f arr value low (middle - 1)
        else bsearch f arr value (middle + 1) high
      end
    else Some (- low - 1)
  end.

Definition binary_search (arr : list Z) (value : Z) : option Z :=
  bsearch (S (length arr)) arr value 0 (blen arr - 1).

(* PositionFromOffsetWithCache; None = error / panic *)
Definition position_from_offset (offset : Z) (content : list Z) (starts : list Z) : option (Z * Z) :=
  if blen content <? offset then None
  else match binary_search starts offset with
       | None => None
       | Some n =>
         let line := if n <? 0 then (- n - 1) - 1 else n in
         if line <? 0 then None else
         match nth_error starts (Z.to_nat line) with
         | None => None
         | Some s => Some (line, offset - s)
         end
       end.

(* PositionToLineAndCharacter / GetFileLineAndCharacterFromPosition *)
Definition line_col (text : list Z) (offset : Z) : option (Z * Z) :=
  position_from_offset offset text (line_starts text).

(* ---- specification side: count the terminators that end at or before [off] ---- *)
(* a terminator is: CR LF (as one), a lone CR, LF, U+2028, U+2029, U+0085 *)
Definition is_terminator_rune (r : Z) : bool :=
  (r =? 10) || (r =? 13) || (r =? 8232) || (r =? 8233) || (r =? 133).

Fixpoint dcount (ss : list step) (pos line ls off : Z) : Z * Z :=
  match ss with
  | [] => (line, off - ls)
  | (r, bs) :: t =>
    let e := pos + blen bs in
    if is_terminator_rune r then
      match t with
      | (r2, bs2) :: t2 =>
        if (r =? 13) && (r2 =? 10) then
          if e + 1 <=? off then dcount t2 (e + 1) (line + 1) (e + 1) off else (line, off - ls)
        else
          if e <=? off then dcount t e (line + 1) e off else (line, off - ls)
      | [] => if e <=? off then dcount t e (line + 1) e off else (line, off - ls)
      end
    else dcount t e line ls off
  end.

Definition direct_count (text : list Z) (off : Z) : Z * Z :=
  dcount (decode_all text) 0 0 0 off.
