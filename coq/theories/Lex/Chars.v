(* Character classes of scanner.go: IsWhiteSpace, IsLineBreak, IsDigit, IsIdentifierStart,
   IsIdentifierPart, LookupInUnicodeMap (binary search over a flat range table).
   Definitions only. *)
From Formula Require Export Base.Utf8 Lex.UnicodeTables.

Definition is_white_space (r : Z) : bool :=
  (r =? 32) || (r =? 9) || (r =? 11) || (r =? 12) ||
  (r =? 160) || (r =? 5760) ||
  ((8192 <=? r) && (r <=? 8203)) ||
  (r =? 8239) || (r =? 8287) || (r =? 12288) || (r =? 65279).

Definition is_line_break (r : Z) : bool :=
  (r =? 13) || (r =? 10) || (r =? 8232) || (r =? 8233) || (r =? 133).

Definition is_digit (r : Z) : bool := (48 <=? r) && (r <=? 57).

Definition znth0 (l : list Z) (i : Z) : Z := nth (Z.to_nat i) l 0.

(* LookupInUnicodeMap: lo/hi are indices into the flat table; [mid] is forced even.
   None = out of fuel (excluded by lookup_total). *)
Fixpoint lookup_go (fuel : nat) (tbl : list Z) (code lo hi : Z) : option bool :=
  match fuel with
  | O => None
  | S f =>
    if lo + 1 <? hi then
      let mid0 := lo + (hi - lo) / 2 in
      let mid := mid0 - mid0 mod 2 in
      if (znth0 tbl mid <=? code) && (code <=? znth0 tbl (mid + 1)) then Some true
      else if code <? znth0 tbl mid then lookup_go f tbl code lo mid
      else lookup_go f tbl code (mid + 2) hi
    else Some false
  end.

Definition lookup_in_map (code : Z) (tbl : list Z) : option bool :=
  if code <? znth0 tbl 0 then Some false
  else lookup_go (S (length tbl)) tbl code 0 (Z.of_nat (length tbl)).

(* specification side: linear membership in the list of ranges *)
Fixpoint in_ranges (tbl : list Z) (code : Z) : bool :=
  match tbl with
  | lo :: hi :: t => ((lo <=? code) && (code <=? hi)) || in_ranges t code
  | _ => false
  end.

Definition lookup_b (code : Z) (tbl : list Z) : bool :=
  match lookup_in_map code tbl with Some b => b | None => false end.

Definition is_ascii_letter (r : Z) : bool :=
  ((65 <=? r) && (r <=? 90)) || ((97 <=? r) && (r <=? 122)).

Definition is_ident_start (r : Z) : bool :=
  is_ascii_letter r || (r =? 36) || (r =? 95) ||
  ((127 <? r) && lookup_b r es5_id_start).

Definition is_ident_part (r : Z) : bool :=
  is_ascii_letter r || is_digit r || (r =? 36) || (r =? 95) ||
  ((127 <? r) && lookup_b r es5_id_part).
