(* Case mapping of the builtins upper / lower (definitions only).
   strings.ToUpper / strings.ToLower map every character by the simple case mapping of the Unicode tables; a byte
   that is not part of a valid UTF-8 sequence becomes U+FFFD; everything else is re-encoded as it was. *)
From Coq Require Import ZArith List Bool.
From Formula Require Import Base.Utf8 Lex.CaseTables.
Import ListNotations.
Open Scope Z_scope.

Fixpoint case_delta (tbl : list (Z * Z * Z)) (r : Z) : Z :=
  match tbl with
  | [] => 0
  | (lo, hi, d) :: t => if (lo <=? r) && (r <=? hi) then d else case_delta t r
  end.

Definition to_upper_rune (r : Z) : Z := r + case_delta upper_ranges r.
Definition to_lower_rune (r : Z) : Z := r + case_delta lower_ranges r.

Definition map_runes (f : Z -> Z) (s : list Z) : list Z :=
  flat_map (fun p => encode_rune (f (fst p))) (decode_all s).

Definition upper_utf8 (s : list Z) : list Z := map_runes to_upper_rune s.
Definition lower_utf8 (s : list Z) : list Z := map_runes to_lower_rune s.

(* strings.TrimSpace beyond ASCII: leading and trailing characters with unicode.IsSpace are removed; a byte that
   is not valid UTF-8 decodes to U+FFFD, which is not a space, and stops the trimming *)
Definition is_unicode_space (r : Z) : bool :=
  (r =? 32) || ((9 <=? r) && (r <=? 13)) || (r =? 133) || (r =? 160) || (r =? 5760) || ((8192 <=? r) && (r <=? 8202)) ||
  (r =? 8232) || (r =? 8233) || (r =? 8239) || (r =? 8287) || (r =? 12288).

Fixpoint drop_space_steps (l : list step) : list step :=
  match l with
  | (r, bs) :: t => if is_unicode_space r then drop_space_steps t else l
  | [] => []
  end.

Definition trim_utf8 (s : list Z) : list Z :=
  steps_bytes (rev (drop_space_steps (rev (drop_space_steps (decode_all s))))).
