(* Model of scanner.go: Scan() and what it calls, over the list of decode steps of the text.
   A token records kind, value, the three positions (start of leading trivia, start of text,
   end), the preceding-line-break flag and the diagnostics the scanner raised while scanning it
   (start, length, code) in the order raised.  Definitions only. *)
From Formula Require Export Base.Utf8 Lex.Chars.

Inductive kind :=
| KUnknown | KEOF | KNumber | KString
| KOpenParen | KCloseParen | KOpenBracket | KCloseBracket | KDot | KDotDotDot | KComma
| KLt | KGt | KLe | KGe | KEqEq | KEqEqEq | KNe | KNeEq
| KPlus | KMinus | KAsterisk | KSlash | KPercent | KAmp | KBar | KCaret | KAmpAmp | KBarBar | KQQ
| KBang | KBangDot | KBangBang | KTilde | KQuestion | KColon
| KEquals
| KIdent | KTrue | KFalse | KNull | KThis | KCtx | KTypeof.

(* numeric value of the SyntaxKind constant (types.go) *)
Definition kind_code (k : kind) : Z :=
  match k with
  | KUnknown => 0 | KEOF => 1 | KNumber => 2 | KString => 3
  | KOpenParen => 4 | KCloseParen => 5 | KOpenBracket => 6 | KCloseBracket => 7
  | KDot => 8 | KDotDotDot => 9 | KComma => 10
  | KLt => 11 | KGt => 12 | KLe => 13 | KGe => 14 | KEqEq => 15 | KEqEqEq => 16 | KNe => 17 | KNeEq => 18
  | KPlus => 19 | KMinus => 20 | KAsterisk => 21 | KSlash => 22 | KPercent => 23
  | KAmp => 24 | KBar => 25 | KCaret => 26 | KAmpAmp => 27 | KBarBar => 28 | KQQ => 29
  | KBang => 30 | KBangDot => 31 | KBangBang => 32 | KTilde => 33 | KQuestion => 34 | KColon => 35
  | KEquals => 36
  | KIdent => 48 | KTrue => 49 | KFalse => 50 | KNull => 51 | KThis => 52 | KCtx => 53 | KTypeof => 54
  end.

Definition kind_eqb (a b : kind) : bool := kind_code a =? kind_code b.

Definition all_kinds : list kind :=
  [KUnknown; KEOF; KNumber; KString; KOpenParen; KCloseParen; KOpenBracket; KCloseBracket; KDot;
   KDotDotDot; KComma; KLt; KGt; KLe; KGe; KEqEq; KEqEqEq; KNe; KNeEq; KPlus; KMinus; KAsterisk;
   KSlash; KPercent; KAmp; KBar; KCaret; KAmpAmp; KBarBar; KQQ; KBang; KBangDot; KBangBang; KTilde;
   KQuestion; KColon; KEquals; KIdent; KTrue; KFalse; KNull; KThis; KCtx; KTypeof].

(* diagnostic: start, length, code *)
Definition diag := (Z * Z * Z)%type.
Definition dstart (d : diag) : Z := fst (fst d).
Definition dlen (d : diag) : Z := snd (fst d).
Definition dcode (d : diag) : Z := snd d.

Definition C_Invalid_character := 1127.
Definition C_Digit_expected := 1124.
Definition C_0_expected := 1005.
Definition C_Identifier_expected := 1003.
Definition C_Hexadecimal_digit_expected := 1125.
Definition C_Expression_expected := 1109.
Definition C_Argument_expression_expected := 1135.
Definition C_Expression_or_comma_expected := 1137.
Definition C_Unexpected_end_of_text := 1126.
Definition C_Unterminated_string_literal := 1002.
Definition C_Multiple_separators := 1301.
Definition C_Separators_not_allowed := 1302.
Definition C_Identifier_after_number := 1302.
Definition C_Trailing_comma := 1009.

Record token := mkTok {
  tk : kind; tval : list Z; tstart : Z; tpos : Z; tend : Z; tnl : bool; tdiags : list diag }.

(* peekEqual(n, c): is the n-th character from the current position equal to c? *)
Definition rune_is (n : nat) (c : Z) (ss : list step) : bool :=
  match nth_error ss n with Some (r, _) => r =? c | None => false end.

Definition rune_sat (n : nat) (f : Z -> bool) (ss : list step) : bool :=
  match nth_error ss n with Some (r, _) => f r | None => false end.

(* the characters that have their own case in Scan()'s switch *)
Definition is_explicit_char (r : Z) : bool :=
  (r =? 33) || (r =? 34) || (r =? 39) || (r =? 38) || (r =? 40) || (r =? 41) || (r =? 37) ||
  (r =? 42) || (r =? 43) || (r =? 44) || (r =? 45) || (r =? 46) || (r =? 47) || is_digit r ||
  (r =? 58) || (r =? 60) || (r =? 61) || (r =? 62) || (r =? 63) || (r =? 91) || (r =? 93) ||
  (r =? 94) || (r =? 124) || (r =? 126).

(* 0 = token starts here, 1 = whitespace, 2 = line break *)
Definition trivia_class (r : Z) : Z :=
  if (r =? 10) || (r =? 13) then 2
  else if (r =? 9) || (r =? 11) || (r =? 12) || (r =? 32) then 1
  else if is_explicit_char r then 0
  else if is_ident_start r then 0
  else if is_white_space r then 1
  else if is_line_break r then 2
  else 0.

Fixpoint skip_trivia (ss : list step) (pos : Z) (nl : bool) : list step * Z * bool :=
  match ss with
  | [] => ([], pos, nl)
  | (r, bs) :: t =>
    let c := trivia_class r in
    if c =? 2 then skip_trivia t (pos + blen bs) true
    else if c =? 1 then skip_trivia t (pos + blen bs) nl
    else (ss, pos, nl)
  end.

(* ---------- numbers ---------- *)

(* scanNumberFragment: digits with single separators; returns digits (separators removed),
   rest, end position, diagnostics, and whether a separator was seen *)
Fixpoint scan_frag (ss : list step) (pos : Z) (allow isprev : bool) (ustart : Z)
         (acc : list Z) (ds : list diag) (sep : bool)
  : list Z * list step * Z * list diag * bool :=
  match ss with
  | (r, bs) :: t =>
    if r =? 95 then
      let ds' := if allow then ds
                 else if isprev then ds ++ [(pos, 1, C_Multiple_separators)]
                 else ds ++ [(pos, 1, C_Separators_not_allowed)] in
      scan_frag t (pos + blen bs) false (if allow then true else isprev) pos acc ds' true
    else if is_digit r then scan_frag t (pos + blen bs) true false ustart (acc ++ [r]) ds sep
    else (acc, ss, pos, if isprev then ds ++ [(ustart, 1, C_Separators_not_allowed)] else ds, sep)
  | [] => (acc, ss, pos, if isprev then ds ++ [(ustart, 1, C_Separators_not_allowed)] else ds, sep)
  end.

Definition fragment (ss : list step) (pos : Z) := scan_frag ss pos false false 0 [] [] false.

(* scanIdentifierParts as used after a numeric literal: the run of identifier-part characters *)
Fixpoint ident_run (ss : list step) (pos : Z) (acc : list Z) : list Z * list step * Z :=
  match ss with
  | (r, bs) :: t => if is_ident_part r then ident_run t (pos + blen bs) (acc ++ bs) else (acc, ss, pos)
  | [] => (acc, ss, pos)
  end.

Definition is_e (r : Z) : bool := (r =? 101) || (r =? 69).
Definition is_sign (r : Z) : bool := (r =? 43) || (r =? 45).

(* raw bytes of the first n steps *)
Definition take_bytes (n : nat) (ss : list step) : list Z := steps_bytes (firstn n ss).

(* scanNumber + checkForIdentifierStartAfterNumericLiteral.
   Returns value, rest, end position, diagnostics. *)
Definition scan_number (ss : list step) (pos : Z) : list Z * list step * Z * list diag :=
  let '(main, ss1, p1, d1, sep1) := fragment ss pos in
  (* optional fraction *)
  let '(hasdot, dec, ss2, p2, d2, sep2) :=
    match ss1 with
    | (r, bs) :: t =>
      if r =? 46 then
        let '(dec, ss2, p2, d2, sep2) := fragment t (p1 + blen bs) in (true, dec, ss2, p2, d2, sep2)
      else (false, [], ss1, p1, [], false)
    | [] => (false, [], ss1, p1, [], false)
    end in
  (* raw text of main and fraction parts, as they stand in the source *)
  let rawlen := (length ss - length ss2)%nat in
  let raw_main := take_bytes rawlen ss in
  (* optional exponent *)
  let '(sci, raw_sci, ss3, p3, d3, sep3) :=
    match ss2 with
    | (r, bs) :: t =>
      if is_e r then
        let pe := p2 + blen bs in
        let '(sgn, t2, ps) :=
          match t with
          | (r2, bs2) :: t' => if is_sign r2 then (bs ++ bs2, t', pe + blen bs2) else (bs, t, pe)
          | [] => (bs, t, pe)
          end in
        let '(fin, ss3, p3, d3, sep3) := fragment t2 ps in
        match fin with
        | [] => ([], [], ss3, p3, d3 ++ [(p3, 0, C_Digit_expected)], sep3)
        | _ => (sgn ++ fin, take_bytes (length ss2 - length ss3) ss2, ss3, p3, d3, sep3)
        end
      else ([], [], ss2, p2, [], false)
    | [] => ([], [], ss2, p2, [], false)
    end in
  let value :=
    if sep1 || sep2 || sep3 then
      main ++ (match dec with [] => [] | _ => 46 :: dec end) ++ sci
    else raw_main ++ raw_sci in
  let ds := d1 ++ d2 ++ d3 in
  (* identifier directly after the literal: report, do not consume *)
  let ds' :=
    match ss3 with
    | (r, _) :: _ =>
      if is_ident_start r then
        let '(run, _, _) := ident_run ss3 p3 [] in ds ++ [(p3, blen run, C_Identifier_after_number)]
      else ds
    | [] => ds
    end in
  (value, ss3, p3, ds').

Definition is_hex_digit (r : Z) : bool :=
  is_digit r || ((97 <=? r) && (r <=? 102)) || ((65 <=? r) && (r <=? 70)).

Definition hex_lower (r : Z) : Z := if (65 <=? r) && (r <=? 70) then r + 32 else r.

Definition hex_val (r : Z) : Z :=
  if is_digit r then r - 48 else hex_lower r - 87.

(* decimal spelling of a non-negative integer (big.Int.String) *)
Fixpoint dec_digits_go (fuel : nat) (c : Z) (acc : list Z) : list Z :=
  match fuel with
  | O => acc
  | S f => if c <? 10 then (48 + c) :: acc else dec_digits_go f (c / 10) ((48 + c mod 10) :: acc)
  end.

Definition dec_digits (c : Z) : list Z :=
  if c <=? 0 then [48] else dec_digits_go (S (Z.to_nat (Z.log2 c))) c [].

(* the integer denoted by a list of (lower-case) hexadecimal digit characters, and its decimal spelling *)
Definition hex_value (hv : list Z) : Z := fold_left (fun acc d => acc * 16 + hex_val d) hv 0.
Definition hex_value_digits (hv : list Z) : list Z := dec_digits (hex_value hv).

(* scanHexDigits(count, scanAsManyAsPossible = true, canHaveSeparators = false) *)
Fixpoint hex_run (ss : list step) (pos : Z) (acc : list Z) : list Z * list step * Z :=
  match ss with
  | (r, bs) :: t => if is_hex_digit r then hex_run t (pos + blen bs) (acc ++ [hex_lower r]) else (acc, ss, pos)
  | [] => (acc, ss, pos)
  end.

(* ---------- strings ---------- *)

Inductive sstate :=
| SNormal
| SEsc                                  (* just after a backslash *)
| SHex (rem : nat) (got : nat) (v : Z)   (* inside \x / \u: digits still allowed, digits seen, value *)
| SSkip (n : nat).                       (* skip n+1 more characters (the CR look-ahead quirk) *)

Definition finish_hex (got : nat) (v pos : Z) (acc : list Z) (ds : list diag) : list Z * list diag :=
  match got with
  | O => (acc, ds ++ [(pos, 0, C_Hexadecimal_digit_expected)])
  | _ => (acc ++ encode_rune v, ds)
  end.

(* returns value, rest, end position, diagnostics *)
Fixpoint scan_str (ss : list step) (pos : Z) (q : Z) (st : sstate) (acc : list Z) (ds : list diag)
  : list Z * list step * Z * list diag :=
  match ss with
  | [] =>
    match st with
    | SHex _ got v =>
      let '(acc', ds') := finish_hex got v pos acc ds in
      (acc', [], pos, ds' ++ [(pos, 0, C_Unexpected_end_of_text)])
    | SEsc => (acc, [], pos, ds ++ [(pos, 0, C_Unexpected_end_of_text); (pos, 0, C_Unexpected_end_of_text)])
    | _ => (acc, [], pos, ds ++ [(pos, 0, C_Unexpected_end_of_text)])
    end
  | (r, bs) :: t =>
    let pos1 := pos + blen bs in
    (* leave the hex state when this character does not continue it *)
    let '(st1, acc1, ds1) :=
      match st with
      | SHex rem got v =>
        match rem with
        | S _ => if is_hex_digit r then (st, acc, ds)
                 else let '(a, d) := finish_hex got v pos acc ds in (SNormal, a, d)
        | O => let '(a, d) := finish_hex got v pos acc ds in (SNormal, a, d)
        end
      | _ => (st, acc, ds)
      end in
    match st1 with
    | SHex rem got v => scan_str t pos1 q (SHex (pred rem) (S got) (v * 16 + hex_val r)) acc1 ds1
    | SSkip n => scan_str t pos1 q (match n with O => SNormal | S m => SSkip m end) acc1 ds1
    | SEsc =>
      if r =? 48 then scan_str t pos1 q SNormal (acc1 ++ [0]) ds1
      else if r =? 98 then scan_str t pos1 q SNormal (acc1 ++ [8]) ds1
      else if r =? 116 then scan_str t pos1 q SNormal (acc1 ++ [9]) ds1
      else if r =? 110 then scan_str t pos1 q SNormal (acc1 ++ [10]) ds1
      else if r =? 118 then scan_str t pos1 q SNormal (acc1 ++ [11]) ds1
      else if r =? 102 then scan_str t pos1 q SNormal (acc1 ++ [12]) ds1
      else if r =? 114 then scan_str t pos1 q SNormal (acc1 ++ [13]) ds1
      else if r =? 39 then scan_str t pos1 q SNormal (acc1 ++ [39]) ds1
      else if r =? 34 then scan_str t pos1 q SNormal (acc1 ++ [34]) ds1
      else if r =? 117 then scan_str t pos1 q (SHex 4 0 0) acc1 ds1
      else if r =? 120 then scan_str t pos1 q (SHex 2 0 0) acc1 ds1
      else if r =? 13 then
        (* peekEqual(1, LF) from the position after the CR: the character after the next one *)
        if rune_is 1 10 t then scan_str t pos1 q (SSkip 1) acc1 ds1
        else scan_str t pos1 q SNormal acc1 ds1
      else if (r =? 10) || (r =? 8232) || (r =? 8233) then scan_str t pos1 q SNormal acc1 ds1
      else scan_str t pos1 q SNormal (acc1 ++ encode_rune r) ds1
    | SNormal =>
      if r =? q then (acc1, t, pos1, ds1)
      else if r =? 92 then scan_str t pos1 q SEsc acc1 ds1
      else if is_line_break r then (acc1, ss, pos, ds1 ++ [(pos, 0, C_Unterminated_string_literal)])
      else scan_str t pos1 q SNormal (acc1 ++ bs) ds1
    end
  end.

(* ---------- identifiers and keywords ---------- *)

Fixpoint bytes_eqb (a b : list Z) : bool :=
  match a, b with
  | [], [] => true
  | x :: a', y :: b' => (x =? y) && bytes_eqb a' b'
  | _, _ => false
  end.

Definition kw_true := [116; 114; 117; 101].
Definition kw_false := [102; 97; 108; 115; 101].
Definition kw_null := [110; 117; 108; 108].
Definition kw_this := [116; 104; 105; 115].
Definition kw_ctx := [99; 116; 120].
Definition kw_typeof := [116; 121; 112; 101; 111; 102].

Definition keyword_table : list (list Z * kind) :=
  [(kw_true, KTrue); (kw_false, KFalse); (kw_null, KNull); (kw_this, KThis); (kw_ctx, KCtx);
   (kw_typeof, KTypeof)].

Fixpoint assoc_bytes (k : list Z) (tbl : list (list Z * kind)) : option kind :=
  match tbl with
  | [] => None
  | (w, v) :: t => if bytes_eqb k w then Some v else assoc_bytes k t
  end.

Definition ident_kind (v : list Z) : kind :=
  match assoc_bytes v keyword_table with Some k => k | None => KIdent end.

(* ---------- Scan() ---------- *)

Definition scan_one (ss : list step) (pos : Z) : token * list step :=
  let '(ss1, p1, nl) := skip_trivia ss pos false in
  match ss1 with
  | [] => (mkTok KEOF [] pos p1 p1 nl [], [])
  | (r, bs) :: t =>
    let simple (k : kind) (n : nat) :=
      (mkTok k [] pos p1 (p1 + steps_len (firstn n ss1)) nl [], skipn n ss1) in
    let number :=
      let '(v, rest, e, ds) := scan_number ss1 p1 in (mkTok KNumber v pos p1 e nl ds, rest) in
    if r =? 33 then
      if rune_is 1 61 ss1 then (if rune_is 2 61 ss1 then simple KNeEq 3%nat else simple KNe 2%nat)
      else if rune_is 1 33 ss1 then simple KBangBang 2%nat
      else if rune_is 1 46 ss1 then simple KBangDot 2%nat
      else simple KBang 1%nat
    else if (r =? 34) || (r =? 39) then
      let '(v, rest, e, ds) := scan_str t (p1 + blen bs) r SNormal [] [] in
      (mkTok KString v pos p1 e nl ds, rest)
    else if r =? 38 then (if rune_is 1 38 ss1 then simple KAmpAmp 2%nat else simple KAmp 1%nat)
    else if r =? 40 then simple KOpenParen 1%nat
    else if r =? 41 then simple KCloseParen 1%nat
    else if r =? 37 then simple KPercent 1%nat
    else if r =? 42 then simple KAsterisk 1%nat
    else if r =? 43 then simple KPlus 1%nat
    else if r =? 44 then simple KComma 1%nat
    else if r =? 45 then simple KMinus 1%nat
    else if r =? 46 then
      if rune_sat 1 is_digit ss1 then number
      else if rune_is 1 46 ss1 && rune_is 2 46 ss1 then simple KDotDotDot 3%nat
      else simple KDot 1%nat
    else if r =? 47 then simple KSlash 1%nat
    else if r =? 48 then
      if (2 <? steps_len (firstn 3 ss1)) && rune_sat 1 (fun c => (c =? 120) || (c =? 88)) ss1 then
        let p2 := p1 + steps_len (firstn 2 ss1) in
        let '(hv, rest, e) := hex_run (skipn 2 ss1) p2 [] in
        match hv with
        | [] => (mkTok KNumber [48] pos p1 e nl [(e, 0, C_Hexadecimal_digit_expected)], rest)
        | _ => (mkTok KNumber (hex_value_digits hv) pos p1 e nl [], rest)
        end
      else number
    else if is_digit r then number
    else if r =? 58 then simple KColon 1%nat
    else if r =? 60 then (if rune_is 1 61 ss1 then simple KLe 2%nat else simple KLt 1%nat)
    else if r =? 61 then
      if rune_is 1 61 ss1 then (if rune_is 2 61 ss1 then simple KEqEqEq 3%nat else simple KEqEq 2%nat)
      else simple KEquals 1%nat
    else if r =? 62 then (if rune_is 1 61 ss1 then simple KGe 2%nat else simple KGt 1%nat)
    else if r =? 63 then (if rune_is 1 63 ss1 then simple KQQ 2%nat else simple KQuestion 1%nat)
    else if r =? 91 then simple KOpenBracket 1%nat
    else if r =? 93 then simple KCloseBracket 1%nat
    else if r =? 94 then simple KCaret 1%nat
    else if r =? 124 then (if rune_is 1 124 ss1 then simple KBarBar 2%nat else simple KBar 1%nat)
    else if r =? 126 then simple KTilde 1%nat
    else if is_ident_start r then
      let '(v, rest, e) := ident_run t (p1 + blen bs) bs in
      (mkTok (ident_kind v) v pos p1 e nl [], rest)
    else
      (mkTok KUnknown [] pos p1 (p1 + blen bs) nl [(p1, 0, C_Invalid_character)], t)
  end.

(* the whole token stream; the last token is the end-of-file token.  Fuel = number of
   steps + 1 suffices because every non-EOF token consumes at least one step
   (Proofs/ScannerFacts.v: scan_all_total). *)
Fixpoint scan_all_go (fuel : nat) (ss : list step) (pos : Z) : option (list token) :=
  match fuel with
  | O => None
  | S f =>
    let '(tok, rest) := scan_one ss pos in
    match tk tok with
    | KEOF => Some [tok]
    | _ => match scan_all_go f rest (tend tok) with
           | Some l => Some (tok :: l)
           | None => None
           end
    end
  end.

Definition scan_all (text : list Z) : option (list token) :=
  let ss := decode_all text in scan_all_go (S (length ss)) ss 0.
