(* Specification-side definitions for the scanner properties (C14, C12, C13).  Definitions only. *)
From Formula Require Export Lex.Scanner.

(* a step is trivia when its rune is ES whitespace or an ES line terminator *)
Definition is_trivia_step (s : step) : bool := is_white_space (fst s) || is_line_break (fst s).

(* tokens tile [from, to): contiguous, in order, each non-EOF token advances,
   start <= text start <= end, the last token is the end-of-file token and ends at [to] *)
Fixpoint tiles (toks : list token) (from to : Z) : Prop :=
  match toks with
  | [] => False
  | [t] => tk t = KEOF /\ tstart t = from /\ tstart t <= tpos t /\ tpos t = tend t /\ tend t = to
  | t :: rest =>
    tk t <> KEOF /\ tstart t = from /\ tstart t <= tpos t /\ tpos t < tend t /\ tiles rest (tend t) to
  end.

(* the operator lexemes of the language, longest first within each first character *)
Definition op_lexemes : list (list Z * kind) :=
  [([33; 61; 61], KNeEq); ([33; 61], KNe); ([33; 33], KBangBang); ([33; 46], KBangDot); ([33], KBang);
   ([38; 38], KAmpAmp); ([38], KAmp);
   ([40], KOpenParen); ([41], KCloseParen); ([37], KPercent); ([42], KAsterisk); ([43], KPlus);
   ([44], KComma); ([45], KMinus);
   ([46; 46; 46], KDotDotDot); ([46], KDot);
   ([47], KSlash); ([58], KColon);
   ([60; 61], KLe); ([60], KLt);
   ([61; 61; 61], KEqEqEq); ([61; 61], KEqEq); ([61], KEquals);
   ([62; 61], KGe); ([62], KGt);
   ([63; 63], KQQ); ([63], KQuestion);
   ([91], KOpenBracket); ([93], KCloseBracket); ([94], KCaret);
   ([124; 124], KBarBar); ([124], KBar); ([126], KTilde)].

Fixpoint runes_prefix (lex : list Z) (ss : list step) : bool :=
  match lex, ss with
  | [], _ => true
  | c :: lex', (r, _) :: ss' => (r =? c) && runes_prefix lex' ss'
  | _ :: _, [] => false
  end.

(* all lexemes that are a prefix of the input, and the longest of them *)
Definition matching_lexemes (ss : list step) : list (list Z * kind) :=
  filter (fun lk => runes_prefix (fst lk) ss) op_lexemes.

Fixpoint longest (l : list (list Z * kind)) (best : option (list Z * kind)) : option (list Z * kind) :=
  match l with
  | [] => best
  | lk :: t =>
    match best with
    | Some b => if (length (fst b) <? length (fst lk))%nat then longest t (Some lk) else longest t best
    | None => longest t (Some lk)
    end
  end.

Definition longest_match (ss : list step) : option (list Z * kind) := longest (matching_lexemes ss) None.

(* the first character is an operator character that cannot start a number *)
Definition starts_operator (ss : list step) : bool :=
  match ss with
  | (r, _) :: _ =>
    match longest_match ss with
    | Some _ => negb ((r =? 46) && rune_sat 1 is_digit ss)
    | None => false
    end
  | [] => false
  end.
