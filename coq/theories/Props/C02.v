(* C02  The tree follows the grammar: precedence, associativity, binding, rejection.
   The grammar is Syn/Grammar.v: `wf x` = "x is a derivation" (the ladder
   || ?? < && < | < ^ < & < == != === !== < < > <= >= < + - < * / % with left association,
   prefix operators and typeof tighter than every binary operator and looser than member access
   and calls, ?: and = right-associative below all binary operators, `,` loosest; brackets,
   parentheses and argument lists nest as written), `yield x` = the token sequence it derives
   (with "same line" required of `.`, `!.` and a call's `(`), `derives x toks`.
   Property theorems only; every proof is `exact` a lemma of Proofs/. *)
From Formula Require Import Syn.Parser Syn.Grammar Proofs.ParserSound Proofs.ParserComplete
     Proofs.SourceFacts Tie.TablesTie.

(* SOUNDNESS: every accepted input is derivable from the grammar, and the tree returned is a
   derivation of exactly its token sequence.  (Contrapositive: any token sequence not derivable
   from the grammar is rejected with an error.) *)
Theorem C02_parse_sound : forall text e,
  parse_source text = Accepted e ->
  exists toks, scan_all text = Some toks /\ wf (strip e) /\ derives (strip e) toks.
Proof. exact parse_source_sound. Qed.

(* COMPLETENESS: every token stream derivable from the grammar is accepted, and the tree built is
   exactly that derivation - so binary operators group by the ladder and associate to the left,
   prefix binds tighter than binary and looser than postfix, ?: and = nest to the right, a prefix
   expression may start a list element, etc.: all of these are facts about `wf`. *)
Theorem C02_parse_complete : forall (x : sexpr) (toks : list token),
  wf x -> derives x toks -> Forall (fun t => tdiags t = []) toks ->
  exists e, parse_tokens (parse_fuel (length toks)) toks = Accepted e /\ strip e = x.
Proof. exact parse_complete. Qed.

Theorem C02_source_parse_complete : forall x text toks,
  scan_all text = Some toks -> wf x -> derives x toks -> Forall (fun t => tdiags t = []) toks ->
  exists e, parse_source text = Accepted e /\ strip e = x.
Proof. exact source_parse_complete. Qed.

(* the grammar is unambiguous: "the tree its grammar determines" is well defined *)
Theorem C02_derivation_unique : forall x y toks,
  wf x -> wf y -> derives x toks -> derives y toks ->
  Forall (fun t => tdiags t = []) toks -> x = y.
Proof. exact derivation_unique. Qed.

(* acceptance = derivability *)
Theorem C02_accept_iff_derivable : forall text toks,
  scan_all text = Some toks -> Forall (fun t => tdiags t = []) toks ->
  ((exists e, parse_source text = Accepted e) <-> (exists x, wf x /\ derives x toks)).
Proof. exact source_accept_iff_derivable. Qed.

(* the precedence ladder, the list-element gates and the terminator sets used by the model are the
   ones of the code at hand (regenerated from /repo on every run) *)
Theorem C02_tables_are_the_codes : kind_table_ok = true.
Proof. exact kind_table_tie. Qed.

Print Assumptions C02_parse_sound.
Print Assumptions C02_parse_complete.
Print Assumptions C02_source_parse_complete.
Print Assumptions C02_derivation_unique.
Print Assumptions C02_accept_iff_derivable.
Print Assumptions C02_tables_are_the_codes.
