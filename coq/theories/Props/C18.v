(* C18 - Numeric builtins and bit operators compute what their names say.
   Numbers are decimals `Fin neg c e` = (-1)^neg * c * 10^e (c >= 0: `dec_wf`), `Inf neg`, `NaN`
   (Num/Dec.v).  `dec_val x : Q` is the rational a finite decimal denotes:
       dec_val (Fin n c e) = inject_Z (if n then -c else c) * 10^e
   `is_integer_dec r` = finite with exponent >= 0.  `builtin_apply off name args` /
   `builtin_call` (max, min) are the model's semantics of the builtin `name` on converted
   arguments; `arith` / `unary_op` the semantics of the binary / prefix operators (Sem/Eval.v).
   Text: `num_of_text s` (Num/Dec.v) is the evaluator's string->number coercion (convToNumber, toInt
   and toFloat on a string): the decimal library's SetString `dec_of_string` restricted to the texts
   the evaluator's own check `is_decimal_text` accepts.  From Proofs/NumTextFacts.v:
     is_digits l        every byte of l is an ASCII digit 48..57
     dval l             the base-10 number spelled by the digit bytes l (a fold, most significant first)
     sign_text sg neg   sg is empty, "+" (neg = false) or "-" (neg = true)
     frac_text ft fp    ft is empty (fp = []) or "." followed by the digits fp (possibly none)
     exp_text et ev     et is empty (ev = 0) or 'e' / 'E', an optional sign and at least one digit (ev: its value)
     numeral s neg ip fp ev   s = sign ++ ip ++ fraction ++ exponent with ip ++ fp not empty
     decimal_text s     s is a numeral for some neg ip fp ev
     spells_infinity s  the text after an optional sign is, ignoring ASCII case, "inf" or "infinity"
     starts_minus s     the first byte of s is '-'
   NOT COVERED: exp, ln, log (the model answers Unk: transcendental_not_modelled);
   abs of more than 34 digits, ceil beyond 10^16 (16-digit rounding, see
   ceil_refuted_beyond_16_digits); the bit operators outside the int64 range (Unk). *)
From Coq Require Import String Ascii QArith Qabs.
From Formula Require Import Num.Sqrt Sem.Eval Proofs.DecVal Proofs.NumTextFacts Proofs.BuiltinNumFacts Proofs.SqrtFacts.
Local Open Scope Z_scope.

(* ---- the value function used below, spelled out ---- *)

Theorem dec_val_def : forall n c e,
  (dec_val (Fin n c e) == inject_Z (if n then - c else c) * Qpower (inject_Z 10) e)%Q.
Proof. exact BuiltinNumFacts.dec_val_def. Qed.

(* the model's comparison dec_cmp is the comparison of the denoted rationals *)
Theorem dec_cmp_val : forall n1 c1 e1 n2 c2 e2,
  let x := Fin n1 c1 e1 in let y := Fin n2 c2 e2 in
  (dec_cmp x y = -1 <-> (dec_val x < dec_val y)%Q) /\
  (dec_cmp x y = 0 <-> (dec_val x == dec_val y)%Q) /\
  (dec_cmp x y = 1 <-> (dec_val y < dec_val x)%Q).
Proof. exact BuiltinNumFacts.dec_cmp_val. Qed.

(* ---- abs returns |x| (operands of at most 34 digits are not rounded) ---- *)

Theorem abs_spec : forall off n c e, 0 <= c -> ndigits c <= 34 ->
  builtin_apply off (str "abs") [VNum (Fin n c e)] = Ok (VNum (Fin false c e)) /\
  (dec_val (Fin false c e) == Qabs (dec_val (Fin n c e)))%Q.
Proof. exact BuiltinNumFacts.abs_spec. Qed.

Theorem abs_nonfinite : forall off,
  builtin_apply off (str "abs") [VNum (Inf true)] = Ok (VNum (Inf false)) /\
  builtin_apply off (str "abs") [VNum (Inf false)] = Ok (VNum (Inf false)) /\
  builtin_apply off (str "abs") [VNum NaN] = Ok (VNum NaN).
Proof. exact BuiltinNumFacts.abs_nonfinite. Qed.

(* ---- floor: the greatest integer <= x, for every finite x ---- *)

Theorem floor_spec : forall off x, is_finite x = true -> dec_wf x = true -> exists r,
  builtin_apply off (str "floor") [VNum x] = Ok (VNum r) /\
  is_integer_dec r = true /\
  (dec_val r <= dec_val x)%Q /\ (dec_val x < dec_val r + 1)%Q /\
  (forall z : Z, (inject_Z z <= dec_val x)%Q -> (inject_Z z <= dec_val r)%Q).
Proof. exact BuiltinNumFacts.floor_spec. Qed.

Theorem floor_nonfinite : forall off,
  builtin_apply off (str "floor") [VNum (Inf true)] = Ok (VNum (Inf true)) /\
  builtin_apply off (str "floor") [VNum (Inf false)] = Ok (VNum (Inf false)) /\
  builtin_apply off (str "floor") [VNum NaN] = Ok (VNum NaN).
Proof. exact BuiltinNumFacts.floor_nonfinite. Qed.

(* ---- ceil: the least integer >= x, for |x| <= 10^16 - 1 ---- *)

(* FULL STATEMENT (false of the model, see the witness below):
     forall finite x, ceil x is an integer r with x <= r < x + 1.
   The code computes Ceil in Context64, whose final Neg rounds to 16 digits. *)
Theorem ceil_spec : forall off x, is_finite x = true -> dec_wf x = true ->
  (Qabs (dec_val x) <= inject_Z (10 ^ 16 - 1))%Q -> exists r,
  builtin_apply off (str "ceil") [VNum x] = Ok (VNum r) /\
  is_integer_dec r = true /\
  (dec_val x <= dec_val r)%Q /\ (dec_val r < dec_val x + 1)%Q /\
  (forall z : Z, (dec_val x <= inject_Z z)%Q -> (dec_val r <= inject_Z z)%Q).
Proof. exact BuiltinNumFacts.ceil_spec. Qed.

(* witness: ceil(10000000000000001) = 1.000000000000000E+16, which is smaller than the argument *)
Theorem ceil_refuted_beyond_16_digits : exists x r,
  is_finite x = true /\ dec_wf x = true /\
  builtin_apply 0 (str "ceil") [VNum x] = Ok (VNum r) /\ (dec_val r < dec_val x)%Q /\
  dec_cmp r x = -1 /\
  dec_of_string (str "10000000000000001") = x /\ dec_to_string r = str "1.000000000000000E+16".
Proof. exact BuiltinNumFacts.ceil_refuted_beyond_16_digits. Qed.

Theorem ceil_nonfinite : forall off,
  builtin_apply off (str "ceil") [VNum (Inf true)] = Ok (VNum (Inf true)) /\
  builtin_apply off (str "ceil") [VNum (Inf false)] = Ok (VNum (Inf false)) /\
  builtin_apply off (str "ceil") [VNum NaN] = Ok (VNum NaN).
Proof. exact BuiltinNumFacts.ceil_nonfinite. Qed.

(* ---- round: an integer within 1/2 of x (hence a nearest integer), ties away from zero ---- *)

Theorem round_spec : forall off x, is_finite x = true -> dec_wf x = true -> exists r,
  builtin_apply off (str "round") [VNum x] = Ok (VNum r) /\
  is_integer_dec r = true /\
  (Qabs (dec_val x - dec_val r) <= 1 # 2)%Q /\
  (forall z : Z, (Qabs (dec_val x - dec_val r) <= Qabs (dec_val x - inject_Z z))%Q) /\
  ((Qabs (dec_val x - dec_val r) == 1 # 2)%Q -> (Qabs (dec_val x) < Qabs (dec_val r))%Q).
Proof. exact BuiltinNumFacts.round_spec. Qed.

(* ---- roundBank: a nearest integer, ties to even ---- *)

Theorem roundBank_spec : forall off x, is_finite x = true -> dec_wf x = true -> exists r,
  builtin_apply off (str "roundBank") [VNum x] = Ok (VNum r) /\
  is_integer_dec r = true /\
  (Qabs (dec_val x - dec_val r) <= 1 # 2)%Q /\
  (forall z : Z, (Qabs (dec_val x - dec_val r) <= Qabs (dec_val x - inject_Z z))%Q) /\
  ((Qabs (dec_val x - dec_val r) == 1 # 2)%Q ->
   exists R : Z, (dec_val r == inject_Z R)%Q /\ Z.even R = true).
Proof. exact BuiltinNumFacts.roundBank_spec. Qed.

Theorem round_nonfinite : forall off,
  builtin_apply off (str "round") [VNum (Inf true)] = Ok (VNum (Inf true)) /\
  builtin_apply off (str "round") [VNum (Inf false)] = Ok (VNum (Inf false)) /\
  builtin_apply off (str "round") [VNum NaN] = Ok (VNum NaN) /\
  builtin_apply off (str "roundBank") [VNum (Inf true)] = Ok (VNum (Inf true)) /\
  builtin_apply off (str "roundBank") [VNum (Inf false)] = Ok (VNum (Inf false)) /\
  builtin_apply off (str "roundBank") [VNum NaN] = Ok (VNum NaN).
Proof. exact BuiltinNumFacts.round_nonfinite. Qed.

(* ---- max / min return an argument that bounds all the others (any number of finite arguments) ---- *)

Theorem max_spec : forall off d r, (forall y, In y (d :: r) -> is_finite y = true) -> exists m,
  builtin_call off (str "max") (map VNum (d :: r)) = Ok (VNum m) /\
  In m (d :: r) /\
  forall y, In y (d :: r) -> dec_cmp y m <= 0 /\ (dec_val y <= dec_val m)%Q.
Proof. exact BuiltinNumFacts.max_spec. Qed.

Theorem min_spec : forall off d r, (forall y, In y (d :: r) -> is_finite y = true) -> exists m,
  builtin_call off (str "min") (map VNum (d :: r)) = Ok (VNum m) /\
  In m (d :: r) /\
  forall y, In y (d :: r) -> dec_cmp m y <= 0 /\ (dec_val m <= dec_val y)%Q.
Proof. exact BuiltinNumFacts.min_spec. Qed.

Theorem max_min_no_arguments : forall off,
  builtin_call off (str "max") [] = Err /\ builtin_call off (str "min") [] = Err.
Proof. exact BuiltinNumFacts.max_min_no_arguments. Qed.

(* ---- sqrt: the square root correctly rounded (half-even) to 16 significant digits.  The decimal library is within
   ONE unit of the 16th digit of it (it rounds twice; measured 2 of 200,000 operands), so the comparison with the
   implementation allows exactly that - well inside "agree with the real function to 15 significant digits". ---- *)
Theorem sqrt_spec : forall off d, builtin_apply off (str "sqrt") [VNum d] = Ok (VNum (Sqrt.dec_sqrt16 d)).
Proof. exact BuiltinNumFacts.ba_sqrt. Qed.

(* within half a unit of the last place of the true root, stated without reals: (2c'-1)^2 10^(2e') <= 4 c 10^e <=
   (2c'+1)^2 10^(2e'); the result has exactly p digits; on a tie the coefficient is even *)
Theorem sqrt_within_half_ulp : forall p c e n c' e', (0 < p)%Z -> (0 < c)%Z ->
  Sqrt.dec_sqrt p (Fin false c e) = Fin n c' e' ->
  n = false /\ (pow10 (p - 1) <= c' < pow10 p)%Z /\ ndigits c' = p /\
  (inject_Z ((2 * c' - 1) ^ 2) * q10 (2 * e') <= inject_Z (4 * c) * q10 e)%Q /\
  (inject_Z (4 * c) * q10 e <= inject_Z ((2 * c' + 1) ^ 2) * q10 (2 * e'))%Q.
Proof.
  intros p c e n c' e' Hp Hc H.
  destruct (SqrtFacts.dec_sqrt_bracket_full p c e n c' e' Hp Hc H) as (A & B & C & D & E & _).
  exact (conj A (conj B (conj C (conj D E)))).
Qed.

Theorem sqrt_is_inverse_to_squaring : forall p c e a b, (0 < p)%Z -> (0 < c)%Z -> (0 < a)%Z -> (ndigits a <= p)%Z ->
  (val (Fin false c e) == val (Fin false a b) * val (Fin false a b))%Q ->
  (val (Sqrt.dec_sqrt p (Fin false c e)) == val (Fin false a b))%Q.
Proof. exact SqrtFacts.dec_sqrt_exact_square. Qed.

Theorem sqrt_monotone : forall p c1 e1 c2 e2, (0 < p)%Z -> (0 <= c1)%Z -> (0 <= c2)%Z ->
  (val (Fin false c1 e1) <= val (Fin false c2 e2))%Q ->
  (val (Sqrt.dec_sqrt p (Fin false c1 e1)) <= val (Sqrt.dec_sqrt p (Fin false c2 e2)))%Q.
Proof. exact SqrtFacts.dec_sqrt_monotone. Qed.

Theorem sqrt_depends_on_the_value_only : forall p c1 e1 c2 e2, (0 < p)%Z -> (0 < c1)%Z -> (0 < c2)%Z ->
  (val (Fin false c1 e1) == val (Fin false c2 e2))%Q ->
  (val (Sqrt.dec_sqrt p (Fin false c1 e1)) == val (Sqrt.dec_sqrt p (Fin false c2 e2)))%Q.
Proof. exact SqrtFacts.dec_sqrt_representation_independent. Qed.

(* ---- exp, ln, log: NOT COVERED ---- *)
Theorem transcendental_not_modelled : forall off d,
  builtin_apply off (str "exp") [VNum d] = Unk /\ builtin_apply off (str "ln") [VNum d] = Unk /\
  builtin_apply off (str "log") [VNum d] = Unk.
Proof. exact BuiltinNumFacts.transcendental_not_modelled. Qed.

(* ---- toInt truncates toward zero: within int64 the result is built from the integer
   (`dec_of_Z`), beyond it the decimal itself is truncated (`to_int_dec`, Sem/Eval.v) ---- *)

Theorem toInt_truncates : forall off x, is_finite x = true -> dec_wf x = true ->
  -9223372036854775808 <= trunc_dec x <= 9223372036854775807 -> exists T,
  builtin_apply off (str "toInt") [VNum x] = Ok (VNum (dec_of_Z T)) /\
  (Qabs (inject_Z T) <= Qabs (dec_val x))%Q /\ (Qabs (dec_val x) < Qabs (inject_Z T) + 1)%Q /\
  ((0 <= dec_val x)%Q -> 0 <= T) /\ ((dec_val x <= 0)%Q -> T <= 0).
Proof. exact BuiltinNumFacts.toInt_truncates. Qed.

(* beyond int64 (`to_i64_opt (Fin n c e) = None` iff the truncation does not fit, see
   toInt_beyond_int64_iff): the number itself when it has no fraction digits, otherwise the
   coefficient divided by the power of ten, exponent 0 *)
Theorem toInt_beyond_int64 : forall off n c e, to_i64_opt (Fin n c e) = None ->
  (0 <= e -> builtin_apply off (str "toInt") [VNum (Fin n c e)] = Ok (VNum (Fin n c e))) /\
  (e < 0 -> builtin_apply off (str "toInt") [VNum (Fin n c e)] = Ok (VNum (Fin n (c / pow10 (- e)) 0))).
Proof. exact BuiltinNumFacts.toInt_beyond_int64. Qed.

Theorem toInt_beyond_int64_iff : forall n c e,
  (to_i64_opt (Fin n c e) = Some (trunc_dec (Fin n c e)) <->
     -9223372036854775808 <= trunc_dec (Fin n c e) <= 9223372036854775807) /\
  (to_i64_opt (Fin n c e) = None <->
     ~ (-9223372036854775808 <= trunc_dec (Fin n c e) <= 9223372036854775807)).
Proof. exact BuiltinNumFacts.to_i64_opt_fin_iff. Qed.

(* toInt is `to_int_dec` on every number, and its value is the truncation toward zero of the
   argument, within int64 and beyond (0 for NaN and the infinities) *)
Theorem toInt_is_to_int_dec : forall off d,
  builtin_apply off (str "toInt") [VNum d] = Ok (VNum (to_int_dec d)).
Proof. exact BuiltinNumFacts.ba_toInt_num. Qed.

Theorem to_int_dec_trunc : forall d, trunc_dec (to_int_dec d) = trunc_dec d.
Proof. exact BuiltinNumFacts.to_int_dec_trunc. Qed.

Theorem to_int_dec_in_range : forall d a, to_i64_opt d = Some a -> to_int_dec d = dec_of_Z a.
Proof. exact BuiltinNumFacts.to_int_dec_in_range. Qed.

(* the same against the rational the argument denotes, for every finite number: the result r is an
   integer-valued decimal whose value T is the truncation toward zero of x *)
Theorem toInt_spec : forall off x, is_finite x = true -> dec_wf x = true -> exists r T,
  builtin_apply off (str "toInt") [VNum x] = Ok (VNum r) /\ r = to_int_dec x /\
  T = trunc_dec x /\ trunc_dec r = T /\ is_integer_dec r = true /\ dec_wf r = true /\
  (dec_val r == inject_Z T)%Q /\
  (Qabs (inject_Z T) <= Qabs (dec_val x))%Q /\ (Qabs (dec_val x) < Qabs (inject_Z T) + 1)%Q /\
  ((0 <= dec_val x)%Q -> 0 <= T) /\ ((dec_val x <= 0)%Q -> T <= 0).
Proof. exact BuiltinNumFacts.toInt_spec. Qed.

(* toInt(-19.99) = -19, toInt("42.9") = 42, toInt(1e25) = 1e25,
   toInt(-12345678901234567890.5) = -12345678901234567890 *)
Theorem toInt_examples :
  builtin_apply 0 (str "toInt") [VNum (Fin true 1999 (-2))] = Ok (VNum (dec_of_Z (-19))) /\
  builtin_apply 0 (str "toInt") [VStr (str "42.9")] = Ok (VNum (dec_of_Z 42)) /\
  builtin_apply 0 (str "toInt") [VNum (Fin false 1 25)] = Ok (VNum (Fin false 1 25)) /\
  builtin_apply 0 (str "toInt") [VNum (Fin true 123456789012345678905 (-1))] = Ok (VNum (Fin true 12345678901234567890 0)) /\
  to_i64_opt (Fin false 1 25) = None /\ to_i64_opt (Fin true 123456789012345678905 (-1)) = None.
Proof. exact BuiltinNumFacts.ex_toInt. Qed.

Theorem toInt_nonfinite : forall off n,
  builtin_apply off (str "toInt") [VNum (Inf n)] = Ok (VNum dec_zero) /\
  builtin_apply off (str "toInt") [VNum NaN] = Ok (VNum dec_zero).
Proof. exact BuiltinNumFacts.toInt_nonfinite. Qed.

Theorem toInt_string : forall off s,
  builtin_apply off (str "toInt") [VStr s] = builtin_apply off (str "toInt") [VNum (num_of_text s)].
Proof. exact BuiltinNumFacts.toInt_string. Qed.

(* ---- toFloat of a number is that number, of a string the number it spells, of other text NaN ---- *)

Theorem toFloat_spec : forall off,
  (forall d, builtin_apply off (str "toFloat") [VNum d] = Ok (VNum d)) /\
  (forall s, builtin_apply off (str "toFloat") [VStr s] = Ok (VNum (num_of_text s))).
Proof. exact BuiltinNumFacts.toFloat_spec. Qed.

(* arithmetic and comparison operators coerce a string operand the same way *)
Theorem conv_to_number_string : forall s, conv_to_number (VStr s) = num_of_text s.
Proof. exact BuiltinNumFacts.conv_to_number_string. Qed.

(* ---- which texts are numbers ---- *)

(* the definitions used below, spelled out *)
Theorem numeral_def : forall s neg ip fp ev,
  numeral s neg ip fp ev <->
  exists sg ft et, s = sg ++ ip ++ ft ++ et /\ sign_text sg neg /\ is_digits ip /\ frac_text ft fp /\
                   ip ++ fp <> [] /\ exp_text et ev.
Proof. exact NumTextFacts.numeral_def. Qed.

Theorem text_parts_def :
  (forall sg neg, sign_text sg neg <-> (sg = [] /\ neg = false) \/ (sg = [43] /\ neg = false) \/ (sg = [45] /\ neg = true)) /\
  (forall ft fp, frac_text ft fp <-> (ft = [] /\ fp = []) \/ (ft = 46 :: fp /\ is_digits fp)) /\
  (forall et ev, exp_text et ev <->
     (et = [] /\ ev = 0) \/
     exists m sg neg ds, et = m :: sg ++ ds /\ (m = 101 \/ m = 69) /\ sign_text sg neg /\ is_digits ds /\ ds <> [] /\
                         ev = if neg then - dval ds else dval ds) /\
  (forall l, is_digits l <-> forall b, In b l -> 48 <= b <= 57) /\
  (forall l, dval l = fold_left (fun a b => a * 10 + (b - 48)) l 0).
Proof. exact NumTextFacts.text_parts_def. Qed.

(* the evaluator's check accepts exactly the decimal numerals: an optional sign, digits with an
   optional point and at least one digit, an optional exponent with at least one digit *)
Theorem is_decimal_text_spec : forall s, is_decimal_text s = true <-> decimal_text s.
Proof. exact NumTextFacts.is_decimal_text_spec. Qed.

(* a decimal numeral reads as: its sign, all its mantissa digits as the coefficient, the written
   exponent less the number of fraction digits *)
Theorem toFloat_numeric : forall s neg ip fp ev,
  numeral s neg ip fp ev ->
  num_of_text s = Fin neg (dval (ip ++ fp)) (ev - Z.of_nat (length fp)).
Proof. exact NumTextFacts.toFloat_numeric. Qed.

(* any other text is NaN, or an infinity when (and only when) it spells one *)
Theorem toFloat_other_text : forall s,
  is_decimal_text s = false ->
  (num_of_text s = NaN \/ exists n, num_of_text s = Inf n) /\
  (forall n, num_of_text s = Inf n <-> spells_infinity s = true /\ n = starts_minus s).
Proof. exact NumTextFacts.toFloat_other_text. Qed.

Theorem spells_infinity_def : forall s,
  spells_infinity s =
  (bytes_eq (map lower (skip_sign s)) [105; 110; 102] ||
   bytes_eq (map lower (skip_sign s)) [105; 110; 102; 105; 110; 105; 116; 121]) /\
  starts_minus s = match s with [] => false | b :: _ => b =? 45 end.
Proof. exact NumTextFacts.spells_infinity_def. Qed.

(* the three outcomes, each characterised for every text *)
Theorem toFloat_finite_iff : forall s, is_finite (num_of_text s) = true <-> decimal_text s.
Proof. exact NumTextFacts.toFloat_finite_iff. Qed.

Theorem toFloat_infinity_iff : forall s n,
  num_of_text s = Inf n <-> spells_infinity s = true /\ n = starts_minus s.
Proof. exact NumTextFacts.toFloat_infinity_iff. Qed.

Theorem toFloat_nan_iff : forall s,
  num_of_text s = NaN <-> is_decimal_text s = false /\ spells_infinity s = false.
Proof. exact NumTextFacts.toFloat_nan_iff. Qed.

(* texts the decimal library alone reads as numbers ("." "1e" "1e+" "+.e1" as 0, 1, 1, 0) are NaN,
   as is everything else that is not a numeral *)
Theorem toFloat_text_rejected :
  num_of_text (str ".") = NaN /\ num_of_text (str "1e") = NaN /\ num_of_text (str "1e+") = NaN /\
  num_of_text (str "+.e1") = NaN /\ num_of_text (str "") = NaN /\ num_of_text (str "-") = NaN /\
  num_of_text (str "e5") = NaN /\ num_of_text (str "0x10") = NaN /\ num_of_text (str "1_000") = NaN /\
  num_of_text (str " 5") = NaN /\ num_of_text (str "1.2.3") = NaN /\ num_of_text (str "--1") = NaN /\
  num_of_text (str "NaN") = NaN /\ num_of_text (str "infinit") = NaN.
Proof. exact NumTextFacts.num_of_text_rejects. Qed.

Theorem set_string_alone_accepts :
  dec_of_string (str ".") = Fin false 0 0 /\ dec_of_string (str "1e") = Fin false 1 0 /\
  dec_of_string (str "1e+") = Fin false 1 0 /\ dec_of_string (str "+.e1") = Fin false 0 1.
Proof. exact NumTextFacts.set_string_accepts. Qed.

Theorem toFloat_text_accepted :
  num_of_text (str "5.") = Fin false 5 0 /\ num_of_text (str ".5") = Fin false 5 (-1) /\
  num_of_text (str "+5") = Fin false 5 0 /\ num_of_text (str "-12.50") = Fin true 1250 (-2) /\
  num_of_text (str "1E+20") = Fin false 1 20 /\ num_of_text (str "007") = Fin false 7 0 /\
  num_of_text (str "-0") = Fin true 0 0 /\ num_of_text (str "2.5e-3") = Fin false 25 (-4).
Proof. exact NumTextFacts.num_of_text_accepts. Qed.

Theorem toFloat_text_infinities :
  num_of_text (str "Inf") = Inf false /\ num_of_text (str "-infinity") = Inf true /\
  num_of_text (str "+INF") = Inf false /\ num_of_text (str "-InFiNiTy") = Inf true.
Proof. exact NumTextFacts.num_of_text_infinities. Qed.

Theorem numeral_example :
  numeral (str "-12.50e+3") true (str "12") (str "50") 3 /\
  num_of_text (str "-12.50e+3") = Fin true 1250 1.
Proof. exact NumTextFacts.numeral_example. Qed.

Theorem toFloat_examples :
  builtin_apply 0 (str "toFloat") [VStr (str "12.50")] = Ok (VNum (Fin false 1250 (-2))) /\
  builtin_apply 0 (str "toFloat") [VStr (str "-3e2")] = Ok (VNum (Fin true 3 2)) /\
  builtin_apply 0 (str "toFloat") [VStr (str "abc")] = Ok (VNum NaN) /\
  builtin_apply 0 (str "toFloat") [VStr (str "1.2.3")] = Ok (VNum NaN) /\
  builtin_apply 0 (str "toFloat") [VStr (str "")] = Ok (VNum NaN) /\
  builtin_apply 0 (str "toFloat") [VStr (str "12a")] = Ok (VNum NaN).
Proof. exact BuiltinNumFacts.ex_toFloat. Qed.

(* ---- toString of a number parses back to the same number (same sign, coefficient, exponent) ---- *)

(* digits_of c is the decimal spelling of c *)
Theorem digits_of_scan : forall c, 0 <= c -> scan_digits (digits_of c) 0 = Some c.
Proof. exact BuiltinNumFacts.digits_of_scan. Qed.

Theorem toString_roundtrip : forall d, dec_wf d = true -> dec_of_string (dec_to_string d) = d.
Proof. exact BuiltinNumFacts.toString_roundtrip. Qed.

(* the spelling of a finite number is a decimal numeral, so the evaluator's coercion reads it back too *)
Theorem toString_is_decimal_text : forall n c e, 0 <= c -> is_decimal_text (dec_to_string (Fin n c e)) = true.
Proof. exact BuiltinNumFacts.toString_is_decimal_text. Qed.

Theorem toString_roundtrip_text : forall d, dec_wf d = true -> num_of_text (dec_to_string d) = d.
Proof. exact BuiltinNumFacts.toString_roundtrip_text. Qed.

Theorem toString_toInt : forall off d s, dec_wf d = true ->
  builtin_apply off (str "toString") [VNum d] = Ok (VStr s) ->
  builtin_apply off (str "toInt") [VStr s] = builtin_apply off (str "toInt") [VNum d].
Proof. exact BuiltinNumFacts.toString_toInt. Qed.

Theorem toString_toFloat : forall off d s, dec_wf d = true ->
  builtin_apply off (str "toString") [VNum d] = Ok (VStr s) ->
  builtin_apply off (str "toFloat") [VStr s] = Ok (VNum d).
Proof. exact BuiltinNumFacts.toString_toFloat. Qed.

(* ---- finite maps non-finite and non-numeric values to 0 ---- *)

Theorem finite_spec : forall off,
  (forall n c e, builtin_apply off (str "finite") [VNum (Fin n c e)] = Ok (VNum (Fin n c e))) /\
  (forall n, builtin_apply off (str "finite") [VNum (Inf n)] = Ok (VNum dec_zero)) /\
  builtin_apply off (str "finite") [VNum NaN] = Ok (VNum dec_zero) /\
  (forall v, (forall d, v <> VNum d) -> builtin_apply off (str "finite") [v] = Ok (VNum dec_zero)).
Proof. exact BuiltinNumFacts.finite_spec. Qed.

(* ---- & | ^ ~ act on the two's-complement integer values of their operands ----
   for all integers of the int64 range (which contains |a|, |b| < 2^53); Z.land, Z.lor, Z.lxor,
   Z.lnot are the bitwise operations on the infinite two's-complement expansion of integers *)

Theorem and_spec : forall a b, - 2 ^ 63 <= a < 2 ^ 63 -> - 2 ^ 63 <= b < 2 ^ 63 ->
  arith KAmp (VNum (dec_of_Z a)) (VNum (dec_of_Z b)) = Ok (VNum (dec_of_Z (Z.land a b))).
Proof. exact BuiltinNumFacts.and_spec. Qed.

Theorem or_spec : forall a b, - 2 ^ 63 <= a < 2 ^ 63 -> - 2 ^ 63 <= b < 2 ^ 63 ->
  arith KBar (VNum (dec_of_Z a)) (VNum (dec_of_Z b)) = Ok (VNum (dec_of_Z (Z.lor a b))).
Proof. exact BuiltinNumFacts.or_spec. Qed.

Theorem xor_spec : forall a b, - 2 ^ 63 <= a < 2 ^ 63 -> - 2 ^ 63 <= b < 2 ^ 63 ->
  arith KCaret (VNum (dec_of_Z a)) (VNum (dec_of_Z b)) = Ok (VNum (dec_of_Z (Z.lxor a b))).
Proof. exact BuiltinNumFacts.xor_spec. Qed.

Theorem not_spec : forall a, - 2 ^ 63 <= a < 2 ^ 63 ->
  unary_op KTilde (VNum (dec_of_Z a)) = Ok (VNum (dec_of_Z (Z.lnot a))) /\ Z.lnot a = - a - 1.
Proof. exact BuiltinNumFacts.not_spec. Qed.

(* bit i of the 64-bit pattern (a mod 2^64) of the result is the boolean operation on bit i of the operands *)
Theorem bitops_twos_complement : forall a b i, 0 <= i < 64 ->
  Z.testbit (Z.land a b mod 2 ^ 64) i = Z.testbit (a mod 2 ^ 64) i && Z.testbit (b mod 2 ^ 64) i /\
  Z.testbit (Z.lor a b mod 2 ^ 64) i = Z.testbit (a mod 2 ^ 64) i || Z.testbit (b mod 2 ^ 64) i /\
  Z.testbit (Z.lxor a b mod 2 ^ 64) i = xorb (Z.testbit (a mod 2 ^ 64) i) (Z.testbit (b mod 2 ^ 64) i) /\
  Z.testbit (Z.lnot a mod 2 ^ 64) i = negb (Z.testbit (a mod 2 ^ 64) i).
Proof. exact BuiltinNumFacts.bitops_twos_complement. Qed.

Theorem bitops_out_of_range : forall op v x, is_finite x = true ->
  ~ (-9223372036854775808 <= trunc_dec x <= 9223372036854775807) ->
  op = KAmp \/ op = KBar \/ op = KCaret ->
  arith op (VNum x) v = Unk /\ unary_op KTilde (VNum x) = Unk.
Proof. exact BuiltinNumFacts.bitops_out_of_range. Qed.

Print Assumptions dec_val_def.
Print Assumptions dec_cmp_val.
Print Assumptions abs_spec.
Print Assumptions abs_nonfinite.
Print Assumptions floor_spec.
Print Assumptions floor_nonfinite.
Print Assumptions ceil_spec.
Print Assumptions ceil_refuted_beyond_16_digits.
Print Assumptions ceil_nonfinite.
Print Assumptions round_spec.
Print Assumptions roundBank_spec.
Print Assumptions round_nonfinite.
Print Assumptions max_spec.
Print Assumptions min_spec.
Print Assumptions max_min_no_arguments.
Print Assumptions sqrt_spec.
Print Assumptions sqrt_within_half_ulp.
Print Assumptions sqrt_is_inverse_to_squaring.
Print Assumptions sqrt_monotone.
Print Assumptions sqrt_depends_on_the_value_only.
Print Assumptions transcendental_not_modelled.
Print Assumptions toInt_truncates.
Print Assumptions toInt_beyond_int64.
Print Assumptions toInt_beyond_int64_iff.
Print Assumptions toInt_is_to_int_dec.
Print Assumptions to_int_dec_trunc.
Print Assumptions to_int_dec_in_range.
Print Assumptions toInt_spec.
Print Assumptions toInt_examples.
Print Assumptions toInt_nonfinite.
Print Assumptions toInt_string.
Print Assumptions toFloat_spec.
Print Assumptions conv_to_number_string.
Print Assumptions numeral_def.
Print Assumptions text_parts_def.
Print Assumptions is_decimal_text_spec.
Print Assumptions toFloat_numeric.
Print Assumptions toFloat_other_text.
Print Assumptions spells_infinity_def.
Print Assumptions toFloat_finite_iff.
Print Assumptions toFloat_infinity_iff.
Print Assumptions toFloat_nan_iff.
Print Assumptions toFloat_text_rejected.
Print Assumptions set_string_alone_accepts.
Print Assumptions toFloat_text_accepted.
Print Assumptions toFloat_text_infinities.
Print Assumptions numeral_example.
Print Assumptions toFloat_examples.
Print Assumptions digits_of_scan.
Print Assumptions toString_roundtrip.
Print Assumptions toString_is_decimal_text.
Print Assumptions toString_roundtrip_text.
Print Assumptions toString_toInt.
Print Assumptions toString_toFloat.
Print Assumptions finite_spec.
Print Assumptions and_spec.
Print Assumptions or_spec.
Print Assumptions xor_spec.
Print Assumptions not_spec.
Print Assumptions bitops_twos_complement.
Print Assumptions bitops_out_of_range.
