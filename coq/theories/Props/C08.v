(* C08  Evaluation is a pure function of formula text and data.
   In Gallina `parse_source` and `eval` ARE functions, so determinism of the model is trivial; the
   content of the property is the absence of hidden state in the implementation.  It is stated over
   the write footprints regenerated from the code's SSA form on every run: no operation writes a
   package-level variable (after init) or a field of a tree it was handed, so by the interleaving
   theorem (sequential histories are schedules) the result of every operation in every history is
   the result it has when run alone.  That each Go operation respects its computed footprint is the
   translator's claim (trusted base); the history runs of the harness are its dynamic check.
   Property theorems only. *)
From Coq Require Import List String Bool.
From Formula Require Import Gen.Effects Syn.Parser Syn.Ast Sem.Eval Sem.Fields Conc.Interleave Conc.Footprint Conc.Threads.
Import ListNotations.

(* the model side: parsing and evaluating are functions of their arguments *)
Theorem C08_model_is_functional :
  (forall t1 t2, t1 = t2 -> parse_source t1 = parse_source t2) /\
  (forall hosts off e st1 st2, st1 = st2 -> eval hosts off e st1 = eval hosts off e st2) /\
  (forall e1 e2, e1 = e2 -> fields_of e1 = fields_of e2).
Proof.
  exact (conj (fun t1 t2 H => f_equal parse_source H)
        (conj (fun hosts off e st1 st2 H => f_equal (eval hosts off e) H)
              (fun e1 e2 H => f_equal fields_of H))).
Qed.

(* the code side: evaluation and field analysis leave the tree unchanged - no setter of a node is
   reachable from them and none of their writes is rooted in a node, a source object or a global *)
Theorem C08_tree_unchanged :
  existsb tree_setter (reachable eval_entry) = false /\
  existsb shared_write (writes_of eval_entry) = false /\
  existsb tree_setter (reachable fields_entry) = false /\
  existsb shared_write (writes_of fields_entry) = false.
Proof.
  exact (conj eval_never_calls_tree_setters
         (conj eval_writes_nothing_shared
               (conj (proj2 fields_writes_nothing_shared) (proj1 fields_writes_nothing_shared)))).
Qed.

(* no hidden state: package-level variables are written by init functions only; a parse writes
   nothing but what it allocates *)
Theorem C08_no_hidden_state :
  forallb (starts "init") global_writers = true /\
  existsb (fun w => andb (contains "global:" w) (negb (read_only_method w))) (writes_of parse_entry) = false /\
  forallb fields_write_ok (writes_of fields_entry) = true /\
  forallb eval_write_ok (writes_of eval_entry) = true.
Proof.
  exact (conj globals_written_only_by_init
         (conj parse_writes_no_global (conj fields_footprint eval_footprint))).
Qed.

(* the builtins (table entries reached through reflection) write nothing but what they allocate - no package
   state, no state captured by a closure, no operand - and the only functions that read the environment are
   the two clock builtins, the stated exceptions *)
Theorem C08_builtins_keep_no_state :
  forallb private_write (writes_of builtin_entry) = true /\
  existsb tree_setter (reachable builtin_entry) = false /\
  env_discipline = true.
Proof.
  exact (conj builtins_footprint (conj builtins_never_call_tree_setters environment_read_by_clock_builtins_once)).
Qed.

(* therefore: whatever other formulas were parsed, evaluated or analysed before or in between, each
   operation of a history yields what it yields alone from the initial state *)
Theorem C08_history_independence : forall (val obs : Type) (ts : list (thread gloc val obs)) kinds sch s i,
  footprints_from_table val obs ts kinds -> disciplined ts -> footprints_decidable ts -> complete ts sch ->
  (i < List.length ts)%nat -> obs_of i (snd (run_sched ts sch s)) = run_alone (thr ts i) s.
Proof. exact history_independence. Qed.

Print Assumptions C08_model_is_functional.
Print Assumptions C08_tree_unchanged.
Print Assumptions C08_no_hidden_state.
Print Assumptions C08_builtins_keep_no_state.
Print Assumptions C08_history_independence.
