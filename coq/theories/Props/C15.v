(* C15  Source ranges nest and re-parse; errors point at the right line and column.
   Property theorems only; every proof is `exact` a lemma of Proofs/. *)
From Formula Require Import Lex.LineMap Syn.Parser Syn.Grammar Proofs.LineMapFacts Proofs.SourceFacts Proofs.ReparseFacts.
From Coq Require Import List.
Import ListNotations.

(* every node's range lies within the text and contains its children's ranges in source order
   (`nested`), for accepted inputs ... *)
Theorem C15_accepted_ranges_nest : forall text e, parse_source text = Accepted e ->
  nested e /\ epos e = 0 /\ eend e <= blen text.
Proof. exact source_accepted_nested. Qed.

(* ... and for the trees of rejected inputs *)
Theorem C15_rejected_ranges_nest : forall text d ds e, parse_source text = Rejected d ds e ->
  nested e /\ 0 <= epos e /\ eend e <= blen text.
Proof. exact source_rejected_nested. Qed.

(* a syntax error carries the FIRST diagnostic, and every diagnostic lies within the text *)
Theorem C15_diagnostics_within_text : forall text d ds e, parse_source text = Rejected d ds e ->
  Forall (fun x => 0 <= dstart x /\ 0 <= dlen x /\ dstart x + dlen x <= blen text) ds /\
  In d ds /\ (exists rest, ds = d :: rest).
Proof. exact diagnostics_within_text. Qed.

(* the offset-to-(line, column) lookup (line-start table + binary search) agrees with a direct
   count over the text, for every text and every offset inside it; the line-break set is LF, CR,
   CRLF (as one), U+2028, U+2029, U+0085 (LineMap.is_terminator_rune / dcount) *)
Theorem C15_line_col_correct : forall text off,
  0 <= off <= blen text -> line_col text off = Some (direct_count text off).
Proof. exact line_col_correct. Qed.

(* hence the 0-based line and byte column of a syntax error locate the first diagnostic's offset *)
Theorem C15_error_position_correct : forall text d ds e, parse_source text = Rejected d ds e ->
  line_col text (dstart d) = Some (direct_count text (dstart d)).
Proof. exact error_position_correct. Qed.

(* every expression node re-parses on its own (at the level of tokens): the slice of the token stream that a node
   of an accepted tree covers, closed by an end-of-file token, parses to exactly that node's subtree.  `subexpr y x`:
   y is x or a node below it (operands, branches, elements, arguments, targets, callee).  That the text of the
   node scans to that slice is checked on the implementation (oracle of the `ranges` suite), not proved. *)
Theorem C15_subtree_reparses : forall text e,
  parse_source text = Accepted e ->
  forall y, subexpr y (strip e) ->
  exists toks pre mid post,
    scan_all text = Some toks /\ toks = pre ++ mid ++ post /\ Forall2 tok_matches (yield y) mid /\
    (forall eof, tok_matches (punct KEOF) eof -> tdiags eof = [] ->
       exists e', parse_tokens (parse_fuel (length (mid ++ [eof]))) (mid ++ [eof]) = Accepted e' /\ strip e' = y).
Proof. exact accepted_subtree_reparses. Qed.

Theorem C15_accepted_tokens_carry_no_diagnostic : forall text toks e,
  scan_all text = Some toks -> parse_source text = Accepted e -> Forall (fun t => tdiags t = []) toks.
Proof. exact source_accepted_clean_tokens. Qed.

Print Assumptions C15_subtree_reparses.
Print Assumptions C15_accepted_tokens_carry_no_diagnostic.
Print Assumptions C15_accepted_ranges_nest.
Print Assumptions C15_rejected_ranges_nest.
Print Assumptions C15_diagnostics_within_text.
Print Assumptions C15_line_col_correct.
Print Assumptions C15_error_position_correct.
