(* C15  Source ranges nest and re-parse; errors point at the right line and column.
   Property theorems only; every proof is `exact` a lemma of Proofs/. *)
From Formula Require Import Lex.LineMap Syn.Parser Syn.Grammar Proofs.LineMapFacts Proofs.SourceFacts.

(* every node's range lies within the text and contains its children's ranges in source order
   (`nested`), for accepted inputs ... *)
Theorem C15_accepted_ranges_nest : forall text e, parse_source text = Accepted e ->
  nested e /\ epos e = 0 /\ eend e <= blen text.
Proof. exact source_accepted_nested. Qed.

(* ... and for the trees of rejected inputs *)
Theorem C15_rejected_ranges_nest : forall text d ds e, parse_source text = Rejected d ds e ->
  nested e /\ 0 <= epos e /\ eend e <= blen text.
Proof. exact source_rejected_nested. Qed.

(* a syntax error carries the FIRST diagnostic, and every diagnostic lies within the text *)
Theorem C15_diagnostics_within_text : forall text d ds e, parse_source text = Rejected d ds e ->
  Forall (fun x => 0 <= dstart x /\ 0 <= dlen x /\ dstart x + dlen x <= blen text) ds /\
  In d ds /\ (exists rest, ds = d :: rest).
Proof. exact diagnostics_within_text. Qed.

(* the offset-to-(line, column) lookup (line-start table + binary search) agrees with a direct
   count over the text, for every text and every offset inside it; the line-break set is LF, CR,
   CRLF (as one), U+2028, U+2029, U+0085 (LineMap.is_terminator_rune / dcount) *)
Theorem C15_line_col_correct : forall text off,
  0 <= off <= blen text -> line_col text off = Some (direct_count text off).
Proof. exact line_col_correct. Qed.

(* hence the 0-based line and byte column of a syntax error locate the first diagnostic's offset *)
Theorem C15_error_position_correct : forall text d ds e, parse_source text = Rejected d ds e ->
  line_col text (dstart d) = Some (direct_count text (dstart d)).
Proof. exact error_position_correct. Qed.

Print Assumptions C15_accepted_ranges_nest.
Print Assumptions C15_rejected_ranges_nest.
Print Assumptions C15_diagnostics_within_text.
Print Assumptions C15_line_col_correct.
Print Assumptions C15_error_position_correct.
