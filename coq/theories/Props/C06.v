(* C06 - One notion of truthiness drives every selection operator.
   `eval hosts off e st` is the evaluator model of Sem/Eval.v (hosts: the host functions of the data
   map, off: local zone offset, st: data map + host-call trace); it returns (outcome, final state).
   `truthy`, `is_null` are the model's toBool / IsNull (Sem/Value.v). *)
From Coq Require Import List ZArith Bool.
From Formula Require Import Sem.Eval Proofs.EvalFacts.
Import ListNotations.
Local Open Scope Z_scope.

(* "Exactly null, false, numeric zero, NaN and the empty string are falsy; everything else is truthy."
   (null covers nil and typed nil pointers; numeric zero is any number comparing equal to 0: 0, -0, 0.0) *)
Theorem truthy_spec : forall v,
  truthy v = false <->
  (v = VNull \/ v = VNilPtr \/ v = VBool false \/
   (exists d, v = VNum d /\ (dec_cmp d dec_zero = 0 \/ is_nan d = true)) \/ v = VStr []).
Proof. exact EvalFacts.truthy_spec. Qed.

(* "`!!x` is the truthiness of x" - for every value x evaluates to *)
Theorem bangbang_is_truthy : forall hosts off a st v st1,
  eval hosts off a st = (Ok v, st1) ->
  eval hosts off (SPrefix KBangBang a) st = (Ok (VBool (truthy v)), st1).
Proof. exact EvalFacts.bangbang_is_truthy. Qed.

(* "`!x` its negation (for booleans, numbers and null)" *)
Theorem bang_is_negation : forall hosts off a st v st1,
  eval hosts off a st = (Ok v, st1) ->
  match v with VBool _ | VNum _ | VNull => true | _ => false end = true ->
  eval hosts off (SPrefix KBang a) st = (Ok (VBool (negb (truthy v))), st1).
Proof. exact EvalFacts.bang_is_negation. Qed.

(* ... and `!x` is an error for every other kind of value *)
Theorem bang_on_other_is_error : forall hosts off a st v st1,
  eval hosts off a st = (Ok v, st1) ->
  match v with VBool _ | VNum _ | VNull => true | _ => false end = false ->
  eval hosts off (SPrefix KBang a) st = (Err, st1).
Proof. exact EvalFacts.bang_on_other_is_error. Qed.

(* "`c ? a : b` yields a for truthy c and b otherwise": the whole result (value, data map, trace)
   is that of the selected branch run in the state left by the condition *)
Theorem cond_selects : forall hosts off c t f st v st1,
  eval hosts off c st = (Ok v, st1) ->
  eval hosts off (SCond c t f) st = if truthy v then eval hosts off t st1 else eval hosts off f st1.
Proof. exact EvalFacts.cond_selects. Qed.

(* "and evaluates only the selected branch": value, final data map and host-call trace do not
   depend on the unselected branch *)
Theorem cond_ignores_unselected_true : forall hosts off c t st v st1,
  eval hosts off c st = (Ok v, st1) -> truthy v = true ->
  forall f f', eval hosts off (SCond c t f) st = eval hosts off (SCond c t f') st.
Proof. exact EvalFacts.cond_ignores_unselected_true. Qed.

Theorem cond_ignores_unselected_false : forall hosts off c f st v st1,
  eval hosts off c st = (Ok v, st1) -> truthy v = false ->
  forall t t', eval hosts off (SCond c t f) st = eval hosts off (SCond c t' f) st.
Proof. exact EvalFacts.cond_ignores_unselected_false. Qed.

(* "`a && b` yields a when a is falsy and b otherwise ... the selected operand's value unchanged" *)
Theorem and_returns_operand : forall hosts off l r st v1 st1 v2 st2,
  eval hosts off l st = (Ok v1, st1) -> eval hosts off r st1 = (Ok v2, st2) ->
  eval hosts off (SBin l KAmpAmp r) st = (Ok (if truthy v1 then v2 else v1), st2).
Proof. exact EvalFacts.and_returns_operand. Qed.

(* "`a || b` yields a when a is truthy and b otherwise" *)
Theorem or_returns_operand : forall hosts off l r st v1 st1 v2 st2,
  eval hosts off l st = (Ok v1, st1) -> eval hosts off r st1 = (Ok v2, st2) ->
  eval hosts off (SBin l KBarBar r) st = (Ok (if truthy v1 then v1 else v2), st2).
Proof. exact EvalFacts.or_returns_operand. Qed.

(* "`a ?? b` yields a unless a is null" *)
Theorem coalesce_returns_operand : forall hosts off l r st v1 st1 v2 st2,
  eval hosts off l st = (Ok v1, st1) -> eval hosts off r st1 = (Ok v2, st2) ->
  eval hosts off (SBin l KQQ r) st = (Ok (if is_null v1 then v2 else v1), st2).
Proof. exact EvalFacts.coalesce_returns_operand. Qed.

(* the binary selection operators are not short-circuit: a right operand that fails (error, panic)
   fails the expression whatever the left operand is *)
Theorem binary_right_failure_propagates : forall hosts off l op r st v1 st1 x st2,
  kind_eqb op KEquals = false ->
  eval hosts off l st = (Ok v1, st1) -> eval hosts off r st1 = (x, st2) -> (forall v, x <> Ok v) ->
  eval hosts off (SBin l op r) st = (x, st2).
Proof. exact EvalFacts.binary_right_failure_propagates. Qed.

(* "One notion of truthiness": `!!`, `?:`, `&&`, `||` all branch on the same function `truthy` *)
Theorem selection_consistent : forall hosts off c a b st v st1,
  eval hosts off c st = (Ok v, st1) ->
  eval hosts off (SPrefix KBangBang c) st = (Ok (VBool (truthy v)), st1) /\
  eval hosts off (SCond c a b) st = (if truthy v then eval hosts off a st1 else eval hosts off b st1) /\
  (forall v2 st2, eval hosts off b st1 = (Ok v2, st2) ->
     eval hosts off (SBin c KAmpAmp b) st = (Ok (if truthy v then v2 else v), st2) /\
     eval hosts off (SBin c KBarBar b) st = (Ok (if truthy v then v else v2), st2)).
Proof. exact EvalFacts.selection_consistent. Qed.

(* results of sub-evaluations are already normalised, so re-normalising at each node changes nothing *)
Theorem format_input_idem : forall v, format_input (format_input v) = format_input v.
Proof. exact EvalFacts.format_input_idem. Qed.

Theorem eval_result_formatted : forall hosts off e st v st',
  eval hosts off e st = (Ok v, st') -> format_input v = v.
Proof. exact EvalFacts.eval_result_formatted. Qed.

Print Assumptions truthy_spec.
Print Assumptions bangbang_is_truthy.
Print Assumptions bang_is_negation.
Print Assumptions bang_on_other_is_error.
Print Assumptions cond_selects.
Print Assumptions cond_ignores_unselected_true.
Print Assumptions cond_ignores_unselected_false.
Print Assumptions and_returns_operand.
Print Assumptions or_returns_operand.
Print Assumptions coalesce_returns_operand.
Print Assumptions binary_right_failure_propagates.
Print Assumptions selection_consistent.
Print Assumptions format_input_idem.
Print Assumptions eval_result_formatted.
