(* C11 - Host functions are called exactly as declared, or not at all.
   Model: theories/Sem/Eval.v.  [call_value hosts off f args spread st] is the bridge
   (resolveCallExpression + callFunc): arity rules, spread expansion, argument conversion
   ([conv_args] / [conv_to] = convTypeToTarget), the invocation - recorded in [r_trace] as
   (function id, converted arguments), most recent first - and result handling.
   Defined in Proofs/BridgeFacts.v, mirroring the property text:
     arity_ok sg n spread       "the argument count fits the signature"
                                 (non-variadic: n = #params; variadic: n >= #params-1, with spread n = #params)
     spread_ok sg args spread   "spread only on variadic functions and only with an array as last argument"
     expanded_args args spread  the argument list after spreading the last array
     arg_type params variadic i the Go type the i-th argument is converted to
     eval_list                  the argument loop of [eval] (left to right, threading the state)
     fmt                        formatInput applied to a node result
     normalised v               v is not a Go int/int32/int64 or float *)
From Coq Require Import String.
From Coq Require Import List Permutation.
From Formula Require Import Sem.Eval Proofs.BridgeFacts Proofs.ShowFacts Gen.ImplBuiltins Tie.BuiltinsTie.

(* ---------------- 1. called exactly once, or not at all ---------------- *)

(* "invoked exactly once per evaluated call": a call node evaluates the callee, then the arguments,
   then runs the bridge once on their values *)
Theorem call_node_invokes_bridge_once : forall hosts off f args sp st fv st1 vs st2,
  eval hosts off f st = (Ok fv, st1) ->
  is_name_path f = true ->
  eval_list hosts off args st1 = (Ok vs, st2) ->
  eval hosts off (SCall f args sp) st = fmt (call_value hosts off fv vs sp st2).
Proof. exact BridgeFacts.call_node. Qed.

(* "arguments evaluated left to right": the argument loop evaluates the head first and passes its
   final state to the rest; the first failure stops the loop *)
Theorem args_left_to_right : forall hosts off a t st,
  eval_list hosts off (a :: t) st =
  match eval hosts off a st with
  | (Ok v, st1) =>
    match eval_list hosts off t st1 with
    | (Ok vs, st2) => (Ok (v :: vs), st2)
    | (Err, st2) => (Err, st2)
    | (Panic, st2) => (Panic, st2)
    | (Unk, st2) => (Unk, st2)
    end
  | (Err, st1) => (Err, st1)
  | (Panic, st1) => (Panic, st1)
  | (Unk, st1) => (Unk, st1)
  end.
Proof. exact BridgeFacts.eval_list_cons. Qed.

(* the bridge adds at most one trace entry, only for a host function, and leaves the data map alone *)
Theorem host_called_at_most_once : forall hosts off f args spread st,
  let st' := snd (call_value hosts off f args spread st) in
  r_this st' = r_this st /\
  (r_trace st' = r_trace st \/
   exists id cargs, f = VFunc id /\ r_trace st' = (id, cargs) :: r_trace st).
Proof. exact BridgeFacts.host_called_at_most_once. Qed.

(* the function IS called (with cargs) iff the count fits, spread is legal and every argument converts *)
Theorem called_iff_fits : forall hosts off id h args spread st cargs,
  host_lookup id hosts = Some h ->
  (r_trace (snd (call_value hosts off (VFunc id) args spread st)) = (id, cargs) :: r_trace st
   <->
   arity_ok (h_sig h) (length args) spread = true /\
   spread_ok (h_sig h) args spread = true /\
   conv_args (sig_params (h_sig h)) (sig_variadic (h_sig h)) (expanded_args args spread) = Ok cargs).
Proof. exact BridgeFacts.called_iff_fits. Qed.

(* "If the argument count does not fit, an argument cannot be converted, or spread is misused, the
   function is not called and evaluation fails": state unchanged; Err - or Panic (Err at the entry)
   for a nil given to a slice/map parameter, Unk where the formatting of a value is outside the model *)
Theorem not_called_on_error : forall hosts off f sg args spread st,
  callee_sig hosts f = Some sg ->
  (arity_ok sg (length args) spread = false \/ spread_ok sg args spread = false ->
     call_value hosts off f args spread st = (Err, st)) /\
  (arity_ok sg (length args) spread = true -> spread_ok sg args spread = true ->
   forall o, conv_args (sig_params sg) (sig_variadic sg) (expanded_args args spread) = o ->
     (forall cargs, o <> Ok cargs) ->
     (o = Err \/ o = Panic \/ o = Unk) /\
     call_value hosts off f args spread st =
       (match o with Ok _ => Err | Err => Err | Panic => Panic | Unk => Unk end, st)).
Proof. exact BridgeFacts.not_called_on_error. Qed.

(* "spread is used on a non-variadic function or a non-array" *)
Theorem spread_misuse_is_error : forall hosts off f sg args st,
  callee_sig hosts f = Some sg ->
  (sig_variadic sg = false \/ (args <> [] /\ is_arr (last args VNull) = false)) ->
  call_value hosts off f args true st = (Err, st).
Proof. exact BridgeFacts.spread_misuse_is_error. Qed.

(* ---------------- 2. outcome of an actual call ---------------- *)

(* when everything fits: one new trace entry with the converted arguments; the result is the
   function's value, or Err if it returns an error or does not have the (value, error) shape *)
Theorem call_outcome : forall hosts off id h args spread st cargs,
  host_lookup id hosts = Some h ->
  arity_ok (h_sig h) (length args) spread = true ->
  spread_ok (h_sig h) args spread = true ->
  conv_args (sig_params (h_sig h)) (sig_variadic (h_sig h)) (expanded_args args spread) = Ok cargs ->
  call_value hosts off (VFunc id) args spread st =
  (if negb (sig_nres (h_sig h) =? 2) || h_fail h then Err else Ok (h_result h),
   mkR (r_this st) ((id, cargs) :: r_trace st)).
Proof. exact BridgeFacts.call_outcome. Qed.

(* "a returned error aborts evaluation with an error" (the message text is not modelled) *)
Theorem error_result_aborts : forall hosts off id h args spread st cargs,
  host_lookup id hosts = Some h ->
  arity_ok (h_sig h) (length args) spread = true ->
  spread_ok (h_sig h) args spread = true ->
  conv_args (sig_params (h_sig h)) (sig_variadic (h_sig h)) (expanded_args args spread) = Ok cargs ->
  h_fail h = true ->
  fst (call_value hosts off (VFunc id) args spread st) = Err.
Proof. exact BridgeFacts.error_result_aborts. Qed.

(* "converted to its declared parameter types", in source order: the recorded arguments correspond
   position by position to the (expanded) arguments, each converted to its parameter's type *)
Theorem args_in_order : forall hosts off id h args spread st cargs,
  host_lookup id hosts = Some h ->
  r_trace (snd (call_value hosts off (VFunc id) args spread st)) = (id, cargs) :: r_trace st ->
  length cargs = length (expanded_args args spread) /\
  forall i a, nth_error (expanded_args args spread) i = Some a ->
    exists t c, arg_type (sig_params (h_sig h)) (sig_variadic (h_sig h)) i = Some t /\
                nth_error cargs i = Some c /\ conv_to t a = Ok c.
Proof. exact BridgeFacts.call_trace_in_order. Qed.

(* for a non-variadic signature the i-th argument meets the i-th parameter *)
Theorem fixed_params_by_position : forall params args cargs,
  conv_args params false args = Ok cargs ->
  length cargs = length args /\
  forall i a, nth_error args i = Some a ->
    exists p c, nth_error params i = Some p /\ nth_error cargs i = Some c /\ conv_to p a = Ok c.
Proof. exact BridgeFacts.args_in_order. Qed.

(* "a variadic tail": arguments beyond the fixed parameters are converted to the element type *)
Theorem variadic_tail_converted_by_element_type : forall fixed et args cargs,
  conv_args (fixed ++ [TSlice et]) true args = Ok cargs ->
  length cargs = length args /\
  forall i a, nth_error args i = Some a ->
    exists c, nth_error cargs i = Some c /\
      ((i < length fixed)%nat -> exists p, nth_error fixed i = Some p /\ conv_to p a = Ok c) /\
      ((length fixed <= i)%nat -> conv_to et a = Ok c).
Proof. exact BridgeFacts.variadic_tail_converted_by_element_type. Qed.

(* "`f(a, xs...)` spreading an array over a variadic tail" *)
Theorem spread_expands_tail : forall args l,
  last args VNull = VArr l -> expanded_args args true = removelast args ++ l.
Proof. exact BridgeFacts.spread_expands_tail. Qed.

Theorem spread_call_trace : forall hosts off id h args l st cargs,
  host_lookup id hosts = Some h ->
  sig_variadic (h_sig h) = true ->
  length args = length (sig_params (h_sig h)) ->
  last args VNull = VArr l -> args <> [] ->
  conv_args (sig_params (h_sig h)) true (removelast args ++ l) = Ok cargs ->
  r_trace (snd (call_value hosts off (VFunc id) args true st)) = (id, cargs) :: r_trace st.
Proof. exact BridgeFacts.spread_call_trace. Qed.

(* ---------------- 3. conversion laws ---------------- *)

(* "numbers to Go integers by truncation toward zero" (signed kinds int, int8..int64; the number
   must be finite and the truncation must fit - otherwise the number cannot be converted, see
   num_out_of_range_is_error) *)
Theorem num_to_int_truncates : forall k d,
  int_signed k = true -> is_finite d = true -> wrap_int k (trunc_dec d) = trunc_dec d ->
  conv_to (TInt k) (VNum d) = Ok (VGoInt k (trunc_dec d)).
Proof. exact BridgeFacts.num_to_int_truncates. Qed.

(* NaN, the infinities and numbers whose truncation does not fit the integer kind "cannot be
   converted": Err (so by not_called_on_error the function is not called and the outcome is Err) *)
Theorem num_out_of_range_is_error : forall k d,
  is_finite d = false \/ wrap_int k (trunc_dec d) <> trunc_dec d ->
  conv_to (TInt k) (VNum d) = Err.
Proof. exact BridgeFacts.num_out_of_range_is_error. Qed.

(* the two cases are exhaustive and exclusive: a number given to a signed integer parameter is
   either truncated or refused - never Unk, never Panic *)
Theorem num_to_int_iff : forall k d, int_signed k = true ->
  (conv_to (TInt k) (VNum d) = Ok (VGoInt k (trunc_dec d)) <->
     is_finite d = true /\ wrap_int k (trunc_dec d) = trunc_dec d) /\
  (conv_to (TInt k) (VNum d) = Err <->
     is_finite d = false \/ wrap_int k (trunc_dec d) <> trunc_dec d) /\
  (conv_to (TInt k) (VNum d) = Ok (VGoInt k (trunc_dec d)) \/ conv_to (TInt k) (VNum d) = Err).
Proof. exact BridgeFacts.num_to_int_iff. Qed.

Theorem fits_kind_iff : forall k z, int_signed k = true ->
  (wrap_int k z = z <-> - 2 ^ (int_bits k - 1) <= z < 2 ^ (int_bits k - 1)).
Proof. exact BridgeFacts.wrap_int_fits_iff. Qed.

(* trunc_dec is truncation toward zero of (-1)^n * c * 10^e: exact for e >= 0; for e < 0 its
   magnitude q satisfies q * 10^-e <= c < (q+1) * 10^-e, and it carries the sign of the number *)
Theorem trunc_dec_spec : forall n c e, 0 <= c ->
  (0 <= e -> trunc_dec (Fin n c e) = scoef n (c * pow10 e)) /\
  (e < 0 ->
     let q := c / pow10 (- e) in
     trunc_dec (Fin n c e) = scoef n q /\
     0 <= q /\ q * pow10 (- e) <= c < (q + 1) * pow10 (- e) /\
     Z.abs (trunc_dec (Fin n c e)) = q).
Proof. exact BridgeFacts.trunc_dec_spec. Qed.

(* "and to floats by nearest value": the float is represented by the decimal's text; the rounding
   of that text to binary64/binary32 (strconv) is outside the model *)
Theorem num_to_float : forall is32 d, conv_to (TFloat is32) (VNum d) = Ok (VGoFloat (dec_to_string d)).
Proof. exact BridgeFacts.num_to_float. Qed.

(* "anything to string by formatting": every non-null value that convToString formats (strings
   unchanged, numbers, booleans and Go integers by their text, arrays and maps by the texts of their elements)
   arrives as that text; null - the untyped nil or a typed nil pointer - arrives as "" *)
Theorem any_to_string_formats :
  (forall v s, is_null v = false -> conv_to_string v = Some s -> conv_to TString v = Ok (VStr s)) /\
  conv_to TString VNull = Ok (VStr []).
Proof. exact BridgeFacts.any_to_string_formats. Qed.

(* the same in one equation *)
Theorem any_to_string_formats_gen : forall v s,
  conv_to_string v = Some s ->
  conv_to TString v = Ok (VStr (if is_null v then [] else s)).
Proof. exact BridgeFacts.any_to_string_formats_gen. Qed.

Theorem null_to_string_is_empty : conv_to TString VNull = Ok (VStr []) /\ conv_to TString VNilPtr = Ok (VStr []).
Proof. exact BridgeFacts.null_to_string_is_empty. Qed.

(* in particular a Go integer that formatInput leaves alone (int8, int16, uints from the data map)
   arrives as its digits: int8(65) arrives as "65" (not as the string of that code point, "A") *)
Theorem goint_to_string_is_digits : forall k n,
  conv_to TString (VGoInt k n) = Ok (VStr (dec_to_string (dec_of_Z n))).
Proof. exact BridgeFacts.goint_to_string_is_digits. Qed.

Theorem goint_to_string_example : conv_to TString (VGoInt GInt8 65) = Ok (VStr [54; 53]).
Proof. exact BridgeFacts.ex_goint_to_string. Qed.

(* "null to nil for interface parameters" *)
Theorem null_to_interface_is_nil : conv_to TIface VNull = Ok VNull.
Proof. exact BridgeFacts.null_to_interface_is_nil. Qed.

(* "arrays element-wise to slices" *)
Theorem array_to_slice_elementwise : forall t l l',
  conv_to (TSlice t) (VArr l) = Ok (VArr l') ->
  Forall2 (fun x x' => conv_to t x = Ok x') l l'.
Proof. exact BridgeFacts.array_to_slice_elementwise. Qed.

Theorem array_to_slice_elementwise_conv : forall t l l',
  Forall2 (fun x x' => conv_to t x = Ok x') l l' ->
  conv_to (TSlice t) (VArr l) = Ok (VArr l').
Proof. exact BridgeFacts.array_to_slice_elementwise_conv. Qed.

(* an element that converts to nil (null for an interface element type) is kept as nil *)
Theorem null_element_kept : forall l1 l2 l1' l2',
  conv_to (TSlice TIface) (VArr l1) = Ok (VArr l1') ->
  conv_to (TSlice TIface) (VArr l2) = Ok (VArr l2') ->
  conv_to (TSlice TIface) (VArr (l1 ++ VNull :: l2)) = Ok (VArr (l1' ++ VNull :: l2')).
Proof. exact BridgeFacts.null_element_kept. Qed.

Theorem null_element_kept_example :
  conv_to (TSlice TIface) (VArr [VStr [97]; VNull; VBool true]) = Ok (VArr [VStr [97]; VNull; VBool true]).
Proof. exact BridgeFacts.ex_null_element_kept. Qed.

(* maps to Go maps entry by entry: same keys in the same order, each value converted to the element
   type; an entry whose value converts to nil is kept *)
Theorem map_to_map_entrywise : forall t m m',
  conv_to (TMapStr t) (VMap m) = Ok (VMap m') <->
  Forall2 (fun e e' => fst e' = fst e /\ conv_to t (snd e) = Ok (snd e')) m m'.
Proof. exact BridgeFacts.map_to_map_entrywise. Qed.

Theorem map_keys_kept : forall t m m',
  conv_to (TMapStr t) (VMap m) = Ok (VMap m') -> map fst m' = map fst m.
Proof. exact BridgeFacts.map_keys_kept. Qed.

Theorem null_entry_kept_example :
  conv_to (TMapStr TIface) (VMap [([97], VNull); ([98], VBool true)]) = Ok (VMap [([97], VNull); ([98], VBool true)]).
Proof. exact BridgeFacts.ex_null_entry_kept. Qed.

(* ---------------- 4. results become formula numbers ---------------- *)

(* "a returned Go int, int32, int64, float32 or float64 becomes a formula number"
   (float32 and float64 are both VGoFloat) *)
Theorem results_normalised :
  (forall n, format_input (VGoInt GInt n) = VNum (dec_of_Z n)) /\
  (forall n, format_input (VGoInt GInt32 n) = VNum (dec_of_Z n)) /\
  (forall n, format_input (VGoInt GInt64 n) = VNum (dec_of_Z n)) /\
  (forall s, format_input (VGoFloat s) = VNum (dec_of_string s)).
Proof. exact BridgeFacts.results_normalised. Qed.

(* every node result of the evaluator went through formatInput ([fmt] in [eval]) ... *)
Theorem eval_result_normalised : forall hosts off e st v st',
  eval hosts off e st = (Ok v, st') -> normalised v = true.
Proof. exact BridgeFacts.eval_result_normalised. Qed.

(* ... in particular the value of a successful host call *)
Theorem call_result_normalised : forall hosts off f args sp st fv st1 vs st2 id h cargs,
  eval hosts off f st = (Ok fv, st1) ->
  is_name_path f = true ->
  eval_list hosts off args st1 = (Ok vs, st2) ->
  fv = VFunc id ->
  host_lookup id hosts = Some h ->
  arity_ok (h_sig h) (length vs) sp = true ->
  spread_ok (h_sig h) vs sp = true ->
  conv_args (sig_params (h_sig h)) (sig_variadic (h_sig h)) (expanded_args vs sp) = Ok cargs ->
  sig_nres (h_sig h) = 2 -> h_fail h = false ->
  eval hosts off (SCall f args sp) st =
  (Ok (format_input (h_result h)), mkR (r_this st2) ((id, cargs) :: r_trace st2)).
Proof. exact BridgeFacts.call_node_result_normalised. Qed.

(* ---------------- 5. builtins go through the same bridge ---------------- *)

Theorem builtin_outcome : forall hosts off name sg args spread st,
  builtin_sig name = Some sg ->
  call_value hosts off (VBuiltin name) args spread st =
  if arity_ok sg (length args) spread && spread_ok sg args spread then
    match conv_args (sig_params sg) (sig_variadic sg) (expanded_args args spread) with
    | Ok cargs => (builtin_call off name cargs, st)
    | Err => (Err, st)
    | Panic => (Panic, st)
    | Unk => (Unk, st)
    end
  else (Err, st).
Proof. exact BridgeFacts.builtin_outcome. Qed.

(* every builtin name has a signature (with two results) *)
Theorem builtin_sig_total : forall name, In name builtin_names ->
  exists sg, builtin_sig name = Some sg /\ sig_nres sg = 2.
Proof. exact BridgeFacts.builtin_sig_total_in. Qed.

(* ---------------- 6. concrete calls ---------------- *)
(* ex_hosts: 7 = add(ctx, string, *decimal.Big) returning int64 5; 8 = cat(string, ...int)
   returning "r"; 9 = bad(string) returning an error.  ex_st binds add, cat, bad; empty trace. *)

(* add("a", 2.5): one call with ("a", 2.5); the int64 5 comes back as the number 5 *)
Theorem example_call_ok :
  eval ex_hosts 0 (SCall (id_ "add") [str_ "a"; num_ "2.5"] false) ex_st =
  (Ok (VNum (dec_of_Z 5)), mkR (r_this ex_st) [(7, [VStr (str "a"); VNum (Fin false 25 (-1))])]).
Proof. exact BridgeFacts.ex_call_ok. Qed.

(* add("a"): count does not fit - Err, not called *)
Theorem example_call_arity :
  eval ex_hosts 0 (SCall (id_ "add") [str_ "a"] false) ex_st = (Err, ex_st).
Proof. exact BridgeFacts.ex_call_arity. Qed.

(* add("a", true): a boolean does not convert to *decimal.Big - Err, not called *)
Theorem example_call_conv :
  eval ex_hosts 0 (SCall (id_ "add") [str_ "a"; SLit KTrue []] false) ex_st = (Err, ex_st).
Proof. exact BridgeFacts.ex_call_conv. Qed.

(* cat("x", [1, 2.9]...): spread over the variadic tail, numbers truncated toward zero *)
Theorem example_call_spread :
  eval ex_hosts 0 (SCall (id_ "cat") [str_ "x"; SArr [num_ "1"; num_ "2.9"]] true) ex_st =
  (Ok (VStr (str "r")), mkR (r_this ex_st) [(8, [VStr (str "x"); VGoInt GInt 1; VGoInt GInt 2])]).
Proof. exact BridgeFacts.ex_call_spread. Qed.

(* add("a", [1]...) and cat("x", 1...): spread misuse - Err, not called *)
Theorem example_call_spread_misuse :
  eval ex_hosts 0 (SCall (id_ "add") [str_ "a"; SArr [num_ "1"]] true) ex_st = (Err, ex_st) /\
  eval ex_hosts 0 (SCall (id_ "cat") [str_ "x"; num_ "1"] true) ex_st = (Err, ex_st).
Proof. exact BridgeFacts.ex_call_spread_misuse. Qed.

(* bad("x"): called once, its error aborts *)
Theorem example_call_fails :
  eval ex_hosts 0 (SCall (id_ "bad") [str_ "x"] false) ex_st =
  (Err, mkR (r_this ex_st) [(9, [VStr (str "x")])]).
Proof. exact BridgeFacts.ex_call_fails. Qed.

(* [add("a", 1), cat("x")]: two calls, left to right (trace is most recent first) *)
Theorem example_two_calls :
  eval ex_hosts 0 (SArr [SCall (id_ "add") [str_ "a"; num_ "1"] false;
                         SCall (id_ "cat") [str_ "x"] false]) ex_st =
  (Ok (VArr [VNum (dec_of_Z 5); VStr (str "r")]),
   mkR (r_this ex_st) [(8, [VStr (str "x")]); (7, [VStr (str "a"); VNum (Fin false 1 0)])]).
Proof. exact BridgeFacts.ex_two_calls. Qed.

(* "anything to string by formatting", arrays and maps: the elements between brackets, separated by one space,
   each by its own text ([shows x p] : show_value x = Some p); the entries of a map as key:text in the byte order
   of the keys *)
Theorem array_to_string_param : forall l parts, Forall2 shows l parts ->
  conv_to TString (VArr l) = Ok (VStr (91 :: join_strs parts [32] ++ [93])%list).
Proof. exact ShowFacts.array_to_string_param. Qed.

Theorem map_to_string_param : forall m ents,
  Forall2 (fun kx e => fst e = fst kx /\ shows (snd kx) (snd e)) m ents ->
  conv_to TString (VMap m) =
  Ok (VStr (str "map[" ++ join_strs (map (fun e => fst e ++ 58 :: snd e) (sort_ents ents)) [32] ++ [93])%list).
Proof. exact ShowFacts.map_to_string_param. Qed.

(* the sort used there is a sort: a permutation of its input in non-decreasing key order, strictly increasing and
   independent of the input order when the keys are distinct (as the keys of a map are) *)
Theorem sort_ents_perm : forall l, Permutation (sort_ents l) l.
Proof. exact ShowFacts.sort_ents_perm. Qed.
Theorem sort_ents_strict : forall l, NoDup (map fst l) ->
  Sorted.StronglySorted (fun a b => bytes_ltb (fst a) (fst b) = true) (sort_ents l).
Proof. exact ShowFacts.sort_ents_strict. Qed.

(* so the text a host function receives for a map does not depend on the order in which Go iterates over it *)
Theorem map_to_string_param_order_independent : forall m m', NoDup (map fst m) -> Permutation m m' ->
  conv_to TString (VMap m) = conv_to TString (VMap m').
Proof. exact ShowFacts.map_to_string_param_order_independent. Qed.

(* and data made of strings, booleans, numbers other than NaN, Go integers, nil, and arrays and maps of these to
   any depth always has a text: the string parameter always receives one *)
Theorem printable_to_string_param : forall v, printable v = true -> exists s, conv_to TString v = Ok (VStr s).
Proof. exact ShowFacts.printable_to_string_param. Qed.

Example to_string_param_examples :
  conv_to TString (VArr [VGoInt GInt8 (-3); VStr (str "a b"); VNilPtr; VArr [VArr []]; VMap [(str "k", VBool false)]])
    = Ok (VStr (str "[-3 a b <nil> [[]] map[k:false]]")) /\
  conv_to TString (VMap [(str "b", VNull); (str "", VArr [VNum (dec_of_Z 7)]); (str "B", VStr [])])
    = Ok (VStr (str "map[:[7] B: b:<nil>]")) /\
  conv_to TString (VArr [VOpaque 1]) = Unk.
Proof. exact ShowFacts.to_string_param_examples. Qed.

(* "(or a builtin)": the builtins are called through the same bridge, with the signatures the model gives them -
   and those are the signatures of the code: Gen/ImplBuiltins.v is the builtin table of the running library, read by
   reflection on every run; every function in it has exactly the model's signature, and the model has no other name *)
Theorem builtin_signature_is_the_code's : forall name sg,
  In (name, sg) impl_builtin_sigs -> builtin_sig name = Some sg.
Proof. exact BuiltinsTie.builtin_signature_is_the_code's. Qed.

Theorem builtin_names_are_the_code's : forall n,
  In n builtin_names -> exists n' sg, In (n', sg) impl_builtin_sigs /\ bytes_eqb n n' = true.
Proof. exact BuiltinsTie.builtin_names_are_the_code's. Qed.

Print Assumptions call_node_invokes_bridge_once.
Print Assumptions args_left_to_right.
Print Assumptions host_called_at_most_once.
Print Assumptions called_iff_fits.
Print Assumptions not_called_on_error.
Print Assumptions spread_misuse_is_error.
Print Assumptions call_outcome.
Print Assumptions error_result_aborts.
Print Assumptions args_in_order.
Print Assumptions fixed_params_by_position.
Print Assumptions variadic_tail_converted_by_element_type.
Print Assumptions spread_expands_tail.
Print Assumptions spread_call_trace.
Print Assumptions num_to_int_truncates.
Print Assumptions num_out_of_range_is_error.
Print Assumptions num_to_int_iff.
Print Assumptions fits_kind_iff.
Print Assumptions trunc_dec_spec.
Print Assumptions num_to_float.
Print Assumptions any_to_string_formats.
Print Assumptions any_to_string_formats_gen.
Print Assumptions null_to_string_is_empty.
Print Assumptions goint_to_string_is_digits.
Print Assumptions goint_to_string_example.
Print Assumptions null_to_interface_is_nil.
Print Assumptions array_to_slice_elementwise.
Print Assumptions array_to_slice_elementwise_conv.
Print Assumptions null_element_kept.
Print Assumptions null_element_kept_example.
Print Assumptions map_to_map_entrywise.
Print Assumptions map_keys_kept.
Print Assumptions null_entry_kept_example.
Print Assumptions results_normalised.
Print Assumptions eval_result_normalised.
Print Assumptions call_result_normalised.
Print Assumptions builtin_outcome.
Print Assumptions builtin_sig_total.
Print Assumptions example_call_ok.
Print Assumptions example_call_arity.
Print Assumptions example_call_conv.
Print Assumptions example_call_spread.
Print Assumptions example_call_spread_misuse.
Print Assumptions example_call_fails.
Print Assumptions example_two_calls.
Print Assumptions array_to_string_param.
Print Assumptions map_to_string_param.
Print Assumptions sort_ents_perm.
Print Assumptions sort_ents_strict.
Print Assumptions map_to_string_param_order_independent.
Print Assumptions printable_to_string_param.
Print Assumptions to_string_param_examples.
Print Assumptions builtin_signature_is_the_code's.
Print Assumptions builtin_names_are_the_code's.
