(* C19 - Date builtins agree with the proleptic Gregorian calendar and preserve instants.
   A time is `mkTime ns off`: nanoseconds since the Unix epoch and the offset (seconds) of its
   fixed-offset zone; NS = 10^9.  `days_from_civil y m d` / `civil_from_days z` are the model's
   conversions between civil dates and day numbers (day 0 = 1970-01-01); t_year .. t_second,
   t_weekday, t_millis the fields of a time in its own zone; `go_date` is time.Date
   (Sem/Builtins.v).  `builtin_apply off name args` is the semantics of the builtin `name` on
   converted arguments, `off` the offset of the local zone (Sem/Eval.v).
   `leap`, `days_in_month`, `valid_date` (Proofs/BuiltinDateFacts.v) are the textbook Gregorian
   rules - an independent description against which the day-number arithmetic is checked.
   NOT COVERED: now, toDay inside a formula (the model answers Unk: clock_not_modelled), the zone abbreviation
   in a layout of timeFormat;
   zones with daylight saving (the model has fixed-offset zones only). *)
From Coq Require Import String Ascii.
From Coq Require Import List ZArith.
From Formula Require Import Gen.Effects Conc.Footprint Sem.Value Sem.Builtins Sem.TimeFormat Sem.Clock Sem.Eval Proofs.BuiltinDateFacts Proofs.ClockFacts Proofs.TimeFormatFacts.
Local Open Scope Z_scope.

(* ---- the reference calendar, spelled out ---- *)

Theorem gregorian_rules : forall y m d,
  leap y = (y mod 4 =? 0) && (negb (y mod 100 =? 0) || (y mod 400 =? 0)) /\
  days_in_month y m =
    (if m =? 2 then (if leap y then 29 else 28)
     else if (m =? 4) || (m =? 6) || (m =? 9) || (m =? 11) then 30 else 31) /\
  valid_date y m d = (1 <=? m) && (m <=? 12) && (1 <=? d) && (d <=? days_in_month y m).
Proof. exact BuiltinDateFacts.gregorian_rules. Qed.

(* ---- days_from_civil and civil_from_days are inverse bijections, for ALL years in Z ---- *)

Theorem days_civil_inverse : forall y m d, valid_date y m d = true ->
  civil_from_days (days_from_civil y m d) = (y, m, d).
Proof. exact BuiltinDateFacts.days_civil_inverse. Qed.

Theorem civil_days_inverse : forall z,
  let '(y, m, d) := civil_from_days z in days_from_civil y m d = z /\ valid_date y m d = true.
Proof. exact BuiltinDateFacts.civil_days_inverse. Qed.

(* consecutive days of a month have consecutive day numbers; the day after the last day of a
   month is the first of the next month *)
Theorem days_from_civil_day : forall y m d, days_from_civil y m d = days_from_civil y m 1 + (d - 1).
Proof. exact BuiltinDateFacts.days_from_civil_day. Qed.

Theorem date_day_carry : forall y m, 1 <= m <= 12 ->
  civil_from_days (days_from_civil y m 1 + (days_in_month y m + 1 - 1)) =
  (if m =? 12 then (y + 1, 1, 1) else (y, m + 1, 1)).
Proof. exact BuiltinDateFacts.date_day_carry. Qed.

Theorem epoch_examples :
  days_from_civil 1970 1 1 = 0 /\ civil_from_days 0 = (1970, 1, 1) /\
  days_from_civil 2000 2 29 = 11016 /\ civil_from_days 11017 = (2000, 3, 1) /\
  civil_from_days (-719528) = (0, 1, 1) /\ civil_from_days (-719529) = (-1, 12, 31) /\
  valid_date 2000 2 29 = true /\ valid_date 1900 2 29 = false.
Proof. exact BuiltinDateFacts.ex_epoch. Qed.

(* ---- date(y,m,d) is local midnight of that civil date, out-of-range months and days carried ---- *)

(* for ALL integers y m d: months are carried into the year ((y', m') below), then the date is the
   one d - 1 days after (before) the first of that month; the time of day is 00:00:00.0 in the
   local zone, i.e. the instant is (day number * 86400 - off) seconds *)
Theorem date_spec : forall off k1 y k2 m k3 d, exists t,
  builtin_apply off (str "date") [VGoInt k1 y; VGoInt k2 m; VGoInt k3 d] = Ok (VTime t) /\
  let y' := y + (m - 1) / 12 in
  let m' := (m - 1) mod 12 + 1 in
  1 <= m' <= 12 /\ 12 * y' + (m' - 1) = 12 * y + (m - 1) /\
  (t_year t, t_month t, t_day t) = civil_from_days (days_from_civil y' m' 1 + (d - 1)) /\
  t_hour t = 0 /\ t_minute t = 0 /\ t_second t = 0 /\ t_ns t mod NS = 0 /\ t_off t = off /\
  t_ns t = ((days_from_civil y' m' 1 + (d - 1)) * 86400 - off) * NS.
Proof. exact BuiltinDateFacts.date_spec. Qed.

(* in-range month and day: the fields read back are the arguments *)
Theorem date_fields_roundtrip : forall off k1 y k2 m k3 d, valid_date y m d = true -> exists t,
  builtin_apply off (str "date") [VGoInt k1 y; VGoInt k2 m; VGoInt k3 d] = Ok (VTime t) /\
  t_year t = y /\ t_month t = m /\ t_day t = d /\
  t_hour t = 0 /\ t_minute t = 0 /\ t_second t = 0 /\ t_off t = off.
Proof. exact BuiltinDateFacts.date_fields_roundtrip. Qed.

Theorem date_examples :
  (let t := go_date 2024 14 31 0 0 0 0 28800 in (t_year t, t_month t, t_day t, t_hour t)) = (2025, 3, 3, 0) /\
  (let t := go_date 2024 3 0 0 0 0 0 0 in (t_year t, t_month t, t_day t)) = (2024, 2, 29) /\
  (let t := go_date 2023 (-1) 15 0 0 0 0 (-18000) in (t_year t, t_month t, t_day t)) = (2022, 11, 15) /\
  valid_date 2024 2 29 = true.
Proof. exact BuiltinDateFacts.ex_date. Qed.

(* ---- year month day hour minute second: the civil fields of the time in its own zone ---- *)

(* the local time t_ns/10^9 + t_off (floor) decomposes as day number of a valid civil date
   (y, m, d) times 86400 plus h:mi:s, each in its range *)
Theorem fields_spec : forall off t,
  builtin_apply off (str "year") [VTime t] = Ok (VGoInt GInt (t_year t)) /\
  builtin_apply off (str "month") [VTime t] = Ok (VGoInt GInt (t_month t)) /\
  builtin_apply off (str "day") [VTime t] = Ok (VGoInt GInt (t_day t)) /\
  builtin_apply off (str "hour") [VTime t] = Ok (VGoInt GInt (t_hour t)) /\
  builtin_apply off (str "minute") [VTime t] = Ok (VGoInt GInt (t_minute t)) /\
  builtin_apply off (str "second") [VTime t] = Ok (VGoInt GInt (t_second t)) /\
  valid_date (t_year t) (t_month t) (t_day t) = true /\
  0 <= t_hour t < 24 /\ 0 <= t_minute t < 60 /\ 0 <= t_second t < 60 /\
  t_ns t / NS + t_off t =
    days_from_civil (t_year t) (t_month t) (t_day t) * 86400 +
    t_hour t * 3600 + t_minute t * 60 + t_second t.
Proof. exact BuiltinDateFacts.fields_spec. Qed.

(* ---- weekDay: 0..6 with Sunday = 0 ---- *)

Theorem weekday_spec : forall off t,
  builtin_apply off (str "weekDay") [VTime t] = Ok (VGoInt GInt (t_weekday t)) /\
  0 <= t_weekday t <= 6 /\
  t_weekday t = (days_from_civil (t_year t) (t_month t) (t_day t) + 4) mod 7.
Proof. exact BuiltinDateFacts.weekday_spec. Qed.

Theorem weekday_succ : forall t t', t_days t' = t_days t + 1 -> t_weekday t' = (t_weekday t + 1) mod 7.
Proof. exact BuiltinDateFacts.weekday_succ. Qed.

Theorem weekday_period : forall t t' k, t_days t' = t_days t + 7 * k -> t_weekday t' = t_weekday t.
Proof. exact BuiltinDateFacts.weekday_period. Qed.

(* anchors: 1970-01-01 Thursday, 2000-01-01 Saturday, 2024-02-29 Thursday, 1969-12-28 Sunday *)
Theorem weekday_examples :
  t_weekday (mkTime 0 0) = 4 /\
  t_weekday (go_date 2000 1 1 0 0 0 0 0) = 6 /\
  t_weekday (go_date 2024 2 29 0 0 0 0 28800) = 4 /\
  t_weekday (go_date 1969 12 28 0 0 0 0 0) = 0.
Proof. exact BuiltinDateFacts.ex_weekday. Qed.

(* ---- millSecond: the Unix time in milliseconds (floor), independent of the zone ---- *)

Theorem millis_spec : forall off t,
  builtin_apply off (str "millSecond") [VTime t] = Ok (VGoInt GInt64 (t_ns t / 1000000)) /\
  1000000 * (t_ns t / 1000000) <= t_ns t < 1000000 * (t_ns t / 1000000 + 1) /\
  forall o, t_millis (mkTime (t_ns t) o) = t_millis t.
Proof. exact BuiltinDateFacts.millis_spec. Qed.

(* ---- addDate shifts the civil fields with the same carry rule, keeps time of day and zone ---- *)

Theorem addDate_spec : forall off t k1 y k2 m k3 d, exists t',
  builtin_apply off (str "addDate") [VTime t; VGoInt k1 y; VGoInt k2 m; VGoInt k3 d] = Ok (VTime t') /\
  t' = go_date (t_year t + y) (t_month t + m) (t_day t + d) (t_hour t) (t_minute t) (t_second t)
               (t_ns t mod NS) (t_off t) /\
  let Y := t_year t + y + (t_month t + m - 1) / 12 in
  let M := (t_month t + m - 1) mod 12 + 1 in
  (t_year t', t_month t', t_day t') = civil_from_days (days_from_civil Y M 1 + (t_day t + d - 1)) /\
  t_hour t' = t_hour t /\ t_minute t' = t_minute t /\ t_second t' = t_second t /\
  t_ns t' mod NS = t_ns t mod NS /\ t_off t' = t_off t.
Proof. exact BuiltinDateFacts.addDate_spec. Qed.

Theorem addDate_zero : forall off t k1 k2 k3,
  builtin_apply off (str "addDate") [VTime t; VGoInt k1 0; VGoInt k2 0; VGoInt k3 0] = Ok (VTime t).
Proof. exact BuiltinDateFacts.addDate_zero. Qed.

(* shifting by d days moves the instant by exactly d * 86400 seconds *)
Theorem addDate_days : forall off t k1 k2 k3 d, exists t',
  builtin_apply off (str "addDate") [VTime t; VGoInt k1 0; VGoInt k2 0; VGoInt k3 d] = Ok (VTime t') /\
  t_days t' = t_days t + d /\ t_sod t' = t_sod t /\ t_ns t' = t_ns t + d * 86400 * NS.
Proof. exact BuiltinDateFacts.addDate_days. Qed.

Theorem addDate_examples :
  (let t := t_add_date (go_date 2024 1 31 13 45 10 5 3600) 0 1 0 in
   (t_year t, t_month t, t_day t, t_hour t, t_minute t, t_second t, t_off t)) = (2024, 3, 2, 13, 45, 10, 3600) /\
  (let t := t_add_date (go_date 2023 12 31 23 59 59 0 0) 0 0 1 in
   (t_year t, t_month t, t_day t, t_hour t, t_minute t, t_second t)) = (2024, 1, 1, 23, 59, 59) /\
  (let t := t_add_date (go_date 2024 2 29 0 0 0 0 0) 1 0 0 in (t_year t, t_month t, t_day t)) = (2025, 3, 1).
Proof. exact BuiltinDateFacts.ex_addDate. Qed.

(* ---- useTimezone changes the zone, never the instant; an unknown zone is an error ---- *)

Theorem useTimezone_keeps_instant : forall off t s o, zone_lookup s zones = Some o -> exists t',
  builtin_apply off (str "useTimezone") [VTime t; VStr s] = Ok (VTime t') /\
  t_ns t' = t_ns t /\ t_off t' = o /\
  builtin_apply off (str "millSecond") [VTime t'] = builtin_apply off (str "millSecond") [VTime t].
Proof. exact BuiltinDateFacts.useTimezone_keeps_instant. Qed.

Theorem useTimezone_unknown_zone : forall off t s, zone_lookup s zones = None ->
  builtin_apply off (str "useTimezone") [VTime t; VStr s] = Err.
Proof. exact BuiltinDateFacts.useTimezone_unknown_zone. Qed.

Theorem useTimezone_local_time : forall t o, local_secs (mkTime (t_ns t) o) = local_secs t + (o - t_off t).
Proof. exact BuiltinDateFacts.useTimezone_local_time. Qed.

Theorem useTimezone_examples :
  zone_lookup (str "Etc/GMT-8") zones = Some 28800 /\
  zone_lookup (str "UTC") zones = Some 0 /\
  zone_lookup (str "Mars/Olympus") zones = None /\
  builtin_apply 0 (str "useTimezone") [VTime (mkTime 0 0); VStr (str "Mars/Olympus")] = Err /\
  builtin_apply 0 (str "hour") [VTime (mkTime 0 28800)] = Ok (gi 8) /\
  builtin_apply 0 (str "useTimezone") [VTime (mkTime 86399000000000 0); VStr (str "Etc/GMT-8")] =
    Ok (VTime (mkTime 86399000000000 28800)) /\
  (let t := mkTime 86399000000000 28800 in (t_year t, t_month t, t_day t, t_hour t, t_minute t, t_second t)) =
    (1970, 1, 2, 7, 59, 59).
Proof. exact BuiltinDateFacts.ex_useTimezone. Qed.

(* ---- now, toDay: functions of the one clock reading the code takes ---- *)

(* the code side (effect table regenerated from the SSA form on every run): the environment is read by funNow and
   funToDay only, each at exactly one call site of time.Now - year, month and day of toDay come from one instant *)
Theorem clock_read_once : env_discipline = true.
Proof. exact environment_read_by_clock_builtins_once. Qed.

Theorem toDay_is_local_midnight : forall t,
  t_hour (today_of t) = 0 /\ t_minute (today_of t) = 0 /\ t_second (today_of t) = 0 /\
  t_days (today_of t) = t_days t /\ t_off (today_of t) = t_off t /\
  t_year (today_of t) = t_year t /\ t_month (today_of t) = t_month t /\ t_day (today_of t) = t_day t.
Proof. exact today_is_local_midnight. Qed.

Theorem toDay_brackets_reading : forall t, t_ns (today_of t) <= t_ns t < t_ns (today_of t) + 86400 * NS.
Proof. exact today_brackets_reading. Qed.

Theorem toDay_within_call : forall lo hi t, in_bracket lo hi t -> t_days lo <= t_days (today_of t) <= t_days hi.
Proof. exact today_within_call. Qed.

Theorem now_within_call : forall lo hi t, in_bracket lo hi t -> t_ns lo <= t_ns (now_of t) <= t_ns hi.
Proof. exact ClockFacts.now_within_call. Qed.

Theorem toDay_example :
  today_of (mkTime 1700000000123456789 19800) = mkTime 1699986600000000000 19800 /\
  t_hour (mkTime 1699986600000000000 19800) = 0 /\ t_day (mkTime 1699986600000000000 19800) = 15.
Proof. exact today_example. Qed.

(* ---- timeFormat renders a time in the given layout: Sem/TimeFormat.v models Go's layout language (the chunker
   of time.nextStdChunk and the rendering of every layout element from the civil fields of the time in its own
   zone).  [time_format t layout] = None only for the zone ABBREVIATION ("MST"), which the model's times (an instant
   and an offset) do not carry ---- *)

Theorem timeFormat_is_time_format : forall off t s,
  builtin_apply off (str "timeFormat") [VTime t; VStr s] =
  match time_format t s with Some r => Ok (VStr r) | None => Unk end.
Proof. exact BuiltinDateFacts.ba_timeFormat. Qed.

(* every round of the formatter consumes at least one byte of the layout: it terminates, whatever the layout *)
Theorem layout_chunk_shrinks : forall l p s r, next_chunk l = (p, Some s, r) -> (length r < length l)%nat.
Proof. exact TimeFormatFacts.next_chunk_shrinks. Qed.
Theorem format_fuel_enough : forall t f l, (length l < f)%nat -> format_fuel f t l = time_format t l.
Proof. exact TimeFormatFacts.format_fuel_enough. Qed.

(* a layout in which "MST" does not occur always has a rendering *)
Theorem time_format_total : forall t l, (forall i, pre "MST" (skipn i l) = false) -> exists s, time_format t l = Some s.
Proof. exact TimeFormatFacts.time_format_total. Qed.
Theorem time_format_mst_unmodelled : forall t, time_format t (str "MST") = None.
Proof. exact TimeFormatFacts.time_format_mst_unmodelled. Qed.

(* text without any layout character (J M 0 1 2 _ 3 4 5 P p - Z . ,) is copied unchanged *)
Theorem time_format_plain : forall t l, forallb (fun b => negb (trigger b)) l = true -> time_format t l = Some l.
Proof. exact TimeFormatFacts.time_format_plain. Qed.

(* the common layouts, as equations over the civil fields ([append_int x w]: x in decimal, zero-padded to w digits) *)
Theorem append_int_2 : forall x, 0 <= x < 100 -> append_int x 2 = [48 + x / 10; 48 + x mod 10].
Proof. exact TimeFormatFacts.append_int_2. Qed.
Theorem append_int_4 : forall x, 0 <= x <= 9999 ->
  append_int x 4 = [48 + x / 1000; 48 + (x / 100) mod 10; 48 + (x / 10) mod 10; 48 + x mod 10].
Proof. exact TimeFormatFacts.append_int_4. Qed.
Theorem format_iso_date : forall t, time_format t (str "2006-01-02") =
  Some (append_int (t_year t) 4 ++ [45] ++ append_int (t_month t) 2 ++ [45] ++ append_int (t_day t) 2).
Proof. exact TimeFormatFacts.format_iso_date. Qed.
Theorem format_clock : forall t, time_format t (str "15:04:05") =
  Some (append_int (t_hour t) 2 ++ [58] ++ append_int (t_minute t) 2 ++ [58] ++ append_int (t_second t) 2).
Proof. exact TimeFormatFacts.format_clock. Qed.
Theorem format_rfc3339_utc : forall t, t_off t = 0 -> time_format t (str "2006-01-02T15:04:05Z07:00") =
  Some (append_int (t_year t) 4 ++ [45] ++ append_int (t_month t) 2 ++ [45] ++ append_int (t_day t) 2 ++ [84] ++
        append_int (t_hour t) 2 ++ [58] ++ append_int (t_minute t) 2 ++ [58] ++ append_int (t_second t) 2 ++ [90]).
Proof. exact TimeFormatFacts.format_rfc3339_utc. Qed.

(* end to end with the calendar: the text of "2006-01-02" for the date built from a valid y-m-d (in any zone) is that
   civil date, zero-padded *)
Theorem format_date_of_valid_date : forall y m d off, valid_date y m d = true -> 0 <= y <= 9999 ->
  time_format (go_date y m d 0 0 0 0 off) (str "2006-01-02") =
  Some ([48 + y / 1000; 48 + (y / 100) mod 10; 48 + (y / 10) mod 10; 48 + y mod 10] ++ [45] ++
        [48 + m / 10; 48 + m mod 10] ++ [45] ++ [48 + d / 10; 48 + d mod 10]).
Proof. exact TimeFormatFacts.format_date_of_valid_date. Qed.

(* 30 outputs of Go's own Time.Format (three times x ten layouts: every element, near misses, odd offsets) *)
Example go_format_reference :
  time_format (mkTime 1707102429012345600 19800) (str "2006-01-02T15:04:05Z07:00") = Some (str "2024-02-05T08:37:09+05:30") /\
  time_format (mkTime 1707102429012345600 19800) (str "Mon, 02 Jan 2006 15:04:05 -0700") = Some (str "Mon, 05 Feb 2024 08:37:09 +0530") /\
  time_format (mkTime 1707102429012345600 19800) (str "Monday, 02-Jan-06 3:04:05.000PM") = Some (str "Monday, 05-Feb-24 8:37:09.012AM") /\
  time_format (mkTime 1707102429012345600 19800) (str "Jan _2 15:04:05.999999999") = Some (str "Feb  5 08:37:09.0123456") /\
  time_format (mkTime 1707102429012345600 19800) (str "002 __2 _2006 1/2/06") = Some (str "036  36 _2024 2/5/24") /\
  time_format (mkTime 1707102429012345600 19800) (str "January Janet Month Monday") = Some (str "February Janet Month Monday") /\
  time_format (mkTime 1707102429012345600 19800) (str "Z070000 -07:00:00 -07 Z07") = Some (str "+053000 +05:30:00 +05 +05") /\
  time_format (mkTime 1707102429012345600 19800) (str "05,000000 .00x .0000000000") = Some (str "09,012345 .01x .012345600") /\
  time_format (mkTime 1707102429012345600 19800) (str "3:4:5 pm PM") = Some (str "8:37:9 am AM") /\
  time_format (mkTime 1707102429012345600 19800) (str "no digits here") = Some (str "no digits here") /\
  time_format (mkTime (-1) 0) (str "2006-01-02T15:04:05Z07:00") = Some (str "1969-12-31T23:59:59Z") /\
  time_format (mkTime (-1) 0) (str "Mon, 02 Jan 2006 15:04:05 -0700") = Some (str "Wed, 31 Dec 1969 23:59:59 +0000") /\
  time_format (mkTime (-1) 0) (str "Monday, 02-Jan-06 3:04:05.000PM") = Some (str "Wednesday, 31-Dec-69 11:59:59.999PM") /\
  time_format (mkTime (-1) 0) (str "Jan _2 15:04:05.999999999") = Some (str "Dec 31 23:59:59.999999999") /\
  time_format (mkTime (-1) 0) (str "002 __2 _2006 1/2/06") = Some (str "365 365 _1969 12/31/69") /\
  time_format (mkTime (-1) 0) (str "January Janet Month Monday") = Some (str "December Janet Month Wednesday") /\
  time_format (mkTime (-1) 0) (str "Z070000 -07:00:00 -07 Z07") = Some (str "Z +00:00:00 +00 Z") /\
  time_format (mkTime (-1) 0) (str "05,000000 .00x .0000000000") = Some (str "59,999999 .99x .999999999") /\
  time_format (mkTime (-1) 0) (str "3:4:5 pm PM") = Some (str "11:59:59 pm PM") /\
  time_format (mkTime (-1) 0) (str "no digits here") = Some (str "no digits here") /\
  time_format (mkTime 1709164800000000000 (-90)) (str "2006-01-02T15:04:05Z07:00") = Some (str "2024-02-28T23:58:30-00:01") /\
  time_format (mkTime 1709164800000000000 (-90)) (str "Mon, 02 Jan 2006 15:04:05 -0700") = Some (str "Wed, 28 Feb 2024 23:58:30 -0001") /\
  time_format (mkTime 1709164800000000000 (-90)) (str "Monday, 02-Jan-06 3:04:05.000PM") = Some (str "Wednesday, 28-Feb-24 11:58:30.000PM") /\
  time_format (mkTime 1709164800000000000 (-90)) (str "Jan _2 15:04:05.999999999") = Some (str "Feb 28 23:58:30") /\
  time_format (mkTime 1709164800000000000 (-90)) (str "002 __2 _2006 1/2/06") = Some (str "059  59 _2024 2/28/24") /\
  time_format (mkTime 1709164800000000000 (-90)) (str "January Janet Month Monday") = Some (str "February Janet Month Wednesday") /\
  time_format (mkTime 1709164800000000000 (-90)) (str "Z070000 -07:00:00 -07 Z07") = Some (str "-000130 -00:01:30 -00 -00") /\
  time_format (mkTime 1709164800000000000 (-90)) (str "05,000000 .00x .0000000000") = Some (str "30,000000 .00x .000000000") /\
  time_format (mkTime 1709164800000000000 (-90)) (str "3:4:5 pm PM") = Some (str "11:58:30 pm PM") /\
  time_format (mkTime 1709164800000000000 (-90)) (str "no digits here") = Some (str "no digits here").
Proof. exact TimeFormatFacts.go_format_reference. Qed.

(* ---- now / toDay inside a formula: the evaluator model has no clock (Unk), the clock
   model above is compared with the implementation separately ---- *)

Theorem clock_not_modelled : forall off,
  builtin_apply off (str "now") [] = Unk /\ builtin_apply off (str "toDay") [] = Unk.
Proof. exact BuiltinDateFacts.clock_not_modelled. Qed.

Print Assumptions clock_read_once.
Print Assumptions toDay_is_local_midnight.
Print Assumptions toDay_brackets_reading.
Print Assumptions toDay_within_call.
Print Assumptions now_within_call.
Print Assumptions toDay_example.
Print Assumptions gregorian_rules.
Print Assumptions days_civil_inverse.
Print Assumptions civil_days_inverse.
Print Assumptions days_from_civil_day.
Print Assumptions date_day_carry.
Print Assumptions epoch_examples.
Print Assumptions date_spec.
Print Assumptions date_fields_roundtrip.
Print Assumptions date_examples.
Print Assumptions fields_spec.
Print Assumptions weekday_spec.
Print Assumptions weekday_succ.
Print Assumptions weekday_period.
Print Assumptions weekday_examples.
Print Assumptions millis_spec.
Print Assumptions addDate_spec.
Print Assumptions addDate_zero.
Print Assumptions addDate_days.
Print Assumptions addDate_examples.
Print Assumptions useTimezone_keeps_instant.
Print Assumptions useTimezone_unknown_zone.
Print Assumptions useTimezone_local_time.
Print Assumptions useTimezone_examples.
Print Assumptions clock_not_modelled.
Print Assumptions timeFormat_is_time_format.
Print Assumptions layout_chunk_shrinks.
Print Assumptions format_fuel_enough.
Print Assumptions time_format_total.
Print Assumptions time_format_mst_unmodelled.
Print Assumptions time_format_plain.
Print Assumptions append_int_2.
Print Assumptions append_int_4.
Print Assumptions format_iso_date.
Print Assumptions format_clock.
Print Assumptions format_rfc3339_utc.
Print Assumptions format_date_of_valid_date.
Print Assumptions go_format_reference.
