(* C12 - Numeric literals denote exactly the decimal number written.
   Syntax of literals ([lit], [lit_wf], [render], [denote], [groups], [render_groups]) is
   defined in Proofs/LiteralNum.v; scanner, decimal reader and evaluator are the models
   Lex/Scanner.v, Num/Dec.v, Sem/Eval.v. *)
From Formula Require Import Base.Utf8 Lex.Chars Lex.Scanner Num.Dec Sem.Eval.
From Formula Require Import Proofs.LiteralFacts.

(* ASCII bytes (all bytes of a literal) are decode steps of their own, whatever follows *)
Theorem decode_all_ascii : forall l r, Forall (fun b => 0 <= b < 128) l ->
  decode_all (l ++ r) = map (fun b => (b, [b])) l ++ decode_all r.
Proof. exact LiteralAscii.decode_all_ascii. Qed.

(* "digits, digits.digits, .digits or digits. with an optional exponent, single underscores
   between digits, evaluates to exactly that decimal number, however many digits": every
   well-formed literal, of any length, followed by anything that does not continue it, is one
   number token covering exactly its text, without diagnostics, whose value the decimal library
   reads as coefficient and exponent [denote l] *)
Theorem literal_scans : forall l rest pos, lit_wf l = true -> no_continuation l rest = true ->
  exists tok,
    scan_one (decode_all (render l ++ rest)) pos = (tok, decode_all rest) /\
    tk tok = KNumber /\ tdiags tok = [] /\
    tpos tok = pos /\ tend tok = pos + blen (render l) /\
    dec_of_string (tval tok) = Fin false (fst (denote l)) (snd (denote l)).
Proof. exact LiteralNum.literal_scans. Qed.

(* the evaluator returns the decimal library's reading of the token value unchanged: all
   digits of the coefficient are kept, there is no rounding on entry *)
Theorem literal_value_kept_exactly : forall hosts local_off v st, v <> [] ->
  eval hosts local_off (SLit KNumber v) st = (Ok (VNum (dec_of_string v)), st).
Proof. exact LiteralNum.literal_value_kept_exactly. Qed.

(* scanner and evaluator together *)
Theorem literal_evaluates_exactly : forall l rest pos hosts local_off st,
  lit_wf l = true -> no_continuation l rest = true ->
  let tok := fst (scan_one (decode_all (render l ++ rest)) pos) in
  eval hosts local_off (SLit KNumber (tval tok)) st =
  (Ok (VNum (Fin false (fst (denote l)) (snd (denote l)))), st).
Proof. exact LiteralNum.literal_evaluates_exactly. Qed.

(* "leading zeros are insignificant": zeros in front of the integer digits change neither
   the coefficient nor the exponent *)
Theorem leading_zeros_insignificant : forall l l' n,
  frac l' = frac l -> exp l' = exp l -> int_digits l' = repeat 48 n ++ int_digits l ->
  denote l' = denote l.
Proof. exact LiteralNum.leading_zeros_insignificant. Qed.

Theorem leading_zeros_instance : forall n g gs fo eo,
  let l := mkLit (Some (g :: gs)) fo eo in
  let l' := mkLit (Some ((repeat 48 n ++ g) :: gs)) fo eo in
  lit_wf l = true -> lit_wf l' = true /\ denote l' = denote l.
Proof. exact LiteralNum.leading_zeros_instance. Qed.

(* "a literal immediately followed by an identifier character is a syntax error": holds
   whenever the scanner does not take its hexadecimal branch ... *)
Theorem ident_after_literal_rejected_partial : forall l rest pos r bs R',
  lit_wf l = true -> decode_all rest = (r, bs) :: R' ->
  is_ident_start r = true -> r <> 95 -> has_exp l || negb (is_e r) = true ->
  hex_branch (decode_all (render l ++ rest)) = false ->
  exists tok n,
    scan_one (decode_all (render l ++ rest)) pos = (tok, decode_all rest) /\
    tk tok = KNumber /\
    tdiags tok = [(pos + blen (render l), n, C_Identifier_after_number)].
Proof. exact LiteralNum.ident_after_literal_rejected_partial. Qed.

(* ... which happens only for the literal 0 followed by x or X ... *)
Theorem hex_branch_only_for_zero_x : forall l R, lit_wf l = true ->
  hex_branch (asc (render l) ++ R) = true ->
  render l = [48] /\ exists r bs R', R = (r, bs) :: R' /\ (r =? 120) || (r =? 88) = true.
Proof. exact LiteralNum.hex_branch_lit. Qed.

(* ... and there the clause FAILS as worded: the literal 0 followed by the identifier
   characters xA raises no diagnostic; 0xA is one number token.  It is not a silently wrong
   number, though: its value is "10", read as exactly 10, the hexadecimal integer written *)
Theorem ident_after_literal_rejected_refuted : exists l rest,
  lit_wf l = true /\
  (exists r bs R', decode_all rest = (r, bs) :: R' /\ is_ident_start r = true /\ r <> 95 /\ is_e r = false) /\
  let tok := fst (scan_one (decode_all (render l ++ rest)) 0) in
  tk tok = KNumber /\ tdiags tok = [] /\ tend tok = 3 /\ tval tok = [49; 48] /\
  dec_of_string (tval tok) = Fin false 10 0.
Proof. exact LiteralNum.ident_after_literal_rejected_refuted. Qed.

(* the 0x / 0X forms are an extension beyond the four forms of the property text, and they
   denote exactly the hexadecimal integer written (so never a silently different number):
   "0x" or "0X", a non-empty run [hv] of hexadecimal digits of any length and either case,
   followed by the end of the input or anything that is not a hexadecimal digit, is one number
   token covering exactly that text, without diagnostics, whose value is the decimal spelling
   of [hex_value] of the lower-cased digits and is read by the decimal library as exactly that
   integer *)
Theorem hex_literal_value : forall x hv rest pos,
  (x =? 120) || (x =? 88) = true -> hv <> [] -> forallb is_hex_digit hv = true ->
  hex_stop (decode_all rest) = true ->
  exists tok,
    scan_one (decode_all (48 :: x :: hv ++ rest)) pos = (tok, decode_all rest) /\
    tk tok = KNumber /\ tdiags tok = [] /\
    tpos tok = pos /\ tend tok = pos + 2 + blen hv /\
    tval tok = dec_digits (hex_value (map hex_lower hv)) /\
    dec_of_string (tval tok) = Fin false (hex_value (map hex_lower hv)) 0.
Proof. exact LiteralNum.hex_literal_value. Qed.

(* the decimal spelling used for the value of a hexadecimal literal is read back exactly *)
Theorem dec_digits_spec : forall c, 0 <= c -> scan_digits (dec_digits c) 0 = Some c.
Proof. exact LiteralNum.dec_digits_spec. Qed.

(* "an exponent without digits is a syntax error": digits e [sign] followed by the end or by
   something that is neither a digit nor a separator *)
Theorem exponent_without_digits_rejected : forall l eb sg rest pos,
  lit_wf l = true -> exp l = None -> is_e eb = true -> sign_ok sg = true ->
  stop (decode_all rest) = true ->
  (sg = None -> nosign (decode_all rest) = true) ->
  exists tok,
    scan_one (decode_all (render l ++ eb :: sign_bytes sg ++ rest)) pos = (tok, decode_all rest) /\
    tk tok = KNumber /\
    In (pos + blen (render l) + 1 + blen (sign_bytes sg), 0, C_Digit_expected) (tdiags tok).
Proof. exact LiteralNum.exponent_without_digits_rejected. Qed.

(* "an underscore anywhere but between two digits of one digit group is a syntax error":
   the fragment scanner is silent on a run of digits and underscores exactly when the run is
   empty or the rendering of a digit-group sequence *)
Theorem fragment_diags_iff : forall m t pos, forallb fragbyte m = true -> stop t = true ->
  (frag_ds (fragment (asc m ++ t) pos) = [] <->
   m = [] \/ exists gs, groups_ok gs = true /\ m = render_groups gs).
Proof. exact LiteralNum.fragment_diags_iff. Qed.

(* leading, doubled and trailing separators each raise a diagnostic ... *)
Theorem misplaced_separator_rejected :
  (forall m t pos, frag_ds (fragment (asc (95 :: m) ++ t) pos) <> []) /\
  (forall a b t pos, forallb fragbyte a = true ->
     frag_ds (fragment (asc (a ++ 95 :: 95 :: b) ++ t) pos) <> []) /\
  (forall a t pos, forallb fragbyte a = true -> stop t = true ->
     frag_ds (fragment (asc (a ++ [95]) ++ t) pos) <> []).
Proof. exact LiteralNum.misplaced_separator_rejected. Qed.

(* ... and these are not renderings *)
Theorem not_rendering_cases : forall m, forallb fragbyte m = true ->
  (exists m', m = 95 :: m') \/ (exists m', m = m' ++ [95]) \/ (exists a b, m = a ++ 95 :: 95 :: b) ->
  ~ is_rendering m.
Proof. exact LiteralNum.not_rendering_cases. Qed.

(* the fragment diagnostics reach the token, in each of the three digit positions *)
Theorem misplaced_separator_in_integer_rejected : forall d m rest pos,
  is_digit d = true -> forallb fragbyte m = true -> ~ is_rendering (d :: m) ->
  stop (decode_all rest) = true ->
  tk (fst (scan_one (decode_all (d :: m ++ rest)) pos)) = KNumber /\
  tdiags (fst (scan_one (decode_all (d :: m ++ rest)) pos)) <> [].
Proof. exact LiteralNum.misplaced_separator_in_integer_rejected. Qed.

Theorem misplaced_separator_in_fraction_rejected : forall gi m rest pos,
  groups_ok gi = true -> forallb fragbyte m = true -> m <> [] -> ~ is_rendering m ->
  stop (decode_all rest) = true ->
  tk (fst (scan_one (decode_all (render_groups gi ++ 46 :: m ++ rest)) pos)) = KNumber /\
  tdiags (fst (scan_one (decode_all (render_groups gi ++ 46 :: m ++ rest)) pos)) <> [].
Proof. exact LiteralNum.misplaced_separator_in_fraction_rejected. Qed.

Theorem misplaced_separator_in_exponent_rejected : forall l eb sg m rest pos,
  lit_wf l = true -> exp l = None -> is_e eb = true -> sign_ok sg = true ->
  forallb fragbyte m = true -> m <> [] -> ~ is_rendering m -> stop (decode_all rest) = true ->
  tk (fst (scan_one (decode_all (render l ++ eb :: sign_bytes sg ++ m ++ rest)) pos)) = KNumber /\
  tdiags (fst (scan_one (decode_all (render l ++ eb :: sign_bytes sg ++ m ++ rest)) pos)) <> [].
Proof. exact LiteralNum.misplaced_separator_in_exponent_rejected. Qed.

Print Assumptions decode_all_ascii.
Print Assumptions literal_scans.
Print Assumptions literal_value_kept_exactly.
Print Assumptions literal_evaluates_exactly.
Print Assumptions leading_zeros_insignificant.
Print Assumptions leading_zeros_instance.
Print Assumptions ident_after_literal_rejected_partial.
Print Assumptions hex_branch_only_for_zero_x.
Print Assumptions ident_after_literal_rejected_refuted.
Print Assumptions hex_literal_value.
Print Assumptions dec_digits_spec.
Print Assumptions exponent_without_digits_rejected.
Print Assumptions fragment_diags_iff.
Print Assumptions misplaced_separator_rejected.
Print Assumptions not_rendering_cases.
Print Assumptions misplaced_separator_in_integer_rejected.
Print Assumptions misplaced_separator_in_fraction_rejected.
Print Assumptions misplaced_separator_in_exponent_rejected.
