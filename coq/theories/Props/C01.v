(* C01  Parsing is total: a tree or an error, never a crash, hang or half-built tree.
   Property theorems only; every proof is `exact` a lemma of Proofs/.
   parse_source text = scan the text, then run the recovering parser with fuel
   parse_fuel (number of tokens) = 40 * (n + 2), i.e. linear in the input. *)
From Formula Require Import Syn.Parser Syn.Grammar Proofs.ScannerFacts Proofs.ParserTotal
     Proofs.ParserTotalSource Proofs.SourceFacts Proofs.ParseResultFacts.

(* the scanner returns a token stream for EVERY byte string (valid UTF-8 or not) *)
Theorem C01_scan_total : forall text, exists toks, scan_all text = Some toks.
Proof. exact scan_all_total. Qed.

(* parsing never runs out of its linear fuel: for every byte string the parser returns *)
Theorem C01_parse_total : forall text, parse_source text <> OutOfFuel.
Proof. exact parse_source_total. Qed.

(* ... for every well-formed token stream, with the explicit linear fuel *)
Theorem C01_parse_tokens_total : forall toks,
  stream_ok toks -> parse_tokens (parse_fuel (length toks)) toks <> OutOfFuel.
Proof. exact parse_tokens_total. Qed.

(* exactly one of: a tree with no diagnostic (Accepted) or a syntax error carrying the first
   diagnostic (Rejected) - by the type of parse_result together with C01_parse_total *)
Theorem C01_tree_xor_error : forall text,
  (exists e, parse_source text = Accepted e) \/ (exists d ds e, parse_source text = Rejected d ds e).
Proof. exact tree_xor_error. Qed.

(* a tree returned without error is complete: no missing operand (zero-width identifier), every
   name non-empty, every conditional has its colon, element and argument lists present *)
Theorem C01_accepted_complete : forall text e, parse_source text = Accepted e -> complete e.
Proof. exact source_accepted_complete. Qed.

(* ... and the whole input was consumed: the parser stopped at the end-of-file token with no
   diagnostic, and the tree spans the text from offset 0 to the end of the last token *)
Theorem C01_accepted_consumed_all : forall fuel toks e,
  parse_tokens fuel toks = Accepted e ->
  exists s1,
    (exists t0 r, toks = t0 :: r /\
       parse_expression fuel (mkSt t0 r (add_diags [] (tdiags t0))) = Some (e, s1)) /\
    tk (cur s1) = KEOF /\ diags s1 = [].
Proof. exact accepted_consumed_all. Qed.

Print Assumptions C01_scan_total.
Print Assumptions C01_parse_total.
Print Assumptions C01_parse_tokens_total.
Print Assumptions C01_tree_xor_error.
Print Assumptions C01_accepted_complete.
Print Assumptions C01_accepted_consumed_all.
