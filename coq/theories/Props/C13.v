(* C13 - String literals round-trip every text through quoting and escaping.
   The reference escaper is the relation [escaping] of Proofs/LiteralStr.v (per decode step of
   the text: copy, simple escape, two-digit or four-digit hexadecimal escape); scanner and
   evaluator are the models Lex/Scanner.v and Sem/Eval.v. *)
From Formula Require Import Base.Utf8 Lex.Chars Lex.Scanner Sem.Eval.
From Formula Require Import Proofs.LiteralFacts.

(* "for any text, the literal formed by putting it between single or double quotes with the
   delimiter, backslash and line breaks escaped evaluates to exactly that text": for every
   byte string, valid UTF-8 or not, and every body the escaper may produce *)
Theorem string_roundtrip : forall q text body, escaping q text body -> q = 39 \/ q = 34 ->
  forall rest pos, exists tok,
    scan_one (decode_all ([q] ++ body ++ [q] ++ rest)) pos = (tok, decode_all rest) /\
    tk tok = KString /\ tval tok = text /\ tdiags tok = [] /\
    tpos tok = pos /\ tend tok = pos + blen ([q] ++ body ++ [q]).
Proof. exact LiteralStr.string_roundtrip. Qed.

(* the escaper is total: a canonical choice of escapes is an escaping of every text *)
Theorem escape_canon_escaping : forall q text, q = 39 \/ q = 34 -> escaping q text (escape_canon q text).
Proof. exact LiteralStr.escape_canon_escaping. Qed.

Theorem every_text_has_a_literal : forall q text, q = 39 \/ q = 34 -> forall rest pos, exists tok,
  scan_one (decode_all ([q] ++ escape_canon q text ++ [q] ++ rest)) pos = (tok, decode_all rest) /\
  tk tok = KString /\ tval tok = text /\ tdiags tok = [].
Proof. exact LiteralStr.every_text_has_a_literal. Qed.

(* the side conditions "bytes = encode_rune rune" of the hexadecimal escapes are met by every
   step of a decoding that is not an invalid byte *)
Theorem decode_all_canonical : forall l, Forall step_canonical (decode_all l).
Proof. exact LiteralStr.decode_all_canonical. Qed.

(* "unescaped bytes, including multi-byte UTF-8 and the other quote character, are preserved
   verbatim" *)
Theorem verbatim_roundtrip : forall q text, q = 39 \/ q = 34 ->
  Forall (fun s => may_copy q (fst s) = true) (decode_all text) ->
  forall rest pos, exists tok,
    scan_one (decode_all ([q] ++ text ++ [q] ++ rest)) pos = (tok, decode_all rest) /\
    tk tok = KString /\ tval tok = text /\ tdiags tok = [].
Proof. exact LiteralStr.verbatim_roundtrip. Qed.

Theorem other_quote_and_multibyte_verbatim : forall q text, q = 39 \/ q = 34 ->
  Forall (fun s => fst s = other_quote q \/
                   (128 <= fst s /\ fst s <> 133 /\ fst s <> 8232 /\ fst s <> 8233))
         (decode_all text) ->
  forall rest pos, exists tok,
    scan_one (decode_all ([q] ++ text ++ [q] ++ rest)) pos = (tok, decode_all rest) /\
    tk tok = KString /\ tval tok = text /\ tdiags tok = [].
Proof. exact LiteralStr.other_quote_and_multibyte_verbatim. Qed.

(* "a literal left open at a line break or at the end of input is a syntax error" *)
Theorem open_at_linebreak_rejected : forall q text body, escaping q text body -> q = 39 \/ q = 34 ->
  forall r rest pos, is_line_break r = true -> exists tok,
    scan_one (decode_all ([q] ++ body ++ encode_rune r ++ rest)) pos =
      (tok, decode_all (encode_rune r ++ rest)) /\
    tk tok = KString /\ tval tok = text /\
    tdiags tok = [(pos + 1 + blen body, 0, C_Unterminated_string_literal)].
Proof. exact LiteralStr.open_at_linebreak_rejected. Qed.

Theorem open_at_eof_rejected : forall q text body, escaping q text body -> q = 39 \/ q = 34 ->
  forall pos, exists tok,
    scan_one (decode_all ([q] ++ body)) pos = (tok, []) /\
    tk tok = KString /\ tval tok = text /\
    tdiags tok = [(pos + 1 + blen body, 0, C_Unexpected_end_of_text)].
Proof. exact LiteralStr.open_at_eof_rejected. Qed.

(* the evaluator returns the token value as the string *)
Theorem literal_value_returned_as_is : forall hosts local_off v st,
  eval hosts local_off (SLit KString v) st = (Ok (VStr v), st).
Proof. exact LiteralStr.literal_value_returned_as_is. Qed.

Print Assumptions string_roundtrip.
Print Assumptions escape_canon_escaping.
Print Assumptions every_text_has_a_literal.
Print Assumptions decode_all_canonical.
Print Assumptions verbatim_roundtrip.
Print Assumptions other_quote_and_multibyte_verbatim.
Print Assumptions open_at_linebreak_rejected.
Print Assumptions open_at_eof_rejected.
Print Assumptions literal_value_returned_as_is.
