(* C05 - Ordering and equality are lawful and representation-independent.

   Vocabulary.  Model: dec_cmp (Num/Dec.v), binary_op / strict_eq / loose_eq (Sem/Eval.v) on the
   values VNull, VBool, VNum, VStr (Sem/Value.v); is_finite x = x is Fin.
   Proofs/DecVal.v:   val x = the rational value (-1)^neg * c * 10^e of a finite decimal.
   Proofs/DecOrder.v: lex_lt = byte-wise lexicographic order (inductive; lex_lt_prefix restates it
                      with a common prefix); basic v = null, boolean, string or FINITE number;
                      plain v = null, boolean, string or any number; kind_of v; same_value v w.
   NaN is excluded by the [is_finite] hypotheses exactly as the property text does: the library's
   Cmp (and so dec_cmp) returns 0 when an operand is NaN, so NaN "equals" everything. *)
From Coq Require Import QArith ZArith List String.
From Formula Require Import Num.Dec Sem.Value Sem.Eval Proofs.DecFacts Proofs.DecVal Proofs.DecOrder.

(* ---------- 1. comparison of finite numbers is the order of their values ---------- *)

(* exactly one of -1, 0, 1 *)
Theorem cmp_trichotomy : forall x y, is_finite x = true -> is_finite y = true ->
  (dec_cmp x y = -1 /\ dec_cmp x y <> 0 /\ dec_cmp x y <> 1) \/
  (dec_cmp x y <> -1 /\ dec_cmp x y = 0 /\ dec_cmp x y <> 1) \/
  (dec_cmp x y <> -1 /\ dec_cmp x y <> 0 /\ dec_cmp x y = 1).
Proof. exact DecVal.cmp_trichotomy. Qed.

(* "in agreement with their numeric order" *)
Theorem cmp_is_value_order : forall x y, is_finite x = true -> is_finite y = true ->
  (dec_cmp x y = -1 <-> (val x < val y)%Q) /\
  (dec_cmp x y = 0 <-> (val x == val y)%Q) /\
  (dec_cmp x y = 1 <-> (val y < val x)%Q).
Proof. exact DecVal.cmp_is_value_order. Qed.

(* "no matter how they are written": only the value counts, on either side *)
Theorem cmp_representation_independent : forall x x' y,
  is_finite x = true -> is_finite x' = true -> is_finite y = true ->
  (val x == val x')%Q -> dec_cmp x y = dec_cmp x' y.
Proof. exact DecVal.cmp_representation_independent. Qed.

Theorem cmp_representation_independent_r : forall x y y',
  is_finite x = true -> is_finite y = true -> is_finite y' = true ->
  (val y == val y')%Q -> dec_cmp x y = dec_cmp x y'.
Proof. exact DecVal.cmp_representation_independent_r. Qed.

(* 1, 1.0, 1e0, 10e-1: finite, pairwise equal, and interchangeable against other numbers *)
Example spellings_of_one_compare_alike :
  let l := [d_1; d_1_0; d_1e0; d_10em1] in
  forallb (fun x => forallb (fun y => dec_cmp x y =? 0) l) l = true /\
  forallb is_finite l = true /\
  forallb (fun x => forallb (fun y => (dec_cmp x y =? dec_cmp d_1 y) && (dec_cmp y x =? dec_cmp y d_1))
                      [dec_of_string (str "0.99"); dec_of_string (str "-0");
                       dec_of_string (str "1.000000000000000000000000000000001"); dec_of_string (str "2e3")]) l = true.
Proof. exact DecOrder.spellings_of_one_compare_alike. Qed.

Example spellings_of_one_same_value :
  d_1 = dec_of_string (str "1") /\ d_1_0 = dec_of_string (str "1.0") /\
  d_1e0 = dec_of_string (str "1e0") /\ d_10em1 = dec_of_string (str "10e-1") /\
  (val d_1 == val d_1_0)%Q /\ (val d_1 == val d_1e0)%Q /\ (val d_1 == val d_10em1)%Q.
Proof. exact (conj eq_refl (conj eq_refl (conj eq_refl (conj eq_refl DecOrder.spellings_of_one_same_value)))). Qed.

(* ---------- 2. the operators < == > <= >= on two finite numbers ---------- *)

(* "exactly one of a < b, a == b, a > b is true, in agreement with their numeric order" *)
Theorem num_lt_gt_eq_exactly_one : forall x y, is_finite x = true -> is_finite y = true ->
  exists lt eq gt : bool,
    binary_op KLt (VNum x) (VNum y) = Ok (VBool lt) /\
    binary_op KEqEq (VNum x) (VNum y) = Ok (VBool eq) /\
    binary_op KGt (VNum x) (VNum y) = Ok (VBool gt) /\
    ((lt = true /\ eq = false /\ gt = false) \/
     (lt = false /\ eq = true /\ gt = false) \/
     (lt = false /\ eq = false /\ gt = true)) /\
    (lt = true <-> (val x < val y)%Q) /\ (eq = true <-> (val x == val y)%Q) /\ (gt = true <-> (val y < val x)%Q).
Proof. exact DecOrder.num_lt_gt_eq_exactly_one. Qed.

(* "<= and >= are the corresponding disjunctions" *)
Theorem le_is_lt_or_eq : forall x y lt eq, is_finite x = true -> is_finite y = true ->
  binary_op KLt (VNum x) (VNum y) = Ok (VBool lt) ->
  binary_op KEqEq (VNum x) (VNum y) = Ok (VBool eq) ->
  binary_op KLe (VNum x) (VNum y) = Ok (VBool (lt || eq)).
Proof. exact DecOrder.le_is_lt_or_eq. Qed.

Theorem ge_is_gt_or_eq : forall x y gt eq, is_finite x = true -> is_finite y = true ->
  binary_op KGt (VNum x) (VNum y) = Ok (VBool gt) ->
  binary_op KEqEq (VNum x) (VNum y) = Ok (VBool eq) ->
  binary_op KGe (VNum x) (VNum y) = Ok (VBool (gt || eq)).
Proof. exact DecOrder.ge_is_gt_or_eq. Qed.

(* ---------- 3. strings compare in byte-wise lexicographic order ---------- *)

(* lex_lt, said with a common prefix p: s is a proper prefix of t, or they first differ at a
   byte that is smaller in s *)
Theorem lex_lt_prefix : forall s t, lex_lt s t <->
  exists p, (s = p /\ exists y t', t = p ++ y :: t') \/
            (exists x y s' t', s = p ++ x :: s' /\ t = p ++ y :: t' /\ x < y).
Proof. exact DecOrder.lex_lt_prefix. Qed.

Theorem str_lt_is_lex : forall s t,
  exists b, binary_op KLt (VStr s) (VStr t) = Ok (VBool b) /\ (b = true <-> lex_lt s t).
Proof. exact DecOrder.str_lt_is_lex. Qed.

Theorem str_gt_is_lex : forall s t,
  exists b, binary_op KGt (VStr s) (VStr t) = Ok (VBool b) /\ (b = true <-> lex_lt t s).
Proof. exact DecOrder.str_gt_is_lex. Qed.

Theorem str_le_ge_is_lex : forall s t,
  exists le ge, binary_op KLe (VStr s) (VStr t) = Ok (VBool le) /\ binary_op KGe (VStr s) (VStr t) = Ok (VBool ge) /\
    (le = true <-> lex_lt s t \/ s = t) /\ (ge = true <-> lex_lt t s \/ s = t).
Proof. exact DecOrder.str_le_ge_is_lex. Qed.

(* a strict total order *)
Theorem lex_lt_irrefl : forall s, ~ lex_lt s s.
Proof. exact DecOrder.lex_lt_irrefl. Qed.
Theorem lex_lt_trans : forall s t u, lex_lt s t -> lex_lt t u -> lex_lt s u.
Proof. exact DecOrder.lex_lt_trans. Qed.
Theorem lex_lt_total : forall s t, lex_lt s t \/ s = t \/ lex_lt t s.
Proof. exact DecOrder.lex_lt_total. Qed.

(* ---------- 4. === == != !== ---------- *)

(* "=== is true exactly when both operands are null or are of the same kind with equal value" *)
Theorem strict_eq_spec : forall v w, basic v = true -> basic w = true ->
  exists b, strict_eq v w = Ok b /\ (b = true <-> same_value v w).
Proof. exact DecOrder.strict_eq_spec. Qed.

(* same_value, unfolded *)
Theorem same_value_def : forall v w,
  same_value v w <->
  match v, w with
  | VNull, VNull => True
  | VBool a, VBool b => a = b
  | VNum x, VNum y => (val x == val y)%Q
  | VStr s, VStr t => s = t
  | _, _ => False
  end.
Proof. exact (fun v w => iff_refl _). Qed.

(* "and false for operands of different kinds" *)
Theorem strict_eq_diff_kind_false : forall v w, basic v = true -> basic w = true ->
  kind_of v <> kind_of w -> strict_eq v w = Ok false.
Proof. exact DecOrder.strict_eq_diff_kind_false. Qed.

(* "!= and !== are always the negations of == and ===": for ARBITRARY operands, the negated
   boolean when == / === produce a result, the same failure otherwise *)
Theorem ne_is_negation : forall v w,
  (forall r, binary_op KEqEq v w = Ok r -> exists b, r = VBool b /\ binary_op KNe v w = Ok (VBool (negb b))) /\
  (binary_op KEqEq v w = Err -> binary_op KNe v w = Err) /\
  (binary_op KEqEq v w = Panic -> binary_op KNe v w = Panic) /\
  (binary_op KEqEq v w = Unk -> binary_op KNe v w = Unk).
Proof. exact DecOrder.ne_is_negation. Qed.

Theorem strict_ne_is_negation : forall v w,
  (forall r, binary_op KEqEqEq v w = Ok r -> exists b, r = VBool b /\ binary_op KNeEq v w = Ok (VBool (negb b))) /\
  (binary_op KEqEqEq v w = Err -> binary_op KNeEq v w = Err) /\
  (binary_op KEqEqEq v w = Panic -> binary_op KNeEq v w = Panic) /\
  (binary_op KEqEqEq v w = Unk -> binary_op KNeEq v w = Unk).
Proof. exact DecOrder.strict_ne_is_negation. Qed.

(* "== coincides with === whenever both operands have the same kind" (numbers need not be finite) *)
Theorem loose_eq_same_kind : forall v w, plain v = true -> plain w = true -> kind_of v = kind_of w ->
  loose_eq v w = strict_eq v w.
Proof. exact DecOrder.loose_eq_same_kind. Qed.

Theorem eq_same_kind_is_strict : forall v w, plain v = true -> plain w = true -> kind_of v = kind_of w ->
  binary_op KEqEq v w = binary_op KEqEqEq v w.
Proof. exact DecOrder.eq_same_kind_is_strict. Qed.

(* instances: 1 === 1.0; 1 === "1" is false while 1 == "1" is true; null; strings; -0 != 0.00 is false *)
Example equality_instances :
  strict_eq (VNum d_1) (VNum d_1_0) = Ok true /\
  strict_eq (VNum d_1) (VStr (str "1")) = Ok false /\
  loose_eq (VNum d_1) (VStr (str "1")) = Ok true /\
  strict_eq VNull VNull = Ok true /\ strict_eq VNull (VBool false) = Ok false /\
  strict_eq (VStr (str "ab")) (VStr (str "ab")) = Ok true /\
  binary_op KNeEq (VNum d_1) (VNum d_10em1) = Ok (VBool false) /\
  binary_op KNe (VNum (dec_of_string (str "-0"))) (VNum (dec_of_string (str "0.00"))) = Ok (VBool false).
Proof. exact DecOrder.equality_instances. Qed.

(* "" < "a" < "ab" < "b"; the two bytes of U+00E9 (195 169) are above "z" *)
Example lex_instances :
  bytes_ltb [] [97] = true /\ bytes_ltb [97] [97; 98] = true /\ bytes_ltb [97; 98] [98] = true /\
  bytes_ltb [122] [195; 169] = true /\ bytes_ltb [97] [97] = false /\ bytes_ltb [98] [97; 98] = false.
Proof. exact DecOrder.lex_instances. Qed.

(* why numbers are assumed finite: Cmp answers 0 on NaN, so NaN is == and === to every number *)
Example nan_compares_equal_to_everything :
  strict_eq (VNum NaN) (VNum d_1) = Ok true /\ binary_op KEqEq (VNum NaN) (VNum d_1) = Ok (VBool true) /\
  binary_op KLt (VNum NaN) (VNum d_1) = Ok (VBool false) /\ binary_op KLe (VNum NaN) (VNum d_1) = Ok (VBool true) /\
  binary_op KGe (VNum NaN) (VNum d_1) = Ok (VBool true).
Proof. exact DecOrder.nan_compares_equal_to_everything. Qed.

(* Go integers that reach == without having been normalised (below a member, inside an array) are compared as Go
   interface values: equal only when value AND Go type are the same - uint(5) and uint64(5) differ *)
Theorem goint_eq_iff : forall k k' x y,
  binary_op KEqEq (VGoInt k x) (VGoInt k' y) = Ok (VBool true) <-> (x = y /\ k = k').
Proof. exact DecOrder.goint_eq_iff. Qed.

Theorem goint_strict_eq : forall k k' x y,
  binary_op KEqEqEq (VGoInt k x) (VGoInt k' y) = Ok (VBool ((x =? y)%Z && gokind_eqb k k')).
Proof. exact DecOrder.goint_strict_eq. Qed.

Example goint_eq_examples :
  binary_op KEqEq (VGoInt GUint 5) (VGoInt GUint64 5) = Ok (VBool false) /\
  binary_op KEqEqEq (VGoInt GInt8 5) (VGoInt GInt16 5) = Ok (VBool false) /\
  binary_op KEqEq (VGoInt GUint8 5) (VGoInt GUint8 5) = Ok (VBool true) /\
  binary_op KNe (VGoInt GUint 5) (VGoInt GUint64 5) = Ok (VBool true).
Proof. exact DecOrder.goint_eq_examples. Qed.

Print Assumptions nan_compares_equal_to_everything.
Print Assumptions equality_instances.
Print Assumptions lex_instances.
Print Assumptions cmp_trichotomy.
Print Assumptions cmp_is_value_order.
Print Assumptions cmp_representation_independent.
Print Assumptions cmp_representation_independent_r.
Print Assumptions spellings_of_one_compare_alike.
Print Assumptions spellings_of_one_same_value.
Print Assumptions num_lt_gt_eq_exactly_one.
Print Assumptions le_is_lt_or_eq.
Print Assumptions ge_is_gt_or_eq.
Print Assumptions lex_lt_prefix.
Print Assumptions str_lt_is_lex.
Print Assumptions str_gt_is_lex.
Print Assumptions str_le_ge_is_lex.
Print Assumptions lex_lt_irrefl.
Print Assumptions lex_lt_trans.
Print Assumptions lex_lt_total.
Print Assumptions strict_eq_spec.
Print Assumptions same_value_def.
Print Assumptions strict_eq_diff_kind_false.
Print Assumptions ne_is_negation.
Print Assumptions strict_ne_is_negation.
Print Assumptions loose_eq_same_kind.
Print Assumptions eq_same_kind_is_strict.
Print Assumptions goint_eq_iff.
Print Assumptions goint_strict_eq.
Print Assumptions goint_eq_examples.
