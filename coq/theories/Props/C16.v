(* C16 - Names and member access read the caller's data, null-safely.
   `eval hosts off e st` is the evaluator model of Sem/Eval.v; `lookup_ident name st` is what a bare
   name denotes; `SSel a k name asrt` is `a.name` (asrt = false) or `a!.name` (asrt = true);
   `SLit KThis _` is `this`; `format_input` is the normalisation of Go numbers (Sem/Value.v).
   From Proofs/EvalFacts.v:
     all_dot p          p is a name or `this` followed only by plain `.k` selections
     maps_only v        v contains no time.Time and no other Go struct (VTime, VStruct, VOpaque) at any depth
     state_maps_only st the data map of st is unset or satisfies maps_only
     not_normalised v   v is not a Go int, int32, int64 or float64 (format_input leaves it alone)
   `VStruct id fs` is a Go struct value by the fields a selector can read (exported fields, promoted
   fields of embedded structs included).
   From Proofs/EvalExamples.v (used by the example only): idt "x" is the name x, dot a "k" is `a.k`,
   bangdot a "k" is `a!.k`. *)
From Coq Require Import List ZArith Bool String.
From Formula Require Import Sem.Eval Proofs.EvalFacts Proofs.EvalExamples.
Import ListNotations.
Local Open Scope Z_scope.

(* "A bare name denotes the builtin of that name if there is one and otherwise the entry of that
   name in the data map" (a missing name: null) *)
Theorem ident_lookup : forall hosts off k name st,
  eval hosts off (SIdent k name) st = (Ok (format_input (lookup_ident name st)), st).
Proof. exact EvalFacts.ident_lookup. Qed.

Theorem lookup_ident_spec : forall name st,
  lookup_ident name st =
  if existsb (bytes_eqb name) builtin_names then VBuiltin name
  else match (match r_this st with Some m => assoc name m | None => None end) with
       | Some v => v
       | None => VNull
       end.
Proof. exact EvalFacts.lookup_ident_spec. Qed.

(* "a missing name ... yields null", also when the data map was never set *)
Theorem missing_name_is_null : forall name st,
  existsb (bytes_eqb name) builtin_names = false ->
  match r_this st with Some m => assoc name m | None => None end = None ->
  lookup_ident name st = VNull.
Proof. exact EvalFacts.missing_name_is_null. Qed.

(* "`x.k` reads key k of a string-keyed map" (`.` and `!.` alike, the receiver being non-null) *)
Theorem member_map : forall hosts off a k name asrt st m st1,
  eval hosts off a st = (Ok (VMap m), st1) ->
  eval hosts off (SSel a k name asrt) st =
  (Ok (format_input (match assoc name m with
                     | Some x => if is_null x then VNull else x
                     | None => VNull
                     end)), st1).
Proof. exact EvalFacts.member_map. Qed.

(* "A missing key ... yields null" *)
Theorem missing_key_is_null : forall hosts off a k name asrt st m st1,
  eval hosts off a st = (Ok (VMap m), st1) -> assoc name m = None ->
  eval hosts off (SSel a k name asrt) st = (Ok VNull, st1).
Proof. exact EvalFacts.missing_key_is_null. Qed.

(* "typed nil pointers are null for member access": an entry holding one reads as null *)
Theorem typed_nil_is_null : forall hosts off a k name asrt st m st1,
  eval hosts off a st = (Ok (VMap m), st1) -> assoc name m = Some VNilPtr ->
  eval hosts off (SSel a k name asrt) st = (Ok VNull, st1).
Proof. exact EvalFacts.typed_nil_is_null. Qed.

(* "`this.k` reads key k of the data map itself" (an unset data map reads as the empty map) *)
Theorem this_member : forall hosts off v k name st,
  eval hosts off (SSel (SLit KThis v) k name false) st =
  (Ok (format_input (match assoc name (match r_this st with Some m => m | None => [] end) with
                     | Some x => if is_null x then VNull else x
                     | None => VNull
                     end)), st).
Proof. exact EvalFacts.this_member. Qed.

(* "member access on null ... yield[s] null rather than an error" (nil and typed nil receivers) *)
Theorem member_on_null_is_null : forall hosts off a k name st v st1,
  eval hosts off a st = (Ok v, st1) -> is_null v = true ->
  eval hosts off (SSel a k name false) st = (Ok VNull, st1).
Proof. exact EvalFacts.member_on_null_is_null. Qed.

(* "`x!.k` is an error exactly when x is null" - for every value x evaluates to *)
Theorem assert_errors_iff_null : forall hosts off a k name st v st1,
  eval hosts off a st = (Ok v, st1) ->
  (eval hosts off (SSel a k name true) st = (Err, st1) <-> is_null v = true).
Proof. exact EvalFacts.assert_errors_iff_null. Qed.

(* "so dotted chains are null-safe": over data made of maps, slices, null and scalars, a dotted path
   of any depth over present and absent keys evaluates successfully and leaves the state alone *)
Theorem dotted_chain_null_safe : forall hosts off p st,
  all_dot p = true -> state_maps_only st = true ->
  exists v, eval hosts off p st = (Ok v, st).
Proof. exact EvalFacts.dotted_chain_null_safe. Qed.

(* the restriction to maps_only is needed: a member of a time.Time value panics in the evaluator
   (reflect FieldByName finds no exported field), and so does a name a Go struct does not have
   (select_struct_missing below); Resolve reports it as an error *)
Theorem member_on_time_panics : forall hosts off a k name asrt st t st1,
  eval hosts off a st = (Ok (VTime t), st1) ->
  eval hosts off (SSel a k name asrt) st = (Panic, st1) /\
  resolve_entry hosts off (SSel a k name asrt) st = (Err, st1).
Proof. exact EvalFacts.member_on_time_panics. Qed.

(* ---- Go struct values: `x.k` reads the field k ---- *)

(* the whole behaviour of a selector on a struct (`.` and `!.` alike): a listed field is read - a nil
   pointer in it reads as null, Go numbers are normalised - and any other name panics *)
Theorem member_struct : forall hosts off a k name asrt st id fs st1,
  eval hosts off a st = (Ok (VStruct id fs), st1) ->
  eval hosts off (SSel a k name asrt) st =
  match assoc name fs with
  | Some x => (Ok (format_input (if is_null x then VNull else x)), st1)
  | None => (Panic, st1)
  end.
Proof. exact EvalFacts.member_struct. Qed.

Theorem select_struct_field : forall hosts off a k name asrt st id fs x st1,
  eval hosts off a st = (Ok (VStruct id fs), st1) -> assoc name fs = Some x ->
  eval hosts off (SSel a k name asrt) st = (Ok (format_input (if is_null x then VNull else x)), st1).
Proof. exact EvalFacts.select_struct_field. Qed.

(* for a field that is not a Go int, int32, int64 or float64 the result is the field itself *)
Theorem select_struct_field_plain : forall hosts off a k name asrt st id fs x st1,
  eval hosts off a st = (Ok (VStruct id fs), st1) -> assoc name fs = Some x -> not_normalised x = true ->
  eval hosts off (SSel a k name asrt) st = (Ok (if is_null x then VNull else x), st1).
Proof. exact EvalFacts.select_struct_field_plain. Qed.

(* "typed nil pointers are null for member access": a field holding one reads as null *)
Theorem select_struct_nil_field : forall hosts off a k name asrt st id fs st1,
  eval hosts off a st = (Ok (VStruct id fs), st1) -> assoc name fs = Some VNilPtr ->
  eval hosts off (SSel a k name asrt) st = (Ok VNull, st1).
Proof. exact EvalFacts.select_struct_nil_field. Qed.

(* a missing or unexported field: a panic in the evaluator (reflect's zero Value), which Resolve
   reports as an error - unlike a missing key of a map, which is null *)
Theorem select_struct_missing : forall hosts off a k name asrt st id fs st1,
  eval hosts off a st = (Ok (VStruct id fs), st1) -> assoc name fs = None ->
  eval hosts off (SSel a k name asrt) st = (Panic, st1) /\
  resolve_entry hosts off (SSel a k name asrt) st = (Err, st1).
Proof. exact EvalFacts.select_struct_missing. Qed.

Theorem select_struct_panics_iff : forall hosts off a k name asrt st id fs st1,
  eval hosts off a st = (Ok (VStruct id fs), st1) ->
  (eval hosts off (SSel a k name asrt) st = (Panic, st1) <-> assoc name fs = None) /\
  ((exists v, eval hosts off (SSel a k name asrt) st = (Ok v, st1)) <-> (exists x, assoc name fs = Some x)).
Proof. exact EvalFacts.select_struct_panics_iff. Qed.

(* rec = { user: User{Name: 'ann', Age: int 30, Address: Address{City: 'Oslo', Zip: int 150},
                      Boss: a nil pointer to User, secret: ...} } with Address embedded (City and Zip are
   promoted) and `secret` unexported (not listed) *)
Theorem select_struct_example :
  let addr := VStruct 2 [(str "City", VStr (str "Oslo")); (str "Zip", VGoInt GInt 150)] in
  let user := VStruct 1 [(str "Name", VStr (str "ann")); (str "Age", VGoInt GInt 30); (str "Address", addr);
                         (str "City", VStr (str "Oslo")); (str "Zip", VGoInt GInt 150); (str "Boss", VNilPtr)] in
  let st := mkR (Some [(str "rec", VMap [(str "user", user)])]) [] in
  let u := dot (idt "rec") "user" in
  eval [] 0 u st = (Ok user, st) /\
  eval [] 0 (dot u "Name") st = (Ok (VStr (str "ann")), st) /\
  eval [] 0 (dot u "Age") st = (Ok (VNum (Fin false 30 0)), st) /\
  eval [] 0 (dot u "City") st = (Ok (VStr (str "Oslo")), st) /\
  eval [] 0 (dot (dot u "Address") "City") st = (Ok (VStr (str "Oslo")), st) /\
  eval [] 0 (dot (dot u "Address") "Zip") st = (Ok (VNum (Fin false 150 0)), st) /\
  eval [] 0 (dot u "Boss") st = (Ok VNull, st) /\
  eval [] 0 (dot (dot u "Boss") "Name") st = (Ok VNull, st) /\
  eval [] 0 (bangdot u "Name") st = (Ok (VStr (str "ann")), st) /\
  eval [] 0 (bangdot (dot u "Boss") "Name") st = (Err, st) /\
  eval [] 0 (dot u "secret") st = (Panic, st) /\
  resolve_entry [] 0 (dot u "secret") st = (Err, st) /\
  eval [] 0 (dot u "name") st = (Panic, st) /\
  eval [] 0 (dot (dot u "Address") "Street") st = (Panic, st) /\
  resolve_entry [] 0 (dot (dot u "Address") "Street") st = (Err, st) /\
  eval [] 0 (STypeof u) st = (Ok (VStr (str "object")), st) /\
  eval [] 0 (SBin u KEqEq u) st = (Unk, st) /\
  state_maps_only st = false.
Proof. exact EvalExamples.ex_struct_member. Qed.

(* "Go int, int32, int64 and float64 values become numbers" *)
Theorem normalise_numbers :
  (forall n, format_input (VGoInt GInt n) = VNum (dec_of_Z n)) /\
  (forall n, format_input (VGoInt GInt32 n) = VNum (dec_of_Z n)) /\
  (forall n, format_input (VGoInt GInt64 n) = VNum (dec_of_Z n)) /\
  (forall s, format_input (VGoFloat s) = VNum (dec_of_string s)).
Proof. exact EvalFacts.normalise_numbers. Qed.

(* "strings, booleans, times, slices and maps are handed on unchanged" - as is everything else,
   including the integer kinds other than int, int32, int64 *)
Theorem others_unchanged :
  (forall s, format_input (VStr s) = VStr s) /\ (forall b, format_input (VBool b) = VBool b) /\
  (forall t, format_input (VTime t) = VTime t) /\ (forall l, format_input (VArr l) = VArr l) /\
  (forall m, format_input (VMap m) = VMap m) /\ format_input VNull = VNull /\
  (forall d, format_input (VNum d) = VNum d) /\
  (forall k n, k <> GInt -> k <> GInt32 -> k <> GInt64 -> format_input (VGoInt k n) = VGoInt k n).
Proof. exact EvalFacts.others_unchanged_list. Qed.

Theorem others_unchanged_all : forall v,
  match v with
  | VGoInt GInt _ | VGoInt GInt32 _ | VGoInt GInt64 _ | VGoFloat _ => false
  | _ => true
  end = true -> format_input v = v.
Proof. exact EvalFacts.others_unchanged. Qed.

(* "typed nil pointers are ... equal to null" under `==` and `===`, either way round *)
Theorem typed_nil_equals_null :
  binary_op KEqEq VNilPtr VNull = Ok (VBool true) /\
  binary_op KEqEq VNull VNilPtr = Ok (VBool true) /\
  binary_op KEqEqEq VNilPtr VNull = Ok (VBool true) /\
  binary_op KEqEqEq VNull VNilPtr = Ok (VBool true) /\
  binary_op KNe VNilPtr VNull = Ok (VBool false) /\
  binary_op KNeEq VNilPtr VNull = Ok (VBool false).
Proof. exact EvalFacts.typed_nil_equals_null. Qed.

Print Assumptions ident_lookup.
Print Assumptions lookup_ident_spec.
Print Assumptions missing_name_is_null.
Print Assumptions member_map.
Print Assumptions missing_key_is_null.
Print Assumptions typed_nil_is_null.
Print Assumptions this_member.
Print Assumptions member_on_null_is_null.
Print Assumptions assert_errors_iff_null.
Print Assumptions dotted_chain_null_safe.
Print Assumptions member_on_time_panics.
Print Assumptions member_struct.
Print Assumptions select_struct_field.
Print Assumptions select_struct_field_plain.
Print Assumptions select_struct_nil_field.
Print Assumptions select_struct_missing.
Print Assumptions select_struct_panics_iff.
Print Assumptions select_struct_example.
Print Assumptions normalise_numbers.
Print Assumptions others_unchanged.
Print Assumptions others_unchanged_all.
Print Assumptions typed_nil_equals_null.
