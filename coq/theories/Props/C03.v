(* C03 - Evaluation is total: a value or an error, never a panic.
   Model: theories/Sem/Eval.v ([eval] = the tree-walking evaluator, [resolve_entry] = Runner.Resolve,
   outcome = Ok v | Err | Panic (a Go run-time panic inside) | Unk (behaviour not modelled)).
   Auxiliary names ([eval_list], [callee_sig], [arity_ok], [expanded_args], [is_eq_op],
   [uncomparable], [fits_int], [node_panics], [subexpr], ...) are defined in Proofs/Bridge*.v. *)
From Coq Require Import String.
From Formula Require Import Sem.Eval Proofs.BridgeFacts Proofs.BridgePanic Proofs.BridgeSources.

(* ---------------- 1. terminates; never a panic; a value xor an error ---------------- *)

(* "evaluation terminates": [eval] is a structural Fixpoint on the tree with no fuel - Coq's guard
   checker accepted it, every recursive call is on a proper subtree - so for every tree, every host
   table and every data map it yields an outcome and a final state. *)
Theorem eval_total : forall hosts off e st, exists r st', eval hosts off e st = (r, st').
Proof. exact BridgePanic.eval_total. Qed.

(* "it never panics": the public entry never reports Panic. *)
Theorem resolve_never_panics : forall hosts off e st, fst (resolve_entry hosts off e st) <> Panic.
Proof. exact BridgePanic.resolve_never_panics. Qed.

(* "either a value with a nil error or a nil value with a non-nil error": exactly one of
   Ok v / Err / Unk (Unk = the Go behaviour at this point is outside the model). *)
Theorem value_xor_error : forall hosts off e st,
  let o := fst (resolve_entry hosts off e st) in
  ((exists v, o = Ok v) /\ o <> Err /\ o <> Unk) \/
  (o = Err /\ (forall v, o <> Ok v) /\ o <> Unk) \/
  (o = Unk /\ (forall v, o <> Ok v) /\ o <> Err).
Proof. exact BridgePanic.value_xor_error. Qed.

(* the entry is the inner evaluator with Panic turned into Err, same final state *)
Theorem resolve_entry_spec : forall hosts off e st,
  resolve_entry hosts off e st =
  (match fst (eval hosts off e st) with Panic => Err | o => o end, snd (eval hosts off e st)).
Proof. exact BridgePanic.resolve_entry_spec. Qed.

(* ---------------- 2. misuse is reported through the returned error ---------------- *)

(* "calling something that is not a function" (null included: Panic inside, Err at the entry) *)
Theorem call_non_function : forall hosts off f args sp st fv st1 vs st2,
  eval hosts off f st = (Ok fv, st1) ->
  eval_list hosts off args st1 = (Ok vs, st2) ->
  (match fv with VFunc _ | VBuiltin _ => true | _ => false end) = false ->
  fst (resolve_entry hosts off (SCall f args sp) st) = Err.
Proof. exact BridgePanic.call_non_function. Qed.

(* "wrong argument count": a non-variadic callable with n parameters and another number of
   arguments; a variadic one with fewer than n-1 arguments *)
Theorem call_wrong_arity : forall hosts off f args sp st fv st1 vs st2 sg,
  eval hosts off f st = (Ok fv, st1) ->
  eval_list hosts off args st1 = (Ok vs, st2) ->
  callee_sig hosts fv = Some sg ->
  (sig_variadic sg = false /\ length vs <> length (sig_params sg)) \/
  (sig_variadic sg = true /\ sp = false /\ (S (length vs) < length (sig_params sg))%nat) ->
  fst (resolve_entry hosts off (SCall f args sp) st) = Err.
Proof. exact BridgePanic.call_wrong_arity. Qed.

(* "wrong argument type": the conversion of the argument list fails (Err), or panics on a nil
   given for a slice/map parameter *)
Theorem call_unconvertible_argument : forall hosts off f args sp st fv st1 vs st2 sg,
  eval hosts off f st = (Ok fv, st1) ->
  eval_list hosts off args st1 = (Ok vs, st2) ->
  callee_sig hosts fv = Some sg ->
  conv_args (sig_params sg) (sig_variadic sg) (expanded_args vs sp) = Err \/
  conv_args (sig_params sg) (sig_variadic sg) (expanded_args vs sp) = Panic ->
  fst (resolve_entry hosts off (SCall f args sp) st) = Err.
Proof. exact BridgePanic.call_unconvertible_argument. Qed.

(* in particular a number that is NaN, infinite or beyond the range of the integer parameter it is
   given to (the arguments before it converting) "cannot be converted": the bridge answers Err with
   the state unchanged (the function is not called), Err at the entry *)
Theorem call_num_out_of_range : forall hosts off f args sp st fv st1 vs st2 sg i k d,
  eval hosts off f st = (Ok fv, st1) ->
  eval_list hosts off args st1 = (Ok vs, st2) ->
  callee_sig hosts fv = Some sg ->
  nth_error (expanded_args vs sp) i = Some (VNum d) ->
  arg_type (sig_params sg) (sig_variadic sg) i = Some (TInt k) ->
  is_finite d = false \/ wrap_int k (trunc_dec d) <> trunc_dec d ->
  (forall j b, (j < i)%nat -> nth_error (expanded_args vs sp) j = Some b ->
     exists tj c, arg_type (sig_params sg) (sig_variadic sg) j = Some tj /\ conv_to tj b = Ok c) ->
  call_value hosts off fv vs sp st2 = (Err, st2) /\
  fst (resolve_entry hosts off (SCall f args sp) st) = Err.
Proof. exact BridgePanic.call_num_out_of_range. Qed.

(* left("abc", 1e30) *)
Theorem left_out_of_range_example :
  let e := SCall (SIdent KIdent (str "left")) [SLit KString (str "abc"); SLit KNumber (str "1e30")] false in
  eval [] 0 e (mkR None []) = (Err, mkR None []) /\ fst (resolve_entry [] 0 e (mkR None [])) = Err.
Proof. exact BridgePanic.ex_left_out_of_range. Qed.

(* e.g. a string for an int parameter, a boolean for a decimal parameter, null for a []string *)
Theorem unconvertible_examples :
  conv_args [TInt GInt] false [VStr (str "x")] = Err /\ conv_args [TDec] false [VBool true] = Err /\
  conv_args [TSlice TString] false [VNull] = Panic.
Proof. exact BridgePanic.ex_unconvertible_str_for_int. Qed.

(* "out-of-range string positions": the builtins on converted arguments panic ... *)
Theorem string_position_panics_inside : forall off s k n k' m ps,
  (n < 0 -> builtin_apply off (str "left") [VStr s; VGoInt k n] = Panic) /\
  (n < 0 -> builtin_apply off (str "right") [VStr s; VGoInt k n] = Panic) /\
  (Z.max 0 n > Z.min (slen s) m -> builtin_apply off (str "mid") [VStr s; VGoInt k n; VGoInt k' m] = Panic) /\
  (n < 0 -> builtin_apply off (str "lpad") [VStr s; VStr ps; VGoInt k n] = Panic /\
            builtin_apply off (str "rpad") [VStr s; VStr ps; VGoInt k n] = Panic).
Proof. exact BridgePanic.string_position_panics_inside. Qed.

(* ... and the formulas left("s", a), right("s", a), mid("s", a, b) end in Err at the entry, for
   every argument expression whose value is such a number (fits_int d: finite and within int) *)
Theorem string_position_out_of_range_left : forall hosts off s a st d st',
  eval hosts off a st = (Ok (VNum d), st') -> fits_int d = true -> trunc_dec d < 0 ->
  fst (resolve_entry hosts off (SCall (SIdent KIdent (str "left")) [SLit KString s; a] false) st) = Err.
Proof. exact BridgePanic.string_position_out_of_range_left. Qed.

Theorem string_position_out_of_range_right : forall hosts off s a st d st',
  eval hosts off a st = (Ok (VNum d), st') -> fits_int d = true -> trunc_dec d < 0 ->
  fst (resolve_entry hosts off (SCall (SIdent KIdent (str "right")) [SLit KString s; a] false) st) = Err.
Proof. exact BridgePanic.string_position_out_of_range_right. Qed.

Theorem string_position_out_of_range_mid : forall hosts off s a b st da st1 db st2,
  eval hosts off a st = (Ok (VNum da), st1) -> eval hosts off b st1 = (Ok (VNum db), st2) ->
  fits_int da = true -> fits_int db = true ->
  Z.max 0 (trunc_dec da) > Z.min (slen s) (trunc_dec db) ->
  fst (resolve_entry hosts off (SCall (SIdent KIdent (str "mid")) [SLit KString s; a; b] false) st) = Err.
Proof. exact BridgePanic.string_position_out_of_range_mid. Qed.

(* left('abc', -1): Panic inside, Err at the entry *)
Theorem left_minus_one_example :
  let e := SCall (SIdent KIdent (str "left")) [SLit KString (str "abc"); SPrefix KMinus (SLit KNumber (str "1"))] false in
  fst (eval [] 0 e (mkR None [])) = Panic /\ fst (resolve_entry [] 0 e (mkR None [])) = Err.
Proof. exact BridgePanic.ex_left_minus_one. Qed.

(* "an invalid regular expression": regexp is NOT modelled - the model answers Unk *)
Theorem regexp_is_unmodelled :
  fst (resolve_entry [] 0 (SCall (SIdent KIdent (str "regexp")) [SLit KString (str "a"); SLit KString (str "(")] false)
         (mkR None [])) = Unk.
Proof. exact BridgePanic.ex_regexp_unmodelled. Qed.

(* "comparing arrays or maps": == != === !== on two arrays or two maps *)
Theorem compare_arrays_or_maps : forall hosts off l op r st v1 st1 v2 st2,
  (match op with KEqEq | KNe | KEqEqEq | KNeEq => true | _ => false end) = true ->
  eval hosts off l st = (Ok v1, st1) -> eval hosts off r st1 = (Ok v2, st2) ->
  (exists a b, v1 = VArr a /\ v2 = VArr b) \/ (exists a b, v1 = VMap a /\ v2 = VMap b) ->
  fst (resolve_entry hosts off (SBin l op r) st) = Err.
Proof. exact BridgePanic.compare_arrays_or_maps. Qed.

(* in particular two array literals: [..] == [..] *)
Theorem compare_array_literals : forall hosts off es1 op es2 st vs1 st1 vs2 st2,
  (match op with KEqEq | KNe | KEqEqEq | KNeEq => true | _ => false end) = true ->
  eval_list hosts off es1 st = (Ok vs1, st1) -> eval_list hosts off es2 st1 = (Ok vs2, st2) ->
  fst (resolve_entry hosts off (SBin (SArr es1) op (SArr es2)) st) = Err.
Proof. exact BridgePanic.compare_arrays. Qed.

(* "reading a missing struct field": a selector on a time.Time (the model's struct) *)
Theorem member_of_struct_missing_field : forall hosts off a nk name asrt st t st1,
  eval hosts off a st = (Ok (VTime t), st1) ->
  fst (eval hosts off (SSel a nk name asrt) st) = Panic /\
  fst (resolve_entry hosts off (SSel a nk name asrt) st) = Err.
Proof. exact BridgePanic.member_of_struct_missing_field. Qed.

(* ... and on a Go struct value proper (`VStruct id fs`, by its selectable fields): a name that is
   not among them *)
Theorem member_of_go_struct_missing_field : forall hosts off a nk name asrt st id fs st1,
  eval hosts off a st = (Ok (VStruct id fs), st1) -> assoc name fs = None ->
  fst (eval hosts off (SSel a nk name asrt) st) = Panic /\
  fst (resolve_entry hosts off (SSel a nk name asrt) st) = Err.
Proof. exact BridgePanic.member_of_go_struct_missing_field. Qed.

(* ---------------- 3. where the inner evaluator panics ---------------- *)

(* Every Panic of the inner evaluator starts at a sub-formula s of e whose own operation panics:
   node_panics s st0 says s is an equality test on uncomparable values (two arrays, two maps, the
   same function: uncomparable_cases below), a selector on a time.Time or on a Go struct for a
   name that is not one of its fields (node_panics_selector below),
   or a call whose bridge [call_value] panics (its operands having evaluated to values). *)
Theorem eval_panic_sources : forall hosts off e st,
  fst (eval hosts off e st) = Panic ->
  exists s st0, subexpr s e /\ node_panics hosts off s st0.
Proof. exact BridgeSources.eval_panic_sources. Qed.

(* node_panics on a selector, spelled out *)
Theorem node_panics_selector : forall hosts off a nk name asrt st,
  node_panics hosts off (SSel a nk name asrt) st <->
  (exists t st1, eval hosts off a st = (Ok (VTime t), st1)) \/
  (exists id fs st1, eval hosts off a st = (Ok (VStruct id fs), st1) /\ assoc name fs = None).
Proof. exact BridgeSources.node_panics_selector. Qed.

(* conversely such a node does panic *)
Theorem node_panics_sound : forall hosts off e st,
  node_panics hosts off e st -> fst (eval hosts off e st) = Panic.
Proof. exact BridgeSources.node_panics_sound. Qed.

(* operators: only the four equality tests, on [uncomparable] operands: two arrays, two maps,
   the same host function, the same builtin (see uncomparable_cases) *)
Theorem binary_op_panic_iff : forall op a b,
  binary_op op a b = Panic <-> is_eq_op op = true /\ uncomparable a b = true.
Proof. exact BridgePanic.binary_op_panic_iff. Qed.

Theorem iface_eq_panic_iff : forall a b, iface_eq a b = Panic <-> uncomparable a b = true.
Proof. exact BridgePanic.iface_eq_panic_iff. Qed.

(* [uncomparable] spelled out: exactly when Go's == panics in the model *)
Theorem uncomparable_cases : forall a b, uncomparable a b = true <->
  (exists x y, a = VArr x /\ b = VArr y) \/ (exists x y, a = VMap x /\ b = VMap y) \/
  (exists f, a = VFunc f /\ b = VFunc f) \/
  (exists m n, a = VBuiltin m /\ b = VBuiltin n /\ bytes_eqb m n = true).
Proof. exact BridgePanic.uncomparable_cases. Qed.

(* Go's == on two function values that are not known to be the same function, on two times,
   on two opaque values and on two struct values is NOT modelled: the model answers Unk exactly there *)
Theorem iface_eq_unk_iff : forall a b, iface_eq a b = Unk <->
  match a, b with
  | VFunc f, VFunc g => (f =? g) = false
  | VBuiltin m, VBuiltin n => bytes_eqb m n = false
  | VFunc _, VBuiltin _ | VBuiltin _, VFunc _ => True
  | VTime _, VTime _ | VOpaque _, VOpaque _ | VStruct _ _, VStruct _ _ => True
  | _, _ => False
  end.
Proof. exact BridgePanic.iface_eq_unk_iff. Qed.

(* comparing a function with itself is an error at the entry: any two operands that evaluate to
   the same host function or the same builtin, e.g. left == left *)
Theorem compare_same_function : forall hosts off l op r st v1 st1 v2 st2,
  (match op with KEqEq | KNe | KEqEqEq | KNeEq => true | _ => false end) = true ->
  eval hosts off l st = (Ok v1, st1) -> eval hosts off r st1 = (Ok v2, st2) ->
  (exists f, v1 = VFunc f /\ v2 = VFunc f) \/
  (exists m n, v1 = VBuiltin m /\ v2 = VBuiltin n /\ bytes_eqb m n = true) ->
  fst (resolve_entry hosts off (SBin l op r) st) = Err.
Proof. exact BridgePanic.compare_same_function. Qed.

Theorem compare_same_builtin_example :
  let e := SBin (SIdent KIdent (str "left")) KEqEq (SIdent KIdent (str "left")) in
  fst (eval [] 0 e (mkR None [])) = Panic /\ fst (resolve_entry [] 0 e (mkR None [])) = Err.
Proof. exact BridgePanic.ex_compare_same_builtin. Qed.

Theorem unary_op_never_panics : forall op v, unary_op op v <> Panic.
Proof. exact BridgePanic.unary_op_no_panic. Qed.

(* the bridge: a null callee, a panicking argument conversion, or a panicking builtin *)
Theorem call_value_panic_iff : forall hosts off f args sp st,
  fst (call_value hosts off f args sp st) = Panic <->
  f = VNull \/
  exists sg, callee_sig hosts f = Some sg /\
             arity_ok sg (length args) sp = true /\ spread_ok sg args sp = true /\
             (conv_args (sig_params sg) (sig_variadic sg) (expanded_args args sp) = Panic \/
              exists name cargs, f = VBuiltin name /\
                conv_args (sig_params sg) (sig_variadic sg) (expanded_args args sp) = Ok cargs /\
                builtin_call off name cargs = Panic).
Proof. exact BridgeSources.call_value_panic_iff. Qed.

(* argument lists: one argument's conversion panics, or a "variadic" last parameter is not a slice *)
Theorem conv_args_panic_sources : forall params variadic args,
  conv_args params variadic args = Panic ->
  (exists i a t, nth_error args i = Some a /\ arg_type params variadic i = Some t /\ conv_to t a = Panic) \/
  (variadic = true /\ exists fixed p, params = fixed ++ [p] /\ (forall et, p <> TSlice et) /\
                                      (length fixed < length args)%nat).
Proof. exact BridgeSources.conv_args_panic_inv. Qed.

(* conversions: only slice and map targets - nil for a slice parameter, a non-map for a map parameter
   (Key() of a non-map type), or an element whose own conversion panics (an element converted to nil
   is kept as nil, it does not panic) *)
Theorem conv_to_panic_iff : forall t v,
  conv_to t v = Panic <->
  match t with
  | TSlice et => v = VNull \/ exists l, v = VArr l /\ conv_slice_elems et l = Panic
  | TMapStr et => (forall m, v <> VMap m) \/ exists m, v = VMap m /\ conv_map_elems et m = Panic
  | _ => False
  end.
Proof. exact BridgeSources.conv_to_panic_iff. Qed.

Theorem conv_slice_elems_panic_iff : forall et l,
  conv_slice_elems et l = Panic <->
  exists l1 x l2, l = l1 ++ x :: l2 /\ (exists l1', conv_slice_elems et l1 = Ok l1') /\
                  conv_to et x = Panic.
Proof. exact BridgePanic.conv_slice_elems_panic_iff. Qed.

Theorem conv_map_elems_panic_iff : forall et m,
  conv_map_elems et m = Panic <->
  exists m1 k x m2, m = m1 ++ (k, x) :: m2 /\ (exists m1', conv_map_elems et m1 = Ok m1') /\
                    conv_to et x = Panic.
Proof. exact BridgeSources.conv_map_elems_panic_iff. Qed.

(* builtins: only left/right/lpad/rpad/mid, exactly on out-of-range positions (via slice) *)
Theorem builtin_call_panic_sources : forall off name args,
  builtin_call off name args = Panic -> slice_builtin_panics name args.
Proof. exact BridgePanic.builtin_call_panic_inv. Qed.

Theorem slice_panic_iff : forall s a b, slice s a b = Panic <-> ~ (0 <= a <= b /\ b <= slen s).
Proof. exact BridgePanic.slice_panic_iff. Qed.

Print Assumptions eval_total.
Print Assumptions resolve_never_panics.
Print Assumptions value_xor_error.
Print Assumptions resolve_entry_spec.
Print Assumptions call_non_function.
Print Assumptions call_wrong_arity.
Print Assumptions call_unconvertible_argument.
Print Assumptions call_num_out_of_range.
Print Assumptions left_out_of_range_example.
Print Assumptions unconvertible_examples.
Print Assumptions string_position_panics_inside.
Print Assumptions string_position_out_of_range_left.
Print Assumptions string_position_out_of_range_right.
Print Assumptions string_position_out_of_range_mid.
Print Assumptions left_minus_one_example.
Print Assumptions regexp_is_unmodelled.
Print Assumptions compare_arrays_or_maps.
Print Assumptions compare_array_literals.
Print Assumptions member_of_struct_missing_field.
Print Assumptions member_of_go_struct_missing_field.
Print Assumptions node_panics_selector.
Print Assumptions eval_panic_sources.
Print Assumptions node_panics_sound.
Print Assumptions binary_op_panic_iff.
Print Assumptions iface_eq_panic_iff.
Print Assumptions uncomparable_cases.
Print Assumptions iface_eq_unk_iff.
Print Assumptions compare_same_function.
Print Assumptions compare_same_builtin_example.
Print Assumptions unary_op_never_panics.
Print Assumptions call_value_panic_iff.
Print Assumptions conv_args_panic_sources.
Print Assumptions conv_to_panic_iff.
Print Assumptions conv_slice_elems_panic_iff.
Print Assumptions conv_map_elems_panic_iff.
Print Assumptions builtin_call_panic_sources.
Print Assumptions slice_panic_iff.
