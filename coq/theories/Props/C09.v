(* C09  A parsed formula can be shared across goroutines.
   A Coq theorem cannot exhibit a Go data race; what is proved is (1) the abstract fact that threads
   whose writes are disjoint from everything the others read or write observe, in EVERY interleaving,
   what they observe sequentially, and (2) that the write footprints of the code at hand - regenerated
   from its SSA form on every run - satisfy that discipline.  That each Go operation respects the
   footprint computed for it is the translator's claim (trusted base); the race-detector runs of the
   harness are its dynamic check.  Property theorems only. *)
From Coq Require Import List String Bool.
From Formula Require Import Conc.Interleave Conc.Footprint Conc.Threads.
Import ListNotations.

(* (1) interleaving invariance, for arbitrary locations, values, observations and schedules *)
Theorem C09_interleaving_invariance :
  forall (loc val obs : Type) (ts : list (thread loc val obs)) (sch : list nat) (s : store loc val),
    isolated ts -> disciplined ts -> footprints_decidable ts -> complete ts sch ->
    (forall i : nat, (i < List.length ts)%nat ->
       obs_of i (snd (run_sched ts sch s)) = run_alone (thr ts i) s /\
       (forall l : loc, t_R (thr ts i) l \/ t_W (thr ts i) l ->
          fst (run_sched ts sch s) l = final_alone (thr ts i) s l)) /\
    (forall l : loc, (forall i : nat, (i < List.length ts)%nat -> ~ t_W (thr ts i) l) ->
       fst (run_sched ts sch s) l = s l).
Proof. exact interleaving_invariance. Qed.

(* (2) the footprints of the code: evaluation writes only fresh objects, its own results and the
   runner's data map; nothing shared (no package-level variable, no field of a node or source) *)
Theorem C09_eval_footprint : forallb eval_write_ok (writes_of eval_entry) = true.
Proof. exact eval_footprint. Qed.

Theorem C09_shared_tree_is_read_only :
  existsb shared_write (writes_of eval_entry) = false /\
  existsb tree_setter (reachable eval_entry) = false /\
  existsb shared_write (writes_of fields_entry) = false /\
  existsb tree_setter (reachable fields_entry) = false.
Proof.
  exact (conj eval_writes_nothing_shared
          (conj eval_never_calls_tree_setters fields_writes_nothing_shared)).
Qed.

(* the builtin table and every other package-level variable are written only by init functions *)
Theorem C09_globals_written_only_by_init : forallb (starts "init") global_writers = true.
Proof. exact globals_written_only_by_init. Qed.

(* parsing writes only what it builds; formatting an error writes only the line-start cache of the
   source it is given *)
Theorem C09_parse_and_format_private :
  forallb parse_write_ok (writes_of parse_entry) = true /\
  existsb (fun w => andb (contains "global:" w) (negb (read_only_method w))) (writes_of parse_entry) = false /\
  forallb (fun w => orb (private_write w) (String.eqb w "param:file:*SourceCode.LineStarts"))
          (writes_of ["FormatDiagnostic"; "GetFileLineAndCharacterFromPosition"; "GetLineStarts"]) = true.
Proof. exact (conj parse_footprint (conj parse_writes_no_global format_footprint)). Qed.

(* hence goroutines of the four kinds are isolated, and each obtains its sequential result *)
Theorem C09_goroutines_isolated : forall (val obs : Type) (ts : list (thread gloc val obs)) kinds,
  footprints_from_table val obs ts kinds -> isolated ts.
Proof. exact goroutines_isolated. Qed.

Theorem C09_shared_formula_invariance : forall (val obs : Type) (ts : list (thread gloc val obs)) kinds sch s,
  footprints_from_table val obs ts kinds -> disciplined ts -> footprints_decidable ts -> complete ts sch ->
  (forall i, (i < List.length ts)%nat -> obs_of i (snd (run_sched ts sch s)) = run_alone (thr ts i) s) /\
  (forall d, fst (run_sched ts sch s) (Shared d) = s (Shared d)).
Proof. exact shared_formula_invariance. Qed.

Print Assumptions C09_interleaving_invariance.
Print Assumptions C09_eval_footprint.
Print Assumptions C09_shared_tree_is_read_only.
Print Assumptions C09_globals_written_only_by_init.
Print Assumptions C09_parse_and_format_private.
Print Assumptions C09_goroutines_isolated.
Print Assumptions C09_shared_formula_invariance.
