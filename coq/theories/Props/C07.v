(* C07 - Locals bind and sequence left to right; caller data is never modified.
   `eval hosts off e st` is the evaluator model of Sem/Eval.v; a state `st` is the data map
   (`r_this st`, None = never set) and the host-call trace (`r_trace st`, most recent first).
   `set_this_value name v st` writes entry `name` of the data map; `lookup_ident name st` is what a
   bare name denotes; `starts_dollar n` = the name begins with `$`.
   `eval_list hosts off l st` (Proofs/EvalFacts.v) is the evaluator's inner loop over array
   elements / call arguments as a standalone function:
     eval_list [] st = (Ok [], st)
     eval_list (a :: t) st = evaluate a in st, then t in the resulting state; stop at the first failure. *)
From Coq Require Import List ZArith Bool.
From Coq Require Import String.
From Formula Require Import Gen.Effects Conc.Footprint Sem.Eval Proofs.EvalFacts.
Import ListNotations.
Local Open Scope Z_scope.

(* "`$name = e` evaluates e, has e's value, and binds it" *)
Theorem assign_binds : forall hosts off k name r st v st1,
  starts_dollar name = true -> eval hosts off r st = (Ok v, st1) ->
  eval hosts off (SBin (SIdent k name) KEquals r) st = (Ok v, set_this_value name v st1).
Proof. exact EvalFacts.assign_binds. Qed.

(* a `$` name is never a builtin name, so a read after the write sees the written value *)
Theorem dollar_not_builtin : forall name,
  starts_dollar name = true -> existsb (bytes_eqb name) builtin_names = false.
Proof. exact EvalFacts.dollar_not_builtin. Qed.

Theorem assign_then_read : forall name v st,
  starts_dollar name = true -> lookup_ident name (set_this_value name v st) = v.
Proof. exact EvalFacts.assign_then_read. Qed.

(* "every later read of `$name` ... in later evaluations by the same runner sees it": reading `$name`
   in the state left behind by the assignment yields the assigned value *)
Theorem assign_visible_later : forall hosts off k k' name r st v st1,
  starts_dollar name = true -> eval hosts off r st = (Ok v, st1) ->
  eval hosts off (SIdent k' name) (snd (eval hosts off (SBin (SIdent k name) KEquals r) st)) =
  (Ok v, set_this_value name v st1).
Proof. exact EvalFacts.assign_visible_later. Qed.

(* "... further right in a comma sequence": `$name = e, $name` has e's value *)
Theorem assign_comma_read : forall hosts off k k' name r st v st1,
  starts_dollar name = true -> eval hosts off r st = (Ok v, st1) ->
  eval hosts off (SBin (SBin (SIdent k name) KEquals r) KComma (SIdent k' name)) st =
  (Ok v, set_this_value name v st1).
Proof. exact EvalFacts.assign_comma_read. Qed.

(* "Assigning to anything other than a bare `$`-prefixed name is an error" - and the right operand
   is not evaluated: the state (data map and trace) is returned unchanged *)
Theorem assign_target_error : forall hosts off l r st,
  match l with SIdent _ name => starts_dollar name | _ => false end = false ->
  eval hosts off (SBin l KEquals r) st = (Err, st).
Proof. exact EvalFacts.assign_target_error. Qed.

(* "`,` evaluates its operands left to right and yields the last" *)
Theorem comma_sequences : forall hosts off l r st v1 st1 v2 st2,
  eval hosts off l st = (Ok v1, st1) -> eval hosts off r st1 = (Ok v2, st2) ->
  eval hosts off (SBin l KComma r) st = (Ok v2, st2).
Proof. exact EvalFacts.comma_sequences. Qed.

(* "in later array elements or call arguments": elements / arguments are evaluated in source order,
   each in the state left by the previous one *)
Theorem eval_list_cons : forall hosts off a t st v st1 vs st2,
  eval hosts off a st = (Ok v, st1) -> eval_list hosts off t st1 = (Ok vs, st2) ->
  eval_list hosts off (a :: t) st = (Ok (v :: vs), st2).
Proof. exact EvalFacts.eval_list_cons. Qed.

Theorem array_left_to_right : forall hosts off es st vs st1,
  eval_list hosts off es st = (Ok vs, st1) -> eval hosts off (SArr es) st = (Ok (VArr vs), st1).
Proof. exact EvalFacts.array_left_to_right. Qed.

(* callee first, then the arguments left to right, then the call on the argument values in the state
   they left; the only thing done to the result is the normalisation of Go numbers (format_input) *)
Theorem args_left_to_right : forall hosts off f args sp st fv st1 vs st2,
  is_name_path f = true -> eval hosts off f st = (Ok fv, st1) ->
  eval_list hosts off args st1 = (Ok vs, st2) ->
  eval hosts off (SCall f args sp) st =
  (match fst (call_value hosts off fv vs sp st2) with Ok v => Ok (format_input v) | x => x end,
   snd (call_value hosts off fv vs sp st2)).
Proof. exact EvalFacts.args_left_to_right_explicit. Qed.

(* "evaluation never adds, removes or changes a non-`$` entry of the caller's data map":
   for EVERY tree, state and outcome (success, error, panic), every non-`$` key reads the same
   before and after (absent stays absent, present stays present with the same value) *)
Theorem frame : forall hosts off e st r st',
  eval hosts off e st = (r, st') ->
  forall k, starts_dollar k = false ->
  match r_this st' with Some m' => assoc k m' | None => None end =
  match r_this st with Some m => assoc k m | None => None end.
Proof. exact EvalFacts.frame. Qed.

(* "never adds": a key present after and absent before starts with `$` *)
Theorem domain_grows_only_by_dollar : forall hosts off e st r st' k x,
  eval hosts off e st = (r, st') ->
  match r_this st' with Some m' => assoc k m' | None => None end = Some x ->
  match r_this st with Some m => assoc k m | None => None end = None ->
  starts_dollar k = true.
Proof. exact EvalFacts.domain_grows_only_by_dollar. Qed.

(* "nor mutates any map, slice or number reachable from it": model values are immutable trees, so the
   meaningful consequence is that a non-`$` entry holds the SAME value (at every depth) afterwards.
   Writes through Go pointers into shared maps/slices/decimals are outside this model; they are
   covered by the footprint analysis and by the deep-snapshot comparison of the test harness. *)
Theorem values_never_mutated : forall hosts off e st r st' k x,
  eval hosts off e st = (r, st') -> starts_dollar k = false ->
  match r_this st with Some m => assoc k m | None => None end = Some x ->
  match r_this st' with Some m' => assoc k m' | None => None end = Some x.
Proof. exact EvalFacts.values_never_mutated. Qed.

(* host calls are only ever appended to the trace *)
Theorem trace_grows : forall hosts off e st r st',
  eval hosts off e st = (r, st') -> exists new_calls, r_trace st' = new_calls ++ r_trace st.
Proof. exact EvalFacts.trace_grows. Qed.

(* the same frame property at the public entry point Resolve *)
Theorem resolve_entry_frame : forall hosts off e st r st',
  resolve_entry hosts off e st = (r, st') ->
  forall k, starts_dollar k = false ->
  match r_this st' with Some m' => assoc k m' | None => None end =
  match r_this st with Some m => assoc k m | None => None end.
Proof. exact EvalFacts.resolve_entry_frame. Qed.

(* the code side (write footprints regenerated from the SSA form on every run): neither the evaluator nor any
   builtin stores into an object it was handed, and a number that may be shared (a parameter, something loaded
   from the data, the result of a coercion) reaches the decimal package only in operand positions - never as the
   receiver of a mutating method or as the destination argument of a Context method *)
Theorem stored_numbers_never_written :
  forallb eval_write_ok (writes_of eval_entry) = true /\ forallb private_write (writes_of builtin_entry) = true.
Proof. exact (conj eval_footprint builtins_footprint). Qed.

Print Assumptions stored_numbers_never_written.
Print Assumptions assign_binds.
Print Assumptions dollar_not_builtin.
Print Assumptions assign_then_read.
Print Assumptions assign_visible_later.
Print Assumptions assign_comma_read.
Print Assumptions assign_target_error.
Print Assumptions comma_sequences.
Print Assumptions eval_list_cons.
Print Assumptions array_left_to_right.
Print Assumptions args_left_to_right.
Print Assumptions frame.
Print Assumptions domain_grows_only_by_dollar.
Print Assumptions values_never_mutated.
Print Assumptions trace_grows.
Print Assumptions resolve_entry_frame.
