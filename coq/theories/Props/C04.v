(* C04 - Decimal arithmetic is exact; nothing passes through binary floating point.

   Vocabulary.  Model (Num/Dec.v): dec = Fin neg c e | Inf | NaN, prec = 34, pow10 k = 10^k,
   scoef neg c = the signed coefficient, ndigits, round_he, fin_round, round_div, dec_add ...
   Proofs/DecVal.v:   q10 e = 10^e as a rational (e of either sign);
                      val x = the rational value (-1)^neg * c * 10^e of a finite decimal;
                      rounds_to p q r = "r is q rounded half-even to p significant digits".
   Proofs/DecFacts.v: finite x  = x is Fin with 0 <= c (the representation invariant);
                      numk n k / denk d k = numerator / denominator of n/d scaled by 10^k;
                      digit_val ds = the integer spelled by the ASCII digits ds; literal pieces.
   Proofs/DecArith.v: nonzero x = x is Fin with 0 < c;  fits x = Fin with 0 <= c < 10^34.
   The final conversion of the result to float64 is outside the model and nothing is stated
   about it here.  Every theorem holds for ALL operands (no bound on digits or exponents). *)
From Coq Require Import QArith Qabs ZArith List String.
From Formula Require Import Num.Dec Num.Float Sem.Value Sem.Eval Proofs.DecFacts Proofs.DecVal Proofs.DecArith Proofs.FloatFacts.

(* ---------- the vocabulary, unfolded ---------- *)

(* the value of a finite decimal *)
Theorem val_def : forall n c e, val (Fin n c e) = (inject_Z (scoef n c) * inject_Z 10 ^ e)%Q.
Proof. exact (fun n c e => eq_refl). Qed.

(* "r is q rounded half-even to p significant digits": r has a coefficient below 10^p; either r
   is exactly q, or 10^u is the unit of the p-th significant digit of q; r is a multiple of 10^u
   within half a unit of q; on an exact tie the multiple is the even one *)
Theorem rounds_to_def : forall p q r,
  rounds_to p q r <->
  exists n c e u,
    r = Fin n c e /\ 0 <= c < 10 ^ p /\ u <= e /\
    (q == val r \/ (inject_Z (10 ^ (p - 1)) * q10 u <= Qabs q /\ Qabs q < inject_Z (10 ^ p) * q10 u))%Q /\
    (2 * Qabs (q - val r) <= q10 u)%Q /\
    ((2 * Qabs (q - val r) == q10 u)%Q -> Z.even (c * 10 ^ (e - u)) = true).
Proof. exact (fun p q r => iff_refl _). Qed.

(* the requirement determines the value: any correct half-even rounding to p digits agrees *)
Theorem rounds_to_unique : forall p q r1 r2, 0 < p ->
  rounds_to p q r1 -> rounds_to p q r2 -> val r1 == val r2.
Proof. exact DecVal.rounds_to_unique. Qed.

(* ---------- 1. digit count ---------- *)

Theorem ndigits_spec : forall c, 0 < c -> 10 ^ (ndigits c - 1) <= c < 10 ^ (ndigits c).
Proof. exact DecFacts.ndigits_spec. Qed.

(* ---------- 2. half-even rounding of a coefficient ("rounded half-even to 34 digits") ---------- *)

(* at most p digits; nearest multiple of the new unit; ties to even *)
Theorem round_he_spec : forall p c e c' e', 0 <= c -> 0 < p -> round_he p c e = (c', e') ->
  e <= e' /\ 0 <= c' < 10 ^ p /\
  2 * Z.abs (c - c' * 10 ^ (e' - e)) <= 10 ^ (e' - e) /\
  (2 * Z.abs (c - c' * 10 ^ (e' - e)) = 10 ^ (e' - e) -> Z.even c' = true).
Proof. exact DecFacts.round_he_spec. Qed.

(* nothing is rounded when the coefficient already has at most p digits *)
Theorem round_he_exact : forall p c e, ndigits c <= p -> round_he p c e = (c, e).
Proof. exact DecFacts.round_he_exact. Qed.

(* when digits are dropped the result has exactly p digits *)
Theorem round_he_full : forall p c e c' e', 0 <= c -> 0 < p -> p < ndigits c -> round_he p c e = (c', e') ->
  10 ^ (p - 1) <= c' /\ e < e'.
Proof. exact DecFacts.round_he_full. Qed.

(* any coefficient meeting the nearest / ties-to-even requirement at that exponent is the model's *)
Theorem round_he_unique : forall p c e c' e' c'', 0 <= c -> 0 < p -> round_he p c e = (c', e') ->
  2 * Z.abs (c - c'' * 10 ^ (e' - e)) <= 10 ^ (e' - e) ->
  (2 * Z.abs (c - c'' * 10 ^ (e' - e)) = 10 ^ (e' - e) -> Z.even c'' = true) ->
  c'' = c'.
Proof. exact DecFacts.round_he_unique. Qed.

(* ---------- 3. + - * : exact when the result fits 34 digits, else rounded half-even ---------- *)

(* + is one rounding of the exact integer sum taken at the common exponent *)
Theorem add_is_fin_round : forall n1 c1 e1 n2 c2 e2,
  let e := Z.min e1 e2 in
  let s := scoef n1 (c1 * pow10 (e1 - e)) + scoef n2 (c2 * pow10 (e2 - e)) in
  dec_add (Fin n1 c1 e1) (Fin n2 c2 e2) =
  if s =? 0 then Fin (n1 && n2) 0 e else fin_round (s <? 0) (Z.abs s) e.
Proof. exact DecArith.add_is_fin_round. Qed.

(* "+ returns the mathematical result rounded half-even to 34 digits" *)
Theorem add_rounded : forall x y, finite x = true -> finite y = true ->
  rounds_to prec (val x + val y)%Q (dec_add x y).
Proof. exact DecArith.add_rounded. Qed.

(* "+ returns exactly the mathematical result whenever it has at most 34 significant digits" *)
Theorem add_exact : forall x y n c e, finite x = true -> finite y = true ->
  0 <= c < 10 ^ prec -> (val x + val y == val (Fin n c e))%Q ->
  (val (dec_add x y) == val x + val y)%Q.
Proof. exact DecArith.add_exact. Qed.

(* the same with the digit count taken on the aligned integer sum s: the result denotes s at scale e *)
Theorem add_exact_digits : forall n1 c1 e1 n2 c2 e2,
  let e := Z.min e1 e2 in
  let s := scoef n1 (c1 * pow10 (e1 - e)) + scoef n2 (c2 * pow10 (e2 - e)) in
  ndigits (Z.abs s) <= prec ->
  (val (dec_add (Fin n1 c1 e1) (Fin n2 c2 e2)) == val (Fin n1 c1 e1) + val (Fin n2 c2 e2))%Q /\
  (val (dec_add (Fin n1 c1 e1) (Fin n2 c2 e2)) == inject_Z s * q10 e)%Q.
Proof. exact DecArith.add_exact_digits. Qed.

Theorem sub_is_fin_round : forall n1 c1 e1 n2 c2 e2,
  let e := Z.min e1 e2 in
  let s := scoef n1 (c1 * pow10 (e1 - e)) - scoef n2 (c2 * pow10 (e2 - e)) in
  dec_sub (Fin n1 c1 e1) (Fin n2 c2 e2) =
  if s =? 0 then Fin (n1 && negb n2) 0 e else fin_round (s <? 0) (Z.abs s) e.
Proof. exact DecArith.sub_is_fin_round. Qed.

Theorem sub_rounded : forall x y, finite x = true -> finite y = true ->
  rounds_to prec (val x - val y)%Q (dec_sub x y).
Proof. exact DecArith.sub_rounded. Qed.

Theorem sub_exact : forall x y n c e, finite x = true -> finite y = true ->
  0 <= c < 10 ^ prec -> (val x - val y == val (Fin n c e))%Q ->
  (val (dec_sub x y) == val x - val y)%Q.
Proof. exact DecArith.sub_exact. Qed.

Theorem sub_exact_digits : forall n1 c1 e1 n2 c2 e2,
  let e := Z.min e1 e2 in
  let s := scoef n1 (c1 * pow10 (e1 - e)) - scoef n2 (c2 * pow10 (e2 - e)) in
  ndigits (Z.abs s) <= prec ->
  (val (dec_sub (Fin n1 c1 e1) (Fin n2 c2 e2)) == val (Fin n1 c1 e1) - val (Fin n2 c2 e2))%Q /\
  (val (dec_sub (Fin n1 c1 e1) (Fin n2 c2 e2)) == inject_Z s * q10 e)%Q.
Proof. exact DecArith.sub_exact_digits. Qed.

Theorem mul_is_fin_round : forall n1 c1 e1 n2 c2 e2,
  dec_mul (Fin n1 c1 e1) (Fin n2 c2 e2) = fin_round (xorb n1 n2) (c1 * c2) (e1 + e2).
Proof. exact DecArith.mul_is_fin_round. Qed.

Theorem mul_rounded : forall x y, finite x = true -> finite y = true ->
  rounds_to prec (val x * val y)%Q (dec_mul x y).
Proof. exact DecArith.mul_rounded. Qed.

Theorem mul_exact : forall x y n c e, finite x = true -> finite y = true ->
  0 <= c < 10 ^ prec -> (val x * val y == val (Fin n c e))%Q ->
  (val (dec_mul x y) == val x * val y)%Q.
Proof. exact DecArith.mul_exact. Qed.

Theorem mul_exact_digits : forall n1 c1 e1 n2 c2 e2,
  ndigits (c1 * c2) <= prec ->
  dec_mul (Fin n1 c1 e1) (Fin n2 c2 e2) = Fin (xorb n1 n2) (c1 * c2) (e1 + e2) /\
  (val (dec_mul (Fin n1 c1 e1) (Fin n2 c2 e2)) == val (Fin n1 c1 e1) * val (Fin n2 c2 e2))%Q.
Proof. exact DecArith.mul_exact_digits. Qed.

(* ---------- 4. / : the quotient rounded half-even to 34 significant digits ---------- *)

Theorem quo_spec : forall x y, nonzero x = true -> nonzero y = true ->
  rounds_to prec (val x / val y)%Q (dec_quo x y).
Proof. exact DecArith.quo_spec. Qed.

(* in particular a quotient that has at most 34 digits is returned exactly *)
Theorem quo_exact : forall x y n c e, nonzero x = true -> nonzero y = true ->
  0 <= c < 10 ^ prec -> (val x / val y == val (Fin n c e))%Q ->
  (val (dec_quo x y) == val x / val y)%Q.
Proof. exact DecArith.quo_exact. Qed.

Theorem quo_zero_dividend : forall n1 e1 y, nonzero y = true ->
  exists n e, dec_quo (Fin n1 0 e1) y = Fin n 0 e.
Proof. exact DecArith.quo_zero_dividend. Qed.

(* the same on integers: with num/den = n/d scaled by 10^k into [10^(p-1), 10^p), the result read
   in units of 10^(e-k) is the integer m nearest to num/den, ties to even, exact when den | num *)
Theorem quo_spec_integers : forall p n d e c e', 0 < n -> 0 < d -> 0 < p -> round_div p n d e = (c, e') ->
  exists k,
    let num := numk n k in let den := denk d k in
    pow10 (p - 1) * den <= num < pow10 p * den /\
    e - k <= e' /\ 0 < c < pow10 p /\
    let m := c * pow10 (e' - (e - k)) in
    2 * Z.abs (num - m * den) <= den /\
    (2 * Z.abs (num - m * den) = den -> Z.even m = true) /\
    ((den | num) -> num = m * den).
Proof. exact DecFacts.round_div_spec. Qed.

Theorem quo_is_round_div : forall n1 c1 e1 n2 c2 e2, 0 < c1 -> 0 < c2 ->
  dec_quo (Fin n1 c1 e1) (Fin n2 c2 e2) =
  let '(c, e) := round_div prec c1 c2 (e1 - e2) in Fin (xorb n1 n2) c e.
Proof. exact DecArith.quo_is_round_div. Qed.

(* ---------- 5. % : exact remainder of truncated division, sign of the dividend ---------- *)

(* A, B: the operands as signed integers at the common exponent; Z.quot / Z.rem: Coq's division
   truncated toward zero (see trunc_division_facts) *)
Theorem rem_spec : forall n1 c1 e1 n2 c2 e2, 0 <= c1 -> 0 < c2 ->
  let e := Z.min e1 e2 in
  let A := scoef n1 (c1 * pow10 (e1 - e)) in
  let B := scoef n2 (c2 * pow10 (e2 - e)) in
  ndigits (Z.abs (Z.quot A B)) <= prec ->
  dec_rem (Fin n1 c1 e1) (Fin n2 c2 e2) =
  if Z.rem A B =? 0 then Fin n1 0 e else fin_round n1 (Z.abs (Z.rem A B)) e.
Proof. exact DecFacts.rem_spec. Qed.

(* operands of at most 34 digits: the remainder is never rounded *)
Theorem rem_exact : forall n1 c1 e1 n2 c2 e2, 0 <= c1 < 10 ^ prec -> 0 < c2 < 10 ^ prec ->
  let e := Z.min e1 e2 in
  let A := scoef n1 (c1 * pow10 (e1 - e)) in
  let B := scoef n2 (c2 * pow10 (e2 - e)) in
  ndigits (Z.abs (Z.quot A B)) <= prec ->
  dec_rem (Fin n1 c1 e1) (Fin n2 c2 e2) = Fin n1 (Z.abs (Z.rem A B)) e.
Proof. exact DecFacts.rem_exact. Qed.

(* on values: x - trunc(x/y) * y, smaller than y in magnitude, carrying the sign of x *)
Theorem rem_value : forall n1 c1 e1 n2 c2 e2, 0 <= c1 < 10 ^ prec -> 0 < c2 < 10 ^ prec ->
  let e := Z.min e1 e2 in
  let A := scoef n1 (c1 * pow10 (e1 - e)) in
  let B := scoef n2 (c2 * pow10 (e2 - e)) in
  ndigits (Z.abs (Z.quot A B)) <= prec ->
  let r := dec_rem (Fin n1 c1 e1) (Fin n2 c2 e2) in
  (val r == val (Fin n1 c1 e1) - inject_Z (Z.quot A B) * val (Fin n2 c2 e2))%Q /\
  (Qabs (val r) < Qabs (val (Fin n2 c2 e2)))%Q /\
  sign_of r = n1 /\ finite r = true.
Proof. exact DecArith.rem_value. Qed.

Theorem trunc_division_facts : forall a b, b <> 0 ->
  a = b * Z.quot a b + Z.rem a b /\ Z.abs (Z.rem a b) < Z.abs b /\ 0 <= Z.rem a b * a.
Proof. exact DecArith.trunc_division_facts. Qed.

(* known limitation of the library, recorded: an integer quotient of more than 34 digits gives NaN *)
Theorem rem_impossible : forall n1 c1 e1 n2 c2 e2, 0 <= c1 -> 0 < c2 ->
  let e := Z.min e1 e2 in
  let A := scoef n1 (c1 * pow10 (e1 - e)) in
  let B := scoef n2 (c2 * pow10 (e2 - e)) in
  prec < ndigits (Z.abs (Z.quot A B)) ->
  dec_rem (Fin n1 c1 e1) (Fin n2 c2 e2) = NaN.
Proof. exact DecFacts.rem_impossible. Qed.

(* ... and that limitation is reachable inside the property's own domain (1-34 digits, exponents
   within +-30): the property text's claim for % fails on 1e30 % 3e-10, where the result is NaN *)
Example rem_impossible_in_domain :
  dec_rem (ds "1e30") (ds "3e-10") = NaN /\ ds "1e30" = Fin false 1 30 /\ ds "3e-10" = Fin false 3 (-10) /\
  prec < ndigits (Z.abs (Z.quot (scoef false (1 * pow10 (30 - Z.min 30 (-10)))) (scoef false (3 * pow10 (-10 - Z.min 30 (-10)))))).
Proof. exact DecArith.rem_impossible_in_domain. Qed.

(* instances: 7 % -3 = 1, -7 % 3 = -1, 7.5 % 2 = 1.5, -6 % 3 = -0 *)
Example rem_instance :
  dec_rem (ds "7") (ds "-3") = Fin false 1 0 /\ dec_rem (ds "-7") (ds "3") = Fin true 1 0 /\
  dec_rem (ds "7.5") (ds "2") = Fin false 15 (-1) /\ dec_rem (ds "-6") (ds "3") = Fin true 0 0 /\
  ndigits (Z.abs (Z.quot (scoef false (7 * pow10 0)) (scoef true (3 * pow10 0)))) <= prec.
Proof. exact DecArith.rem_instance. Qed.

(* "as every computed number is": results are again finite with at most 34 digits *)
Theorem results_fit : forall x y, finite x = true -> finite y = true ->
  fits (dec_add x y) = true /\ fits (dec_sub x y) = true /\ fits (dec_mul x y) = true /\
  (nonzero y = true -> fits (dec_quo x y) = true).
Proof. exact DecArith.results_fit. Qed.

Theorem fits_finite : forall x, fits x = true -> finite x = true.
Proof. exact DecArith.fits_finite. Qed.

(* instances: an exact sum; a tie going to the even neighbour with carry; a tie staying; a product
   rounded up; quotients rounded (1/3, 2/3) and exact (1/8) *)
Example add_exact_instance :
  finite (ds "0.1") = true /\ finite (ds "0.2") = true /\
  (val (ds "0.1") + val (ds "0.2") == val (Fin false 3 (-1)))%Q.
Proof. exact DecArith.add_exact_instance. Qed.

Example add_rounding_instance :
  dec_add (ds "9999999999999999999999999999999999") (ds "0.5") = Fin false (10 ^ 33) 1 /\
  dec_add (ds "9999999999999999999999999999999998") (ds "0.5") = Fin false 9999999999999999999999999999999998 0 /\
  dec_mul (ds "3333333333333333333333333333333333") (ds "3.5") = Fin false 1166666666666666666666666666666667 1.
Proof. exact DecArith.add_rounding_instance. Qed.

Example quo_instance :
  nonzero (ds "1") = true /\ nonzero (ds "3") = true /\
  dec_quo (ds "1") (ds "3") = Fin false 3333333333333333333333333333333333 (-34) /\
  dec_quo (ds "2") (ds "3") = Fin false 6666666666666666666666666666666667 (-34) /\
  dec_quo (ds "1") (ds "8") = Fin false 125 (-3) /\
  (val (ds "1") / val (ds "8") == val (Fin false 125 (-3)))%Q.
Proof. exact DecArith.quo_instance. Qed.

(* ---------- 6. entry: literals, Go integers, Go floats ---------- *)

(* a literal  digits [. digits] [e|E [+|-] digits]  is kept exactly: no rounding on entry *)
Theorem literal_kept_exactly : forall ip fp ex,
  all_digits ip = true -> all_digits (frac_digits fp) = true -> exp_ok ex = true ->
  ip ++ frac_digits fp <> [] ->
  dec_of_string (ip ++ frac_bytes fp ++ exp_bytes ex) =
  Fin false (digit_val (ip ++ frac_digits fp)) (exp_value ex - Z.of_nat (length (frac_digits fp))).
Proof. exact DecFacts.literal_kept_exactly. Qed.

(* the same with a leading '-' (byte 45) or '+' (byte 43), as in the spelling of a negative float *)
Theorem signed_literal_kept_exactly : forall ip fp ex,
  all_digits ip = true -> all_digits (frac_digits fp) = true -> exp_ok ex = true ->
  ip ++ frac_digits fp <> [] ->
  dec_of_string (45 :: ip ++ frac_bytes fp ++ exp_bytes ex) =
  Fin true (digit_val (ip ++ frac_digits fp)) (exp_value ex - Z.of_nat (length (frac_digits fp))) /\
  dec_of_string (43 :: ip ++ frac_bytes fp ++ exp_bytes ex) =
  Fin false (digit_val (ip ++ frac_digits fp)) (exp_value ex - Z.of_nat (length (frac_digits fp))).
Proof. exact DecFacts.signed_literal_kept_exactly. Qed.

(* the hypotheses on an instance: "12.50e-3" is 1250 * 10^-5 *)
Example literal_instance :
  str "12.50e-3" = [49; 50] ++ frac_bytes (Some [53; 48]) ++ exp_bytes (Some (101, EMinus, [51])) /\
  all_digits [49; 50] = true /\ all_digits [53; 48] = true /\ exp_ok (Some (101, EMinus, [51])) = true /\
  ds "12.50e-3" = Fin false 1250 (-5).
Proof. exact DecArith.literal_instance. Qed.

(* Go int, int32, int64 data values enter as exactly that integer *)
Theorem int_entry_exact : forall n,
  format_input (VGoInt GInt64 n) = VNum (dec_of_Z n) /\
  format_input (VGoInt GInt n) = VNum (dec_of_Z n) /\
  format_input (VGoInt GInt32 n) = VNum (dec_of_Z n) /\
  (val (dec_of_Z n) == inject_Z n)%Q /\ finite (dec_of_Z n) = true.
Proof. exact DecArith.int_entry_exact. Qed.

(* a Go float64 enters through its shortest decimal spelling s (produced by Go's strconv, which is
   outside the model) and then exactly as the literal s *)
Theorem float_entry : forall s, format_input (VGoFloat s) = VNum (dec_of_string s).
Proof. exact DecArith.float_entry. Qed.

(* 0.1 + 0.2 === 0.3 *)
Example tenth_plus_fifth :
  exists s, binary_op KPlus (VNum (ds "0.1")) (VNum (ds "0.2")) = Ok (VNum s) /\
            binary_op KEqEqEq (VNum s) (VNum (ds "0.3")) = Ok (VBool true) /\
            strict_eq (VNum (dec_add (ds "0.1") (ds "0.2"))) (VNum (ds "0.3")) = Ok true /\
            dec_cmp (dec_add (ds "0.1") (ds "0.2")) (ds "0.3") = 0.
Proof. exact DecArith.tenth_plus_fifth. Qed.

(* a 64-bit integer field above 2^53 equals the same integer written as a literal *)
Example int64_above_2_53 :
  dec_cmp (dec_of_Z 9007199254740993) (ds "9007199254740993") = 0 /\
  strict_eq (format_input (VGoInt GInt64 9007199254740993)) (VNum (ds "9007199254740993")) = Ok true /\
  dec_cmp (dec_of_Z 9007199254740993) (ds "9007199254740992") = 1.
Proof. exact DecArith.int64_above_2_53. Qed.


(* ---- the float64 finally handed back: the binary64 nearest the decimal result (Num/Float.v) ----
   f64_of_dec d is the model of strconv.ParseFloat(d.String(), 64); a finite result FFin neg m e denotes
   (-1)^neg * m * 2^e.  All statements are cross-multiplied in Z (no reals): num/den is the exact value of
   the decimal (dec_num c e / dec_den e), ival m e = m * 2^(e+1074) the result scaled by 2^1074.
   They hold for EVERY decimal, which covers the clause "an integer of at most 15 digits scaled by a power of ten
   within 10^-22..10^22" and makes the "four units in the last place otherwise" allowance unnecessary. *)
Theorem float_exit_is_the_rounded_exact_value : forall n c e, (0 <= c)%Z ->
  f64_of_dec (Fin n c e) = f64_of_ratio n (dec_num c e) (dec_den e).
Proof. exact f64_of_dec_ratio. Qed.

Theorem float_exit_nearest_ties_even : forall neg num den n m e, (0 <= num)%Z -> (0 < den)%Z ->
  f64_of_ratio neg num den = FFin n m e -> nearest_even num den m e.
Proof. exact f64_of_ratio_nearest_even. Qed.

Theorem float_exit_nearest_is_unique : forall num den m1 e1 m2 e2, (0 < den)%Z ->
  nearest_even num den m1 e1 -> nearest_even num den m2 e2 -> m1 = m2 /\ e1 = e2.
Proof. exact nearest_even_unique. Qed.

Theorem float_exit_overflows_exactly_from : forall neg num den, (0 < den)%Z ->
  (f64_of_ratio neg num den = FInf neg <-> ((2 ^ 1024 - 2 ^ 970) * den <= num)%Z).
Proof. exact f64_of_ratio_inf_iff. Qed.

Theorem float_exit_exact_when_representable : forall neg num den m' e', (0 < den)%Z -> rep m' e' ->
  (num * 2 ^ 1074 = m' * 2 ^ (e' + 1074) * den)%Z ->
  exists m e, f64_of_ratio neg num den = FFin neg m e /\ canon m e /\ (m * 2 ^ (e + 1074) = m' * 2 ^ (e' + 1074))%Z.
Proof. exact f64_of_ratio_exact. Qed.

Theorem float_exit_monotone : forall neg1 neg2 n1 d1 n2 d2, (0 <= n1)%Z -> (0 < d1)%Z -> (0 < d2)%Z ->
  (n1 * d2 <= n2 * d1)%Z -> f64_mag_le (f64_of_ratio neg1 n1 d1) (f64_of_ratio neg2 n2 d2).
Proof. exact f64_of_ratio_mono. Qed.

Theorem float_exit_bits_injective : forall f g, f64_canon f -> f64_canon g -> f64_bits f = f64_bits g -> f = g.
Proof. exact f64_bits_inj. Qed.

Theorem float_exit_canonical : forall d, match d with Fin _ c _ => (0 <= c)%Z | _ => True end -> f64_canon (f64_of_dec d).
Proof. exact f64_of_dec_canon. Qed.

Print Assumptions float_exit_is_the_rounded_exact_value.
Print Assumptions float_exit_nearest_ties_even.
Print Assumptions float_exit_nearest_is_unique.
Print Assumptions float_exit_overflows_exactly_from.
Print Assumptions float_exit_exact_when_representable.
Print Assumptions float_exit_monotone.
Print Assumptions float_exit_bits_injective.
Print Assumptions float_exit_canonical.
Print Assumptions val_def.
Print Assumptions rounds_to_def.
Print Assumptions rounds_to_unique.
Print Assumptions ndigits_spec.
Print Assumptions round_he_spec.
Print Assumptions round_he_exact.
Print Assumptions round_he_full.
Print Assumptions round_he_unique.
Print Assumptions add_is_fin_round.
Print Assumptions add_rounded.
Print Assumptions add_exact.
Print Assumptions add_exact_digits.
Print Assumptions sub_is_fin_round.
Print Assumptions sub_rounded.
Print Assumptions sub_exact.
Print Assumptions sub_exact_digits.
Print Assumptions mul_is_fin_round.
Print Assumptions mul_rounded.
Print Assumptions mul_exact.
Print Assumptions mul_exact_digits.
Print Assumptions quo_spec.
Print Assumptions quo_exact.
Print Assumptions quo_zero_dividend.
Print Assumptions quo_spec_integers.
Print Assumptions quo_is_round_div.
Print Assumptions rem_spec.
Print Assumptions rem_exact.
Print Assumptions rem_value.
Print Assumptions trunc_division_facts.
Print Assumptions rem_impossible.
Print Assumptions results_fit.
Print Assumptions literal_kept_exactly.
Print Assumptions signed_literal_kept_exactly.
Print Assumptions literal_instance.
Print Assumptions rem_impossible_in_domain.
Print Assumptions rem_instance.
Print Assumptions fits_finite.
Print Assumptions add_exact_instance.
Print Assumptions add_rounding_instance.
Print Assumptions quo_instance.
Print Assumptions int_entry_exact.
Print Assumptions float_entry.
Print Assumptions tenth_plus_fifth.
Print Assumptions int64_above_2_53.
