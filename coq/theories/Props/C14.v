(* C14  Tokens tile the input; longest match; spacing is insignificant.
   Property theorems only; every proof is `exact` a lemma of Proofs/. *)
From Formula Require Import Lex.Scanner Lex.ScanSpec Syn.Parser Syn.Ast Proofs.Utf8Facts Proofs.ScannerFacts
     Proofs.ScannerOps Proofs.CharsFacts Proofs.SourceFacts Tie.TablesTie.

(* the scanner always returns a token stream (no fuel exhaustion) for every byte string *)
Theorem C14_scan_total : forall text, exists toks, scan_all text = Some toks.
Proof. exact scan_all_total. Qed.

(* successive tokens are contiguous and in order, each non-EOF token advances,
   start <= text start <= end, the last token is EOF and ends at the end of input *)
Theorem C14_tokens_tile : forall text toks, scan_all text = Some toks -> tiles toks 0 (blen text).
Proof. exact tokens_tile. Qed.

(* each Scan() call: the token's leading trivia consists of whitespace / line-break characters
   only, the preceding-line-break flag is set iff a line break occurs in it, and a non-EOF token
   has a non-empty body *)
Theorem C14_trivia_is_whitespace : forall ss pos tok rest,
  Forall step_ok ss -> scan_one ss pos = (tok, rest) ->
  exists trivia body, ss = trivia ++ body ++ rest /\
    tstart tok = pos /\ tpos tok = pos + steps_len trivia /\ tend tok = tpos tok + steps_len body /\
    Forall (fun s => is_trivia_step s = true) trivia /\
    tnl tok = existsb (fun s => is_line_break (fst s)) trivia /\
    (tk tok = KEOF -> body = [] /\ rest = []) /\ (tk tok <> KEOF -> body <> []).
Proof. exact scan_one_decompose. Qed.

Theorem C14_progress : forall ss pos tok rest,
  Forall step_ok ss -> scan_one ss pos = (tok, rest) -> tk tok <> KEOF ->
  (length rest < length ss)%nat /\ tpos tok < tend tok.
Proof. exact scan_one_progress. Qed.

(* operators are matched longest-first: for EVERY string of one to three punctuation characters
   the model's first token equals what the code produces (regenerated dispatch table, exhaustive);
   the general statement over arbitrary continuations is Proofs/ScannerOps.v *)
Theorem C14_operator_dispatch_is_the_codes : dispatch_ok = true.
Proof. exact operator_dispatch_tie. Qed.

(* ... and for EVERY input: at an operator character (not a dot that starts a number) the token is
   the LONGEST lexeme of the operator table (ScanSpec.op_lexemes) that is a prefix of the input *)
Theorem C14_operators_longest_match : forall ss pos tok rest,
  (forall s, In s ss -> True) -> skip_trivia ss pos false = (ss, pos, false) ->
  starts_operator ss = true -> scan_one ss pos = (tok, rest) ->
  exists lex, longest_match ss = Some (lex, tk tok) /\ rest = skipn (length lex) ss /\
    tval tok = [] /\ tdiags tok = [].
Proof. exact operators_longest_match. Qed.

(* spacing is insignificant: two texts whose token streams agree in kinds and values, and in the
   line-break flag of `.`, `!.` and `(` tokens, parse alike *)
Theorem C14_spacing_insignificant : forall text1 text2 toks1 toks2,
  scan_all text1 = Some toks1 -> scan_all text2 = Some toks2 ->
  Forall (fun t => tdiags t = []) toks1 -> Forall (fun t => tdiags t = []) toks2 ->
  same_tokens toks1 toks2 ->
  forall e1, parse_source text1 = Accepted e1 ->
  exists e2, parse_source text2 = Accepted e2 /\ strip e2 = strip e1.
Proof. exact spacing_insignificant. Qed.

Theorem C14_spacing_insignificant_reject : forall text1 text2 toks1 toks2,
  scan_all text1 = Some toks1 -> scan_all text2 = Some toks2 ->
  Forall (fun t => tdiags t = []) toks1 -> Forall (fun t => tdiags t = []) toks2 ->
  same_tokens toks1 toks2 ->
  forall d ds e1, parse_source text1 = Rejected d ds e1 ->
  forall e2, parse_source text2 <> Accepted e2.
Proof. exact spacing_insignificant_reject. Qed.

(* keywords are recognised only as whole words: an identifier-like token is a keyword iff its
   WHOLE value is one of the six keyword spellings; identifiers are maximal runs *)
Theorem C14_keywords_whole_word : forall ss pos tok rest,
  scan_one ss pos = (tok, rest) -> (tk tok = KIdent \/ is_keyword_kind tok) ->
  (is_keyword_kind tok <-> In (tval tok) [kw_true; kw_false; kw_null; kw_this; kw_ctx; kw_typeof]).
Proof. exact keywords_whole_word_iff. Qed.

Theorem C14_identifier_maximal : forall ss pos tok rest,
  scan_one ss pos = (tok, rest) -> (tk tok = KIdent \/ is_keyword_kind tok) ->
  match rest with (r, _) :: _ => is_ident_part r = false | [] => True end.
Proof. exact identifier_maximal. Qed.

(* the range-table binary search (with its forced-even midpoint) is exactly membership, for every
   sorted table and every code point; hence identifiers are `$`, `_`, ASCII letters, digits and the
   ES5 identifier classes (pinned tables es5_id_start / es5_id_part) *)
Theorem C14_range_lookup_correct : forall tbl code,
  ranges_sorted tbl = true -> tbl <> [] -> lookup_in_map code tbl = Some (in_ranges tbl code).
Proof. exact lookup_correct. Qed.

Theorem C14_identifier_start_class : forall r,
  is_ident_start r =
  (is_ascii_letter r || (r =? 36) || (r =? 95) || ((127 <? r) && in_ranges es5_id_start r)).
Proof. exact ident_start_spec. Qed.

Theorem C14_identifier_part_class : forall r,
  is_ident_part r =
  (is_ascii_letter r || is_digit r || (r =? 36) || (r =? 95) || ((127 <? r) && in_ranges es5_id_part r)).
Proof. exact ident_part_spec. Qed.

(* the ES whitespace and line-terminator sets, as explicit code point ranges *)
Theorem C14_whitespace_set : forall r,
  is_white_space r = in_pairs [(9,9);(11,12);(32,32);(160,160);(5760,5760);(8192,8203);(8239,8239);(8287,8287);(12288,12288);(65279,65279)] r.
Proof. exact whitespace_set. Qed.

Theorem C14_linebreak_set : forall r, is_line_break r = in_pairs [(10,10);(13,13);(133,133);(8232,8233)] r.
Proof. exact linebreak_set. Qed.

Print Assumptions C14_scan_total.
Print Assumptions C14_tokens_tile.
Print Assumptions C14_trivia_is_whitespace.
Print Assumptions C14_progress.
Print Assumptions C14_operator_dispatch_is_the_codes.
Print Assumptions C14_operators_longest_match.
Print Assumptions C14_spacing_insignificant.
Print Assumptions C14_spacing_insignificant_reject.
Print Assumptions C14_keywords_whole_word.
Print Assumptions C14_identifier_maximal.
Print Assumptions C14_range_lookup_correct.
Print Assumptions C14_identifier_start_class.
Print Assumptions C14_identifier_part_class.
Print Assumptions C14_whitespace_set.
Print Assumptions C14_linebreak_set.
