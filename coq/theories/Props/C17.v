(* C17 - String builtins obey the laws of prefix, suffix, slice and pad.
   Strings are byte lists (list Z); `slen` is the byte length; `builtin_apply off name args` is the
   model's semantics of the builtin called `name` on converted arguments (Sem/Eval.v), `off` the
   offset of the local zone (irrelevant here).  Ok = returned value, Panic = Go run-time panic
   (slice bounds), Unk = not modelled.
   NOT COVERED (the model answers Unk): regexp (see regexp_not_modelled).  replace with an empty pattern is
   modelled character by character (replace_empty_pattern).  lower / upper / trim beyond ASCII follow the pinned Unicode tables
   (case_and_trim_unicode ff.). *)
From Coq Require Import String Ascii.
From Coq Require Import List ZArith.
From Formula Require Import Base.Utf8 Lex.CaseTables Lex.CaseMap Gen.ImplTables Tie.TablesTie Sem.Eval Proofs.BuiltinFacts Proofs.CaseMapFacts Proofs.TrimFacts.
Import ListNotations.
Local Open Scope Z_scope.

(* ---- the primitives of the model: prefix, suffix, strings.Index ---- *)

Theorem is_prefix_spec : forall p s, is_prefix p s = true <-> exists r, s = p ++ r.
Proof. exact BuiltinFacts.is_prefix_spec. Qed.

Theorem is_suffix_spec : forall p s, is_suffix p s = true <-> exists r, s = r ++ p.
Proof. exact BuiltinFacts.is_suffix_spec. Qed.

(* str_index (strings.Index) is -1 when t occurs nowhere in s, else the offset of the first occurrence *)
Theorem index_spec : forall s t i, str_index s t = i ->
  (i = -1 /\ ~ (exists a b, s = a ++ t ++ b))
  \/ (0 <= i /\ (exists a b, s = a ++ t ++ b /\ slen a = i) /\
      forall j, (exists a b, s = a ++ t ++ b /\ slen a = j) -> i <= j).
Proof. exact BuiltinFacts.index_spec. Qed.

(* the same notion of occurrence in terms of the model's own functions *)
Theorem occurs_at_skipn : forall s t i,
  (exists a b, s = a ++ t ++ b /\ slen a = i) <->
  0 <= i <= slen s /\ is_prefix t (skipn (Z.to_nat i) s) = true.
Proof. exact BuiltinFacts.occurs_at_skipn. Qed.

(* ---- startWith / endWith / contains are true exactly for prefix / suffix / substring ---- *)

Theorem startWith_spec : forall off s t, exists b,
  builtin_apply off (str "startWith") [VStr s; VStr t] = Ok (VBool b) /\
  (b = true <-> exists r, s = t ++ r).
Proof. exact BuiltinFacts.startWith_spec. Qed.

Theorem endWith_spec : forall off s t, exists b,
  builtin_apply off (str "endWith") [VStr s; VStr t] = Ok (VBool b) /\
  (b = true <-> exists r, s = r ++ t).
Proof. exact BuiltinFacts.endWith_spec. Qed.

Theorem contains_spec : forall off s t, exists b,
  builtin_apply off (str "contains") [VStr s; VStr t] = Ok (VBool b) /\
  (b = true <-> exists a r, s = a ++ t ++ r).
Proof. exact BuiltinFacts.contains_spec. Qed.

(* ---- find is the first index of t, or -1 exactly when contains is false ---- *)

Theorem find_spec : forall off s t, exists i,
  builtin_apply off (str "find") [VStr s; VStr t] = Ok (VGoInt GInt i) /\
  ((i = -1 /\ ~ (exists a r, s = a ++ t ++ r))
   \/ (0 <= i /\ (exists a r, s = a ++ t ++ r /\ slen a = i) /\
       forall a r, s = a ++ t ++ r -> i <= slen a)).
Proof. exact BuiltinFacts.find_spec. Qed.

Theorem find_contains : forall off s t i b,
  builtin_apply off (str "find") [VStr s; VStr t] = Ok (VGoInt GInt i) ->
  builtin_apply off (str "contains") [VStr s; VStr t] = Ok (VBool b) ->
  (i = -1 <-> b = false) /\ (0 <= i <-> b = true).
Proof. exact BuiltinFacts.find_contains. Qed.

Theorem startWith_find : forall off s t,
  builtin_apply off (str "startWith") [VStr s; VStr t] = Ok (VBool true) <->
  builtin_apply off (str "find") [VStr s; VStr t] = Ok (VGoInt GInt 0).
Proof. exact BuiltinFacts.startWith_find. Qed.

(* ---- left(s,n) + right(s,len(s)-n) == s ; the integer argument may arrive as any Go integer kind k ---- *)

Theorem left_right_partition : forall off s k n, 0 <= n <= slen s ->
  exists a b,
    builtin_apply off (str "left") [VStr s; VGoInt k n] = Ok (VStr a) /\
    builtin_apply off (str "right") [VStr s; VGoInt k (slen s - n)] = Ok (VStr b) /\
    a ++ b = s /\ slen a = n /\ slen b = slen s - n.
Proof. exact BuiltinFacts.left_right_partition. Qed.

(* left/right of n >= 0 bytes: a prefix/suffix of s of length min n (len s) *)
Theorem left_len : forall off s k n, 0 <= n -> exists r,
  builtin_apply off (str "left") [VStr s; VGoInt k n] = Ok (VStr r) /\
  slen r = Z.min n (slen s) /\ exists r', s = r ++ r'.
Proof. exact BuiltinFacts.left_len. Qed.

Theorem right_len : forall off s k n, 0 <= n -> exists r,
  builtin_apply off (str "right") [VStr s; VGoInt k n] = Ok (VStr r) /\
  slen r = Z.min n (slen s) /\ exists r', s = r' ++ r.
Proof. exact BuiltinFacts.right_len. Qed.

(* positions beyond the length are clamped *)
Theorem left_clamps : forall off s k n, slen s <= n ->
  builtin_apply off (str "left") [VStr s; VGoInt k n] = Ok (VStr s).
Proof. exact BuiltinFacts.left_clamps. Qed.

Theorem right_clamps : forall off s k n, slen s <= n ->
  builtin_apply off (str "right") [VStr s; VGoInt k n] = Ok (VStr s).
Proof. exact BuiltinFacts.right_clamps. Qed.

(* positions below zero: the Go code slices with a negative bound and panics (property C03) *)
Theorem left_panics_negative : forall off s k n, n < 0 ->
  builtin_apply off (str "left") [VStr s; VGoInt k n] = Panic.
Proof. exact BuiltinFacts.left_panics_negative. Qed.

Theorem right_panics_negative : forall off s k n, n < 0 ->
  builtin_apply off (str "right") [VStr s; VGoInt k n] = Panic.
Proof. exact BuiltinFacts.right_panics_negative. Qed.

(* ---- startWith(s,left(s,n)) and endWith(s,right(s,n)) always hold ---- *)

Theorem startWith_left : forall off s k n, 0 <= n -> exists r,
  builtin_apply off (str "left") [VStr s; VGoInt k n] = Ok (VStr r) /\
  builtin_apply off (str "startWith") [VStr s; VStr r] = Ok (VBool true).
Proof. exact BuiltinFacts.startWith_left. Qed.

Theorem endWith_right : forall off s k n, 0 <= n -> exists r,
  builtin_apply off (str "right") [VStr s; VGoInt k n] = Ok (VStr r) /\
  builtin_apply off (str "endWith") [VStr s; VStr r] = Ok (VBool true).
Proof. exact BuiltinFacts.endWith_right. Qed.

(* ---- mid(s,i,j) is the slice from i to j clamped to the string ---- *)

(* for ALL integers i, j: s[max 0 i : min (len s) j], a slice panic when that range is reversed *)
Theorem mid_is_slice : forall off s k1 i k2 j,
  let lo := Z.max 0 i in
  let hi := Z.min (slen s) j in
  builtin_apply off (str "mid") [VStr s; VGoInt k1 i; VGoInt k2 j] =
  if lo <=? hi then Ok (VStr (firstn (Z.to_nat (hi - lo)) (skipn (Z.to_nat lo) s))) else Panic.
Proof. exact BuiltinFacts.mid_is_slice. Qed.

(* ... which is the middle part of a three-way split of s at the clamped positions *)
Theorem mid_substring : forall off s k1 i k2 j, Z.max 0 i <= Z.min (slen s) j -> exists x r y,
  builtin_apply off (str "mid") [VStr s; VGoInt k1 i; VGoInt k2 j] = Ok (VStr r) /\
  s = x ++ r ++ y /\ slen x = Z.max 0 i /\ slen r = Z.min (slen s) j - Z.max 0 i.
Proof. exact BuiltinFacts.mid_substring. Qed.

Theorem mid_left : forall off s k1 k2 k3 n, 0 <= n ->
  builtin_apply off (str "mid") [VStr s; VGoInt k1 0; VGoInt k2 n] =
  builtin_apply off (str "left") [VStr s; VGoInt k3 n].
Proof. exact BuiltinFacts.mid_left. Qed.

Theorem len_spec : forall off s, builtin_apply off (str "len") [VStr s] = Ok (VGoInt GInt (slen s)).
Proof. exact BuiltinFacts.len_spec. Qed.

(* ---- lpad/rpad with a one-byte pad [p]: exactly the requested length, ending/starting with s ---- *)

Theorem lpad_len : forall off s p k l, 0 <= l -> exists r,
  builtin_apply off (str "lpad") [VStr s; VStr [p]; VGoInt k l] = Ok (VStr r) /\ slen r = l.
Proof. exact BuiltinFacts.lpad_len. Qed.

Theorem rpad_len : forall off s p k l, 0 <= l -> exists r,
  builtin_apply off (str "rpad") [VStr s; VStr [p]; VGoInt k l] = Ok (VStr r) /\ slen r = l.
Proof. exact BuiltinFacts.rpad_len. Qed.

Theorem lpad_suffix : forall off s p k l, slen s <= l ->
  builtin_apply off (str "lpad") [VStr s; VStr [p]; VGoInt k l] =
  Ok (VStr (repeat p (Z.to_nat (l - slen s)) ++ s)).
Proof. exact BuiltinFacts.lpad_suffix. Qed.

Theorem rpad_prefix : forall off s p k l, slen s <= l ->
  builtin_apply off (str "rpad") [VStr s; VStr [p]; VGoInt k l] =
  Ok (VStr (s ++ repeat p (Z.to_nat (l - slen s)))).
Proof. exact BuiltinFacts.rpad_prefix. Qed.

(* s longer than the requested length (any pad): the first l bytes of s, the same as left(s,l) *)
Theorem pad_truncates : forall off s ps k l, 0 <= l < slen s ->
  builtin_apply off (str "lpad") [VStr s; VStr ps; VGoInt k l] = Ok (VStr (firstn (Z.to_nat l) s)) /\
  builtin_apply off (str "rpad") [VStr s; VStr ps; VGoInt k l] = Ok (VStr (firstn (Z.to_nat l) s)) /\
  builtin_apply off (str "left") [VStr s; VGoInt k l] = Ok (VStr (firstn (Z.to_nat l) s)) /\
  slen (firstn (Z.to_nat l) s) = l.
Proof. exact BuiltinFacts.pad_truncates. Qed.

(* why the clause says "one-character pad": with a pad of any length the byte length is
   len s + (l - len s) * len ps (so a multi-byte pad overshoots, an empty pad does not pad) *)
Theorem lpad_len_any_pad : forall off s ps k l, slen s <= l -> exists r,
  builtin_apply off (str "lpad") [VStr s; VStr ps; VGoInt k l] = Ok (VStr r) /\
  slen r = slen s + (l - slen s) * slen ps /\ exists pad, r = pad ++ s.
Proof. exact BuiltinFacts.lpad_len_any_pad. Qed.

Theorem rpad_len_any_pad : forall off s ps k l, slen s <= l -> exists r,
  builtin_apply off (str "rpad") [VStr s; VStr ps; VGoInt k l] = Ok (VStr r) /\
  slen r = slen s + (l - slen s) * slen ps /\ exists pad, r = s ++ pad.
Proof. exact BuiltinFacts.rpad_len_any_pad. Qed.

(* FINDING: lengths and positions are BYTE counts.  Reading "one-character pad" as one Unicode
   character, lpad("7", "\u00e9", 3) has 5 bytes, and left / lpad / rpad can cut a multi-byte
   character in half ([195; 169] is U+00E9 in UTF-8) *)
Theorem byte_semantics_witnesses :
  builtin_apply 0 (str "lpad") [VStr (str "7"); VStr [195; 169]; gi 3] = Ok (VStr [195; 169; 195; 169; 55]) /\
  slen [195; 169; 195; 169; 55] = 5 /\
  builtin_apply 0 (str "left") [VStr [195; 169]; gi 1] = Ok (VStr [195]) /\
  builtin_apply 0 (str "lpad") [VStr [195; 169; 120]; VStr (str "0"); gi 1] = Ok (VStr [195]) /\
  builtin_apply 0 (str "len") [VStr [195; 169]] = Ok (gi 2).
Proof. exact BuiltinFacts.byte_semantics_witnesses. Qed.

Theorem pad_panics_negative : forall off s ps k l, l < 0 ->
  builtin_apply off (str "lpad") [VStr s; VStr ps; VGoInt k l] = Panic /\
  builtin_apply off (str "rpad") [VStr s; VStr ps; VGoInt k l] = Panic.
Proof. exact BuiltinFacts.pad_panics_negative. Qed.

(* ---- replace replaces every occurrence (left to right, non-overlapping, as strings.ReplaceAll) ---- *)

(* the specification relation `replaced old new s r`, spelled out: *)
Theorem replaced_unfold : forall old new s r,
  replaced old new s r <->
  (s = [] /\ r = [])
  \/ (exists s' r', s = old ++ s' /\ r = new ++ r' /\ replaced old new s' r')
  \/ (exists c s' r', s = c :: s' /\ r = c :: r' /\ (~ exists x, s = old ++ x) /\ replaced old new s' r').
Proof. exact BuiltinFacts.replaced_unfold. Qed.

Theorem replaced_unique : forall old new, old <> [] -> forall s r1, replaced old new s r1 ->
  forall r2, replaced old new s r2 -> r1 = r2.
Proof. exact BuiltinFacts.replaced_fun. Qed.

Theorem replace_spec : forall off s old new, old <> [] -> exists r,
  builtin_apply off (str "replace") [VStr s; VStr old; VStr new] = Ok (VStr r) /\
  replaced old new s r.
Proof. exact BuiltinFacts.replace_spec. Qed.

Theorem replace_same : forall off s old, old <> [] ->
  builtin_apply off (str "replace") [VStr s; VStr old; VStr old] = Ok (VStr s).
Proof. exact BuiltinFacts.replace_same. Qed.

Theorem replace_absent : forall off s old new, old <> [] -> ~ (exists a b, s = a ++ old ++ b) ->
  builtin_apply off (str "replace") [VStr s; VStr old; VStr new] = Ok (VStr s).
Proof. exact BuiltinFacts.replace_absent. Qed.

(* when the first occurrence of old in s = a ++ old ++ b is the displayed one, it is replaced and
   the scan resumes in b *)
Theorem replace_first : forall off a old b new rb, old <> [] ->
  str_index (a ++ old ++ b) old = slen a ->
  builtin_apply off (str "replace") [VStr b; VStr old; VStr new] = Ok (VStr rb) ->
  builtin_apply off (str "replace") [VStr (a ++ old ++ b); VStr old; VStr new] =
  Ok (VStr (a ++ new ++ rb)).
Proof. exact BuiltinFacts.replace_first. Qed.

Theorem replace_same_length : forall off s old new, old <> [] -> length new = length old -> exists r,
  builtin_apply off (str "replace") [VStr s; VStr old; VStr new] = Ok (VStr r) /\ slen r = slen s.
Proof. exact BuiltinFacts.replace_same_length. Qed.

(* an empty pattern matches before every character and once at the end - characters as utf8.DecodeRune walks the
   text, every invalid byte one of its own -, so `new` is put in front of each character and at the end *)
Theorem replace_empty_pattern : forall off s new,
  builtin_apply off (str "replace") [VStr s; VStr []; VStr new] =
  Ok (VStr (new ++ flat_map (fun st => snd st ++ new) (decode_all s))).
Proof. exact BuiltinFacts.replace_empty_pattern. Qed.

Theorem replace_empty_ascii : forall s new, Forall (fun b => 0 <= b < 128)%Z s ->
  flat_map (fun st => snd st ++ new) (decode_all s) = flat_map (fun b => b :: new) s.
Proof. exact BuiltinFacts.replace_empty_ascii. Qed.

Theorem replace_empty_with_empty : forall off s,
  builtin_apply off (str "replace") [VStr s; VStr []; VStr []] = Ok (VStr s).
Proof. exact BuiltinFacts.replace_empty_with_empty. Qed.

Example replace_empty_examples :
  builtin_apply 0 (str "replace") [VStr (str "ab"); VStr []; VStr (str "-")] = Ok (VStr (str "-a-b-")) /\
  builtin_apply 0 (str "replace") [VStr []; VStr []; VStr (str "x")] = Ok (VStr (str "x")) /\
  builtin_apply 0 (str "replace") [VStr [195; 169; 255; 97]; VStr []; VStr [46]] = Ok (VStr [46; 195; 169; 46; 255; 46; 97; 46])%Z.
Proof. exact BuiltinFacts.replace_empty_examples. Qed.

(* ---- trim strips surrounding (ASCII) whitespace only ---- *)

Theorem trim_spec : forall off s, all_ascii s = true -> exists r a b,
  builtin_apply off (str "trim") [VStr s] = Ok (VStr r) /\
  s = a ++ r ++ b /\
  Forall (fun c => is_space_ascii c = true) a /\ Forall (fun c => is_space_ascii c = true) b /\
  (forall c r', r = c :: r' -> is_space_ascii c = false) /\
  (forall r' c, r = r' ++ [c] -> is_space_ascii c = false).
Proof. exact BuiltinFacts.trim_spec. Qed.

Theorem trim_idempotent : forall off s r, all_ascii s = true ->
  builtin_apply off (str "trim") [VStr s] = Ok (VStr r) ->
  builtin_apply off (str "trim") [VStr r] = Ok (VStr r).
Proof. exact BuiltinFacts.trim_idempotent. Qed.

(* ---- lower / upper map case (ASCII): exactly the letters move, by 32 ---- *)

Theorem lower_spec : forall off s, all_ascii s = true -> exists r,
  builtin_apply off (str "lower") [VStr s] = Ok (VStr r) /\
  Forall2 (fun x y => (65 <= x <= 90 /\ y = x + 32) \/ (~ 65 <= x <= 90 /\ y = x)) s r.
Proof. exact BuiltinFacts.lower_spec. Qed.

Theorem upper_spec : forall off s, all_ascii s = true -> exists r,
  builtin_apply off (str "upper") [VStr s] = Ok (VStr r) /\
  Forall2 (fun x y => (97 <= x <= 122 /\ y = x - 32) \/ (~ 97 <= x <= 122 /\ y = x)) s r.
Proof. exact BuiltinFacts.upper_spec. Qed.

Theorem lower_upper_ascii : forall off s l u, all_ascii s = true ->
  builtin_apply off (str "lower") [VStr s] = Ok (VStr l) ->
  builtin_apply off (str "upper") [VStr s] = Ok (VStr u) ->
  builtin_apply off (str "lower") [VStr l] = Ok (VStr l) /\
  builtin_apply off (str "upper") [VStr u] = Ok (VStr u) /\
  builtin_apply off (str "lower") [VStr u] = Ok (VStr l) /\
  builtin_apply off (str "upper") [VStr l] = Ok (VStr u) /\
  slen l = slen s /\ slen u = slen s.
Proof. exact BuiltinFacts.lower_upper_ascii. Qed.

(* ---- beyond ASCII: every character is mapped by the simple case mapping of the Unicode tables (pinned in
   Lex/CaseTables.v and proved equal, on every run, to the tables regenerated by applying the builtins of /repo's
   working tree to every one-character string); bytes that are not valid UTF-8 become U+FFFD; trim removes the
   leading and trailing characters that are Unicode white space ---- *)
Theorem case_and_trim_unicode : forall off s, all_ascii s = false ->
  builtin_apply off (str "trim") [VStr s] = Ok (VStr (CaseMap.trim_utf8 s)) /\
  builtin_apply off (str "lower") [VStr s] = Ok (VStr (CaseMap.lower_utf8 s)) /\
  builtin_apply off (str "upper") [VStr s] = Ok (VStr (CaseMap.upper_utf8 s)).
Proof. exact BuiltinFacts.trim_non_ascii. Qed.

(* trim beyond ASCII: the text is (white space) ++ (trimmed text) ++ (white space), and the trimmed text neither
   starts nor ends with a white-space character; U+200B, U+FEFF and invalid bytes are not white space *)
Theorem trim_removes_surrounding_white_space_only : forall s, exists a b,
  Utf8.decode_all s = a ++ TrimFacts.trimmed_steps s ++ b /\ Forall TrimFacts.space_step a /\ Forall TrimFacts.space_step b /\
  s = Utf8.steps_bytes a ++ CaseMap.trim_utf8 s ++ Utf8.steps_bytes b.
Proof. exact TrimFacts.trim_utf8_middle. Qed.

Theorem trimmed_text_has_no_white_space_at_its_ends : forall s,
  match TrimFacts.trimmed_steps s with p :: _ => CaseMap.is_unicode_space (fst p) = false | [] => True end /\
  match rev (TrimFacts.trimmed_steps s) with p :: _ => CaseMap.is_unicode_space (fst p) = false | [] => True end.
Proof. exact TrimFacts.trim_utf8_edges. Qed.

Theorem trim_examples_unicode :
  CaseMap.trim_utf8 [194; 160; 226; 128; 168; 195; 169; 32; 120; 227; 128; 128; 9]%Z = [195; 169; 32; 120]%Z /\
  CaseMap.trim_utf8 [226; 128; 139; 97; 32]%Z = [226; 128; 139; 97]%Z /\
  CaseMap.trim_utf8 [32; 255; 32]%Z = [255]%Z /\
  CaseMap.trim_utf8 [194; 133; 225; 154; 128]%Z = [].
Proof. exact TrimFacts.trim_examples. Qed.

Theorem upper_maps_each_character : forall s,
  CaseMap.upper_utf8 s = flat_map (fun p => Utf8.encode_rune (CaseMap.to_upper_rune (fst p))) (Utf8.decode_all s).
Proof. reflexivity. Qed.

Theorem lower_maps_each_character : forall s,
  CaseMap.lower_utf8 s = flat_map (fun p => Utf8.encode_rune (CaseMap.to_lower_rune (fst p))) (Utf8.decode_all s).
Proof. reflexivity. Qed.

Theorem case_tables_are_the_code's :
  ImplTables.impl_upper_ranges = CaseTables.upper_ranges /\ ImplTables.impl_lower_ranges = CaseTables.lower_ranges /\
  ImplTables.impl_case_odd = [].
Proof. exact TablesTie.case_tables_tie. Qed.

Theorem mapped_characters_are_characters : forall r, CaseMapFacts.scalar r = true ->
  CaseMapFacts.scalar (CaseMap.to_upper_rune r) = true /\ CaseMapFacts.scalar (CaseMap.to_lower_rune r) = true.
Proof. exact (fun r H => conj (CaseMapFacts.to_upper_scalar r H) (CaseMapFacts.to_lower_scalar r H)). Qed.

Theorem case_mapping_agrees_on_ascii : forall s, Forall (fun b => 0 <= b < 128)%Z s ->
  CaseMap.upper_utf8 s = to_upper_ascii s /\ CaseMap.lower_utf8 s = to_lower_ascii s.
Proof. exact (fun s H => conj (CaseMapFacts.upper_utf8_ascii s H) (CaseMapFacts.lower_utf8_ascii s H)). Qed.

Theorem case_mapping_examples :
  CaseMap.upper_utf8 [104; 195; 169; 255; 199; 134; 225; 131; 144]%Z = [72; 195; 137; 239; 191; 189; 199; 132; 225; 178; 144]%Z /\
  CaseMap.to_upper_rune 454 = 452%Z /\ CaseMap.to_upper_rune 453 = 452%Z /\ CaseMap.to_lower_rune 452 = 454%Z /\
  CaseMap.to_upper_rune 4304 = 7312%Z /\ CaseMap.to_upper_rune 962 = 931%Z /\ CaseMap.to_lower_rune 1046 = 1078%Z /\
  CaseMap.to_upper_rune 66600 = 66560%Z /\ CaseMap.to_lower_rune 304 = 105%Z /\ CaseMap.to_upper_rune 223 = 223%Z /\
  CaseMap.to_upper_rune 65533 = 65533%Z /\ CaseMap.lower_utf8 [240; 144; 144; 128]%Z = [240; 144; 144; 168]%Z.
Proof. exact CaseMapFacts.case_examples. Qed.

(* ---- join and includes agree with element-wise concatenation and membership ---- *)

Theorem join_spec : forall off ss sep,
  builtin_apply off (str "join") [VArr (map VStr ss); VStr sep] =
  Ok (VStr (match ss with
            | [] => []
            | a :: t => a ++ concat (map (fun x => sep ++ x) t)
            end)).
Proof. exact BuiltinFacts.join_spec. Qed.

Theorem join_cons : forall off a b t sep r,
  builtin_apply off (str "join") [VArr (map VStr (b :: t)); VStr sep] = Ok (VStr r) ->
  builtin_apply off (str "join") [VArr (map VStr (a :: b :: t)); VStr sep] = Ok (VStr (a ++ sep ++ r)).
Proof. exact BuiltinFacts.join_cons. Qed.

Theorem includes_spec : forall off ss x, exists b,
  builtin_apply off (str "includes") [VArr (map VStr ss); VStr x] = Ok (VBool b) /\
  (b = true <-> In x ss).
Proof. exact BuiltinFacts.includes_spec. Qed.

(* ---- regexp agrees with RE2: NOT COVERED, the model does not describe regular expressions ---- *)

Theorem regexp_not_modelled : forall off s t, builtin_apply off (str "regexp") [VStr s; VStr t] = Unk.
Proof. exact BuiltinFacts.regexp_not_modelled. Qed.

Print Assumptions is_prefix_spec.
Print Assumptions is_suffix_spec.
Print Assumptions index_spec.
Print Assumptions occurs_at_skipn.
Print Assumptions startWith_spec.
Print Assumptions endWith_spec.
Print Assumptions contains_spec.
Print Assumptions find_spec.
Print Assumptions find_contains.
Print Assumptions startWith_find.
Print Assumptions left_right_partition.
Print Assumptions left_len.
Print Assumptions right_len.
Print Assumptions left_clamps.
Print Assumptions right_clamps.
Print Assumptions left_panics_negative.
Print Assumptions right_panics_negative.
Print Assumptions startWith_left.
Print Assumptions endWith_right.
Print Assumptions mid_is_slice.
Print Assumptions mid_substring.
Print Assumptions mid_left.
Print Assumptions len_spec.
Print Assumptions lpad_len.
Print Assumptions rpad_len.
Print Assumptions lpad_suffix.
Print Assumptions rpad_prefix.
Print Assumptions pad_truncates.
Print Assumptions lpad_len_any_pad.
Print Assumptions rpad_len_any_pad.
Print Assumptions byte_semantics_witnesses.
Print Assumptions pad_panics_negative.
Print Assumptions replaced_unfold.
Print Assumptions replaced_unique.
Print Assumptions replace_spec.
Print Assumptions replace_same.
Print Assumptions replace_absent.
Print Assumptions replace_first.
Print Assumptions replace_same_length.
Print Assumptions replace_empty_pattern.
Print Assumptions trim_spec.
Print Assumptions trim_idempotent.
Print Assumptions case_and_trim_unicode.
Print Assumptions trim_removes_surrounding_white_space_only.
Print Assumptions trimmed_text_has_no_white_space_at_its_ends.
Print Assumptions trim_examples_unicode.
Print Assumptions upper_maps_each_character.
Print Assumptions lower_maps_each_character.
Print Assumptions case_tables_are_the_code's.
Print Assumptions mapped_characters_are_characters.
Print Assumptions case_mapping_agrees_on_ascii.
Print Assumptions case_mapping_examples.
Print Assumptions lower_spec.
Print Assumptions upper_spec.
Print Assumptions lower_upper_ascii.
Print Assumptions join_spec.
Print Assumptions join_cons.
Print Assumptions includes_spec.
Print Assumptions regexp_not_modelled.
Print Assumptions replace_empty_ascii.
Print Assumptions replace_empty_with_empty.
Print Assumptions replace_empty_examples.
