(* C20 - A runner behaves like a plain map of data plus a separate key-value store.
   Concrete side: Sem/Runner.v ([runner] = heap of caller-owned maps + reference + store, [rstep], [rrun]).
   Abstract side (Proofs/RunnerFacts.v): [amodel] = (data map held BY VALUE, store), operations [aop]
   = set data / set entry / evaluate / store / fetch / nop, [astep], [arun];
   [abs r] = (content of the map r points to, store of r); [absop r o] = the abstract reading of o
   (SetThis(map id) hands over the current content of map id). *)
From Coq Require Import List ZArith Bool.
From Formula Require Import Sem.Eval Sem.Runner Proofs.RunnerFactsEval Proofs.RunnerFacts.
Import ListNotations.
Local Open Scope Z_scope.

(* one step: same observation, and the abstraction commutes with the step *)
Theorem rstep_simulates : forall hosts off (r : runner) (o : rop),
  astep hosts off (abs r) (absop r o) = (abs (fst (rstep hosts off r o)), snd (rstep hosts off r o)).
Proof. exact RunnerFacts.rstep_simulates. Qed.

(* "every evaluation result and every get equals what a simple model gives", any operation sequence *)
Theorem runner_refines_spec : forall hosts off (ops : list rop) (r : runner),
  rrun hosts off r ops = arun hosts off (abs r) (abs_ops hosts off r ops).
Proof. exact RunnerFacts.runner_refines_spec. Qed.

(* the same when every caller map is handed over at most once and never written by the caller:
   the simple model then needs only the INITIAL maps, nothing from the concrete runner *)
Theorem fresh_maps_refine : forall hosts off (h0 : list (Z * gomap)) (ops : list rop),
  existsb is_caller_write ops = false ->
  NoDup (set_this_ids ops) ->
  forallb (fun id => id <? 1000) (set_this_ids ops) = true ->
  rrun hosts off (new_runner h0) ops = arun hosts off (mkA None []) (map (absop0 h0) ops).
Proof. exact RunnerFacts.fresh_maps_refine. Qed.

(* "evaluations see exactly the current data map including locals assigned by earlier evaluations":
   `$a = e` evaluated to w; any operations that are not SetThis and do not set `$a`; reading `$a` gives w *)
Theorem locals_persist_across_evals : forall hosts off (r : runner) k k' (a : list Z) (e : sexpr) w (mid : list rop),
  starts_dollar a = true ->
  snd (rstep hosts off r (OpResolve (assign k a e))) = ObsValue (Ok w) ->
  forallb (keeps_local a) mid = true ->
  last (rrun hosts off (fst (rstep hosts off r (OpResolve (assign k a e))))
             (mid ++ [OpResolve (SIdent k' a)])) ObsNone = ObsValue (Ok w).
Proof. exact RunnerFacts.locals_persist_across_evals. Qed.

(* "replacing the map discards earlier locals unless the new map carries them" *)
Theorem set_this_discards_locals_unless_carried : forall hosts off (r : runner) id1 id2 k k' (a : list Z) (e : sexpr) w,
  starts_dollar a = true ->
  this_ref r = Some id1 ->
  snd (rstep hosts off r (OpResolve (assign k a e))) = ObsValue (Ok w) ->
  let r1 := fst (rstep hosts off r (OpResolve (assign k a e))) in
  (id2 <> id1 -> assoc a (heap_get id2 (heap r)) = None ->
   rrun hosts off r1 [OpSetThis (Some id2); OpResolve (SIdent k' a)] = [ObsNone; ObsValue (Ok VNull)]) /\
  rrun hosts off r1 [OpSetThis None; OpResolve (SIdent k' a)] = [ObsNone; ObsValue (Ok VNull)] /\
  (id2 <> id1 ->
   rrun hosts off r1 [OpSetThis (Some id2); OpSetThis (Some id1); OpResolve (SIdent k' a)] =
   [ObsNone; ObsNone; ObsValue (Ok w)]).
Proof. exact RunnerFacts.set_this_discards_locals_unless_carried. Qed.

(* in general: after SetThis(map id2) a name reads as whatever map id2 holds for it *)
Theorem set_this_then_read : forall hosts off (r : runner) id2 k (a : list Z),
  existsb (bytes_eqb a) builtin_names = false ->
  rrun hosts off r [OpSetThis (Some id2); OpResolve (SIdent k a)] =
  [ObsNone; ObsValue (Ok (format_input (data_get a (Some (heap_get id2 (heap r))))))].
Proof. exact RunnerFacts.set_this_then_read. Qed.

(* "setting an entry on a runner without a map creates one" *)
Theorem set_value_on_nil_creates_map : forall hosts off (r : runner) (k : list Z) (v : value),
  this_ref r = None ->
  let r1 := fst (rstep hosts off r (OpSetThisValue k v)) in
  this_ref r1 <> None /\
  a_data (abs r1) = Some [(k, v)] /\
  (forall k', existsb (bytes_eqb k) builtin_names = false ->
     snd (rstep hosts off r1 (OpResolve (SIdent k' k))) = ObsValue (Ok (format_input v))).
Proof. exact RunnerFacts.set_value_on_nil_creates_map. Qed.

(* "the auxiliary store is invisible to formulas and unaffected by them" *)
Theorem aux_store_invisible : forall hosts off (r : runner) (e : sexpr),
  snd (rstep hosts off r (OpResolve e)) =
    ObsValue (fst (resolve_entry hosts off e (mkR (a_data (abs r)) []))) /\
  (forall k v, a_data (abs (fst (rstep hosts off r (OpSet k v)))) = a_data (abs r)) /\
  (forall k, fst (rstep hosts off r (OpGet k)) = r) /\
  (forall k v, snd (rstep hosts off (fst (rstep hosts off r (OpSet k v))) (OpResolve e)) =
               snd (rstep hosts off r (OpResolve e))) /\
  aux (fst (rstep hosts off r (OpResolve e))) = aux r /\
  (forall k, snd (rstep hosts off (fst (rstep hosts off r (OpResolve e))) (OpGet k)) =
             snd (rstep hosts off r (OpGet k))).
Proof. exact RunnerFacts.aux_store_invisible. Qed.

(* a runner whose map was never set: every non-builtin name reads as null *)
Theorem reads_of_unset_map_are_null : forall hosts off (r : runner) k (x : list Z),
  this_ref r = None ->
  existsb (bytes_eqb x) builtin_names = false ->
  snd (rstep hosts off r (OpResolve (SIdent k x))) = ObsValue (Ok VNull).
Proof. exact RunnerFacts.reads_of_unset_map_are_null. Qed.

Print Assumptions rstep_simulates.
Print Assumptions runner_refines_spec.
Print Assumptions fresh_maps_refine.
Print Assumptions locals_persist_across_evals.
Print Assumptions set_this_discards_locals_unless_carried.
Print Assumptions set_this_then_read.
Print Assumptions set_value_on_nil_creates_map.
Print Assumptions aux_store_invisible.
Print Assumptions reads_of_unset_map_are_null.
