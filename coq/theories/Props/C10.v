(* C10 - Referenced-field analysis is exact and sufficient.
   Analysis: Sem/Fields.v ([fields_of], [fields_not_local]).  Specification (Proofs/FieldsFacts.v):
   [Reads e p] = "path p is read as a value by e" (inductive: a name or a MAXIMAL dotted path is one
   entry, its text; operands of every construct; arguments but not the callee of a call);
   [has_bad_selector e] = a member access in value position whose base is not a name or path;
   [top p] = the text before the first '.'; [callee_tops e] = the names in callee position;
   [no_this e] = `this` does not occur; [names_dotfree e] = no identifier contains a '.' (parser trees);
   [agree_on N d1 d2] = the data maps d1 d2 (None = unset, reads like empty) give every name of N the same value. *)
From Coq Require Import List ZArith Bool.
From Formula Require Import Sem.Eval Sem.Fields Proofs.RunnerFactsEval Proofs.FieldsFacts.
Import ListNotations.
Local Open Scope Z_scope.

(* byte strings are compared by [bytes_eqb], which decides equality *)
Theorem bytes_eqb_eq : forall a b : list Z, bytes_eqb a b = true <-> a = b.
Proof. exact RunnerFactsEval.bytes_eqb_eq. Qed.

(* "exactly the distinct bare names and maximal dotted paths it reads as values - everywhere except
   in callee position, including `$` locals, without duplicates" *)
Theorem fields_exact : forall (e : sexpr) (l : list (list Z)),
  fields_of e = Some l -> NoDup l /\ forall p, In p l <-> Reads e p.
Proof. exact FieldsFacts.fields_exact. Qed.

(* "the analysis refuses member access on anything but a name or path" - and nothing else *)
Theorem fields_refuses : forall e : sexpr, fields_of e = None <-> has_bad_selector e = true.
Proof. exact FieldsFacts.fields_refuses. Qed.

(* "the non-local variant is that set without the `$`-prefixed entries" *)
Theorem not_local_is_filter : forall e : sexpr,
  fields_not_local e = option_map (filter (fun p => negb (starts_dollar p))) (fields_of e).
Proof. exact FieldsFacts.not_local_is_filter. Qed.

Theorem not_local_members : forall e : sexpr,
  match fields_of e, fields_not_local e with
  | Some l, Some l' => NoDup l' /\ forall p, In p l' <-> In p l /\ starts_dollar p = false
  | None, None => True
  | _, _ => False
  end.
Proof. exact FieldsFacts.not_local_members. Qed.

Theorem not_local_exact : forall (e : sexpr) (l' : list (list Z)),
  fields_not_local e = Some l' ->
  NoDup l' /\ forall p, In p l' <-> Reads e p /\ starts_dollar p = false.
Proof. exact FieldsFacts.not_local_exact. Qed.

(* "sufficient: for a formula not using `this`, two data maps that agree on the top-level names of the
   reported fields and on the names it calls give the same evaluation result" (also the same
   result at the entry point and the same log of host calls) *)
Theorem fields_sufficient : forall hosts off (e : sexpr) (l : list (list Z)) (st1 st2 : rstate),
  no_this e = true -> names_dotfree e = true ->
  fields_of e = Some l ->
  r_trace st1 = r_trace st2 ->
  agree_on (map top l ++ callee_tops e) (r_this st1) (r_this st2) ->
  fst (eval hosts off e st1) = fst (eval hosts off e st2) /\
  fst (resolve_entry hosts off e st1) = fst (resolve_entry hosts off e st2) /\
  r_trace (snd (eval hosts off e st1)) = r_trace (snd (eval hosts off e st2)).
Proof. exact FieldsFacts.fields_sufficient. Qed.

(* the form the property is tested in: the full data map against the map restricted to the reported names *)
Theorem fields_sufficient_restrict : forall hosts off (e : sexpr) (l : list (list Z)) m tr,
  no_this e = true -> names_dotfree e = true ->
  fields_of e = Some l ->
  fst (resolve_entry hosts off e (mkR (Some m) tr)) =
  fst (resolve_entry hosts off e (mkR (Some (restrict (map top l ++ callee_tops e) m)) tr)).
Proof. exact FieldsFacts.fields_sufficient_restrict. Qed.

(* the side condition [names_dotfree] cannot be dropped for arbitrary trees (identifier named `a.b`) *)
Theorem fields_sufficient_without_dotfree_refuted :
  exists e l st1 st2,
    no_this e = true /\ fields_of e = Some l /\ r_trace st1 = r_trace st2 /\
    agree_on (map top l ++ callee_tops e) (r_this st1) (r_this st2) /\
    fst (eval [] 0 e st1) <> fst (eval [] 0 e st2).
Proof. exact FieldsFacts.fields_sufficient_without_dotfree_refuted. Qed.

Print Assumptions bytes_eqb_eq.
Print Assumptions fields_exact.
Print Assumptions fields_refuses.
Print Assumptions not_local_is_filter.
Print Assumptions not_local_members.
Print Assumptions not_local_exact.
Print Assumptions fields_sufficient.
Print Assumptions fields_sufficient_restrict.
Print Assumptions fields_sufficient_without_dotfree_refuted.
