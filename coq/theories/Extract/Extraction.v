(* Extraction of the executable model (ExtrOcamlBasic only; Z/N/positive stay inductive). *)
Require Extraction.
Require Import ExtrOcamlBasic.
From Formula Require Import Base.Utf8 Lex.LineMap Lex.Scanner Syn.Ast Syn.Parser.
Extraction Language OCaml.
Extraction "model.ml" decode_all encode_rune line_starts line_col direct_count scan_all kind_code parse_source parse_tokens strip Z.mul Z.add Z.opp Z.div_eucl Z.compare.
