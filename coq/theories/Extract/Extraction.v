(* Extraction of the executable model (ExtrOcamlBasic only; Z/N/positive stay inductive). *)
Require Extraction.
Require Import ExtrOcamlBasic.
From Formula Require Import Base.Utf8 Lex.LineMap Lex.Scanner Syn.Ast Syn.Parser Num.Dec Num.Float Sem.Value Sem.Builtins Sem.Clock Sem.Eval Sem.Fields Sem.Runner.
Extraction Language OCaml.
Extraction "model.ml" decode_all encode_rune line_starts line_col direct_count scan_all kind_code parse_source parse_tokens strip eval resolve_entry dec_of_string dec_to_string dec_cmp strip_zeros format_input fields_of fields_not_local rrun new_runner today_of now_of f64_of_dec f64_bits Z.mul Z.add Z.opp Z.div_eucl Z.compare.
