(* Interleave.v - non-interference of threads with disjoint write footprints.

   Abstract, self-contained (stdlib only; no dependency on the Formula model).

   Content.  A thread is a list of atomic actions together with a read set R and
   a write set W (predicates on locations).  If
     - every action of thread i writes only inside W_i, and its observation and
       the values it writes depend only on the contents of R_i   ([disciplined]),
     - no thread writes a location another thread reads or writes ([isolated]),
   then in EVERY interleaving every thread observes exactly what it observes
   when it is run alone from the same initial store, the locations written by
   nobody are unchanged, and the locations of thread i end up as in the solo run
   of thread i ([interleaving_invariance]).  For arbitrary (incomplete)
   schedules the observations so far are a prefix of the solo observations
   ([interleaving_prefix]).

   Conventions that a reader must know:
     - [run_sched ts sch s] is executable.  A schedule is a list of thread
       indices; step [i] executes the next pending action of thread i.  A step
       naming a thread that has no pending action (exhausted, or index out of
       range) is IGNORED (it changes neither the store nor the trace).
     - [complete ts sch] says that index i occurs in [sch] at least as often as
       thread i has actions; because surplus steps are ignored this is exactly
       "all actions of all threads are executed".  Strict interleavings (each i
       occurring exactly [length (t_acts (thr ts i))] times) are a special case.
     - [thr ts i] is [nth i ts dthread]; the default thread has empty R, W and
       no actions.
     - One hypothesis beyond the informal statement: [footprints_decidable],
       i.e. [W_i l \/ ~ W_i l].  The development is axiom-free (no excluded
       middle), and for a location in R_i whose membership in W_i is unknown
       neither clause of [respects] applies.  For footprints given as finite
       sets / boolean predicates the hypothesis is trivial
       ([bool_footprint_decidable]). *)

From Coq Require Import List Arith Lia Bool.
Import ListNotations.
Set Implicit Arguments.

Section Interleave.
Variables (loc val obs : Type).

Definition store := loc -> val.

(* one atomic action of a thread: from the store it computes a new store and an
   observation *)
Definition action := store -> store * obs.

(* footprint discipline of an action w.r.t. a read set R and a write set W.
   W is NOT required to be included in R. *)
Definition respects (R W : loc -> Prop) (a : action) : Prop :=
  (* writes only inside W *)
  (forall s l, ~ W l -> fst (a s) l = s l) /\
  (* observation and written values depend only on R *)
  (forall s s', (forall l, R l -> s l = s' l) ->
     snd (a s) = snd (a s') /\ forall l, W l -> fst (a s) l = fst (a s') l).

Record thread := Thread {
  t_R : loc -> Prop;
  t_W : loc -> Prop;
  t_acts : list action
}.

Definition dthread : thread := Thread (fun _ => False) (fun _ => False) [].

Definition thr (ts : list thread) (i : nat) : thread := nth i ts dthread.

(* ---------- sequential (solo) execution ---------- *)

Fixpoint run_acts (acts : list action) (s : store) : store * list obs :=
  match acts with
  | [] => (s, [])
  | a :: r => (fst (run_acts r (fst (a s))),
               snd (a s) :: snd (run_acts r (fst (a s))))
  end.

Definition run_alone (t : thread) (s : store) : list obs :=
  snd (run_acts (t_acts t) s).

Definition final_alone (t : thread) (s : store) : store :=
  fst (run_acts (t_acts t) s).

(* ---------- interleaved execution ---------- *)

(* replace the pending actions of thread j (R and W unchanged) *)
Fixpoint set_acts (ts : list thread) (j : nat) (r : list action) : list thread :=
  match ts with
  | [] => []
  | t :: ts' =>
      match j with
      | 0 => Thread (t_R t) (t_W t) r :: ts'
      | S j' => t :: set_acts ts' j' r
      end
  end.

(* Executes the schedule; returns the final store and the trace of
   (thread index, observation) pairs in execution order.  Steps naming a thread
   without pending action are ignored. *)
Fixpoint run_sched (ts : list thread) (sch : list nat) (s : store)
  : store * list (nat * obs) :=
  match sch with
  | [] => (s, [])
  | j :: sch' =>
      match t_acts (thr ts j) with
      | [] => run_sched ts sch' s
      | a :: rest =>
          (fst (run_sched (set_acts ts j rest) sch' (fst (a s))),
           (j, snd (a s)) :: snd (run_sched (set_acts ts j rest) sch' (fst (a s))))
      end
  end.

(* the threads with their still pending actions after the schedule (does not
   depend on the store) *)
Fixpoint remaining (ts : list thread) (sch : list nat) : list thread :=
  match sch with
  | [] => ts
  | j :: sch' =>
      match t_acts (thr ts j) with
      | [] => remaining ts sch'
      | _ :: rest => remaining (set_acts ts j rest) sch'
      end
  end.

(* observations of thread i in a trace, in order *)
Definition obs_of (i : nat) (tr : list (nat * obs)) : list obs :=
  map snd (filter (fun p => Nat.eqb (fst p) i) tr).

(* ---------- hypotheses ---------- *)

Definition isolated (ts : list thread) : Prop :=
  forall i j, i < length ts -> j < length ts -> i <> j ->
  forall l, t_W (thr ts i) l -> ~ t_R (thr ts j) l /\ ~ t_W (thr ts j) l.

Definition disciplined (ts : list thread) : Prop :=
  forall i, i < length ts ->
  Forall (respects (t_R (thr ts i)) (t_W (thr ts i))) (t_acts (thr ts i)).

Definition footprints_decidable (ts : list thread) : Prop :=
  forall i, i < length ts -> forall l, t_W (thr ts i) l \/ ~ t_W (thr ts i) l.

Definition complete (ts : list thread) (sch : list nat) : Prop :=
  forall i, i < length ts ->
  length (t_acts (thr ts i)) <= count_occ Nat.eq_dec sch i.

(* ---------- small facts ---------- *)

Unset Implicit Arguments.

Lemma thr_overflow : forall ts i, length ts <= i -> thr ts i = dthread.
Proof. intros ts i H. unfold thr. apply nth_overflow. exact H. Qed.

Lemma set_acts_length : forall ts j r, length (set_acts ts j r) = length ts.
Proof.
  induction ts as [|t ts IH]; intros j r.
  - reflexivity.
  - destruct j as [|j]; cbn [set_acts length].
    + reflexivity.
    + rewrite IH. reflexivity.
Qed.

Lemma thr_set_acts_R : forall ts j r i,
  t_R (thr (set_acts ts j r) i) = t_R (thr ts i).
Proof.
  unfold thr. induction ts as [|t ts IH]; intros j r i.
  - reflexivity.
  - destruct j as [|j]; destruct i as [|i]; cbn [set_acts nth t_R];
      try reflexivity.
    apply IH.
Qed.

Lemma thr_set_acts_W : forall ts j r i,
  t_W (thr (set_acts ts j r) i) = t_W (thr ts i).
Proof.
  unfold thr. induction ts as [|t ts IH]; intros j r i.
  - reflexivity.
  - destruct j as [|j]; destruct i as [|i]; cbn [set_acts nth t_W];
      try reflexivity.
    apply IH.
Qed.

Lemma thr_set_acts_eq : forall ts j r,
  j < length ts -> t_acts (thr (set_acts ts j r) j) = r.
Proof.
  unfold thr. induction ts as [|t ts IH]; intros j r Hj.
  - cbn [length] in Hj. lia.
  - destruct j as [|j]; cbn [set_acts nth t_acts].
    + reflexivity.
    + apply IH. cbn [length] in Hj. lia.
Qed.

Lemma thr_set_acts_neq : forall ts j r i,
  i <> j -> t_acts (thr (set_acts ts j r) i) = t_acts (thr ts i).
Proof.
  unfold thr. induction ts as [|t ts IH]; intros j r i Hij.
  - reflexivity.
  - destruct j as [|j]; destruct i as [|i]; cbn [set_acts nth t_acts];
      try reflexivity.
    + exfalso. apply Hij. reflexivity.
    + apply IH. intro H. apply Hij. rewrite H. reflexivity.
Qed.

Lemma pending_lt : forall ts j a rest,
  t_acts (thr ts j) = a :: rest -> j < length ts.
Proof.
  intros ts j a rest Hj.
  destruct (Nat.lt_ge_cases j (length ts)) as [H|H]; [exact H|].
  rewrite (thr_overflow _ _ H) in Hj. discriminate Hj.
Qed.

Lemma run_sched_skip : forall ts j sch s,
  t_acts (thr ts j) = [] -> run_sched ts (j :: sch) s = run_sched ts sch s.
Proof. intros ts j sch s H. cbn [run_sched]. rewrite H. reflexivity. Qed.

Lemma run_sched_step : forall ts j sch s a rest,
  t_acts (thr ts j) = a :: rest ->
  run_sched ts (j :: sch) s =
  (fst (run_sched (set_acts ts j rest) sch (fst (a s))),
   (j, snd (a s)) :: snd (run_sched (set_acts ts j rest) sch (fst (a s)))).
Proof. intros ts j sch s a rest H. cbn [run_sched]. rewrite H. reflexivity. Qed.

Lemma remaining_skip : forall ts j sch,
  t_acts (thr ts j) = [] -> remaining ts (j :: sch) = remaining ts sch.
Proof. intros ts j sch H. cbn [remaining]. rewrite H. reflexivity. Qed.

Lemma remaining_step : forall ts j sch a rest,
  t_acts (thr ts j) = a :: rest ->
  remaining ts (j :: sch) = remaining (set_acts ts j rest) sch.
Proof. intros ts j sch a rest H. cbn [remaining]. rewrite H. reflexivity. Qed.

Lemma obs_of_cons_eq : forall i o tr, obs_of i ((i, o) :: tr) = o :: obs_of i tr.
Proof.
  intros i o tr. unfold obs_of. cbn [filter fst]. rewrite Nat.eqb_refl.
  reflexivity.
Qed.

Lemma obs_of_cons_neq : forall i j o tr,
  j <> i -> obs_of i ((j, o) :: tr) = obs_of i tr.
Proof.
  intros i j o tr Hne. unfold obs_of. cbn [filter fst].
  destruct (Nat.eqb_spec j i) as [He|_]; [contradiction|reflexivity].
Qed.

Lemma run_acts_app_snd : forall d r s,
  snd (run_acts (d ++ r) s) =
  snd (run_acts d s) ++ snd (run_acts r (fst (run_acts d s))).
Proof.
  induction d as [|a d IH]; intros r s.
  - reflexivity.
  - cbn [app run_acts fst snd]. rewrite IH. reflexivity.
Qed.

(* how many actions are still pending after a schedule *)
Lemma remaining_length : forall sch ts i,
  length (t_acts (thr (remaining ts sch) i)) =
  length (t_acts (thr ts i)) - count_occ Nat.eq_dec sch i.
Proof.
  induction sch as [|j sch IH]; intros ts i.
  - cbn [remaining count_occ]. lia.
  - destruct (t_acts (thr ts j)) as [|a rest] eqn:Hj.
    + rewrite (remaining_skip _ _ _ Hj), IH. cbn [count_occ].
      destruct (Nat.eq_dec j i) as [He|Hne].
      * rewrite <- He, Hj. reflexivity.
      * reflexivity.
    + rewrite (remaining_step _ _ _ _ _ Hj), IH. cbn [count_occ].
      destruct (Nat.eq_dec j i) as [He|Hne].
      * rewrite <- He, Hj, (thr_set_acts_eq _ _ _ (pending_lt _ _ _ _ Hj)).
        cbn [length]. lia.
      * rewrite thr_set_acts_neq by (intro H; apply Hne; rewrite H; reflexivity).
        reflexivity.
Qed.

Lemma complete_remaining : forall ts sch i,
  complete ts sch -> t_acts (thr (remaining ts sch) i) = [].
Proof.
  intros ts sch i Hc. apply length_zero_iff_nil. rewrite remaining_length.
  destruct (Nat.lt_ge_cases i (length ts)) as [H|H].
  - pose proof (Hc i H) as Hle. lia.
  - rewrite (thr_overflow _ _ H). cbn [t_acts dthread length]. lia.
Qed.

(* ---------- the invariant ---------- *)

(* index-unbounded forms of the hypotheses (the default thread has empty
   footprints and no actions, so nothing is lost) *)
Definition iso_all (ts : list thread) : Prop :=
  forall i j, i <> j ->
  forall l, t_W (thr ts i) l -> ~ t_R (thr ts j) l /\ ~ t_W (thr ts j) l.

Definition disc_all (ts : list thread) : Prop :=
  forall i, Forall (respects (t_R (thr ts i)) (t_W (thr ts i))) (t_acts (thr ts i)).

Definition dec_all (ts : list thread) : Prop :=
  forall i l, t_W (thr ts i) l \/ ~ t_W (thr ts i) l.

Lemma isolated_all : forall ts, isolated ts -> iso_all ts.
Proof.
  intros ts H i j Hij l Hw.
  destruct (Nat.lt_ge_cases i (length ts)) as [Hi|Hi].
  - destruct (Nat.lt_ge_cases j (length ts)) as [Hj|Hj].
    + exact (H i j Hi Hj Hij l Hw).
    + rewrite (thr_overflow _ _ Hj). cbn [t_R t_W dthread].
      split; intro F; exact F.
  - rewrite (thr_overflow _ _ Hi) in Hw. cbn [t_W dthread] in Hw. contradiction.
Qed.

Lemma disciplined_all : forall ts, disciplined ts -> disc_all ts.
Proof.
  intros ts H i.
  destruct (Nat.lt_ge_cases i (length ts)) as [Hi|Hi].
  - exact (H i Hi).
  - rewrite (thr_overflow _ _ Hi). cbn [t_acts dthread]. constructor.
Qed.

Lemma decidable_all : forall ts, footprints_decidable ts -> dec_all ts.
Proof.
  intros ts H i l.
  destruct (Nat.lt_ge_cases i (length ts)) as [Hi|Hi].
  - exact (H i Hi l).
  - rewrite (thr_overflow _ _ Hi). cbn [t_W dthread]. right. intro F; exact F.
Qed.

(* Generalised statement.  [sg i] is the store thread i has at its current
   program point when run alone; the current shared store [s] agrees with it on
   R_i and W_i, for all i simultaneously. *)
Lemma run_sched_inv : forall sch ts s (sg : nat -> store),
  iso_all ts -> disc_all ts -> dec_all ts ->
  (forall i l, t_R (thr ts i) l \/ t_W (thr ts i) l -> s l = sg i l) ->
  (forall i, exists dn,
      t_acts (thr ts i) = dn ++ t_acts (thr (remaining ts sch) i) /\
      obs_of i (snd (run_sched ts sch s)) = snd (run_acts dn (sg i)) /\
      (forall l, t_R (thr ts i) l \/ t_W (thr ts i) l ->
         fst (run_sched ts sch s) l = fst (run_acts dn (sg i)) l))
  /\ (forall l, (forall i, ~ t_W (thr ts i) l) ->
        fst (run_sched ts sch s) l = s l).
Proof.
  induction sch as [|j sch IH]; intros ts s sg Hiso Hdisc Hdec Hinv.
  - split.
    + intros i. exists []. cbn [remaining run_sched run_acts app fst snd].
      split; [reflexivity|]. split; [reflexivity|].
      intros l Hl. apply Hinv. exact Hl.
    + intros l _. reflexivity.
  - destruct (t_acts (thr ts j)) as [|a rest] eqn:Hj.
    + rewrite (run_sched_skip _ _ _ _ Hj), (remaining_skip _ _ _ Hj).
      apply IH; assumption.
    + rewrite (run_sched_step _ _ _ _ _ _ Hj), (remaining_step _ _ _ _ _ Hj).
      cbn [fst snd].
      assert (Hjlt : j < length ts) by exact (pending_lt _ _ _ _ Hj).
      assert (Hresp : respects (t_R (thr ts j)) (t_W (thr ts j)) a).
      { pose proof (Hdisc j) as HF. rewrite Hj in HF. exact (Forall_inv HF). }
      destruct Hresp as [Hfr Hdep].
      assert (Hagree : forall l, t_R (thr ts j) l -> s l = sg j l).
      { intros l Hl. apply Hinv. left. exact Hl. }
      destruct (Hdep s (sg j) Hagree) as [Hobs Hwr].
      remember (set_acts ts j rest) as ts' eqn:Ets'.
      remember (fun i => if Nat.eqb i j then fst (a (sg j)) else sg i)
        as sg' eqn:Esg'.
      assert (HR : forall i, t_R (thr ts' i) = t_R (thr ts i)).
      { intro i. rewrite Ets'. apply thr_set_acts_R. }
      assert (HW : forall i, t_W (thr ts' i) = t_W (thr ts i)).
      { intro i. rewrite Ets'. apply thr_set_acts_W. }
      assert (Hsgj : sg' j = fst (a (sg j))).
      { rewrite Esg'. rewrite Nat.eqb_refl. reflexivity. }
      assert (Hsgn : forall i, i <> j -> sg' i = sg i).
      { intros i Hne. rewrite Esg'.
        destruct (Nat.eqb_spec i j) as [He|_]; [contradiction|reflexivity]. }
      assert (Hiso' : iso_all ts').
      { intros i k Hik l. rewrite (HW i), (HW k), (HR k). apply Hiso. exact Hik. }
      assert (Hdisc' : disc_all ts').
      { intros i. rewrite (HR i), (HW i).
        destruct (Nat.eq_dec i j) as [He|Hne].
        - rewrite He, Ets', (thr_set_acts_eq _ _ _ Hjlt).
          pose proof (Hdisc j) as HF. rewrite Hj in HF.
          exact (Forall_inv_tail HF).
        - rewrite Ets', (thr_set_acts_neq _ _ _ _ Hne). apply Hdisc. }
      assert (Hdec' : dec_all ts').
      { intros i l. rewrite (HW i). apply Hdec. }
      assert (Hinv' : forall i l,
                 t_R (thr ts' i) l \/ t_W (thr ts' i) l -> fst (a s) l = sg' i l).
      { intros i l Hl. rewrite (HR i), (HW i) in Hl.
        destruct (Nat.eq_dec i j) as [He|Hne].
        - rewrite He in Hl |- *. rewrite Hsgj.
          destruct (Hdec j l) as [Hw|Hnw].
          + apply Hwr. exact Hw.
          + rewrite (Hfr s l Hnw), (Hfr (sg j) l Hnw). apply Hinv. exact Hl.
        - rewrite (Hsgn i Hne).
          assert (Hnw : ~ t_W (thr ts j) l).
          { intro Hw.
            destruct (Hiso j i (not_eq_sym Hne) l Hw) as [H1 H2].
            destruct Hl as [Hl|Hl]; contradiction. }
          rewrite (Hfr s l Hnw). apply Hinv. exact Hl. }
      destruct (IH ts' (fst (a s)) sg' Hiso' Hdisc' Hdec' Hinv')
        as [IHthr IHframe].
      split.
      * intros i. destruct (IHthr i) as [dn [Hsplit [Hob Hfin]]].
        destruct (Nat.eq_dec i j) as [He|Hne].
        -- rewrite He in *. exists (a :: dn).
           rewrite Ets' in Hsplit at 1.
           rewrite (thr_set_acts_eq _ _ _ Hjlt) in Hsplit.
           rewrite Hsgj in Hob, Hfin.
           split.
           { rewrite Hj, Hsplit. reflexivity. }
           split.
           { rewrite obs_of_cons_eq, Hob. cbn [run_acts snd].
             rewrite Hobs. reflexivity. }
           { intros l Hl. cbn [run_acts fst]. apply Hfin.
             rewrite (HR j), (HW j). exact Hl. }
        -- exists dn.
           rewrite Ets' in Hsplit at 1.
           rewrite (thr_set_acts_neq _ _ _ _ Hne) in Hsplit.
           rewrite (Hsgn i Hne) in Hob, Hfin.
           split; [exact Hsplit|]. split.
           { rewrite obs_of_cons_neq by (intro H; apply Hne; rewrite H; reflexivity).
             exact Hob. }
           { intros l Hl. apply Hfin. rewrite (HR i), (HW i). exact Hl. }
      * intros l Hl. rewrite IHframe.
        -- apply Hfr. apply Hl.
        -- intros i. rewrite (HW i). apply Hl.
Qed.

(* ---------- main results ---------- *)

Set Implicit Arguments.

(* In every complete interleaving, every thread observes exactly what it
   observes alone; its own locations (read or written) end up as in its solo
   run; locations written by no thread are unchanged. *)
Theorem interleaving_invariance : forall (ts : list thread) (sch : list nat) (s : store),
  isolated ts -> disciplined ts -> footprints_decidable ts ->
  complete ts sch ->
  (forall i, i < length ts ->
     obs_of i (snd (run_sched ts sch s)) = run_alone (thr ts i) s /\
     (forall l, t_R (thr ts i) l \/ t_W (thr ts i) l ->
        fst (run_sched ts sch s) l = final_alone (thr ts i) s l))
  /\
  (forall l, (forall i, i < length ts -> ~ t_W (thr ts i) l) ->
     fst (run_sched ts sch s) l = s l).
Proof.
  intros ts sch s Hiso Hdisc Hdec Hc.
  destruct (run_sched_inv sch ts s (fun _ => s)
              (isolated_all ts Hiso) (disciplined_all ts Hdisc) (decidable_all ts Hdec)
              (fun i l _ => eq_refl)) as [Hthr Hframe].
  split.
  - intros i _. destruct (Hthr i) as [dn [Hsplit [Hob Hfin]]].
    rewrite (complete_remaining ts sch i Hc), app_nil_r in Hsplit.
    unfold run_alone, final_alone. rewrite Hsplit.
    split; [exact Hob|exact Hfin].
  - intros l Hl. apply Hframe. intros i.
    destruct (Nat.lt_ge_cases i (length ts)) as [Hi|Hi].
    + exact (Hl i Hi).
    + rewrite (thr_overflow _ _ Hi). cbn [t_W dthread]. intro F; exact F.
Qed.

(* For ANY schedule (complete or not): what thread i has observed so far is a
   prefix of what it observes alone. *)
Theorem interleaving_prefix : forall (ts : list thread) (sch : list nat) (s : store),
  isolated ts -> disciplined ts -> footprints_decidable ts ->
  forall i, i < length ts ->
  exists rest, run_alone (thr ts i) s = obs_of i (snd (run_sched ts sch s)) ++ rest.
Proof.
  intros ts sch s Hiso Hdisc Hdec i _.
  destruct (run_sched_inv sch ts s (fun _ => s)
              (isolated_all ts Hiso) (disciplined_all ts Hdisc) (decidable_all ts Hdec)
              (fun i l _ => eq_refl)) as [Hthr _].
  destruct (Hthr i) as [dn [Hsplit [Hob _]]].
  exists (snd (run_acts (t_acts (thr (remaining ts sch) i)) (fst (run_acts dn s)))).
  unfold run_alone. rewrite Hsplit, run_acts_app_snd, Hob. reflexivity.
Qed.

(* Consequence: two complete interleavings cannot be told apart by any thread. *)
Corollary interleaving_schedule_independent :
  forall (ts : list thread) (sch1 sch2 : list nat) (s : store),
  isolated ts -> disciplined ts -> footprints_decidable ts ->
  complete ts sch1 -> complete ts sch2 ->
  forall i, i < length ts ->
  obs_of i (snd (run_sched ts sch1 s)) = obs_of i (snd (run_sched ts sch2 s)).
Proof.
  intros ts sch1 sch2 s Hiso Hdisc Hdec Hc1 Hc2 i Hi.
  destruct (interleaving_invariance s Hiso Hdisc Hdec Hc1) as [H1 _].
  destruct (interleaving_invariance s Hiso Hdisc Hdec Hc2) as [H2 _].
  destruct (H1 i Hi) as [E1 _]. destruct (H2 i Hi) as [E2 _].
  rewrite E1, E2. reflexivity.
Qed.

(* write sets given by boolean predicates are decidable *)
Lemma bool_footprint_decidable : forall (ts : list thread) (w : nat -> loc -> bool),
  (forall i l, i < length ts -> (t_W (thr ts i) l <-> w i l = true)) ->
  footprints_decidable ts.
Proof.
  intros ts w H i Hi l. destruct (w i l) eqn:E.
  - left. apply (H i l Hi). exact E.
  - right. intro Hw. apply (H i l Hi) in Hw. rewrite E in Hw. discriminate Hw.
Qed.

End Interleave.

(* ====================================================================== *)
(* The hypotheses are satisfiable: two threads sharing read-only location 0.
   Thread 0 reads locations 0 and 1 and writes location 1 (its second action
   sees what its first action wrote); thread 1 reads location 0 and writes
   location 2 (which it never reads: W is not included in R). *)

Definition upd (s : store nat nat) (l v : nat) : store nat nat :=
  fun l' => if Nat.eqb l' l then v else s l'.

Definition A1 : action nat nat nat := fun s => (upd s 1 (s 0 + 1), s 0).
Definition A2 : action nat nat nat := fun s => (upd s 1 (s 1 * 2), s 1).
Definition B1 : action nat nat nat := fun s => (upd s 2 (s 0 + 10), s 0).
Definition B2 : action nat nat nat := fun s => (upd s 2 (s 0 * 3), s 0 + 7).

Definition thA : thread nat nat nat :=
  Thread (fun l => l = 0 \/ l = 1) (fun l => l = 1) [A1; A2].
Definition thB : thread nat nat nat :=
  Thread (fun l => l = 0) (fun l => l = 2) [B1; B2].
Definition ex_ts : list (thread nat nat nat) := [thA; thB].

Lemma upd_same : forall s l v, upd s l v l = v.
Proof. intros s l v. unfold upd. rewrite Nat.eqb_refl. reflexivity. Qed.

Lemma upd_other : forall s l v l', l' <> l -> upd s l v l' = s l'.
Proof.
  intros s l v l' H. unfold upd.
  destruct (Nat.eqb_spec l' l) as [E|_]; [contradiction|reflexivity].
Qed.

Lemma ex_isolated : isolated ex_ts.
Proof.
  intros i j Hi Hj Hij l. cbn [ex_ts length] in Hi, Hj.
  destruct i as [|[|i]]; destruct j as [|[|j]]; try lia;
    unfold thr; cbn [ex_ts nth thA thB t_R t_W]; intro Hw; lia.
Qed.

Lemma ex_disciplined : disciplined ex_ts.
Proof.
  intros i Hi. cbn [ex_ts length] in Hi.
  destruct i as [|[|i]]; try lia;
    unfold thr; cbn [ex_ts nth thA thB t_R t_W t_acts].
  - apply Forall_cons; [split|apply Forall_cons; [split|apply Forall_nil]];
      cbn [A1 A2 fst snd].
    + intros s l Hn. apply upd_other. exact Hn.
    + intros s s' Hag. rewrite (Hag 0 (or_introl eq_refl)).
      split; [reflexivity|]. intros l Hl. rewrite Hl, !upd_same. reflexivity.
    + intros s l Hn. apply upd_other. exact Hn.
    + intros s s' Hag. rewrite (Hag 1 (or_intror eq_refl)).
      split; [reflexivity|]. intros l Hl. rewrite Hl, !upd_same. reflexivity.
  - apply Forall_cons; [split|apply Forall_cons; [split|apply Forall_nil]];
      cbn [B1 B2 fst snd].
    + intros s l Hn. apply upd_other. exact Hn.
    + intros s s' Hag. rewrite (Hag 0 eq_refl).
      split; [reflexivity|]. intros l Hl. rewrite Hl, !upd_same. reflexivity.
    + intros s l Hn. apply upd_other. exact Hn.
    + intros s s' Hag. rewrite (Hag 0 eq_refl).
      split; [reflexivity|]. intros l Hl. rewrite Hl, !upd_same. reflexivity.
Qed.

Lemma ex_decidable : footprints_decidable ex_ts.
Proof.
  intros i Hi l. cbn [ex_ts length] in Hi.
  destruct i as [|[|i]]; try lia;
    unfold thr; cbn [ex_ts nth thA thB t_W]; lia.
Qed.

(* sanity: the executable semantics on one concrete interleaving *)
Example ex_run_concrete :
  let r := run_sched ex_ts [1; 0; 0; 1] (fun l => match l with 0 => 5 | _ => 0 end) in
  (snd r, fst r 0, fst r 1, fst r 2) = ([(1, 5); (0, 5); (0, 6); (1, 12)], 5, 12, 15).
Proof. vm_compute. reflexivity. Qed.

Example ex_complete : complete ex_ts [1; 0; 0; 1].
Proof.
  intros i Hi. cbn [ex_ts length] in Hi.
  destruct i as [|[|i]]; try lia; vm_compute; lia.
Qed.

(* ALL complete interleavings of the two threads (in particular the six strict
   interleavings of 2 + 2 actions), from every initial store: obtained from the
   theorem, not by enumeration. *)
Example ex_all_interleavings : forall (sch : list nat) (s : store nat nat),
  complete ex_ts sch ->
  let r := run_sched ex_ts sch s in
  obs_of 0 (snd r) = [s 0; s 0 + 1] /\
  obs_of 1 (snd r) = [s 0; s 0 + 7] /\
  fst r 0 = s 0 /\
  fst r 1 = (s 0 + 1) * 2 /\
  fst r 2 = s 0 * 3.
Proof.
  intros sch s Hc r.
  destruct (interleaving_invariance s ex_isolated ex_disciplined ex_decidable Hc)
    as [Hthr Hframe].
  fold r in Hthr, Hframe.
  assert (H0 : 0 < length ex_ts) by (cbn [ex_ts length]; lia).
  assert (H1 : 1 < length ex_ts) by (cbn [ex_ts length]; lia).
  destruct (Hthr 0 H0) as [HoA HfA]. destruct (Hthr 1 H1) as [HoB HfB].
  split; [|split; [|split; [|split]]].
  - rewrite HoA. unfold run_alone, thr.
    cbn [ex_ts nth thA t_acts run_acts A1 A2 fst snd].
    rewrite upd_same. reflexivity.
  - rewrite HoB. unfold run_alone, thr.
    cbn [ex_ts nth thB t_acts run_acts B1 B2 fst snd].
    rewrite upd_other by lia. reflexivity.
  - apply Hframe. intros i Hi. cbn [ex_ts length] in Hi.
    destruct i as [|[|i]]; try lia;
      unfold thr; cbn [ex_ts nth thA thB t_W]; lia.
  - rewrite (HfA 1) by (unfold thr; cbn [ex_ts nth thA t_R t_W]; lia).
    unfold final_alone, thr.
    cbn [ex_ts nth thA t_acts run_acts A1 A2 fst snd].
    rewrite !upd_same. reflexivity.
  - rewrite (HfB 2) by (unfold thr; cbn [ex_ts nth thB t_R t_W]; lia).
    unfold final_alone, thr.
    cbn [ex_ts nth thB t_acts run_acts B1 B2 fst snd].
    rewrite upd_same, upd_other by lia. reflexivity.
Qed.

(* any prefix of any schedule: thread 0 never observes anything but a prefix of
   its solo observations *)
Example ex_prefix : forall (sch : list nat) (s : store nat nat),
  exists rest, [s 0; s 0 + 1] = obs_of 0 (snd (run_sched ex_ts sch s)) ++ rest.
Proof.
  intros sch s.
  assert (H0 : 0 < length ex_ts) by (cbn [ex_ts length]; lia).
  destruct (interleaving_prefix sch s ex_isolated ex_disciplined ex_decidable H0)
    as [rest Hrest].
  exists rest. rewrite <- Hrest. unfold run_alone, thr.
  cbn [ex_ts nth thA t_acts run_acts A1 A2 fst snd].
  rewrite upd_same. reflexivity.
Qed.

Print Assumptions interleaving_invariance.
Print Assumptions interleaving_prefix.
Print Assumptions ex_all_interleavings.
