(* Write footprints of the public entry points, computed from the table REGENERATED on every run
   from the SSA form of /repo (Gen/Effects.v, produced by /verif/tools/effects): for each function its
   callees and every store classified by the root of the written address.  All lemmas are closed
   computations over that table; a new write to shared state changes the table and breaks them.
   The translator does no alias analysis (root of the address only) and summarises library calls by
   the allow-list below - both are part of the trusted base. *)
From Coq Require Import List String Bool Arith.
From Formula Require Import Gen.Effects.
Import ListNotations.
Open Scope string_scope.

Definition fn_name (r : string * list string * list string) : string := fst (fst r).
Definition fn_callees (r : string * list string * list string) : list string := snd (fst r).
Definition fn_writes (r : string * list string * list string) : list string := snd r.

Fixpoint lookup_fn (n : string) (t : list (string * list string * list string)) : option (list string * list string) :=
  match t with
  | [] => None
  | r :: t' => if String.eqb (fn_name r) n then Some (fn_callees r, fn_writes r) else lookup_fn n t'
  end.

Definition mem (x : string) (l : list string) : bool := existsb (String.eqb x) l.

(* functions reachable from a work list; fuel = number of functions in the table *)
Fixpoint reach (fuel : nat) (work seen : list string) : list string :=
  match fuel with
  | O => seen
  | S f =>
    match work with
    | [] => seen
    | n :: w =>
      if mem n seen then reach f w seen
      else match lookup_fn n impl_effects with
           | Some (cs, _) => reach f (cs ++ w) (n :: seen)
           | None => reach f w (n :: seen)
           end
    end
  end.

Definition reachable (entry : list string) : list string :=
  reach (List.length impl_effects * 40) entry [].

Definition writes_of (entry : list string) : list string :=
  flat_map (fun n => match lookup_fn n impl_effects with Some (_, ws) => ws | None => [] end) (reachable entry).

Definition starts (p s : string) : bool := String.prefix p s.

Fixpoint contains (p s : string) : bool :=
  String.prefix p s || match s with EmptyString => false | String _ t => contains p t end.

(* library methods that only read their receiver *)
Definition read_only_method (w : string) : bool :=
  contains "(*sync.Map).Load" w || contains "(reflect.Type)." w || contains "(error).Error" w ||
  contains ".Big).Float64" w || contains ".Big).Cmp" w || contains ".Big).Int64" w ||
  contains ".Big).IsFinite" w || contains ".Big).IsNaN" w || contains ".Big).String" w ||
  contains ".Big).Signbit" w || contains ".Big).Sign" w || contains ".Big).IsInf" w ||
  (* reflect.Value is a value receiver; every method but the ones that store through it, run code or change a
     channel only inspects what it refers to *)
  (contains "(reflect.Value)." w &&
   negb (contains "(reflect.Value).Set" w || contains "(reflect.Value).Call" w || contains "(reflect.Value).Send" w ||
         contains "(reflect.Value).TrySend" w || contains "(reflect.Value).Recv" w || contains "(reflect.Value).TryRecv" w ||
         contains "(reflect.Value).Close" w || contains "(reflect.Value).Clear" w || contains "(reflect.Value).Grow" w ||
         contains "(reflect.Value).Addr" w || contains "(reflect.Value).UnsafeAddr" w || contains "(reflect.Value).UnsafePointer" w)) ||
  contains "(time.Time)." w ||                   (* value receiver: the caller's time is copied *)
  contains "decimal.Context)." w.                (* value receiver: a copy of the context *)

(* a number handed to the decimal package as an operand: the methods of Big store into their receiver only and
   the methods of Context into their first argument only (the library's contract) *)
Definition decimal_operand (w : string) : bool :=
  starts "extarg:" w && (contains "decimal.Big)." w || (contains "decimal.Context)." w && negb (contains "#1" w))).

(* a write that cannot touch anything another evaluation, parse or analysis can see *)
Definition private_write (w : string) : bool :=
  String.eqb w "fresh" || String.eqb w "fresh[]" || String.eqb w "fresh*" || String.eqb w "local" ||
  String.eqb w "local*" || String.eqb w "map:fresh" || starts "freevar:err:" w || starts "freevar:result:" w ||
  (starts "extcall:" w && read_only_method w) || decimal_operand w.

(* ---------- evaluation: Runner.Resolve ---------- *)

(* the evaluator writes only: fresh objects, its own named results, and the runner's data-map
   reference / the data map itself (locals) *)
Definition eval_write_ok (w : string) : bool :=
  private_write w || String.eqb w "param:r:*Runner.this" || String.eqb w "map:load:param:r:*Runner.this".

Definition eval_entry := ["(*Runner).Resolve"; "(*Runner).VerifResolveRaw"].

Lemma eval_footprint : forallb eval_write_ok (writes_of eval_entry) = true.
Proof. vm_compute. reflexivity. Qed.

(* in particular: no package-level variable, no field of a tree node, no field of a SourceCode *)
Definition shared_write (w : string) : bool :=
  (contains "global:" w && negb (read_only_method w)) || contains "*textRange" w || contains "*node." w || contains "*SourceCode" w ||
  contains "*TokenNode" w || contains "*NodeList" w || contains "Expression." w || contains "*Identifier." w.

Lemma eval_writes_nothing_shared : existsb shared_write (writes_of eval_entry) = false.
Proof. vm_compute. reflexivity. Qed.

(* the setters of the tree are not reachable from evaluation or analysis *)
Definition tree_setter (n : string) : bool :=
  contains ").SetPos" n || contains ").SetEnd" n || contains ").SetID" n || contains ").SetParent" n ||
  contains ").Add" n.

Lemma eval_never_calls_tree_setters : existsb tree_setter (reachable eval_entry) = false.
Proof. vm_compute. reflexivity. Qed.

(* ---------- builtins: table entries, reached from evaluation through reflection ---------- *)

(* package-level functions whose value is taken somewhere (the builtin table is filled by init) *)
Definition builtin_entry : list string :=
  filter (fun n => negb (contains "(" n) && negb (contains "$" n)) impl_funcrefs.

(* a builtin writes nothing but objects it allocated: no package state, no captured state, and no number,
   string, time or array handed to it *)
Lemma builtins_footprint : forallb private_write (writes_of builtin_entry) = true.
Proof. vm_compute. reflexivity. Qed.

Lemma builtins_never_call_tree_setters : existsb tree_setter (reachable builtin_entry) = false.
Proof. vm_compute. reflexivity. Qed.

(* the environment (clock, random source, process, files, network): which functions read it directly, and how
   many readings one call of a function takes, counted along the call tree (a call site inside a loop counts once) *)
Definition env_sites (f : string) : list (string * nat) :=
  match find (fun r => String.eqb (fst r) f) impl_envcalls with Some r => snd r | None => [] end.
Definition reads_env (f : string) : bool := match env_sites f with [] => false | _ => true end.
Definition direct_calls (f : string) : list (string * nat) :=
  match find (fun r => String.eqb (fst r) f) impl_callsites with Some r => snd r | None => [] end.

Fixpoint env_readings (fuel : nat) (f : string) : nat :=
  match fuel with
  | O => 1000                                   (* call tree too deep to count: never accepted below *)
  | S k => fold_left (fun a c => a + snd c) (env_sites f) 0 +
           fold_left (fun a c => a + snd c * env_readings k (fst c)) (direct_calls f) 0
  end.

Definition clock_builtin (f : string) : bool := String.eqb f "funNow" || String.eqb f "funToDay".

(* 1. parsing, the evaluator core and field analysis reach no function that reads the environment;
   2. no builtin but now / toDay does;
   3. one call of now or toDay takes exactly one reading, and it is a reading of the clock (time.Now):
      year, month and day of toDay come from one instant *)
Definition env_discipline : bool :=
  negb (existsb reads_env (reachable (eval_entry ++ ["ParseSourceCode"; "ResolveReferenceFields"; "ResolveReferenceFieldsNotLocal";
                                                       "FormatDiagnostic"; "GetFileLineAndCharacterFromPosition"; "GetLineStarts"]))) &&
  forallb (fun f => clock_builtin f || negb (existsb reads_env (reachable [f]))) builtin_entry &&
  forallb (fun f => negb (mem f builtin_entry) || Nat.eqb (env_readings 12 f) 1) ["funNow"; "funToDay"] &&
  forallb (fun f => forallb (fun g => forallb (fun c => String.eqb (fst c) "time.Now") (env_sites g)) (reachable [f])) ["funNow"; "funToDay"].

Lemma environment_read_by_clock_builtins_once : env_discipline = true.
Proof. vm_compute. reflexivity. Qed.

(* ---------- field analysis ---------- *)

Definition fields_entry := ["ResolveReferenceFields"; "ResolveReferenceFieldsNotLocal"].

Definition fields_write_ok (w : string) : bool :=
  private_write w || String.eqb w "param:r:*referenceResovle.fields".   (* its own per-call collector *)

Lemma fields_footprint : forallb fields_write_ok (writes_of fields_entry) = true.
Proof. vm_compute. reflexivity. Qed.

Lemma fields_writes_nothing_shared :
  existsb shared_write (writes_of fields_entry) = false /\
  existsb tree_setter (reachable fields_entry) = false.
Proof. vm_compute. split; reflexivity. Qed.

(* ---------- parsing ---------- *)

Definition parse_entry := ["ParseSourceCode"].

(* the parser writes only: fresh objects, its own Parser / Scanner state, the nodes it is building
   (through their own setters) and the lazily computed line-start table of the source being formatted *)
Definition parse_write_ok (w : string) : bool :=
  private_write w || starts "param:p:*Parser." w || starts "load:param:p:*Parser.sourceCode." w ||
  starts "param:s:*Scanner." w || starts "param:t:*textRange." w || starts "param:nl:*NodeList[" w ||
  starts "param:n:*node." w || String.eqb w "param:file:*SourceCode.LineStarts".

Lemma parse_footprint : forallb parse_write_ok (writes_of parse_entry) = true.
Proof. vm_compute. reflexivity. Qed.

Lemma parse_writes_no_global :
  existsb (fun w => contains "global:" w && negb (read_only_method w)) (writes_of parse_entry) = false.
Proof. vm_compute. reflexivity. Qed.

(* error formatting writes only the line-start cache of the source it is given *)
Lemma format_footprint :
  forallb (fun w => private_write w || String.eqb w "param:file:*SourceCode.LineStarts")
          (writes_of ["FormatDiagnostic"; "GetFileLineAndCharacterFromPosition"; "GetLineStarts"]) = true.
Proof. vm_compute. reflexivity. Qed.

(* ---------- globals ---------- *)

(* every function that writes a package-level variable, or stores into the builtin table *)
Definition global_writers : list string :=
  map fn_name (filter (fun r => existsb (fun w => contains "global:" w && negb (read_only_method w)) (fn_writes r)) impl_effects).

Lemma globals_written_only_by_init : forallb (starts "init") global_writers = true.
Proof. vm_compute. reflexivity. Qed.

(* ---------- the runner object ---------- *)

Lemma runner_ops_footprint :
  writes_of ["(*Runner).SetThis"] = ["param:r:*Runner.this"] /\
  writes_of ["(*Runner).Set"] = ["map:load:param:r:*Runner.value"] /\
  writes_of ["(*Runner).Get"] = [] /\
  existsb (contains "Runner.value") (writes_of eval_entry) = false.      (* formulas never touch the auxiliary store *)
Proof. vm_compute. repeat split; reflexivity. Qed.
