(* Instantiation of the abstract interleaving theorem with the write footprints regenerated from
   the code: goroutines that evaluate shared trees with their own runners, analyse them, parse
   other texts or format errors of other sources are ISOLATED in the sense of Interleave.v -
   none writes a location another one reads or writes.

   What is proved here is about the footprint table.  That each Go operation respects the
   footprint the translator computed for it (hypothesis [disciplined] of the theorem) is the
   translator's claim and part of the trusted base; the race-detector runs are its dynamic check. *)
From Coq Require Import List String Bool Arith.
From Formula Require Import Conc.Interleave Conc.Footprint.
Import ListNotations.
Open Scope string_scope.

(* a location of the Go process, as the footprint table can name it: shared state (package-level
   variables, the fields of parsed trees and source objects that several goroutines hold, the
   builtin table) or state owned by one goroutine (its runner and data map, its parser and scanner
   and the tree it is building, the source whose error it formats, everything it allocates) *)
Inductive gloc := Shared (d : string) | Owned (owner : nat) (d : string).

Inductive opkind := OpEval | OpFields | OpParse | OpFormat.

Definition entry_of (k : opkind) : list string :=
  match k with
  | OpEval => eval_entry
  | OpFields => fields_entry
  | OpParse => parse_entry
  | OpFormat => ["FormatDiagnostic"; "GetFileLineAndCharacterFromPosition"; "GetLineStarts"]
  end.

(* which write descriptors denote shared state, per kind of operation: an evaluation or analysis is
   handed a tree it did not build, so every node / source field is shared for it; a parse builds its
   own tree and a format call owns its source, so only package-level variables are shared for them *)
Definition global_write (w : string) : bool := contains "global:" w && negb (read_only_method w).

Definition shared_desc (k : opkind) (d : string) : bool :=
  match k with
  | OpEval | OpFields => shared_write d
  | OpParse | OpFormat => global_write d
  end.

Definition W_of (i : nat) (k : opkind) (l : gloc) : Prop :=
  match l with
  | Shared d => In d (writes_of (entry_of k)) /\ shared_desc k d = true
  | Owned j d => j = i /\ In d (writes_of (entry_of k))
  end.

(* a goroutine may read every shared location and its own *)
Definition R_of (i : nat) (l : gloc) : Prop :=
  match l with Shared _ => True | Owned j _ => j = i end.

Lemma existsb_false_all : forall (f : string -> bool) l, existsb f l = false -> forall d, In d l -> f d = false.
Proof.
  intros f l H d Hd. destruct (f d) eqn:E; [|reflexivity].
  assert (X : existsb f l = true) by (apply existsb_exists; exists d; split; assumption).
  rewrite H in X. discriminate X.
Qed.

Lemma format_writes_no_global :
  existsb global_write (writes_of (entry_of OpFormat)) = false.
Proof. vm_compute. reflexivity. Qed.

(* no operation of the four kinds writes a shared location *)
Lemma no_shared_write : forall k d, In d (writes_of (entry_of k)) -> shared_desc k d = false.
Proof.
  intros k d Hd. destruct k; cbn [shared_desc entry_of] in *.
  - exact (existsb_false_all _ _ eval_writes_nothing_shared d Hd).
  - exact (existsb_false_all _ _ (proj1 fields_writes_nothing_shared) d Hd).
  - exact (existsb_false_all _ _ parse_writes_no_global d Hd).
  - exact (existsb_false_all _ _ format_writes_no_global d Hd).
Qed.

Lemma W_of_owned : forall i k l, W_of i k l -> exists d, l = Owned i d.
Proof.
  intros i k [d|j d] H; cbn [W_of] in H.
  - destruct H as [Hin Hs]. rewrite (no_shared_write k d Hin) in Hs. discriminate Hs.
  - destruct H as [-> _]. exists d. reflexivity.
Qed.

Section Goroutines.
Variables (val obs : Type).

(* a configuration of goroutines whose footprints are the regenerated ones *)
Definition footprints_from_table (ts : list (thread gloc val obs)) (kinds : list opkind) : Prop :=
  List.length kinds = List.length ts /\
  forall i, i < List.length ts ->
    (forall l, t_W (thr ts i) l <-> W_of i (nth i kinds OpEval) l) /\
    (forall l, t_R (thr ts i) l -> R_of i l).

Theorem goroutines_isolated : forall ts kinds, footprints_from_table ts kinds -> isolated ts.
Proof.
  intros ts kinds [_ H] i j Hi Hj Hij l Hw.
  destruct (H i Hi) as [HWi _]. destruct (H j Hj) as [HWj HRj].
  apply HWi in Hw. destruct (W_of_owned _ _ _ Hw) as [d ->].
  split.
  - intro Hr. apply HRj in Hr. cbn [R_of] in Hr. congruence.
  - intro Hw2. apply HWj in Hw2. destruct (W_of_owned _ _ _ Hw2) as [d' E]. congruence.
Qed.

(* hence: in every interleaving each goroutine obtains the result it obtains sequentially, and no
   shared location (tree node, source field, package-level variable) is ever changed *)
Theorem shared_formula_invariance : forall ts kinds sch s,
  footprints_from_table ts kinds -> disciplined ts -> footprints_decidable ts -> complete ts sch ->
  (forall i, i < List.length ts -> obs_of i (snd (run_sched ts sch s)) = run_alone (thr ts i) s) /\
  (forall d, fst (run_sched ts sch s) (Shared d) = s (Shared d)).
Proof.
  intros ts kinds sch s Hf Hd Hdec Hc.
  destruct (interleaving_invariance s (goroutines_isolated _ _ Hf) Hd Hdec Hc) as [H1 H2].
  split.
  - intros i Hi. exact (proj1 (H1 i Hi)).
  - intros d. apply H2. intros i Hi Hw.
    destruct Hf as [_ Hf]. apply (proj1 (Hf i Hi)) in Hw.
    destruct (W_of_owned _ _ _ Hw) as [d' E]. discriminate E.
Qed.

(* sequential histories are a special case: a history of operations is a schedule; the result of
   each operation equals its result when run alone from the initial state, whatever was parsed or
   evaluated before or in between *)
Theorem history_independence : forall ts kinds sch s i,
  footprints_from_table ts kinds -> disciplined ts -> footprints_decidable ts -> complete ts sch ->
  i < List.length ts -> obs_of i (snd (run_sched ts sch s)) = run_alone (thr ts i) s.
Proof.
  intros ts kinds sch s i Hf Hd Hdec Hc Hi.
  exact (proj1 (shared_formula_invariance ts kinds sch s Hf Hd Hdec Hc) i Hi).
Qed.

End Goroutines.
