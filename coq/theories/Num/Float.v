(* Conversion of the decimal result to an IEEE 754 binary64 number, as Go's
   strconv.ParseFloat(text, 64) performs it: round to nearest, ties to even, overflow to an
   infinity, gradual underflow through the subnormal numbers down to a signed zero; NaN stays
   NaN.  Executable (integer operations only: Z.log2, Z.shiftl, Z.div_eucl, Z.pow), intended
   for [vm_compute] and for extraction with Z as an inductive type.  Definitions only; the
   facts are in Proofs/FloatFacts.v. *)
From Coq Require Import ZArith Bool.
From Formula Require Import Num.Dec.
Open Scope Z_scope.

(* (-1)^neg * m * 2^e with 0 <= m < 2^53 and -1074 <= e <= 971; canonical: m < 2^52 only
   when e = -1074 (zero and the subnormal numbers). *)
Inductive f64 :=
| FNaN
| FInf (neg : bool)
| FFin (neg : bool) (m : Z) (e : Z).

Definition p52 : Z := 4503599627370496.          (* 2^52 *)
Definition p53 : Z := 9007199254740992.          (* 2^53 *)
Definition p63 : Z := 9223372036854775808.       (* 2^63 *)

Definition f64_emin : Z := -1074.
Definition f64_emax : Z := 971.

Definition f64_zero (neg : bool) : f64 := FFin neg 0 f64_emin.

(* The exponent k with 2^52 <= (num/den) / 2^k < 2^53, for num, den > 0.  With a = log2 num
   and b = log2 den the ratio lies strictly between 2^(a-b-1) and 2^(a-b+1); one comparison
   (shifts only, no division) decides on which side of 2^(a-b) it is. *)
Definition f64_expo (num den : Z) : Z :=
  let a := Z.log2 num in
  let b := Z.log2 den in
  if Z.shiftl den a <=? Z.shiftl num b then a - b - 52 else a - b - 53.

(* quotient q, remainder r of a division by d: the nearest integer, ties to even *)
Definition f64_round (q r d : Z) : Z :=
  if (d <? 2 * r) || ((2 * r =? d) && Z.odd q) then q + 1 else q.

(* the binary64 nearest to num/den, for num >= 0 and den > 0 *)
Definition f64_of_ratio (neg : bool) (num den : Z) : f64 :=
  if num <=? 0 then f64_zero neg
  else
    let k := Z.max (f64_expo num den) f64_emin in      (* never below the subnormal exponent *)
    let sh := Z.max 0 (- k) in
    let n := Z.shiftl num sh in                        (* n / d = (num/den) / 2^k *)
    let d := Z.shiftl den (k + sh) in
    let '(q, r) := Z.div_eucl n d in
    let q' := f64_round q r d in
    let m := if q' =? p53 then p52 else q' in          (* carry out of the 53 bits *)
    let e := if q' =? p53 then k + 1 else k in
    if f64_emax <? e then FInf neg else FFin neg m e.

(* The conversion as the specification reads it: the exact rational value, rounded once. *)
Definition f64_of_dec_spec (d : dec) : f64 :=
  match d with
  | NaN => FNaN
  | Inf n => FInf n
  | Fin n c e =>
    if 0 <=? e then f64_of_ratio n (c * pow10 e) 1
    else f64_of_ratio n c (pow10 (- e))
  end.

(* The executable conversion: the same, but values that are clearly out of range are decided
   from the number of digits before any power of ten is computed (exponents may be huge).
   With s = ndigits c + e the magnitude lies in [10^(s-1), 10^s). *)
Definition f64_of_dec (d : dec) : f64 :=
  match d with
  | NaN => FNaN
  | Inf n => FInf n
  | Fin n c e =>
    if c <=? 0 then f64_zero n
    else
      let s := ndigits c + e in
      if 310 <? s then FInf n
      else if s <? -400 then f64_zero n
      else if 0 <=? e then f64_of_ratio n (c * pow10 e) 1
      else f64_of_ratio n c (pow10 (- e))
  end.

(* The bit pattern as math.Float64bits shows it: sign, 11-bit biased exponent, 52-bit fraction.
   NaN is Go's canonical NaN 0x7FF8000000000001. *)
Definition f64_bits (f : f64) : Z :=
  match f with
  | FNaN => 9221120237041090561
  | FInf neg => (if neg then p63 else 0) + 2047 * p52
  | FFin neg m e =>
    (if neg then p63 else 0) + (if m <? p52 then 0 else e + 1075) * p52 + m mod p52
  end.
