(* Specification-level model of the decimal numbers used by the evaluator
   (github.com/ericlagergren/decimal, Context128: 34 digits, half-even, GDA operating mode):
   sign, non-negative coefficient, exponent; infinities; NaN.  Arithmetic is "exact result,
   then one rounding to [prec] significant digits" as the General Decimal Arithmetic
   specification prescribes.  The exponent range limits of decimal128 (Emax 6144) are not
   modelled (the properties quantify over exponents within +-30).  Definitions only. *)
From Coq Require Export List ZArith Bool Lia.
Export ListNotations.
Open Scope Z_scope.

Inductive dec :=
| Fin (neg : bool) (c : Z) (e : Z)      (* (-1)^neg * c * 10^e, c >= 0 *)
| Inf (neg : bool)
| NaN.

Definition prec : Z := 34.

Definition pow10 (n : Z) : Z := 10 ^ n.

Fixpoint ndigits_go (fuel : nat) (c acc : Z) : Z :=
  match fuel with
  | O => acc
  | S f => if c <? 10 then acc + 1 else ndigits_go f (c / 10) (acc + 1)
  end.

(* number of decimal digits; 1 for zero *)
Definition ndigits (c : Z) : Z :=
  if c <=? 0 then 1 else ndigits_go (S (Z.to_nat (Z.log2 c))) c 0.

(* round a non-negative coefficient to p digits, half-even; returns coefficient and exponent *)
Definition round_he (p c e : Z) : Z * Z :=
  let n := ndigits c in
  if n <=? p then (c, e)
  else
    let d := n - p in
    let pw := pow10 d in
    let q := c / pw in
    let r := c mod pw in
    let up := (pw <? 2 * r) || ((2 * r =? pw) && Z.odd q) in
    let q' := if up then q + 1 else q in
    if q' =? pow10 p then (pow10 (p - 1), e + d + 1) else (q', e + d).

Definition fin_round (neg : bool) (c e : Z) : dec :=
  let '(c', e') := round_he prec c e in Fin neg c' e'.

Definition is_zero (x : dec) : bool := match x with Fin _ c _ => c =? 0 | _ => false end.
Definition is_nan (x : dec) : bool := match x with NaN => true | _ => false end.
Definition is_finite (x : dec) : bool := match x with Fin _ _ _ => true | _ => false end.
Definition sign_of (x : dec) : bool := match x with Fin n _ _ | Inf n => n | NaN => false end.

(* signed coefficient at a common exponent *)
Definition scoef (neg : bool) (c : Z) : Z := if neg then - c else c.

Definition dec_add (x y : dec) : dec :=
  match x, y with
  | NaN, _ | _, NaN => NaN
  | Inf a, Inf b => if Bool.eqb a b then Inf a else NaN
  | Inf a, _ => Inf a
  | _, Inf b => Inf b
  | Fin n1 c1 e1, Fin n2 c2 e2 =>
    let e := Z.min e1 e2 in
    let s := scoef n1 (c1 * pow10 (e1 - e)) + scoef n2 (c2 * pow10 (e2 - e)) in
    if s =? 0 then Fin (n1 && n2) 0 e        (* exact zero: negative only when both operands are *)
    else fin_round (s <? 0) (Z.abs s) e
  end.

(* GDA minus: 0 - x *)
Definition dec_neg (x : dec) : dec :=
  match x with
  | NaN => NaN
  | Inf n => Inf (negb n)
  | Fin n c e => if c =? 0 then Fin false 0 e else fin_round (negb n) c e
  end.

Definition flip (x : dec) : dec :=
  match x with Fin n c e => Fin (negb n) c e | Inf n => Inf (negb n) | NaN => NaN end.

Definition dec_sub (x y : dec) : dec := dec_add x (flip y).

Definition dec_abs (x : dec) : dec :=
  match x with
  | NaN => NaN
  | Inf _ => Inf false
  | Fin _ c e => fin_round false c e
  end.

Definition dec_mul (x y : dec) : dec :=
  match x, y with
  | NaN, _ | _, NaN => NaN
  | Inf a, Inf b => Inf (xorb a b)
  | Inf a, Fin b c _ => if c =? 0 then NaN else Inf (xorb a b)
  | Fin a c _, Inf b => if c =? 0 then NaN else Inf (xorb a b)
  | Fin n1 c1 e1, Fin n2 c2 e2 => fin_round (xorb n1 n2) (c1 * c2) (e1 + e2)
  end.

Fixpoint strip_zeros_go (fuel : nat) (c e : Z) : Z * Z :=
  match fuel with
  | O => (c, e)
  | S f => if (c mod 10 =? 0) && negb (c =? 0) then strip_zeros_go f (c / 10) (e + 1) else (c, e)
  end.

Definition strip_zeros (c e : Z) : Z * Z := strip_zeros_go (Z.to_nat (ndigits c)) c e.

(* n / d (both positive) times 10^e rounded half-even to p digits *)
Definition round_div (p n d e : Z) : Z * Z :=
  (* choose k with 10^(p-1) <= n*10^k/d < 10^p *)
  let k0 := p - ndigits n + ndigits d in
  let quot k := if 0 <=? k then (n * pow10 k) / d else n / (d * pow10 (- k)) in
  let k := if pow10 p <=? quot k0 then k0 - 1 else if quot k0 <? pow10 (p - 1) then k0 + 1 else k0 in
  let num := if 0 <=? k then n * pow10 k else n in
  let den := if 0 <=? k then d else d * pow10 (- k) in
  let q := num / den in
  let r := num mod den in
  if r =? 0 then strip_zeros q (e - k)
  else
    let up := (den <? 2 * r) || ((2 * r =? den) && Z.odd q) in
    let q' := if up then q + 1 else q in
    if q' =? pow10 p then (pow10 (p - 1), e - k + 1) else (q', e - k).

Definition dec_quo (x y : dec) : dec :=
  match x, y with
  | NaN, _ | _, NaN => NaN
  | Inf a, Inf b => NaN
  | Inf a, Fin b _ _ => Inf (xorb a b)
  | Fin a _ _, Inf b => Fin (xorb a b) 0 (-6176)        (* a zero with the smallest exponent of decimal128 (Etiny) *)
  | Fin n1 c1 e1, Fin n2 c2 e2 =>
    if c2 =? 0 then (if c1 =? 0 then NaN else Inf (xorb n1 n2))
    else if c1 =? 0 then Fin (xorb n1 n2) 0 (e1 - e2)
    else let '(c, e) := round_div prec c1 c2 (e1 - e2) in Fin (xorb n1 n2) c e
  end.

(* remainder of truncated division, sign of the dividend; NaN ("division impossible") when the
   integer quotient needs more than [prec] digits *)
Definition dec_rem (x y : dec) : dec :=
  match x, y with
  | NaN, _ | _, NaN => NaN
  | Inf _, _ => NaN
  | Fin n c e, Inf _ => fin_round n c e
  | Fin n1 c1 e1, Fin n2 c2 e2 =>
    if c2 =? 0 then NaN
    else
      let e := Z.min e1 e2 in
      let a := c1 * pow10 (e1 - e) in
      let b := c2 * pow10 (e2 - e) in
      let q := a / b in
      if prec <? (if q =? 0 then 0 else ndigits q) then NaN
      else
        let r := a mod b in
        if r =? 0 then Fin n1 0 e else fin_round n1 r e
  end.

(* Cmp: -1, 0, 1; 0 when an operand is NaN (the library's behaviour) *)
Definition dec_cmp (x y : dec) : Z :=
  match x, y with
  | NaN, _ | _, NaN => 0
  | Inf a, Inf b => if Bool.eqb a b then 0 else if a then -1 else 1
  | Inf a, _ => if a then -1 else 1
  | _, Inf b => if b then 1 else -1
  | Fin n1 c1 e1, Fin n2 c2 e2 =>
    let e := Z.min e1 e2 in
    let a := scoef n1 (c1 * pow10 (e1 - e)) in
    let b := scoef n2 (c2 * pow10 (e2 - e)) in
    if a <? b then -1 else if a =? b then 0 else 1
  end.

(* ---------- strings ---------- *)

Definition is_dig (b : Z) : bool := (48 <=? b) && (b <=? 57).

(* digits with at most one '.', up to 'e'/'E' or the end; returns coefficient, number of digits
   after the point, rest; None on a syntax error *)
Fixpoint scan_mant (s : list Z) (c : Z) (dot : bool) (frac : Z) : option (Z * Z * list Z) :=
  match s with
  | [] => Some (c, frac, [])
  | b :: t =>
    if is_dig b then scan_mant t (c * 10 + (b - 48)) dot (if dot then frac + 1 else frac)
    else if b =? 46 then (if dot then None else scan_mant t c true frac)
    else if (b =? 101) || (b =? 69) then Some (c, frac, s)
    else None
  end.

Fixpoint scan_digits (s : list Z) (acc : Z) : option Z :=
  match s with
  | [] => Some acc
  | b :: t => if is_dig b then scan_digits t (acc * 10 + (b - 48)) else None
  end.

Definition lower (b : Z) : Z := if (65 <=? b) && (b <=? 90) then b + 32 else b.

Fixpoint bytes_eq (a b : list Z) : bool :=
  match a, b with
  | [], [] => true
  | x :: a', y :: b' => (x =? y) && bytes_eq a' b'
  | _, _ => false
  end.

(* Big.SetString as used by the evaluator (a failed or invalid conversion is NaN).  The library also reads
   "infinity" followed by ANY further text as an infinity; the evaluator accepts an infinity only for exactly
   inf / infinity (isInfinityText), which is what this definition gives - see num_of_text below. *)
Definition dec_of_string (s : list Z) : dec :=
  let '(neg, s1) :=
    match s with
    | 43 :: t => (false, t)
    | 45 :: t => (true, t)
    | _ => (false, s)
    end in
  match s1 with
  | [] => NaN
  | b :: _ =>
    if is_dig b || (b =? 46) then
      match scan_mant s1 0 false 0 with
      | None => NaN
      | Some (c, frac, rest) =>
        match rest with
        | [] => Fin neg c (- frac)
        | _ :: r1 =>
          let '(eneg, r2) :=
            match r1 with
            | 43 :: t => (false, t)
            | 45 :: t => (true, t)
            | _ => (false, r1)
            end in
          match scan_digits r2 0 with
          | None => NaN
          | Some ex => Fin neg c (- frac + (if eneg then - ex else ex))
          end
        end
      end
    else
      let l := map lower s1 in
      if bytes_eq l [105; 110; 102] || bytes_eq l [105; 110; 102; 105; 110; 105; 116; 121] then Inf neg
      else NaN
  end.

(* the evaluator's own check on top of SetString (isDecimalText): an optional sign, digits with an optional point,
   at least one digit before the exponent, and an exponent - if there is an 'e' - with at least one digit.
   SetString alone also reads "." as 0 and "1e" as 1. *)
Fixpoint skip_digits (s : list Z) : nat * list Z :=
  match s with
  | b :: t => if is_dig b then let '(n, r) := skip_digits t in (S n, r) else (O, s)
  | [] => (O, [])
  end.

Definition skip_sign (s : list Z) : list Z :=
  match s with
  | 43 :: t => t
  | 45 :: t => t
  | _ => s
  end.

Definition is_decimal_text (s : list Z) : bool :=
  let '(n1, r1) := skip_digits (skip_sign s) in
  let '(n2, r2) := match r1 with 46 :: t => skip_digits t | _ => (O, r1) end in
  match (n1 + n2)%nat with
  | O => false
  | S _ =>
    match r2 with
    | [] => true
    | e :: r3 =>
      if (e =? 101) || (e =? 69) then
        let '(n3, r5) := skip_digits (skip_sign r3) in
        match n3, r5 with
        | S _, [] => true
        | _, _ => false
        end
      else false
    end
  end.

(* convToNumber on a string *)
Definition num_of_text (s : list Z) : dec :=
  match dec_of_string s with
  | Fin n c e => if is_decimal_text s then Fin n c e else NaN
  | d => d
  end.

Fixpoint digits_of_go (fuel : nat) (c : Z) (acc : list Z) : list Z :=
  match fuel with
  | O => acc
  | S f => if c <? 10 then (48 + c) :: acc else digits_of_go f (c / 10) ((48 + c mod 10) :: acc)
  end.

Definition digits_of (c : Z) : list Z :=
  if c <=? 0 then [48] else digits_of_go (S (Z.to_nat (Z.log2 c))) c [].

Definition zeros (n : Z) : list Z := repeat 48 (Z.to_nat n).

(* GDA to-scientific-string *)
Definition dec_to_string (x : dec) : list Z :=
  match x with
  | NaN => [78; 97; 78]
  | Inf n => (if n then [45] else []) ++ [73; 110; 102; 105; 110; 105; 116; 121]
  | Fin n c e =>
    let ds := digits_of c in
    let nd := Z.of_nat (length ds) in
    let adj := e + nd - 1 in
    let body :=
      if (e <=? 0) && (-6 <=? adj) then
        if e =? 0 then ds
        else if 0 <? nd + e then firstn (Z.to_nat (nd + e)) ds ++ [46] ++ skipn (Z.to_nat (nd + e)) ds
        else [48; 46] ++ zeros (- (nd + e)) ++ ds
      else
        let mant := match ds with
                    | d :: ((_ :: _) as tl) => d :: 46 :: tl
                    | _ => ds
                    end in
        mant ++ [69] ++ (if adj <? 0 then [45] else [43]) ++ digits_of (Z.abs adj) in
    (if n then [45] else []) ++ body
  end.

(* Int64(): truncation toward zero; None when not finite or outside the int64 range *)
Definition dec_to_int (x : dec) : option Z :=
  match x with
  | Fin n c e =>
    let m := if 0 <=? e then c * pow10 e else c / pow10 (- e) in
    let v := scoef n m in
    if (-9223372036854775808 <=? v) && (v <=? 9223372036854775807) then Some v else None
  | _ => None
  end.

Definition dec_of_Z (v : Z) : dec := Fin (v <? 0) (Z.abs v) 0.

Definition dec_zero : dec := Fin false 0 0.
Definition dec_one : dec := Fin false 1 0.
