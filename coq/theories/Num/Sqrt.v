(* Square root of a decimal, correctly rounded (half-even) to p significant digits.
   Specification-level model of Context.Sqrt of github.com/ericlagergren/decimal as the
   evaluator uses it (a 16-digit context): "exact root, then one rounding", computed with
   integer arithmetic only (Z.sqrt on a coefficient scaled by an even power of ten, one sticky
   digit for an inexact floor, then the half-even rounding round_he of Num/Dec.v).
   The result of a positive operand always carries exactly p digits (no trailing-zero removal;
   [dec_reduce] is the library's Reduce for callers that compare representations).
   Definitions only; the facts are in Proofs/SqrtFacts.v. *)
From Formula Require Export Num.Dec.
Open Scope Z_scope.

(* half the even number of digits to append so that a coefficient of n1 digits gets at least
   2p + 2 digits *)
Definition sqrt_shift (p n1 : Z) : Z := Z.max 0 ((2 * p + 3 - n1) / 2).

(* c > 0: coefficient and exponent of sqrt (c * 10^e) rounded half-even to p digits *)
Definition sqrt_pos (p c e : Z) : Z * Z :=
  let h := e / 2 in                                  (* floor: e = 2h or e = 2h + 1 *)
  let c1 := if Z.odd e then c * 10 else c in         (* c * 10^e = c1 * 10^(2h) *)
  let k := sqrt_shift p (ndigits c1) in
  let m := c1 * pow10 (2 * k) in                     (* at least 2p + 2 digits *)
  let s := Z.sqrt m in                               (* floor; at least p + 1 digits *)
  let sticky := if s * s =? m then 0 else 1 in       (* inexact floor: strictly above s *)
  round_he p (s * 10 + sticky) (h - k - 1).

Definition dec_sqrt (p : Z) (d : dec) : dec :=
  match d with
  | NaN => NaN
  | Inf false => Inf false
  | Inf true => NaN
  | Fin n c e =>
    if c =? 0 then Fin n 0 (e / 2)
    else if n || (c <? 0) then NaN
    else let '(c', e') := sqrt_pos p c e in Fin false c' e'
  end.

Definition dec_sqrt16 : dec -> dec := dec_sqrt 16.

(* the library's Reduce: trailing zeros of the coefficient moved into the exponent (same value) *)
Definition dec_reduce (d : dec) : dec :=
  match d with
  | Fin n c e => if c =? 0 then Fin n 0 0 else let '(c', e') := strip_zeros c e in Fin n c' e'
  | _ => d
  end.
