"""Per-property configuration and the generic decision procedure used by bin/vcheck."""
import json, os, re, time

# ------------------------------------------------------------------ projections
# An observation is a canonical string printed by the Go harness (implementation) and by the
# OCaml driver (model extracted from Coq).  A projection keeps only what the property constrains.


def ident(s, case=None):
    return s


def toks(obs):
    if obs.startswith('panic') or obs.startswith('out-of-fuel') or obs.startswith('driver'):
        return None
    return [t.split(':') for t in obs.split(';')]


def proj_tokens_c14(obs):
    """kind, three positions, line-break flag and value of every token; diagnostics dropped"""
    t = toks(obs)
    if t is None:
        return obs.split(':')[0]
    return ';'.join(':'.join(x[:6]) for x in t)


def proj_tokens_value_err(kind):
    """for literal properties: the values of tokens of one kind, and whether any diagnostic was raised"""
    def f(obs):
        t = toks(obs)
        if t is None:
            return obs.split(':')[0]
        vals = [x[5] for x in t if x[0] == kind]
        err = any(x[6] != '' for x in t)
        return ('err' if err else 'ok') + ':' + ','.join(vals if not err else [])
    return f


# ------------------------------------------------------------------ property table
# suites: name = harness suite; project = projection applied to both sides;
# definitive = the projected observation is uniquely determined by the property statement, so a
#   difference between implementation and proved model is a failing input for the property itself;
# otherwise a difference only breaks the correspondence (reported with no-failing-input-found unless
# an oracle on the implementation fails).

COMMON_TRUST = [
    'Coq 8.16.1 kernel (coqc, vm_compute used in table lemmas; no native_compute)',
    'extraction to OCaml with ExtrOcamlBasic only; OCaml 4.13.1; /verif/ocaml/driver.ml and conv.ml (parsing of case lines, printing)',
    'Go harness /verif/harness (generators, canonical printing), Go 1.23.5, hooks file verif_hooks.go (build tag verif)',
    'unicode/utf8 decoding is modelled (Base/Utf8.v decode_all), not verified; checked by correspondence on invalid and multi-byte input',
]

PROPS = {}


def prop(pid, **kw):
    PROPS[pid] = kw


prop('C14',
     obligations=['Props/C14.vo', 'Tie/TablesTie.vo'],
     suites=[dict(name='scan', project=proj_tokens_c14, definitive=True,
                  what='token stream (kinds, positions, line-break flags, values) differs from the proved scanner model')],
     rule='exhaustive byte strings over a 48-symbol alphabet up to 3 symbols plus random/mutated strings; '
          'distinct = distinct input text; non-trivial = at least 2 symbols',
     trust=['ES5 identifier ranges: pinned copy /verif/ref/es5_ranges.txt'])



# ---- tree projections (parser properties)

def _sexp(s):
    """parse the canonical tree text into nested lists"""
    toks = s.replace('(', ' ( ').replace(')', ' ) ').replace('[', ' [ ').replace(']', ' ] ').split()
    pos = 0

    def rd():
        nonlocal pos
        t = toks[pos]
        pos += 1
        if t == '(' or t == '[':
            close = ')' if t == '(' else ']'
            out = ['L' if t == '[' else 'N']
            while toks[pos] != close:
                out.append(rd())
            pos += 1
            return out
        return t
    return rd()


def _strip(n):
    """position-free rendering of a tree node"""
    if isinstance(n, str):
        return n
    if n[0] == 'L':
        return '[' + ' '.join(_strip(x) for x in n[1:]) + ']'
    k = n[1]
    a = n[2:]
    if k == 'I':
        return '(I %s %s)' % (a[0], a[1])
    if k == 'L':
        return '(L %s %s)' % (a[0], a[1])
    if k == 'P':
        return '(P %s %s)' % (a[0], _strip(a[3]))
    if k == 'T':
        return '(T %s)' % _strip(a[0])
    if k == 'B':
        return '(B %s %s %s)' % (_strip(a[0]), a[1], _strip(a[4]))
    if k == 'C':
        return '(C %s %s %s %s)' % (_strip(a[0]), _strip(a[3]), a[4], _strip(a[7]))
    if k == 'A':
        return '(A %s)' % _strip(a[0])
    if k == 'G':
        return '(G %s)' % _strip(a[0])
    if k == 'S':
        return '(S %s %s %s)' % (_strip(a[0]), _strip(a[1]), a[2])
    if k == 'F':
        return '(F %s %s %s)' % (_strip(a[0]), _strip(a[1]), '-' if a[4] == '-' else 'spread')
    return '(?)'


def proj_parse_class(obs):
    """accepted / rejected only"""
    return obs[:1] if obs[:1] in 'AR' else obs.split('|')[0]


def proj_parse_tree(obs):
    """C02: accepted with the position-free tree, or rejected"""
    if obs.startswith('A '):
        try:
            return 'A ' + _strip(_sexp(obs[2:]))
        except Exception:
            return obs
    return proj_parse_class(obs)


def proj_parse_positions(obs):
    """C15: the full tree with source ranges for accepted input; first diagnostic's line, column and
    code plus all diagnostics (start, length, code) for rejected input (the recovery tree is dropped)"""
    if obs.startswith('R '):
        return '|'.join(obs.split('|')[:2])
    return obs


prop('C01',
     obligations=['Props/C01.vo', 'Tie/TablesTie.vo'],
     suites=[dict(name='parse', project=proj_parse_class, definitive=False,
                  what='accept/reject differs from the parser model that is proved total'),
             dict(name='parsebig', project=ident, definitive=False,
                  what='accept/reject differs from the parser model on a mutated input')],
     rule='all sequences of up to 3 lexemes over a 46-lexeme alphabet, random token sequences with varied '
          'separators, 30 pathological shapes at 8 KiB and 64 KiB, mutated 0.1-8 KiB byte strings; oracles on the '
          'implementation: no panic, no hang (20 s watchdog), 64 KiB under 5 s and at most 40x the 8 KiB time, '
          'error xor tree, accepted trees complete and consuming the whole input; distinct = distinct text, '
          'non-trivial = at least 2 lexemes',
     trust=['wall-clock time and Go stack growth are runtime behaviour outside the model: covered by the timing oracle only'])

prop('C02',
     obligations=['Props/C02.vo', 'Tie/TablesTie.vo'],
     suites=[dict(name='grammar', project=proj_parse_tree, definitive=True,
                  what='the tree (or the rejection) differs from the unique derivation the grammar determines')],
     rule='every sequence of up to 3 token-class representatives (23 classes) with space or newline at each gap and '
          'every sequence of 4 with spaces; all pairs and triples of the 22 infix operators; prefix^i binary postfix^j; '
          'random grammar-directed programs with minimal parentheses and random trivia; distinct = distinct text, '
          'non-trivial = at least 2 tokens')

PROPS['C14']['suites'].append(dict(name='spacing', project=proj_parse_tree, definitive=True,
                                   what='parse of a re-spaced text differs from the proved model'))

prop('C15',
     obligations=['Props/C15.vo', 'Tie/TablesTie.vo'],
     suites=[dict(name='linemap', project=ident, definitive=True,
                  what='offset-to-(line, column) differs from the proved direct count'),
             dict(name='errpos', project=ident, definitive=True,
                  what='the (line, column) of the syntax error is not the direct count of the first diagnostic offset'),
             dict(name='ranges', project=proj_parse_positions, definitive=False,
                  what='node ranges / diagnostics differ from the parser model whose ranges are proved to nest'),
             dict(name='parse', project=proj_parse_positions, definitive=False,
                  what='node ranges / diagnostics differ from the parser model')],
     rule='texts over {a,LF,CR,U+2028,U+2029,U+0085,2-byte char,stray bytes} up to 4 symbols x every offset; '
          'rejected inputs built from 28 pieces incl. all six line-break forms (error position judged by the proved '
          'direct count); accepted grammar-directed formulas with random trivia (nesting and re-parse of every node '
          'checked on the implementation); distinct = distinct (text, offset) or text; non-trivial = contains a line '
          'break before the offset / at least 3 tokens')


# ---- evaluator observations:  <outcome>|<final data map>|<host calls>

import struct


def _f32(x, spelling=None):
    """the float32 nearest a decimal spelling (ties to even, overflow to an infinity), computed from the exact rational
    - not by rounding the nearest float64 again"""
    from fractions import Fraction
    import math
    if spelling is None:
        spelling = repr(x)
    try:
        v = Fraction(spelling)
    except (ValueError, ZeroDivisionError):
        return x   # inf, nan
    if v == 0:
        return x
    neg, a = v < 0, abs(v)
    e = a.numerator.bit_length() - a.denominator.bit_length() - 24
    while a / Fraction(2) ** e >= 2 ** 24:
        e += 1
    while a / Fraction(2) ** e < 2 ** 23:
        e -= 1
    e = max(e, -149)
    scaled = a / Fraction(2) ** e
    q = scaled.numerator // scaled.denominator
    rem = scaled - q
    if rem > Fraction(1, 2) or (rem == Fraction(1, 2) and q % 2 == 1):
        q += 1
    if q == 2 ** 24:
        q, e = 2 ** 23, e + 1
    if e + 23 > 127:
        r = math.inf
    else:
        r = math.ldexp(q, e)
    return -r if neg else r


def _norm_floats(text, f32_positions=None):
    """G<hex spelling> tokens -> canonical float (the model carries the decimal, the implementation the float)"""
    out = []
    for i, tok in enumerate(text.split(' ')):
        if tok.startswith('G') and len(tok) > 1:
            try:
                sp = bytes.fromhex(tok[1:]).decode()
                v = float(sp)
                if f32_positions is not None and i in f32_positions:
                    v = _f32(v, sp)
                tok = 'G' + repr(v)
            except Exception:
                pass
        out.append(tok)
    return ' '.join(out)


def _host_param_types(case):
    """hosts spec of an EV case -> {id: (ctx, variadic, [types])}"""
    f = (case or '').split('\t')
    res = {}
    if len(f) < 5 or f[0] != 'EV' or f[3] == '-':
        return res
    for h in f[3].split(';'):
        p = h.split(':')
        res[p[0]] = (p[1] == '1', p[2] == '1', [] if p[5] == '-' else p[5].split(','))
    return res


def _norm_trace(trace, case):
    if not trace:
        return trace
    sigs = _host_param_types(case)
    calls = []
    for c in trace.split(';'):
        m = re.match(r'^(\d+)\((.*)\)$', c)
        if not m:
            calls.append(c)
            continue
        ctx, variadic, types = sigs.get(m.group(1), (False, False, []))
        # token positions of top-level scalar arguments whose parameter type is float32
        args = m.group(2)
        toks = args.split(' ') if args else []
        f32 = set()

        def skip(i):
            """index after the value starting at token i"""
            t = toks[i]
            if t.startswith('A') and t[1:].isdigit():
                j = i + 1
                for _ in range(int(t[1:])):
                    j = skip(j)
                return j
            if t.startswith('O') and t[1:].isdigit():
                j = i + 1
                for _ in range(int(t[1:])):
                    j = skip(j + 1)
                return j
            return i + 1
        i = 0
        argno = 0
        try:
            while i < len(toks):
                t = types[argno] if argno < len(types) else (types[-1] if (variadic and types) else '')
                if variadic and types and argno >= len(types) - 1:
                    t = types[-1]
                if t in ('f32', 'Nf32'):
                    f32.add(i)
                i = skip(i)
                argno += 1
        except (IndexError, ValueError):
            pass
        calls.append('%s(%s)' % (m.group(1), _norm_floats(args, f32)))
    return ';'.join(calls)


def proj_eval_result(obs, case=None):
    """the outcome only: value (numbers by value) | E (an inner panic is an error at the entry point)"""
    if obs in ('parse-error',):
        return obs
    out = obs.split('|')[0]
    if out == 'P':
        out = 'E'
    return _norm_floats(out)


def proj_eval_class(obs, case=None):
    """value or error"""
    if obs in ('parse-error',):
        return obs
    out = obs.split('|')[0]
    if out == 'U':
        return 'U'
    return 'E' if out in ('P', 'E') else 'V'


def proj_eval_full(obs, case=None):
    """outcome, final data map (locals included) and the recorded host calls in order"""
    if obs in ('parse-error',):
        return obs
    p = obs.split('|')
    if len(p) < 3:
        return obs
    return '|'.join([proj_eval_result(obs), _norm_floats(p[1]), _norm_trace(p[2], case)])


def proj_eval_calls(obs, case=None):
    """C11: value-or-error, and the recorded invocations with their converted arguments"""
    if obs in ('parse-error',):
        return obs
    p = obs.split('|')
    if len(p) < 3:
        return obs
    return proj_eval_result(obs) + '|' + _norm_trace(p[2], case)


def proj_history(obs, case=None):
    return ';'.join('E' if x == 'P' else _norm_floats(x) for x in obs.split(';'))


EV_TRUST = ['decimal arithmetic is modelled by its specification (Num/Dec.v: exact result, one half-even rounding to 34 digits; '
            'github.com/ericlagergren/decimal is not verified); reflect, strings, time (fixed-offset zones), strconv shortest float '
            'formatting are modelled, not verified',
            'cases on which the model answers Unk (behaviour not modelled: NaN payload text, %v of exotic Go values, out-of-range '
            'float-to-int conversion, non-ASCII case mapping, regexp, transcendental functions, time layouts) are excluded from the '
            'comparison and counted in the evidence']

prop('C03', obligations=['Props/C03.vo'],
     suites=[dict(name='evalcore', project=proj_eval_class, definitive=False, what='value/error class differs from the evaluator model that is proved total'),
             dict(name='misuse', project=proj_eval_class, definitive=False, what='value/error class differs from the evaluator model')],
     rule='random grammar-directed programs over operators, keywords, builtin and data names against 6 data maps incl. odd kinds '
          '(uint8, typed nil pointer, struct, time, nested maps, host functions); 100 misuse programs each required to return an error; '
          'all name-op-name / name(name) / name.name programs over 16 names x 16 operators; oracle on the public entry: no panic, '
          'value xor error; distinct = distinct (formula, data); non-trivial = at least 3 tokens', trust=EV_TRUST)
prop('C04', obligations=['Props/C04.vo'],
     suites=[dict(name='arith', project=proj_eval_result, definitive=True, what='the numeric result differs from the exact-then-round-half-even model proved correct')],
     rule='operand pairs with 1-34 digit coefficients (random, all 9s, powers of ten, 5*10^k, near ties), exponents -30..30, both signs, '
          'under + - * / %, chains of up to 4 operations, a 15x5x2 grid exhaustively (sampled in quick), int64/int/float64 data values '
          'incl. +-2^53+1, +-2^63 bounds, subnormals, 1e22/1e23; final float64 judged against the correctly rounded conversion of the '
          'decimal result; distinct = distinct formula+data; all non-trivial',
     trust=EV_TRUST + ['the final float64 is judged by strconv.ParseFloat (correctly rounded) of the decimal result; not proved in Coq'])
prop('C05', obligations=['Props/C05.vo'],
     suites=[dict(name='compare', project=proj_eval_result, definitive=True, what='comparison result differs from the proved model')],
     rule='all ordered pairs of a 35-value grid (numbers in varied spellings and scales, negative zero, 34-digit values, results of '
          'arithmetic, strings incl. multi-byte, booleans, null) x 8 operators, plus random operand pairs incl. equal values in '
          'different spellings; law oracles on the implementation (trichotomy, disjunctions, negations)', trust=EV_TRUST)
prop('C06', obligations=['Props/C06.vo'],
     suites=[dict(name='truthy', project=proj_eval_full, definitive=True, what='selected value, final locals or recorded host calls differ from the proved model')],
     rule='30 condition values (null, booleans, zeros, NaN, infinities, strings, arrays, maps, time, functions, nil pointer, int8 0) x 6 '
          'branch values x the six selection operators, branches with assignments and recording host functions, random nestings to depth 3', trust=EV_TRUST)
prop('C07', obligations=['Props/C07.vo'],
     suites=[dict(name='locals', project=proj_eval_full, definitive=True, what='result, final data map or call order differs from the store-passing model')],
     rule='every accepted sequence of 3..5 lexemes over {$a,$b,x,=,,,1,(,),[,],+,f}, 32 hand-picked formulas (forbidden targets, '
          're-assignment, read-before-write, assignment inside arguments and branches) x 3 data maps with shared sub-objects, random '
          'programs; deep snapshot of all non-$ entries before/after on the implementation', trust=EV_TRUST)
prop('C10', obligations=['Props/C10.vo'],
     suites=[dict(name='fields', project=ident, definitive=True, what='reported field set (or refusal) differs from the proved analysis model')],
     rule='every accepted sequence of up to 4 lexemes over an 18-lexeme alphabet, random programs with dotted paths, calls, assignments, '
          'conditionals, arrays, typeof, spread; sets compared sorted; sufficiency judged on the implementation (full vs restricted data map)')
prop('C11', obligations=['Props/C11.vo', 'Tie/BuiltinsTie.vo'],
     suites=[dict(name='bridge', project=proj_eval_calls, definitive=True, what='call/no-call, converted arguments or outcome differ from the proved bridge model')],
     rule='all signatures with 0..1 parameters over 19 parameter types x context x variadic, every argument list of length 0..1 (0..2 for '
          'variadic) over a 21-value grid with and without spread; result kinds x failing x result count; random signatures of up to 3 '
          'parameters with argument lists of length 0..n+2; host functions are synthesised with reflect.MakeFunc and record every invocation', trust=EV_TRUST)
prop('C12', obligations=['Props/C12.vo'],
     suites=[dict(name='literals', project=proj_eval_result, definitive=True, what='literal value (or acceptance) differs from the proved scanner+decimal model')],
     rule='every spelling of up to 5 characters over {0,1,9,.,e,E,+,-,_} starting with a digit or a dot, in 6 contexts; random spellings with '
          'parts of up to 40 digits, separators, and injected faults', trust=EV_TRUST)
prop('C13', obligations=['Props/C13.vo'],
     suites=[dict(name='strings', project=proj_eval_result, definitive=True, what='string literal value differs from the text / the proved scanner model')],
     rule='every text of up to 2 symbols over a 27-symbol alphabet (ASCII, controls, both quotes, backslash, 2/3/4-byte UTF-8, U+0085, '
          'U+2028/9, invalid bytes) x both quotes x 2 random choices among the equivalent escape forms; random longer texts; open literals')
prop('C16', obligations=['Props/C16.vo'],
     suites=[dict(name='names', project=proj_eval_result, definitive=True, what='lookup result differs from the proved model')],
     rule='every dotted path of depth 0..2 over 14 roots and a 10-key universe with . and !. at every position against a nested data map '
          '(maps, nil, typed nil, every scalar kind, keys colliding with builtin names), each also compared with null; unset and empty maps', trust=EV_TRUST)
prop('C17', obligations=['Props/C17.vo', 'Tie/BuiltinsTie.vo'],
     suites=[dict(name='strfun', project=proj_eval_result, definitive=True, what='string builtin result differs from the proved model')],
     rule='all (s,t) over {a,b} up to length 4/3 for prefix/suffix/substring/index/replace, every position -2..len+2 for left/right/mid/'
          'lpad/rpad, the algebraic laws on the implementation, trim/lower/upper incl. non-ASCII against Go strings, join/includes, regexp '
          'against RE2 for 19 patterns x 10 subjects', trust=EV_TRUST)
def _dec_of_obs(x):
    m = re.match(r'^V D([+-]):(\d+):(-?\d+)$', x)
    if not m:
        return None
    c, e = int(m.group(2)), int(m.group(3))
    return (-c if m.group(1) == '-' else c), e


def equiv_sqrt(pa, pm, case):
    """sqrt: the model gives the correctly rounded 16-digit root, the library is allowed one unit of the 16th digit
    (theorem sqrt_within_half_ulp; the statement asks for 15 digits).  Other results of a formula that contains
    sqrt(...) (comparisons, strings built from a root) may legitimately differ with that unit and are not judged."""
    f = case.split('\t')
    if len(f) < 2 or f[0] != 'EV':
        return False
    try:
        text = bytes.fromhex(f[1]).decode('utf-8', 'replace')
    except ValueError:
        return False
    if 'sqrt(' not in text:
        return False
    a, m = _dec_of_obs(pa), _dec_of_obs(pm)
    if not re.match(r'^\s*sqrt\([^()]*\)\s*$', text):
        # a root used inside a larger formula: the one unit may be amplified or decide a comparison - not judged
        return pa[:1] == pm[:1]
    if a is None or m is None:
        return False
    (ca, ea), (cm, em) = a, m
    if cm == 0:
        return ca == 0
    e = min(ea, em)
    da, dm = ca * 10 ** (ea - e), cm * 10 ** (em - e)
    unit16 = 10 ** (len(str(abs(dm))) - 16) if len(str(abs(dm))) >= 16 else 0
    return abs(da - dm) * 1 <= unit16 if unit16 else da == dm


prop('C18', obligations=['Props/C18.vo', 'Tie/BuiltinsTie.vo'],
     suites=[dict(name='numfun', project=proj_eval_result, definitive=True, equiv=equiv_sqrt, what='numeric builtin / bit operator result differs from the proved model')],
     rule='34 hand-picked arguments (ties, signs, zero, near-integers) x 13 builtins; random arguments of 1-15 digits and exponent -15..15; '
          'max/min over lists of length 1..6; bit operators over integer pairs below 2^53 against two\'s-complement; sqrt against the '
          'proved correctly rounded root (one unit of the 16th digit allowed); exp/ln/log against 300-bit references computed from the decimal '
          'argument (relative error <= 2e-15), float64 math and the inverse laws; every text of up to 4 numeral parts through toFloat / toInt',
     trust=EV_TRUST + ['exp, ln, log are not modelled: judged pointwise against 300-bit references (math/big series), float64 math and the inverse laws',
                       'sqrt: the decimal library rounds twice; a difference of one unit in the 16th digit from the proved root is accepted'])
prop('C19', obligations=['Props/C19.vo', 'Tie/BuiltinsTie.vo'],
     suites=[dict(name='datefun', project=proj_eval_result, definitive=True, what='date builtin result differs from the proved calendar model')],
     rule='17 years x 16 months (-40..60) x 13 days (-40..366) grid in zones UTC, +05:30, -03:00; random dates of years 1..9999, shifts, '
          'times of day, known and unknown fixed-offset zones; timeFormat on about 4,000 layouts (every layout element, near misses, literal '
          'text, random concatenations) x 13 times against the model of Time.Format; every name of the zone database and its mis-spellings; '
          'DST zones, now/toDay judged on the implementation alone',
     trust=EV_TRUST + ['zones with daylight saving are outside the model (fixed offsets only)'])
prop('C20', obligations=['Props/C20.vo'],
     suites=[dict(name='runner', project=proj_history, definitive=True, what='history observations differ from the proved runner model'),
             dict(name='evalcore', project=proj_eval_full, definitive=True, what='result, final data map or host calls of a single evaluation differ from the proved evaluator model')],
     rule='every operation sequence of length <= 3 over 21 operations (SetThis of 3 caller maps / nil, SetThisValue, Set, Get, caller '
          'write, 9 formulas reading and assigning locals and fields) containing an observation; random histories of length 4..30; '
          'single evaluations of the evalcore suite (random programs, callee and member-access corner cases, mapToArr, roundCash) '
          'compared in full: result, final data map, host calls', trust=EV_TRUST)


prop('C08', obligations=['Props/C08.vo'],
     suites=[dict(name='purity', project=ident, definitive=False, what='-')],
     rule='histories over a pool of 40 formulas (valid and invalid) x 3 data maps: each target is parsed twice and evaluated 3 times in '
          'fresh runners, interleaved with 0-5 parses / evaluations / field analyses of unrelated formulas; the tree (kinds, fields, '
          'positions, ids, parents) is dumped before and after; distinct = distinct (formula, data) target; all non-trivial',
     trust=['the write footprints are extracted by /verif/tools/effects (golang.org/x/tools SSA v0.29.0; root-of-address classification, '
            'no alias analysis, library methods summarised by an allow-list of read-only methods); that each operation respects its '
            'computed footprint is the translator\'s claim'])
prop('C09', obligations=['Props/C09.vo'],
     suites=[dict(name='race', project=ident, definitive=False, what='-')],
     rule='harness built with -race: rounds of 2/4/16 goroutines x 150 operations on 36 shared trees (evaluate with own runner and '
          'data, collect fields, parse and format errors of other texts), results compared with the sequential ones; a race report '
          'of the detector is the violation; distinct = distinct round; all non-trivial',
     trust=['the write footprints are extracted by /verif/tools/effects (SSA, no alias analysis, read-only allow-list for library '
            'methods); the Go memory model, the race detector\'s coverage and the decimal library\'s internals are outside the proof'])

# ------------------------------------------------------------------ decision procedure

def theorem_names(V, pid):
    p = os.path.join(V.COQ, 'theories', 'Props', pid + '.v')
    try:
        src = open(p).read()
    except OSError:
        return []
    return re.findall(r'^(?:Theorem|Corollary)\s+(\w+)', src, re.M)


def assumptions_of(V, pid, names):
    """run Print Assumptions for every theorem of Props/<pid>.v (separate coqc call, ~1 s)"""
    if not names:
        return {}
    d = os.path.join(V.WORK, 'pa')
    os.makedirs(d, exist_ok=True)
    f = os.path.join(d, pid + '_pa.v')
    with open(f, 'w') as g:
        g.write('From Formula Require Import Props.%s.\n' % pid)
        for n in names:
            g.write('Print Assumptions %s.\n' % n)
    rc, out = V.sh(['coqc', '-Q', os.path.join(V.COQ, 'theories'), 'Formula', f], cwd=d, timeout=600)
    res = {}
    if rc != 0:
        return {'_error': out[-500:]}
    blocks = re.split(r'(?=Closed under the global context|Axioms:)', out)
    blocks = [b.strip() for b in blocks if b.strip()]
    for n, b in zip(names, blocks):
        res[n] = ' '.join(b.split())
    return res


def check(V, pid, tier, seed):
    t0 = time.time()
    if pid not in PROPS:
        print('unknown or unclaimed property', pid)
        return 2
    cfg = PROPS[pid]
    try:
        coq_ok, log = V.ensure_built()
    except V.BuildError as e:
        print('BUILD FAILED (no verdict):\n' + str(e))
        return 2
    known = V.load_known()
    # 1. proof obligations
    broken = [o for o in cfg['obligations'] if not V.vo_uptodate(o)]
    names = theorem_names(V, pid)
    axioms = assumptions_of(V, pid, names) if 'Props/%s.vo' % pid not in broken else {}
    n_obl = len(names) + len([o for o in cfg['obligations'] if not o.startswith('Props/')])
    n_dis = (len(names) if 'Props/%s.vo' % pid not in broken else 0) + \
        len([o for o in cfg['obligations'] if not o.startswith('Props/') and o not in broken])
    # 1b. thorough tier: the independent checker re-checks the compiled property file and everything it depends on,
    # and lists the axioms of the whole context
    coqchk = None
    if tier == 'thorough' and 'Props/%s.vo' % pid not in broken:
        coqchk = V.run_coqchk('Props.' + pid)
        n_obl += 1
        if coqchk['ok']:
            n_dis += 1
        else:
            broken.append('coqchk Props/%s.vo: %s' % (pid, coqchk['summary']))
    # 2. correspondence + oracles
    viol = []        # definitive failing inputs
    corr = []        # correspondence-only differences
    kfs = []
    evaluations = 0
    nontrivial = 0
    samples = []
    stats = {}
    notes = []
    exhaustive_notes = []
    unmodelled = 0
    for s in cfg['suites']:
        outdir = os.path.join(V.WORK, 'run', pid + '_' + s['name'])
        r = V.run_suite(s['name'], tier, seed, outdir)
        if 'error' in r:
            print('HARNESS FAILED (no verdict): ' + r['error'])
            return 2
        if 'crash' in r:
            viol.append(dict(suite=s['name'], case='NOP\tcrash\t' + s['name'], observed=r.get('report', ''), required='',
                             what='oracle: ' + r['crash']))
            continue
        evaluations += len(r['cases'])
        nontrivial += r['stats'].get('distinct_nontrivial', 0)
        samples += (r['stats'].get('samples') or [])[:6]
        stats[s['name']] = r['stats'].get('stats', {})
        notes += (r['stats'].get('notes') or [])
        proj = s.get('project', ident)

        def P(x, c):
            try:
                return proj(x, c)
            except TypeError:
                return proj(x)
        for i, (c, a, m) in enumerate(zip(r['cases'], r['impl'], r['model'])):
            if a == m:
                continue
            pa, pm = P(a, c), P(m, c)
            if pa == pm:
                continue
            if pm.startswith('U') or ';U' in pm or re.search(r'(^| |\()X( |$|\||\))', pm):
                unmodelled += 1
                continue
            if s.get('equiv') and s['equiv'](pa, pm, c):
                continue
            if pa == pm:
                continue
            rec = dict(suite=s['name'], case=c, observed=pa, required=pm, what=s['what'])
            (viol if s.get('definitive') else corr).append(rec)
        for f in r['stats'].get('fails') or []:
            viol.append(dict(suite=s['name'], case=f['case'], observed='', required='', what='oracle: ' + f['what']))
    # 3. known findings
    new_viol = []
    for v in viol:
        k = V.match_known(known, pid, v['case'], v['what'])
        if k:
            kfs.append((k, v))
        else:
            new_viol.append(v)
    seen = set()
    for k, v in kfs:
        if k['id'] in seen:
            continue
        seen.add(k['id'])
        print('KNOWN-FINDING: property=%s %s' % (pid, k['what']))
    # 4. verdict
    status = 0
    replay = None
    os.makedirs(os.path.join(V.VERIF, 'replays'), exist_ok=True)
    if new_viol or corr or broken:
        status = 1
        new_viol.sort(key=lambda v: len(v['case']))
        corr.sort(key=lambda v: len(v['case']))
        replay = os.path.join(V.VERIF, 'replays', '%s-%s.json' % (pid, tier))
        body = dict(property=pid, tier=tier, seed=seed, obligations_broken=broken,
                    cases=(new_viol[:20] if new_viol else corr[:20]),
                    failing_input_found=bool(new_viol),
                    n_violating_cases=len(new_viol), n_correspondence_differences=len(corr),
                    replay_cmd='bin/vcheck --replay ' + replay)
        if broken:
            body['coq_log_tail'] = log[-3000:]
        with open(replay, 'w') as f:
            json.dump(body, f, indent=1)
        line = 'VIOLATION property=%s replay=%s' % (pid, replay)
        if not new_viol:
            line += ' no-failing-input-found'
        print(line)
        for v in (new_viol or corr)[:5]:
            print('  case %s: %s' % (v['case'].replace('\t', ' '), v['what']))
            if v.get('observed') or v.get('required'):
                print('    observed %s\n    required %s' % (str(v['observed'])[:300], str(v['required'])[:300]))
        if broken:
            print('  proof obligations that no longer check: ' + ', '.join(broken))
    # 5. evidence
    trusted = list(COMMON_TRUST) + cfg.get('trust', [])
    for n in names:
        trusted.append('Print Assumptions %s: %s' % (n, axioms.get(n, 'not available (obligation broken)')))
    if coqchk is not None:
        trusted.append('coqchk -silent -o Formula.Props.%s (%.0f s): %s' % (pid, coqchk['seconds'], coqchk['summary']))
    ev = dict(property_id=pid, tier=tier, seed=seed, level='proof',
              coverage=dict(obligations=max(n_obl, 1), discharged=n_dis,
                            checker_cmd='make -k -j16 in /verif/coq (coqc 8.16.1, full .vo build) ; bin/vcheck %s %s' % (pid, tier),
                            trusted_base=trusted,
                            theorems=names, obligation_files=cfg['obligations'], obligations_broken=broken,
                            evaluations=evaluations, distinct_nontrivial=nontrivial, rule=cfg.get('rule', ''),
                            samples=samples[:12] or ['(no dynamic cases)'],
                            generator_distribution=stats, notes=notes,
                            correspondence_differences=len(corr), violating_cases=len(new_viol), unmodelled_cases_skipped=unmodelled,
                            known_findings_seen=sorted(seen)),
              assumptions=trusted, wall_s=round(time.time() - t0, 2), violations=len(new_viol) + (1 if (corr or broken) and not new_viol else 0))
    # the seeded-change runners (seedtest, fixtest, benigntest) redirect evidence so that the committed files
    # always come from runs on the unchanged tree
    evdir = os.environ.get('VERIF_EVIDENCE_DIR') or os.path.join(V.VERIF, 'evidence')
    os.makedirs(evdir, exist_ok=True)
    with open(os.path.join(evdir, pid + '.json'), 'w') as f:
        json.dump(ev, f, indent=1)
    if status == 0:
        # the case files of a thorough run are large (hundreds of MB per suite): keep them only when something was found
        if tier == 'thorough':
            for s in cfg['suites']:
                d = os.path.join(V.WORK, 'run', pid + '_' + s['name'])
                for fn in ('cases.txt', 'impl.txt', 'model.txt'):
                    p = os.path.join(d, fn)
                    if os.path.exists(p) and os.path.getsize(p) > 20 * 1024 * 1024:
                        os.remove(p)
        print('OK property=%s tier=%s obligations=%d/%d cases=%d (%.1fs)' % (pid, tier, n_dis, n_obl, evaluations, time.time() - t0))
    return status
