package main

import (
	"fmt"
	"strings"

	"github.com/aundis/formula"
)

func init() {
	suites["scan"] = suiteScan
	replays["SC"] = func(c string) string {
		f := strings.Split(c, "\t")
		obs, _ := implScan(unhx(f[1]))
		return obs
	}
}

type tokObs struct {
	kind, ret      int
	start, pos, end int
	nl             bool
	val            string
	diags          []string
}

// implScan runs the real scanner over text and renders the token stream canonically.
// second result: oracle failures found on the implementation alone (C14 tiling etc.)
func implScan(text []byte) (string, []string) {
	var toks []tokObs
	var fails []string
	pan, msg := protect(func() {
		var cur []string
		var s *formula.Scanner
		s = formula.CreateScanner(text, func(m *formula.DiagnosticMessage, pos int, length int) {
			if pos == -1 {
				pos = s.GetTextPos()
			}
			cur = append(cur, fmt.Sprintf("%d/%d/%d", pos, length, m.Code))
		})
		for i := 0; i <= len(text)+1; i++ {
			cur = nil
			ret := s.Scan()
			k := s.GetToken()
			t := tokObs{kind: int(k), ret: int(ret), start: s.GetStartPos(), pos: s.GetTokenPos(), end: s.GetTextPos(),
				nl: s.HasPrecedingLineBreak(), diags: cur}
			if k == formula.SK_NumberLiteral || k == formula.SK_StringLiteral || k.IsIdentifier() {
				t.val = s.GetTokenValue()
			}
			toks = append(toks, t)
			if ret == formula.SK_EndOfFile {
				return
			}
		}
		fails = append(fails, "scanner did not reach end of input within len+2 tokens")
	})
	if pan {
		return "panic:" + hx([]byte(msg)), nil
	}
	var sb strings.Builder
	prevEnd := 0
	for i, t := range toks {
		if i > 0 {
			sb.WriteByte(';')
		}
		nl := 0
		if t.nl {
			nl = 1
		}
		fmt.Fprintf(&sb, "%d:%d:%d:%d:%d:%s:%s", t.kind, t.start, t.pos, t.end, nl, hx([]byte(t.val)), strings.Join(t.diags, ","))
		// C14 oracles on the implementation alone
		if t.ret != t.kind {
			fails = append(fails, fmt.Sprintf("token %d: Scan() returned kind %d but GetToken() is %d", i, t.ret, t.kind))
		}
		if t.start != prevEnd {
			fails = append(fails, fmt.Sprintf("token %d starts at %d but previous ended at %d", i, t.start, prevEnd))
		}
		if !(t.start <= t.pos && t.pos <= t.end) {
			fails = append(fails, fmt.Sprintf("token %d positions out of order %d %d %d", i, t.start, t.pos, t.end))
		}
		if t.kind != int(formula.SK_EndOfFile) && t.end <= t.start {
			fails = append(fails, fmt.Sprintf("token %d does not advance", i))
		}
		prevEnd = t.end
	}
	if len(toks) > 0 && toks[len(toks)-1].end != len(text) {
		fails = append(fails, "last token does not end at end of input")
	}
	return sb.String(), fails
}

var scanAlphabet = []string{
	"a", "x", "e", "E", "_", "$", "0", "1", "9", ".", "+", "-", "!", "=", "<", ">", "&", "|", "?", ":",
	"(", ")", "[", "]", ",", "'", "\"", "\\", " ", "\n", "\r", "u", "n", "#", "~", "^", "%", "*", "/", "t",
	"é", " ", " ", "\xff", "\xc3", "f", "r", "d",
}

func suiteScan(o *Out, thorough bool, seed int64) {
	emit := func(text []byte, nontrivial bool) {
		obs, fails := implScan(text)
		line := "SC\t" + hx(text)
		o.Case(line, obs, nontrivial)
		for _, f := range fails {
			o.Fail(line, f)
		}
	}
	maxLen := 3
	enumSeq(len(scanAlphabet), maxLen, func(idx []int) {
		var text []byte
		for _, i := range idx {
			text = append(text, scanAlphabet[i]...)
		}
		emit(text, len(idx) >= 2)
	})
	o.Notes = append(o.Notes, fmt.Sprintf("exhaustive: all concatenations of up to %d symbols over a %d-symbol alphabet", maxLen, len(scanAlphabet)))
	// identifiers over non-ASCII letters, part-only characters (combining mark, non-ASCII digit, ZWJ) and separators:
	// every sequence of up to 5 symbols (a scanner that remembers anything between characters shows here)
	idAlpha := []string{"\u0628", "\u0661", "\u0301", "\u200d", "é", "a", " ", "+", "1", "\u00a0"}
	enumSeq(len(idAlpha), 5, func(idx []int) {
		if len(idx) < 2 {
			return
		}
		var text []byte
		for _, i := range idx {
			text = append(text, idAlpha[i]...)
		}
		emit(text, true)
	})
	o.Notes = append(o.Notes, "exhaustive: all sequences of 2..5 symbols over {U+0628, U+0661, U+0301, U+200D, e-acute, a, space, +, 1, NBSP}")
	// every white-space and line-break code point of the language (and its neighbours) between, before and after
	// tokens, alone and in runs of two: the scanner's own use of the classes, not just the class functions
	{
		ws := []rune{9, 10, 11, 12, 13, 32, 133, 160, 5760, 6158, 8192, 8193, 8194, 8195, 8196, 8197, 8198, 8199, 8200, 8201, 8202, 8203, 8204, 8232, 8233, 8239, 8287, 8288, 12288, 65279, 65278, 0x1680, 0x180E, 0xFFFE, 0x2060}
		for _, a := range ws {
			for _, tmpl := range []string{"a%sb", "%sa", "a%s", "1%s+%s2", "a%s.b", "f%s(x)", "a%s!.b", "'s'%s'", "[1,%s2]", "%s", "a%s%sb"} {
				emit([]byte(strings.ReplaceAll(tmpl, "%s", string(a))), true)
			}
			for _, b := range ws {
				emit([]byte("a"+string(a)+string(b)+"(b)"), true)
			}
		}
	}
	// every code point THROUGH THE SCANNER (not through the class functions): between two names it must behave as its
	// class says - part of one identifier, a separator, or one unknown token of its own length
	{
		kindsOfText := func(text []byte) []int {
			var ks []int
			s := formula.CreateScanner(text, func(m *formula.DiagnosticMessage, pos int, length int) {})
			for i := 0; i < 8; i++ {
				k := s.Scan()
				ks = append(ks, int(k))
				if k == formula.SK_EndOfFile {
					break
				}
			}
			return ks
		}
		same := func(a, b []int) bool {
			if len(a) != len(b) {
				return false
			}
			for i := range a {
				if a[i] != b[i] {
					return false
				}
			}
			return true
		}
		id, eof, unk := int(formula.SK_Identifier), int(formula.SK_EndOfFile), int(formula.SK_Unknown)
		bad := 0
		for c := rune(128); c <= 0x10FFFF && bad < 20; c++ {
			if c >= 0xD800 && c <= 0xDFFF {
				continue
			}
			mid := kindsOfText([]byte("x" + string(c) + "y"))
			first := kindsOfText([]byte(string(c) + "y"))
			var wantMid, wantFirst []int
			switch {
			case formula.IsIdentifierPart(c):
				wantMid = []int{id, eof}
			case formula.IsWhiteSpace(c) || formula.IsLineBreak(c):
				wantMid = []int{id, id, eof}
			default:
				wantMid = []int{id, unk, id, eof}
			}
			switch {
			case formula.IsIdentifierStart(c):
				wantFirst = []int{id, eof}
			case formula.IsWhiteSpace(c) || formula.IsLineBreak(c):
				wantFirst = []int{id, eof}
			default:
				wantFirst = []int{unk, id, eof}
			}
			if !same(mid, wantMid) || !same(first, wantFirst) {
				bad++
				t := []byte("x" + string(c) + "y")
				emit(t, true)
				emit([]byte(string(c)+"y"), true)
				o.Fail("SC\t"+hx(t), fmt.Sprintf("U+%04X between two names scans as token kinds %v (alone in front: %v), its classes require %v (%v)", c, mid, first, wantMid, wantFirst))
			}
		}
		o.Case("NOP\tscan-all-code-points", "-", true)
	}
	// fixed texts for branches that random symbols reach once in a million: escapes in identifiers, keywords in other
	// letter case or glued to a name, 3- and 4-byte characters outside strings, ill-formed UTF-8 of every kind, the
	// diagnostics of malformed numbers and escapes, a backslash in front of a raw line break
	for _, t := range []string{"a\\u0062", "a\\u0062c", "a\\u0062 + 1", "a\\u00_62", "\\u0061", "1\\u0061", "a\\u0020b", "a\\u006", "a\\uD83D", "a\\u{62}", "a\\", "a\\x41",
		"True", "NULL", "This.a", "Typeof a", "typeOf", "CTX", "False", "nullx", "xnull", "null1", "$null", "_this", "typeofa", "typeof1", "truefalse", "th\u0131s", "true1", "1true", "nulL",
		"\U0001F600", "a\U0001F600b", "a + \U0001D44E", "'s'\U00010000", "1\U0010FFFF", "a.\U0001F600", "\u4e2d", "\u4e2d\u6587 + 1", "a.\u540d", "\uac00", "\u3042x", "\uff21", "\u2118", "\u212e", "x\u0300", "\u0300x", "a\u200cb", "\ufeffa", "a\ufffeb", "\ud7ff", "\ue000",
		"a\xed\xa0\x80b", "\xc0\xaf", "\xf4\x90\x80\x80", "a\xe2\x80", "a\xf0\x9f\x98", "x\xc2", "'\xed\xa0\x80'", "'\xf0\x9f\x98'", "\xf8\x88\x80\x80\x80", "\xe0\x80\x80", "\xef\xbf\xbe", "\xc2\xc2\x85",
		"1_", "1__2", "1___2", "1._5", "1.5_", "1e_5", "1_.5", "1_e5", "1e", "1e+", "0x", "0xg", "'\\xg'", "1\u00e9", "12_\n", "1_a", "1e5x", "0x1g", "0X1F", "1..2", "1.e5", "1e5.5", ".5.5", "1__", "_1", "1_000_", "0_1", "00", "01.5",
		"'a\\\r\nb'", "'a\\\rx\nb'", "'a\\\rb'", "'a\\\r\r\nb'", "'a\\\n\rb'", "\"\\\r\n\"", "'a\\\u2028b'", "'a\\\u0085b'", "'a\\\u2029b'", "'a\\\nb'",
		"'\\ud83d\\ude00'", "'\\ud800'", "'\\udfff'", "\"\\uD83Dx\"", "'\\ud7ff\\ue000'", "'\\x4'", "'\\x4g'", "'\\u12'", "'\\u004'", "'\\u12 '", "\"\\xa\"", "'\\xg'", "'\\u'", "'\\u{41}'", "'\\x'", "'\\", "'\\0'", "'\\08'", "'\\q'"} {
		emit([]byte(t), true)
	}
	r := newRand(seed, "scan")
	n := 20000
	if thorough {
		n = 600000
	}
	for i := 0; i < n; i++ {
		l := 4 + r.Intn(12)
		var text []byte
		for j := 0; j < l; j++ {
			switch r.Intn(10) {
			case 0:
				text = append(text, byte(r.Intn(256)))
			default:
				text = append(text, scanAlphabet[r.Intn(len(scanAlphabet))]...)
			}
		}
		emit(text, true)
	}
}
