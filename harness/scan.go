package main

import (
	"fmt"
	"strings"

	"github.com/aundis/formula"
)

func init() {
	suites["scan"] = suiteScan
	replays["SC"] = func(c string) string {
		f := strings.Split(c, "\t")
		obs, _ := implScan(unhx(f[1]))
		return obs
	}
}

type tokObs struct {
	kind, ret      int
	start, pos, end int
	nl             bool
	val            string
	diags          []string
}

// implScan runs the real scanner over text and renders the token stream canonically.
// second result: oracle failures found on the implementation alone (C14 tiling etc.)
func implScan(text []byte) (string, []string) {
	var toks []tokObs
	var fails []string
	pan, msg := protect(func() {
		var cur []string
		var s *formula.Scanner
		s = formula.CreateScanner(text, func(m *formula.DiagnosticMessage, pos int, length int) {
			if pos == -1 {
				pos = s.GetTextPos()
			}
			cur = append(cur, fmt.Sprintf("%d/%d/%d", pos, length, m.Code))
		})
		for i := 0; i <= len(text)+1; i++ {
			cur = nil
			ret := s.Scan()
			k := s.GetToken()
			t := tokObs{kind: int(k), ret: int(ret), start: s.GetStartPos(), pos: s.GetTokenPos(), end: s.GetTextPos(),
				nl: s.HasPrecedingLineBreak(), diags: cur}
			if k == formula.SK_NumberLiteral || k == formula.SK_StringLiteral || k.IsIdentifier() {
				t.val = s.GetTokenValue()
			}
			toks = append(toks, t)
			if ret == formula.SK_EndOfFile {
				return
			}
		}
		fails = append(fails, "scanner did not reach end of input within len+2 tokens")
	})
	if pan {
		return "panic:" + hx([]byte(msg)), nil
	}
	var sb strings.Builder
	prevEnd := 0
	for i, t := range toks {
		if i > 0 {
			sb.WriteByte(';')
		}
		nl := 0
		if t.nl {
			nl = 1
		}
		fmt.Fprintf(&sb, "%d:%d:%d:%d:%d:%s:%s", t.kind, t.start, t.pos, t.end, nl, hx([]byte(t.val)), strings.Join(t.diags, ","))
		// C14 oracles on the implementation alone
		if t.ret != t.kind {
			fails = append(fails, fmt.Sprintf("token %d: Scan() returned kind %d but GetToken() is %d", i, t.ret, t.kind))
		}
		if t.start != prevEnd {
			fails = append(fails, fmt.Sprintf("token %d starts at %d but previous ended at %d", i, t.start, prevEnd))
		}
		if !(t.start <= t.pos && t.pos <= t.end) {
			fails = append(fails, fmt.Sprintf("token %d positions out of order %d %d %d", i, t.start, t.pos, t.end))
		}
		if t.kind != int(formula.SK_EndOfFile) && t.end <= t.start {
			fails = append(fails, fmt.Sprintf("token %d does not advance", i))
		}
		prevEnd = t.end
	}
	if len(toks) > 0 && toks[len(toks)-1].end != len(text) {
		fails = append(fails, "last token does not end at end of input")
	}
	return sb.String(), fails
}

var scanAlphabet = []string{
	"a", "x", "e", "E", "_", "$", "0", "1", "9", ".", "+", "-", "!", "=", "<", ">", "&", "|", "?", ":",
	"(", ")", "[", "]", ",", "'", "\"", "\\", " ", "\n", "\r", "u", "n", "#", "~", "^", "%", "*", "/", "t",
	"é", " ", " ", "\xff", "\xc3", "f", "r", "d",
}

func suiteScan(o *Out, thorough bool, seed int64) {
	emit := func(text []byte, nontrivial bool) {
		obs, fails := implScan(text)
		line := "SC\t" + hx(text)
		o.Case(line, obs, nontrivial)
		for _, f := range fails {
			o.Fail(line, f)
		}
	}
	maxLen := 3
	enumSeq(len(scanAlphabet), maxLen, func(idx []int) {
		var text []byte
		for _, i := range idx {
			text = append(text, scanAlphabet[i]...)
		}
		emit(text, len(idx) >= 2)
	})
	o.Notes = append(o.Notes, fmt.Sprintf("exhaustive: all concatenations of up to %d symbols over a %d-symbol alphabet", maxLen, len(scanAlphabet)))
	// identifiers over non-ASCII letters, part-only characters (combining mark, non-ASCII digit, ZWJ) and separators:
	// every sequence of up to 5 symbols (a scanner that remembers anything between characters shows here)
	idAlpha := []string{"\u0628", "\u0661", "\u0301", "\u200d", "é", "a", " ", "+", "1", "\u00a0"}
	enumSeq(len(idAlpha), 5, func(idx []int) {
		if len(idx) < 2 {
			return
		}
		var text []byte
		for _, i := range idx {
			text = append(text, idAlpha[i]...)
		}
		emit(text, true)
	})
	o.Notes = append(o.Notes, "exhaustive: all sequences of 2..5 symbols over {U+0628, U+0661, U+0301, U+200D, e-acute, a, space, +, 1, NBSP}")
	// every white-space and line-break code point of the language (and its neighbours) between, before and after
	// tokens, alone and in runs of two: the scanner's own use of the classes, not just the class functions
	{
		ws := []rune{9, 10, 11, 12, 13, 32, 133, 160, 5760, 6158, 8192, 8193, 8194, 8195, 8196, 8197, 8198, 8199, 8200, 8201, 8202, 8203, 8204, 8232, 8233, 8239, 8287, 8288, 12288, 65279, 65278, 0x1680, 0x180E, 0xFFFE, 0x2060}
		for _, a := range ws {
			for _, tmpl := range []string{"a%sb", "%sa", "a%s", "1%s+%s2", "a%s.b", "f%s(x)", "a%s!.b", "'s'%s'", "[1,%s2]", "%s", "a%s%sb"} {
				emit([]byte(strings.ReplaceAll(tmpl, "%s", string(a))), true)
			}
			for _, b := range ws {
				emit([]byte("a"+string(a)+string(b)+"(b)"), true)
			}
		}
	}
	r := newRand(seed, "scan")
	n := 20000
	if thorough {
		n = 600000
	}
	for i := 0; i < n; i++ {
		l := 4 + r.Intn(12)
		var text []byte
		for j := 0; j < l; j++ {
			switch r.Intn(10) {
			case 0:
				text = append(text, byte(r.Intn(256)))
			default:
				text = append(text, scanAlphabet[r.Intn(len(scanAlphabet))]...)
			}
		}
		emit(text, true)
	}
}
