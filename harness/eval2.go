package main

import (
	"sync"
	"os/exec"
	"os"
	"time"
	"context"
	"fmt"
	"math"
	"math/big"
	"math/rand"
	"sort"
	"strconv"
	"strings"

	"github.com/aundis/formula"
	"github.com/ericlagergren/decimal"
)

func init() {
	suites["arith"] = suiteArith
	suites["compare"] = suiteCompare
	suites["truthy"] = suiteTruthy
	suites["locals"] = suiteLocals
	suites["misuse"] = suiteMisuse
	suites["fields"] = suiteFields
	suites["bridge"] = suiteBridge
	suites["names"] = suiteNames
	suites["literals"] = suiteLiterals
	suites["strings"] = suiteStrings
	replays["FD"] = func(c string) string {
		f := strings.Split(c, "\t")
		return implFields(string(unhx(f[1])))
	}
}

func emitEval(o *Out, text string, off int, hosts, data string, nontrivial bool) string {
	obs, fails := implEval(text, off, hosts, data)
	line := fmt.Sprintf("EV\t%s\t%d\t%s\t%s", hx([]byte(text)), off, hosts, data)
	o.Case(line, obs, nontrivial)
	if obs == "parse-error" {
		o.Stat("parse-error")
	} else {
		o.Stat("outcome-" + obs[:1])
	}
	for _, f := range fails {
		o.Fail(line, f)
	}
	// the typed twin: the same case with every array / nested map of the data as a typed slice / typed map
	// (not for == / !=: Go's equality of two slices or maps depends on whether their types are identical - a
	// run-time panic - or different - false -, which the model's arrays do not record)
	// Only in the suites whose formulas read members of, or pass on, such values (names, bridge): operators applied
	// to an array or map itself may legitimately tell []interface{} from []int (the code switches on the exact type)
	if data != "-" && twinsEnabled && !inTwin && !strings.Contains(text, "==") && !strings.Contains(text, "!=") &&
		(strings.Contains(data, " A") || strings.Contains(data[1:], " O")) {
		twinCount++
		if twinCount%3 == 0 {
			tw := typedTwin(data)
			if tw != data {
				inTwin = true
				emitEval(o, text, off, hosts, tw, false)
				inTwin = false
			}
		}
	}
	return obs
}

var (
	inTwin       bool
	twinCount    int
	twinsEnabled bool
)

// typedTwin rewrites A<n> to Z<n> everywhere and O<n> to Y<n> below the top level
func typedTwin(data string) string {
	toks := strings.Split(data, " ")
	for i, t := range toks {
		if len(t) >= 2 && t[1] >= '0' && t[1] <= '9' {
			if t[0] == 'A' {
				toks[i] = "Z" + t[1:]
			} else if t[0] == 'O' && i > 0 {
				toks[i] = "Y" + t[1:]
			}
		}
	}
	return strings.Join(toks, " ")
}

func wmap(kv ...string) string {
	type e struct{ k, v string }
	var es []e
	for i := 0; i+1 < len(kv); i += 2 {
		es = append(es, e{kv[i], kv[i+1]})
	}
	sort.Slice(es, func(i, j int) bool { return es[i].k < es[j].k })
	var sb strings.Builder
	fmt.Fprintf(&sb, "O%d", len(es))
	for _, x := range es {
		sb.WriteString(" S" + hx([]byte(x.k)) + " " + x.v)
	}
	return sb.String()
}

func ws(s string) string { return "S" + hx([]byte(s)) }

func minInt(a, b int) int {
	if a < b {
		return a
	}
	return b
}

func tf(b bool) string {
	if b {
		return "T"
	}
	return "F"
}

// rowValues: wire values of every kind a caller puts in a row
var rowValues = []string{"D+:10:0", "D+:9:0", "D+:2:0", "D-:5:-1", "D+:0:0", "D+:100:-1", "D+:1234567890123456789012345678901234:3", "Dnan", "Dinf",
	"S" + "3130", "S" + "39", "S" + "32", "S" + "61", "S" + "", "S" + "41", "N", "T", "F", "P", "Ps", "Pm", "Pt", "Pf", "Pd", "g302e3130303030303030313439303131363132", "G4e614e", "G496e66", "G2d496e66", "G2d30", "Ii:10", "Ii:9", "Ii8:-3", "G322e35", "A2 Ii:1 Ii:2", "A0"}

// rowsBlock evaluates each formula (over the variables a and b) on many rows of differing kinds, the same parsed
// tree serving all rows of a formula (see implEvalInner), rows in a shuffled order
func rowsBlock(o *Out, r *rand.Rand, formulas []string, rows int) {
	for _, f := range formulas {
		for i := 0; i < rows; i++ {
			a, b := rowValues[r.Intn(len(rowValues))], rowValues[r.Intn(len(rowValues))]
			if r.Intn(3) == 0 { // same kind on both sides
				k := a[0]
				for j := 0; j < 20 && b[0] != k; j++ {
					b = rowValues[r.Intn(len(rowValues))]
				}
			}
			emitEval(o, f, 0, "-", wmap("a", a, "b", b), true)
		}
	}
}

// ---------- C04 ----------

func randCoef(r *rand.Rand, digits int) string {
	switch r.Intn(6) {
	case 0:
		return strings.Repeat("9", digits)
	case 1:
		return "1" + strings.Repeat("0", digits-1)
	case 2:
		return "5" + strings.Repeat("0", digits-1)
	case 3: // near a tie at 34 digits
		if digits >= 3 {
			return strings.Repeat("4", digits-2) + "5" + fmt.Sprint(r.Intn(2))
		}
	}
	var sb strings.Builder
	sb.WriteByte(byte('1' + r.Intn(9)))
	for i := 1; i < digits; i++ {
		sb.WriteByte(byte('0' + r.Intn(10)))
	}
	return sb.String()
}

func randOperand(r *rand.Rand) string {
	d := 1 + r.Intn(34)
	if r.Intn(3) == 0 {
		d = 1 + r.Intn(4)
	}
	s := randCoef(r, d)
	e := r.Intn(61) - 30
	if r.Intn(3) == 0 {
		e = r.Intn(5) - 2
	}
	if r.Intn(12) == 0 { // beyond the range of float64, well inside decimal128
		e = []int{-400, -345, -324, -323, -309, -308, -307, 290, 307, 308, 309, 400}[r.Intn(12)]
	}
	lit := s
	if e != 0 {
		lit = fmt.Sprintf("%se%d", s, e)
	}
	if r.Intn(2) == 0 {
		return "(-" + lit + ")"
	}
	return lit
}

// ulpDiff: distance in units in the last place between two finite float64
func ulpDiff(a, b float64) uint64 {
	ia, ib := int64(math.Float64bits(a)), int64(math.Float64bits(b))
	if ia < 0 {
		ia = math.MinInt64 - ia
	}
	if ib < 0 {
		ib = math.MinInt64 - ib
	}
	if ia > ib {
		return uint64(ia - ib)
	}
	return uint64(ib - ia)
}

// floatExitOracle: the float64 handed back by Resolve against the decimal result
func floatExitOracle(o *Out, line string, text string, data string) {
	src, err := formula.ParseSourceCode([]byte(text))
	if err != nil {
		return
	}
	mk := func() *formula.Runner {
		r := formula.NewRunner()
		if data != "-" {
			m, _ := decodeVal(data, nil).(map[string]interface{})
			r.SetThis(m)
		}
		return r
	}
	var raw, pub interface{}
	var e1, e2 error
	pan, _ := protect(func() {
		raw, e1 = mk().VerifResolveRaw(context.Background(), src.Expression)
		pub, e2 = mk().Resolve(context.Background(), src.Expression)
	})
	if pan || e1 != nil || e2 != nil {
		return
	}
	d, ok := raw.(*decimal.Big)
	f, ok2 := pub.(float64)
	if ok && ok2 {
		// the bit pattern handed back, against the proved conversion of the model's decimal result
		o.Case(fmt.Sprintf("EF\t%s\t0\t-\t%s", hx([]byte(text)), data), fmt.Sprintf("F%016x", math.Float64bits(f)), true)
	}
	if ok && ok2 && d.IsInf(0) {
		if !math.IsInf(f, 1) && !d.Signbit() || !math.IsInf(f, -1) && d.Signbit() {
			o.Fail(line, fmt.Sprintf("an infinite decimal result %s was handed back as %v", d.String(), f))
		}
		return
	}
	if !ok || !ok2 || !d.IsFinite() {
		return
	}
	want, perr := strconv.ParseFloat(d.String(), 64)
	if perr != nil {
		return
	}
	canon := decCanon(d) // D<sign>:<coef>:<exp>
	p := strings.Split(canon[1:], ":")
	exp, _ := strconv.Atoi(p[2])
	inDomain := len(p[1]) <= 15 && exp >= -22 && exp <= 22
	if inDomain {
		if f != want {
			o.Fail(line, fmt.Sprintf("final float64 %v is not the one nearest the decimal result %s (%v)", f, d.String(), want))
		}
	} else if !math.IsInf(want, 0) && ulpDiff(f, want) > 4 {
		o.Fail(line, fmt.Sprintf("final float64 %v is more than 4 ulp from the decimal result %s (%v)", f, d.String(), want))
	}
}

func suiteArith(o *Out, thorough bool, seed int64) {
	r := newRand(seed, "arith")
	ops := []string{"+", "-", "*", "/", "%"}
	// exhaustive small grid: coefficients 0..30 step, exponents -2..2, both signs
	coefs := []string{"0", "1", "2", "3", "5", "7", "9", "10", "15", "25", "99", "100", "125", "333", "999"}
	exps := []int{-2, -1, 0, 1, 2}
	lit := func(c string, e int, neg bool) string {
		s := c
		if e != 0 {
			s = fmt.Sprintf("%se%d", c, e)
		}
		if neg {
			return "(-" + s + ")"
		}
		return s
	}
	step := 1
	if !thorough {
		step = 7
	}
	idx := 0
	for _, c1 := range coefs {
		for _, e1 := range exps {
			for _, n1 := range []bool{false, true} {
				for _, c2 := range coefs {
					for _, e2 := range exps {
						for _, n2 := range []bool{false, true} {
							idx++
							if idx%step != 0 {
								continue
							}
							for _, op := range ops {
								t := lit(c1, e1, n1) + " " + op + " " + lit(c2, e2, n2)
								emitEval(o, t, 0, "-", "-", true)
							}
						}
					}
				}
			}
		}
	}
	o.Notes = append(o.Notes, fmt.Sprintf("grid: 15 coefficients x exponents -2..2 x both signs, all ordered pairs (every %dth) x 5 operators", step))
	n := 15000
	if thorough {
		n = 600000
	}
	for i := 0; i < n; i++ {
		a, b := randOperand(r), randOperand(r)
		if r.Intn(20) == 0 {
			b = a
		}
		op := ops[r.Intn(len(ops))]
		t := a + " " + op + " " + b
		// chains of up to 4 operations
		for k := r.Intn(4); k > 0; k-- {
			if r.Intn(2) == 0 {
				t = "(" + t + ") " + ops[r.Intn(len(ops))] + " " + randOperand(r)
			} else {
				t = randOperand(r) + " " + ops[r.Intn(len(ops))] + " (" + t + ")"
			}
		}
		line := fmt.Sprintf("EV\t%s\t0\t-\t-", hx([]byte(t)))
		emitEval(o, t, 0, "-", "-", true)
		if i%4 == 0 {
			floatExitOracle(o, line, t, "-")
		}
	}
	// float exit on the stated domain: integers of at most 15 digits scaled by 10^-22..10^22
	for i := 0; i < n/5; i++ {
		c := randCoef(r, 1+r.Intn(15))
		e := r.Intn(45) - 22
		t := fmt.Sprintf("%se%d", c, e)
		if r.Intn(2) == 0 {
			t = "-" + t
		}
		line := fmt.Sprintf("EV\t%s\t0\t-\t-", hx([]byte(t)))
		emitEval(o, t, 0, "-", "-", true)
		floatExitOracle(o, line, t, "-")
	}
	// results straddling machine boundaries (2^31, 2^32, 2^53, 2^62, 2^63, 2^64, 10^15..10^19, 2^127, 2^128): operands are
	// synthesised so that the exact result lies within a few hundred of the boundary, on either side, both signs;
	// literal operands and (where they fit) int64 data operands
	{
		var bounds []*big.Int
		for _, e := range []uint{31, 32, 53, 62, 63, 64, 127, 128} {
			bounds = append(bounds, new(big.Int).Lsh(big.NewInt(1), e))
		}
		for _, e := range []int64{15, 16, 17, 18, 19, 20, 33, 34} {
			bounds = append(bounds, new(big.Int).Exp(big.NewInt(10), big.NewInt(e), nil))
		}
		nb := 60
		if thorough {
			nb = 4000
		}
		emitBoth := func(a, b *big.Int, op string) {
			sa, sb := a.String(), b.String()
			if a.Sign() < 0 {
				sa = "(" + sa + ")"
			}
			if b.Sign() < 0 {
				sb = "(" + sb + ")"
			}
			emitEval(o, sa+" "+op+" "+sb, 0, "-", "-", true)
			if a.IsInt64() && b.IsInt64() && r.Intn(2) == 0 {
				emitEval(o, "x "+op+" y", 0, "-", wmap("x", "Ii64:"+a.String(), "y", "Ii:"+b.String()), true)
			}
		}
		for _, B := range bounds {
			for i := 0; i < nb; i++ {
				// a * b in (B - b, B + 2b]
				var b *big.Int
				switch r.Intn(3) {
				case 0:
					b = big.NewInt(int64(2 + r.Intn(400)))
				case 1:
					b = big.NewInt(int64(2 + r.Intn(100000)))
				default:
					b = new(big.Int).Sqrt(B)
					b.Add(b, big.NewInt(int64(r.Intn(2000)-1000)))
				}
				if b.Sign() <= 0 {
					continue
				}
				T := new(big.Int).Add(B, new(big.Int).Mul(b, big.NewInt(int64(r.Intn(3)))))
				T.Add(T, big.NewInt(int64(r.Intn(3)-1)))
				a := new(big.Int).Div(T, b)
				na, nbg := new(big.Int).Neg(a), new(big.Int).Neg(b)
				switch r.Intn(4) {
				case 0:
					emitBoth(a, b, "*")
				case 1:
					emitBoth(na, b, "*")
				case 2:
					emitBoth(b, na, "*")
				default:
					emitBoth(na, nbg, "*")
				}
				// (B - c) + (c + d), -(B - c) - (c + d)
				c := new(big.Int).Rand(r, B)
				if r.Intn(2) == 0 {
					c = big.NewInt(int64(r.Intn(5000)))
				}
				d := big.NewInt(int64(r.Intn(5) - 2))
				x, y := new(big.Int).Sub(B, c), new(big.Int).Add(c, d)
				if r.Intn(2) == 0 {
					emitBoth(x, y, "+")
				} else {
					emitBoth(new(big.Int).Neg(x), y, "-")
				}
				// exact quotients and remainders of products at the boundary
				p := new(big.Int).Mul(a, b)
				if r.Intn(2) == 0 {
					emitBoth(p, b, "/")
				} else {
					emitBoth(p.Add(p, d), b, "%")
				}
			}
		}
		// sweep: for every small multiplier b the least product a*b that reaches the word boundary (a check of "fits a
		// machine word" done in floating point or by bit lengths errs only on a thin band of such products)
		for bi, e := range []uint{63, 64, 31, 32, 53} {
			B := new(big.Int).Lsh(big.NewInt(1), e)
			lim := 1100
			if bi >= 2 && !thorough {
				lim = 200
			}
			for b := int64(2); b < int64(lim); b++ {
				bb := big.NewInt(b)
				a := new(big.Int).Add(B, big.NewInt(b-1))
				a.Div(a, bb)
				if b%2 == 0 {
					emitBoth(a, bb, "*")
				} else {
					emitBoth(new(big.Int).Neg(a), bb, "*")
				}
				if thorough {
					emitBoth(bb, a, "*")
					emitBoth(new(big.Int).Neg(a), new(big.Int).Neg(bb), "*")
					emitBoth(new(big.Int).Sub(a, big.NewInt(1)), bb, "*")
				}
			}
		}
		// operands whose bit lengths add up to a word
		for i := 0; i < 40*nb/60; i++ {
			k := uint(1 + r.Intn(62))
			a := new(big.Int).Rand(r, new(big.Int).Lsh(big.NewInt(1), k))
			a.SetBit(a, int(k), 1)
			w := uint(62 + r.Intn(3))
			bq := new(big.Int).Rand(r, new(big.Int).Lsh(big.NewInt(1), w-k))
			bq.SetBit(bq, int(w-k), 1)
			if r.Intn(2) == 0 {
				a.Neg(a)
			}
			emitBoth(a, bq, "*")
		}
		o.Stat("boundary-results")
	}
	// data values: int64 / int / float64 entering the computation
	ints := []int64{0, 1, -1, 1 << 53, 1<<53 + 1, -(1<<53 + 1), 1<<53 - 1, 9007199254740993, math.MaxInt64, math.MinInt64, math.MaxInt64 - 1, 123456789012345678, 1 << 62, -(1 << 62) - 1}
	floats := []float64{0.1, 0.2, 0.3, 1e22, 1e23, 5e-324, 2.2250738585072014e-308, 1.7976931348623157e308, 0.30000000000000004, 1.0 / 3.0, 123456.789, -0.0, 4.35, 1e-7, 9007199254740993}
	for i := 0; i < 200 || (thorough && i < 5000); i++ {
		ints = append(ints, r.Int63()-r.Int63())
		floats = append(floats, math.Float64frombits(r.Uint64()))
	}
	for _, n := range ints {
		data := wmap("x", fmt.Sprintf("Ii64:%d", n), "y", fmt.Sprintf("Ii:%d", n))
		for _, t := range []string{fmt.Sprintf("x === %s", abs64s(n)), "x", "x + 1", "x - y", "[x, y]", fmt.Sprintf("y == %s", abs64s(n)), "x * 10", "x % 7"} {
			emitEval(o, t, 0, "-", data, true)
		}
	}
	for _, f := range floats {
		if math.IsNaN(f) || math.IsInf(f, 0) {
			continue
		}
		data := wmap("f", "G"+hx([]byte(strconv.FormatFloat(f, 'f', -1, 64))))
		for _, t := range []string{"f", "f + 0", "f * 2", "f + f + f", "f === " + strconv.FormatFloat(math.Abs(f), 'f', -1, 64)} {
			line := fmt.Sprintf("EV\t%s\t0\t-\t%s", hx([]byte(t)), data)
			emitEval(o, t, 0, "-", data, true)
			floatExitOracle(o, line, t, data)
		}
	}
	emitEval(o, "0.1 + 0.2 === 0.3", 0, "-", "-", true)
	for _, t := range []string{"1/0", "-1/0", "(-1)/0", "1/(-0)", "0/0", "1e30 * 1e30 / 0"} {
		emitEval(o, t, 0, "-", "-", true)
		floatExitOracle(o, fmt.Sprintf("EV\t%s\t0\t-\t-", hx([]byte(t))), t, "-")
	}
	// exact ties at 34 digits (half-even), also after round()/roundBank() were evaluated in this process
	ties := func(tag string) {
		for i := 0; i < 40; i++ {
			c := randCoef(r, 34)
			for _, t := range []string{c + " + 0.5", c + " - 0.5", "(-" + c + ") + 0.5", c + "1 * 0.5", c + "3 * 0.5", c + "1 / 2", c + "5 / 10", c + "5e-1 + 0", c + "5 * 1"} {
				emitEval(o, t, 0, "-", "-", true)
			}
		}
		o.Stat("ties-" + tag)
	}
	ties("fresh")
	emitEval(o, "round(2.5) + round(-2.5) + round(0.5)", 0, "-", "-", true)
	ties("after-round")
	emitEval(o, "roundBank(2.5) + roundBank(3.5)", 0, "-", "-", true)
	ties("after-roundBank")
	emitEval(o, "ceil(1.2) + floor(1.2) + abs(-1) + sqrt(4)", 0, "-", "-", true)
	ties("after-context64-builtins")
}

// literal for |n| (a negative literal would be a prefix minus; the tests compare with the right sign below)
func abs64s(n int64) string {
	if n < 0 {
		return "(-" + new(big.Int).Abs(big.NewInt(n)).String() + ")"
	}
	return fmt.Sprint(n)
}

// ---------- C05 ----------

var cmpGrid = []string{"1", "1.0", "1e0", "10e-1", "0", "-0", "0.0", "0e5", "2", "-2", "0.5", "1e-30", "1e30", "(0.1+0.2)", "0.3",
	"1234567890123456789012345678901234", "1234567890123456789012345678901235", "(1/3)", "(2/3)", "-1e30",
	"''", "'a'", "'b'", "'ab'", "'B'", "'é'", "'z'", "'a\\0'", "'1'", "'10'", "'9'", "true", "false", "null", "$u"}

func suiteCompare(o *Out, thorough bool, seed int64) {
	ops := []string{"<", ">", "<=", ">=", "==", "!=", "===", "!=="}
	isNum := func(s string) bool {
		return !strings.HasPrefix(s, "'") && s != "true" && s != "false" && s != "null" && s != "$u"
	}
	for _, a := range cmpGrid {
		for _, b := range cmpGrid {
			res := map[string]string{}
			for _, op := range ops {
				obs := emitEval(o, a+" "+op+" "+b, 0, "-", "-", true)
				res[op] = strings.SplitN(obs, "|", 2)[0]
			}
			line := fmt.Sprintf("EV\t%s\t0\t-\t-", hx([]byte(a+" < "+b)))
			t := func(op string) bool { return res[op] == "V T" }
			// laws on the implementation's own answers
			if isNum(a) && isNum(b) {
				cnt := 0
				for _, op := range []string{"<", "==", ">"} {
					if t(op) {
						cnt++
					}
				}
				if cnt != 1 {
					o.Fail(line, fmt.Sprintf("trichotomy: %s vs %s has %d of <, ==, > true", a, b, cnt))
				}
				if t("<=") != (t("<") || t("==")) || t(">=") != (t(">") || t("==")) {
					o.Fail(line, fmt.Sprintf("<= / >= are not the disjunctions for %s, %s", a, b))
				}
			}
			if t("!=") == t("==") || t("!==") == t("===") {
				o.Fail(line, fmt.Sprintf("!= / !== are not the negations of == / === for %s, %s", a, b))
			}
		}
	}
	o.Notes = append(o.Notes, fmt.Sprintf("exhaustive: all ordered pairs of a %d-value grid x 8 operators", len(cmpGrid)))
	r := newRand(seed, "compare")
	n := 3000
	if thorough {
		n = 200000
	}
	// strings across the encoding classes of UTF-8 (1 to 4 bytes, the edges of each class, the gap left by the
	// surrogates, private use and specials above it, the supplementary planes) and invalid bytes: all ordered pairs
	{
		pool := []string{"", "a", "\x7f", "\u0080", "\u07ff", "\u0800", "\ud7ff", "\ue000", "\uf8ff", "\ufb01", "\uff5e", "\ufffd", "\uffff", "\U00010000", "\U0001d11e", "\U0001f600", "\U0010ffff",
			"\xff", "\xc3", "\xed\xa0\x80", "\xf0\x9f", "a\uff5e", "a\U0001f600", "\uff5ea", "\U0001f600a", "Z", "z", "\u00e9"}
		for _, a := range pool {
			for _, b := range pool {
				data := wmap("a", ws(a), "b", ws(b))
				got := resultOf(emitEval(o, "[a < b, a > b, a <= b, a >= b, a == b]", 0, "-", data, true))
				want := fmt.Sprintf("V A5 %s %s %s %s %s", tf(a < b), tf(a > b), tf(a <= b), tf(a >= b), tf(a == b))
				if got != want {
					o.Fail(fmt.Sprintf("EV\t%s\t0\t-\t%s", hx([]byte("[a < b, a > b, a <= b, a >= b, a == b]")), data), fmt.Sprintf("strings %q and %q do not compare in byte-wise lexicographic order: %s, required %s", a, b, got, want))
				}
			}
		}
	}
	// neighbours: two numbers one unit apart in their last digit, for every number of digits and a range of exponents
	// (an approximate comparison - through binary floating point, say - merges exactly such pairs)
	for d := 1; d <= 40; d++ { // beyond 34 digits: literals and numbers handed in by the caller are not rounded
		reps := 6
		if d >= 14 && d <= 19 { // around the precision of binary64
			reps = 90
		}
		for k := 0; k < reps || (thorough && k < 300); k++ {
			c := randCoef(r, d)
			ci, _ := new(big.Int).SetString(c, 10)
			c2 := new(big.Int).Add(ci, big.NewInt(1)).String()
			e := r.Intn(45) - 22
			a, b := fmt.Sprintf("%se%d", c, e), fmt.Sprintf("%se%d", c2, e)
			if k%2 == 1 {
				a, b = "(-"+a+")", "(-"+b+")"
			}
			emitEval(o, "["+a+" < "+b+", "+a+" == "+b+", "+a+" > "+b+", "+a+" === "+b+", "+b+" <= "+a+", "+a+" != "+b+"]", 0, "-", "-", true)
			emitEval(o, "[a < b, a == b, a >= b, a !== b]", 0, "-", wmap("a", "D+:"+c+":"+fmt.Sprint(e), "b", "D+:"+c2+":"+fmt.Sprint(e)), true)
		}
	}
	// null in all its shapes: the untyped nil and typed nil pointers of several Go types, every ordered pair
	for _, x := range []string{"N", "P", "Ps", "Pm", "Pt", "Pf", "Pd"} {
		for _, y := range []string{"N", "P", "Ps", "Pm", "Pt", "Pf", "Pd", "Ii:0", "S", "F"} {
			emitEval(o, "[a === b, a !== b, a == b, a != b, a === null, b == null, a ?? 1, !a]", 0, "-", wmap("a", x, "b", y), true)
			emitEval(o, "[m.a === m.b, m.a == m.b, m.a !== null]", 0, "-", wmap("m", wmap("a", x, "b", y)), true)
		}
	}
	// the same number in every Go type the data can hold it in (Go integer types of equal width and signedness -
	// uint and uint64 - are still different types, and values below a member or an element are not normalised):
	// every ordered pair, at the top level, below a member and inside arrays
	{
		same := []string{"Ii:5", "Ii8:5", "Ii16:5", "Ii32:5", "Ii64:5", "Iu:5", "Iu8:5", "Iu16:5", "Iu32:5", "Iu64:5", "Iup:5", "G" + hx([]byte("5")), "g" + hx([]byte("5")), "D+:5:0", "D+:50:-1", ws("5"), "Ii8:-5", "Iu8:251", "T", "Ii:1", "Iu8:1"}
		for _, x := range same {
			for _, y := range same {
				emitEval(o, "[a == b, a === b, a != b, a !== b, a < b, a >= b, a + b, a - b]", 0, "-", wmap("a", x, "b", y), true)
				emitEval(o, "[m.a == m.b, m.a === m.b, m.a !== m.b, m.a <= m.b, xs[0] == xs[1], xs[0] === xs[1], includes(xs, b), '' + xs, '' + m]", 0, "-", wmap("m", wmap("a", x, "b", y), "xs", "A2 "+x+" "+y, "b", y), true)
			}
		}
	}
	rowsBlock(o, r, []string{"a < b", "a > b", "a <= b", "a >= b", "a == b", "a != b", "a === b", "a !== b", "[a < b, a == b, a > b]", "a < b ? 'lt' : a > b ? 'gt' : 'no'", "min(a, b) <= max(a, b)"}, 60)
	for i := 0; i < n; i++ {
		a, b := randOperand(r), randOperand(r)
		if r.Intn(4) == 0 {
			// same value, different spelling
			b = "(" + a + " * 1.000)"
		}
		emitEval(o, a+" "+ops[r.Intn(8)]+" "+b, 0, "-", "-", true)
	}
}

// ---------- C06 ----------

var truthConds = []string{"null", "true", "false", "0", "-0", "0.0", "0e5", "1", "-1", "0.1", "toFloat('x')", "(1/0)", "(-1/0)",
	"1e-400", "5e-309", "(-3/1e350)", "(1e-200*1e-200)", "4e-324", "1e-900", "0e-900", "1e400", "(-1e309)", "0.0000000000000000000000000000000001",
	"''", "'0'", "' '", "'a'", "[]", "[0]", "arr", "emp", "m", "em", "t", "fn", "np", "zz", "len", "ctx", "z8",
	"tz", "ty", "nps", "nps[0]", "t0", "f0", "fneg0", "u0", "up0", "sp", "mn", "mn.k", "0e400", "-0e-400", "(0 * -1)", "rec('x')"}

func suiteTruthy(o *Out, thorough bool, seed int64) {
	hosts := "1:0:0:2:0:a:" + ws("h")
	data := wmap("arr", "A2 Ii:1 Ii:2", "emp", "A0", "m", wmap("k", "Ii:1"), "em", "O0", "t", "M1700000000000000000:0",
		"fn", "H1", "np", "P", "z8", "Ii8:0", "rec", "H1",
		// Go values that are nil without being null: a nil slice / map of a typed slice / map type (what a host function
		// returning []string hands back for "nothing found"), an array holding typed nil pointers, the zero time
		"tz", "Zn", "ty", "Yn", "nps", "A2 P Ps", "t0", "M-62135596800000000000:0", "f0", "G"+hx([]byte("0")), "fneg0", "G"+hx([]byte("-0")), "u0", "Iu64:0", "up0", "Iup:0", "sp", ws(" "), "mn", wmap("k", "N"))
	vals := []string{"'v'", "0", "null", "[1]", "arr", "false"}
	for _, c := range truthConds {
		for _, f := range []string{"!!%s", "!%s", "typeof %s"} {
			emitEval(o, fmt.Sprintf(f, c), 0, hosts, data, true)
		}
		for _, v := range vals {
			for _, f := range []string{"%s && %s", "%s || %s", "%s ?? %s"} {
				emitEval(o, fmt.Sprintf(f, c, v), 0, hosts, data, true)
			}
			emitEval(o, fmt.Sprintf("%s ? %s : 'other'", c, v), 0, hosts, data, true)
			emitEval(o, fmt.Sprintf("%s ? 'other' : %s", c, v), 0, hosts, data, true)
		}
		// branch side effects: assignments and recorded host calls in both branches
		emitEval(o, fmt.Sprintf("%s ? ($a = 1, rec('t')) : ($b = 2, rec('f'))", c), 0, hosts, data, true)
		emitEval(o, fmt.Sprintf("(%s ? rec('t') : rec('f')), $a", c), 0, hosts, data, true)
		emitEval(o, fmt.Sprintf("%s && ($a = 1), %s || ($b = 2), [$a, $b]", c, c), 0, hosts, data, true)
	}
	// "alone and nested": each selection operator nested to depths far beyond what a formula written by hand has
	// (a recursion limit, a depth counter), still well inside 64 KiB of text
	for _, d := range []int{255, 1000, 1001, 1200, 2000} {
		rep := strings.Repeat
		for _, t := range []string{rep("!!", d) + "'x'", rep("!!", d) + "''", rep("! ", d) + "0", rep("(", d) + "0 ? 'a' : 'b'" + rep(")", d), rep("(1 && ", d) + "'v'" + rep(")", d),
			rep("('' || ", d) + "'v'" + rep(")", d), rep("(null ?? ", d) + "'v'" + rep(")", d), rep("(1 ? ", d) + "'v'" + rep(" : 'w')", d), rep("(0 ? 'w' : ", d) + "'v'" + rep(")", d),
			rep("[", d) + "null ?? 1" + rep("][0]", d), rep("-", d) + "1 ? 'p' : 'n'", rep("typeof ", d%50+1) + "(1 && 2)"} {
			if len(t) < 65000 {
				emitEval(o, t, 0, hosts, data, true)
			}
		}
	}
	o.Notes = append(o.Notes, fmt.Sprintf("exhaustive: %d condition values x 6 branch values x the six selection operators, plus branches with assignments and recording host functions", len(truthConds)))
	r := newRand(seed, "truthy")
	n := 3000
	if thorough {
		n = 100000
	}
	atom := func() string { return truthConds[r.Intn(len(truthConds))] }
	var nest func(d int) string
	nest = func(d int) string {
		if d == 0 {
			return atom()
		}
		switch r.Intn(6) {
		case 0:
			return "(" + nest(d-1) + " && " + nest(d-1) + ")"
		case 1:
			return "(" + nest(d-1) + " || " + nest(d-1) + ")"
		case 2:
			return "(" + nest(d-1) + " ?? " + nest(d-1) + ")"
		case 3:
			return "(" + nest(d-1) + " ? " + nest(d-1) + " : " + nest(d-1) + ")"
		case 4:
			return "!!" + nest(d-1)
		default:
			return "(" + nest(d-1) + " ? rec(" + nest(d-1) + ") : ($c = " + nest(d-1) + "))"
		}
	}
	for i := 0; i < n; i++ {
		emitEval(o, nest(1+r.Intn(3)), 0, hosts, data, true)
	}
}

// ---------- C07 ----------

// snapshotOracle: non-$ entries of the caller's map (deep, canonical) are unchanged by evaluation
func snapshotOracle(o *Out, line, text, hosts, data string) {
	src, err := formula.ParseSourceCode([]byte(text))
	if err != nil || data == "-" {
		return
	}
	var log callLog
	hs := buildHosts(hosts, &log)
	m, _ := decodeVal(data, hs).(map[string]interface{})
	snap := func() string {
		keys := []string{}
		for k := range m {
			if !strings.HasPrefix(k, "$") {
				keys = append(keys, k)
			}
		}
		sort.Strings(keys)
		var sb strings.Builder
		for _, k := range keys {
			sb.WriteString(k + "=")
			encVal(&sb, m[k])
			sb.WriteString(";")
		}
		return sb.String()
	}
	before := snap()
	r := formula.NewRunner()
	r.SetThis(m)
	protect(func() { r.Resolve(context.Background(), src.Expression) })
	if after := snap(); after != before {
		o.Fail(line, "evaluation changed a non-$ entry of the caller's data: before "+before+" after "+after)
	}
	// the whole map (locals included) after the public entry point equals the map after the raw evaluation that
	// is compared with the model: returning a result may not change what is stored
	m2, _ := decodeVal(data, hs).(map[string]interface{})
	r2 := formula.NewRunner()
	r2.SetThis(m2)
	protect(func() { r2.VerifResolveRaw(context.Background(), src.Expression) })
	if a, b := enc(m), enc(m2); a != b {
		o.Fail(line, "the data map after Resolve differs from the map after the same evaluation without the result conversion: "+a+" vs "+b)
	}
}

func suiteLocals(o *Out, thorough bool, seed int64) {
	hosts := "1:0:0:2:0:a,a:" + ws("r") + ";2:0:1:2:0:a:Ii:7"
	shared := "A3 Ii:1 Ii:2 " + wmap("q", "Ii:5")
	datas := []string{"-", "O0", wmap("x", "Ii:3", "y", shared, "z", shared, "f", "H1", "g", "H2", "$b", "Ii:9", "n", "N", "p", "D+:125:-1", "q", "D-:3:0", "x$", "Ii:8", "a$b", ws("ab")),
		wmap("x", "Ii:3", "f", "H1", "g", "H2", "p", "D+:1234567890123456789012345678901234:-14", "q", "D-:1234567890123456789015:-1", "$b", "D+:6666666666666666666666666666666667:-33")}
	fixed := []string{"a = 1", "1 = 2", "($a) = 1", "a.b = 1", "'s' = 1", "$a.b = 1", "x = 1", "[$a] = 1", "$a = $b = 2", "$a = 1, $a", "$a = 1, $a = $a + 1, $a",
		"[$a = 1, $a + 1, $a = 5, $a]", "f($a = 2, $a)", "$c", "$a, $a = 1", "($a = 1) + ($a = 2) + $a", "$a = x, x", "g($a = 1, $a = 2, $a)",
		"true ? $a = 1 : $b = 2", "$a = [1,2], $a", "$a = y, $a", "$b", "$b = $b + 1", "this.$b", "$a = null, $a", "x = ($a = 1)", "$a = (1, 2)", "$a = 1 ? 2 : 3",
		"y", "z", "f(y, z)", "$a = y, $b = z, [$a, $b]",
		"x$ = 1", "a$b = 2, a$b", "_$ = 3", "x$", "a$b + 1", "$a$ = 4, $a$", "$$ = 5, $$", "$ = 6, $", "x$ = x$ + 1", "[a$b = 1]", "f(x$ = 1)", "$a$b = x$, [$a$b, x$]",
		"$h = f, $h($h = g, 1)", "$h = f, $h(1, $h = g), $h", "$h = g, $h($h = f)", "$m = this, $m.f($m = null, 2)", "$h = f, [$h(1, 2), $h = g, $h(3)]",
		"n!.f($a = 1), $a", "n!.f($a = 1)", "n.f($a = 1), $a", "nope!.k.f(g($a = 2)), $a", "(n!.f)($a = 1)", "x($a = 1), $a", "'s'($a = 1), $a", "nofn($a = 1, g(2)), $a",
		"f($a = 1, n!.k, $b = 2), [$a, $b]", "f(g($a = 1), $a), $a", "[n!.k, $a = 1], $a", "$a = 1, f($a, $a = 2, $a), $a",
		"$a = 5, $b = -$a, $a", "$a = 1, -$a, $a", "[$a = 2, -$a, +$a, ~$a, !$a, $a]", "-p, p", "$n = -p, p * 2", "-q, q", "abs(q), q", "$a = p, -$a, [p, $a]",
		"$a = 2.5, round($a), $a", "round(p), p", "ceil(p), floor(p), p", "$a = 3, $a + 1, $a * 2, -$a, $a", "f(-p, p)", "toString(-p) + toString(p)", "max(p, q), min(p, q), [p, q]"}
	for _, d := range datas {
		for _, t := range fixed {
			line := fmt.Sprintf("EV\t%s\t0\t%s\t%s", hx([]byte(t)), hosts, d)
			emitEval(o, t, 0, hosts, d, true)
			snapshotOracle(o, line, t, hosts, d)
		}
	}
	for _, fn := range []string{"abs", "ceil", "floor", "round", "roundBank", "toInt", "toFloat", "toString", "finite", "sqrt", "exp", "-", "+", "~", "!", "!!", "typeof "} {
		call := func(x string) string {
			if strings.HasSuffix(fn, " ") || len(fn) <= 2 {
				return fn + x
			}
			return fn + "(" + x + ")"
		}
		for _, t := range []string{
			"$a = 2.75, $i = " + call("$a") + ", [$a, $i]", "$a = 2.75, $b = $a, " + call("$b") + ", $a", call("p") + ", p", "$a = p, " + call("$a") + ", [p, $a]",
			"$a = -7.5, " + call("$a") + ", $a + 0", "max($a = 1.5, 2), " + call("$a") + ", $a", "[" + call("q") + ", q, " + call("q") + "]",
			"$a = 20/3, " + call("$a") + ", $a", "$a = 20/3, $i = " + call("$a") + ", [$a === 20/3, $i]", call("$b") + ", $b", "$a = p / 7, " + call("$a") + ", $a - p / 7",
		} {
			for _, d := range datas[2:] {
				line := fmt.Sprintf("EV\t%s\t0\t%s\t%s", hx([]byte(t)), hosts, d)
				emitEval(o, t, 0, hosts, d, true)
				snapshotOracle(o, line, t, hosts, d)
			}
		}
	}
	for _, t := range []string{"p", "q", "$b", "$a = p", "$a = 20/3", "$a = 1/3, $a", "0, p", "x > 0 ? p : q", "p || 0", "$b ?? 1", "$a = $b", "[p][0]", "f(p, q), p"} {
		for _, d := range datas[2:] {
			line := fmt.Sprintf("EV\t%s\t0\t%s\t%s", hx([]byte(t)), hosts, d)
			emitEval(o, t, 0, hosts, d, true)
			snapshotOracle(o, line, t, hosts, d)
		}
	}
	for _, op := range []string{"+", "-", "*", "/", "%", "&", "|", "^", "<", "==", "&&", "||", "??"} {
		for _, t := range []string{"$a = 2.75, $a " + op + " 2, $a", "p " + op + " q, [p, q]", "$a = p, $a " + op + " $a, [$a, p]", "max(p, q) " + op + " min(p, q), [p, q]"} {
			for _, d := range datas[2:] {
				line := fmt.Sprintf("EV\t%s\t0\t%s\t%s", hx([]byte(t)), hosts, d)
				emitEval(o, t, 0, hosts, d, true)
				snapshotOracle(o, line, t, hosts, d)
			}
		}
	}
	// spreading an array over a variadic tail (with and without fixed arguments in front) builds a NEW argument list:
	// the array - a caller's slice with spare capacity, a list bound to a local, a literal - is the same afterwards
	{
		h3 := hosts + ";3:0:1:2:0:s,a:Ii:3;4:1:1:2:0:a,a:Ii:4"
		d := wmap("xs", "A3 "+ws("a")+" "+ws("b")+" "+ws("c"), "one", "A1 Ii:1", "none", "A0", "nest", "A2 A2 Ii:1 Ii:2 A1 Ii:3", "f", "H1", "g", "H2", "lab", "H3", "cl", "H4")
		for _, t := range []string{"lab('p', xs...), xs", "lab('p', xs...), lab('q', xs...), xs", "$a = ['x', 'y', 'z'], lab('p', $a...), $a", "$a = xs, lab('p', $a...), [$a, xs]", "g(xs...), xs", "cl('p', xs...), xs",
			"lab('p', one...), one", "lab('p', none...), none", "lab('p', nest[0]...), nest", "$a = [1, 2], $b = $a, lab('p', $a...), $b", "lab('p', [1, 2, 3]...)", "$a = ['x'], lab('p', $a...), lab('q', $a...), $a",
			"cl(xs, xs...), xs", "lab(xs[0], xs...), xs", "g($a = [1, 2, 3]...), g($a...), $a", "lab('p', xs...) + lab('q', one...), [xs, one]", "f(xs, lab('p', xs...)), xs"} {
			line := fmt.Sprintf("EV\t%s\t0\t%s\t%s", hx([]byte(t)), h3, d)
			emitEval(o, t, 0, h3, d, true)
			snapshotOracle(o, line, t, h3, d)
		}
		o.Stat("spread-then-reread")
	}
	// caller numbers with more digits than a machine word holds and a fraction, handed to INTEGER parameters (of
	// builtins and of host functions, alone, in arrays and in maps): the parameter receives the truncation, the
	// caller's number stays what it was
	{
		hI := hosts + ";3:0:0:2:0:i:Ii:3;4:0:0:2:0:[i64:Ii:4;5:0:0:2:0:{i:Ii:5;6:0:1:2:0:i32:Ii:6;7:0:0:2:0:i8,i16:Ii:7"
		k1, k2, k3 := "D+:300000000000000000000009:-23", "D+:725000000000000000000001:-23", "D-:1999999999999999999999999999999999:-33"
		d := wmap("k", k1, "j", k2, "neg", k3, "ks", "A3 "+k1+" "+k2+" "+k3, "km", wmap("a", k1, "b", k2), "rows", "A2 "+wmap("n", k1)+" "+wmap("n", k2), "t", "M1700000000000000000:0",
			"f", "H1", "g", "H2", "hi", "H3", "his", "H4", "him", "H5", "hv", "H6", "h2", "H7")
		for _, t := range []string{"left('abcdefgh', k), k", "right('abcdefgh', j), j", "mid('abcdefgh', k, j), [k, j]", "lpad('a', 'b', j), j", "rpad('a', 'b', k), [k, k]", "date(2024, k, j), [k, j]",
			"addDate(t, k, j, neg), [k, j, neg]", "hi(k), k", "hi(j), hi(j), j", "his(ks), ks", "him(km), km", "hv(k, j, neg), [k, j, neg]", "hv(ks...), ks", "h2(k, j), [k, j]", "his(mapToArr(rows, 'n')), rows",
			"$a = k, hi($a), [$a, k]", "$a = ks, his($a), [$a, ks]", "hi(k + 0), k", "hi(neg), neg", "left('abcdefgh', ks[1]), ks", "hi(km.b), km", "[hi(k), k === 3.00000000000000000000009]"} {
			line := fmt.Sprintf("EV\t%s\t0\t%s\t%s", hx([]byte(t)), hI, d)
			emitEval(o, t, 0, hI, d, true)
			snapshotOracle(o, line, t, hI, d)
		}
		o.Stat("wide fractions to integer parameters")
	}
	// a local has the VALUE of the right-hand side, whatever its size: numbers beyond the 34 digits and the exponent
	// range that computed numbers have (long literals, decimals handed in by the caller, and everything that passes
	// them on unchanged: unary plus, max, min, finite, ??, ||, &&, a conditional branch) are bound digit for digit
	{
		w40 := "D+:1000000000000000000000000000000000000001:-39"
		wneg := "D-:9999999999999999999999999999999999999999:5"
		d := wmap("w", w40, "v", wneg, "big", "D+:1:7000", "tiny", "D+:1:-7000", "f", "H1", "g", "H2")
		srcs := []string{"12345678901234567890123456789012345", "0.1234567890123456789012345678901234567890", "1e7000", "1e-7000", "123456789012345678901234567890123456789e-6500",
			"w", "v", "big", "tiny", "+w", "max(w, 0)", "min(v, 0)", "finite(w)", "w ?? 1", "w || 0", "1 && w", "(x ? w : v)", "(n ? w : v)", "[w][0]", "(0, w)"}
		for _, e := range srcs {
			for _, t := range []string{"$n = " + e + ", $n == " + e, "[$n = " + e + ", $n]", "toString($n = " + e + ")", "$n = " + e + ", $n - " + e, "($n = " + e + ") === " + e,
				"$n = " + e + ", $m = $n, [$m === " + e + ", $m]", "f($n = " + e + ", $n)", "$n = " + e + ", $n = $n, $n"} {
				line := fmt.Sprintf("EV\t%s\t0\t%s\t%s", hx([]byte(t)), hosts, d)
				emitEval(o, t, 0, hosts, d, true)
				snapshotOracle(o, line, t, hosts, d)
			}
		}
		o.Stat("wide-number-assignments")
	}
	// exhaustive small programs over a 12-lexeme alphabet
	lex := []string{"$a", "$b", "x", "=", ",", "1", "(", ")", "[", "]", "+", "f"}
	k := 5
	if thorough {
		k = 6
	}
	d := datas[2]
	enumSeq(len(lex), k, func(idx []int) {
		if len(idx) < 3 {
			return
		}
		var parts []string
		for _, i := range idx {
			parts = append(parts, lex[i])
		}
		t := strings.Join(parts, " ")
		if _, err := formula.ParseSourceCode([]byte(t)); err != nil {
			return
		}
		line := fmt.Sprintf("EV\t%s\t0\t%s\t%s", hx([]byte(t)), hosts, d)
		emitEval(o, t, 0, hosts, d, true)
		snapshotOracle(o, line, t, hosts, d)
	})
	o.Notes = append(o.Notes, fmt.Sprintf("exhaustive: every accepted sequence of 3..%d lexemes over {$a,$b,x,=,,,1,(,),[,],+,f}", k))
	r := newRand(seed, "locals")
	g := &gen{r: r, idents: []string{"x", "y", "z", "n"}, funcs: []string{"f", "g"}, lits: []string{"1", "2", "'s'", "null", "[1]", "$a", "$b"}}
	n := 4000
	if thorough {
		n = 150000
	}
	for i := 0; i < n; i++ {
		t := g.expr(0, 1+r.Intn(4))
		d := datas[r.Intn(len(datas))]
		line := fmt.Sprintf("EV\t%s\t0\t%s\t%s", hx([]byte(t)), hosts, d)
		emitEval(o, t, 0, hosts, d, true)
		snapshotOracle(o, line, t, hosts, d)
	}
}

// ---------- C03: misuse must be an error ----------

func suiteMisuse(o *Out, thorough bool, seed int64) {
	hosts := "1:0:0:2:0:i:Ii:1;2:0:0:2:0:{a:Ii:1;3:0:0:2:0:[s:Ii:1;4:0:0:1:0:a:Ii:1;5:0:0:2:1:a:Ii:1"
	data := wmap("n", "N", "s", ws("abc"), "num", "Ii:5", "arr", "A2 Ii:1 Ii:2", "m", wmap("k", "Ii:1"), "t", "M0:0", "st", "X",
		"hi", "H1", "hm", "H2", "hs", "H3", "h1r", "H4", "hf", "H5", "np", "P", "u", "Iu64:18446744073709551615")
	bad := []string{"1()", "zz()", "s()", "num()", "arr()", "m()", "n()", "true()", "(hi)(1)", "hi()", "hi(1, 2)", "hi('x')", "hi(arr)", "hi(num...)",
		"len()", "len(1, 2)", "left('abc', -1)", "left('abc')", "right('abc', -1)", "mid('abc', 2, 1)", "mid('abc', -5, -2)", "lpad('abc', 'x', -1)",
		"rpad('abc', 'x', -1)", "regexp('a', '(')", "regexp('a', '[')", "[1] == [1]", "[1] === [1]", "arr == arr", "m == m", "m != m", "arr !== arr",
		"t.k", "t.wall", "st.nope", "st.a", "hm(1)", "hm(n)", "hm('x')", "hs(n)", "hs(1)", "join(n, ',')", "join(1, ',')", "includes(n, 'a')",
		"max()", "min()", "max('a')", "abs('x')", "abs()", "date(1)", "date('a', 1, 1)", "year(1)", "useTimezone(t, 'No/Where')", "h1r(1)", "hf(1)",
		"a = 1", "1 = 2", "n!.k", "np!.k", "zz!.k", "m.k()", "hi(hi)", "+true", "-true", "!'a'", "~'a'", "~true", "!arr", "s.k.j()",
		"max(arr...)", "len(arr...)", "hi(arr...)", "max(num...)", "max(n...)", "mapToArr(1, 'k')", "mapToArr(n, 'k')", "timeFormat(1, 'x')", "toInt()"}
	for _, t := range bad {
		line := fmt.Sprintf("EV\t%s\t0\t%s\t%s", hx([]byte(t)), hosts, data)
		emitEval(o, t, 0, hosts, data, true)
		// oracle: the public entry returns an error (and no value), never panics
		src, err := formula.ParseSourceCode([]byte(t))
		if err != nil {
			o.Fail(line, "misuse program does not parse: "+err.Error())
			continue
		}
		var log callLog
		hsm := buildHosts(hosts, &log)
		m, _ := decodeVal(data, hsm).(map[string]interface{})
		r := formula.NewRunner()
		r.SetThis(m)
		var v interface{}
		var e error
		pan, msg := protect(func() { v, e = r.Resolve(context.Background(), src.Expression) })
		if pan {
			o.Fail(line, "misuse "+t+" panicked: "+msg)
		} else if e == nil {
			o.Fail(line, fmt.Sprintf("misuse %s is not reported through the error (value %v)", t, v))
		} else if v != nil {
			o.Fail(line, "misuse "+t+" returned both a value and an error")
		}
	}
	o.Notes = append(o.Notes, fmt.Sprintf("%d misuse programs (non-function callee, arity, unconvertible argument, string positions, invalid regexp, array/map comparison, missing struct field, bad assignment target, spread misuse): each must return an error", len(bad)))
	// values that contain themselves: a formula can store the data map in one of its own locals (`$t = this`) or in an
	// array inside it; whatever is then done with the value must end in a value or an error.  Each program runs in a
	// process of its own, because a stack overflow is fatal to the whole process, not a panic that Resolve could recover.
	{
		cyc := []string{"$t = this, '' + $t", "$t = this, $t + ''", "$t = this, toString($t)", "$t = this, len($t)", "$t = this, h($t)", "$t = this, g($t)", "$t = this, $t()",
			"$t = this, $t == $t", "$t = this, $t === this", "$t = this, typeof $t", "$t = this, $t.a", "$t = this, $t.$t.$t.a", "$t = this, !$t", "$t = this, $t + 1", "$t = this, -$t",
			"$t = this, [$t, $t]", "$t = [this], join($t, ',')", "$t = [this], includes($t, 'a')", "$t = [this], '' + $t", "$t = this, $t ? 1 : 2", "$t = this, $t < 's'", "$t = this, 's' < $t",
			"$t = this, max($t)", "$t = this, upper($t)", "$t = this, $u = $t, $u.$t.a", "$t = this, mapToArr([$t], 'a')", "$t = this, $t.s + $t.$t.s", "$t = this, nofn($t)", "$t = this, $t.k.j($t)",
			"'' + env", "toString(env)", "len(env)", "h(env)", "toString(penv)", "'' + penv", "env.Name", "env.Vars.a", "toString(ring)", "'' + ring", "h(ring)", "toString(ringv)", "'' + two", "h(two)", "ring.Name",
			"toString(selfish)", "'' + selfish", "join(envs, ',')", "'' + envs", "[ring, two] == null", "typeof ring + typeof env", "g(ring)", "g(env)", "!ring", "ring ?? 1", "$r = ring, toString($r)"}
		for _, nm := range []string{"rowsU", "arrU", "mapU", "rowsE", "rowsI", "rowsS", "rowsN", "nestU", "mapsU", "ptrsU", "rowU", "arr2U"} {
			cyc = append(cyc, "'' + "+nm, "toString("+nm+")", "h("+nm+")", "join(["+nm+"], ',')", "len("+nm+")", "'x' < "+nm, "'x' == "+nm)
		}
		for _, n := range []string{"100", "4095", "4096", "4097", "5000", "70000"} {
			cyc = append(cyc, "join(mapToArr(rows"+n+", 'name'), ',')", "hm(rows"+n+")", "join(strs"+n+", ',')", "hs(strs"+n+")", "includes(strs"+n+", 'x')", "hi(nums"+n+")", "hv(strs"+n+"...)",
				"len(join(good"+n+", ','))", "hs(good"+n+")", "hv(good"+n+"...)", "max(nums"+n+"...)")
		}
		type pr struct{ out, errText string }
		res := make([]pr, len(cyc))
		var wg sync.WaitGroup
		sem := make(chan struct{}, 16)
		for i := range cyc {
			wg.Add(1)
			sem <- struct{}{}
			go func(i int) {
				defer wg.Done()
				defer func() { <-sem }()
				cctx, cancel := context.WithTimeout(context.Background(), 30*time.Second)
				defer cancel()
				cmd := exec.CommandContext(cctx, os.Args[0], "probe", hx([]byte(cyc[i])))
				var stderr strings.Builder
				cmd.Stderr = &limitWriter{w: &stderr, n: 400}
				out, err := cmd.Output()
				res[i] = pr{strings.TrimSpace(string(out)), ""}
				if err != nil {
					first := strings.SplitN(stderr.String(), "\n", 2)[0]
					res[i].errText = fmt.Sprintf("%v: %s", err, first)
				}
			}(i)
		}
		wg.Wait()
		for i, t := range cyc {
			ln := "NOP\tcyclic\t" + hx([]byte(t))
			o.Case(ln, "-", true)
			switch {
			case res[i].errText != "":
				o.Fail(ln, fmt.Sprintf("evaluating %q took the whole process down (%s)", t, res[i].errText))
			case res[i].out == "PANIC":
				o.Fail(ln, fmt.Sprintf("evaluating %q panicked", t))
			case res[i].out != "V" && res[i].out != "E":
				o.Fail(ln, fmt.Sprintf("evaluating %q: unexpected outcome %q", t, res[i].out))
			}
		}
	}
	// formulas near the 64 KiB bound in every recursive shape of the evaluator: terminate with a value or an error
	{
		rep := strings.Repeat
		big := []struct{ name, text, want string }{
			{"sum-chain", "1" + rep(" + 1", 16000), "16001"},
			{"parens", rep("(", 30000) + "1" + rep(")", 30000), "1"},
			{"prefix-chain", rep("- ", 30000) + "1", "1"},
			{"not-chain", rep("!", 60000) + "0", "false"},
			{"array-nest", rep("[", 30000) + rep("]", 30000), ""},
			{"member-chain", "m" + rep(".k", 30000), "<nil>"},
			{"assert-chain", "m" + rep("!.m", 20000), ""},
			{"call-nest", rep("hi(", 20000) + "1" + rep(")", 20000), ""},
			{"comma-chain", "1" + rep(", 1", 20000), "1"},
			{"cond-nest", rep("1 ? ", 10000) + "2" + rep(" : 3", 10000), "2"},
			{"cond-chain", rep("0 ? 1 : ", 9000) + "7", "7"},
			{"assign-chain", rep("$a = ", 12000) + "1", "1"},
			{"long-string", "len('" + rep("a", 65000) + "')", "65000"},
			{"array-wide", "len(join([" + rep("'a', ", 12000) + "'a'], ''))", "12001"},
			{"args-wide", "max(" + rep("1, ", 20000) + "2)", "2"},
			{"concat", "len('x'" + rep(" + 'y'", 9000) + ")", "9001"},
			{"and-chain", "1" + rep(" && 1", 12000), "1"},
			{"coalesce-chain", "n" + rep(" ?? n", 12000) + " ?? 5", "5"},
			{"typeof-chain", rep("typeof ", 9000) + "1", "string"},
			{"spread-wide", "max([" + rep("1, ", 20000) + "3]...)", "3"},
		}
		bd := map[string]interface{}{"n": nil, "hi": func(x interface{}) (interface{}, error) { return x, nil }}
		mm := map[string]interface{}{}
		mm["m"] = mm
		bd["m"] = mm
		for _, b := range big {
			ln := fmt.Sprintf("NOP\tevalbig\t%s:%d", b.name, len(b.text))
			o.Case(ln, "-", true)
			src, err := formula.ParseSourceCode([]byte(b.text))
			if err != nil {
				o.Fail(ln, "a well-formed formula of "+fmt.Sprint(len(b.text))+" bytes was rejected: "+err.Error()[:minInt(len(err.Error()), 80)])
				continue
			}
			type res struct {
				v   interface{}
				e   error
				pan bool
				msg string
			}
			ch := make(chan res, 1)
			t0 := time.Now()
			go func() {
				var rr res
				rn := formula.NewRunner()
				rn.SetThis(bd)
				rr.pan, rr.msg = protect(func() { rr.v, rr.e = rn.Resolve(context.Background(), src.Expression) })
				ch <- rr
			}()
			select {
			case rr := <-ch:
				switch {
				case rr.pan:
					o.Fail(ln, "evaluation panicked: "+rr.msg[:minInt(len(rr.msg), 120)])
				case rr.e != nil && rr.v != nil:
					o.Fail(ln, "both a value and an error")
				case rr.e == nil && b.want != "" && fmt.Sprint(rr.v) != b.want:
					o.Fail(ln, fmt.Sprintf("evaluates to %.60v, required %s", rr.v, b.want))
				case time.Since(t0) > 8*time.Second:
					o.Fail(ln, fmt.Sprintf("took %v", time.Since(t0)))
				}
			case <-time.After(20 * time.Second):
				o.Fail(ln, "evaluation did not terminate within 20 s")
			}
		}
	}
	// odd kinds: bounded-exhaustive 3-token programs over operators, builtin names and data names
	names := []string{"n", "s", "num", "arr", "m", "t", "st", "hi", "np", "u", "len", "max", "left", "abs", "toString", "join"}
	opsl := []string{"+", "-", "*", "/", "%", "==", "===", "<", "&&", "||", "??", "&", "|", "^", ",", "="}
	cnt := 0
	step := 5
	if thorough {
		step = 1
	}
	for _, a := range names {
		for _, op := range opsl {
			for _, b := range names {
				cnt++
				if cnt%step != 0 {
					continue
				}
				emitEval(o, a+" "+op+" "+b, 0, hosts, data, true)
			}
		}
		for _, pre := range []string{"-", "+", "!", "!!", "~", "typeof "} {
			emitEval(o, pre+a, 0, hosts, data, true)
		}
		for _, b := range names {
			emitEval(o, a+"("+b+")", 0, hosts, data, true)
			emitEval(o, a+"."+b, 0, hosts, data, true)
			emitEval(o, a+"("+b+"...)", 0, hosts, data, true)
		}
	}
}

// ---------- C10 ----------

func implFields(text string) string {
	src, err := formula.ParseSourceCode([]byte(text))
	if err != nil {
		return "parse-error"
	}
	f := func(g func(*formula.SourceCode) ([]string, error)) string {
		var fs []string
		var e error
		pan, _ := protect(func() { fs, e = g(src) })
		if pan {
			return "P"
		}
		if e != nil {
			return "E"
		}
		sort.Strings(fs)
		var hs []string
		for _, x := range fs {
			hs = append(hs, hx([]byte(x)))
		}
		return "F" + strings.Join(hs, ",")
	}
	a1, n1 := f(formula.ResolveReferenceFields), f(formula.ResolveReferenceFieldsNotLocal)
	a2, n2 := f(formula.ResolveReferenceFields), f(formula.ResolveReferenceFieldsNotLocal)
	// a second source parsed from the same text, queried in the other order
	src2, _ := formula.ParseSourceCode([]byte(text))
	src = src2
	n3, a3 := f(formula.ResolveReferenceFieldsNotLocal), f(formula.ResolveReferenceFields)
	if a1 != a2 || a1 != a3 || n1 != n2 || n1 != n3 {
		return a1 + "|" + n1 + "|unstable:" + a2 + "/" + n2 + "/" + a3 + "/" + n3
	}
	return a1 + "|" + n1
}

func suiteFields(o *Out, thorough bool, seed int64) {
	emit := func(t string) {
		obs := implFields(t)
		if obs == "parse-error" {
			return
		}
		line := "FD\t" + hx([]byte(t))
		o.Case(line, obs, strings.Count(t, " ") >= 1)
		// duplicates
		for _, part := range strings.Split(obs, "|") {
			if strings.HasPrefix(part, "F") {
				seen := map[string]bool{}
				for _, x := range strings.Split(part[1:], ",") {
					if x != "" && seen[x] {
						o.Fail(line, "duplicate field reported")
					}
					seen[x] = true
				}
			}
		}
		sufficiencyOracle(o, line, t, obs)
	}
	// names in the spellings real data has (camelCase, snake_case, capitals, digits, `$` inside): the reported names are
	// exactly the identifiers as written, and the result depends on nothing else
	for _, t := range []string{"unitPrice * 2 + qty", "userID ?? 'none'", "orderLines.itemCount + 1", "$t = unitPrice, $t + qty", "Name + name", "unit_price + unitPrice", "f(unitPrice, userID)", "qty2 + qty",
		"maxValue ? minValue : 0", "isOK && hasItems", "x1 + X1 + x_1", "typeof unitPrice", "[unitPrice, user_id, userId]", "this.unitPrice + 1", "lenOf ?? len2", "absValue ?? 1", "dateOfBirth.year"} {
		emit(t)
	}
	lex := []string{"a", "b", "$c", ".", "(", ")", "[", "]", ",", "=", "?", ":", "typeof", "+", "f", "...", "'s'", "this"}
	k := 4
	if thorough {
		k = 5
	}
	enumSeq(len(lex), k, func(idx []int) {
		if len(idx) == 0 {
			return
		}
		var parts []string
		for _, i := range idx {
			parts = append(parts, lex[i])
		}
		emit(strings.Join(parts, " "))
	})
	o.Notes = append(o.Notes, fmt.Sprintf("exhaustive: every accepted sequence of up to %d lexemes over an 18-lexeme alphabet", k))
	// names that differ in letter case only, prefixes of one another, repeated in every interleaving
	{
		nm := []string{"Total", "total", "TOTAL", "$Sum", "$sum", "row.Qty", "row.qty", "row", "Row.Qty", "tot", "totals", "a.b", "a.B", "a.b.c", "x$", "a$b", "$a$", "a.$b", "$a.b$"}
		enumSeq(len(nm), 3, func(idx []int) {
			if len(idx) < 2 {
				return
			}
			var parts []string
			for _, i := range idx {
				parts = append(parts, nm[i])
			}
			emit(strings.Join(parts, " + "))
			if len(idx) == 3 {
				emit(parts[0] + " > 0 ? " + parts[1] + " : f(" + parts[2] + ", " + parts[0] + ")")
			}
		})
		emit("$Sum = a, $sum = b, $Sum + $sum")
		// callee positions that are not names; keyword literals; the local named `$` itself
		for _, t := range []string{"f(a)(b)", "f(a)(b)(c)", "f(a)()", "g.h(a.b)(c)", "f($x)(1)", "f(a.b)(a)", "(a)(b)", "(x ? f : g)(a)", "f(x).g(y)", "(a).b(c)", "this.f(a)", "'s'.k(a)", "[a].k(b)", "a.b(c).d(e)",
			"false", "x == false", "false ? a : b", "f(false)", "[true, false, null, ctx, this]", "typeof false", "!false", "$a = false", "a.false", "false.a", "ctx.a", "true.a", "null.a", "a.true.b", "ctx", "f(ctx, true)",
			"$", "$ + a", "$.a", "$$", "$ = 1, $", "f($)", "$.a.b + $1", "_$", "$.$", "$a.$", "a.$.b", "a!.b", "a!.b.c", "a.b!.c + a.b", "typeof a.b", "-a.b.c", "a.b = 1", "$a.b = 1", "[a.b, a.b.c, a]", "a ? a.b : a.b.c"} {
			emit(t)
		}
	}
	r := newRand(seed, "fields")
	g := &gen{r: r, idents: []string{"a", "b", "c", "a.b", "a.b.c", "b.x", "A", "a.B", "B.x", "ab"}, funcs: []string{"f", "g.h", "a.f", "len"}, lits: []string{"1", "'s'", "null", "$c", "$d", "$C", "[a, b.x]", "(a).b", "f(a).b"}}
	n := 5000
	if thorough {
		n = 200000
	}
	for i := 0; i < n; i++ {
		emit(g.expr(0, 1+r.Intn(4)))
	}
}

// sufficiencyOracle: evaluating against the full data map and against the map restricted to the reported
// top-level names plus the called names gives the same result (formulas without `this`)
func sufficiencyOracle(o *Out, line, text, obs string) {
	if strings.Contains(text, "this") || !strings.HasPrefix(obs, "F") {
		return
	}
	src, err := formula.ParseSourceCode([]byte(text))
	if err != nil {
		return
	}
	fields, _ := formula.ResolveReferenceFields(src)
	keep := map[string]bool{}
	for _, f := range fields {
		keep[strings.SplitN(f, ".", 2)[0]] = true
	}
	var callees func(n formula.Expression)
	callees = func(n formula.Expression) {
		if n == nil || formula.IsNull(n) {
			return
		}
		switch e := n.(type) {
		case *formula.CallExpression:
			var top func(x formula.Expression)
			top = func(x formula.Expression) {
				switch y := x.(type) {
				case *formula.Identifier:
					keep[y.Value] = true
				case *formula.SelectorExpression:
					top(y.Expression)
				default:
					callees(x)
				}
			}
			top(e.Expression)
			for i := 0; e.Arguments != nil && i < e.Arguments.Len(); i++ {
				callees(e.Arguments.At(i))
			}
		case *formula.PrefixUnaryExpression:
			callees(e.Operand)
		case *formula.TypeOfExpression:
			callees(e.Expression)
		case *formula.BinaryExpression:
			callees(e.Left)
			callees(e.Right)
		case *formula.ConditionalExpression:
			callees(e.Condition)
			callees(e.WhenTrue)
			callees(e.WhenFalse)
		case *formula.ArrayLiteralExpression:
			for i := 0; i < e.Elements.Len(); i++ {
				callees(e.Elements.At(i))
			}
		case *formula.ParenthesizedExpression:
			callees(e.Expression)
		case *formula.SelectorExpression:
			callees(e.Expression)
		}
	}
	callees(src.Expression)
	var log callLog
	mk := func(restrict bool) string {
		hs := buildHosts("1:0:1:2:0:a:Ii:7", &log)
		full := map[string]interface{}{
			"a": map[string]interface{}{"b": map[string]interface{}{"c": 1}, "f": hs[1], "x": 2}, "b": map[string]interface{}{"x": "bx"},
			"c": 3, "f": hs[1], "g": map[string]interface{}{"h": hs[1]}, "$c": 10, "$d": "d", "extra": 99, "len2": 5,
			"qty": 3, "orderLines": map[string]interface{}{"itemCount": 2, "item_count": 9}, "unit_price": 10, "user_id": "u1", "Name": "cap", "name": "low",
		}
		// entries whose KEY is a dotted path (rows often arrive flat): no formula can name them - an identifier has
		// no dot - so they are never among the reported top-level names and evaluation may not depend on them
		for _, k := range []string{"a.b", "a.b.c", "a.x", "a.nope", "a.f", "b.x", "b.y", "c.d", "g.h", "g.nope", "nope.k", "$c.x", "extra.k", "a.b.c.d", "a!.b", "this.a", "this.c"} {
			full[k] = "flat:" + k
		}
		for _, f := range fields {
			if strings.Contains(f, ".") {
				full[f] = "flat:" + f
			}
		}
		// entries whose key is another SPELLING of a name the formula reads (snake_case for camelCase, other letter
		// case, a plural, a prefix, decorated with underscores or `$`): not reported, so evaluation may not depend on them
		for k := range keep {
			for _, tw := range spellingTwins(k) {
				if _, isField := full[tw]; !keep[tw] && !isField {
					full[tw] = "twin:" + tw
				}
			}
		}
		m := map[string]interface{}{}
		for k, v := range full {
			if !restrict || keep[k] {
				m[k] = v
			}
		}
		r := formula.NewRunner()
		r.SetThis(m)
		var v interface{}
		var e error
		pan, _ := protect(func() { v, e = r.VerifResolveRaw(context.Background(), src.Expression) })
		if pan {
			return "P"
		}
		if e != nil {
			return "E"
		}
		return enc(v)
	}
	if a, b := mk(false), mk(true); a != b {
		o.Fail(line, fmt.Sprintf("fields not sufficient for %q: full data gives %s, data restricted to the reported fields gives %s", text, a, b))
	}
}

// ---------- C11 ----------

var bridgeArgVals = []string{"N", "T", "F", "Ii:0", "Ii:5", "D-:25:-1", "D+:3:0", "D+:12345678901:0", "D+:9007199254740993:0", "D-:9223372036854775807:0", "D+:1234567890123456789:-1", "D+:99999999999999999999:-20", "D-:4199999999999999999999:-20", "D+:45035996273704975:-1", "D+:675539944105574375:-2", "D+:12345678901234567:-3", "D+:9007199254740993:-5", "D+:1000000000000000055511151231257827:-34", "D+:29999999999999999999:-19",
	"Dnan", "Dinf", "D-inf", "D+:9223372036854775808:0", "D+:9223372036854775807:0", "D-:9223372036854775809:0", "D+:1:19", "D-:1:19", "D+:1:400", "D+:1:3", "D+:12:17", "D+:5:0", "D+:300:0", "D-:129:0", "D+:127:0", "D-:128:0",
	"D+:40000:0", "D+:2147483648:0", "D-:2147483649:0", "D+:1677721700000000000000001:-17", "D+:1000000059604644775390625000000001:-33", "D+:100000005960464478:-17", "D+:1000000059604644775390625:-24", "D+:34028235677973366:22",
	"A2 Ii:65 Ii:66", "A2 Ii64:65 Ii32:66", "A3 Ii:1 G312e35 T", "A1 A2 D+:1:0 N", "A2 N " + "S61", "O2 S61 Ii:1 S62 S78", "O2 S61 N S62 Ii:1", "O1 S6b A1 N", "Pd", "Ps", "g302e3130303030303030313439303131363132", ws(""), ws("txt"), ws("12"),
	"A0", "A2 D+:1:0 D+:2:0", "A2 " + ws("a") + " " + ws("b"), "A2 D+:1:0 N", wmap("k", "D+:1:0"), "O0", "M1700000000000000000:0", "P", "G" + hx([]byte("1.5")), "Iu8:7", "Iup:65", "Iu64:66"}

var bridgeTypes = []string{"s", "b", "i", "i8", "i16", "i32", "i64", "f32", "f64", "a", "d", "t", "[s", "[d", "[a", "[i", "{a", "{s", "u8", "Ns", "Nb", "Ni", "Ni32", "Ni64", "Nf32", "Nf64", "Na", "N[s", "[Ns", "[Ni64", "{Ns"}

func suiteBridge(o *Out, thorough bool, seed int64) {
	twinsEnabled = true
	defer func() { twinsEnabled = false }()
	r := newRand(seed, "bridge")
	emit := func(h hostSpec, args []string, spread bool) {
		hosts := h.String()
		kv := []string{"h", "H1"}
		var names []string
		for i, a := range args {
			n := fmt.Sprintf("a%d", i)
			kv = append(kv, n, a)
			names = append(names, n)
		}
		t := "h(" + strings.Join(names, ", ")
		if spread {
			t += "..."
		}
		t += ")"
		emitEval(o, t, 0, hosts, wmap(kv...), true)
	}
	// the arguments of a call are evaluated - left to right, each nested call invoked once, each assignment bound -
	// whatever the callee turns out to be: a number, a string, a map, null, an undefined name, the result of a call
	{
		hosts := "1:0:0:2:0:a:Ii:42;2:0:1:2:0:a:" + ws("r")
		d := wmap("rate", "D+:19:-2", "s", ws("txt"), "m", wmap("k", "Ii:1", "h", "H1"), "n", "N", "h", "H1", "v", "H2", "arr", "A1 Ii:1", "p", "P")
		for _, t := range []string{"rate(h(7), $seen = 1)", "nofn(h(8))", "s(h(1), h(2))", "m(h(1))", "n(h(1))", "m.k(h(1))", "m.nope(h(1), $a = 2)", "h(1)(h(2))", "(1)(h(3))", "rate(h(1), nofn(h(2)))",
			"rate(n!.x, h(1))", "rate(h(1), n!.x, h(2))", "arr(h(1))", "p(h(1))", "'lit'(h(1), $b = h(2))", "null(h(1))", "true(h(1))", "[1](h(1))", "rate(v(1, 2), v(3))", "rate(h(1)...)", "rate(h(1), arr...)",
			"rate(h(h(1)))", "nofn($a = h(1), $a)", "(rate)(h(1))", "this.rate(h(1))", "this.nofn(h(1), h(2))", "rate(h(1)) ?? h(2)", "[h(1), rate(h(2)), h(3)]", "h(rate(h(1)))", "h(1), rate(h(2)), h(3)",
			"m.h(h(5))", "m.h(rate(h(5)))", "rate(m.h(5), m.h(6))", "rate()", "nofn()",
			// the operand of a spread is the LAST argument: evaluated after the arguments in front of it
			"v(h(1), [h(2)]...)", "v($n = 1, [$n, 2]...)", "v($n = 1, $n = 2, [$n]...)", "v([h(1)]...)", "v(h(1), h(2), [h(3), h(4)]...)", "v(h(1), nofn(h(2))...)", "v(n!.x, [h(1)]...)", "v(h(1), n!.x...)",
			"v($a = [1], $a...)", "v($a = 1, ($a = [2, 3])...)", "h(h(1), [h(2)]...)", "v(h(1), [h(2)]..., 3)", "[v(h(1), [h(2)]...), v(h(3), [h(4)]...)]", "rate($x = 1), $x", "$f = rate, $f(h(1))", "$f = h, $f($f(1))", "(n ?? rate)(h(1))", "(n ?? h)(h(1))"} {
			emitEval(o, t, 0, hosts, d, true)
		}
		o.Stat("non-function-callees-with-effects")
	}
	formatOracle(o)
	ifaceParamOracle(o)
	// exhaustive: every signature with 0..1 parameters (x ctx x variadic) x every argument list of length 0..2
	for _, ctx := range []bool{false, true} {
		for _, variadic := range []bool{false, true} {
			sigs := [][]string{{}}
			if variadic {
				sigs = nil
			}
			for _, t := range bridgeTypes {
				sigs = append(sigs, []string{t})
			}
			for _, ps := range sigs {
				h := hostSpec{id: 1, ctx: ctx, variadic: variadic, nres: 2, params: ps, result: "Ii:42"}
				emit(h, nil, false)
				for _, a := range bridgeArgVals {
					emit(h, []string{a}, false)
					emit(h, []string{a}, true)
				}
				if thorough || variadic {
					for _, a := range bridgeArgVals {
						for _, b := range bridgeArgVals[:8] {
							emit(h, []string{a, b}, false)
						}
					}
				}
			}
		}
	}
	o.Notes = append(o.Notes, fmt.Sprintf("exhaustive: all signatures with 0..1 parameters over %d types x optional context x variadic, x every argument list of length 0..1 (and 2 for variadic) over a %d-value grid, with and without spread", len(bridgeTypes), len(bridgeArgVals)))
	// nested calls in every argument position and several calls by one runner (each call gets its own arguments)
	{
		hosts := "1:0:0:2:0:a,a:Ii:100;2:0:0:2:0:a:Ii:7;3:1:1:2:0:a,a:S" + hx([]byte("v"))
		data := wmap("p", "H1", "q", "H2", "v", "H3", "x", "Ii:5", "y", ws("s"))
		for _, t := range []string{"p(5, q(3))", "p(q(1), 2)", "p(q(1), q(2))", "p(1, 2) + p(5, q(3))", "p(1, 2), p(3, p(4, q(5)))", "v(1, 2, 3), v(4, q(5), 6)",
			"max(1, 2) + max(5, abs(3))", "max(1, 2, 3), max(9, min(4, 5))", "p(x, q(y)) + p(q(x), y)", "[p(1, 2), p(3, q(4))]", "q(1), q(2), p(q(3), q(4))",
			"left('abcdef', len('abc')) + right('abcdef', len('ab'))", "v(x, [1, 2]...)", "v(1), v(1, 2), v(1, 2, 3), v(q(1), q(2))", "p(p(p(1, 2), 3), p(4, p(5, 6)))"} {
			emitEval(o, t, 0, hosts, data, true)
		}
	}
	// results: returned Go numbers are normalised; errors abort; wrong result count
	for _, res := range []string{"Ii:7", "Ii32:-7", "Ii64:9007199254740993", "G" + hx([]byte("0.1")), "Ii8:7", "Iu:7", "Iup:7", ws("s"), "N", "T", "A1 Ii:1", "Pd", "P", "g302e3130303030303030313439303131363132", "G4e614e", "G2d496e66", "M86400000000000:3600", "O1 S6b Ii:0", structWire(0)} {
		for _, fail := range []bool{false, true} {
			for _, nres := range []int{2, 1, 3} {
				h := hostSpec{id: 1, nres: nres, fail: fail, params: []string{"a"}, result: res}
				emit(h, []string{"Ii:1"}, false)
			}
		}
	}
	// a failing host function: the error names the call as it is written in the formula
	{
		fail := func(x interface{}) (interface{}, error) { return nil, fmt.Errorf("boom") }
		okf := func(x interface{}) (interface{}, error) { return x, nil }
		fd := map[string]interface{}{"fail": fail, "ok": okf, "mod": map[string]interface{}{"fail": fail, "ok": okf}}
		for _, c := range []struct{ text, name string }{{"fail(1)", "fail"}, {"mod.fail(1)", "mod.fail"}, {"mod!.fail(1)", "mod.fail"}, {"ok(fail(1))", "fail"}, {"ok(mod.fail(ok(2)))", "mod.fail"},
			{"[ok(1), fail(2)]", "fail"}, {"fail(1) + ok(2)", "fail"}, {"ok(1), fail(2), ok(3)", "fail"}, {"ok(1) ? fail(2) : 3", "fail"}, {"$a = fail(1)", "fail"}} {
			nt := "NOP\terrname\t" + hx([]byte(c.text))
			o.Case(nt, "-", true)
			src, err := formula.ParseSourceCode([]byte(c.text))
			if err != nil {
				continue
			}
			rn := formula.NewRunner()
			rn.SetThis(fd)
			v, e := rn.Resolve(context.Background(), src.Expression)
			if e == nil || v != nil {
				o.Fail(nt, fmt.Sprintf("a host function returned an error but %q evaluated to %v, %v", c.text, v, e))
			} else if !strings.Contains(e.Error(), "'"+c.name+"'") && !strings.Contains(e.Error(), " "+c.name+" ") {
				o.Fail(nt, fmt.Sprintf("the error of %q does not name the function %s: %s", c.text, c.name, e.Error()))
			} else if !strings.Contains(e.Error(), "boom") {
				o.Fail(nt, fmt.Sprintf("the error of %q lost the function's own error: %s", c.text, e.Error()))
			}
		}
	}
	// a context that is cancelled or past its deadline is still handed to the function, which is still called once:
	// what cancellation means is the function's business
	{
		type ck struct{}
		for ci, mk := range []func() (context.Context, context.CancelFunc){
			func() (context.Context, context.CancelFunc) { c, f := context.WithCancel(context.WithValue(context.Background(), ck{}, "v")); f(); return c, f },
			func() (context.Context, context.CancelFunc) { return context.WithDeadline(context.WithValue(context.Background(), ck{}, "v"), time.Unix(1, 0)) },
			func() (context.Context, context.CancelFunc) { return context.WithTimeout(context.WithValue(context.Background(), ck{}, "v"), time.Hour) },
		} {
			cctx, cancel := mk()
			calls := 0
			var seen context.Context
			audit := func(c context.Context, x interface{}) (interface{}, error) { calls++; seen = c; return "ok", nil }
			plain := func(x interface{}) (interface{}, error) { calls += 10; return "p", nil }
			nt := fmt.Sprintf("NOP\tctx-state\t%d", ci)
			o.Case(nt, "-", true)
			src, _ := formula.ParseSourceCode([]byte("[audit(1), plain(2), len('abc')]"))
			rn := formula.NewRunner()
			rn.SetThis(map[string]interface{}{"audit": audit, "plain": plain})
			v, e := rn.Resolve(cctx, src.Expression)
			cancel()
			if e != nil || calls != 11 || seen == nil || seen.Value(ck{}) != "v" {
				o.Fail(nt, fmt.Sprintf("with a context in state %d (0 cancelled, 1 past its deadline, 2 live) the host functions were called %d times (11 = each once), saw the caller's context: %v; result %v, %v", ci, calls, seen != nil && seen.Value(ck{}) == "v", v, e))
			}
		}
	}
	// arguments written in the formula (literals, computed values) rather than read from the data
	{
		for _, p := range []string{"s", "i", "i8", "i64", "f32", "f64", "a", "d", "[i", "[s", "[a", "[f64", "Ns", "Ni64"} {
			for _, a := range []string{"1e3", "2.50", "0 * -1", "-0", "7 / 2", "1/3", "[1e3, 2.5e-1]", "['a', ['b']]", "1e19", "-1e19", "1/0", "toFloat('x')", "9223372036854775808", "0.99999999999999999999",
				"null", "[null]", "[1, null]", "'65'", "true", "[true, 2.5]", "16777217.00000000000000001", "3.4028235677973366e38", "1e-50", "12e17", "0.5e1"} {
				h := hostSpec{id: 1, nres: 2, params: []string{p}, result: "Ii:1"}
				emitEval(o, "h("+a+")", 0, h.String(), wmap("h", "H1"), true)
			}
		}
		hv := hostSpec{id: 1, variadic: true, nres: 2, params: []string{"s", "a"}, result: "Ii:1"}
		for _, t := range []string{"h('a', [1, null, 'x']...)", "h('a', [null]...)", "h('a', null)", "h('a', [[null]]...)", "h('a', ids...)", "h(ids...)"} {
			emitEval(o, t, 0, hv.String(), wmap("h", "H1", "ids", "A2 Ii:65 Ii:66"), true)
		}
	}
	n := 6000
	if thorough {
		n = 300000
	}
	for i := 0; i < n; i++ {
		np := r.Intn(4)
		var ps []string
		for j := 0; j < np; j++ {
			ps = append(ps, bridgeTypes[r.Intn(len(bridgeTypes))])
		}
		h := hostSpec{id: 1, ctx: r.Intn(3) == 0, variadic: np > 0 && r.Intn(3) == 0, nres: 2, params: ps, result: "Ii:1"}
		na := r.Intn(np + 3)
		var args []string
		for j := 0; j < na; j++ {
			args = append(args, bridgeArgVals[r.Intn(len(bridgeArgVals))])
		}
		emit(h, args, r.Intn(6) == 0)
	}
}

// ---------- C16 ----------

func suiteNames(o *Out, thorough bool, seed int64) {
	twinsEnabled = true
	defer func() { twinsEnabled = false }()
	inner := wmap("k", "Ii:1", "z", "Ii:0", "s", ws("str"), "n", "N", "p", "P", "b", "F", "deep", wmap("k", "Ii64:-5", "f", "G"+hx([]byte("2.5")), "u", "Iu8:3"))
	data := wmap("a", inner, "b", wmap("a", inner), "n", "N", "p", "P", "ps", "Ps", "pt", "Pt", "pd", "Pd", "len", "Ii:99", "max", ws("shadow"), "num", "Ii32:7", "str", ws("x"),
		"t", "M0:0", "arr", "A1 Ii:1", "i8", "Ii8:5", "f", "G"+hx([]byte("0.25")), "tr", "T",
		"tm", "Q3 S"+hx([]byte("a"))+" Ii:0 S"+hx([]byte("b"))+" Ii:5 S"+hx([]byte("z"))+" Ii:-1", "pi", "G"+hx([]byte("3.141592653589793")), "amt", "G"+hx([]byte("1234567.891")), "big", "G"+hx([]byte("16777217")), "i64", "Ii64:9007199254740993", "neg", "Ii32:-2147483648", "tiny", "G"+hx([]byte("0.000001234567891")))
	keys := []string{"a", "b", "k", "z", "n", "p", "deep", "missing", "len", "s"}
	seps := []string{".", "!."}
	// every path of depth 0..3 over the key universe with . / !. at each position (roots: data names and this)
	roots := []string{"a", "b", "n", "p", "ps", "pt", "pd", "len", "max", "num", "str", "missing", "this", "arr", "i8", "f", "tr"}
	for _, t := range []string{"tm.a", "tm.b", "tm.z", "tm.missing", "tm.a == 0", "tm.a == null", "tm!.a", "tm.a + 1", "pi", "amt", "big", "i64", "neg", "tiny", "this.pi", "this.amt", "amt == 1234567.891", "big - 16777216", "pi * 2", "i64 - 9007199254740992", "[pi, amt, big]", "tiny * 1e6"} {
		emitEval(o, t, 0, "-", data, true)
	}
	depth := 2
	if thorough {
		depth = 3
	}
	var rec func(prefix string, d int)
	rec = func(prefix string, d int) {
		emitEval(o, prefix, 0, "-", data, d >= 1)
		emitEval(o, prefix+" == null", 0, "-", data, true)
		if d == depth {
			return
		}
		for _, s := range seps {
			for _, k := range keys {
				rec(prefix+s+k, d+1)
			}
		}
	}
	for _, root := range roots {
		rec(root, 0)
	}
	o.Notes = append(o.Notes, fmt.Sprintf("exhaustive: every dotted path of depth 0..%d over %d roots and a %d-key universe with . and !. at every position, against a nested data map; also each compared with null", depth, len(roots), len(keys)))
	for _, d := range []string{"-", "O0"} {
		for _, t := range []string{"a", "a.b", "a.b.c", "a!.b", "this", "this.a", "this.a.b", "len", "len.x", "abs", "a == null", "a === null", "this == null"} {
			emitEval(o, t, 0, "-", d, true)
		}
	}
	// a name is looked up as it is written: no other spelling of it is tried
	{
		d := wmap("unit_price", "Ii:10", "qty", "Ii:3", "user_id", ws("u1"), "USERID", ws("U"), "Name", ws("cap"), "m", wmap("item_count", "Ii:9", "ItemCount", "Ii:8"), "len_", "Ii:1", "_x", "Ii:2", "x_", "Ii:4", "xs", "Ii:5")
		for _, t := range []string{"unitPrice * 2 + qty", "userId ?? 'none'", "userID ?? 'none'", "name ?? 'none'", "Name", "m.itemCount ?? 0", "m.item_count + m.ItemCount", "x ?? 'none'", "Qty ?? 0", "QTY ?? 0",
			"this.unitPrice ?? 'none'", "[unitPrice, unit_price, UnitPrice]", "len_ + 1", "typeof unitPrice", "$x = unitPrice, $x ?? qty"} {
			emitEval(o, t, 0, "-", d, true)
		}
	}
	// keys that look like paths (flat rows): `a.b` is member b of entry a, never the entry called "a.b"
	{
		d := wmap("a", wmap("x", "Ii:1", "b.c", "Ii:7"), "a.b", "Ii:2", "a.b.c", "Ii:3", "a.x", "Ii:4", "n", "N", "n.k", "Ii:5", "this.a", "Ii:6", "a!.b", "Ii:8", "s", ws("str"), "s.len", "Ii:9", "len.x", "Ii:10", "$l.k", "Ii:11", ".", "Ii:12", "a.", "Ii:13")
		for _, t := range []string{"a.b", "a.b.c", "a.x", "a!.b", "n.k", "n!.k", "this.a.b", "this.a.x", "a.b ?? 'none'", "a.b == null", "[a.b, a.x, n.k]", "s.len", "len.x", "$l = a, $l.k", "$l = a, $l.x", "a.nope.k", "toString(a.b.c)", "typeof a.b", "a.b.c ?? a.x", "this['a.b']"} {
			emitEval(o, t, 0, "-", d, true)
		}
	}
	// a nil *decimal.Big is null like every other typed nil pointer, wherever it is used
	for _, t := range []string{"pd", "pd == null", "pd === null", "null === pd", "pd !== null", "!pd", "!!pd", "pd ?? 0", "pd ? 1 : 2", "pd + 1", "1 - pd", "-pd", "+pd", "abs(pd)", "max(pd, 1)", "typeof pd",
		"pd.k", "pd!.k", "toString(pd)", "finite(pd)", "[pd]", "$a = pd, $a == null", "pd == p", "pd === p", "a.pd", "len(pd)", "pd < 1", "pd && 1", "pd || 2"} {
		emitEval(o, t, 0, "-", data, true)
	}
	// struct values: exported fields, fields promoted from embedded structs (by value, by pointer, two levels, hidden
	// by an outer field), unexported and missing names (errors), structs inside maps and arrays
	{
		sd := wmap("tg", structWire(11), "ra", structWire(12), "rb", structWire(13), "base", structWire(0), "acct", structWire(2), "pe", structWire(5), "pn", structWire(6), "sh", structWire(7), "deep", structWire(9),
			"w", wmap("s", structWire(2), "n", "N"), "arr", "A2 "+structWire(0)+" "+structWire(5), "dp", structWire(14), "amb", structWire(17))
		sroots := []string{"base", "acct", "pe", "pn", "sh", "deep", "w.s", "arr[0]", "arr[1]", "acct.SBase", "acct.Nested", "sh.SBase", "deep.SPtrEmb", "tg", "ra", "rb", "dp", "dp.SMeta", "dp.SRow", "amb", "amb.SAmbigA", "amb.SAmbigB"}
		snames := []string{"DisplayName", "Other", "Lower", "lower", "balance", "Qty", "Part", "Note", "ID", "Owner", "hidden", "K", "S", "Name", "Balance", "Tags", "Meta", "Ptr", "When", "Nested", "Any", "Ratio", "Count", "Flag", "secret",
			"SBase", "SInner", "SPtrEmb", "Level", "id", "Missing", "k", "Rev", "X", "Y", "OnlyA", "OnlyB", "SMeta", "SRow", "sAudit", "SAmbigA", "SAmbigB"}
		for _, rt := range sroots {
			for _, nm := range snames {
				for _, sep := range []string{".", "!."} {
					emitEval(o, rt+sep+nm, 0, "-", sd, true)
				}
				emitEval(o, rt+"."+nm+" == null", 0, "-", sd, true)
			}
			emitEval(o, rt, 0, "-", sd, true)
		}
		for _, t := range []string{"[ra.Qty, rb.Qty, ra.Qty, rb.Part, ra.Part]", "[rb.Qty, ra.Qty]", "tg.Name + '/' + tg.DisplayName", "tg.Balance + tg.Other", "acct.ID + 1", "acct.ID === 42", "acct.Owner + '!'", "acct.Balance * 2", "acct.Nested.K + 1", "acct.Nested.K === 9007199254740993", "acct.Meta.k", "acct.Meta.zz",
			"acct.Tags[0]", "acct.Tags[1] + 1", "acct.Ptr.ID", "acct.Ptr!.ID", "acct.Any.x", "acct.Count * acct.Ratio", "acct.Flag ? acct.ID : 0", "year(acct.When)", "acct.SBase.Owner",
			"sh.ID + sh.SBase.ID", "deep.K + deep.Level", "deep.SPtrEmb.Name", "pe.K", "pn.K", "pn.Name", "[base.ID, acct.ID, sh.ID]", "w.n.ID", "w.s.Nested.S == ''", "len(acct.Owner)",
			"$a = acct.ID, $a + acct.ID", "acct.Missing ?? 1", "typeof acct", "typeof acct.ID", "acct == acct", "acct.Nested == acct.Nested", "!!acct", "acct ? 1 : 2", "acct && acct.ID"} {
			emitEval(o, t, 0, "-", sd, true)
		}
		o.Stat("struct-programs")
	}
	passThroughOracle(o)
}

// ---------- C12 ----------

func suiteLiterals(o *Out, thorough bool, seed int64) {
	// several literals that take the scanner's slow path (separators) in one formula
	for _, t := range []string{"1_0 + 2_0", "[1_1, 2_2, 3_3]", "1_0e1_0 * 2_0", "f(1_0, 0.5_5)", "1_0 + 20 + 3_0", "1_0.2_5 + 1_0.2_5", "[1_000, 1000, 1_0_0_0]", "1_0 == 10 && 2_0 == 20", "0x1F + 1_0 + 0x0_F", "1_0, 2_0, 3_0", "-1_0 - -2_0", ".5_5 + 5_5.", "1e1_0 + 1_0e1"} {
		emitEval(o, t, 0, "1:0:0:2:0:a,a:Ii:1", wmap("f", "H1"), true)
	}
	alpha := []string{"0", "1", "9", ".", "e", "E", "+", "-", "_"}
	k := 5
	if thorough {
		k = 7
	}
	ctxs := []string{"%s", "[%s]", "1 + %s", "-%s", "(%s)", "f(%s)"}
	enumSeq(len(alpha), k, func(idx []int) {
		if len(idx) == 0 {
			return
		}
		var sb strings.Builder
		for _, i := range idx {
			sb.WriteString(alpha[i])
		}
		s := sb.String()
		if s[0] == '+' || s[0] == '-' || s[0] == 'e' || s[0] == 'E' || s[0] == '_' {
			return // not a literal start
		}
		c := ctxs[len(s)%len(ctxs)]
		emitEval(o, fmt.Sprintf(c, s), 0, "1:0:0:2:0:a:N", wmap("f", "H1"), len(s) >= 2)
		if len(s) <= 3 {
			for _, c2 := range ctxs {
				emitEval(o, fmt.Sprintf(c2, s), 0, "1:0:0:2:0:a:N", wmap("f", "H1"), true)
			}
		}
	})
	o.Notes = append(o.Notes, fmt.Sprintf("exhaustive: every spelling of up to %d characters over {0,1,9,.,e,E,+,-,_} starting with a digit or '.', embedded in 6 contexts", k))
	for _, h := range []string{"0x1f", "0xA", "0XfF", "0x0", "0x", "0xg", "0x1g", "0xffffffffffffffffffff", "0x10 + 1", "1 + 0x1 2", "00x1", "0x1.5", "0x_1", "1x1", "0b1", "0o7"} {
		for _, c := range ctxs {
			emitEval(o, fmt.Sprintf(c, h), 0, "1:0:0:2:0:a:N", wmap("f", "H1"), true)
		}
	}
	r := newRand(seed, "literals")
	n := 5000
	if thorough {
		n = 200000
	}
	// "however many digits it has": digit groups far beyond 40 digits, around the sizes a fixed buffer would have
	// (64, 128, 256, ... ) with separators at the first gap, the last gap, every third digit and at random, in the
	// integer part, the fraction and both; the literal must equal the same digits written without separators
	{
		// (the extracted model reads and prints digit strings in quadratic time: the sizes of the quick tier stop at 1025)
		sizes := []int{41, 63, 64, 65, 66, 67, 100, 127, 128, 129, 200, 255, 256, 257, 511, 512, 513, 1023, 1024, 1025}
		if thorough {
			sizes = append(sizes, 2047, 2048, 2049, 4095, 4096, 4097)
		}
		group := func(n int, mode int) (string, string) {
			var plain, sep strings.Builder
			for i := 0; i < n; i++ {
				c := byte('0' + r.Intn(10))
				if i == 0 {
					c = byte('1' + r.Intn(9))
				}
				plain.WriteByte(c)
				sep.WriteByte(c)
				if i+1 < n && ((mode == 1 && i == 0) || (mode == 2 && i == n-2) || (mode == 3 && i%3 == 2) || (mode == 4 && r.Intn(4) == 0) || (mode == 5 && i == 63) || (mode == 6 && i == n/2)) {
					sep.WriteByte('_')
				}
			}
			return plain.String(), sep.String()
		}
		for _, sz := range sizes {
			for mode := 0; mode <= 6; mode++ {
				ip, is := group(sz, mode)
				fp, fs := group(sz, mode)
				sp, ss := group(3, 0)
				for _, pr := range [][2]string{{ip, is}, {"0." + fp, "0." + fs}, {ip + "." + sp, is + "." + ss}, {sp + "." + fp, ss + "." + fs}, {ip + "e-" + sp, is + "e-" + ss}} {
					got := resultOf(emitEval(o, pr[1]+" == "+pr[0], 0, "-", "-", true))
					if sz <= 300 {
						emitEval(o, "["+pr[1]+"]", 0, "-", "-", true)
					}
					if got != "V T" {
						o.Fail(fmt.Sprintf("EV\t%s\t0\t-\t-", hx([]byte(pr[1]+" == "+pr[0]))), fmt.Sprintf("a literal of %d digits with separators (placement %d) does not equal the same digits without: %s", sz, mode, got))
					}
				}
			}
		}
		o.Stat("long-literal-groups")
	}
	// literals whose TEXT is far longer than any formula of the other suites but whose value is small: leading zeros
	// are insignificant and a fraction may start after any number of zeros (cheap for the library, which skips them;
	// judged on the Go side - the model would have to read a million digits)
	for _, n := range []int{65537, 1<<20 - 1, 1 << 20, 1<<20 + 1, 3000001} {
		zeros := strings.Repeat("0", n)
		for _, c := range []struct{ text, what string }{{zeros + "7 === 7", "leading zeros are insignificant"}, {zeros + "7 + 1 === 8", "leading zeros are insignificant"},
			{"0." + zeros + "5 > 0", "a fraction after many zeros is that number"}, {"0." + zeros + "5 < 1e-" + fmt.Sprint(n), "a fraction after many zeros is that number"},
			{zeros[:n/2] + "_" + zeros[n/2:] + "12 === 12", "separators and leading zeros"}} {
			nt := fmt.Sprintf("NOP\tlongtext\t%d:%s", n, c.what)
			o.Case(nt, "-", true)
			src, err := formula.ParseSourceCode([]byte(c.text))
			if err != nil {
				o.Fail(nt, fmt.Sprintf("a literal of %d characters is rejected: %.200s", n+1, err.Error()))
				continue
			}
			rn := formula.NewRunner()
			var v interface{}
			pan, msg := protect(func() { v, err = rn.Resolve(context.Background(), src.Expression) })
			if pan || err != nil || v != true {
				o.Fail(nt, fmt.Sprintf("a literal of %d characters (%s): %v %v %.200s", n+1, c.what, v, err, msg))
			}
		}
	}
	digits := func(n int, sep bool) string {
		var sb strings.Builder
		for i := 0; i < n; i++ {
			sb.WriteByte(byte('0' + r.Intn(10)))
			if sep && i+1 < n && r.Intn(4) == 0 {
				sb.WriteByte('_')
			}
		}
		return sb.String()
	}
	for i := 0; i < n; i++ {
		sep := r.Intn(3) == 0
		var s string
		switch r.Intn(4) {
		case 0:
			s = digits(1+r.Intn(40), sep)
		case 1:
			s = digits(1+r.Intn(40), sep) + "." + digits(1+r.Intn(40), sep)
		case 2:
			s = "." + digits(1+r.Intn(40), sep)
		default:
			s = digits(1+r.Intn(40), sep) + "."
		}
		if r.Intn(2) == 0 {
			s += []string{"e", "E"}[r.Intn(2)] + []string{"", "+", "-"}[r.Intn(3)] + digits(1+r.Intn(3), sep)
		}
		// occasionally break it
		if r.Intn(8) == 0 {
			p := r.Intn(len(s) + 1)
			s = s[:p] + []string{"_", "__", "a", "e", ".", "x"}[r.Intn(6)] + s[p:]
		}
		// keep exponents small: a huge exponent makes exact arithmetic astronomically large (and is the
		// library's overflow territory, outside the property)
		if i := strings.IndexAny(s, "eE"); i >= 0 {
			nd := 0
			for _, c := range s[i+1:] {
				if c >= '0' && c <= '9' {
					nd++
				}
			}
			if nd > 3 || strings.ContainsAny(s[i+1:], "eE") {
				continue
			}
		}
		emitEval(o, fmt.Sprintf(ctxs[r.Intn(len(ctxs))], s), 0, "1:0:0:2:0:a:N", wmap("f", "H1"), true)
	}
}

// ---------- C13 ----------

// escapeText is the reference escaper of the property: delimiter, backslash and line breaks are escaped;
// anything else may be escaped too; equivalent escape forms are chosen at random
func escapeText(r *rand.Rand, text []byte, q byte) string {
	var sb strings.Builder
	simple := map[rune]string{'\'': `\'`, '"': `\"`, '\\': `\\`, '\n': `\n`, '\r': `\r`, '\t': `\t`, '\b': `\b`, '\f': `\f`, '\v': `\v`, 0: `\0`}
	for len(text) > 0 {
		c, size := decodeRuneGo(text)
		raw := text[:size]
		text = text[size:]
		valid := !(c == 0xFFFD && size == 1)
		must := c == rune(q) || c == '\\' || c == '\n' || c == '\r' || c == 0x2028 || c == 0x2029 || c == 0x85
		if !must && (!valid || r.Intn(4) != 0) {
			sb.Write(raw)
			continue
		}
		var forms []string
		if s, ok := simple[c]; ok {
			forms = append(forms, s)
		}
		if valid && c < 256 {
			forms = append(forms, fmt.Sprintf(`\x%02x`, c), fmt.Sprintf(`\x%02X`, c))
		}
		if valid && c < 65536 && !(c >= 0xD800 && c <= 0xDFFF) {
			forms = append(forms, fmt.Sprintf(`\u%04x`, c), fmt.Sprintf(`\u%04X`, c))
		}
		if len(forms) == 0 {
			sb.Write(raw) // characters above U+FFFF have no escape: they are never "must"
			continue
		}
		sb.WriteString(forms[r.Intn(len(forms))])
	}
	return sb.String()
}

func suiteStrings(o *Out, thorough bool, seed int64) {
	r := newRand(seed, "strings")
	syms := [][]byte{[]byte("a"), []byte("'"), []byte("\""), []byte("\\"), []byte("\n"), []byte("\r"), []byte("\t"), {0}, {8}, {11}, {12}, {0x7f},
		[]byte("é"), []byte("ÿ"), []byte("\u0085"), []byte("\u2028"), []byte("\u2029"), []byte("€"), []byte("😀"), {0xff}, {0xc3}, {0xe2, 0x82}, {0x80}, []byte("0"), []byte("x"), []byte("u"), []byte("f"), []byte("7"), []byte("1"), []byte("9")}
	checkLit := func(lit string, text []byte) {
		line := fmt.Sprintf("EV\t%s\t0\t-\t-", hx([]byte(lit)))
		obs := emitEval(o, lit, 0, "-", "-", len(text) >= 2)
		want := "V S" + hx(text)
		if got := strings.SplitN(obs, "|", 2)[0]; got != want {
			o.Fail(line, fmt.Sprintf("string literal does not round-trip: %q evaluates to %s, required %s", lit, got, want))
		}
	}
	check := func(text []byte) {
		for _, q := range []byte{'\'', '"'} {
			for v := 0; v < 2; v++ {
				checkLit(string(q)+escapeText(r, text, q)+string(q), text)
			}
		}
	}
	// byte sequences that are NOT UTF-8 but would decode - for a decoder that forgets a range check - to a character
	// that matters inside a literal (either quote, the backslash, every line break, a space, a letter): overlong forms
	// in 2, 3 and 4 bytes, surrogates, values above U+10FFFF, truncated sequences; raw in the literal body, at the
	// start, in the middle and at the end: they are unescaped bytes and are preserved verbatim
	{
		var seqs [][]byte
		for _, c := range []rune{0x22, 0x27, 0x5c, 0x0a, 0x0d, 0x85, 0x2028, 0x2029, 0x20, 0x6e, 0x00, 0x7f, 0x80, 0x7ff, 0x800, 0xffff} {
			if c < 0x80 {
				seqs = append(seqs, []byte{0xc0 | byte(c>>6), 0x80 | byte(c&0x3f)})
			}
			if c < 0x800 {
				seqs = append(seqs, []byte{0xe0, 0x80 | byte(c>>6), 0x80 | byte(c&0x3f)})
			}
			seqs = append(seqs, []byte{0xf0, 0x80 | byte(c>>12), 0x80 | byte((c>>6)&0x3f), 0x80 | byte(c&0x3f)})
			seqs = append(seqs, []byte{0xf8, 0x80, 0x80 | byte(c>>12), 0x80 | byte((c>>6)&0x3f), 0x80 | byte(c&0x3f)})
		}
		seqs = append(seqs, []byte{0xed, 0xa0, 0x80}, []byte{0xed, 0xbf, 0xbf}, []byte{0xf4, 0x90, 0x80, 0x80}, []byte{0xf7, 0xbf, 0xbf, 0xbf}, []byte{0xf0, 0x9f, 0x98}, []byte{0xe2, 0x80}, []byte{0xc2},
			[]byte{0xf0, 0x8f, 0xbf, 0xbf}, []byte{0xe0, 0x9f, 0xbf}, []byte{0xc1, 0xbf}, []byte{0x80, 0x80}, []byte{0xfe}, []byte{0xff, 0xfe})
		for _, q := range []byte{'\'', '"'} {
			for _, sq := range seqs {
				for _, frame := range [][2]string{{"", ""}, {"a", "nb"}, {"a", ""}, {"", "b"}, {"\\n", "\\\\"}, {"\u00e9", "\u00e9"}} {
					text := append(append(append([]byte{}, unescapeGo(frame[0])...), sq...), unescapeGo(frame[1])...)
					checkLit(string(q)+frame[0]+string(sq)+frame[1]+string(q), text)
				}
				// and outside a literal, next to one: never part of it
				emitEval(o, string(q)+"a"+string(q)+" + "+string(q)+string(sq)+string(q), 0, "-", "-", true)
				emitEval(o, string(q)+"a"+string(q)+string(sq)+"+ 1", 0, "-", "-", true)
			}
		}
		o.Stat("ill-formed sequences in literals")
	}
	// every choice of escape form for every symbol, texts of up to 2 symbols
	var forms func(sym []byte, q byte) []string
	forms = func(sym []byte, q byte) []string {
		c, size := decodeRuneGo(sym)
		valid := !(c == 0xFFFD && size == 1) && size == len(sym)
		must := c == rune(q) || c == '\\' || c == '\n' || c == '\r' || c == 0x2028 || c == 0x2029 || c == 0x85
		var out []string
		if !must || !valid {
			out = append(out, string(sym))
		}
		if !valid {
			return out
		}
		simple := map[rune]string{'\'': `\'`, '"': `\"`, '\\': `\\`, '\n': `\n`, '\r': `\r`, '\t': `\t`, '\b': `\b`, '\f': `\f`, '\v': `\v`, 0: `\0`}
		if s, ok := simple[c]; ok {
			out = append(out, s)
		}
		if c < 256 {
			out = append(out, fmt.Sprintf(`\x%02x`, c), fmt.Sprintf(`\x%02X`, c))
		}
		if c < 65536 {
			out = append(out, fmt.Sprintf(`\u%04x`, c))
		}
		return out
	}
	for _, q := range []byte{'\'', '"'} {
		for _, a := range syms {
			for _, fa := range forms(a, q) {
				checkLit(string(q)+fa+string(q), a)
				for _, b := range syms {
					for _, fb := range forms(b, q) {
						checkLit(string(q)+fa+fb+string(q), append(append([]byte{}, a...), b...))
					}
				}
			}
		}
	}
	o.Notes = append(o.Notes, "exhaustive: every text of up to 2 symbols x every combination of the admissible escape forms of each symbol x both quotes")
	k := 2
	if thorough {
		k = 3
	}
	enumSeq(len(syms), k, func(idx []int) {
		var text []byte
		for _, i := range idx {
			text = append(text, syms[i]...)
		}
		check(text)
	})
	o.Notes = append(o.Notes, fmt.Sprintf("exhaustive: every text of up to %d symbols over a %d-symbol alphabet (ASCII, controls, both quotes, backslash, 2/3/4-byte UTF-8, U+0085, U+2028/9, invalid bytes) x both quotes x 2 random escapings", k, len(syms)))
	n := 3000
	if thorough {
		n = 150000
	}
	for i := 0; i < n; i++ {
		var text []byte
		for j := 0; j < 3+r.Intn(20); j++ {
			if r.Intn(5) == 0 {
				text = append(text, byte(r.Intn(256)))
			} else {
				text = append(text, syms[r.Intn(len(syms))]...)
			}
		}
		check(text)
	}
	// open literals are syntax errors
	for _, s := range []string{"'abc", "\"abc", "'abc\ndef'", "'abc\r'", "'a\u2028b'", "'\\", "'\\x", "'\\u12", "'abc\u0085'", "'", "\"", "'a\\'"} {
		obs := emitEval(o, s, 0, "-", "-", true)
		if obs != "parse-error" {
			o.Fail(fmt.Sprintf("EV\t%s\t0\t-\t-", hx([]byte(s))), "an open string literal was accepted: "+s)
		}
	}
	// escape shapes the reference escaper never writes: a backslash in front of a raw line break, surrogate code points,
	// hex escapes with fewer digits than their form asks for, several escaped literals in one formula
	for _, t := range []string{"'a\\\r\nb'", "'a\\\rx\nb'", "'a\\\rb'", "'a\\\r\r\nb'", "'a\\\n\rb'", "\"\\\r\n\"", "'a\\\u2028b'", "'a\\\u0085b'", "'a\\\u2029b'", "'a\\\nb'",
		"'\\ud83d\\ude00'", "'\\ud800'", "'\\udfff'", "\"\\uD83Dx\"", "'\\ud7ff\\ue000'", "'\\x4'", "'\\x4g'", "'\\u12'", "'\\u004'", "'\\u12 '", "\"\\xa\"", "'\\xg'", "'\\u'", "'\\u{41}'",
		"'\\x41' + '\\x42'", "['a\\n', \"b\\t\", 'c']", "'\\u0041' + \"\\u0042\" + '\\x43'", "f('a\\tb', 'c\\nd')", "'\\\\' + '\\''", "['\\x41', '\\x41']", "'a' + 'b\\x21' + 'c'"} {
		emitEval(o, t, 0, "-", "-", true)
	}
	// histories: rejected literals (open after an escape, bad escapes, raw line breaks) interleaved with well-formed
	// ones; the value of a literal may not depend on what was scanned before it
	open := []string{"'left open\\twith an escape", "\"x\\n", "'a\\x41b\nc'", "'\\u0041 \\q", "\"\\'\r\"", "'tail\\\\", "'\\x4", "\"\\u00e9\u2028\"", "'abc\\tdef\u0085'"}
	for round := 0; round < 40; round++ {
		bad := open[r.Intn(len(open))]
		if obs := emitEval(o, bad, 0, "-", "-", true); obs != "parse-error" {
			o.Fail(fmt.Sprintf("EV\t%s\t0\t-\t-", hx([]byte(bad))), "a malformed string literal was accepted: "+bad)
		}
		for j := 0; j < 3; j++ {
			var text []byte
			for k := 0; k < 1+r.Intn(6); k++ {
				text = append(text, syms[r.Intn(len(syms))]...)
			}
			check(text)
		}
		emitEval(o, "'p' + 'tab\\there' + \"q\\x41\"", 0, "-", "-", true)
	}
}

// passThroughOracle: "strings, booleans, times, slices and maps are handed on unchanged" - judged on the Go values
// themselves, which carry more than the model's view of them: a time read from the clock has a monotonic reading
// (and == on times compares it), a slice and a map have an identity.  Every formula that merely selects a value of the
// data must return that very value, and a host function must receive it.
type ptRow struct {
	Created time.Time
	Tags    []interface{}
	Meta    map[string]interface{}
}

func passThroughOracle(o *Out) {
	stamp := time.Now() // carries a monotonic clock reading
	later := stamp.Add(1500 * time.Millisecond)
	inZone := stamp.In(time.FixedZone("X", 3600))
	sl := []interface{}{1, "a"}
	mp := map[string]interface{}{"k": 1}
	var got []interface{}
	data := map[string]interface{}{"t": stamp, "u": later, "z": inZone, "s": "text", "b": true, "sl": sl, "mp": mp,
		"order": map[string]interface{}{"created": stamp, "tags": sl, "meta": mp}, "row": ptRow{Created: stamp, Tags: sl, Meta: mp}, "rows": []interface{}{stamp, sl, mp},
		"seen": func(v interface{}) (bool, error) { got = append(got, v); return true, nil }, "seenT": func(v time.Time) (bool, error) { got = append(got, v); return true, nil }}
	same := func(a, b interface{}) bool {
		switch x := a.(type) {
		case time.Time:
			y, ok := b.(time.Time)
			return ok && x == y // wall, ext (monotonic reading) and location pointer
		case []interface{}:
			y, ok := b.([]interface{})
			return ok && len(x) == len(y) && (len(x) == 0 || &x[0] == &y[0])
		case map[string]interface{}:
			y, ok := b.(map[string]interface{})
			return ok && fmt.Sprintf("%p", x) == fmt.Sprintf("%p", y)
		default:
			return a == b
		}
	}
	want := map[string]interface{}{"t": stamp, "u": later, "z": inZone, "s": "text", "b": true, "sl": sl, "mp": mp, "order.created": stamp, "order.tags": sl, "order.meta": mp,
		"row.Created": stamp, "row.Tags": sl, "row.Meta": mp}
	for path, w := range want {
		for _, shape := range []string{"%s", "this.%s", "null ?? %s", "%s || 1", "1 && %s", "true ? %s : 0", "false ? 0 : %s", "$v = %s, $v", "(%s)", "(0, %s)", "$w = %s", "nope ?? %s", "%s ?? 1"} {
			text := fmt.Sprintf(shape, path)
			line := fmt.Sprintf("NOP\tpassthrough\t%s", hx([]byte(text)))
			src, err := formula.ParseSourceCode([]byte(text))
			if err != nil {
				continue
			}
			r := formula.NewRunner()
			r.SetThis(data)
			var v interface{}
			pan, msg := protect(func() { v, err = r.Resolve(context.Background(), src.Expression) })
			o.Case(line, "-", true)
			if pan || err != nil {
				o.Fail(line, fmt.Sprintf("%q failed: %v %s", text, err, msg))
				continue
			}
			if !same(w, v) {
				o.Fail(line, fmt.Sprintf("%q does not hand on the caller's value unchanged: %#v became %#v", text, w, v))
			}
		}
		// the value a host function receives
		for _, fn := range []string{"seen"} {
			got = nil
			text := fn + "(" + path + ")"
			line := fmt.Sprintf("NOP\tpassthrough\t%s", hx([]byte(text)))
			src, err := formula.ParseSourceCode([]byte(text))
			if err != nil {
				continue
			}
			r := formula.NewRunner()
			r.SetThis(data)
			protect(func() { r.Resolve(context.Background(), src.Expression) })
			o.Case(line, "-", true)
			if len(got) != 1 || !same(w, got[0]) {
				o.Fail(line, fmt.Sprintf("the host function called as %q did not receive the caller's value unchanged: %#v, received %#v", text, w, got))
			}
		}
	}
	for _, text := range []string{"seenT(t)", "seenT(order.created)", "seenT(row.Created)", "seenT(rows[0])", "seenT(null ?? t)"} {
		got = nil
		line := fmt.Sprintf("NOP\tpassthrough\t%s", hx([]byte(text)))
		src, err := formula.ParseSourceCode([]byte(text))
		if err != nil {
			continue
		}
		r := formula.NewRunner()
		r.SetThis(data)
		protect(func() { r.Resolve(context.Background(), src.Expression) })
		o.Case(line, "-", true)
		if len(got) != 1 || !same(stamp, got[0]) {
			o.Fail(line, fmt.Sprintf("the host function with a time parameter called as %q did not receive the caller's time unchanged: received %#v", text, got))
		}
	}
	o.Stat("pass-through identity")
}

// formatOracle: "anything to string by formatting" for the Go values whose text the model does not render (Go floats
// of both widths inside arrays and maps, times, structs, typed slices and maps, pointers to structs): the text that
// reaches a string operand, toString and a string parameter is Go's %v of the value.
type fmtRow struct {
	Name  string
	Score float64
	When  time.Time
	tags  []string
}

func formatOracle(o *Out) {
	utc := time.Date(2024, 2, 5, 3, 7, 9, 12345600, time.UTC)
	zoned := utc.In(time.FixedZone("X", 19800))
	vals := map[string]interface{}{
		"f64s": []interface{}{0.1, 1e21, 1e20, 1e-5, 0.0001, 1234567.0, 123456.0, -0.0, math.Inf(1), math.NaN(), 5e-324, 1.7976931348623157e308},
		"f32s": []interface{}{float32(0.1), float32(16777217), float32(1e10), float32(3.4028235e38), float32(1e-45)},
		"mixed": map[string]interface{}{"f": 2.5, "g": float32(2.5), "i": int8(-3), "u": uint64(1 << 63), "t": utc, "n": nil, "s": "x y", "b": false},
		"times": []interface{}{utc, zoned}, "tf": []float64{0.1, 2, 1e6}, "tf32": []float32{0.1, 2}, "tm": map[string]float64{"b": 1.5, "a": 1e7},
		"row": fmtRow{"r", 0.5, utc, []string{"a", "b"}}, "rows": []fmtRow{{"r", 1e6, zoned, nil}}, "prow": &fmtRow{"p", 3, utc, nil}, "when": utc, "zoned": zoned,
		"nested": []interface{}{[]interface{}{1.5, []float32{0.25}}, map[string]interface{}{"k": []interface{}{1e7}}}, "cplx": []interface{}{int16(7), "", " ", true},
	}
	var got []string
	data := map[string]interface{}{"rec": func(s string) (bool, error) { got = append(got, s); return true, nil }}
	for k, v := range vals {
		data[k] = v
	}
	run := func(text string) (interface{}, error, bool) {
		src, err := formula.ParseSourceCode([]byte(text))
		if err != nil {
			return nil, err, false
		}
		r := formula.NewRunner()
		r.SetThis(data)
		var v interface{}
		pan, _ := protect(func() { v, err = r.Resolve(context.Background(), src.Expression) })
		return v, err, pan
	}
	for k, v := range vals {
		want := fmt.Sprintf("%v", v)
		for _, shape := range []string{"'' + %s", "toString(%s)", "'<' + %s + '>'", "'' - %s"} {
			text := fmt.Sprintf(shape, k)
			line := "NOP\tformat\t" + hx([]byte(text))
			o.Case(line, "-", true)
			res, err, pan := run(text)
			w := want
			if strings.HasPrefix(shape, "'<'") {
				w = "<" + want + ">"
			}
			if pan || err != nil || res != w {
				o.Fail(line, fmt.Sprintf("%q is not the formatted value: %#v (error %v), required %q", text, res, err, w))
			}
		}
		got = nil
		text := "rec(" + k + ")"
		line := "NOP\tformat\t" + hx([]byte(text))
		o.Case(line, "-", true)
		if _, err, pan := run(text); pan || err != nil || len(got) != 1 || got[0] != want {
			o.Fail(line, fmt.Sprintf("the string parameter of %q did not receive the formatted value: %q (error %v), required %q", text, got, err, want))
		}
		for _, cmp := range []string{"%s == w", "w == %s"} {
			data["w"] = want
			text := fmt.Sprintf(cmp, k)
			line := "NOP\tformat\t" + hx([]byte(text))
			o.Case(line, "-", true)
			if res, err, pan := run(text); !pan && err == nil && strings.HasPrefix(cmp, "w") && res != true {
				o.Fail(line, fmt.Sprintf("%q: a string equals a value exactly when it equals its formatted text (%q): %v", text, want, res))
			}
		}
	}
	o.Stat("format oracle")
}

// ifaceParamOracle: "null to nil for interface parameters" for interface types that HAVE methods (fmt.Stringer, error,
// a user interface) - the model's signatures know the empty interface only.  A null argument arrives as the nil
// interface value, exactly one invocation; a value that implements the interface arrives as it is; one that does not
// makes the call fail without an invocation.
type namer interface{ Name() string }

func ifaceParamOracle(o *Out) {
	type call struct{ args []interface{} }
	var calls []call
	rec := func(a ...interface{}) { calls = append(calls, call{a}) }
	data := map[string]interface{}{
		"describe": func(s fmt.Stringer) (string, error) { rec(s); return "ok", nil },
		"orElse":   func(n int, cause error) (int, error) { rec(n, cause); return n, nil },
		"count": func(xs ...fmt.Stringer) (int, error) {
			a := make([]interface{}, len(xs))
			for i, x := range xs {
				a[i] = x
			}
			rec(a...)
			return len(xs), nil
		},
		"named": func(n namer, s string) (string, error) { rec(n, s); return s, nil },
		"when":  time.Date(2024, 1, 2, 3, 4, 5, 0, time.UTC), "np": (*int)(nil), "txt": "text",
	}
	isNilIface := func(v interface{}) bool { return v == nil }
	for _, c := range []struct {
		text  string
		nargs int
		nils  []int // argument positions that must be the nil interface value
		fails bool  // the call must fail without an invocation
	}{
		{"describe(null)", 1, []int{0}, false}, {"describe(missing)", 1, []int{0}, false}, {"describe(this.nope)", 1, []int{0}, false},
		{"orElse(7.9, null)", 2, []int{1}, false}, {"orElse(7.9, missing)", 2, []int{1}, false}, {"count(null)", 1, []int{0}, false}, {"count(1.5, null, missing)", 3, []int{1, 2}, false},
		{"count([null, 2]...)", 2, []int{0}, false}, {"count()", 0, nil, false}, {"named(null, 'x')", 2, []int{0}, false}, {"named(missing, txt)", 2, []int{0}, false},
		{"describe(1.5)", 1, nil, false}, {"describe(when)", 1, nil, false}, {"count(1, 2, when)", 3, nil, false},
		{"describe(txt)", 0, nil, true}, {"describe(np)", 0, nil, true}, {"describe(true)", 0, nil, true}, {"orElse(1, txt)", 0, nil, true}, {"named(1.5, 'x')", 0, nil, true}, {"describe()", 0, nil, true}, {"describe(null, null)", 0, nil, true},
	} {
		calls = nil
		line := "NOP\tifaceparam\t" + hx([]byte(c.text))
		o.Case(line, "-", true)
		src, err := formula.ParseSourceCode([]byte(c.text))
		if err != nil {
			o.Fail(line, "does not parse: "+err.Error())
			continue
		}
		r := formula.NewRunner()
		r.SetThis(data)
		pan, msg := protect(func() { _, err = r.Resolve(context.Background(), src.Expression) })
		switch {
		case pan:
			o.Fail(line, fmt.Sprintf("%q panicked: %s", c.text, msg))
		case c.fails:
			if err == nil || len(calls) != 0 {
				o.Fail(line, fmt.Sprintf("%q: an argument that does not fit the interface parameter (or a wrong argument count) must fail without a call: error %v, %d invocations", c.text, err, len(calls)))
			}
		default:
			if err != nil || len(calls) != 1 || len(calls[0].args) != c.nargs {
				o.Fail(line, fmt.Sprintf("%q: required exactly one invocation with %d arguments: error %v, invocations %v", c.text, c.nargs, err, calls))
				continue
			}
			for _, i := range c.nils {
				if !isNilIface(calls[0].args[i]) {
					o.Fail(line, fmt.Sprintf("%q: argument %d must arrive as the nil interface value, arrived as %#v", c.text, i, calls[0].args[i]))
				}
			}
		}
	}
	o.Stat("interface parameters with methods")
}

// unescapeGo: the text denoted by the few escape sequences used in the frames above
func unescapeGo(s string) []byte {
	s = strings.ReplaceAll(s, "\\\\", "\x00BS")
	s = strings.ReplaceAll(s, "\\n", "\n")
	s = strings.ReplaceAll(s, "\x00BS", "\\")
	return []byte(s)
}

// spellingTwins: other spellings of a name - the kind of key a "helpful" lookup would fall back to
func spellingTwins(k string) []string {
	var snake strings.Builder
	for i, c := range k {
		if i > 0 && c >= 'A' && c <= 'Z' && (k[i-1] < 'A' || k[i-1] > 'Z') {
			snake.WriteByte('_')
		}
		snake.WriteRune(c)
	}
	camel := ""
	up := false
	for _, c := range k {
		if c == '_' {
			up = true
			continue
		}
		if up {
			camel += strings.ToUpper(string(c))
			up = false
		} else {
			camel += string(c)
		}
	}
	out := []string{strings.ToLower(snake.String()), snake.String(), camel, strings.ToLower(k), strings.ToUpper(k), strings.Title(k), k + "s", k + "_", "_" + k, "$" + k, k + "$", strings.TrimPrefix(k, "$"), " " + k, k + " "}
	if len(k) > 1 {
		out = append(out, k[:len(k)-1], k[1:], strings.ToLower(k[:1])+k[1:])
	}
	var res []string
	for _, x := range out {
		if x != k && x != "" {
			res = append(res, x)
		}
	}
	return res
}
