package main

import (
	"github.com/ericlagergren/decimal"
	"sync"
	"context"
	"fmt"
	"math/rand"
	"strconv"
	"strings"
	"time"

	"github.com/aundis/formula"
)

func init() {
	suites["evalcore"] = suiteEvalCore
	replays["EV"] = func(c string) string {
		f := strings.Split(c, "\t")
		off, _ := strconv.Atoi(f[2])
		obs, _ := implEval(string(unhx(f[1])), off, f[3], f[4])
		return obs
	}
}

func setLocal(off int) {
	if off == 0 {
		time.Local = time.UTC
	} else {
		time.Local = time.FixedZone("L", off)
	}
}

func buildHosts(spec string, log *callLog) map[int]interface{} {
	hosts := map[int]interface{}{}
	curHosts = map[uintptr]int{}
	if spec == "-" {
		return hosts
	}
	for _, s := range strings.Split(spec, ";") {
		h := parseHostSpec(s)
		fn := makeHost(h, log)
		hosts[h.id] = fn
	}
	return hosts
}

// implEval evaluates text against the data (wire form) with the real evaluator.
// Observation: outcome|final data map|host calls.  Oracle failures: C03 (panic / value-xor-error at
// the public entry) are reported as strings.
// implEval with a watchdog: an evaluation that does not return within 10 s is reported (C03: evaluation terminates)
func implEval(text string, localOff int, hostSpec, dataWire string) (string, []string) {
	type res struct {
		obs   string
		fails []string
	}
	ch := make(chan res, 1)
	go func() {
		o, f := implEvalInner(text, localOff, hostSpec, dataWire)
		ch <- res{o, f}
	}()
	select {
	case r := <-ch:
		return r.obs, r.fails
	case <-time.After(15 * time.Second):
	}
	// not back yet: on a loaded machine that alone proves nothing - give it a much longer second chance
	select {
	case r := <-ch:
		return r.obs, r.fails
	case <-time.After(90 * time.Second):
		return "T", []string{"evaluation did not terminate within 105 s: " + text}
	}
}

func implEvalInner(text string, localOff int, hostSpec, dataWire string) (string, []string) {
	var fails []string
	setLocal(localOff)
	// "parse once, evaluate per row": a formula text seen before in this process reuses its parsed tree, so state
	// kept on tree nodes (memoised operand kinds, cached results, rewritten children) is observed by later rows
	parsedMu.Lock()
	src, seen := parsedTrees[text]
	parsedMu.Unlock()
	if !seen {
		var err error
		ar := newArena([]byte(text))
		src, err = formula.ParseSourceCode(ar.text)
		if msg := ar.check(); msg != "" {
			fails = append(fails, msg)
		}
		if err != nil {
			return "parse-error", fails
		}
		ar.scribble() // the caller reuses its buffer: the tree must not change with it
		parsedMu.Lock()
		if len(parsedTrees) < 200000 {
			parsedTrees[text] = src
		}
		parsedMu.Unlock()
	}
	mk := func(log *callLog) (*formula.Runner, map[string]interface{}) {
		hosts := buildHosts(hostSpec, log)
		r := formula.NewRunner()
		var m map[string]interface{}
		if dataWire != "-" {
			m, _ = decodeVal(dataWire, hosts).(map[string]interface{})
			r.SetThis(m)
		}
		return r, m
	}
	ctx := context.WithValue(context.Background(), callerKey{}, "the caller's")
	// 1. raw evaluation (no float conversion, no recover) for the comparison with the model
	var log1 callLog
	r1, m1 := mk(&log1)
	var res interface{}
	var rerr error
	pan, _ := protect(func() { res, rerr = r1.VerifResolveRaw(ctx, src.Expression) })
	var out string
	switch {
	case pan:
		out = "P"
	case rerr != nil:
		out = "E"
	default:
		out = "V " + enc(res)
	}
	thisW := "-"
	if m1 != nil {
		thisW = enc(m1)
	} else {
		// a map may have been created by an assignment
		var t interface{}
		protect(func() { t, _ = r1.VerifResolveRaw(ctx, thisExpr) })
		if tm, ok := t.(map[string]interface{}); ok && tm != nil {
			thisW = enc(tm)
		}
	}
	obs := out + "|" + thisW + "|" + strings.Join(log1.calls, ";")
	// 2. public entry point: C03 oracle
	var log2 callLog
	r2, _ := mk(&log2)
	var v2 interface{}
	var e2 error
	pan2, msg2 := protect(func() { v2, e2 = r2.Resolve(ctx, src.Expression) })
	if pan2 {
		fails = append(fails, "Resolve panicked: "+msg2)
	} else if e2 != nil && v2 != nil {
		fails = append(fails, "Resolve returned both a value and an error")
	} else if e2 == nil && rerr == nil && !pan {
		// only a top-level number is converted (to float64) on the way out: everything else is handed back as it is
		if _, isNum := res.(*decimal.Big); !isNum && !strings.Contains(text, "now(") && !strings.Contains(text, "toDay(") {
			if a, b := enc(v2), enc(res); a != b {
				fails = append(fails, "the value handed back by Resolve ("+a+") is not the result of the evaluation ("+b+")")
			}
		}
	}
	return obs, fails
}

var thisExpr formula.Expression

var (
	parsedMu    sync.Mutex
	parsedTrees = map[string]*formula.SourceCode{}
)

func init() {
	s, err := formula.ParseSourceCode([]byte("this"))
	if err != nil {
		panic(err)
	}
	thisExpr = s.Expression
}

// ---------- grammar-directed program generator ----------

type gen struct {
	r      *rand.Rand
	idents []string // names readable in the data map
	funcs  []string // callable names (host functions and builtins)
	lits   []string
}

// levels: 0 comma, 1 assign/cond, 2.. binary by precedence, 12 unary, 13 postfix, 14 primary
var binOps = []struct {
	op   string
	prec int
}{{"||", 1}, {"??", 1}, {"&&", 2}, {"|", 3}, {"^", 4}, {"&", 5}, {"==", 6}, {"!=", 6}, {"===", 6}, {"!==", 6},
	{"<", 7}, {">", 7}, {"<=", 7}, {">=", 7}, {"+", 9}, {"-", 9}, {"*", 10}, {"/", 10}, {"%", 10}}

func (g *gen) pick(l []string) string { return l[g.r.Intn(len(l))] }

// expr generates an expression whose level is >= lvl
func (g *gen) expr(lvl, depth int) string {
	if depth <= 0 {
		return g.primary(0)
	}
	for {
		switch c := g.r.Intn(14); {
		case c == 0 && lvl <= 0:
			return g.expr(0, depth-1) + ", " + g.expr(1, depth-1)
		case c == 1 && lvl <= 1:
			return "$" + g.pick([]string{"a", "b", "c"}) + " = " + g.expr(1, depth-1)
		case c == 2 && lvl <= 1:
			return g.expr(2, depth-1) + " ? " + g.expr(1, depth-1) + " : " + g.expr(1, depth-1)
		case c >= 3 && c <= 7:
			b := binOps[g.r.Intn(len(binOps))]
			if lvl <= 1+b.prec {
				return g.expr(1+b.prec, depth-1) + " " + b.op + " " + g.expr(2+b.prec, depth-1)
			}
		case c == 8 && lvl <= 12:
			op := g.pick([]string{"-", "+", "!", "!!", "~", "typeof "})
			return op + g.expr(12, depth-1)
		case c == 9 && lvl <= 13:
			return g.postfix(depth - 1)
		default:
			return g.primary(depth - 1)
		}
	}
}

func (g *gen) postfix(depth int) string {
	switch g.r.Intn(4) {
	case 0:
		return g.pick(g.idents) + "." + g.pick([]string{"k", "x", "name", "len"})
	case 1:
		return g.pick(g.idents) + "!." + g.pick([]string{"k", "x"})
	default:
		n := g.r.Intn(3)
		var args []string
		for i := 0; i < n; i++ {
			args = append(args, g.expr(1, depth-1))
		}
		sp := ""
		if g.r.Intn(12) == 0 {
			sp = "..."
		}
		return g.pick(g.funcs) + "(" + strings.Join(args, ", ") + sp + ")"
	}
}

func (g *gen) primary(depth int) string {
	switch g.r.Intn(8) {
	case 0, 1:
		return g.pick(g.idents)
	case 2:
		return "$" + g.pick([]string{"a", "b", "c"})
	case 3:
		if depth > 0 {
			return "(" + g.expr(0, depth-1) + ")"
		}
		return g.pick(g.lits)
	case 4:
		if depth > 0 {
			n := g.r.Intn(3)
			var es []string
			for i := 0; i < n; i++ {
				es = append(es, g.expr(1, depth-1))
			}
			return "[" + strings.Join(es, ", ") + "]"
		}
		return g.pick(g.lits)
	default:
		return g.pick(g.lits)
	}
}

var coreLits = []string{"0", "1", "2", "-0", "0.0", "1.0", "1e0", "10e-1", "2.5", "3", "0.1", "0.2", "0.3", "100",
	"''", "'a'", "'b'", "'ab'", "'0'", "'1'", "' '", "'é'", "null", "true", "false", "this.x", "1/0", "toFloat('x')",
	"12345678901234567890123456789012345", "9007199254740993", "[]", "[1]", "ctx"}

// data maps for the core suite, in wire form
var coreData = []string{
	"-",
	"O0",
	"O4 S" + hx([]byte("x")) + " Ii:5 S" + hx([]byte("y")) + " G" + hx([]byte("0.1")) + " S" + hx([]byte("s")) + " S" + hx([]byte("hi")) + " S" + hx([]byte("n")) + " N",
	"O5 S" + hx([]byte("x")) + " O2 S" + hx([]byte("k")) + " Ii64:9007199254740993 S" + hx([]byte("x")) + " O1 S" + hx([]byte("k")) + " T" +
		" S" + hx([]byte("y")) + " A3 Ii:1 S" + hx([]byte("a")) + " N" + " S" + hx([]byte("s")) + " S- S" + hx([]byte("n")) + " P S" + hx([]byte("len")) + " Ii:7",
	"O4 S" + hx([]byte("x")) + " Iu8:200 S" + hx([]byte("y")) + " Ii32:-3 S" + hx([]byte("s")) + " S" + hx([]byte("12")) + " S" + hx([]byte("n")) + " X1",
	"O3 S" + hx([]byte("x")) + " M1700000000123000000:0 S" + hx([]byte("y")) + " F S" + hx([]byte("$a")) + " Ii:4",
}

func suiteEvalCore(o *Out, thorough bool, seed int64) {
	r := newRand(seed, "evalcore")
	g := &gen{r: r, idents: []string{"x", "y", "s", "n", "zz"}, funcs: []string{"len", "abs", "max", "toString", "h1", "h2", "x", "zz", "finite", "left"}, lits: coreLits}
	hosts := "1:0:0:2:0:a:Ii:42;2:1:1:2:0:s,d:S" + hx([]byte("r"))
	n := 12000
	if thorough {
		n = 400000
	}
	// statements of the library that random programs reach rarely or never (found by measuring the statement
	// coverage of /repo under all suites): callee positions that are not names, member access on an operand whose
	// evaluation fails, the builtins mapToArr and roundCash
	{
		rows := "A3 " + wmap("k", "Ii:1", "j", ws("x")) + " " + wmap("k", ws("z")) + " " + wmap("j", "N")
		data := wmap("rows", rows, "none", "A0", "f", "H1", "fv", "H2", "m", wmap("f", "H1", "k", "Ii:3"), "x", "Ii:5", "s", ws("txt"), "n", "N")
		for _, t := range []string{"mapToArr(rows, 'k')", "mapToArr(rows, 'j')", "mapToArr(rows, 'zz')", "mapToArr(none, 'k')", "mapToArr([], 'k')", "mapToArr(rows, 1)", "mapToArr(x, 'k')",
			"mapToArr(n, 'k')", "mapToArr([1, 2], 'k')", "mapToArr([rows], 'k')", "join(mapToArr(rows, 'j'), '-')", "len(mapToArr(rows, 'k'))", "mapToArr(rows)", "mapToArr(rows, 'k', 'j')",
			"roundCash(2.53, 2)", "roundCash(2.55, 2)", "roundCash(-2.5, 0)", "roundCash(x, x)", "roundCash('a', 1)", "roundCash(1)", "roundCash(1e30, 2)", "roundCash(0.05, 2)", "roundCash(1/0, 1)",
			"f()()", "f(1)(2)", "(f)(1)", "(m.f)(1)", "m.f(1)", "m.k(1)", "[f][0]", "(1, f)(2)", "(x ? f : f)(1)", "'s'(1)", "1(2)", "null(1)", "f(1).k", "f(1)!.k", "m.f(1).k.j",
			"f(1, 2, 3).k", "nofn(1).k", "fv(1, 2).k", "fv('a').k", "(1 + s).k", "(s - 1).k", "n!.k.j", "(n!.k).j", "[n!.k][0]", "m.nope!.k", "m.k!.j", "(x.y).z", "x.y!.z",
			"this.f(1)", "this.m.f(1)", "this.nope(1)", "this(1)", "m.f.g(1)", "f.g(1)", "typeof f(1)", "typeof nofn", "typeof m.f", "f(typeof f)", "-f(1)", "!f(1)", "~f(1)", "+f(1)", "f(1) ?? 2"} {
			obs, fails := implEval(t, 0, hosts, data)
			line := fmt.Sprintf("EV\t%s\t0\t%s\t%s", hx([]byte(t)), hosts, data)
			if obs == "parse-error" {
				o.Stat("generator-parse-error")
				continue
			}
			o.Case(line, obs, true)
			o.Stat("outcome-" + obs[:1])
			for _, f := range fails {
				o.Fail(line, f)
			}
		}
	}
	// a value of any kind becomes text by formatting (under a string operand of + - == != < ..., in toString, for
	// a string parameter of a host function): arrays and maps render their elements in order / in the order of
	// their keys, nested to any depth, and a value that does not contain itself always has a rendering
	{
		data := wmap("a", "A4 Ii:1 "+ws("hi")+" N T", "e", "A0", "mm", wmap("b", "Ii8:3", "a", ws("x y"), "", "N", "\u00e9", "F", "B", "O0", "a b", "Iu64:18446744073709551615"),
			"nest", "A3 A1 Iu64:7 "+wmap("k", "A0")+" A2 A0 A1 A0", "d", "D+:250:-2", "p", "P", "fl", "A2 G"+hx([]byte("0.1"))+" Ii:2", "tm", "A1 M1700000000123000000:0",
			"deep", wmap("z", wmap("y", wmap("x", "A2 "+wmap("w", "N")+" "+ws(""))), "a", "A1 "+wmap("q", "T")), "h2", "H2", "em", "O0", "sp", "A3 "+ws("")+" "+ws(" ")+" "+ws("a b"))
		for _, t := range []string{"'' + a", "toString(a)", "a + ''", "'' - a", "'' + e", "'' + em", "'' + mm", "toString(mm)", "'' + nest", "'' + deep", "'' + sp", "len('' + sp)",
			"'' + [d, 1e40, -0, 0.1+0.2, 1/0, -1/0, 2.50, 1e-7, 12345678901234567890123456789012345678]", "'' + [0/0]", "'' + fl", "'' + tm", "'' + [p]", "'' + [p, null, d]", "'' + [a, mm]", "'' + [[[]]]", "'' + [[], [[]], '']",
			"'[1 hi <nil> true]' == a", "a == '[1 hi <nil> true]'", "'[1 hi <nil> true]' != a", "'[1 hi <nil> true]' === a", "'x' < a", "'[' < a", "'[1 hi <nil> true]' <= a", "'map[' < mm", "'map[]' == em", "'[]' == e", "'[]' == []",
			"h2(a, 1)", "h2(mm, 1)", "h2([1, [2, 'q']], 1)", "h2(e, 1)", "h2(deep, 1)", "h2([d, mm.b], d)", "h2(fl, 1)", "h2([mm], 1)", "len('' + mm)", "'' + [$v = 5, $v, this.$v]", "upper('' + mm)", "find('' + a, 'hi')",
			"includes(a, 'hi')", "'' + [mm.b, mm.a, mm['']]", "'' + mapToArr([mm], 'b')", "left('' + nest, 9)", "'' + [true, false, null, 'null']", "('' + a) + ('' + e)", "replace('' + a, ' ', ',')", "'' + [1, 2][0]", "'' + [[1, 2], [3]][1]",
			"trim('' + sp)", "'' + ['a', 'a b', '[', ']']", "'' + (a ?? 1)", "'' + (e || 1)", "typeof ('' + a)", "'' + [typeof a, typeof mm]", "'' + [a, a]", "'' + [nest, [nest]]"} {
			obs, fails := implEval(t, 0, hosts, data)
			line := fmt.Sprintf("EV\t%s\t0\t%s\t%s", hx([]byte(t)), hosts, data)
			if obs == "parse-error" {
				o.Stat("generator-parse-error")
				continue
			}
			o.Case(line, obs, true)
			o.Stat("outcome-" + obs[:1])
			for _, f := range fails {
				o.Fail(line, f)
			}
		}
	}
	for i := 0; i < n; i++ {
		text := g.expr(0, 1+r.Intn(4))
		data := coreData[r.Intn(len(coreData))]
		if data != "-" && r.Intn(2) == 0 {
			// add the host functions to the map
			k := strings.SplitN(data, " ", 2)
			cnt, _ := strconv.Atoi(k[0][1:])
			rest := ""
			if len(k) > 1 {
				rest = " " + k[1]
			}
			data = fmt.Sprintf("O%d S%s H1 S%s H2%s", cnt+2, hx([]byte("h1")), hx([]byte("h2")), rest)
		}
		obs, fails := implEval(text, 0, hosts, data)
		if obs == "parse-error" {
			o.Stat("generator-parse-error")
			continue
		}
		line := fmt.Sprintf("EV\t%s\t0\t%s\t%s", hx([]byte(text)), hosts, data)
		o.Case(line, obs, strings.Count(text, " ") >= 2)
		o.Stat("outcome-" + obs[:1])
		for _, f := range fails {
			o.Fail(line, f)
		}
	}
}
