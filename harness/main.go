package main

import (
	"github.com/aundis/formula"
	"context"
	"fmt"
	"os"
	"strconv"
)

// usage: harness run <suite> <tier> <seed> <outdir>
//        harness tables <outfile.v>
//        harness replay <suite> <case line>
func main() {
	if len(os.Args) < 2 {
		fmt.Fprintln(os.Stderr, "usage: harness run|tables|replay ...")
		os.Exit(2)
	}
	switch os.Args[1] {
	case "run":
		suite, tier := os.Args[2], os.Args[3]
		seed, _ := strconv.ParseInt(os.Args[4], 10, 64)
		out := NewOut(os.Args[5])
		f, ok := suites[suite]
		if !ok {
			fmt.Fprintln(os.Stderr, "unknown suite", suite)
			os.Exit(2)
		}
		f(out, tier == "thorough", seed)
		out.Close()
	case "tables":
		dumpTables(os.Args[2])
	case "probe":
		// one evaluation in a process of its own, for formulas that may take the whole process down (a fatal
		// stack overflow cannot be recovered): prints the outcome class
		src, err := formula.ParseSourceCode(unhx(os.Args[2]))
		if err != nil {
			fmt.Println("parse-error")
			return
		}
		rn := formula.NewRunner()
		pd := map[string]interface{}{"a": 1, "s": "txt", "arr": []interface{}{1, 2}, "m": map[string]interface{}{"k": 1},
			"h": func(x string) (interface{}, error) { return len(x), nil }, "g": func(x interface{}) (interface{}, error) { return 1, nil }}
		// caller data that refers back to itself through Go structs and pointers
		type envT struct {
			Name string
			Vars map[string]interface{}
		}
		type nodeT struct {
			Name string
			Next *nodeT
			Self interface{}
		}
		pd["env"] = envT{Name: "e", Vars: pd}
		pd["penv"] = &envT{Name: "pe", Vars: pd}
		ring := &nodeT{Name: "ring"}
		ring.Next = ring
		pd["ring"] = ring
		pd["ringv"] = *ring
		two := &nodeT{Name: "one", Next: &nodeT{Name: "two"}}
		two.Next.Next = two
		pd["two"] = two
		selfish := &nodeT{Name: "selfish"}
		selfish.Self = selfish
		pd["selfish"] = selfish
		pd["envs"] = []interface{}{envT{Name: "in-array", Vars: pd}}
		// the way back to the data map through every kind of typed container, held in exported and unexported
		// fields of its element type (fmt follows unexported fields as well)
		type rowU struct {
			Name  string
			owner map[string]interface{}
		}
		type rowE struct {
			Name  string
			Owner map[string]interface{}
		}
		type rowI struct {
			Name string
			any  interface{}
		}
		type rowS struct {
			Name string
			list []interface{}
		}
		type rowN struct {
			Name  string
			inner rowU
		}
		pd["rowsU"] = []rowU{{"a", pd}}
		pd["arrU"] = [1]rowU{{"a", pd}}
		pd["mapU"] = map[string]rowU{"k": {"a", pd}}
		pd["rowsE"] = []rowE{{"a", pd}}
		pd["rowsI"] = []rowI{{"a", pd}}
		pd["rowsS"] = []rowS{{"a", []interface{}{pd}}}
		pd["rowsN"] = []rowN{{"a", rowU{"b", pd}}}
		pd["nestU"] = []interface{}{[]rowU{{"a", pd}}}
		pd["mapsU"] = map[string][]rowU{"k": {{"a", pd}}}
		pd["ptrsU"] = []*rowU{{"a", pd}}
		pd["rowU"] = rowU{"a", pd}
		pd["arr2U"] = [2][]rowU{nil, {{"a", pd}}}
		// long arrays with one element whose conversion fails - by error or by a panic inside the conversion (a nil
		// record, an element that contains itself): sizes around the thresholds a batched or parallel conversion
		// would have
		for _, n := range []int{100, 4095, 4096, 4097, 5000, 70000} {
			rows := make([]interface{}, n)
			strs := make([]interface{}, n)
			nums := make([]interface{}, n)
			for i := range rows {
				rows[i] = map[string]interface{}{"name": fmt.Sprintf("r%d", i)}
				strs[i] = fmt.Sprintf("s%d", i)
				nums[i] = i
			}
			bad := n * 7 / 8
			rows[bad] = nil
			strs[bad] = pd
			nums[bad] = "x"
			pd[fmt.Sprintf("rows%d", n)] = rows
			pd[fmt.Sprintf("strs%d", n)] = strs
			pd[fmt.Sprintf("nums%d", n)] = nums
			good := make([]interface{}, n)
			for i := range good {
				good[i] = fmt.Sprintf("g%d", i)
			}
			pd[fmt.Sprintf("good%d", n)] = good
		}
		pd["hs"] = func(xs []string) (interface{}, error) { return len(xs), nil }
		pd["hm"] = func(xs []map[string]interface{}) (interface{}, error) { return len(xs), nil }
		pd["hi"] = func(xs []int) (interface{}, error) { return len(xs), nil }
		pd["hv"] = func(xs ...string) (interface{}, error) { return len(xs), nil }
		rn.SetThis(pd)
		var v interface{}
		pan, _ := protect(func() { v, err = rn.Resolve(context.Background(), src.Expression) })
		switch {
		case pan:
			fmt.Println("PANIC")
		case err != nil:
			fmt.Println("E")
		default:
			_ = v
			fmt.Println("V")
		}
	case "fresh":
		// one evaluation in a process that has evaluated nothing else: the reference for history independence
		di, _ := strconv.Atoi(os.Args[2])
		fmt.Println(evalOnce(string(unhx(os.Args[3])), di))
	case "replay":
		f, ok := replays[os.Args[2]]
		if !ok {
			fmt.Fprintln(os.Stderr, "unknown suite", os.Args[2])
			os.Exit(2)
		}
		fmt.Println(f(os.Args[3]))
	default:
		fmt.Fprintln(os.Stderr, "unknown command")
		os.Exit(2)
	}
}

// a suite generates cases, runs the implementation on them and records observations
var suites = map[string]func(o *Out, thorough bool, seed int64){}

// a replay function maps a case line to the implementation's observation
var replays = map[string]func(caseLine string) string{}
