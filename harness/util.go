package main

import (
	"strings"
	"bufio"
	"encoding/hex"
	"encoding/json"
	"fmt"
	"math/rand"
	"os"
	"path/filepath"
	"sort"
)

// Out collects the cases of one run: the case line for the model driver, the implementation's
// observation, oracle failures, and statistics for the evidence file.
type Out struct {
	dir     string
	cases   *bufio.Writer
	impl    *bufio.Writer
	fc, fi  *os.File
	N       int
	Fails   []Fail
	Stats   map[string]int
	Samples []string
	Notes   []string
	seen    map[string]struct{}
	Distinct int
	Nontrivial int
}

type Fail struct {
	Index int    `json:"index"`
	Case  string `json:"case"`
	What  string `json:"what"`
}

func NewOut(dir string) *Out {
	os.MkdirAll(dir, 0o755)
	fc, err := os.Create(filepath.Join(dir, "cases.txt"))
	if err != nil {
		panic(err)
	}
	fi, err := os.Create(filepath.Join(dir, "impl.txt"))
	if err != nil {
		panic(err)
	}
	return &Out{dir: dir, fc: fc, fi: fi, cases: bufio.NewWriterSize(fc, 1<<20), impl: bufio.NewWriterSize(fi, 1<<20),
		Stats: map[string]int{}, seen: map[string]struct{}{}}
}

// Case records one case. nontrivial says whether it counts as non-trivial by the property's rule.
func (o *Out) Case(caseLine, implObs string, nontrivial bool) {
	o.cases.WriteString(caseLine)
	o.cases.WriteByte('\n')
	o.impl.WriteString(implObs)
	o.impl.WriteByte('\n')
	o.N++
	if _, ok := o.seen[caseLine]; !ok {
		o.seen[caseLine] = struct{}{}
		o.Distinct++
		if nontrivial {
			o.Nontrivial++
		}
	}
	if len(o.Samples) < 12 && (o.N%997 == 1 || o.N <= 3) {
		o.Samples = append(o.Samples, caseLine+" => "+implObs)
	}
}

// Fail records an oracle failure on the implementation for the most recent case (or a free-standing one).
func (o *Out) Fail(caseLine, what string) {
	o.Fails = append(o.Fails, Fail{Index: o.N - 1, Case: caseLine, What: what})
}

func (o *Out) Stat(k string) { o.Stats[k]++ }

func (o *Out) Close() {
	o.cases.Flush()
	o.impl.Flush()
	o.fc.Close()
	o.fi.Close()
	keys := make([]string, 0, len(o.Stats))
	for k := range o.Stats {
		keys = append(keys, k)
	}
	sort.Strings(keys)
	m := map[string]interface{}{
		"evaluations": o.N, "distinct": o.Distinct, "distinct_nontrivial": o.Nontrivial,
		"fails": o.Fails, "stats": o.Stats, "samples": o.Samples, "notes": o.Notes,
	}
	b, _ := json.MarshalIndent(m, "", " ")
	os.WriteFile(filepath.Join(o.dir, "stats.json"), b, 0o644)
}

func hx(b []byte) string {
	if len(b) == 0 {
		return "-"
	}
	return hex.EncodeToString(b)
}

func unhx(s string) []byte {
	if s == "-" {
		return nil
	}
	b, err := hex.DecodeString(s)
	if err != nil {
		panic(err)
	}
	return b
}

func newRand(seed int64, salt string) *rand.Rand {
	h := int64(1469598103934665603)
	for _, c := range salt {
		h ^= int64(c)
		h *= 1099511628211
	}
	return rand.New(rand.NewSource(seed ^ h))
}

// protect runs f and converts a panic into a string.
func protect(f func()) (panicked bool, msg string) {
	defer func() {
		if r := recover(); r != nil {
			panicked = true
			msg = fmt.Sprint(r)
		}
	}()
	f()
	return
}

// enumerate all sequences over alphabet of length 0..maxLen
func enumSeq(n int, maxLen int, f func(idx []int)) {
	var rec func(cur []int)
	rec = func(cur []int) {
		f(cur)
		if len(cur) == maxLen {
			return
		}
		for i := 0; i < n; i++ {
			rec(append(cur, i))
		}
	}
	rec(nil)
}

func decodeRuneGo(b []byte) (rune, int) {
	return utf8DecodeRune(b)
}

// arena puts a text into the middle of a larger buffer (guard bytes in front and behind, spare capacity behind) and
// hands out exactly the text's bytes: the way a caller that keeps many formulas in one buffer passes them in.
// check reports a write outside the text; scribble overwrites the text itself (the caller reusing its buffer
// after the parse: nothing a tree holds may change with it).
type arena struct {
	buf  []byte
	n    int
	text []byte
}

func newArena(text []byte) *arena {
	a := &arena{buf: make([]byte, len(text)+32), n: len(text)}
	for i := range a.buf {
		a.buf[i] = 0xAA
	}
	copy(a.buf[16:], text)
	a.text = a.buf[16 : 16+len(text)] // capacity reaches into the guard behind the text
	return a
}

func (a *arena) check() string {
	for i := 0; i < 16; i++ {
		if a.buf[i] != 0xAA {
			return fmt.Sprintf("the parser wrote to the caller's memory %d bytes in front of the text", 16-i)
		}
		if a.buf[16+a.n+i] != 0xAA {
			return fmt.Sprintf("the parser wrote to the caller's memory %d bytes behind the end of the text (spare capacity of the slice it was handed)", i+1)
		}
	}
	return ""
}

func (a *arena) scribble() {
	for i := 0; i < a.n; i++ {
		a.buf[16+i] = '#'
	}
}

// limitWriter keeps the first n bytes written to it (the stack trace of a crashed child can be gigabytes)
type limitWriter struct {
	w *strings.Builder
	n int
}

func (l *limitWriter) Write(p []byte) (int, error) {
	if room := l.n - l.w.Len(); room > 0 {
		if len(p) < room {
			room = len(p)
		}
		l.w.Write(p[:room])
	}
	return len(p), nil
}
