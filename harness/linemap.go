package main

import (
	"fmt"
	"strings"

	"github.com/aundis/formula"
)

func init() {
	suites["linemap"] = suiteLineMap
	replays["LC"] = func(c string) string {
		f := strings.Split(c, "\t")
		var off int
		fmt.Sscan(f[2], &off)
		return implLC(unhx(f[1]), off)
	}
}

func implLC(text []byte, off int) string {
	var p formula.Position
	pan, msg := protect(func() { p = formula.PositionToLineAndCharacter(text, off) })
	if pan {
		return "panic:" + msg
	}
	s := fmt.Sprintf("%d,%d", p.Line, p.Column)
	return s + "|" + s
}

var lmAlphabet = [][]byte{
	[]byte("a"), {'\n'}, {'\r'}, []byte(" "), []byte(" "), []byte("\u0085"), []byte("é"), {0xE2}, {0x80},
}

func suiteLineMap(o *Out, thorough bool, seed int64) {
	maxLen := 4
	if thorough {
		maxLen = 6
	}
	emit := func(text []byte) {
		nb := 0
		for _, b := range text {
			if b == '\n' || b == '\r' || b == 0x85 || b == 0xA8 || b == 0xA9 {
				nb++
			}
		}
		for off := 0; off <= len(text); off++ {
			o.Case(fmt.Sprintf("LC\t%s\t%d", hx(text), off), implLC(text, off), nb >= 1 && len(text) >= 2)
		}
		o.Stat(fmt.Sprintf("len%02d", len(text)))
	}
	enumSeq(len(lmAlphabet), maxLen, func(idx []int) {
		var text []byte
		for _, i := range idx {
			text = append(text, lmAlphabet[i]...)
		}
		emit(text)
	})
	o.Notes = append(o.Notes, fmt.Sprintf("exhaustive: all texts of up to %d symbols over {a,LF,CR,U+2028,U+2029,U+0085,e-acute,0xE2,0x80} x every offset", maxLen))
	r := newRand(seed, "linemap")
	n := 300
	if thorough {
		n = 20000
	}
	for i := 0; i < n; i++ {
		l := 5 + r.Intn(40)
		var text []byte
		for j := 0; j < l; j++ {
			if r.Intn(3) == 0 {
				text = append(text, lmAlphabet[r.Intn(len(lmAlphabet))]...)
			} else {
				text = append(text, byte(r.Intn(256)))
			}
		}
		emit(text)
	}
}
