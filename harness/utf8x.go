package main

import "unicode/utf8"

func utf8DecodeRune(b []byte) (rune, int) { return utf8.DecodeRune(b) }
