package main

import (
	"path/filepath"
	"unicode"
	"os"
	"os/exec"
	"context"
	"fmt"
	"math"
	"math/big"
	"regexp"
	"sort"
	"strconv"
	"strings"
	"sync"
	"time"

	"github.com/aundis/formula"
	"github.com/ericlagergren/decimal"
)

func init() {
	suites["runner"] = suiteRunner
	suites["strfun"] = suiteStrFun
	suites["numfun"] = suiteNumFun
	suites["datefun"] = suiteDateFun
	suites["purity"] = suitePurity
	suites["race"] = suiteRace
	replays["RH"] = func(c string) string {
		f := strings.Split(c, "\t")
		return implHistory(f[1], f[2], f[3])
	}
}

// ---------- C20: operation histories on one runner ----------
// case: RH <hosts> <maps: id=wire~id=wire> <ops separated by ~>
// ops: T<id> SetThis(map id) | Tn SetThis(nil) | V<hexkey>=<wire> SetThisValue | R<hex formula> Resolve
//      S<hexkey>=<wire> Set | G<hexkey> Get | W<id>:<hexkey>=<wire> the caller writes into its own map

func implHistory(hosts, maps, ops string) string {
	var log callLog
	hs := buildHosts(hosts, &log)
	heap := map[string]map[string]interface{}{}
	if maps != "-" {
		for _, m := range strings.Split(maps, "~") {
			kv := strings.SplitN(m, "=", 2)
			mm, _ := decodeVal(kv[1], hs).(map[string]interface{})
			heap[kv[0]] = mm
		}
	}
	r := formula.NewRunner()
	var out []string
	for _, op := range strings.Split(ops, "~") {
		switch op[0] {
		case 'T':
			if op == "Tn" {
				r.SetThis(nil)
			} else {
				r.SetThis(heap[op[1:]])
			}
		case 'V':
			kv := strings.SplitN(op[1:], "=", 2)
			r.SetThisValue(string(unhx(kv[0])), decodeVal(kv[1], hs))
		case 'S':
			kv := strings.SplitN(op[1:], "=", 2)
			r.Set(string(unhx(kv[0])), decodeVal(kv[1], hs))
		case 'G':
			var v interface{}
			pan, _ := protect(func() { v = r.Get(string(unhx(op[1:]))) })
			if pan {
				out = append(out, "P")
			} else {
				out = append(out, "G "+enc(v))
			}
		case 'W':
			idkv := strings.SplitN(op[1:], ":", 2)
			kv := strings.SplitN(idkv[1], "=", 2)
			heap[idkv[0]][string(unhx(kv[0]))] = decodeVal(kv[1], hs)
		case 'Q': // the public entry point: only the class of the result is observed, its effects by later operations
			src, err := formula.ParseSourceCode(unhx(op[1:]))
			if err != nil {
				out = append(out, "parse-error")
				continue
			}
			var e error
			pan, _ := protect(func() { _, e = r.Resolve(context.Background(), src.Expression) })
			if pan || e != nil {
				out = append(out, "QE")
			} else {
				out = append(out, "QV")
			}
		case 'R':
			src, err := formula.ParseSourceCode(unhx(op[1:]))
			if err != nil {
				out = append(out, "parse-error")
				continue
			}
			var v interface{}
			var e error
			pan, _ := protect(func() { v, e = r.VerifResolveRaw(context.Background(), src.Expression) })
			switch {
			case pan:
				out = append(out, "E") // Resolve turns the panic into an error
			case e != nil:
				out = append(out, "E")
			default:
				out = append(out, "V "+enc(v))
			}
		}
	}
	return strings.Join(out, ";")
}

func suiteRunner(o *Out, thorough bool, seed int64) {
	maps := "1=" + wmap("x", "Ii:1", "$a", "Ii:10") + "~2=" + wmap("x", "Ii:2", "y", ws("two")) + "~3=O0"
	formulas := []string{"x", "$a", "$a = x", "$a = ($a ?? 0) + 1", "$b = 'loc', $b", "[x, y, $a, $b]", "this.x", "k", "$a = k"}
	late := []string{"$a = 1, nofn()", "$a = 2, left('x', -1)", "$a = 3, x!.y.z", "len", "this.len", "$a = len, $a", "true", "this.true", "$c = [x], $c", "$a"}
	var opsAlpha []string
	for _, id := range []string{"1", "2", "3"} {
		opsAlpha = append(opsAlpha, "T"+id)
	}
	opsAlpha = append(opsAlpha, "Tn", "V"+hx([]byte("k"))+"=Ii:7", "V"+hx([]byte("$a"))+"="+ws("set"), "V"+hx([]byte("x"))+"=N",
		"S"+hx([]byte("k"))+"=Ii:99", "S"+hx([]byte("$a"))+"=T", "G"+hx([]byte("k")), "G"+hx([]byte("$a")), "W1:"+hx([]byte("x"))+"=Ii:50")
	for _, f := range formulas {
		opsAlpha = append(opsAlpha, "R"+hx([]byte(f)))
	}
	emit := func(ops []string) {
		s := strings.Join(ops, "~")
		obs := implHistory("-", maps, s)
		o.Case("RH\t-\t"+maps+"\t"+s, obs, len(ops) >= 2)
	}
	k := 3
	if thorough {
		k = 4
	}
	enumSeq(len(opsAlpha), k, func(idx []int) {
		if len(idx) == 0 {
			return
		}
		var ops []string
		hasObs := false
		for _, i := range idx {
			ops = append(ops, opsAlpha[i])
			if opsAlpha[i][0] == 'R' || opsAlpha[i][0] == 'G' {
				hasObs = true
			}
		}
		if hasObs {
			emit(ops)
		}
	})
	o.Notes = append(o.Notes, fmt.Sprintf("exhaustive: every operation sequence of length <= %d over %d operations (3 caller maps, nil, 3 SetThisValue, 2 Set, 2 Get, a caller write, 9 formulas) that contains an observation", k, len(opsAlpha)))
	r := newRand(seed, "runner")
	n := 3000
	if thorough {
		n = 100000
	}
	for i := 0; i < n; i++ {
		var ops []string
		for j := 0; j < 4+r.Intn(26); j++ {
			ops = append(ops, opsAlpha[r.Intn(len(opsAlpha))])
		}
		emit(ops)
	}
	// a formula that fails after it has assigned; keys named like builtins and keywords
	{
		lateOps := []string{"T1", "T2", "Tn", "V" + hx([]byte("len")) + "=Ii:5", "V" + hx([]byte("true")) + "=Ii:0", "W1:" + hx([]byte("x")) + "=Ii:50", "G" + hx([]byte("$a"))}
		for _, f := range late {
			lateOps = append(lateOps, "R"+hx([]byte(f)), "Q"+hx([]byte(f)))
		}
		enumSeq(len(lateOps), 3, func(idx []int) {
			if len(idx) < 2 {
				return
			}
			var ops []string
			for _, i := range idx {
				ops = append(ops, lateOps[i])
			}
			emit(append(ops, "R"+hx([]byte("[$a, $c, x]"))))
		})
	}
	// the same number in another notation (2.5 / 2.50, 1000 / 1e3 / 1000.0), the same text, the same boolean written
	// again - by a formula and by the host: an entry holds what was written LAST, digit for digit
	{
		nf := []string{"$p = 2.5", "$p = 2.50", "$p = 1e3", "$p = 1000", "$p = 1000.0", "$p = 25e-1", "$p = '2.5'", "$p = true", "$p = 1 == 1", "$p = null", "$p = k", "k", "$p"}
		obsf := []string{"toString($p)", "[$p, k]", "'' + $p * 2", "$p === 2.5", "toString(k) + '|' + toString($p)"}
		sets := []string{"V" + hx([]byte("$p")) + "=D+:25:-1", "V" + hx([]byte("$p")) + "=D+:250:-2", "V" + hx([]byte("$p")) + "=D+:1:3", "V" + hx([]byte("$p")) + "=D+:1000:0", "V" + hx([]byte("k")) + "=D+:250:-2",
			"V" + hx([]byte("k")) + "=D+:25:-1", "V" + hx([]byte("$p")) + "=Ii:1000", "V" + hx([]byte("$p")) + "=G" + hx([]byte("2.5")), "V" + hx([]byte("$p")) + "=" + ws("2.5"), "T1", "T3"}
		var alpha []string
		for _, f := range nf {
			alpha = append(alpha, "R"+hx([]byte(f)), "Q"+hx([]byte(f)))
		}
		alpha = append(alpha, sets...)
		enumSeq(len(alpha), 3, func(idx []int) {
			if len(idx) < 2 {
				return
			}
			var ops []string
			for _, i := range idx {
				ops = append(ops, alpha[i])
			}
			emit(append(ops, "R"+hx([]byte(obsf[(idx[0]+2*idx[1]+len(idx))%len(obsf)])), "G"+hx([]byte("$p"))))
		})
		o.Stat("same value written again in another notation")
	}
	// wide numbers (20 to 34 digits, fractions) stored as locals and caller values, passed to builtins and operators,
	// returned through the public entry point, and read again later: a stored number may never change
	wide := []string{"D+:1234567890123456789012345678901234:-14", "D+:1234567890123456789015:-1", "D-:66666666666666666666666666666667:-31", "D+:99999999999999999999:0", "D+:25:-1"}
	maps = "1=" + wmap("w", wide[0], "v", wide[1], "x", "Ii:3") + "~2=" + wmap("w", wide[2], "v", wide[4])
	wf := []string{"$w = 20/3", "$w = 1/3", "$w = w", "$w = 123456789012345678901.5", "$w", "w", "v", "0, $w", "$w || 0", "x > 0 ? $w : w",
		"round($w)", "roundBank($w)", "round(w)", "roundBank(v)", "floor($w) + ceil(w)", "abs($w)", "-$w", "$w * 1", "toString($w)", "toString(w)",
		"$w === 20/3", "$w === 1/3", "$w - 1/3", "w === 123456789012.34567890123456789012345", "[$w, w, v]", "max($w, w)", "min([w, v])", "sum([$w, w])", "toInt($w)", "$w % 7", "$u = $w, $u"}
	var wops []string
	for _, f := range wf {
		wops = append(wops, "R"+hx([]byte(f)), "Q"+hx([]byte(f)))
	}
	wops = append(wops, "T1", "T2", "V"+hx([]byte("w"))+"="+wide[3], "G"+hx([]byte("w")), "G"+hx([]byte("$w")), "S"+hx([]byte("w"))+"="+wide[1])
	for a := 0; a < 8; a++ { // every (assignment, use, read) triple, both entry points
		for b := 8; b < len(wops)-6; b++ {
			for _, c := range []int{8, 9, 10, 11, 2 * 20, 2*20 + 1, 2 * 24, len(wops) - 3, len(wops) - 2} {
				emit([]string{"T1", wops[a], wops[b], wops[c], wops[2*24]})
			}
		}
	}
	for i := 0; i < n; i++ {
		ops := []string{"T1"}
		for j := 0; j < 3+r.Intn(12); j++ {
			ops = append(ops, wops[r.Intn(len(wops))])
		}
		emit(ops)
	}
}

// ---------- C17 ----------

func strLit(s string) string {
	var sb strings.Builder
	sb.WriteByte('\'')
	for _, c := range []byte(s) {
		switch c {
		case '\'':
			sb.WriteString(`\'`)
		case '\\':
			sb.WriteString(`\\`)
		case '\n':
			sb.WriteString(`\n`)
		case '\r':
			sb.WriteString(`\r`)
		default:
			sb.WriteByte(c)
		}
	}
	sb.WriteByte('\'')
	return sb.String()
}

func allStrings(alpha []string, maxLen int) []string {
	var out []string
	enumSeq(len(alpha), maxLen, func(idx []int) {
		var sb strings.Builder
		for _, i := range idx {
			sb.WriteString(alpha[i])
		}
		out = append(out, sb.String())
	})
	return out
}

func resultOf(obs string) string { return strings.SplitN(obs, "|", 2)[0] }

func suiteStrFun(o *Out, thorough bool, seed int64) {
	ls, lt := 4, 3
	if thorough {
		ls, lt = 5, 4
	}
	S := allStrings([]string{"a", "b"}, ls)
	T := allStrings([]string{"a", "b"}, lt)
	ev := func(t string) string { return resultOf(emitEval(o, t, 0, "-", "-", true)) }
	line := func(t string) string { return fmt.Sprintf("EV\t%s\t0\t-\t-", hx([]byte(t))) }
	for _, s := range S {
		for _, t := range T {
			a, b := strLit(s), strLit(t)
			sw, ew, ct, fd := ev("startWith("+a+", "+b+")"), ev("endWith("+a+", "+b+")"), ev("contains("+a+", "+b+")"), ev("find("+a+", "+b+")")
			// independent oracles
			if (sw == "V T") != strings.HasPrefix(s, t) {
				o.Fail(line("startWith("+a+", "+b+")"), "startWith is not 'is a prefix'")
			}
			if (ew == "V T") != strings.HasSuffix(s, t) {
				o.Fail(line("endWith("+a+", "+b+")"), "endWith is not 'is a suffix'")
			}
			if (ct == "V T") != strings.Contains(s, t) {
				o.Fail(line("contains("+a+", "+b+")"), "contains is not 'is a substring'")
			}
			if (fd == "V D-:1:0") == (ct == "V T") {
				o.Fail(line("find("+a+", "+b+")"), "find is -1 exactly when contains is false: violated")
			}
			ev("replace(" + a + ", " + b + ", 'X')")
			ev("replace(" + a + ", " + b + ", " + b + ")")
		}
		// the empty pattern matches before every character and at the end: text from the data, so that bytes that
		// are not UTF-8 arrive as they are
		for _, nw := range []string{"", "-", "\u00e9", "\xff"} {
			if len(s) > 3 {
				break
			}
			for _, u := range []string{"\u00e9", "\u0800", "\U0001f600", "\xff", "\xc3", "\xed\xa0\x80", "\xf0\x9f", "\xe2\x82", "\xf4\x90\x80\x80", "\xc0\x80"} {
				su := s + u + s
				obs := emitEval(o, "replace(s, '', n)", 0, "-", wmap("s", ws(su), "n", ws(nw)), true)
				if want := "V " + ws(strings.ReplaceAll(su, "", nw)); resultOf(obs) != want {
					o.Fail(fmt.Sprintf("EV\t%s\t0\t-\t%s", hx([]byte("replace(s, '', n)")), wmap("s", ws(su), "n", ws(nw))), "replace with an empty pattern does not put the new text in front of every character and at the end: "+resultOf(obs)+", required "+want)
				}
			}
		}
		for _, nw := range []string{"", "-", "\u00e9", "\xff"} {
			obs := emitEval(o, "replace(s, '', n)", 0, "-", wmap("s", ws(s), "n", ws(nw)), true)
			if want := "V " + ws(strings.ReplaceAll(s, "", nw)); resultOf(obs) != want {
				o.Fail(fmt.Sprintf("EV\t%s\t0\t-\t%s", hx([]byte("replace(s, '', n)")), wmap("s", ws(s), "n", ws(nw))), "replace with an empty pattern does not put the new text in front of every character and at the end: "+resultOf(obs)+", required "+want)
			}
		}
		a := strLit(s)
		for n := -2; n <= len(s)+2; n++ {
			l, r := ev(fmt.Sprintf("left(%s, %d)", a, n)), ev(fmt.Sprintf("right(%s, %d)", a, n))
			if n >= 0 && n <= len(s) {
				if got := ev(fmt.Sprintf("left(%s, %d) + right(%s, %d) == %s", a, n, a, len(s)-n, a)); got != "V T" {
					o.Fail(line(fmt.Sprintf("left(%s, %d)", a, n)), "left(s,n) + right(s,len-n) != s")
				}
				if ev(fmt.Sprintf("startWith(%s, left(%s, %d))", a, a, n)) != "V T" || ev(fmt.Sprintf("endWith(%s, right(%s, %d))", a, a, n)) != "V T" {
					o.Fail(line(fmt.Sprintf("left(%s, %d)", a, n)), "startWith(s,left(s,n)) / endWith(s,right(s,n)) violated")
				}
			}
			_, _ = l, r
			for m := -2; m <= len(s)+2; m++ {
				ev(fmt.Sprintf("mid(%s, %d, %d)", a, n, m))
			}
			for _, p := range []string{"'x'", "'0'", "' '"} {
				lp, rp := ev(fmt.Sprintf("lpad(%s, %s, %d)", a, p, n)), ev(fmt.Sprintf("rpad(%s, %s, %d)", a, p, n))
				if n >= 0 {
					for _, x := range []string{lp, rp} {
						if strings.HasPrefix(x, "V S") && len(unhx(x[3:])) != n {
							o.Fail(line(fmt.Sprintf("lpad(%s, %s, %d)", a, p, n)), fmt.Sprintf("pad result does not have the requested length %d", n))
						}
					}
				}
			}
		}
		ev("len(" + a + ")")
		ev("upper(" + a + ")")
		ev("lower(upper(" + a + "))")
	}
	o.Notes = append(o.Notes, fmt.Sprintf("exhaustive: all (s,t) over {a,b} up to length %d/%d for startWith/endWith/contains/find/replace; every integer position -2..len+2 for left/right/mid/lpad/rpad", ls, lt))
	r := newRand(seed, "strfun")
	words := []string{"", " ", "  x ", "\tab\n", "Hello World", "ÀÉî", "abcabcabc", "aaa", "a b c", "MiXeD", "é", "日本語", "x ", "  ", "\r\nq\r\n"}
	for _, w := range words {
		a := strLit(w)
		for _, f := range []string{"trim(%s)", "lower(%s)", "upper(%s)", "len(%s)", "trim(trim(%s)) == trim(%s)"} {
			ev(strings.ReplaceAll(f, "%s", a))
		}
		// trim / lower / upper oracles (the model covers ASCII only)
		if got := ev("trim(" + a + ")"); got != "V S"+hx([]byte(strings.TrimSpace(w))) {
			o.Fail(line("trim("+a+")"), "trim does not strip exactly the surrounding whitespace")
		}
		if got := ev("lower(" + a + ")"); got != "V S"+hx([]byte(strings.ToLower(w))) {
			o.Fail(line("lower("+a+")"), "lower does not map case")
		}
		if got := ev("upper(" + a + ")"); got != "V S"+hx([]byte(strings.ToUpper(w))) {
			o.Fail(line("upper("+a+")"), "upper does not map case")
		}
	}
	lists := []string{"[]", "['a']", "['a', 'b']", "['a', '', 'b']", "['x', 'x']", "['é', 'b']"}
	for _, l := range lists {
		for _, sep := range []string{"''", "','", "', '"} {
			ev("join(" + l + ", " + sep + ")")
		}
		for _, it := range []string{"'a'", "''", "'z'", "'é'"} {
			ev("includes(" + l + ", " + it + ")")
		}
	}
	// arrays that come from the data and hold Go values (never normalised inside a container): join and includes
	// work on what the elements print as
	{
		rows := "A3 " + wmap("k", "Ii:65", "j", ws("x")) + " " + wmap("k", "Ii64:66") + " " + wmap("j", "N")
		for _, ids := range []string{"A2 Ii:65 Ii:66", "Z3 Ii:1 Ii:2 Ii:3", "A2 Ii64:65 Ii32:66", "A2 G312e35 G32", "A3 Ii:65 " + ws("65") + " D+:65:0", "Z2 " + ws("a") + " " + ws("b"), "A2 T F", "A2 Iu8:65 Ii8:66", "A2 Iup:65 Iu16:66", "A0"} {
			data := wmap("ids", ids, "rows", rows)
			for _, t := range []string{"join(ids, ',')", "includes(ids, '65')", "includes(ids, 'A')", "includes(ids, 65)", "join(ids, '') + '!'", "join(mapToArr(rows, 'k'), '-')", "includes(mapToArr(rows, 'k'), '66')"} {
				emitEval(o, t, 0, "-", data, true)
			}
		}
	}
	// regexp agrees with RE2 (Go's regexp); invalid patterns are errors (C03)
	pats := []string{"a", "^a", "a$", "a*", "a+b", "(a|b)c", "[a-c]+", ".", "^$", "a?b", "(ab)*", "[^a]", "a{2}", "\\d+", "^(a|b)*$", "(", "[", "a**", "\\",
		"^b", "(?m)^b", "a.b", "(?s)a.b", "(?i)A", "^.$", "\\pL", "", "a*?b", "b$", "(?m)a$", "\\s", "[[:alpha:]]+", "\\bb"}
	subs := []string{"", "a", "b", "ab", "abc", "aab", "cab", "ca", "12", "aa", "a\nb", "a\r\nb", "A", "é", "\xff", "a b"}
	for _, p := range pats {
		re, err := regexp.Compile(p)
		for _, s := range subs {
			t := "regexp(" + strLit(s) + ", " + strLit(p) + ")"
			got := ev(t)
			if err != nil {
				if got != "E" && got != "P" {
					o.Fail(line(t), "invalid regular expression not reported as an error")
				}
			} else if (got == "V T") != re.MatchString(s) {
				o.Fail(line(t), "regexp disagrees with RE2 matching")
			}
		}
	}
	// generated patterns: literal words (with and without flags) over letters whose case folding is not lower-casing
	// (long s, Kelvin sign, micro sign / mu, the three sigmas, dotted and dotless i, sharp s, the dz digraphs, the
	// combining iota), a small grammar of operators around them, and subjects derived from each pattern - its own
	// words in other letter case, with members of the same folding orbit substituted, embedded in other text
	{
		orbit := [][]string{{"s", "S", "\u017f"}, {"k", "K", "\u212a"}, {"\u00b5", "\u03bc", "\u039c"}, {"\u03c3", "\u03c2", "\u03a3"}, {"i", "I", "\u0130", "\u0131"}, {"\u00df", "\u1e9e", "ss"},
			{"\u01c4", "\u01c5", "\u01c6"}, {"\u0345", "\u03b9", "\u0399", "\u1fbe"}, {"\u00e5", "\u00c5", "\u212b"}, {"\u03b8", "\u03d1", "\u03f4", "\u0398"}, {"e", "E", "\u00e9", "\u00c9"}, {"a", "A"}, {"\u0434", "\u0414", "\u1c81"}}
		words := []string{"message", "kelvin", "\u03bcm", "\u03b3\u03bf\u03c3", "istanbul", "stra\u00dfe", "\u01c6ez", "\u1fb3", "\u00e5ngstr\u00f6m", "\u03b8eta", "a", "ss", "Is", "mass", "\u0434a"}
		flags := []string{"", "(?i)", "(?i)^", "(?s)", "(?im)", "(?U)", "(?i:", "(?-i)"}
		wrap := []string{"%s", "^%s$", "%s+", "(%s|zz)", "[%s]", "[^%s]x", "%s?x", "\\b%s\\b", "(?i:%s)x", "%s{2}", ".%s.", "\\Q%s\\E"}
		variants := func(w string) []string {
			out := []string{w, strings.ToUpper(w), strings.ToLower(w), strings.Title(w), "x" + w + "y", w + w, ""}
			for _, ob := range orbit {
				for _, a := range ob {
					if strings.Contains(w, a) {
						for _, b := range ob {
							if a != b {
								out = append(out, strings.Replace(w, a, b, 1), strings.ToUpper(strings.Replace(w, a, b, -1)), "pre "+strings.Replace(w, a, b, -1)+" post")
							}
						}
					}
				}
			}
			return out
		}
		count := 0
		for wi, w := range words {
			for fi, f := range flags {
				for ki, wr := range wrap {
					if !thorough && (wi+fi+ki)%3 != 0 && !(ki == 0 && fi <= 1) {
						continue
					}
					pat := f + fmt.Sprintf(wr, w)
					if f == "(?i:" {
						pat += ")"
					}
					re, err := regexp.Compile(pat)
					for _, sub := range variants(w) {
						data := wmap("s", ws(sub), "p", ws(pat))
						got := resultOf(emitEval(o, "regexp(s, p)", 0, "-", data, true))
						count++
						ln := fmt.Sprintf("EV\t%s\t0\t-\t%s", hx([]byte("regexp(s, p)")), data)
						if err != nil {
							if got != "E" && got != "P" {
								o.Fail(ln, fmt.Sprintf("the invalid regular expression %q is not reported as an error: %s", pat, got))
							}
						} else if (got == "V T") != re.MatchString(sub) {
							o.Fail(ln, fmt.Sprintf("regexp(%q, %q) is %s; RE2 matching says %v", sub, pat, got, re.MatchString(sub)))
						}
					}
				}
			}
		}
		o.Stat(fmt.Sprintf("generated regular expressions: %d pattern/subject pairs", count))
	}
	// sizes: the laws at lengths far from the small cases above (thresholds of buffers, caches, clamps); oracle
	// only, the results are too long to ship to the model
	{
		evalBig := func(text string, data map[string]interface{}) (interface{}, error) {
			src, err := formula.ParseSourceCode([]byte(text))
			if err != nil {
				return nil, err
			}
			rn := formula.NewRunner()
			rn.SetThis(data)
			var v interface{}
			pan, msg := protect(func() { v, err = rn.Resolve(context.Background(), src.Expression) })
			if pan {
				return nil, fmt.Errorf("panic: %s", msg)
			}
			return v, err
		}
		// case mapping of every code point (simple upper / lower case mapping of each character, the others kept)
		for base := rune(0); base < 0x110000; base += 2048 {
			var sb strings.Builder
			for c := base; c < base+2048; c++ {
				if c >= 0xD800 && c <= 0xDFFF {
					continue
				}
				sb.WriteRune(c)
			}
			txt := sb.String()
			if txt == "" {
				continue
			}
			nt := fmt.Sprintf("NOP\tcasemap\t%x", base)
			o.Case(nt, "-", true)
			for _, f := range []struct {
				name string
				m    func(rune) rune
			}{{"upper", unicode.ToUpper}, {"lower", unicode.ToLower}} {
				v, err := evalBig(f.name+"(s)", map[string]interface{}{"s": txt})
				want := []rune(txt)
				for i, c := range want {
					want[i] = f.m(c)
				}
				got, _ := v.(string)
				if err != nil || got != string(want) {
					bad := ""
					gr := []rune(got)
					for i := range want {
						if i >= len(gr) || gr[i] != want[i] {
							bad = fmt.Sprintf("U+%04X maps to U+%04X, required U+%04X", []rune(txt)[i], func() rune {
								if i < len(gr) {
									return gr[i]
								}
								return -1
							}(), want[i])
							break
						}
					}
					o.Fail(nt, fmt.Sprintf("%s does not map case on the block U+%04X..: %s %v", f.name, base, bad, err))
				}
			}
		}
		// pads alone, far beyond the sizes of the full sweep below (a clamp "against absurd widths" sits anywhere): powers
		// of two and of ten up to 128 MiB, each with its neighbours
		for _, n := range []int{1<<22 + 1, 1 << 23, 1<<23 + 1, 10000000, 1<<24 - 1, 1 << 24, 1<<24 + 1, 1<<24 + 2, 1<<25 + 1, 1<<26 + 5, 100000007, 1<<27 + 3} {
			for _, f := range []string{"lpad", "rpad"} {
				sv := "7x"
				nt := fmt.Sprintf("NOP\tpadsizes\t%d:%s", n, f)
				o.Case(nt, "-", true)
				v, err := evalBig(f+"(s, '0', n)", map[string]interface{}{"s": sv, "n": n})
				str, ok := v.(string)
				if err != nil || !ok {
					o.Fail(nt, fmt.Sprintf("%s(%q, '0', %d) failed: %v", f, sv, n, err))
					continue
				}
				okEnds := (f == "lpad" && strings.HasSuffix(str, sv) && strings.HasPrefix(str, "000")) || (f == "rpad" && strings.HasPrefix(str, sv) && strings.HasSuffix(str, "000"))
				if len(str) != n || !okEnds || strings.Count(str, "0") != n-len(sv) {
					o.Fail(nt, fmt.Sprintf("%s(%q, '0', %d) has length %d (%d pad characters) and is not the padded string of exactly the requested length", f, sv, n, len(str), strings.Count(str, "0")))
				}
			}
		}
		sizes := []int{255, 256, 4095, 4096, 65535, 65536, 65537, 1000000, 1000001, 1 << 20, 1<<20 + 1, 1<<20 + 2, 1<<20 + 7, 1500000, 1 << 21, 3000001}
		if thorough {
			sizes = append(sizes, 1<<24, 1<<24+3, 1<<25+1, 50000000)
		}
		for _, n := range sizes {
			for _, sv := range []string{"", "ab", "xyzzy"} {
				data := map[string]interface{}{"s": sv, "n": n}
				nt := func(t string) string { return fmt.Sprintf("NOP\tsizes\t%d:%s:%s", n, sv, t) }
				for _, f := range []string{"lpad", "rpad"} {
					o.Case(nt(f), "-", true)
					v, err := evalBig(f+"(s, '0', n)", data)
					str, ok := v.(string)
					if err != nil || !ok {
						o.Fail(nt(f), fmt.Sprintf("%s(%q, '0', %d) failed: %v", f, sv, n, err))
						continue
					}
					want := strings.Repeat("0", n-len(sv)) + sv
					if f == "rpad" {
						want = sv + strings.Repeat("0", n-len(sv))
					}
					if str != want {
						o.Fail(nt(f), fmt.Sprintf("%s(%q, '0', %d) has length %d and is not the padded string of exactly the requested length", f, sv, n, len(str)))
					}
				}
				big := strings.Repeat("ab", n/2) + sv + "c"
				data["t"] = big
				data["k"] = len(big) - 3
				for _, c := range []struct {
					f    string
					want interface{}
				}{
					{"left(t, k) + right(t, 3) == t", true}, {"len(left(t, k))", float64(len(big) - 3)}, {"len(right(t, k))", float64(len(big) - 3)},
					{"endWith(t, right(t, k))", true}, {"startWith(t, left(t, k))", true}, {"find(t, 'c')", float64(strings.Index(big, "c"))},
					{"contains(t, 'bc') == " + fmt.Sprint(strings.Contains(big, "bc")), true}, {"len(mid(t, 1, k))", float64(len(big) - 4)},
					{"len(replace(t, 'a', 'xy'))", float64(len(strings.ReplaceAll(big, "a", "xy")))}, {"len(upper(t))", float64(len(big))},
					{"lower(upper(t)) == t", true}, {"len(trim(' ' + t + ' '))", float64(len(big))}, {"len(t + t)", float64(2 * len(big))},
					{"regexp(t, 'c$')", true}, {"regexp(t, '^(ab)*c$')", sv != "xyzzy"},
				} {
					o.Case(nt(c.f), "-", true)
					v, err := evalBig(c.f, data)
					if err != nil || v != c.want {
						o.Fail(nt(c.f), fmt.Sprintf("%s on a string of length %d gave %v, %v; required %v", c.f, len(big), v, err, c.want))
					}
				}
			}
		}
	}
	// lower / upper / trim beyond ASCII against the model: letters with special mappings (digraphs with a title case,
	// Georgian, Greek final sigma, dotted / dotless i, sharp s, Kelvin, Deseret), Unicode white space at the edges,
	// bytes that are not valid UTF-8
	{
		pool := []string{"a", "Z", "\u00e9", "\u00c9", "\u00df", "\u00ff", "\u0130", "\u0131", "\u01c4", "\u01c5", "\u01c6", "\u01f2", "\u03c2", "\u03a3", "\u0416", "\u10d0", "\u1c90", "\u212a",
			"\u1e9e", "\ufb01", "\U00010428", "\U00010400", "\u4e2d", "\ufffd", "\xff", "\xc3", "\xe2\x82", " ", "\t", "\u00a0", "\u0085", "\u2028", "\u3000", "\u1680", "\u200b", "\ufeff", "\u2003"}
		for i := 0; i < 400 || (thorough && i < 20000); i++ {
			var sb strings.Builder
			for j := 0; j < 1+r.Intn(6); j++ {
				sb.WriteString(pool[r.Intn(len(pool))])
			}
			data := wmap("s", ws(sb.String()))
			for _, f := range []string{"upper(s)", "lower(s)", "trim(s)", "lower(upper(s)) == lower(s)", "len(trim(s))"} {
				emitEval(o, f, 0, "-", data, true)
			}
		}
		for _, c := range pool {
			for _, d := range pool {
				data := wmap("s", ws(c+d))
				emitEval(o, "[upper(s), lower(s), trim(s)]", 0, "-", data, true)
			}
		}
	}
	// history: many distinct patterns and subjects, revisited in another order (a cache keyed or evicted wrongly
	// gives the answer of another pattern only on a revisit)
	{
		var hp []string
		for i := 0; i < 70; i++ {
			hp = append(hp, fmt.Sprintf("^p%d$", i), fmt.Sprintf("q{%d}", i%9+1), fmt.Sprintf("[a-%c]%d", 'b'+rune(i%20), i))
		}
		hs := func(i int) []string {
			return []string{fmt.Sprintf("p%d", i), fmt.Sprintf("p%d", i+1), strings.Repeat("q", i%9+1), strings.Repeat("q", i%9), fmt.Sprintf("b%d", i), fmt.Sprintf("%c%d", 'b'+rune(i%20)+1, i)}
		}
		order := make([]int, 0, 3*len(hp))
		for i := range hp {
			order = append(order, i)
		}
		for i := len(hp) - 1; i >= 0; i-- {
			order = append(order, i)
		}
		for i := 0; i < len(hp); i++ {
			order = append(order, r.Intn(len(hp)))
		}
		for _, pi := range order {
			p := hp[pi]
			re := regexp.MustCompile(p)
			for _, s := range hs(pi / 3) {
				t := "regexp(" + strLit(s) + ", " + strLit(p) + ")"
				if got := ev(t); (got == "V T") != re.MatchString(s) {
					o.Fail(line(t), "regexp disagrees with RE2 matching (after a history of other patterns)")
				}
			}
		}
	}
	n := 2000
	if thorough {
		n = 80000
	}
	alpha := []string{"a", "b", "c", " ", "ab", "é", "A"}
	for i := 0; i < n; i++ {
		mk := func(k int) string {
			var sb strings.Builder
			for j := 0; j < r.Intn(k); j++ {
				sb.WriteString(alpha[r.Intn(len(alpha))])
			}
			return sb.String()
		}
		s, t, u := mk(12), mk(4), mk(4)
		switch r.Intn(6) {
		case 0:
			ev(fmt.Sprintf("replace(%s, %s, %s)", strLit(s), strLit(t), strLit(u)))
		case 1:
			ev(fmt.Sprintf("mid(%s, %d, %d)", strLit(s), r.Intn(16)-2, r.Intn(16)-2))
		case 2:
			ev(fmt.Sprintf("lpad(%s, %s, %d)", strLit(s), strLit(t), r.Intn(10000)))
		case 3:
			ev(fmt.Sprintf("find(%s, %s)", strLit(s), strLit(t)))
		case 4:
			ev(fmt.Sprintf("rpad(%s, 'x', %d) == %s + rpad('', 'x', %d)", strLit(s), len(s)+r.Intn(5), strLit(s), r.Intn(5)))
		default:
			ev(fmt.Sprintf("endWith(%s + %s, %s)", strLit(s), strLit(t), strLit(t)))
		}
	}
}

// ---------- C18 ----------

func suiteNumFun(o *Out, thorough bool, seed int64) {
	ev := func(t string) string { return resultOf(emitEval(o, t, 0, "-", "-", true)) }
	line := func(t string) string { return fmt.Sprintf("EV\t%s\t0\t-\t-", hx([]byte(t))) }
	args := []string{"0", "-0", "1", "-1", "2.5", "-2.5", "3.5", "-3.5", "0.5", "-0.5", "1.5", "2.4999999", "2.5000001", "2.9999999", "-2.9999999",
		"0.1", "-0.1", "123456789012345", "-123456789012345", "1e15", "1.5e15", "12345.6789e-3", "1e-15", "-1e-15", "999999999999999e-15", "0.49999999999999",
		"7", "100", "1e3", "99.5", "-99.5", "100.5", "0.000", "5e-1",
		"1e19", "-1e25", "999999999999999e15", "9223372036854775808", "9223372036854775807", "-9223372036854775809", "123456789012345678901.9", "-123456789012345678901.9", "1e300", "1e-300"}
	for _, a := range args {
		for _, f := range []string{"abs", "ceil", "floor", "round", "roundBank", "toInt", "toFloat", "toString", "finite", "sqrt", "exp", "ln", "log"} {
			ev(f + "(" + a + ")")
		}
		ev("toFloat(toString(" + a + ")) == " + a)
		ev("~" + a)
	}
	// text to number: every text of up to 4 (5) symbols over the alphabet of numerals and their near misses;
	// "a numeric string is that number, other text NaN" is judged by the model and, for the class, by a grammar here
	{
		syms := []string{"0", "5", "12", ".", "e", "E", "+", "-", " ", "x", "_", "Inf", "inity", "NaN", "n", ","}
		k := 4
		if thorough {
			k = 5
		}
		numeral := regexp.MustCompile(`^[+-]?([0-9]+\.?[0-9]*|\.[0-9]+)([eE][+-]?[0-9]+)?$`)
		infinite := regexp.MustCompile(`^[+-]?(?i:inf|infinity)$`)
		enumSeq(len(syms), k, func(idx []int) {
			var sb strings.Builder
			for _, i := range idx {
				sb.WriteString(syms[i])
			}
			txt := sb.String()
			data := wmap("s", ws(txt))
			got := resultOf(emitEval(o, "toFloat(s)", 0, "-", data, true))
			ln := fmt.Sprintf("EV\t%s\t0\t-\t%s", hx([]byte("toFloat(s)")), data)
			switch {
			case numeral.MatchString(txt):
				if !strings.HasPrefix(got, "V D") || got == "V Dnan" || strings.Contains(got, "inf") {
					o.Fail(ln, fmt.Sprintf("toFloat(%q) is %s: a numeric string must give that number", txt, got))
				}
			case infinite.MatchString(txt):
				if !strings.Contains(got, "inf") {
					o.Fail(ln, fmt.Sprintf("toFloat(%q) is %s", txt, got))
				}
			default:
				if got != "V Dnan" {
					o.Fail(ln, fmt.Sprintf("toFloat(%q) is %s: text that is not a number must give NaN", txt, got))
				}
			}
			if len(idx) <= 3 {
				emitEval(o, "toInt(s)", 0, "-", data, true)
				emitEval(o, "[s * 1, 2 + s, s - 0, finite(s)]", 0, "-", data, true)
			}
		})
		o.Notes = append(o.Notes, fmt.Sprintf("exhaustive: toFloat of every text of up to %d symbols over a %d-symbol alphabet of numeral parts and near misses", k, len(syms)))
	}
	r := newRand(seed, "numfun")
	n := 6000
	if thorough {
		n = 250000
	}
	for i := 0; i < n; i++ {
		d := 1 + r.Intn(15)
		c := randCoef(r, d)
		if r.Intn(5) == 0 {
			c = c[:len(c)-1] + "5"
		}
		e := r.Intn(31) - 15
		a := fmt.Sprintf("%se%d", c, e)
		if r.Intn(2) == 0 {
			a = "(-" + a + ")"
		}
		f := []string{"abs", "ceil", "floor", "round", "roundBank", "toInt", "toString", "finite"}[r.Intn(8)]
		ev(f + "(" + a + ")")
		if i%10 == 0 {
			ev("toFloat(toString(" + a + ")) === " + a)
		}
	}
	// max / min over lists of length 1..6
	for i := 0; i < n/6; i++ {
		k := 1 + r.Intn(6)
		var l []string
		for j := 0; j < k; j++ {
			l = append(l, randOperand(r))
		}
		ev("max(" + strings.Join(l, ", ") + ")")
		ev("min(" + strings.Join(l, ", ") + ")")
		ev("max([" + strings.Join(l, ", ") + "]...)")
	}
	// bit operators on integer pairs below 2^53
	ints := []int64{0, 1, -1, 2, -2, 255, 256, -256, 1 << 31, -(1 << 31), 1<<32 + 5, 1<<52 + 12345, -(1<<52 + 999), 1<<53 - 1, -(1<<53 - 1), 0x5555555555555, 0xAAAAAAAAAAAAA,
		1<<53 + 1, 9007199254740993, -(1<<60 + 7), 1<<62 + 3, math.MaxInt64, math.MinInt64 + 1}
	for i := 0; i < 60; i++ {
		ints = append(ints, r.Int63n(1<<53)-(1<<52))
	}
	lit := func(n int64) string {
		if n < 0 {
			return fmt.Sprintf("(-%d)", -n)
		}
		return fmt.Sprint(n)
	}
	for _, a := range ints {
		ev("~" + lit(a))
		if got, want := ev("~"+lit(a)), "V "+canonTriple(^a < 0, new(big.Int).Abs(big.NewInt(^a)), 0); got != want {
			o.Fail(line("~"+lit(a)), fmt.Sprintf("~ is not the two's-complement complement: got %s want %s", got, want))
		}
		for _, b := range ints[:20] {
			for _, op := range []struct {
				s string
				f func(x, y int64) int64
			}{{"&", func(x, y int64) int64 { return x & y }}, {"|", func(x, y int64) int64 { return x | y }}, {"^", func(x, y int64) int64 { return x ^ y }}} {
				t := lit(a) + " " + op.s + " " + lit(b)
				w := op.f(a, b)
				if got, want := ev(t), "V "+canonTriple(w < 0, new(big.Int).Abs(big.NewInt(w)), 0); got != want {
					o.Fail(line(t), fmt.Sprintf("bit operator result %s, two's-complement value %s", got, want))
				}
			}
		}
	}
	// sqrt / exp / ln / log: 15 significant digits against float64 math (relative 5e-15), and the inverse laws
	rel := func(got string, want float64) bool {
		if !strings.HasPrefix(got, "V D") || strings.HasPrefix(got, "V Dn") || strings.HasPrefix(got, "V Di") || strings.HasPrefix(got, "V D-i") {
			return math.IsNaN(want) || math.IsInf(want, 0)
		}
		p := strings.Split(got[3:], ":")
		c, _ := new(big.Float).SetString(p[1])
		e, _ := strconv.Atoi(p[2])
		f, _ := c.Float64()
		v := f * math.Pow(10, float64(e))
		if p[0] == "-" {
			v = -v
		}
		if want == 0 {
			return math.Abs(v) < 1e-300
		}
		return math.Abs(v-want) <= 1e-13*math.Abs(want)
	}
	for i := 0; i < 300 || (thorough && i < 6000); i++ {
		c := randCoef(r, 1+r.Intn(15))
		e := r.Intn(21) - 15
		x, _ := strconv.ParseFloat(c+"e"+fmt.Sprint(e), 64)
		a := fmt.Sprintf("%se%d", c, e)
		// compare with float64 math only where the function is well conditioned at x (the float64
		// argument itself carries a relative error of 1e-16, which ln/log amplify by 1/|ln x| near 1)
		for _, fn := range []struct {
			n string
			f func(float64) float64
		}{{"sqrt", math.Sqrt}, {"ln", math.Log}, {"log", math.Log10}} {
			t := fn.n + "(" + a + ")"
			got := ev(t)
			if fn.n != "sqrt" && math.Abs(math.Log(x)) < 0.05 {
				continue
			}
			if !rel(got, fn.f(x)) {
				o.Fail(line(t), fmt.Sprintf("%s disagrees with the real function beyond 13 digits: %s vs %v", fn.n, got, fn.f(x)))
			}
		}
		if x < 300 {
			t := "exp(" + a + ")"
			if got := ev(t); !rel(got, math.Exp(x)) && x < 30 {
				o.Fail(line(t), fmt.Sprintf("exp disagrees with the real function: %s vs %v", got, math.Exp(x)))
			}
		}
		// inverse laws, evaluated by the implementation itself
		laws := []string{"sqrt(%s) * sqrt(%s)"}
		if math.Abs(math.Log(x)) < 30 {
			laws = append(laws, "exp(ln(%s))")
		}
		for _, law := range laws {
			t := strings.ReplaceAll(law, "%s", a)
			if got := ev(t); !rel(got, x) {
				o.Fail(line(t), fmt.Sprintf("inverse law violated: %s = %s, expected %v", t, got, x))
			}
		}
		if x < 30 && x >= 0.1 { // for small x, exp(x) rounded to 16 digits no longer determines x to 15 digits
			t := "ln(exp(" + a + "))"
			if got := ev(t); !rel(got, x) {
				o.Fail(line(t), fmt.Sprintf("inverse law violated: %s = %s, expected %v", t, got, x))
			}
		}
	}
	// numbers whose exponent is far outside anything a formula can compute (a caller's decimal can have any scale): the
	// integer nearest to a number below 1/2 in magnitude is 0, the greatest integer below a negative one is -1, the least
	// above a positive one is 1; a huge number is its own floor and ceiling.  Scales around 2^16, 2^20 (where a guard
	// "against absurd scales" would sit) and beyond; judged by value on the Go side (the model's exact integers would
	// need 10^scale)
	{
		num := func(n int64) *decimal.Big { return decimal.New(n, 0) }
		for _, k := range []int{400, 6176, 7000, 1<<16 - 1, 1<<16 + 1, 100000, 1<<20 - 1, 1 << 20, 1<<20 + 5, 2000000, 3000001} {
			for _, m := range []int64{15, -15, 1, -1, 49999, -49999} {
				if k >= 1<<20 && m != 15 && m != -15 && !thorough {
					continue
				}
				tiny := new(decimal.Big).SetMantScale(m, k)
				huge := new(decimal.Big).SetMantScale(m, -k)
				lo, hi := num(0), num(1)
				if m < 0 {
					lo, hi = num(-1), num(0)
				}
				for _, c := range []struct {
					f    string
					x    *decimal.Big
					want *decimal.Big
				}{{"floor(x)", tiny, lo}, {"ceil(x)", tiny, hi}, {"round(x)", tiny, num(0)}, {"roundBank(x)", tiny, num(0)}, {"toInt(x)", tiny, num(0)}, {"floor(x) <= x", tiny, nil}, {"ceil(x) >= x", tiny, nil},
					{"round(x)", huge, huge}, {"roundBank(x)", huge, huge}, {"x < 0 == " + fmt.Sprint(m < 0), tiny, nil}, {"max(x, 0) >= min(x, 0)", tiny, nil}} {
					if k > 1<<16+1 && c.x == huge {
						continue // (ceil and floor of a number beyond 10^384 are infinite: they work in the 16-digit context, section 7.3)
					}
					nt := fmt.Sprintf("NOP\textremescale\t%d:%d:%s", k, m, c.f)
					o.Case(nt, "-", true)
					src, err := formula.ParseSourceCode([]byte("[" + c.f + "]"))
					if err != nil {
						continue
					}
					rn := formula.NewRunner()
					rn.SetThis(map[string]interface{}{"x": new(decimal.Big).Copy(c.x)})
					var v interface{}
					pan, msg := protect(func() { v, err = rn.Resolve(context.Background(), src.Expression) })
					arr, _ := v.([]interface{})
					if pan || err != nil || len(arr) != 1 {
						o.Fail(nt, fmt.Sprintf("%s of %v x 10^%d failed: %v %s", c.f, m, -k, err, msg))
						continue
					}
					if c.want == nil {
						if arr[0] != true {
							o.Fail(nt, fmt.Sprintf("%s is %v for x = %d x 10^%d", c.f, arr[0], m, -k))
						}
						continue
					}
					got, ok := arr[0].(*decimal.Big)
					if !ok || got.Cmp(c.want) != 0 {
						o.Fail(nt, fmt.Sprintf("%s of %d x 10^%d is %v, required %v", c.f, m, -k, arr[0], c.want))
					}
				}
			}
		}
		o.Stat("extreme scales")
	}
	// the same three functions against references of 300 bits computed from the DECIMAL argument (series and Newton
	// iterations over math/big): no float64 in the argument or in the reference, so the comparison is sharp
	// everywhere, also next to 1 where ln and log lose every digit a float64 argument would have carried
	{
		worst := map[string]float64{}
		judge := func(fn, a string, ref *big.Float) {
			t := fn + "(" + a + ")"
			got := ev(t)
			if !strings.HasPrefix(got, "V D+:") && !strings.HasPrefix(got, "V D-:") {
				o.Fail(line(t), fmt.Sprintf("%s: %s, required about %s", t, got, ref.Text('g', 20)))
				return
			}
			p := strings.Split(got[3:], ":")
			g, _, _ := big.ParseFloat(p[1]+"e"+p[2], 10, 300, big.ToNearestEven)
			if p[0] == "-" {
				g.Neg(g)
			}
			if ref.Sign() == 0 {
				if g.Sign() != 0 {
					o.Fail(line(t), fmt.Sprintf("%s: %s, required 0", t, got))
				}
				return
			}
			d := new(big.Float).Sub(g, ref)
			d.Quo(d, ref)
			e, _ := d.Abs(d).Float64()
			if e > worst[fn] {
				worst[fn] = e
			}
			if e > 2e-15 {
				o.Fail(line(t), fmt.Sprintf("%s disagrees with the real function in the 15th significant digit: %s, required %s (relative error %.3g)", t, got, ref.Text('g', 22), e))
			}
		}
		args := []string{"1", "2", "10", "0.5", "1.000000000000001", "0.999999999999999", "1.00001", "0.99999", "2.718281828459045", "1e-15", "9.99999999999999e14", "7", "100", "0.1", "3.3", "1.5", "123456789012345"}
		for i := 0; i < 200 || (thorough && i < 4000); i++ {
			args = append(args, fmt.Sprintf("%se%d", randCoef(r, 1+r.Intn(15)), r.Intn(31)-15))
		}
		for _, a := range args {
			x, _, _ := big.ParseFloat(a, 10, 300, big.ToNearestEven)
			if x.Sign() > 0 {
				ln := bigLn(x)
				judge("ln", a, ln)
				judge("log", a, new(big.Float).Quo(ln, bigLn(big.NewFloat(10).SetPrec(300))))
			}
			if xf, _ := x.Float64(); xf < 200 && xf > -200 {
				judge("exp", a, bigExp(x))
				judge("exp", "-"+a, bigExp(new(big.Float).Neg(x)))
			}
		}
		// exp over its whole finite range in the 16-digit context (it overflows at ln(10^385) = 886.4953...): a linear
		// grid, denser next to the overflow point; beyond it the result is infinite
		{
			maxFinite, _, _ := big.ParseFloat("9.999999999999999e384", 10, 300, big.ToNearestEven)
			var grid []string
			for x := 0.37; x < 886; x += 2.9 {
				grid = append(grid, strconv.FormatFloat(x, 'f', 2, 64))
			}
			for x := 880.0; x < 888; x += 0.0625 {
				grid = append(grid, strconv.FormatFloat(x, 'f', 4, 64))
			}
			grid = append(grid, "886.4953", "886.49", "886.4954", "886.5", "887", "1000", "886", "885.999999999999")
			for _, a := range grid {
				x, _, _ := big.ParseFloat(a, 10, 300, big.ToNearestEven)
				ref := bigExp(x)
				if ref.Cmp(maxFinite) > 0 {
					t := "exp(" + a + ")"
					if got := ev(t); got != "V Dinf" {
						o.Fail(line(t), fmt.Sprintf("%s is beyond the range of the 16-digit context and must be infinite: %s", t, got))
					}
					continue
				}
				judge("exp", a, ref)
			}
		}
		o.Stat(fmt.Sprintf("transcendental references: %d arguments; worst relative error ln %.2g log %.2g exp %.2g", len(args), worst["ln"], worst["log"], worst["exp"]))
	}
	for k := -15; k <= 15; k++ {
		t := fmt.Sprintf("log(1e%d)", k)
		if got := ev(t); !rel(got, float64(k)) {
			o.Fail(line(t), "log of a power of ten is not the exponent")
		}
	}
}

// ---------- C19 ----------

func suiteDateFun(o *Out, thorough bool, seed int64) {
	offs := []int{0, 19800, -10800}
	r := newRand(seed, "datefun")
	ev := func(t string, off int, data string) string { return resultOf(emitEval(o, t, off, "-", data, true)) }
	ys := []int{1, 4, 100, 400, 1500, 1582, 1600, 1899, 1900, 1970, 1999, 2000, 2023, 2024, 2038, 2100, 9999}
	ms := []int{-40, -13, -12, -1, 0, 1, 2, 3, 6, 11, 12, 13, 14, 24, 25, 60}
	ds := []int{-40, -1, 0, 1, 15, 28, 29, 30, 31, 32, 59, 60, 366}
	cnt := 0
	step := 9
	if thorough {
		step = 1
	}
	for _, y := range ys {
		for _, m := range ms {
			for _, d := range ds {
				cnt++
				if cnt%step != 0 {
					continue
				}
				off := offs[cnt%len(offs)]
				dt := fmt.Sprintf("date(%d, %d, %d)", y, m, d)
				ev("[year("+dt+"), month("+dt+"), day("+dt+"), hour("+dt+"), minute("+dt+"), second("+dt+"), weekDay("+dt+"), millSecond("+dt+")]", off, "-")
				ev(dt, off, "-")
			}
		}
	}
	o.Notes = append(o.Notes, fmt.Sprintf("grid: 17 years x 16 months (-40..60) x 13 days (-40..366), every %dth, in zones UTC, +05:30, -03:00", step))
	n := 3000
	if thorough {
		n = 150000
	}
	for i := 0; i < n; i++ {
		off := offs[r.Intn(len(offs))]
		y, m, d := 1+r.Intn(9999), r.Intn(100)-40, r.Intn(100)-40
		if r.Intn(2) == 0 {
			m, d = 1+r.Intn(12), 1+r.Intn(31)
		}
		dt := fmt.Sprintf("date(%d, %d, %d)", y, m, d)
		switch r.Intn(4) {
		case 0:
			ev("[year("+dt+"), month("+dt+"), day("+dt+"), weekDay("+dt+"), millSecond("+dt+")]", off, "-")
			ev("timeFormat("+dt+", '2006-01-02 Mon Jan _2 002 15:04:05 -07:00 06 1/2 3PM')", off, "-")
			ev("timeFormat(useTimezone("+dt+", 'Etc/GMT-8'), 'Monday, 02-January-2006 15:04 Z0700')", off, "-")
		case 1:
			sh := fmt.Sprintf("addDate(%s, %d, %d, %d)", dt, r.Intn(21)-10, r.Intn(61)-30, r.Intn(801)-400)
			ev("[year("+sh+"), month("+sh+"), day("+sh+"), hour("+sh+"), millSecond("+sh+")]", off, "-")
			ev("timeFormat("+sh+", 'Jan 2 2006 __2') + '|' + timeFormat("+dt+", '01-02')", off, "-")
		case 2:
			// a time of day from the data map
			ns := new(big.Int).Mul(big.NewInt(r.Int63n(4e9)-1e9), big.NewInt(1000000000))
			ns.Add(ns, big.NewInt(r.Int63n(1e9)))
			data := wmap("t", fmt.Sprintf("M%s:%d", ns.String(), off))
			ev("[year(t), month(t), day(t), hour(t), minute(t), second(t), weekDay(t), millSecond(t)]", off, data)
			sh := fmt.Sprintf("addDate(t, %d, %d, %d)", r.Intn(5)-2, r.Intn(30)-15, r.Intn(100)-50)
			ev("[hour("+sh+"), minute("+sh+"), second("+sh+"), day("+sh+"), millSecond("+sh+")]", off, data)
		default:
			z := []string{"UTC", "Etc/GMT-8", "Etc/GMT+5", "Etc/GMT-14", "No/Where", ""}[r.Intn(6)]
			if z == "" {
				z = "UTC"
			}
			u := "useTimezone(" + dt + ", '" + z + "')"
			ev("[millSecond("+u+") == millSecond("+dt+"), hour("+u+"), day("+u+"), year("+u+")]", off, "-")
		}
	}
	// the civil fields of a time are those of ITS zone, whatever the local zone is (quarter-hour offsets, a date line
	// away from the local zone)
	for _, off := range []int{0, 19800, -34200} {
		for _, toff := range []int{20700, -36000, 45900, 0, -1800, 50400} {
			for _, ns := range []string{"1719837296789000000", "1719791400000000000", "-1000000000", "253402300799000000000"} {
				data := wmap("k", fmt.Sprintf("M%s:%d", ns, toff))
				ev("[year(k), month(k), day(k), hour(k), minute(k), second(k), weekDay(k), millSecond(k)]", off, data)
				ev("[minute(useTimezone(k, 'Etc/GMT-8')), weekDay(useTimezone(k, 'Etc/GMT-14')), day(addDate(k, 0, 0, 1)), hour(addDate(k, 0, 1, 0))]", off, data)
			}
		}
	}
	// times handed in by the host whose location merely carries the name of a zone (time.FixedZone, time.Parse of an
	// abbreviation): useTimezone goes by the zone database, not by the name the value arrives with
	for _, nz := range []struct {
		name string
		off  int
	}{{"Etc/GMT-8", 0}, {"Etc/GMT-8", 28800}, {"Etc/GMT+5", 3600}, {"UTC", 7200}, {"Etc/GMT-14", -3600}, {"No/Where", 3600}, {"", 19800}, {"Local", 60}} {
		for _, ns := range []string{"1700000000000000000", "43200000000000", "-86399000000000"} {
			data := wmap("t", fmt.Sprintf("M%s:%d:%s", ns, nz.off, hx([]byte(nz.name))))
			for _, z := range []string{"UTC", "Etc/GMT-8", "Etc/GMT+5", "Etc/GMT-14", "No/Where"} {
				u := "useTimezone(t, '" + z + "')"
				ev("[hour("+u+"), day("+u+"), millSecond("+u+") == millSecond(t), hour(t)]", 0, data)
			}
		}
	}
	// timeFormat: layouts assembled from every layout element, near misses of each and literal text, against times in
	// several fixed zones (with a fraction of a second, before 1970, in year 1 and 9999, offsets that are not whole
	// minutes); judged by the model of Time.Format
	{
		pieces := []string{"Jan", "January", "Janx", "Ja", "JAN", "Mon", "Monday", "Month", "Mond", "Mo", "MS", "0", "01", "02", "03", "04", "05", "06", "07", "00", "002", "0026", "1", "15", "12", "150", "2", "2006", "200", "20", "20060",
			"_2", "_2006", "__2", "_", "__", "___2", "_1", "3", "4", "5", "6", "33", "PM", "pm", "P", "Pm", "AM", "-07", "-0700", "-07:00", "-070000", "-07:00:00", "-0", "-070", "-07:0", "-07000", "Z07", "Z0700", "Z07:00", "Z070000", "Z07:00:00",
			"Z", "Z0", "Z07:", ".0", ".000", ".000000000", ".0000000000", ".9", ".999", ",999999999", ",000", ".05", ".00x", ".999x", ",9 ", ".09", ".90", ".", ",", "..000", "T", ":", " ", "/", "\u00e9", "x", "a", "A", "é", "y", "-", "+", "(", "[", "%"}
		times := []string{"M1707102429012345600:19800", "M1707102429000000000:0", "M1719837296789000000:-18000", "M-1000000001:3600", "M-62135596800000000000:0", "M253402300799999999999:50400", "M1700000000120000000:-34200",
			"M43200000000000:0", "M1704067199999000000:20700", "M1709164800000000000:-90", "M1709164800000000001:30", "M946684800000000000:45900", "M1735689599500000000:-43200"}
		fixedLayouts := []string{"2006-01-02T15:04:05Z07:00", "2006-01-02T15:04:05.999999999Z07:00", "Mon Jan _2 15:04:05 2006", "Mon Jan 02 15:04:05 -0700 2006", "02 Jan 06 15:04 -0700", "Monday, 02-Jan-06 15:04:05", "Mon, 02 Jan 2006 15:04:05 -0700",
			"3:04PM", "Jan _2 15:04:05.000", "Jan _2 15:04:05.000000", "2006-01-02 15:04:05", "2006-01-02", "15:04:05", "01/02/06", "1/2/2006 3:4:5 pm", "002 __2", "20060102150405", "Jan 2, 2006 at 3:04pm (-07)", "", "no elements at all",
			"2006-01-02 15:04:05.999999999 -0700", "05.000000000000", "05,9", "January Monday Janet Monster"}
		n := 1500
		if thorough {
			n = 60000
		}
		for _, tm := range times {
			for _, l := range fixedLayouts {
				ev("timeFormat(t, l)", 0, wmap("t", tm, "l", ws(l)))
			}
			for _, pc := range pieces {
				ev("timeFormat(t, l)", 0, wmap("t", tm, "l", ws(pc)))
				ev("timeFormat(t, l)", 0, wmap("t", tm, "l", ws("x"+pc+"2")))
			}
		}
		for i := 0; i < n; i++ {
			var sb strings.Builder
			for k := 1 + r.Intn(6); k > 0; k-- {
				sb.WriteString(pieces[r.Intn(len(pieces))])
			}
			ev("timeFormat(t, l)", 0, wmap("t", times[r.Intn(len(times))], "l", ws(sb.String())))
		}
		ev("timeFormat(t, 'MST')", 0, wmap("t", times[0]))
		o.Stat("timeFormat-layouts")
	}
	// zones with daylight saving, now/toDay: judged on the implementation alone
	line := func(t string) string { return fmt.Sprintf("EV\t%s\t0\t-\t-", hx([]byte(t))) }
	// every name of the zone database of this machine, and the same names in other letter case: a name the
	// database knows changes the zone and keeps the instant (civil fields as the database has them), a name it does
	// not know is an error
	{
		var names []string
		root := "/usr/share/zoneinfo"
		filepath.Walk(root, func(p string, info os.FileInfo, err error) error {
			if err != nil || info.IsDir() {
				return nil
			}
			rel := strings.TrimPrefix(p, root+"/")
			if strings.HasPrefix(rel, "posix/") || strings.HasPrefix(rel, "right/") || strings.Contains(rel, ".") || rel == "leapseconds" || rel == "posixrules" || rel == "localtime" {
				return nil
			}
			names = append(names, rel)
			return nil
		})
		sort.Strings(names)
		if len(names) == 0 {
			o.Notes = append(o.Notes, "no zone database under /usr/share/zoneinfo: zone-name sweep skipped")
		}
		instants := []time.Time{time.Unix(1705321800, 0).UTC(), time.Unix(1720000000, 500000000).UTC()}
		variants := func(n string) []string {
			out := []string{n}
			if !thorough && len(n)%5 != 0 {
				return out
			}
			return append(out, strings.ToLower(n), strings.ToUpper(n), strings.Title(strings.ToLower(n)), n+" ", " "+n, n+"/")
		}
		known, unknown := 0, 0
		for _, nm := range names {
			for _, v := range variants(nm) {
				loc, lerr := time.LoadLocation(v)
				for _, ins := range instants {
					data := wmap("t", fmt.Sprintf("M%d:0", ins.UnixNano()), "z", ws(v))
					text := "[millSecond(useTimezone(t, z)) == millSecond(t), year(useTimezone(t, z)), month(useTimezone(t, z)), day(useTimezone(t, z)), hour(useTimezone(t, z)), minute(useTimezone(t, z)), weekDay(useTimezone(t, z))]"
					obs, _ := implEval(text, 0, "-", data)
					ln := fmt.Sprintf("EV\t%s\t0\t-\t%s", hx([]byte(text)), data)
					o.Case("NOP\tzone\t"+hx([]byte(v))+fmt.Sprint(ins.Unix()), "-", true)
					got := resultOf(obs)
					if lerr != nil {
						unknown++
						if !strings.HasPrefix(got, "E") {
							o.Fail(ln, fmt.Sprintf("useTimezone accepted the zone name %q, which the zone database does not know: %s", v, got))
						}
						continue
					}
					known++
					w := ins.In(loc)
					num := func(n int) interface{} { return decimal.New(int64(n), 0) }
					want := "V " + enc([]interface{}{true, num(w.Year()), num(int(w.Month())), num(w.Day()), num(w.Hour()), num(w.Minute()), num(int(w.Weekday()))})
					if got != want {
						o.Fail(ln, fmt.Sprintf("useTimezone(t, %q): %s, required %s", v, got, want))
					}
				}
			}
		}
		o.Stat(fmt.Sprintf("zone names: %d of the database, %d evaluations with a known name, %d with an unknown one", len(names), known, unknown))
	}
	for _, z := range []string{"America/New_York", "Europe/Berlin", "Australia/Lord_Howe", "Asia/Kolkata"} {
		if _, err := time.LoadLocation(z); err != nil {
			o.Notes = append(o.Notes, "zone "+z+" not available in this sandbox")
			continue
		}
		for i := 0; i < 40; i++ {
			y, m, d := 1950+r.Intn(100), 1+r.Intn(12), 1+r.Intn(28)
			dt := fmt.Sprintf("date(%d, %d, %d)", y, m, d)
			t := "millSecond(useTimezone(" + dt + ", '" + z + "')) == millSecond(" + dt + ")"
			obs, _ := implEval(t, 0, "-", "-")
			o.Case("NOP\tdst\t"+hx([]byte(t)), "-", true)
			if got := resultOf(obs); got != "V T" {
				o.Fail(line(t), "useTimezone changed the instant: "+got)
			}
		}
	}
	for _, c := range []struct{ f, want string }{{"timeFormat(date(2024, 2, 29), '2006-01-02 15:04:05')", "2024-02-29 00:00:00"}, {"timeFormat(addDate(date(2023, 12, 31), 0, 0, 1), '2006/01/02')", "2024/01/01"}} {
		obs, _ := implEval(c.f, 0, "-", "-")
		o.Case("NOP\tfmt\t"+hx([]byte(c.f)), "-", true)
		if got := resultOf(obs); got != "V S"+hx([]byte(c.want)) {
			o.Fail(line(c.f), "timeFormat does not render the layout: "+got)
		}
	}
	for _, clockOff := range []int{0, 19800, -34200, 50400} {
	setLocal(clockOff)
	for _, f := range []string{"millSecond(now())", "millSecond(toDay())", "hour(toDay()) * 3600 + minute(toDay()) * 60 + second(toDay())"} {
		src, _ := formula.ParseSourceCode([]byte(f))
		before := time.Now()
		v, err := formula.NewRunner().Resolve(context.Background(), src.Expression)
		after := time.Now()
		ms, ok := v.(float64)
		if err != nil || !ok {
			o.Fail(line(f), "clock builtin failed")
			continue
		}
		if strings.HasPrefix(f, "hour(") {
			if ms != 0 {
				o.Fail(line(f), fmt.Sprintf("toDay is not local midnight: %v seconds past midnight in a zone with offset %d", ms, clockOff))
			}
			o.Case(fmt.Sprintf("NOP\tclock\t%d:%s", clockOff, f), "-", true)
			continue
		}
		lo, hi := float64(before.UnixMilli()), float64(after.UnixMilli())
		if f == "millSecond(toDay())" {
			// the model's toDay is a function of one clock reading: when the readings before and after the call fall
			// on the same local day every reading in between gives the same result, which the model computes
			src2, _ := formula.ParseSourceCode([]byte("toDay()"))
			b2 := time.Now()
			tv, _ := formula.NewRunner().Resolve(context.Background(), src2.Expression)
			a2 := time.Now()
			if tt, ok := tv.(time.Time); ok && b2.YearDay() == a2.YearDay() {
				_, zoff := tt.Zone()
				o.Case(fmt.Sprintf("TD\t%d\t%d", b2.UnixNano(), clockOff), fmt.Sprintf("%d:%d", tt.UnixNano(), zoff), true)
			}
		}
		if strings.Contains(f, "toDay") {
			mid := time.Date(before.Year(), before.Month(), before.Day(), 0, 0, 0, 0, time.Local)
			if ms != float64(mid.UnixMilli()) && ms != float64(mid.AddDate(0, 0, 1).UnixMilli()) {
				o.Fail(line(f), "toDay is not local midnight of the call's day")
			}
		} else if ms < lo-1 || ms > hi+1 {
			o.Fail(line(f), "now lies outside the wall-clock bracket of the call")
		}
		o.Case(fmt.Sprintf("NOP\tclock\t%d:%s", clockOff, f), "-", true)
	}
	}
	// toDay while the local clock rolls over a month end: the local zone is moved (not the clock) so that the next
	// whole second is 00:00:00 on the first of a month; every toDay() evaluated across that instant must be
	// midnight of the last day or of the first day - no other date was "today" during any call
	rolls := 2
	if thorough {
		rolls = 25
	}
	rollSrc, _ := formula.ParseSourceCode([]byte("toDay()"))
	savedLocal := time.Local
	for round := 0; round < rolls; round++ {
		start := time.Now()
		boundary := start.Truncate(time.Second).Add(time.Second)
		if boundary.Sub(start) < 30*time.Millisecond {
			boundary = boundary.Add(time.Second)
		}
		u := boundary.UTC()
		first := time.Date(u.Year(), u.Month(), 1, 0, 0, 0, 0, time.UTC)
		if u.Day() > 15 {
			first = time.Date(u.Year(), u.Month()+1, 1, 0, 0, 0, 0, time.UTC)
		}
		if round%2 == 1 { // a year end
			first = time.Date(u.Year()+1, 1, 1, 0, 0, 0, 0, time.UTC)
		}
		zone := time.FixedZone("roll", int(first.Sub(u)/time.Second))
		time.Local = zone
		firstDay := time.Date(first.Year(), first.Month(), 1, 0, 0, 0, 0, zone)
		lastDay := time.Date(first.Year(), first.Month(), 0, 0, 0, 0, 0, zone)
		time.Sleep(time.Until(boundary) - 5*time.Millisecond)
		var mu sync.Mutex
		bad := ""
		calls := 0
		var wg sync.WaitGroup
		for w := 0; w < 16; w++ {
			wg.Add(1)
			go func() {
				defer wg.Done()
				rn := formula.NewRunner()
				n := 0
				for time.Since(boundary) < 50*time.Millisecond {
					v, err := rn.Resolve(context.Background(), rollSrc.Expression)
					n++
					got, ok := v.(time.Time)
					if err != nil || !ok {
						mu.Lock()
						bad = fmt.Sprintf("toDay() failed: %v %v", v, err)
						mu.Unlock()
						break
					}
					if got.Equal(firstDay) {
						break
					}
					if !got.Equal(lastDay) {
						mu.Lock()
						bad = fmt.Sprintf("toDay() = %s while the local clock went from %s 23:59:59 to %s 00:00:00", got.Format("2006-01-02 15:04:05"), lastDay.Format("2006-01-02"), firstDay.Format("2006-01-02"))
						mu.Unlock()
						break
					}
				}
				mu.Lock()
				calls += n
				mu.Unlock()
			}()
		}
		wg.Wait()
		nt := fmt.Sprintf("NOP\tmidnight-roll\t%s", firstDay.Format("2006-01-02"))
		o.Case(nt, "-", true)
		o.Stats["midnight-roll-calls"] += calls
		if bad != "" {
			o.Fail(nt, bad)
		}
	}
	// toDay on a day whose zone offset changed since local midnight (a daylight-saving switch earlier today): a zone is
	// built around the current instant (TZif data: standard time until two hours ago, one hour more since; and the
	// reverse), installed as the local zone, and toDay() must be 00:00:00 of today's civil date in that zone
	for _, jump := range []int{3600, -3600, 1800} {
		nowU := time.Now().UTC()
		// base offset such that the local clock reads about 13:00 now
		base := (13-nowU.Hour())*3600 - nowU.Minute()*60
		loc, err := switchZone(nowU.Add(-2*time.Hour).Unix(), base-jump, base)
		nt := fmt.Sprintf("NOP\tdst-today\t%d", jump)
		o.Case(nt, "-", true)
		if err != nil {
			o.Notes = append(o.Notes, "could not build the switch-day zone: "+err.Error())
			continue
		}
		time.Local = loc
		v, e := formula.NewRunner().Resolve(context.Background(), rollSrc.Expression)
		n2 := time.Now().In(loc)
		want := time.Date(n2.Year(), n2.Month(), n2.Day(), 0, 0, 0, 0, loc)
		got, ok := v.(time.Time)
		if e != nil || !ok {
			o.Fail(nt, fmt.Sprintf("toDay() failed: %v %v", v, e))
		} else if !got.Equal(want) {
			o.Fail(nt, fmt.Sprintf("toDay() = %s on a day whose offset changed two hours ago; local midnight is %s", got.Format("2006-01-02 15:04:05 -0700"), want.Format("2006-01-02 15:04:05 -0700")))
		}
	}
	time.Local = savedLocal
	setLocal(0)
}

// switchZone builds a time zone (TZif version 1 data) with offset `before` until the instant `at` and `after` from then on
func switchZone(at int64, before, after int) (*time.Location, error) {
	var b []byte
	be32 := func(v int32) { b = append(b, byte(v>>24), byte(v>>16), byte(v>>8), byte(v)) }
	b = append(b, 'T', 'Z', 'i', 'f', 0)
	b = append(b, make([]byte, 15)...)
	be32(0) // isutcnt
	be32(0) // isstdcnt
	be32(0) // leapcnt
	be32(1) // timecnt
	be32(2) // typecnt
	be32(8) // charcnt
	be32(int32(at))
	b = append(b, 1)  // the transition switches to type 1
	be32(int32(before))
	b = append(b, 0, 0)
	be32(int32(after))
	b = append(b, 1, 4)
	b = append(b, 'S', 'T', 'D', 0, 'D', 'S', 'T', 0)
	return time.LoadLocationFromTZData("Switch/Day", b)
}

// ---------- C08: purity over histories ----------

func dumpTree(n formula.Expression) string {
	var sb strings.Builder
	printTree(&sb, n)
	var ids func(n formula.Node)
	_ = ids
	return sb.String()
}

func nodeMeta(n formula.Expression) string {
	// ids and parents of every node (never assigned by the library: must stay zero / nil)
	var sb strings.Builder
	var walk func(n formula.Expression)
	walk = func(n formula.Expression) {
		if n == nil || formula.IsNull(n) {
			return
		}
		fmt.Fprintf(&sb, "%d/%v;", n.ID(), n.Parent() == nil)
		switch e := n.(type) {
		case *formula.PrefixUnaryExpression:
			walk(e.Operand)
		case *formula.TypeOfExpression:
			walk(e.Expression)
		case *formula.BinaryExpression:
			walk(e.Left)
			walk(e.Right)
		case *formula.ConditionalExpression:
			walk(e.Condition)
			walk(e.WhenTrue)
			walk(e.WhenFalse)
		case *formula.ArrayLiteralExpression:
			for i := 0; i < e.Elements.Len(); i++ {
				walk(e.Elements.At(i))
			}
		case *formula.ParenthesizedExpression:
			walk(e.Expression)
		case *formula.SelectorExpression:
			walk(e.Expression)
			walk(e.Name)
		case *formula.CallExpression:
			walk(e.Expression)
			for i := 0; e.Arguments != nil && i < e.Arguments.Len(); i++ {
				walk(e.Arguments.At(i))
			}
		}
	}
	walk(n)
	return sb.String()
}

var purityPool = []string{"(1 + 2) * 3", "a.b + c", "$x = a.b, $x * 2", "len(s) > 2 ? upper(s) : lower(s)", "[1, 2, 3]", "max(1, c, 3)", "x ?? 'd'",
	"join(['a','b'], '-')", "left(s, 2) + right(s, 1)", "date(2024, 1, 31)", "year(addDate(date(2024,1,31), 0, 1, 0))", "typeof a", "a.b == 1 && !c",
	"1 / 3", "0.1 + 0.2", "'q' < s", "round(2.5) + roundBank(2.5)", "this.c", "f(1, 's')", "s.k", "toString(1.50)", "1 +", "a b", "'open", "[1,", "~5 & 3",
	"regexp(s, '^h')", "replace(s, 'l', 'L')", "mid(s, 1, 3)", "abs(-c)", "ceil(1.2) + floor(-1.2)", "toInt('12') + toFloat('1.5')", "includes(['a'], 'a')",
	"lpad('7', '0', 3)", "c ? 1 : 2", "2.5 * 2", "7.5 * 0.5", "roundBank(7.5) + roundBank(0.5)", "round(2.5)", "-c", "abs(c) + c", "$n = -c, c", "(a).b", "f(a...)", "null == x", "$y = 1, $y = $y + 1, $y", "weekDay(date(2000, 1, 1))",
	"sqrt(c + 2) * exp(1)", "ln(c + 1) + log(100)", "min(c, 1, -1)", "roundCash(c + 0.5, 2)", "[hour(date(2024, 1, 2)), minute(date(2024, 1, 2)), millSecond(date(2024, 1, 2))]", "timeFormat(date(2024, 1, 2), '2006-01-02')",
	// a host function that changes the number it was handed IN PLACE, and numbers that come back to the caller (who may
	// change them too): every evaluation builds its own numbers, so the next evaluation of the same tree is unaffected
	"bump(5)", "bump(2.5) + bump(2.5)", "[bump(1), 1, 5]", "bump(1 + 1)", "$q = 7, bump(3), $q", "[5, 6.5, 0.1 + 0.2]", "[[1], [2, [3]]]", "bump(0x10) + 0x10", "bump(1_0)", "c ? 5 : 6", "[1e3, 1000, 'x']",
	"join(mapToArr([a], 'b'), ',')", "trim('  x ') + rpad(s, '.', 7)", "toInt(7.9) % 4", "0x1F + !!c", "toFloat('2.5') + toInt('9')", "finite(1/0) + abs(-2)", "upper('ß') + lower('İ')"}

var addrRe = regexp.MustCompile(`0x[0-9a-f]+`)

func purityData(i int) map[string]interface{} {
	f := func(a *decimal.Big, b string) (string, error) { return a.String() + b, nil }
	bump := func(x *decimal.Big) (*decimal.Big, error) { return x.Add(x, decimal.New(1, 0)), nil }
	if i == 3 {
		return map[string]interface{}{"m": map[string]interface{}{"Key": 1, "key": "lower"}, "s": "hello"}
	}
	base := []map[string]interface{}{
		{"a": map[string]interface{}{"b": 1}, "c": 2, "s": "hello", "f": f, "bump": bump},
		{"a": map[string]interface{}{"b": 1.5}, "c": 0, "s": "", "f": f, "bump": bump},
		{"a": nil, "c": int64(7), "s": "hi there", "x": "set", "f": f, "bump": bump},
	}
	m := map[string]interface{}{}
	for k, v := range base[i%len(base)] {
		m[k] = v
	}
	return m
}

func evalOnce(text string, di int) string {
	src, err := formula.ParseSourceCode([]byte(text))
	if err != nil {
		return "PE:" + err.Error()
	}
	r := formula.NewRunner()
	r.SetThis(purityData(di))
	var v interface{}
	var e error
	pan, msg := protect(func() { v, e = r.Resolve(context.Background(), src.Expression) })
	if pan {
		return "PANIC:" + msg
	}
	if e != nil {
		return "E:" + e.Error()
	}
	return "V:" + enc(v)
}

func suitePurity(o *Out, thorough bool, seed int64) {
	r := newRand(seed, "purity")
	// reference results: every (formula, data) pair evaluated once in pool order, once in reverse order and
	// once more in pool order; an operation that leaves hidden state behind changes a later one in at
	// least one of the orders
	ref := map[string]string{}
	for pass := 0; pass < 3; pass++ {
		for k := 0; k < len(purityPool); k++ {
			i := k
			if pass == 1 {
				i = len(purityPool) - 1 - k
			}
			for di := 0; di < 3; di++ {
				key := fmt.Sprintf("%d:%s", di, hx([]byte(purityPool[i])))
				res := evalOnce(purityPool[i], di)
				if strings.Contains(purityPool[i], "now(") || strings.Contains(purityPool[i], "toDay(") {
					continue
				}
				if old, ok := ref[key]; ok && old != res {
					o.Fail("NOP\tpurity\t"+key, fmt.Sprintf("%q evaluated to %s before and to %s after other formulas were evaluated", purityPool[i], old, res))
				}
				ref[key] = res
			}
		}
	}
	// references from fresh processes: each formula of the pool, and "confusable" variants of its string arguments
	// (other case, padded, truncated: what a cache with a normalised key would merge), is evaluated once in a
	// process of its own; this process then evaluates canonical forms first, variants next, everything again in
	// reverse, and must reproduce every fresh result
	{
		keyed := []string{"useTimezone(date(2024, 1, 2), 'UTC')", "useTimezone(date(2024, 1, 2), 'Asia/Tokyo')", "hour(useTimezone(date(2024, 6, 2), 'Europe/London'))",
			"useTimezone(date(2024, 1, 2), 'America/New_York')", "regexp('Hello', '^h')", "regexp('hello', 'L+')", "timeFormat(date(2024, 1, 2), '2006-01-02')",
			"timeFormat(date(2024, 1, 2), 'Jan _2 PM')", "toFloat('1E5')", "toFloat('Infinity')", "toInt('0x1F')", "replace('aAbB', 'a', 'x')", "find('aAbB', 'B')",
			"contains('aAbB', 'ab')", "startWith('Hello', 'he')", "includes(['a', 'B'], 'b')", "join(['a', 'B'], 'X')", "lower('MiXed') + upper('MiXed')", "m.Key", "m.key"}
		variants := func(text string) []string {
			out := []string{}
			parts := strings.Split(text, "'")
			for i := 1; i < len(parts); i += 2 {
				lit := parts[i]
				for _, v := range []string{strings.ToLower(lit), strings.ToUpper(lit), lit + " ", " " + lit, strings.Title(strings.ToLower(lit)), lit[:len(lit)/2+1]} {
					if v != lit {
						p2 := append([]string{}, parts...)
						p2[i] = v
						out = append(out, strings.Join(p2, "'"))
					}
				}
			}
			return out
		}
		type job struct {
			text string
			di   int
			canon bool
		}
		var jobs []job
		seen := map[string]bool{}
		add := func(t string, di int, canon bool) {
			k := fmt.Sprint(di) + ":" + t
			if !seen[k] && !strings.Contains(t, "now(") && !strings.Contains(t, "toDay(") {
				seen[k] = true
				jobs = append(jobs, job{t, di, canon})
			}
		}
		for _, t := range purityPool {
			for di := 0; di < 3; di++ {
				add(t, di, true)
			}
		}
		for _, t := range keyed {
			add(t, 3, true)
		}
		nc := len(jobs)
		for _, j := range jobs[:nc] {
			if j.di == 0 || j.di == 3 {
				for _, v := range variants(j.text) {
					add(v, j.di, false)
				}
			}
		}
		fresh := make([]string, len(jobs))
		var wg sync.WaitGroup
		sem := make(chan struct{}, 16)
		for i := range jobs {
			wg.Add(1)
			sem <- struct{}{}
			go func(i int) {
				defer wg.Done()
				defer func() { <-sem }()
				out, err := exec.Command(os.Args[0], "fresh", fmt.Sprint(jobs[i].di), hx([]byte(jobs[i].text))).Output()
				if err != nil {
					fresh[i] = "CHILD-FAILED:" + err.Error()
				} else {
					fresh[i] = strings.TrimRight(string(out), "\n")
				}
			}(i)
		}
		wg.Wait()
		canonRes := func(s string) string { return addrRe.ReplaceAllString(s, "0x") }
		order := []int{}
		for i := range jobs {
			order = append(order, i)
		}
		for i := len(jobs) - 1; i >= 0; i-- {
			order = append(order, i)
		}
		for k := 0; k < len(jobs); k++ {
			order = append(order, r.Intn(len(jobs)))
		}
		for _, i := range order {
			j := jobs[i]
			line := fmt.Sprintf("NOP\tfresh\t%d:%s", j.di, hx([]byte(j.text)))
			o.Case(line, "-", true)
			if strings.HasPrefix(fresh[i], "CHILD-FAILED") {
				o.Fail(line, "the fresh-process evaluation failed: "+fresh[i])
				continue
			}
			if got := evalOnce(j.text, j.di); canonRes(got) != canonRes(fresh[i]) {
				o.Fail(line, fmt.Sprintf("%q evaluates to %s in a fresh process and to %s after other formulas were evaluated in this one", j.text, fresh[i], got))
			}
		}
		o.Stat(fmt.Sprintf("fresh-process references: %d (%d canonical, %d variants)", len(jobs), nc, len(jobs)-nc))
	}
	n := 1500
	if thorough {
		n = 60000
	}
	for i := 0; i < n; i++ {
		text := purityPool[r.Intn(len(purityPool))]
		di := r.Intn(3)
		line := fmt.Sprintf("NOP\tpurity\t%d:%s", di, hx([]byte(text)))
		noise := func() {
			for k := r.Intn(5); k > 0; k-- {
				t2 := purityPool[r.Intn(len(purityPool))]
				switch r.Intn(3) {
				case 0:
					formula.ParseSourceCode([]byte(t2))
				case 1:
					evalOnce(t2, r.Intn(3))
				default:
					if s, err := formula.ParseSourceCode([]byte(t2)); err == nil {
						protect(func() { formula.ResolveReferenceFields(s) })
					}
				}
			}
		}
		// the texts live next to each other in one buffer, as a caller with an arena of formulas has them: parsing
		// one may not touch its neighbours
		other := purityPool[r.Intn(len(purityPool))]
		arenaBuf := []byte(text + other + text)
		t1, t2, t3 := arenaBuf[:len(text)], arenaBuf[len(text):len(text)+len(other)], arenaBuf[len(text)+len(other):]
		s1, e1 := formula.ParseSourceCode(t1)
		formula.ParseSourceCode(t2)
		noise()
		s2, e2 := formula.ParseSourceCode(t3)
		if string(arenaBuf) != text+other+text {
			o.Fail(line, fmt.Sprintf("parsing changed the caller's buffer around the text: %q became %q", text+other+text, string(arenaBuf)))
		}
		if (e1 == nil) != (e2 == nil) || (e1 != nil && e1.Error() != e2.Error()) {
			o.Fail(line, "parsing the same text twice gave different errors")
		}
		if e1 == nil {
			d1, d2 := dumpTree(s1.Expression), dumpTree(s2.Expression)
			if d1 != d2 {
				o.Fail(line, "parsing the same text twice gave different trees")
			}
			// the caller reuses its buffer for the next formula (a line reader does): the first tree - its names,
			// its literal values - must not change with the bytes it was parsed from
			for k := range t1 {
				t1[k] = other[k%len(other)]
			}
			formula.ParseSourceCode(t1)
			if d := dumpTree(s1.Expression); d != d1 {
				o.Fail(line, fmt.Sprintf("the tree of %q changed when the caller reused the buffer it was parsed from: %s became %s", text, d1, d))
			}
			meta := nodeMeta(s1.Expression)
			var results []string
			for k := 0; k < 3; k++ {
				r1 := formula.NewRunner()
				r1.SetThis(purityData(di))
				var v interface{}
				var e error
				pan, _ := protect(func() { v, e = r1.Resolve(context.Background(), s1.Expression) })
				res := "V:" + enc(v)
				if pan {
					res = "PANIC"
				} else if e != nil {
					res = "E:" + e.Error()
				}
				results = append(results, res)
				scribbleNumbers(v) // the caller changes the numbers it got back, in place
				noise()
				protect(func() { formula.ResolveReferenceFields(s1) })
			}
			if results[0] != results[1] || results[1] != results[2] {
				o.Fail(line, fmt.Sprintf("repeated evaluation in fresh runners gave different results: %v", results))
			}
			if evalOnce(text, di) != results[0] {
				o.Fail(line, "evaluating a freshly parsed copy gave a different result")
			}
			if d := dumpTree(s1.Expression); d != d1 || nodeMeta(s1.Expression) != meta {
				o.Fail(line, "evaluation or field analysis changed the tree")
			}
		}
		o.Case(line, "-", true)
	}
}

// ---------- C09: shared trees across goroutines (build the harness with -race) ----------

func suiteRace(o *Out, thorough bool, seed int64) {
	r := newRand(seed, "race")
	rounds := 6
	if thorough {
		rounds = 60
	}
	var trees []*formula.SourceCode
	var texts []string
	racePool := append([]string{}, purityPool...)
	// deep trees whose evaluation fails: the error (text included) is part of the result
	racePool = append(racePool, strings.Repeat("(", 600)+"nosuchname"+strings.Repeat(")", 600)+"!.b", strings.Repeat("(", 300)+"nosuchname"+strings.Repeat(")", 300)+"!.b.c",
		"nofn("+strings.Repeat("[", 200)+"1"+strings.Repeat("]", 200)+")", "1"+strings.Repeat(" + 1", 400)+" + nosuchname!.k", "left('abc', -1) + "+strings.Repeat("-", 300)+"1")
	for _, t := range racePool {
		if s, err := formula.ParseSourceCode([]byte(t)); err == nil {
			trees = append(trees, s)
			texts = append(texts, t)
		}
	}
	parseRef := map[string]string{}
	for _, t := range purityPool {
		if _, err := formula.ParseSourceCode([]byte(t + " )")); err != nil {
			parseRef[t] = err.Error()
		}
	}
	// sequential reference results
	ref := map[string]string{}
	for i, s := range trees {
		for di := 0; di < 3; di++ {
			r1 := formula.NewRunner()
			r1.SetThis(purityData(di))
			var v interface{}
			var e error
			protect(func() { v, e = r1.Resolve(context.Background(), s.Expression) })
			res := "V:" + enc(v)
			if e != nil {
				res = "E:" + addrRe.ReplaceAllString(e.Error(), "0x")
			}
			ref[fmt.Sprintf("%d/%d", i, di)] = res
		}
	}
	for round := 0; round < rounds; round++ {
		G := []int{2, 4, 16}[round%3]
		var wg sync.WaitGroup
		var mu sync.Mutex
		var bad []string
		seedBase := r.Int63()
		for g := 0; g < G; g++ {
			wg.Add(1)
			go func(g int) {
				defer wg.Done()
				rr := newRand(seedBase+int64(g), "g")
				for it := 0; it < 150; it++ {
					i := rr.Intn(len(trees))
					di := rr.Intn(3)
					switch rr.Intn(4) {
					case 0, 1:
						r1 := formula.NewRunner()
						r1.SetThis(purityData(di))
						var v interface{}
						var e error
						protect(func() { v, e = r1.Resolve(context.Background(), trees[i].Expression) })
						res := "V:" + enc2(v)
						if e != nil {
							res = "E:" + addrRe.ReplaceAllString(e.Error(), "0x")
						}
						if want := ref[fmt.Sprintf("%d/%d", i, di)]; res != want {
							tx := texts[i]
							if len(tx) > 80 {
								tx = tx[:80] + "..."
							}
							mu.Lock()
							bad = append(bad, fmt.Sprintf("goroutine result differs from the sequential one for %q: %.200s, sequentially %.200s", tx, res, want))
							mu.Unlock()
						}
					case 2:
						protect(func() { formula.ResolveReferenceFields(trees[i]) })
					default:
						pt := purityPool[rr.Intn(len(purityPool))]
						_, err := formula.ParseSourceCode([]byte(pt + " )"))
						if want, ok := parseRef[pt]; ok && (err == nil || err.Error() != want) {
							mu.Lock()
							bad = append(bad, fmt.Sprintf("the syntax error of %q differs from the sequential one: %v, sequentially %s", pt+" )", err, want))
							mu.Unlock()
						}
					}
				}
			}(g)
		}
		wg.Wait()
		line := fmt.Sprintf("NOP\trace\tround%d:G%d", round, G)
		o.Case(line, "-", true)
		sort.Strings(bad)
		for _, b := range bad {
			o.Fail(line, b)
		}
	}
	// cold phase: arguments that no earlier evaluation has seen (caches keyed by argument values would be
	// filled concurrently here), results judged independently
	coldTrees := map[string]*formula.SourceCode{}
	for _, t := range []string{"regexp(s, pat)", "replace(s, pat, 'X')", "useTimezone(date(2024, 1, 2), z) == date(2024, 1, 2)", "toString(n) + toString(n * 2)", "lpad(s, '0', w)", "round(n) + roundBank(n)", "join([s, pat], ',')"} {
		if sc, err := formula.ParseSourceCode([]byte(t)); err == nil {
			coldTrees[t] = sc
		}
	}
	for round := 0; round < rounds; round++ {
		var wg sync.WaitGroup
		var mu sync.Mutex
		var bad []string
		for g := 0; g < 8; g++ {
			wg.Add(1)
			go func(g int) {
				defer wg.Done()
				for it := 0; it < 60; it++ {
					pat := fmt.Sprintf("^h%d_%d_%d", round, g, it)
					data := map[string]interface{}{"s": "h" + fmt.Sprint(round) + "_" + fmt.Sprint(g) + "_" + fmt.Sprint(it) + "x", "pat": pat, "z": "Etc/GMT-" + fmt.Sprint(1+(g+it)%12), "n": float64(g*1000+it) + 0.5, "w": 30 + it}
					for t, sc := range coldTrees {
						r1 := formula.NewRunner()
						r1.SetThis(data)
						var v interface{}
						var e error
						protect(func() { v, e = r1.Resolve(context.Background(), sc.Expression) })
						if t == "regexp(s, pat)" && (e != nil || v != true) {
							mu.Lock()
							bad = append(bad, fmt.Sprintf("regexp(%q, %q) gave %v, %v under concurrency", data["s"], pat, v, e))
							mu.Unlock()
						}
					}
				}
			}(g)
		}
		wg.Wait()
		line := fmt.Sprintf("NOP\trace\tcold%d", round)
		o.Case(line, "-", true)
		for _, b := range bad {
			o.Fail(line, b)
		}
	}
	o.Notes = append(o.Notes, fmt.Sprintf("%d rounds of 2/4/16 goroutines x 150 operations on %d shared trees (evaluate with own runner and data, collect fields, parse and format errors of other texts); a data race is reported by the race detector (exit status 66)", rounds, len(trees)))
}

// enc2 is enc without the shared depth counter (goroutine safe)
func enc2(v interface{}) string {
	var sb strings.Builder
	encValDepth(&sb, v, 0)
	return sb.String()
}

// bigExp: e^x at 300 bits: the argument is halved until it is below 2^-10, the series is summed, the result squared back
func bigExp(x *big.Float) *big.Float {
	const prec = 300
	y := new(big.Float).SetPrec(prec).Set(x)
	n := 0
	lim := big.NewFloat(1.0 / 1024)
	for new(big.Float).Abs(y).Cmp(lim) > 0 {
		y.Quo(y, big.NewFloat(2))
		n++
	}
	sum := new(big.Float).SetPrec(prec).SetInt64(1)
	term := new(big.Float).SetPrec(prec).SetInt64(1)
	for k := 1; k < 40; k++ {
		term.Mul(term, y)
		term.Quo(term, new(big.Float).SetPrec(prec).SetInt64(int64(k)))
		sum.Add(sum, term)
	}
	for ; n > 0; n-- {
		sum.Mul(sum, sum)
	}
	return sum
}

// bigLn: Newton's iteration y += 2 (x - e^y) / (x + e^y) from the float64 logarithm
func bigLn(x *big.Float) *big.Float {
	const prec = 300
	// bring x into float64 range by its binary exponent: ln x = ln m + e ln 2
	xf, _ := x.Float64()
	y := new(big.Float).SetPrec(prec).SetFloat64(math.Log(xf))
	for i := 0; i < 6; i++ {
		ey := bigExp(y)
		num := new(big.Float).SetPrec(prec).Sub(x, ey)
		den := new(big.Float).SetPrec(prec).Add(x, ey)
		num.Quo(num, den)
		num.Mul(num, big.NewFloat(2))
		y.Add(y, num)
	}
	return y
}

// scribbleNumbers adds 1, in place, to every decimal reachable from a result
func scribbleNumbers(v interface{}) {
	switch x := v.(type) {
	case *decimal.Big:
		if x != nil {
			x.Add(x, decimal.New(1, 0))
		}
	case []interface{}:
		for _, e := range x {
			scribbleNumbers(e)
		}
	case map[string]interface{}:
		for _, e := range x {
			scribbleNumbers(e)
		}
	}
}
