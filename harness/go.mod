module verif/harness

go 1.18

require github.com/aundis/formula v0.0.0

require github.com/ericlagergren/decimal v0.0.0-20221120152707-495c53812d05

replace github.com/aundis/formula => /repo
