package main

import (
	"fmt"
	"math/rand"
	"strings"
	"time"

	"github.com/aundis/formula"
)

func init() {
	suites["grammar"] = suiteGrammar
	suites["parsebig"] = suiteParseBig
	suites["spacing"] = suiteSpacing
	suites["ranges"] = suiteRanges
	suites["errpos"] = suiteErrPos
	replays["NOP"] = func(c string) string { return replayNop(c) }
}

// one representative lexeme per token class
var classLex = []string{"a", "1", "'s'", "null", "false", "typeof", "(", ")", "[", "]", ",", ".", "!.", "...", "=", "?", ":",
	"+", "!", "!!", "*", "||", "==", "<"}

func emitParse(o *Out, text []byte, nontrivial bool) string {
	obs, fails := implParse(text)
	line := "PA\t" + hx(text)
	o.Case(line, obs, nontrivial)
	o.Stat("result-" + obs[:1])
	for _, f := range fails {
		o.Fail(line, f)
	}
	return obs
}

func suiteGrammar(o *Out, thorough bool, seed int64) {
	// (a) every sequence of up to k class representatives, every choice of space / newline at each gap
	k := 3
	if thorough {
		k = 4
	}
	enumSeq(len(classLex), k, func(idx []int) {
		if len(idx) == 0 {
			return
		}
		gaps := len(idx) - 1
		for m := 0; m < 1<<uint(gaps); m++ {
			var sb strings.Builder
			for i, j := range idx {
				if i > 0 {
					if m>>(uint(i-1))&1 == 1 {
						sb.WriteString("\n")
					} else {
						sb.WriteString(" ")
					}
				}
				sb.WriteString(classLex[j])
			}
			emitParse(o, []byte(sb.String()), len(idx) >= 2)
		}
	})
	// plus k+1 with single spaces
	enumSeq(len(classLex), k+1, func(idx []int) {
		if len(idx) != k+1 {
			return
		}
		var parts []string
		for _, j := range idx {
			parts = append(parts, classLex[j])
		}
		emitParse(o, []byte(strings.Join(parts, " ")), true)
	})
	o.Notes = append(o.Notes, fmt.Sprintf("exhaustive: all sequences of up to %d class representatives (%d classes) with space or newline at every gap; all sequences of %d with spaces", k, len(classLex), k+1))
	// (b) every triple of infix operators in a op b op c op d (19 binary + = ?: ,)
	infix := []string{}
	for _, b := range binOps {
		infix = append(infix, b.op)
	}
	infix = append(infix, "=", "?", ",")
	mk := func(l string, op string, r string) string {
		if op == "?" {
			return l + " ? x : " + r
		}
		return l + " " + op + " " + r
	}
	for _, o1 := range infix {
		for _, o2 := range infix {
			emitParse(o, []byte(mk(mk("$a", o1, "b"), o2, "c")), true)
			for _, o3 := range infix {
				emitParse(o, []byte(mk(mk(mk("$a", o1, "$b"), o2, "c"), o3, "d")), true)
			}
		}
	}
	o.Notes = append(o.Notes, fmt.Sprintf("exhaustive: all pairs and triples of the %d infix operators in a op b op c op d", len(infix)))
	// (c) prefix^i binary postfix^j
	prefixes := []string{"-", "+", "!", "!!", "~", "typeof "}
	posts := []string{".k", "!.k", "()", "(1)", "(1, 2)", "(x...)"}
	for _, p1 := range append([]string{""}, prefixes...) {
		for _, p2 := range append([]string{""}, prefixes...) {
			for _, q1 := range append([]string{""}, posts...) {
				for _, q2 := range append([]string{""}, posts...) {
					for _, b := range []string{"", " * ", " + ", " || ", " == "} {
						t := p1 + p2 + "a" + q1 + q2
						if b != "" {
							t = t + b + p1 + "b" + q1
						}
						emitParse(o, []byte(t), true)
					}
				}
			}
		}
	}
	// (c2) a postfix operator after every kind of separator (member access and calls must start on the line of their target)
	for _, base := range []string{"a", "a.b", "a!.b", "f()", "f().b", "a.b.c", "(a).b", "[1].k", "f(x).b", "this.k", "a.b()", "1"} {
		for _, op := range []string{".k", "!.k", "()", "(1)", "(1, 2)", "(x...)", ".k()", ".k.j"} {
			for _, sep := range []string{"", " ", "\t", "\n", "\n ", " \n", "\n\t ", "\r\n", "\r", "\u2028", "\u2029\u00a0", "\u0085", "\u00a0"} {
				for _, tail := range []string{"", " * 3", " ? 1 : 2"} {
					emitParse(o, []byte(base+sep+op+tail), true)
					emitParse(o, []byte("1 + "+base+sep+op+tail), true)
				}
			}
		}
	}
	// (b2) the same operator patterns deep inside nested expressions: every nesting construct (parentheses, array
	// elements, call arguments, conditional branches, unary operators), with an operator waiting at every level, to
	// depths around the sizes a fixed stack or a recursion limit would have; the innermost expression mixes a tighter
	// operator between two looser ones (where a wrong precedence floor shows) for every ordered pair of a
	// representative per precedence level
	{
		reps := []string{"??", "||", "&&", "|", "^", "&", "==", "<", "+", "*"}
		openers := []struct{ open, close string }{{"1 + (", ")"}, {"2 * (", ")"}, {"a && (", ")"}, {"f(1, 3 - ", ")"}, {"[1, 2 + ", "]"}, {"1 - -(", ")"}, {"x ? 1 + (", ") : 2"}, {"(", ") * 2"}, {"1 < (2 + ", ")"}}
		depths := []int{1, 2, 3, 7, 8, 9, 15, 16, 17, 30, 31, 32, 33, 34, 63, 64, 65, 100}
		if thorough {
			depths = append(depths, 127, 128, 129, 255, 256, 257, 500)
		}
		for oi, op := range openers {
			for _, d := range depths {
				for i, lo := range reps {
					for j, hi := range reps {
						if !thorough && (i+2*j+d+oi)%4 != 0 {
							continue
						}
						inner := "10 " + lo + " 2 " + hi + " 3 " + lo + " 4"
						emitParse(o, []byte(strings.Repeat(op.open, d)+inner+strings.Repeat(op.close, d)), true)
					}
				}
				// openers mixed level by level
				var ob, cb strings.Builder
				for l := 0; l < d; l++ {
					q := openers[(l+oi)%len(openers)]
					ob.WriteString(q.open)
					cb.WriteString(q.close)
				}
				// (closers in reverse order of the openers)
				var closers []string
				for l := 0; l < d; l++ {
					closers = append([]string{openers[(l+oi)%len(openers)].close}, closers...)
				}
				emitParse(o, []byte(ob.String()+"10 - 2 * 3 - 4 + 5 == 6"+strings.Join(closers, "")), true)
				_ = cb
			}
		}
		o.Notes = append(o.Notes, "deep nesting: 9 nesting constructs x depths up to 100 (thorough 500) x operator pairs over 10 precedence levels in the innermost expression")
	}
	// (b3) "parentheses, brackets and call arguments nest as written" far beyond 64 KiB of text: derivable, hence
	// accepted (judged on the Go side; the tree is a chain of the one construct)
	for _, d := range []int{65537, 100000, 100001, 131073, 250000} {
		for _, sh := range []struct{ open, mid, close string }{{"(", "1", ")"}, {"-", "a", ""}, {"[", "", "]"}, {"f(", "1", ")"}, {"!", "x", ""}} {
			nt := fmt.Sprintf("NOP\tdeepnest\t%d:%s", d, sh.open)
			o.Case(nt, "-", true)
			text := strings.Repeat(sh.open, d) + sh.mid + strings.Repeat(sh.close, d)
			var err error
			pan, msg := protect(func() { _, err = formula.ParseSourceCode([]byte(text)) })
			if pan || err != nil {
				es := msg
				if err != nil {
					es = err.Error()
				}
				o.Fail(nt, fmt.Sprintf("a well-formed formula nested %d levels deep (%q ...) is rejected: %.200s", d, sh.open, es))
			}
		}
	}
	// (d) random grammar-directed programs with minimal parenthesisation
	r := newRand(seed, "grammar")
	g := &gen{r: r, idents: []string{"x", "y", "s"}, funcs: []string{"f", "g.h", "len"}, lits: []string{"1", "2.5", "'a'", "null", "true", "this", "ctx", "0x1f", "1e3", ".5"}}
	n := 20000
	if thorough {
		n = 600000
	}
	for i := 0; i < n; i++ {
		t := g.expr(0, 1+r.Intn(5))
		emitParse(o, []byte(spaceOut(r, t)), true)
	}
	// (f) fixed shapes that random programs do not reach: the spread token anywhere but last, a comma between ? and :,
	// every keyword literal in every position, callee positions that are not names, keywords in other letter case
	for _, t := range []string{"f(a..., b)", "f(a..., b, c)", "f(x, a..., b)", "f(..., a)", "f(a...,)", "f(a... b)", "f(a, ...)", "f(...a)", "[a...]", "f(a)...", "f(...)", "f(a ...)", "f(.5...)",
		"f(a...)...", "f(a... , )", "f(a)(b...)", "[f(a...)]", "f([a]...)", "f(a... ? 1 : 2)", "f(...)(...)",
		"a ? b, c : d", "a ? b, c, d : e", "a ? $x = 1, $x : d", "f(a ? b, c : d)", "[a ? b, c : d]", "a ? (b, c) : d", "a ? b = c : d", "a ? b ? c : d : e", "a ? b : c, d", "a ? b : c = d", "a = b ? c : d",
		"a ? b : c ? d : e", "a ?? b ? c : d", "a ? b ?? c : d", "(a ? b : c) ? d : e", "a ? : b", "a ? b :", "? a : b",
		"false", "x == false", "false ? a : b", "f(false)", "[true, false, null, ctx, this]", "typeof false", "!false", "$a = false", "a.false", "false.a", "ctx.a", "false(1)", "false.k", "a.true.null", "a!.this",
		"this.typeof", "typeof typeof x", "typeof a.b(c)", "typeof(a)", "typeof [a]", "ctx", "ctx(1)", "this(1)", "null.k", "null(1)",
		"f(a)(b)", "f(a)(b)(c)", "f(a)()", "g.h(a.b)(c)", "(a)(b)", "(x ? f : g)(a)", "f(x).g(y)", "(a).b(c)", "this.f(a)", "'s'.k(a)", "[a].k(b)", "a.b(c).d(e)", "1(2)", "'s'(1)", "[f][0]",
		"True", "NULL", "This.a", "Typeof a", "typeOf", "CTX", "False", "nullx", "xnull", "null1", "$null", "_this", "typeofa", "typeof1", "truefalse", "th\u0131s", "trUe + 1", "TYPEOF x"} {
		emitParse(o, []byte(t), true)
	}
	// (e) not derivable, though everything but ONE character is: a single stray character after the member name
	// that the parser's look-ahead (name on the line after the dot) has already seen once
	for _, base := range []string{"a", "f(x", "[x", "(a", "g(1, y"} {
		for _, dot := range []string{".", "!."} {
			for _, nl := range []string{"\n", "\r\n", "\r", "\u2028", "\u2029", "\u0085", " \n  "} {
				for _, name := range []string{"b", "typeof", "this"} {
					for _, junk := range []string{"#", "@", "\\", "\x80", "`", "\u00a7"} {
						for _, tail := range []string{"", " + 1", " c", " , c"} {
							closing := map[byte]string{'f': ")", '[': "]", '(': ")", 'g': ")"}[base[0]]
							emitParse(o, []byte(base+dot+nl+name+" "+junk+tail+closing), true)
							emitParse(o, []byte(base+dot+nl+name+junk+tail+closing), true)
						}
					}
				}
			}
		}
	}
}

// spaceOut replaces single spaces by random trivia that is not a line break, and adds trivia at the ends
func spaceOut(r *rand.Rand, t string) string {
	triv := []string{" ", "  ", "\t", "\u00a0", " \t "}
	var sb strings.Builder
	sb.WriteString(strings.Repeat(" ", r.Intn(2)))
	for _, c := range t {
		if c == ' ' && r.Intn(4) == 0 {
			sb.WriteString(triv[r.Intn(len(triv))])
		} else {
			sb.WriteRune(c)
		}
	}
	if r.Intn(3) == 0 {
		sb.WriteString([]string{" ", "\n", "\r\n", "\t"}[r.Intn(4)])
	}
	return sb.String()
}

// ---------- C01: pathological shapes up to 64 KiB: no panic, no hang, roughly linear time ----------

type shape struct {
	name string
	unit string
}

var shapes = []shape{
	{"open-paren", "("}, {"open-bracket", "["}, {"minus", "-"}, {"cond", "a?"}, {"member", ".b"}, {"plus-chain", "1+"},
	{"call", "()"}, {"assign", "$a="}, {"number-ident", "1a "}, {"string-nl", "'\n"}, {"underscore", "_"}, {"colon", ":"},
	{"crlf", "\r\n"}, {"invalid-byte", "\xff"}, {"hash", "#"}, {"bang-dot", "a!."}, {"comma", ","}, {"bracket-colon", "[:"},
	{"close-paren", ")"}, {"typeof", "typeof "}, {"dotdotdot", "..."}, {"quote", "'"}, {"backslash", "'\\"}, {"lt", "<"},
	{"paren-pair", "(a)"}, {"arr-elem", "[a,"}, {"qq", "a??"}, {"call-open", "f("}, {"hex", "0x"}, {"e", "1e"},
	// one giant token, mixed nesting, long chains of each recursive construct
	{"digits", "9"}, {"sep-digits", "1_"}, {"ident", "ab"}, {"ident-cjk", "\u4e2d"}, {"paren-bracket", "(["}, {"cond-chain", "a?b:"}, {"not", "!"}, {"member-nl", "a.\nb,"},
	{"coalesce", "a??b||"}, {"spread", "f(a...),"}, {"nested-call", "f(g("}, {"tilde-minus", "~-"}, {"ws-u2028", "\u2028"}, {"nbsp", "\u00a0"}, {"bom", "\ufeff"}, {"four-byte", "\U0001F600"},
}

// giant single tokens that need an opening: a string of escapes, a hex literal, a string of plain characters
var giantTokens = []struct{ name, open, unit, close string }{
	{"string-escapes", "'", "\\n", "'"}, {"string-unicode-escapes", "\"", "\\u0041", "\""}, {"hex-digits", "0x", "f", ""}, {"string-plain", "'", "a", "'"}, {"string-multibyte", "'", "\u00e9", "'"},
	{"fraction", "0.", "1", ""}, {"exponent", "1e", "9", ""}, {"string-unterminated", "'", "ab", ""}, {"number-then-ident", "1", "a", ""}}

var nopResults = map[string]string{}

func replayNop(c string) string {
	f := strings.Split(c, "\t")
	if len(f) >= 3 && f[1] == "shape" {
		var n int
		var name string
		fmt.Sscanf(f[2], "%d:%s", &n, &name)
		for _, s := range shapes {
			if s.name == name {
				text := []byte(strings.Repeat(s.unit, n/len(s.unit)))
				t0 := time.Now()
				obs, fails := implParse(text)
				return fmt.Sprintf("%s... in %v; oracle failures: %v", obs[:1], time.Since(t0), fails)
			}
		}
	}
	return "-"
}

func cpuParse(text []byte, reps int) (time.Duration, string, []string) {
	best := time.Duration(1 << 62)
	var obs string
	var fails []string
	for i := 0; i < reps; i++ {
		done := make(chan struct{})
		t0 := time.Now()
		go func() {
			obs, fails = implParse(text)
			close(done)
		}()
		select {
		case <-done:
		case <-time.After(20 * time.Second):
			return 20 * time.Second, "timeout", []string{"parse did not return within 20 s"}
		}
		if d := time.Since(t0); d < best {
			best = d
		}
	}
	return best, obs, fails
}

// confirmDisproportion re-measures a suspicious pair three more times (best of seven runs each, a pause in between)
// and confirms the suspicion only if every measurement shows it
func confirmDisproportion(small, large []byte) (time.Duration, time.Duration, bool) {
	var a, b time.Duration
	for attempt := 0; attempt < 3; attempt++ {
		time.Sleep(2 * time.Second)
		a, _, _ = cpuParse(small, 7)
		b, _, _ = cpuParse(large, 7)
		if !(a > 5*time.Millisecond && b > 40*a) {
			return a, b, false
		}
	}
	return a, b, true
}

func suiteParseBig(o *Out, thorough bool, seed int64) {
	sizes := []int{8 << 10, 64 << 10}
	for _, s := range shapes {
		var t8, t64 time.Duration
		for _, n := range sizes {
			text := []byte(strings.Repeat(s.unit, n/len(s.unit)))
			d, obs, fails := cpuParse(text, 3)
			line := fmt.Sprintf("NOP\tshape\t%d:%s", n, s.name)
			o.Case(line, "-", true)
			o.Stat("shape-result-" + obs[:1])
			for _, f := range fails {
				// nesting / completeness oracles on a rejected giant input are irrelevant; keep panics and hangs
				if strings.Contains(f, "panicked") || strings.Contains(f, "did not return") || strings.Contains(f, "not of the form") || strings.Contains(f, "no error but") || strings.Contains(f, "empty name") || strings.Contains(f, "missing operand") {
					o.Fail(line, f)
				}
			}
			if n == 8<<10 {
				t8 = d
			} else {
				t64 = d
			}
		}
		line := fmt.Sprintf("NOP\tshape\t%d:%s", 64<<10, s.name)
		if t64 > 5*time.Second {
			o.Fail(line, fmt.Sprintf("64 KiB of %q took %v", s.unit, t64))
		}
		// 8x the input should take about 8x the time; allow 40x, and only judge when the base is measurable.  A ratio
		// measured on a loaded machine is noise (the larger run meets more of the load): it is reported only when it
		// persists through three further measurements, each the best of seven runs
		if t8 > 5*time.Millisecond && t64 > 40*t8 {
			mk := func(n int) []byte { return []byte(strings.Repeat(s.unit, n/len(s.unit))) }
			if a, b, still := confirmDisproportion(mk(8<<10), mk(64<<10)); still {
				o.Fail(line, fmt.Sprintf("time not roughly proportional: 8 KiB %v, 64 KiB %v (first measurement %v, %v)", a, b, t8, t64))
			}
		}
		o.Notes = append(o.Notes, fmt.Sprintf("%s: 8KiB %v 64KiB %v", s.name, t8, t64))
	}
	for _, g := range giantTokens {
		var t8, t64 time.Duration
		for _, n := range sizes {
			text := []byte(g.open + strings.Repeat(g.unit, (n-len(g.open)-len(g.close))/len(g.unit)) + g.close)
			d, obs, fails := cpuParse(text, 3)
			line := fmt.Sprintf("NOP\tgiant\t%d:%s", n, g.name)
			o.Case(line, "-", true)
			o.Stat("giant-result-" + obs[:1])
			for _, f := range fails {
				if strings.Contains(f, "panicked") || strings.Contains(f, "did not return") || strings.Contains(f, "not of the form") || strings.Contains(f, "no error but") {
					o.Fail(line, f)
				}
			}
			if n == 8<<10 {
				t8 = d
			} else {
				t64 = d
			}
		}
		line := fmt.Sprintf("NOP\tgiant\t%d:%s", 64<<10, g.name)
		if t64 > 5*time.Second {
			o.Fail(line, fmt.Sprintf("a single %s token of 64 KiB took %v", g.name, t64))
		}
		if t8 > 5*time.Millisecond && t64 > 40*t8 {
			mk := func(n int) []byte {
				return []byte(g.open + strings.Repeat(g.unit, (n-len(g.open)-len(g.close))/len(g.unit)) + g.close)
			}
			if a, b, still := confirmDisproportion(mk(8<<10), mk(64<<10)); still {
				o.Fail(line, fmt.Sprintf("time not roughly proportional: 8 KiB %v, 64 KiB %v (first measurement %v, %v)", a, b, t8, t64))
			}
		}
	}
	// random and mutated byte strings (no model comparison at this size)
	r := newRand(seed, "parsebig")
	n := 300
	if thorough {
		n = 5000
	}
	seeds := []string{"(1 + 2) * 3", "age !== null ? '' : ($1=(name==='x'&&'y'),typeof $1 === 'string'?$1:'')", "join(mapToArr(value, 'name'), ',')", "a.b.c(d, [e, f]...)"}
	for i := 0; i < n; i++ {
		base := []byte(strings.Repeat(seeds[r.Intn(len(seeds))]+" , ", 1+r.Intn(400)))
		for j := 0; j < 1+r.Intn(20); j++ {
			p := r.Intn(len(base))
			switch r.Intn(4) {
			case 0:
				base[p] = byte(r.Intn(256))
			case 1:
				base = append(base[:p], base[p+1:]...)
			case 2:
				base = append(base[:p], append([]byte{"'\"\\()[]\n"[r.Intn(8)]}, base[p:]...)...)
			default:
				base = base[:p]
			}
			if len(base) == 0 {
				base = []byte("a")
			}
		}
		_, obs, fails := cpuParse(base, 1)
		line := "NOP\tmut\t" + hx(base)
		if len(base) < 2000 {
			line = "PA\t" + hx(base)
			o.Case(line, obs, true)
		} else {
			o.Case(fmt.Sprintf("NOP\tmutbig\t%d", i), "-", true)
		}
		for _, f := range fails {
			if strings.Contains(f, "panicked") || strings.Contains(f, "did not return") || strings.Contains(f, "not of the form") || strings.Contains(f, "no error but") {
				o.Fail(line, f)
			}
		}
	}
}

// ---------- C14: spacing is insignificant ----------

var spacingLex = []string{"a", "b1", "$c", "_", "1", "2.5", "1.", ".5", "1e3", "'s'", "\"t\"", "null", "true", "typeof", "this",
	"(", ")", "[", "]", ",", ".", "!.", "...", "=", "?", ":", "+", "-", "!", "!!", "~", "*", "/", "%", "<", "<=", ">", ">=",
	"==", "===", "!=", "!==", "&&", "||", "??", "&", "|", "^", "é", "truex", "false", "ctx", "True", "NULL", "typeOf", "nullx", "xnull", "$null", "_this", "\u4e2d", "\u3042x"}

var separators = []string{"", " ", "\t", "\u00a0", "\n", "\u2028", "  \t", "\r\n", "\u0085", "\n ", "\n\t", " \n ", "\r\n  ", "\u2028\u00a0",
	"\ufeff", "\u200b", "\u1680", "\u2003", "\u3000", "\u202f", "\u205f", "\v", "\f", "\r", "\u2029", "\u00a0\ufeff", "\u200b\n"}

func suiteSpacing(o *Out, thorough bool, seed int64) {
	r := newRand(seed, "spacing")
	g := &gen{r: r, idents: []string{"x", "y"}, funcs: []string{"f", "len"}, lits: []string{"1", "2.5", "'a'", "null", "true"}}
	n := 4000
	if thorough {
		n = 100000
	}
	for i := 0; i < n; i++ {
		// a token list: either random lexemes or the tokens of a generated program
		var lex []string
		if r.Intn(3) == 0 {
			for j := 0; j < 2+r.Intn(5); j++ {
				lex = append(lex, spacingLex[r.Intn(len(spacingLex))])
			}
		} else {
			lex = tokenize(g.expr(0, 1+r.Intn(4)))
		}
		base := strings.Join(lex, " ")
		baseObs := emitParse(o, []byte(base), len(lex) >= 3)
		baseToks, _ := implScan([]byte(base))
		// variants: random separators; a separator is only replaced by "" when that keeps the tokens apart
		for v := 0; v < 3; v++ {
			var sb strings.Builder
			okVariant := true
			brokeLine := false
			for j, l := range lex {
				if j > 0 {
					sep := separators[r.Intn(len(separators))]
					// a line break may not precede . !. ( : keep those gaps free of line breaks
					// (one variant in four keeps the break there: no claim about it, the model decides)
					if strings.ContainsAny(sep, "\n\r\u2028\u2029\u0085") && (l == "." || l == "!." || l == "(") {
						if v == 2 && r.Intn(2) == 0 {
							brokeLine = true
						} else {
							sep = " "
						}
					}
					sb.WriteString(sep)
				}
				sb.WriteString(l)
			}
			text := sb.String()
			toks, _ := implScan([]byte(text))
			if kindsOf(toks) != kindsOf(baseToks) {
				okVariant = false // the chosen empty separators merged tokens: not a re-spacing of the same tokens
			}
			if brokeLine {
				okVariant = false
			}
			obs := emitParse(o, []byte(text), true)
			if okVariant && treeShape(obs) != treeShape(baseObs) {
				o.Fail("PA\t"+hx([]byte(text)), fmt.Sprintf("re-spacing changed the parse: %q parses differently from %q", text, base))
			}
		}
	}
}

// kindsOf projects a token observation to kinds and values (positions and flags dropped)
func kindsOf(obs string) string {
	var out []string
	for _, t := range strings.Split(obs, ";") {
		f := strings.Split(t, ":")
		if len(f) >= 6 {
			out = append(out, f[0]+"/"+f[5])
		}
	}
	return strings.Join(out, " ")
}

// treeShape drops every position from a canonical tree: numbers that are positions are the trailing integers
// of each node; we simply delete all integer tokens except kinds (first integer after I/L/P/B node letters)
func treeShape(obs string) string {
	if !strings.HasPrefix(obs, "A ") {
		return obs[:1]
	}
	src := obs[2:]
	var sb strings.Builder
	toks := strings.Fields(strings.NewReplacer("(", " ( ", ")", " ) ", "[", " [ ", "]", " ] ").Replace(src))
	// keep structure tokens, node letters, hex values and the kind integers (which directly follow I, L, P or are
	// the operator kind in B); positions are recognised by context: we keep an integer only if the previous kept
	// token is a node letter I/L/P, or if it is the first integer after the left operand of B - simpler: keep
	// letters, brackets and hex values, plus integers that follow I, L, P; for B the operator kind is kept by
	// recording the three integers after the left subtree and keeping the first.
	depthInts := []int{}
	kind := []string{}
	for _, t := range toks {
		switch {
		case t == "(":
			sb.WriteString("(")
			depthInts = append(depthInts, 0)
			kind = append(kind, "")
		case t == ")":
			sb.WriteString(")")
			depthInts = depthInts[:len(depthInts)-1]
			kind = kind[:len(kind)-1]
		case t == "[" || t == "]":
			sb.WriteString(t)
		case len(kind) > 0 && kind[len(kind)-1] == "":
			kind[len(kind)-1] = t
			sb.WriteString(t + " ")
		default:
			isInt := true
			for i, c := range t {
				if !(c >= '0' && c <= '9') && !(i == 0 && c == '-') {
					isInt = false
				}
			}
			if strings.Contains(t, "/") {
				sb.WriteString("spread ")
				continue
			}
			if t == "-" && kind[len(kind)-1] == "F" {
				continue
			}
			if !isInt {
				sb.WriteString(t + " ")
				continue
			}
			d := len(depthInts) - 1
			depthInts[d]++
			k := kind[d]
			// integers to keep: I: 1st (orig kind); L: 1st (kind); P: 1st (op kind); B: 1st (op kind); S: the assert flag
			keep := false
			switch k {
			case "I", "L", "P", "B":
				keep = depthInts[d] == 1
			case "S":
				keep = depthInts[d] == 1
			case "C":
				keep = depthInts[d] == 3 // colon kind
			}
			if keep {
				sb.WriteString(t + " ")
			}
		}
	}
	return "A " + sb.String()
}

// tokenize splits generated program text into lexemes (the generator separates tokens by single spaces
// except around punctuation it writes itself)
func tokenize(t string) []string {
	var toks []string
	obs, _ := implScan([]byte(t))
	for _, tk := range strings.Split(obs, ";") {
		f := strings.Split(tk, ":")
		if len(f) < 6 || f[0] == "1" {
			continue
		}
		var a, b int
		fmt.Sscan(f[2], &a)
		fmt.Sscan(f[3], &b)
		toks = append(toks, t[a:b])
	}
	return toks
}

// ---------- C15: ranges nest, sub-expressions re-parse ----------

func suiteRanges(o *Out, thorough bool, seed int64) {
	r := newRand(seed, "ranges")
	fixedRanges := []string{"f(x).y", "f(x)(y)", "(a).b.c", "[1, 2].k", "a.b.c.d(e).f", "a.typeof", "a.null.this", "x!.y!.z", "0x1F + .5 + 1.", "\"s\" + ctx", "typeof typeof x", "a.\nb.c", "false ? [a] : (b)",
		"f(a...)", "f(g(h(1)), [2, [3]])", "a ? b ? c : d : e", "$a = $b = 1", "- - ! ~ x", "a.b(c)(d).e!.f", "(((a)))", "[[], [[]]]", "'\\x41' + \"\\u0042\"", "1_0 + 0x1_F"}
	g := &gen{r: r, idents: []string{"x", "y", "é"}, funcs: []string{"f", "g.h", "len"}, lits: []string{"1", "2.5", "'a'", "'é\\n'", "null", "true", "this"}}
	triv := []string{" ", "\n", "\r\n", "\r", "\u2028", "\u2029", "\u0085", "\t", "\u00a0", ""}
	n := 6000
	if thorough {
		n = 200000
	}
	for i := 0; i < n+len(fixedRanges); i++ {
		var lex []string
		if i < len(fixedRanges) {
			lex = []string{fixedRanges[i]}
		} else {
			lex = tokenize(g.expr(0, 1+r.Intn(4)))
		}
		var sb strings.Builder
		sb.WriteString(triv[r.Intn(len(triv))])
		for j, l := range lex {
			if j > 0 {
				sep := triv[r.Intn(len(triv))]
				if l == "." || l == "!." || l == "(" {
					sep = []string{"", " ", "\t"}[r.Intn(3)]
				}
				sb.WriteString(sep)
			}
			sb.WriteString(l)
		}
		sb.WriteString(triv[r.Intn(len(triv))])
		text := []byte(sb.String())
		obs := emitParse(o, text, len(lex) >= 3)
		if !strings.HasPrefix(obs, "A ") {
			continue
		}
		// re-parse every expression node on its own
		src, _ := formula.ParseSourceCode(text)
		if src == nil || src.Expression == nil {
			continue
		}
		checkReparse(o, text, src.Expression)
	}
}

func checkReparse(o *Out, text []byte, n formula.Expression) {
	var walk func(n formula.Expression)
	walk = func(n formula.Expression) {
		if n == nil || formula.IsNull(n) {
			return
		}
		if n.Pos() < 0 || n.End() > len(text) || n.Pos() > n.End() {
			return // reported by the nesting oracle
		}
		sub := text[n.Pos():n.End()]
		var sb1 strings.Builder
		printTree(&sb1, n)
		want := treeShape("A " + sb1.String())
		src2, err := formula.ParseSourceCode(sub)
		// names after a dot are identifiers or keywords, not expressions of their own
		if err != nil || src2 == nil {
			o.Fail("PA\t"+hx(text), fmt.Sprintf("the text %q of a node does not parse on its own: %v", sub, err))
		} else {
			var sb2 strings.Builder
			printTree(&sb2, src2.Expression)
			if got := treeShape("A " + sb2.String()); got != want {
				o.Fail("PA\t"+hx(text), fmt.Sprintf("the text %q of a node parses to a different subtree", sub))
			}
		}
		switch e := n.(type) {
		case *formula.PrefixUnaryExpression:
			walk(e.Operand)
		case *formula.TypeOfExpression:
			walk(e.Expression)
		case *formula.BinaryExpression:
			walk(e.Left)
			walk(e.Right)
		case *formula.ConditionalExpression:
			walk(e.Condition)
			walk(e.WhenTrue)
			walk(e.WhenFalse)
		case *formula.ArrayLiteralExpression:
			for i := 0; i < e.Elements.Len(); i++ {
				walk(e.Elements.At(i))
			}
		case *formula.ParenthesizedExpression:
			walk(e.Expression)
		case *formula.SelectorExpression:
			walk(e.Expression)
		case *formula.CallExpression:
			walk(e.Expression)
			if e.Arguments != nil {
				for i := 0; i < e.Arguments.Len(); i++ {
					walk(e.Arguments.At(i))
				}
			}
		}
	}
	walk(n)
}

// ---------- C15: error positions ----------

func suiteErrPos(o *Out, thorough bool, seed int64) {
	r := newRand(seed, "errpos")
	// errors far down a text, every diagnostic of a source formatted more than once and in both orders, the
	// look-ahead over a token that raises two scanner diagnostics
	{
		rep := strings.Repeat
		texts := []string{rep("\n", 100) + "#", rep("a +\r\n", 80) + ")", rep("1,\u2028", 70) + "1 1", "[" + rep("1,\n", 300) + "]]", rep("x\n", 64) + "y y", rep("\u0085", 65) + "(", rep("a\r", 1000) + "?",
			rep("'s' +\n", 63) + "'", rep("1 + \n", 64) + "1 1", rep("1 + \n", 65) + "1 1", rep("\r\n", 255) + ")", rep("\r\n", 256) + ")", rep("\r\n", 257) + ")",
			"a.\nb 1_a", "a.\nb '\\xg\\xh'", "a.\nb 1_e", "a!.\r\nnull 1__2_", "(\r\n#\u2028#", "a.\nb 1__2__3", "f(a.\u2028b 0xg, 1_)", "[a.\nb 1e, 2e]"}
		for _, t := range texts {
			text := []byte(t)
			emitParse(o, text, true)
			src, err := formula.ParseSourceCode(text)
			if err == nil || src == nil {
				continue
			}
			first := map[int]string{}
			for pass := 0; pass < 4; pass++ {
				for k := range src.Diagnostics {
					i := k
					if pass%2 == 1 {
						i = len(src.Diagnostics) - 1 - k
					}
					d := src.Diagnostics[i]
					got := formula.FormatDiagnostic(src, d)
					fresh := &formula.SourceCode{Text: text}
					want := formula.FormatDiagnostic(fresh, d)
					if got != want {
						o.Fail("PA\t"+hx(text), fmt.Sprintf("diagnostic %d formats as %q on the parsed source and as %q on a source that has computed nothing yet", i, got, want))
					}
					if f, ok := first[i]; ok && f != got {
						o.Fail("PA\t"+hx(text), fmt.Sprintf("diagnostic %d formats differently the second time: %q then %q", i, f, got))
					}
					first[i] = got
					if m := errRe.FindStringSubmatch(got); m != nil {
						lc := fmt.Sprintf("%s,%s", m[1], m[2])
						o.Case(fmt.Sprintf("LC\t%s\t%d", hx(text), d.Start), lc+"|"+lc, true)
					}
				}
				for off := 0; off <= len(text); off += 1 + len(text)/40 {
					p := formula.GetFileLineAndCharacterFromPosition(src, off)
					q := formula.PositionToLineAndCharacter(text, off)
					if p != q {
						o.Fail("PA\t"+hx(text), fmt.Sprintf("offset %d: the cached line table gives %v, a direct computation %v", off, p, q))
					}
				}
			}
		}
	}
	pieces := []string{"a", "1", "(", ")", "[", "]", ",", "+", "*", "?", ":", ".", "#", "'x", "1a", "é", "'é'", "\n", "\r\n", "\r", "\u2028", "\u2029", "\u0085", "\u00a0", "\t", "1_", "0x", "\\"}
	n := 8000
	if thorough {
		n = 300000
	}
	for i := 0; i < n; i++ {
		var sb strings.Builder
		for j := 0; j < 1+r.Intn(10); j++ {
			sb.WriteString(pieces[r.Intn(len(pieces))])
		}
		text := []byte(sb.String())
		src, err := formula.ParseSourceCode(text)
		if err == nil {
			o.Stat("accepted")
			continue
		}
		m := errRe.FindStringSubmatch(err.Error())
		if m == nil {
			line := "PA\t" + hx(text)
			o.Case(line, "X", true)
			o.Fail(line, "syntax error not of the form pos(line, column) error(code) message: "+err.Error())
			continue
		}
		if src == nil || len(src.Diagnostics) == 0 {
			line := "PA\t" + hx(text)
			o.Case(line, "X", true)
			o.Fail(line, "error without a diagnostic")
			continue
		}
		d := src.Diagnostics[0]
		// the reported (line, column) must be the direct count of the first diagnostic's offset: the model's
		// proved direct_count judges it (LC case), and the three public helpers must agree with each other
		lc := fmt.Sprintf("%s,%s", m[1], m[2])
		nl := strings.ContainsAny(string(text[:d.Start]), "\n\r\u2028\u2029\u0085")
		o.Case(fmt.Sprintf("LC\t%s\t%d", hx(text), d.Start), lc+"|"+lc, nl)
		if fmt.Sprint(d.Code) != m[3] {
			o.Fail("PA\t"+hx(text), "error code is not the first diagnostic's code")
		}
		p1 := formula.PositionToLineAndCharacter(text, d.Start)
		p2 := formula.GetLineAndCharacterOfPosition(text, formula.ComputeLineStarts(text), d.Start)
		if p1 != p2 || fmt.Sprintf("%d,%d", p1.Line, p1.Column) != lc {
			o.Fail("PA\t"+hx(text), "offset-to-position helpers disagree with the formatted error")
		}
		o.Stat("rejected")
	}
}
