package main

import (
	"context"
	"fmt"
	"math/big"
	"reflect"
	"sort"
	"strconv"
	"strings"
	"time"

	"github.com/aundis/formula"
	"github.com/ericlagergren/decimal"
)

// Canonical wire format of values (shared with ocaml/driver.ml), space separated prefix code:
//   N | T | F | D<sign>:<coef>:<exp> | Dnan | Dinf | D-inf | S<hex> | I<kind>:<n> | G<hex of spelling>
//   M<ns>:<off> | A<n> v.. | O<n> S<k> v .. (keys sorted) | H<id> | B<hex name> | P | C | X<tag>

var builtinPtr = map[uintptr]string{}

// variedContexts: see the decoder of D values
var variedContexts = true

func init() {
	for name, f := range formula.VerifBuiltins() {
		if reflect.TypeOf(f).Kind() == reflect.Func {
			builtinPtr[reflect.ValueOf(f).Pointer()] = name
		}
	}
}

// decTriple: sign, coefficient, exponent of a finite decimal, normalised (no trailing zeros)
func decCanon(x *decimal.Big) string {
	if x == nil {
		return "P"
	}
	if x.IsNaN(0) {
		return "Dnan"
	}
	if x.IsInf(0) {
		if x.Signbit() {
			return "D-inf"
		}
		return "Dinf"
	}
	s := x.String()
	neg := false
	if strings.HasPrefix(s, "-") {
		neg, s = true, s[1:]
	}
	exp := 0
	if i := strings.IndexAny(s, "eE"); i >= 0 {
		e, err := strconv.Atoi(s[i+1:])
		if err != nil {
			return "X"
		}
		exp, s = e, s[:i]
	}
	if i := strings.IndexByte(s, '.'); i >= 0 {
		exp -= len(s) - i - 1
		s = s[:i] + s[i+1:]
	}
	c, ok := new(big.Int).SetString(s, 10)
	if !ok {
		return "X"
	}
	return canonTriple(neg, c, exp)
}

func canonTriple(neg bool, c *big.Int, exp int) string {
	if c.Sign() == 0 {
		return "D+:0:0"
	}
	ten := big.NewInt(10)
	q, r := new(big.Int), new(big.Int)
	for {
		q.QuoRem(c, ten, r)
		if r.Sign() != 0 {
			break
		}
		c = new(big.Int).Set(q)
		exp++
	}
	sg := "+"
	if neg {
		sg = "-"
	}
	return fmt.Sprintf("D%s:%s:%d", sg, c.String(), exp)
}

type hostReg struct {
	ids map[uintptr]int
}

var curHosts = map[uintptr]int{}

func encVal(sb *strings.Builder, v interface{}) { encValDepth(sb, v, 0) }

func encValDepth(sb *strings.Builder, v interface{}, depth int) {
	if depth > 12 {
		sb.WriteString("X")
		return
	}
	encVal := func(sb *strings.Builder, v interface{}) { encValDepth(sb, v, depth+1) }
	switch x := v.(type) {
	case nil:
		sb.WriteString("N")
	case bool:
		if x {
			sb.WriteString("T")
		} else {
			sb.WriteString("F")
		}
	case *decimal.Big:
		if x == nil {
			sb.WriteString("N") // reads as null (see 'Pd')
			return
		}
		sb.WriteString(decCanon(x))
	case string:
		sb.WriteString("S" + hx([]byte(x)))
	case time.Time:
		_, off := x.Zone()
		sec := x.Unix()
		ns := new(big.Int).Mul(big.NewInt(sec), big.NewInt(1000000000))
		ns.Add(ns, big.NewInt(int64(x.Nanosecond())))
		fmt.Fprintf(sb, "M%s:%d", ns.String(), off)
	case []interface{}:
		fmt.Fprintf(sb, "A%d", len(x))
		for _, e := range x {
			sb.WriteByte(' ')
			encVal(sb, e)
		}
	case map[string]interface{}:
		keys := make([]string, 0, len(x))
		for k := range x {
			keys = append(keys, k)
		}
		sort.Strings(keys)
		fmt.Fprintf(sb, "O%d", len(x))
		for _, k := range keys {
			sb.WriteString(" S" + hx([]byte(k)) + " ")
			encVal(sb, x[k])
		}
	case int:
		fmt.Fprintf(sb, "Ii:%d", x)
	case int8:
		fmt.Fprintf(sb, "Ii8:%d", x)
	case int16:
		fmt.Fprintf(sb, "Ii16:%d", x)
	case int32:
		fmt.Fprintf(sb, "Ii32:%d", x)
	case int64:
		fmt.Fprintf(sb, "Ii64:%d", x)
	case uint:
		fmt.Fprintf(sb, "Iu:%d", x)
	case uint8:
		fmt.Fprintf(sb, "Iu8:%d", x)
	case uint16:
		fmt.Fprintf(sb, "Iu16:%d", x)
	case uint32:
		fmt.Fprintf(sb, "Iu32:%d", x)
	case uint64:
		fmt.Fprintf(sb, "Iu64:%d", x)
	case uintptr:
		fmt.Fprintf(sb, "Iup:%d", x)
	case float64:
		sb.WriteString("G" + hx([]byte(strconv.FormatFloat(x, 'f', -1, 64))))
	case float32:
		sb.WriteString("G" + hx([]byte(strconv.FormatFloat(float64(x), 'f', -1, 64))))
	case context.Context:
		sb.WriteString("C")
	default:
		rv := reflect.ValueOf(v)
		if rv.Type().PkgPath() == "main" {
			// a value of one of the harness's named types: rendered as the value of its underlying type
			switch rv.Kind() {
			case reflect.String:
				encVal(sb, rv.String())
				return
			case reflect.Bool:
				encVal(sb, rv.Bool())
				return
			case reflect.Int:
				encVal(sb, int(rv.Int()))
				return
			case reflect.Int32:
				encVal(sb, int32(rv.Int()))
				return
			case reflect.Int64:
				encVal(sb, rv.Int())
				return
			case reflect.Float32:
				encVal(sb, float32(rv.Float()))
				return
			case reflect.Float64:
				encVal(sb, rv.Float())
				return
			}
		}
		switch rv.Kind() {
		case reflect.Func:
			p := rv.Pointer()
			if n, ok := builtinPtr[p]; ok {
				sb.WriteString("B" + hx([]byte(n)))
			} else {
				sb.WriteString("H") // host functions are not told apart in observations
			}
		case reflect.Struct:
			if tid := structTypeID(rv.Type()); tid >= 0 {
				fmt.Fprintf(sb, "R%d", tid) // a struct result is told apart by its type only
				return
			}
			sb.WriteString("X")
		case reflect.Ptr:
			if rv.IsNil() {
				sb.WriteString("P")
			} else {
				sb.WriteString("X")
			}
		case reflect.Slice:
			// typed slices are rendered like []interface{} (only produced by conversions)
			fmt.Fprintf(sb, "A%d", rv.Len())
			for i := 0; i < rv.Len(); i++ {
				sb.WriteByte(' ')
				encVal(sb, rv.Index(i).Interface())
			}
		case reflect.Map:
			if rv.Type().Key().Kind() == reflect.String {
				keys := rv.MapKeys()
				sort.Slice(keys, func(i, j int) bool { return keys[i].String() < keys[j].String() })
				fmt.Fprintf(sb, "O%d", len(keys))
				for _, k := range keys {
					sb.WriteString(" S" + hx([]byte(k.String())) + " ")
					encVal(sb, rv.MapIndex(k).Interface())
				}
			} else {
				sb.WriteString("X")
			}
		default:
			sb.WriteString("X")
		}
	}
}

func enc(v interface{}) string {
	var sb strings.Builder
	encVal(&sb, v)
	return sb.String()
}

// ---- decoding a wire value back into a Go value (used to build data maps from a case line)

type valParser struct {
	toks  []string
	i     int
	hosts map[int]interface{}
}

func (p *valParser) next() string { t := p.toks[p.i]; p.i++; return t }

func (p *valParser) val() interface{} {
	t := p.next()
	switch t[0] {
	case 'N':
		return nil
	case 'T':
		return true
	case 'F':
		return false
	case 'D':
		switch t {
		case "Dnan":
			return decimal.WithContext(decimal.Context128).SetNaN(false)
		case "Dinf":
			return decimal.WithContext(decimal.Context128).SetInf(false)
		case "D-inf":
			return decimal.WithContext(decimal.Context128).SetInf(true)
		}
		f := strings.Split(t[1:], ":")
		s := f[1] + "e" + f[2]
		if f[0] == "-" {
			s = "-" + s
		}
		// the decimal CONTEXT a caller's number was created in is not part of its value (the model's numbers are sign,
		// coefficient, exponent): it varies with the digits, so that a dependence on it shows as a difference
		ctxs := []decimal.Context{decimal.Context128, {}, {Precision: 40}, {Precision: decimal.UnlimitedPrecision}, decimal.Context64, {Precision: 100, RoundingMode: decimal.ToZero}}
		pick := 0
		if variedContexts {
			pick = (len(f[1])*7 + len(f[2])*3 + int(f[1][len(f[1])-1]-'0')) % len(ctxs)
		}
		d, _ := decimal.WithContext(ctxs[pick]).SetString(s)
		if chk, _ := decimal.WithContext(decimal.Context128).SetString(s); pick != 0 && (d == nil || chk == nil || d.Cmp(chk) != 0 || d.Scale() != chk.Scale()) {
			d = chk // this context did not keep the digits as written
		}
		return d
	case 'S':
		return string(unhx(t[1:]))
	case 'I':
		f := strings.Split(t[1:], ":")
		n, _ := strconv.ParseInt(f[1], 10, 64)
		switch f[0] {
		case "i":
			return int(n)
		case "i8":
			return int8(n)
		case "i16":
			return int16(n)
		case "i32":
			return int32(n)
		case "i64":
			return int64(n)
		case "u":
			u, _ := strconv.ParseUint(f[1], 10, 64)
			return uint(u)
		case "u8":
			return uint8(n)
		case "u16":
			return uint16(n)
		case "u32":
			return uint32(n)
		case "u64":
			u, _ := strconv.ParseUint(f[1], 10, 64)
			return uint64(u)
		case "up":
			u, _ := strconv.ParseUint(f[1], 10, 64)
			return uintptr(u)
		}
	case 'G':
		fl, _ := strconv.ParseFloat(string(unhx(t[1:])), 64)
		return fl
	case 'g': // a float32 (the spelling is that of the float64 it widens to, which is what enters the computation)
		fl, _ := strconv.ParseFloat(string(unhx(t[1:])), 64)
		return float32(fl)
	case 'M':
		f := strings.Split(t[1:], ":")
		ns, _ := new(big.Int).SetString(f[0], 10)
		off, _ := strconv.Atoi(f[1])
		sec, nsec := new(big.Int), new(big.Int)
		sec.DivMod(ns, big.NewInt(1000000000), nsec)
		loc := time.UTC
		if off != 0 {
			loc = time.FixedZone("", off)
		}
		if len(f) > 2 { // a location with a name of its own
			loc = time.FixedZone(string(unhx(f[2])), off)
		}
		return time.Unix(sec.Int64(), nsec.Int64()).In(loc)
	case 'A':
		n, _ := strconv.Atoi(t[1:])
		// spare capacity behind the elements, as a slice built with append has: code that appends to (or assembles
		// something inside) the caller's slice then writes into the caller's memory instead of reallocating
		out := make([]interface{}, 0, n+3)
		for j := 0; j < n; j++ {
			out = append(out, p.val())
		}
		return out
	case 'Z', 'Y':
		// the typed twin of A / O: a homogeneous array becomes a typed slice ([]string, []int, []int64, []float64,
		// []bool, []map[string]interface{}), a homogeneous map a typed map; the model reads them as A / O
		if t == "Zn" { // a nil slice of a typed slice type: an (empty) array, not null
			return []string(nil)
		}
		if t == "Yn" { // a nil map of a typed map type: an (empty) map, not null
			return map[string]string(nil)
		}
		n, _ := strconv.Atoi(t[1:])
		var keys []string
		var vals []interface{}
		for j := 0; j < n; j++ {
			if t[0] == 'Y' {
				k := p.next()
				keys = append(keys, string(unhx(k[1:])))
			}
			vals = append(vals, p.val())
		}
		var et reflect.Type
		homog := n > 0
		for _, v := range vals {
			if v == nil {
				homog = false
				break
			}
			vt := reflect.TypeOf(v)
			if et == nil {
				et = vt
			} else if et != vt {
				homog = false
			}
		}
		if homog {
			switch et.Kind() {
			case reflect.String, reflect.Int, reflect.Int64, reflect.Float64, reflect.Bool:
			case reflect.Map:
				homog = t[0] == 'Z' && et == reflect.TypeOf(map[string]interface{}{})
			default:
				homog = false
			}
		}
		if t[0] == 'Z' {
			if !homog {
				return append([]interface{}{}, vals...)
			}
			sl := reflect.MakeSlice(reflect.SliceOf(et), 0, n)
			for _, v := range vals {
				sl = reflect.Append(sl, reflect.ValueOf(v))
			}
			return sl.Interface()
		}
		if !homog {
			out := map[string]interface{}{}
			for j, k := range keys {
				out[k] = vals[j]
			}
			return out
		}
		mp := reflect.MakeMapWithSize(reflect.MapOf(reflect.TypeOf(""), et), n)
		for j, k := range keys {
			mp.SetMapIndex(reflect.ValueOf(k), reflect.ValueOf(vals[j]))
		}
		return mp.Interface()
	case 'O':
		n, _ := strconv.Atoi(t[1:])
		out := map[string]interface{}{}
		for j := 0; j < n; j++ {
			k := p.next()
			out[string(unhx(k[1:]))] = p.val()
		}
		return out
	case 'Q':
		n, _ := strconv.Atoi(t[1:])
		out := map[string]int{}
		for j := 0; j < n; j++ {
			k := p.next()
			v, _ := p.val().(int)
			out[string(unhx(k[1:]))] = v
		}
		return out
	case 'H':
		id, _ := strconv.Atoi(t[1:])
		return p.hosts[id]
	case 'P':
		// typed nil pointers of different Go types: all null to a formula
		switch t {
		case "Ps":
			return (*string)(nil)
		case "Pm":
			return (*map[string]interface{})(nil)
		case "Pt":
			return (*SBase)(nil)
		case "Pf":
			return (*float64)(nil)
		case "Pd":
			return (*decimal.Big)(nil) // normalised to the untyped null when it is read
		}
		return (*int)(nil)
	case 'C':
		return context.Background()
	case 'X':
		return struct{ A int }{1}
	case 'R':
		// R<id>:<n> S<name> <value> ...: the struct of the palette; the listed fields are for the model
		f := strings.Split(t[1:], ":")
		id, _ := strconv.Atoi(strings.Split(f[0], ".")[0])
		n, _ := strconv.Atoi(f[1])
		for j := 0; j < n; j++ {
			p.next()
			p.val()
		}
		return structPalette[id].val
	}
	panic("bad value token " + t)
}

func decodeVal(s string, hosts map[int]interface{}) interface{} {
	p := &valParser{toks: strings.Fields(s), hosts: hosts}
	return p.val()
}

// ---- host functions synthesised from a textual signature

type hostSpec struct {
	id       int
	ctx      bool
	variadic bool
	nres     int
	fail     bool
	params   []string
	result   string // wire value
}

func (h hostSpec) String() string {
	b := func(x bool) string {
		if x {
			return "1"
		}
		return "0"
	}
	ps := strings.Join(h.params, ",")
	if ps == "" {
		ps = "-"
	}
	return fmt.Sprintf("%d:%s:%s:%d:%s:%s:%s", h.id, b(h.ctx), b(h.variadic), h.nres, b(h.fail), ps, strings.ReplaceAll(h.result, " ", "_"))
}

func parseHostSpec(s string) hostSpec {
	f := strings.Split(s, ":")
	var h hostSpec
	h.id, _ = strconv.Atoi(f[0])
	h.ctx = f[1] == "1"
	h.variadic = f[2] == "1"
	h.nres, _ = strconv.Atoi(f[3])
	h.fail = f[4] == "1"
	if f[5] != "-" {
		h.params = strings.Split(f[5], ",")
	}
	h.result = strings.ReplaceAll(strings.Join(f[6:], ":"), "_", " ")
	return h
}

var ctxType = reflect.TypeOf((*context.Context)(nil)).Elem()
var errType = reflect.TypeOf((*error)(nil)).Elem()
var ifaceType = reflect.TypeOf((*interface{})(nil)).Elem()

// named (defined) types for declared parameter types: "N" + the letter of the underlying type
type (
	NamedStr  string
	NamedBool bool
	NamedInt  int
	NamedI32  int32
	NamedI64  int64
	NamedF32  float32
	NamedF64  float64
	NamedAny  interface{}
	NamedStrs []string
)

var namedTypes = map[string]reflect.Type{"s": reflect.TypeOf(NamedStr("")), "b": reflect.TypeOf(NamedBool(false)), "i": reflect.TypeOf(NamedInt(0)),
	"i32": reflect.TypeOf(NamedI32(0)), "i64": reflect.TypeOf(NamedI64(0)), "f32": reflect.TypeOf(NamedF32(0)), "f64": reflect.TypeOf(NamedF64(0)),
	"a": reflect.TypeOf((*NamedAny)(nil)).Elem(), "[s": reflect.TypeOf(NamedStrs(nil))}

func goType(t string) reflect.Type {
	if strings.HasPrefix(t, "N") {
		if nt, ok := namedTypes[t[1:]]; ok {
			return nt
		}
		panic("bad named type " + t)
	}
	switch t {
	case "s":
		return reflect.TypeOf("")
	case "b":
		return reflect.TypeOf(true)
	case "i":
		return reflect.TypeOf(int(0))
	case "i8":
		return reflect.TypeOf(int8(0))
	case "i16":
		return reflect.TypeOf(int16(0))
	case "i32":
		return reflect.TypeOf(int32(0))
	case "i64":
		return reflect.TypeOf(int64(0))
	case "u":
		return reflect.TypeOf(uint(0))
	case "u8":
		return reflect.TypeOf(uint8(0))
	case "f32":
		return reflect.TypeOf(float32(0))
	case "f64":
		return reflect.TypeOf(float64(0))
	case "a":
		return ifaceType
	case "d":
		return reflect.TypeOf((*decimal.Big)(nil))
	case "t":
		return reflect.TypeOf(time.Time{})
	}
	if strings.HasPrefix(t, "[") {
		return reflect.SliceOf(goType(t[1:]))
	}
	if strings.HasPrefix(t, "{") {
		return reflect.MapOf(reflect.TypeOf(""), goType(t[1:]))
	}
	panic("bad type " + t)
}

// callerKey marks the context the harness hands to Resolve
type callerKey struct{}

type callLog struct {
	calls []string
}

// makeHost builds the Go function for a spec; every invocation is appended to log
func makeHost(h hostSpec, log *callLog) interface{} {
	var in []reflect.Type
	if h.ctx {
		in = append(in, ctxType)
	}
	for i, p := range h.params {
		t := goType(p)
		if h.variadic && i == len(h.params)-1 {
			t = reflect.SliceOf(t)
		}
		in = append(in, t)
	}
	var out []reflect.Type
	switch h.nres {
	case 2:
		out = []reflect.Type{ifaceType, errType}
	case 1:
		out = []reflect.Type{ifaceType}
	default:
		out = []reflect.Type{ifaceType, errType, errType}
	}
	ft := reflect.FuncOf(in, out, h.variadic)
	fn := reflect.MakeFunc(ft, func(args []reflect.Value) []reflect.Value {
		var sb strings.Builder
		fmt.Fprintf(&sb, "%d(", h.id)
		start := 0
		if h.ctx {
			start = 1
			if args[0].IsNil() {
				sb.WriteString("ctx=nil ")
			} else if c, ok := args[0].Interface().(context.Context); !ok || c.Value(callerKey{}) != "the caller's" {
				sb.WriteString("ctx=foreign ") // not the context the caller handed to Resolve
			}
		}
		first := true
		emit := func(v reflect.Value) {
			if !first {
				sb.WriteString(" ")
			}
			first = false
			encVal(&sb, v.Interface())
		}
		for i := start; i < len(args); i++ {
			if h.variadic && i == len(args)-1 {
				for j := 0; j < args[i].Len(); j++ {
					emit(args[i].Index(j))
				}
			} else {
				emit(args[i])
			}
		}
		sb.WriteString(")")
		log.calls = append(log.calls, sb.String())
		res := reflect.Zero(ifaceType)
		if rv := decodeVal(h.result, nil); rv != nil {
			res = reflect.ValueOf(&rv).Elem()
		}
		errv := reflect.Zero(errType)
		if h.fail {
			e := fmt.Errorf("host failure")
			errv = reflect.ValueOf(&e).Elem()
		}
		switch h.nres {
		case 2:
			return []reflect.Value{res, errv}
		case 1:
			return []reflect.Value{res}
		default:
			return []reflect.Value{res, errv, errv}
		}
	})
	return fn.Interface()
}

// ---------- struct values ----------
// A palette of Go struct types.  For each value the fields a selector can read are written down BY HAND next to
// it (Go's promotion rules applied on paper, not through reflection): that list is what the model gets.

type SBase struct {
	ID     int
	Owner  string
	hidden int
}

type SInner struct {
	K int64
	S string
}

type SAcct struct {
	SBase
	Balance float64
	Tags    []interface{}
	Meta    map[string]interface{}
	Ptr     *SBase
	When    time.Time
	Nested  SInner
	Any     interface{}
	Ratio   float32
	Count   int32
	Flag    bool
	secret  string
}

type SPtrEmb struct {
	*SInner
	Name string
}

type SShadow struct {
	SBase
	ID string
}

type SDeep struct {
	SPtrEmb
	Level int32
}

// STagged: struct tags are for encoders; a formula reads fields by their Go names
type STagged struct {
	Name        string
	DisplayName string `json:"Name"`
	Balance     int    `json:"balance"`
	Other       int    `json:"Balance" formula:"Name"`
	Lower       string `json:"lower" xml:"Name,attr"`
}

// two struct types that print alike ("main.row") with the same field names at different positions
func rowA() interface{} {
	type row struct {
		Qty  int
		Part string
	}
	return row{Qty: 7, Part: "nut"}
}

func rowB() interface{} {
	type row struct {
		Part string
		Note string
		Qty  int
	}
	return row{Part: "bolt", Note: "n", Qty: 9}
}

type structEntry struct {
	val    interface{}
	fields []string // name, wire value, ...
}

// sibling embedded structs that promote the same field name: Go's selector takes the SHALLOWEST one (SRow.ID at depth
// 1 wins over SMeta.sAudit.ID at depth 2, whatever the declaration order), and a tie at one depth is no field at all
type sAudit struct{ ID string }
type SMeta struct {
	sAudit
	Rev int
}
type SRow struct {
	ID  int
	Qty int
}
type SDepth struct {
	SMeta
	SRow
	Name string
}
type SAmbigA struct {
	X     int
	OnlyA int
}
type SAmbigB struct {
	X     string
	OnlyB int
}
type SAmbig struct {
	SAmbigA
	SAmbigB
	Y int
}

var structPalette []structEntry

var structTypes = []reflect.Type{reflect.TypeOf(SBase{}), reflect.TypeOf(SInner{}), reflect.TypeOf(SAcct{}), reflect.TypeOf(SPtrEmb{}), reflect.TypeOf(SShadow{}), reflect.TypeOf(SDeep{}),
	reflect.TypeOf(STagged{}), reflect.TypeOf(rowA()), reflect.TypeOf(rowB()), reflect.TypeOf(SDepth{}), reflect.TypeOf(SMeta{}), reflect.TypeOf(SRow{}), reflect.TypeOf(SAmbig{}), reflect.TypeOf(SAmbigA{}), reflect.TypeOf(SAmbigB{})}

func structTypeID(t reflect.Type) int {
	for i, x := range structTypes {
		if x == t {
			return i
		}
	}
	return -1
}

func structWire(id int) string {
	e := structPalette[id]
	type kv struct{ k, v string }
	var es []kv
	for i := 0; i+1 < len(e.fields); i += 2 {
		es = append(es, kv{e.fields[i], e.fields[i+1]})
	}
	sort.Slice(es, func(i, j int) bool { return es[i].k < es[j].k })
	var sb strings.Builder
	fmt.Fprintf(&sb, "R%d.%d:%d", id, structTypeID(reflect.TypeOf(e.val)), len(es))
	for _, x := range es {
		sb.WriteString(" S" + hx([]byte(x.k)) + " " + x.v)
	}
	return sb.String()
}

func init() {
	g := func(s string) string { return "G" + hx([]byte(s)) }
	str := func(s string) string { return "S" + hx([]byte(s)) }
	// 0: SBase{7, "ann"}
	structPalette = append(structPalette, structEntry{SBase{ID: 7, Owner: "ann", hidden: 3}, []string{"ID", "Ii:7", "Owner", str("ann")}})
	// 1: SInner{-5, "in"}
	structPalette = append(structPalette, structEntry{SInner{K: -5, S: "in"}, []string{"K", "Ii64:-5", "S", str("in")}})
	// 2: SAcct embedding SBase{42, "bob"}: ID and Owner are promoted
	acct := SAcct{SBase: SBase{ID: 42, Owner: "bob", hidden: 9}, Balance: 12.5, Tags: []interface{}{"x", 2}, Meta: map[string]interface{}{"k": "v"},
		Ptr: nil, When: time.Unix(86400, 0).UTC(), Nested: SInner{K: 9007199254740993, S: ""}, Any: nil, Ratio: 0.25, Count: -3, Flag: true, secret: "s"}
	structPalette = append(structPalette, structEntry{acct, nil})
	structPalette = append(structPalette, structEntry{SBase{ID: 42, Owner: "bob", hidden: 9}, []string{"ID", "Ii:42", "Owner", str("bob")}})   // 3: the embedded part of 2
	structPalette = append(structPalette, structEntry{SInner{K: 9007199254740993, S: ""}, []string{"K", "Ii64:9007199254740993", "S", str("")}}) // 4: Nested of 2
	structPalette[2].fields = []string{"ID", "Ii:42", "Owner", str("bob"), "SBase", "", "Balance", g("12.5"), "Tags", "A2 " + str("x") + " Ii:2",
		"Meta", "O1 " + str("k") + " " + str("v"), "Ptr", "P", "When", "M86400000000000:0", "Nested", "", "Any", "N", "Ratio", g("0.25"), "Count", "Ii32:-3", "Flag", "T"}
	// 5: SPtrEmb with a non-nil embedded pointer: K and S are promoted through the pointer; the pointer itself is opaque
	structPalette = append(structPalette, structEntry{SPtrEmb{SInner: &SInner{K: 11, S: "p"}, Name: "pe"}, []string{"K", "Ii64:11", "S", str("p"), "Name", str("pe"), "SInner", "X1"}})
	// 6: SPtrEmb with a nil embedded pointer: reading a promoted field panics inside reflect (an error)
	structPalette = append(structPalette, structEntry{SPtrEmb{SInner: nil, Name: "nil"}, []string{"Name", str("nil"), "SInner", "P"}})
	// 7: SShadow: the outer ID hides the promoted one
	structPalette = append(structPalette, structEntry{SShadow{SBase: SBase{ID: 1, Owner: "sh"}, ID: "outer"}, nil})
	structPalette = append(structPalette, structEntry{SBase{ID: 1, Owner: "sh"}, []string{"ID", "Ii:1", "Owner", str("sh")}}) // 8: embedded part of 7
	structPalette[7].fields = []string{"ID", str("outer"), "Owner", str("sh"), "SBase", ""}
	// 9: SDeep: promotion through two levels (SDeep -> SPtrEmb -> *SInner)
	structPalette = append(structPalette, structEntry{SDeep{SPtrEmb: SPtrEmb{SInner: &SInner{K: 77, S: "deep"}, Name: "mid"}, Level: 2}, nil})
	structPalette = append(structPalette, structEntry{SPtrEmb{SInner: &SInner{K: 77, S: "deep"}, Name: "mid"}, []string{"K", "Ii64:77", "S", str("deep"), "Name", str("mid"), "SInner", "X1"}}) // 10
	structPalette[9].fields = []string{"K", "Ii64:77", "S", str("deep"), "Name", str("mid"), "SInner", "X1", "SPtrEmb", "", "Level", "Ii32:2"}
	// 11: tags that name other fields; 12, 13: two types printed alike
	structPalette = append(structPalette, structEntry{STagged{Name: "alice", DisplayName: "Alice A.", Balance: 42, Other: 500, Lower: "lo"},
		[]string{"Name", str("alice"), "DisplayName", str("Alice A."), "Balance", "Ii:42", "Other", "Ii:500", "Lower", str("lo")}})
	structPalette = append(structPalette, structEntry{rowA(), []string{"Qty", "Ii:7", "Part", str("nut")}})
	structPalette = append(structPalette, structEntry{rowB(), []string{"Part", str("bolt"), "Note", str("n"), "Qty", "Ii:9"}})
	// nested struct wires are filled in after all entries exist
	fix := func(id int, name string, sub int) {
		f := structPalette[id].fields
		for i := 0; i+1 < len(f); i += 2 {
			if f[i] == name {
				f[i+1] = structWire(sub)
			}
		}
	}
	// 14: SDepth (ID is SRow's), 15: its SMeta (ID promoted from the unexported sAudit), 16: its SRow; 17: SAmbig (X is
	// ambiguous: absent), 18, 19: its parts
	dp := SDepth{SMeta: SMeta{sAudit: sAudit{ID: "audit-17"}, Rev: 3}, SRow: SRow{ID: 7, Qty: 2}, Name: "dp"}
	structPalette = append(structPalette, structEntry{dp, []string{"ID", "Ii:7", "Qty", "Ii:2", "Rev", "Ii:3", "Name", str("dp"), "SMeta", "", "SRow", ""}})
	structPalette = append(structPalette, structEntry{dp.SMeta, []string{"ID", str("audit-17"), "Rev", "Ii:3"}})
	structPalette = append(structPalette, structEntry{dp.SRow, []string{"ID", "Ii:7", "Qty", "Ii:2"}})
	amb := SAmbig{SAmbigA: SAmbigA{X: 1, OnlyA: 10}, SAmbigB: SAmbigB{X: "b", OnlyB: 20}, Y: 5}
	structPalette = append(structPalette, structEntry{amb, []string{"OnlyA", "Ii:10", "OnlyB", "Ii:20", "Y", "Ii:5", "SAmbigA", "", "SAmbigB", ""}})
	structPalette = append(structPalette, structEntry{amb.SAmbigA, []string{"X", "Ii:1", "OnlyA", "Ii:10"}})
	structPalette = append(structPalette, structEntry{amb.SAmbigB, []string{"X", str("b"), "OnlyB", "Ii:20"}})
	fix(14, "SMeta", 15)
	fix(14, "SRow", 16)
	fix(17, "SAmbigA", 18)
	fix(17, "SAmbigB", 19)
	fix(2, "SBase", 3)
	fix(2, "Nested", 4)
	fix(7, "SBase", 8)
	fix(9, "SPtrEmb", 10)
}
