package main

import (
	"context"
	"fmt"
	"math/big"
	"reflect"
	"sort"
	"strconv"
	"strings"
	"time"

	"github.com/aundis/formula"
	"github.com/ericlagergren/decimal"
)

// Canonical wire format of values (shared with ocaml/driver.ml), space separated prefix code:
//   N | T | F | D<sign>:<coef>:<exp> | Dnan | Dinf | D-inf | S<hex> | I<kind>:<n> | G<hex of spelling>
//   M<ns>:<off> | A<n> v.. | O<n> S<k> v .. (keys sorted) | H<id> | B<hex name> | P | C | X<tag>

var builtinPtr = map[uintptr]string{}

func init() {
	for name, f := range formula.VerifBuiltins() {
		if reflect.TypeOf(f).Kind() == reflect.Func {
			builtinPtr[reflect.ValueOf(f).Pointer()] = name
		}
	}
}

// decTriple: sign, coefficient, exponent of a finite decimal, normalised (no trailing zeros)
func decCanon(x *decimal.Big) string {
	if x == nil {
		return "P"
	}
	if x.IsNaN(0) {
		return "Dnan"
	}
	if x.IsInf(0) {
		if x.Signbit() {
			return "D-inf"
		}
		return "Dinf"
	}
	s := x.String()
	neg := false
	if strings.HasPrefix(s, "-") {
		neg, s = true, s[1:]
	}
	exp := 0
	if i := strings.IndexAny(s, "eE"); i >= 0 {
		e, err := strconv.Atoi(s[i+1:])
		if err != nil {
			return "X"
		}
		exp, s = e, s[:i]
	}
	if i := strings.IndexByte(s, '.'); i >= 0 {
		exp -= len(s) - i - 1
		s = s[:i] + s[i+1:]
	}
	c, ok := new(big.Int).SetString(s, 10)
	if !ok {
		return "X"
	}
	return canonTriple(neg, c, exp)
}

func canonTriple(neg bool, c *big.Int, exp int) string {
	if c.Sign() == 0 {
		return "D+:0:0"
	}
	ten := big.NewInt(10)
	q, r := new(big.Int), new(big.Int)
	for {
		q.QuoRem(c, ten, r)
		if r.Sign() != 0 {
			break
		}
		c = new(big.Int).Set(q)
		exp++
	}
	sg := "+"
	if neg {
		sg = "-"
	}
	return fmt.Sprintf("D%s:%s:%d", sg, c.String(), exp)
}

type hostReg struct {
	ids map[uintptr]int
}

var curHosts = map[uintptr]int{}

func encVal(sb *strings.Builder, v interface{}) { encValDepth(sb, v, 0) }

func encValDepth(sb *strings.Builder, v interface{}, depth int) {
	if depth > 12 {
		sb.WriteString("X")
		return
	}
	encVal := func(sb *strings.Builder, v interface{}) { encValDepth(sb, v, depth+1) }
	switch x := v.(type) {
	case nil:
		sb.WriteString("N")
	case bool:
		if x {
			sb.WriteString("T")
		} else {
			sb.WriteString("F")
		}
	case *decimal.Big:
		sb.WriteString(decCanon(x))
	case string:
		sb.WriteString("S" + hx([]byte(x)))
	case time.Time:
		_, off := x.Zone()
		sec := x.Unix()
		ns := new(big.Int).Mul(big.NewInt(sec), big.NewInt(1000000000))
		ns.Add(ns, big.NewInt(int64(x.Nanosecond())))
		fmt.Fprintf(sb, "M%s:%d", ns.String(), off)
	case []interface{}:
		fmt.Fprintf(sb, "A%d", len(x))
		for _, e := range x {
			sb.WriteByte(' ')
			encVal(sb, e)
		}
	case map[string]interface{}:
		keys := make([]string, 0, len(x))
		for k := range x {
			keys = append(keys, k)
		}
		sort.Strings(keys)
		fmt.Fprintf(sb, "O%d", len(x))
		for _, k := range keys {
			sb.WriteString(" S" + hx([]byte(k)) + " ")
			encVal(sb, x[k])
		}
	case int:
		fmt.Fprintf(sb, "Ii:%d", x)
	case int8:
		fmt.Fprintf(sb, "Ii8:%d", x)
	case int16:
		fmt.Fprintf(sb, "Ii16:%d", x)
	case int32:
		fmt.Fprintf(sb, "Ii32:%d", x)
	case int64:
		fmt.Fprintf(sb, "Ii64:%d", x)
	case uint:
		fmt.Fprintf(sb, "Iu:%d", x)
	case uint8:
		fmt.Fprintf(sb, "Iu8:%d", x)
	case uint16:
		fmt.Fprintf(sb, "Iu16:%d", x)
	case uint32:
		fmt.Fprintf(sb, "Iu32:%d", x)
	case uint64:
		fmt.Fprintf(sb, "Iu64:%d", x)
	case float64:
		sb.WriteString("G" + hx([]byte(strconv.FormatFloat(x, 'f', -1, 64))))
	case float32:
		sb.WriteString("G" + hx([]byte(strconv.FormatFloat(float64(x), 'f', -1, 64))))
	case context.Context:
		sb.WriteString("C")
	default:
		rv := reflect.ValueOf(v)
		switch rv.Kind() {
		case reflect.Func:
			p := rv.Pointer()
			if n, ok := builtinPtr[p]; ok {
				sb.WriteString("B" + hx([]byte(n)))
			} else {
				sb.WriteString("H") // host functions are not told apart in observations
			}
		case reflect.Ptr:
			if rv.IsNil() {
				sb.WriteString("P")
			} else {
				sb.WriteString("X")
			}
		case reflect.Slice:
			// typed slices are rendered like []interface{} (only produced by conversions)
			fmt.Fprintf(sb, "A%d", rv.Len())
			for i := 0; i < rv.Len(); i++ {
				sb.WriteByte(' ')
				encVal(sb, rv.Index(i).Interface())
			}
		case reflect.Map:
			if rv.Type().Key().Kind() == reflect.String {
				keys := rv.MapKeys()
				sort.Slice(keys, func(i, j int) bool { return keys[i].String() < keys[j].String() })
				fmt.Fprintf(sb, "O%d", len(keys))
				for _, k := range keys {
					sb.WriteString(" S" + hx([]byte(k.String())) + " ")
					encVal(sb, rv.MapIndex(k).Interface())
				}
			} else {
				sb.WriteString("X")
			}
		default:
			sb.WriteString("X")
		}
	}
}

func enc(v interface{}) string {
	var sb strings.Builder
	encVal(&sb, v)
	return sb.String()
}

// ---- decoding a wire value back into a Go value (used to build data maps from a case line)

type valParser struct {
	toks  []string
	i     int
	hosts map[int]interface{}
}

func (p *valParser) next() string { t := p.toks[p.i]; p.i++; return t }

func (p *valParser) val() interface{} {
	t := p.next()
	switch t[0] {
	case 'N':
		return nil
	case 'T':
		return true
	case 'F':
		return false
	case 'D':
		switch t {
		case "Dnan":
			return decimal.WithContext(decimal.Context128).SetNaN(false)
		case "Dinf":
			return decimal.WithContext(decimal.Context128).SetInf(false)
		case "D-inf":
			return decimal.WithContext(decimal.Context128).SetInf(true)
		}
		f := strings.Split(t[1:], ":")
		s := f[1] + "e" + f[2]
		if f[0] == "-" {
			s = "-" + s
		}
		d, _ := decimal.WithContext(decimal.Context128).SetString(s)
		return d
	case 'S':
		return string(unhx(t[1:]))
	case 'I':
		f := strings.Split(t[1:], ":")
		n, _ := strconv.ParseInt(f[1], 10, 64)
		switch f[0] {
		case "i":
			return int(n)
		case "i8":
			return int8(n)
		case "i16":
			return int16(n)
		case "i32":
			return int32(n)
		case "i64":
			return int64(n)
		case "u":
			u, _ := strconv.ParseUint(f[1], 10, 64)
			return uint(u)
		case "u8":
			return uint8(n)
		case "u16":
			return uint16(n)
		case "u32":
			return uint32(n)
		case "u64":
			u, _ := strconv.ParseUint(f[1], 10, 64)
			return uint64(u)
		}
	case 'G':
		fl, _ := strconv.ParseFloat(string(unhx(t[1:])), 64)
		return fl
	case 'M':
		f := strings.Split(t[1:], ":")
		ns, _ := new(big.Int).SetString(f[0], 10)
		off, _ := strconv.Atoi(f[1])
		sec, nsec := new(big.Int), new(big.Int)
		sec.DivMod(ns, big.NewInt(1000000000), nsec)
		loc := time.UTC
		if off != 0 {
			loc = time.FixedZone("", off)
		}
		return time.Unix(sec.Int64(), nsec.Int64()).In(loc)
	case 'A':
		n, _ := strconv.Atoi(t[1:])
		out := make([]interface{}, 0, n)
		for j := 0; j < n; j++ {
			out = append(out, p.val())
		}
		return out
	case 'O':
		n, _ := strconv.Atoi(t[1:])
		out := map[string]interface{}{}
		for j := 0; j < n; j++ {
			k := p.next()
			out[string(unhx(k[1:]))] = p.val()
		}
		return out
	case 'Q':
		n, _ := strconv.Atoi(t[1:])
		out := map[string]int{}
		for j := 0; j < n; j++ {
			k := p.next()
			v, _ := p.val().(int)
			out[string(unhx(k[1:]))] = v
		}
		return out
	case 'H':
		id, _ := strconv.Atoi(t[1:])
		return p.hosts[id]
	case 'P':
		return (*int)(nil)
	case 'C':
		return context.Background()
	case 'X':
		return struct{ A int }{1}
	}
	panic("bad value token " + t)
}

func decodeVal(s string, hosts map[int]interface{}) interface{} {
	p := &valParser{toks: strings.Fields(s), hosts: hosts}
	return p.val()
}

// ---- host functions synthesised from a textual signature

type hostSpec struct {
	id       int
	ctx      bool
	variadic bool
	nres     int
	fail     bool
	params   []string
	result   string // wire value
}

func (h hostSpec) String() string {
	b := func(x bool) string {
		if x {
			return "1"
		}
		return "0"
	}
	ps := strings.Join(h.params, ",")
	if ps == "" {
		ps = "-"
	}
	return fmt.Sprintf("%d:%s:%s:%d:%s:%s:%s", h.id, b(h.ctx), b(h.variadic), h.nres, b(h.fail), ps, strings.ReplaceAll(h.result, " ", "_"))
}

func parseHostSpec(s string) hostSpec {
	f := strings.Split(s, ":")
	var h hostSpec
	h.id, _ = strconv.Atoi(f[0])
	h.ctx = f[1] == "1"
	h.variadic = f[2] == "1"
	h.nres, _ = strconv.Atoi(f[3])
	h.fail = f[4] == "1"
	if f[5] != "-" {
		h.params = strings.Split(f[5], ",")
	}
	h.result = strings.ReplaceAll(strings.Join(f[6:], ":"), "_", " ")
	return h
}

var ctxType = reflect.TypeOf((*context.Context)(nil)).Elem()
var errType = reflect.TypeOf((*error)(nil)).Elem()
var ifaceType = reflect.TypeOf((*interface{})(nil)).Elem()

func goType(t string) reflect.Type {
	switch t {
	case "s":
		return reflect.TypeOf("")
	case "b":
		return reflect.TypeOf(true)
	case "i":
		return reflect.TypeOf(int(0))
	case "i8":
		return reflect.TypeOf(int8(0))
	case "i16":
		return reflect.TypeOf(int16(0))
	case "i32":
		return reflect.TypeOf(int32(0))
	case "i64":
		return reflect.TypeOf(int64(0))
	case "u":
		return reflect.TypeOf(uint(0))
	case "u8":
		return reflect.TypeOf(uint8(0))
	case "f32":
		return reflect.TypeOf(float32(0))
	case "f64":
		return reflect.TypeOf(float64(0))
	case "a":
		return ifaceType
	case "d":
		return reflect.TypeOf((*decimal.Big)(nil))
	case "t":
		return reflect.TypeOf(time.Time{})
	}
	if strings.HasPrefix(t, "[") {
		return reflect.SliceOf(goType(t[1:]))
	}
	if strings.HasPrefix(t, "{") {
		return reflect.MapOf(reflect.TypeOf(""), goType(t[1:]))
	}
	panic("bad type " + t)
}

type callLog struct {
	calls []string
}

// makeHost builds the Go function for a spec; every invocation is appended to log
func makeHost(h hostSpec, log *callLog) interface{} {
	var in []reflect.Type
	if h.ctx {
		in = append(in, ctxType)
	}
	for i, p := range h.params {
		t := goType(p)
		if h.variadic && i == len(h.params)-1 {
			t = reflect.SliceOf(t)
		}
		in = append(in, t)
	}
	var out []reflect.Type
	switch h.nres {
	case 2:
		out = []reflect.Type{ifaceType, errType}
	case 1:
		out = []reflect.Type{ifaceType}
	default:
		out = []reflect.Type{ifaceType, errType, errType}
	}
	ft := reflect.FuncOf(in, out, h.variadic)
	fn := reflect.MakeFunc(ft, func(args []reflect.Value) []reflect.Value {
		var sb strings.Builder
		fmt.Fprintf(&sb, "%d(", h.id)
		start := 0
		if h.ctx {
			start = 1
			if args[0].IsNil() {
				sb.WriteString("ctx=nil ")
			}
		}
		first := true
		emit := func(v reflect.Value) {
			if !first {
				sb.WriteString(" ")
			}
			first = false
			encVal(&sb, v.Interface())
		}
		for i := start; i < len(args); i++ {
			if h.variadic && i == len(args)-1 {
				for j := 0; j < args[i].Len(); j++ {
					emit(args[i].Index(j))
				}
			} else {
				emit(args[i])
			}
		}
		sb.WriteString(")")
		log.calls = append(log.calls, sb.String())
		res := reflect.Zero(ifaceType)
		if rv := decodeVal(h.result, nil); rv != nil {
			res = reflect.ValueOf(&rv).Elem()
		}
		errv := reflect.Zero(errType)
		if h.fail {
			e := fmt.Errorf("host failure")
			errv = reflect.ValueOf(&e).Elem()
		}
		switch h.nres {
		case 2:
			return []reflect.Value{res, errv}
		case 1:
			return []reflect.Value{res}
		default:
			return []reflect.Value{res, errv, errv}
		}
	})
	return fn.Interface()
}
