package main

import (
	"reflect"
	"time"
	"fmt"
	"os"
	"path/filepath"
	"sort"
	"strings"
	"unicode/utf8"

	"github.com/aundis/formula"
	"github.com/ericlagergren/decimal"
)

// dumpTables executes every finite-domain function of the implementation over its whole domain and
// writes the results as Coq definitions (Gen/ImplTables.v).  Nothing here is sampled.
func dumpTables(dir string) {
	var sb strings.Builder
	sb.WriteString("(* GENERATED on every run by /verif/harness (tables.go) from /repo's working tree. Do not edit. *)\n")
	sb.WriteString("From Coq Require Import List ZArith Bool.\nImport ListNotations.\nOpen Scope Z_scope.\n\n")

	b := func(x bool) string {
		if x {
			return "true"
		}
		return "false"
	}
	// ---- per token kind
	sb.WriteString("(* kind code, binary precedence, isStartOfExpression, isListElement(args), isListElement(array),\n   isListTerminator(args), isListTerminator(array), IsAssignmentOperator, IsKeyword, IsIdentifier *)\n")
	sb.WriteString("Definition impl_kind_table : list (Z * Z * (bool * bool * bool * bool * bool) * (bool * bool * bool)) :=\n  [")
	for k := formula.SyntaxKind(0); k < formula.SK_Count; k++ {
		if k > 0 {
			sb.WriteString(";\n   ")
		}
		fmt.Fprintf(&sb, "(%d, %d, (%s, %s, %s, %s, %s), (%s, %s, %s))", int(k), formula.VerifBinaryPrecedence(k),
			b(formula.VerifIsStartOfExpression(k)), b(formula.VerifIsListElement(0, k)), b(formula.VerifIsListElement(1, k)),
			b(formula.VerifIsListTerminator(0, k)), b(formula.VerifIsListTerminator(1, k)),
			b(k.IsAssignmentOperator()), b(k.IsKeyword()), b(k.IsIdentifier()))
	}
	sb.WriteString("].\n\n")
	// ---- keywords
	kw := formula.VerifKeywords()
	var names []string
	for n := range kw {
		names = append(names, n)
	}
	sort.Strings(names)
	sb.WriteString("Definition impl_keywords : list (list Z * Z) :=\n  [")
	for i, n := range names {
		if i > 0 {
			sb.WriteString("; ")
		}
		fmt.Fprintf(&sb, "(%s, %d)", coqBytes([]byte(n)), int(kw[n]))
	}
	sb.WriteString("].\n\n")
	// ---- character classes over all code points, as maximal ranges
	classes := []struct {
		name string
		f    func(rune) bool
	}{
		{"impl_white_space", formula.IsWhiteSpace}, {"impl_line_break", formula.IsLineBreak}, {"impl_digit", formula.IsDigit},
		{"impl_ident_start", formula.IsIdentifierStart}, {"impl_ident_part", formula.IsIdentifierPart},
	}
	for _, c := range classes {
		fmt.Fprintf(&sb, "Definition %s : list (Z * Z) :=\n  [", c.name)
		first := true
		in := false
		start := rune(0)
		for r := rune(0); r <= 0x110000; r++ {
			v := r <= 0x10FFFF && c.f(r)
			if v && !in {
				in, start = true, r
			} else if !v && in {
				in = false
				if !first {
					sb.WriteString("; ")
				}
				first = false
				fmt.Fprintf(&sb, "(%d, %d)", start, r-1)
			}
		}
		sb.WriteString("].\n\n")
	}
	// ---- operator dispatch: first token of every string of 1..3 punctuation characters
	punct := []byte("!=<>&|?.+-*/%^~()[],:")
	sb.WriteString("(* text, kind of the first token, its length *)\nDefinition impl_op_dispatch : list (list Z * Z * Z) :=\n  [")
	first := true
	enumSeq(len(punct), 3, func(idx []int) {
		if len(idx) == 0 {
			return
		}
		var text []byte
		for _, i := range idx {
			text = append(text, punct[i])
		}
		s := formula.CreateScanner(text, nil)
		s.Scan()
		if !first {
			sb.WriteString(";\n   ")
		}
		first = false
		fmt.Fprintf(&sb, "(%s, %d, %d)", coqBytes(text), int(s.GetToken()), s.GetTextPos()-s.GetTokenPos())
	})
	sb.WriteString("].\n\n")
	// ---- escape table: value of '\c' for every code point c (valid scalar values, except those that start
	//      a hexadecimal escape); only the entries that differ from the character itself are listed
	sb.WriteString("(* c, value of the literal '\\c' : all code points whose escape is not the character itself *)\nDefinition impl_escapes : list (Z * list Z) :=\n  [")
	first = true
	identity := 0
	for r := rune(0); r <= 0x10FFFF; r++ {
		if r >= 0xD800 && r <= 0xDFFF {
			continue
		}
		if r == 'u' || r == 'x' {
			continue
		}
		var buf [4]byte
		n := utf8.EncodeRune(buf[:], r)
		text := append([]byte{'\'', '\\'}, buf[:n]...)
		text = append(text, 'Z', '\'')
		s := formula.CreateScanner(text, nil)
		s.Scan()
		val := s.GetTokenValue()
		if s.GetToken() == formula.SK_StringLiteral && val == string(buf[:n])+"Z" {
			identity++
			continue
		}
		if !first {
			sb.WriteString("; ")
		}
		first = false
		fmt.Fprintf(&sb, "(%d, %s)", r, coqBytes([]byte(val)))
	}
	sb.WriteString("].\n")
	fmt.Fprintf(&sb, "Definition impl_escapes_identity_count : Z := %d.\n\n", identity)
	// ---- diagnostic codes
	sb.WriteString("Definition impl_diag_codes : list Z :=\n  [")
	msgs := []*formula.DiagnosticMessage{formula.M_Invalid_character, formula.M_Digit_expected, formula.M_0_expected,
		formula.M_Identifier_expected, formula.M_Hexadecimal_digit_expected, formula.M_Expression_expected,
		formula.M_Argument_expression_expected, formula.M_Expression_or_comma_expected, formula.M_Unexpected_end_of_text,
		formula.M_Unterminated_string_literal, formula.M_Multiple_consecutive_numeric_separators_are_not_permitted,
		formula.M_Numeric_separators_are_not_allowed_here,
		formula.M_An_identifier_or_keyword_cannot_immediately_follow_a_numeric_literal, formula.M_Trailing_comma_not_allowed}
	for i, m := range msgs {
		if i > 0 {
			sb.WriteString("; ")
		}
		fmt.Fprintf(&sb, "%d", m.Code)
	}
	sb.WriteString("].\n\n")
	// ---- case mapping of the builtins upper / lower on every code point (one-character strings), as maximal
	// ranges (lo, hi, delta); a result that is not one character is listed with delta 0 under impl_case_odd
	bt := formula.VerifBuiltins()
	var odd []string
	for _, nm := range []string{"upper", "lower"} {
		fn := reflect.ValueOf(bt[nm])
		type rg struct{ lo, hi, d rune }
		var out []rg
		for c := rune(0); c <= 0x10FFFF; c++ {
			if c >= 0xD800 && c <= 0xDFFF {
				continue
			}
			res := fn.Call([]reflect.Value{reflect.ValueOf(string(c))})
			str, _ := res[0].Interface().(string)
			rs := []rune(str)
			if len(rs) != 1 || !res[1].IsNil() || (rs[0] == 0xFFFD && c != 0xFFFD) {
				odd = append(odd, fmt.Sprintf("%d", c))
				continue
			}
			d := rs[0] - c
			if d == 0 {
				continue
			}
			if n := len(out); n > 0 && out[n-1].hi == c-1 && out[n-1].d == d {
				out[n-1].hi = c
			} else {
				out = append(out, rg{c, c, d})
			}
		}
		fmt.Fprintf(&sb, "Definition impl_%s_ranges : list (Z * Z * Z) :=\n  [", nm)
		for i, r := range out {
			if i > 0 {
				sb.WriteString("; ")
			}
			fmt.Fprintf(&sb, "(%d, %d, %d)", r.lo, r.hi, r.d)
		}
		sb.WriteString("].\n")
	}
	fmt.Fprintf(&sb, "Definition impl_case_odd : list Z := [%s].\n", strings.Join(odd, "; "))
	os.MkdirAll(dir, 0o755)
	if err := os.WriteFile(filepath.Join(dir, "ImplTables.v"), []byte(sb.String()), 0o644); err != nil {
		panic(err)
	}
	dumpBuiltinSigs(dir, bt)
}

// dumpBuiltinSigs writes the builtin table of the running library - every name with the Go type of its entry, read
// by reflection - as Coq terms of the model's signature type (Gen/ImplBuiltins.v)
func dumpBuiltinSigs(dir string, bt map[string]interface{}) {
	var goType func(t reflect.Type) string
	goType = func(t reflect.Type) string {
		switch {
		case t == reflect.TypeOf((*decimalBigPtr)(nil)).Elem().Field(0).Type:
			return "TDec"
		case t == reflect.TypeOf(timeZero):
			return "TTime"
		}
		switch t.Kind() {
		case reflect.String:
			return "TString"
		case reflect.Bool:
			return "TBool"
		case reflect.Int:
			return "(TInt GInt)"
		case reflect.Int8:
			return "(TInt GInt8)"
		case reflect.Int16:
			return "(TInt GInt16)"
		case reflect.Int32:
			return "(TInt GInt32)"
		case reflect.Int64:
			return "(TInt GInt64)"
		case reflect.Uint:
			return "(TInt GUint)"
		case reflect.Uint8:
			return "(TInt GUint8)"
		case reflect.Uint16:
			return "(TInt GUint16)"
		case reflect.Uint32:
			return "(TInt GUint32)"
		case reflect.Uint64:
			return "(TInt GUint64)"
		case reflect.Uintptr:
			return "(TInt GUintptr)"
		case reflect.Float32:
			return "(TFloat true)"
		case reflect.Float64:
			return "(TFloat false)"
		case reflect.Interface:
			if t.NumMethod() == 0 {
				return "TIface"
			}
		case reflect.Slice:
			return "(TSlice " + goType(t.Elem()) + ")"
		case reflect.Map:
			if t.Key().Kind() == reflect.String {
				return "(TMapStr " + goType(t.Elem()) + ")"
			}
		}
		return "TOther"
	}
	var names []string
	for n := range bt {
		names = append(names, n)
	}
	sort.Strings(names)
	var sb strings.Builder
	sb.WriteString("(* GENERATED on every run by /verif/harness (tables.go) from /repo's working tree. Do not edit. *)\n")
	sb.WriteString("From Coq Require Import List ZArith Bool.\nFrom Formula Require Import Sem.Value.\nImport ListNotations.\nOpen Scope Z_scope.\n\n")
	sb.WriteString("(* every function of the builtin table: name, signature (leading context, parameter types, variadic, number of results) *)\n")
	sb.WriteString("Definition impl_builtin_sigs : list (list Z * gosig) :=\n  [")
	var others []string
	first := true
	for _, n := range names {
		t := reflect.TypeOf(bt[n])
		if t == nil || t.Kind() != reflect.Func {
			others = append(others, coqBytes([]byte(n)))
			continue
		}
		ctx := false
		var ps []string
		for i := 0; i < t.NumIn(); i++ {
			pt := t.In(i)
			if i == 0 && pt.Kind() == reflect.Interface && pt.String() == "context.Context" {
				ctx = true
				continue
			}
			if t.IsVariadic() && i == t.NumIn()-1 {
				ps = append(ps, "(TSlice "+goType(pt.Elem())+")")
				continue
			}
			ps = append(ps, goType(pt))
		}
		if !first {
			sb.WriteString(";\n   ")
		}
		first = false
		bv := func(x bool) string {
			if x {
				return "true"
			}
			return "false"
		}
		fmt.Fprintf(&sb, "(%s, mkSig %s [%s] %s %d)", coqBytes([]byte(n)), bv(ctx), strings.Join(ps, "; "), bv(t.IsVariadic()), t.NumOut())
	}
	sb.WriteString("].\n\n(* entries of the table that are not functions *)\n")
	fmt.Fprintf(&sb, "Definition impl_builtin_values : list (list Z) := [%s].\n", strings.Join(others, "; "))
	if err := os.WriteFile(filepath.Join(dir, "ImplBuiltins.v"), []byte(sb.String()), 0o644); err != nil {
		panic(err)
	}
}

type decimalBigPtr struct{ p *decimal.Big }

var timeZero time.Time

func coqBytes(b []byte) string {
	var parts []string
	for _, x := range b {
		parts = append(parts, fmt.Sprint(int(x)))
	}
	return "[" + strings.Join(parts, "; ") + "]"
}
