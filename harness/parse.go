package main

import (
	"fmt"
	"regexp"
	"strings"

	"github.com/aundis/formula"
)

func init() {
	suites["parse"] = suiteParse
	replays["PA"] = func(c string) string {
		f := strings.Split(c, "\t")
		obs, _ := implParse(unhx(f[1]))
		return obs
	}
}

// printTree renders a tree canonically with source ranges (same format as the OCaml driver)
func printTree(sb *strings.Builder, n formula.Expression) {
	switch e := n.(type) {
	case *formula.Identifier:
		fmt.Fprintf(sb, "(I %d %s %d %d)", int(e.OriginalToken), hx([]byte(e.Value)), e.Pos(), e.End())
	case *formula.LiteralExpression:
		fmt.Fprintf(sb, "(L %d %s %d %d)", int(e.Token), hx([]byte(e.Value)), e.Pos(), e.End())
	case *formula.PrefixUnaryExpression:
		fmt.Fprintf(sb, "(P %d %d %d ", int(e.Operator.Token), e.Operator.Pos(), e.Operator.End())
		printTree(sb, e.Operand)
		fmt.Fprintf(sb, " %d %d)", e.Pos(), e.End())
	case *formula.TypeOfExpression:
		sb.WriteString("(T ")
		printTree(sb, e.Expression)
		fmt.Fprintf(sb, " %d %d)", e.Pos(), e.End())
	case *formula.BinaryExpression:
		sb.WriteString("(B ")
		printTree(sb, e.Left)
		fmt.Fprintf(sb, " %d %d %d ", int(e.Operator.Token), e.Operator.Pos(), e.Operator.End())
		printTree(sb, e.Right)
		fmt.Fprintf(sb, " %d %d)", e.Pos(), e.End())
	case *formula.ConditionalExpression:
		sb.WriteString("(C ")
		printTree(sb, e.Condition)
		fmt.Fprintf(sb, " %d %d ", e.QuestionTok.Pos(), e.QuestionTok.End())
		printTree(sb, e.WhenTrue)
		fmt.Fprintf(sb, " %d %d %d ", int(e.ColonTok.Token), e.ColonTok.Pos(), e.ColonTok.End())
		printTree(sb, e.WhenFalse)
		fmt.Fprintf(sb, " %d %d)", e.Pos(), e.End())
	case *formula.ArrayLiteralExpression:
		sb.WriteString("(A [")
		for i := 0; i < e.Elements.Len(); i++ {
			if i > 0 {
				sb.WriteByte(' ')
			}
			printTree(sb, e.Elements.At(i))
		}
		fmt.Fprintf(sb, "] %d %d %d %d)", e.Elements.Pos(), e.Elements.End(), e.Pos(), e.End())
	case *formula.ParenthesizedExpression:
		sb.WriteString("(G ")
		printTree(sb, e.Expression)
		fmt.Fprintf(sb, " %d %d)", e.Pos(), e.End())
	case *formula.SelectorExpression:
		sb.WriteString("(S ")
		printTree(sb, e.Expression)
		sb.WriteByte(' ')
		printTree(sb, e.Name)
		a := 0
		if e.Assert {
			a = 1
		}
		fmt.Fprintf(sb, " %d %d %d)", a, e.Pos(), e.End())
	case *formula.CallExpression:
		sb.WriteString("(F ")
		printTree(sb, e.Expression)
		sb.WriteString(" [")
		if e.Arguments == nil {
			sb.WriteString("nil")
		} else {
			for i := 0; i < e.Arguments.Len(); i++ {
				if i > 0 {
					sb.WriteByte(' ')
				}
				printTree(sb, e.Arguments.At(i))
			}
		}
		lp, le := -1, -1
		if e.Arguments != nil {
			lp, le = e.Arguments.Pos(), e.Arguments.End()
		}
		sp := "-"
		if e.DotDotDotToken != nil {
			sp = fmt.Sprintf("%d/%d", e.DotDotDotToken.Pos(), e.DotDotDotToken.End())
		}
		fmt.Fprintf(sb, "] %d %d %s %d %d)", lp, le, sp, e.Pos(), e.End())
	case nil:
		sb.WriteString("(nil)")
	default:
		fmt.Fprintf(sb, "(?%T)", n)
	}
}

var errRe = regexp.MustCompile(`^pos\((\d+), (\d+)\) error\((\d+)\) `)

// implParse: observation "A <tree>" or "R <line>,<col>,<code>|<diagnostics>|<tree>" or "X <form>" for
// an error that is not of the documented form; plus oracle failures (C01/C15) found on the implementation.
func implParse(text []byte) (string, []string) {
	var src *formula.SourceCode
	var err error
	var fails []string
	ar := newArena(text)
	pan, msg := protect(func() { src, err = formula.ParseSourceCode(ar.text) })
	if pan {
		return "panic", []string{"ParseSourceCode panicked: " + msg}
	}
	if m := ar.check(); m != "" {
		fails = append(fails, m)
	}
	var sb strings.Builder
	if err == nil {
		if src == nil || src.Expression == nil {
			return "A (nil)", []string{"no error but no tree"}
		}
		fails = append(fails, checkComplete(src, text)...)
		ar.scribble() // names and literal values of the tree are the tree's own
		sb.WriteString("A ")
		printTree(&sb, src.Expression)
		return sb.String(), fails
	}
	m := errRe.FindStringSubmatch(err.Error())
	if m == nil {
		return "X " + hx([]byte(err.Error())), []string{"syntax error not of the form pos(line, column) error(code) message: " + err.Error()}
	}
	fmt.Fprintf(&sb, "R %s,%s,%s|", m[1], m[2], m[3])
	if src != nil {
		for i, d := range src.Diagnostics {
			if i > 0 {
				sb.WriteByte(',')
			}
			fmt.Fprintf(&sb, "%d/%d/%d", d.Start, d.Length, d.Code)
			if d.Start < 0 || d.Length < 0 || d.Start+d.Length > len(text) {
				fails = append(fails, fmt.Sprintf("diagnostic %d (start %d, length %d) lies outside the text of length %d", i, d.Start, d.Length, len(text)))
			}
		}
		sb.WriteByte('|')
		printTree(&sb, src.Expression)
	} else {
		sb.WriteString("nosource|")
	}
	return sb.String(), fails
}

// checkComplete: C01 oracle on an accepted tree - operands present, names non-empty, lists present,
// whole input consumed; C15 oracle - ranges inside the text, children nested in source order.
func checkComplete(src *formula.SourceCode, text []byte) []string {
	var fails []string
	bad := func(f string, a ...interface{}) { fails = append(fails, fmt.Sprintf(f, a...)) }
	var walk func(n formula.Expression, lo, hi int) // lo/hi: enclosing range
	rng := func(n formula.Node, lo, hi int, what string) {
		if n.Pos() < lo || n.End() > hi || n.Pos() > n.End() {
			bad("%s range [%d,%d) not inside [%d,%d)", what, n.Pos(), n.End(), lo, hi)
		}
	}
	isNil := func(n formula.Expression) bool { return n == nil || formula.IsNull(n) }
	walk = func(n formula.Expression, lo, hi int) {
		if isNil(n) {
			bad("missing operand (nil node)")
			return
		}
		rng(n, lo, hi, fmt.Sprintf("%T", n))
		switch e := n.(type) {
		case *formula.Identifier:
			if e.Value == "" || e.Pos() == e.End() {
				bad("empty name in accepted tree at %d", e.Pos())
			}
		case *formula.LiteralExpression:
		case *formula.PrefixUnaryExpression:
			if e.Operator == nil {
				bad("prefix without operator")
				return
			}
			rng(e.Operator, e.Pos(), e.End(), "prefix operator")
			walk(e.Operand, e.Operator.End(), e.End())
		case *formula.TypeOfExpression:
			walk(e.Expression, e.Pos(), e.End())
		case *formula.BinaryExpression:
			if e.Operator == nil {
				bad("binary without operator")
				return
			}
			walk(e.Left, e.Pos(), e.Operator.Pos())
			rng(e.Operator, e.Pos(), e.End(), "binary operator")
			walk(e.Right, e.Operator.End(), e.End())
		case *formula.ConditionalExpression:
			if e.QuestionTok == nil || e.ColonTok == nil {
				bad("conditional without tokens")
				return
			}
			if e.ColonTok.Token != formula.SK_Colon {
				bad("conditional with missing colon in accepted tree")
			}
			walk(e.Condition, e.Pos(), e.QuestionTok.Pos())
			walk(e.WhenTrue, e.QuestionTok.End(), e.ColonTok.Pos())
			walk(e.WhenFalse, e.ColonTok.End(), e.End())
		case *formula.ArrayLiteralExpression:
			if e.Elements == nil {
				bad("array without element list")
				return
			}
			prev := e.Pos()
			for i := 0; i < e.Elements.Len(); i++ {
				walk(e.Elements.At(i), prev, e.End())
				if !isNil(e.Elements.At(i)) {
					prev = e.Elements.At(i).End()
				}
			}
		case *formula.ParenthesizedExpression:
			walk(e.Expression, e.Pos(), e.End())
		case *formula.SelectorExpression:
			walk(e.Expression, e.Pos(), e.End())
			if e.Name == nil {
				bad("selector without name")
				return
			}
			walk(e.Name, e.Expression.End(), e.End())
		case *formula.CallExpression:
			walk(e.Expression, e.Pos(), e.End())
			if e.Arguments == nil {
				bad("call without argument list")
				return
			}
			prev := e.Expression.End()
			for i := 0; i < e.Arguments.Len(); i++ {
				walk(e.Arguments.At(i), prev, e.End())
				if !isNil(e.Arguments.At(i)) {
					prev = e.Arguments.At(i).End()
				}
			}
		default:
			bad("unknown node type %T", n)
		}
	}
	walk(src.Expression, 0, len(text))
	// whole input consumed: only whitespace may follow the tree
	if !isNil(src.Expression) {
		for _, r := range string(text[src.Expression.End():]) {
			if !(formula.IsWhiteSpace(r) || formula.IsLineBreak(r)) {
				bad("input not consumed: %q left after the tree", string(text[src.Expression.End():]))
				break
			}
		}
	}
	return fails
}

var parseLex = []string{
	"a", "$b", "1", "'s'", "null", "true", "this", "typeof", "(", ")", "[", "]", ",", ".", "!.", "...", "=", "?", ":",
	"+", "-", "!", "!!", "~", "*", "/", "%", "<", "<=", "==", "===", "!=", "!==", "&&", "||", "??", "&", "|", "^", ">", ">=",
	"#", "1a", "'x", "0x1", "f", "false", "ctx", "True", "nullx", "1_", "1__2", "1e", "0xg", "'\\xg'", "1_a",
}

func suiteParse(o *Out, thorough bool, seed int64) {
	emit := func(text []byte, nontrivial bool) {
		obs, fails := implParse(text)
		line := "PA\t" + hx(text)
		o.Case(line, obs, nontrivial)
		o.Stat(obs[:1])
		for _, f := range fails {
			o.Fail(line, f)
		}
	}
	maxLen := 3
	enumSeq(len(parseLex), maxLen, func(idx []int) {
		var parts []string
		for _, i := range idx {
			parts = append(parts, parseLex[i])
		}
		emit([]byte(strings.Join(parts, " ")), len(idx) >= 2)
	})
	o.Notes = append(o.Notes, fmt.Sprintf("exhaustive: all sequences of up to %d lexemes over a %d-lexeme alphabet, joined by one space", maxLen, len(parseLex)))
	// the parser's only lookahead: a member name on the line after the dot, followed by any two lexemes
	for _, base := range []string{"a", "f()", "a.b", "1"} {
		for _, dot := range []string{".", "!."} {
			for _, nl := range []string{"\n", "\r\n", "\u2028", " \n  "} {
				for _, name := range []string{"b", "typeof", "null"} {
					for _, z := range parseLex {
						for _, w := range []string{"", "(((", "a", "#", "1", ")", "\xff\xfe", "'x", "+ 1"} {
							emit([]byte(base+dot+nl+name+" "+z+" "+w), true)
						}
					}
				}
			}
		}
	}
	r := newRand(seed, "parse")
	n := 30000
	if thorough {
		n = 1000000
	}
	seps := []string{" ", "", "\n", "\u00a0", "\t", "\r\n", "\u2028"}
	for i := 0; i < n; i++ {
		l := 3 + r.Intn(14)
		var sb strings.Builder
		for j := 0; j < l; j++ {
			sb.WriteString(parseLex[r.Intn(len(parseLex))])
			sb.WriteString(seps[r.Intn(len(seps))])
		}
		emit([]byte(sb.String()), true)
	}
}
