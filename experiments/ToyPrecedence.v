(* Design experiment: precedence climbing vs declarative grammar, reduced language.
   tokens: id | op o | ( | ) ; all binary ops left-assoc with prec o >= 1. *)
From Coq Require Import List ZArith Lia Bool.
Import ListNotations.
Open Scope Z_scope.

Inductive tok := TId (n:Z) | TOp (o:Z) | TLP | TRP.

Inductive expr := Id (n:Z) | Bin (o:Z) (l r:expr) | Paren (e:expr).

Section P.
Variable prec : Z -> Z.
Hypothesis prec_pos : forall o, 1 <= prec o.

Definition INF := 1000%Z.
Hypothesis prec_lt : forall o, prec o < INF.

(* strict parser, fuel = recursion depth *)
Fixpoint parse_bin (f:nat) (p:Z) (ts:list tok) : option (expr * list tok) :=
  match f with O => None | S f =>
    match parse_prim f ts with
    | Some (l, ts1) => parse_rest f p l ts1
    | None => None
    end
  end
with parse_rest (f:nat) (p:Z) (l:expr) (ts:list tok) : option (expr * list tok) :=
  match f with O => None | S f =>
    match ts with
    | TOp o :: ts1 =>
        if p <? prec o then
          match parse_bin f (prec o) ts1 with
          | Some (r, ts2) => parse_rest f p (Bin o l r) ts2
          | None => None
          end
        else Some (l, ts)
    | _ => Some (l, ts)
    end
  end
with parse_prim (f:nat) (ts:list tok) : option (expr * list tok) :=
  match f with O => None | S f =>
    match ts with
    | TId n :: ts1 => Some (Id n, ts1)
    | TLP :: ts1 =>
        match parse_bin f 0 ts1 with
        | Some (e, TRP :: ts2) => Some (Paren e, ts2)
        | _ => None
        end
    | _ => None
    end
  end.

(* declarative grammar *)
Definition lvl (e:expr) : Z := match e with Bin o _ _ => prec o | _ => INF end.

Inductive WF : expr -> Prop :=
| WF_id n : WF (Id n)
| WF_paren e : WF e -> WF (Paren e)
| WF_bin o l r : WF l -> WF r -> prec o <= lvl l -> prec o < lvl r -> WF (Bin o l r).

Fixpoint yield (e:expr) : list tok :=
  match e with
  | Id n => [TId n]
  | Bin o l r => yield l ++ TOp o :: yield r
  | Paren e => TLP :: yield e ++ [TRP]
  end.

(* the next token does not continue an expression at level p *)
Definition stops (p:Z) (ts:list tok) : Prop :=
  match ts with TOp o :: _ => prec o <= p | _ => True end.

(* ---------- soundness ---------- *)
Lemma sound :
  forall f,
   (forall p ts e rest, p < INF -> parse_bin f p ts = Some (e, rest) ->
       WF e /\ p < lvl e /\ ts = yield e ++ rest /\ stops p rest) /\
   (forall p l ts e rest, parse_rest f p l ts = Some (e, rest) ->
       WF l -> p < lvl l -> stops (lvl l) ts ->
       WF e /\ p < lvl e /\ yield l ++ ts = yield e ++ rest /\ stops p rest) /\
   (forall ts e rest, parse_prim f ts = Some (e, rest) ->
       WF e /\ lvl e = INF /\ ts = yield e ++ rest).
Proof.
  induction f as [|f IH]; [repeat split; intros; discriminate|].
  destruct IH as (IHb & IHr & IHp).
  split; [|split].
  - (* parse_bin *)
    intros p ts e rest HpI H. cbn [parse_bin] in H.
    destruct (parse_prim f ts) as [[l ts1]|] eqn:Hp; [|discriminate].
    apply IHp in Hp. destruct Hp as (Hwl & Hll & Hts).
    apply IHr in H; try assumption.
    + destruct H as (Hwe & Hle & Hy & Hs). subst ts. repeat split; auto.
    + rewrite Hll. exact HpI.
    + rewrite Hll. unfold stops. destruct ts1 as [|[]]; auto. specialize (prec_lt o). lia.
  - (* parse_rest *)
    intros p l ts e rest H Hwl Hpl Hst. cbn [parse_rest] in H.
    destruct ts as [|t ts1].
    { inversion H; subst. repeat split; auto; cbn; auto. }
    destruct t as [n|o| |]; try (inversion H; subst; repeat split; auto; cbn; auto; fail).
    destruct (p <? prec o) eqn:Hlt.
    + apply Z.ltb_lt in Hlt.
      destruct (parse_bin f (prec o) ts1) as [[r ts2]|] eqn:Hb; [|discriminate].
      apply IHb in Hb; [|apply prec_lt]. destruct Hb as (Hwr & Hlr & Hts1 & Hs2).
      cbn in Hst.
      apply IHr in H.
      * destruct H as (Hwe & Hle & Hy & Hs). repeat split; auto.
        rewrite <- Hy. cbn [yield]. subst ts1. rewrite <- !app_assoc. cbn. reflexivity.
      * constructor; auto.
      * cbn. lia.
      * cbn [lvl]. exact Hs2.
    + apply Z.ltb_ge in Hlt. inversion H; subst. repeat split; auto.
  - (* parse_prim *)
    intros ts e rest H. cbn [parse_prim] in H.
    destruct ts as [|t ts1]; [discriminate|].
    destruct t as [n|o| |]; try discriminate.
    + inversion H; subst. repeat split; constructor.
    + destruct (parse_bin f 0 ts1) as [[e0 ts2]|] eqn:Hb; [|discriminate].
      destruct ts2 as [|t2 ts3]; [discriminate|]. destruct t2; try discriminate.
      inversion H; subst. apply IHb in Hb; [|unfold INF; lia]. destruct Hb as (Hw & _ & Hts & _).
      repeat split; [constructor; auto|]. subst ts1. cbn. rewrite <- app_assoc. reflexivity.
Qed.

(* ---------- completeness ---------- *)
Fixpoint size (e:expr) : nat :=
  match e with Id _ => 1 | Bin _ l r => S (size l + size r) | Paren e => S (size e) end.

(* fuel monotonicity *)
Lemma mono : forall f,
  (forall p ts r, parse_bin f p ts = Some r -> parse_bin (S f) p ts = Some r) /\
  (forall p l ts r, parse_rest f p l ts = Some r -> parse_rest (S f) p l ts = Some r) /\
  (forall ts r, parse_prim f ts = Some r -> parse_prim (S f) ts = Some r).
Proof.
  induction f as [|f (IHb & IHr & IHp)]; [repeat split; intros; discriminate|].
  split; [|split].
  - intros p ts r H. cbn [parse_bin] in H.
    destruct (parse_prim f ts) as [[l ts1]|] eqn:Hp; [|discriminate].
    change (parse_bin (S (S f)) p ts) with
      (match parse_prim (S f) ts with Some (l, ts1) => parse_rest (S f) p l ts1 | None => None end).
    rewrite (IHp _ _ Hp). apply IHr; auto.
  - intros p l ts r H. cbn [parse_rest] in H.
    change (parse_rest (S (S f)) p l ts) with
      (match ts with
       | TOp o :: ts1 => if p <? prec o then
            match parse_bin (S f) (prec o) ts1 with
            | Some (r, ts2) => parse_rest (S f) p (Bin o l r) ts2 | None => None end
          else Some (l, ts)
       | _ => Some (l, ts) end).
    destruct ts as [|[n|o| |] ts1]; auto.
    destruct (p <? prec o); auto.
    destruct (parse_bin f (prec o) ts1) as [[r0 ts2]|] eqn:Hb; [|discriminate].
    rewrite (IHb _ _ _ Hb). apply IHr; auto.
  - intros ts r H. cbn [parse_prim] in H.
    change (parse_prim (S (S f)) ts) with
      (match ts with
       | TId n :: ts1 => Some (Id n, ts1)
       | TLP :: ts1 => match parse_bin (S f) 0 ts1 with
                       | Some (e, TRP :: ts2) => Some (Paren e, ts2) | _ => None end
       | _ => None end).
    destruct ts as [|[n|o| |] ts1]; auto.
    destruct (parse_bin f 0 ts1) as [[e0 ts2]|] eqn:Hb; [|discriminate].
    rewrite (IHb _ _ _ Hb). auto.
Qed.

Lemma mono_le : forall f g, (f <= g)%nat ->
  (forall p ts r, parse_bin f p ts = Some r -> parse_bin g p ts = Some r) /\
  (forall p l ts r, parse_rest f p l ts = Some r -> parse_rest g p l ts = Some r) /\
  (forall ts r, parse_prim f ts = Some r -> parse_prim g ts = Some r).
Proof.
  intros f g Hle. induction Hle as [|g Hle (IHb & IHr & IHp)]; [split; [|split]; auto|].
  destruct (mono g) as (Mb & Mr & Mp). split; [|split]; intros; auto.
Qed.

(* Completeness: characterise parse_bin through an explicit left-spine decomposition. *)
Fixpoint spine (e:expr) : expr * list (Z * expr) :=
  match e with
  | Bin o l r => let (a, s) := spine l in (a, s ++ [(o, r)])
  | _ => (e, [])
  end.

Fixpoint unspine (a:expr) (s:list (Z*expr)) : expr :=
  match s with [] => a | (o,r)::s' => unspine (Bin o a r) s' end.

Fixpoint yield_s (s:list (Z*expr)) : list tok :=
  match s with [] => [] | (o,r)::s' => TOp o :: yield r ++ yield_s s' end.

Lemma unspine_app a s o r : unspine a (s ++ [(o,r)]) = Bin o (unspine a s) r.
Proof. revert a; induction s as [|[o' r'] s IH]; intros; cbn; auto. Qed.

Lemma spine_unspine e : let (a,s) := spine e in unspine a s = e.
Proof.
  induction e as [n|o l IHl r IHr|e IH]; cbn; auto.
  destruct (spine l) as [a s]. rewrite unspine_app, IHl. reflexivity.
Qed.

Lemma yield_s_app s o r : yield_s (s ++ [(o,r)]) = yield_s s ++ TOp o :: yield r.
Proof. induction s as [|[o' r'] s IH]; cbn; [rewrite app_nil_r; auto|]. rewrite IH, <- app_assoc. reflexivity. Qed.

Lemma yield_spine e : let (a,s) := spine e in yield e = yield a ++ yield_s s.
Proof.
  induction e as [n|o l IHl r IHr|e IH]; cbn; try reflexivity; try (rewrite app_nil_r; reflexivity).
  destruct (spine l) as [a s]. rewrite IHl, yield_s_app, <- app_assoc. reflexivity.
Qed.

(* spine well-formedness: a is an atom (lvl INF), operators non-increasing, each r one level up *)
Fixpoint spine_ok (top:Z) (s:list (Z*expr)) : Prop :=
  match s with
  | [] => True
  | (o,r)::s' => prec o <= top /\ WF r /\ prec o < lvl r /\ spine_ok (prec o) s'
  end.

Definition atom (a:expr) := match a with Bin _ _ _ => False | _ => True end.

Fixpoint last_prec (top:Z) (s:list (Z*expr)) : Z :=
  match s with [] => top | (o,_)::s' => last_prec (prec o) s' end.

Lemma last_prec_app top s o r : last_prec top (s ++ [(o,r)]) = prec o.
Proof. revert top; induction s as [|[o' r'] s IH]; intros; cbn; auto. Qed.

Lemma spine_ok_app top s o r :
  spine_ok top s -> WF r -> prec o < lvl r -> prec o <= last_prec top s ->
  spine_ok top (s ++ [(o,r)]).
Proof.
  revert top. induction s as [|[o' r'] s IH]; intros top Hs Hw Hl Hle; cbn in *.
  - repeat split; auto.
  - destruct Hs as (H1 & H2 & H3 & H4). repeat split; auto.
Qed.

Lemma lvl_unspine a s : lvl (unspine a s) = last_prec (lvl a) s.
Proof. revert a; induction s as [|[o r] s IH]; intros a; cbn; auto. rewrite IH. reflexivity. Qed.

Lemma last_prec_le top s : spine_ok top s ->
  last_prec top s <= top /\ forall o r, In (o,r) s -> last_prec top s <= prec o.
Proof.
  revert top. induction s as [|[o1 r1] s IH]; intros top Hs; cbn.
  - split; [lia|intros ? ? []].
  - cbn in Hs. destruct Hs as (H1 & H2 & H3 & H4). destruct (IH _ H4) as (I1 & I2).
    split; [lia|]. intros o r [Heq|Hin]; [inversion Heq; subst; exact I1|eauto].
Qed.

Lemma wf_spine e : WF e ->
  let (a,s) := spine e in atom a /\ WF a /\ spine_ok INF s.
Proof.
  induction 1 as [n|e He IH|o l r Hl IHl Hr IHr Hll Hlr]; cbn; auto.
  - repeat split; auto. constructor.
  - repeat split; auto. constructor; auto.
  - destruct (spine l) as [a s] eqn:E. destruct IHl as (Ha & Hwa & Hs).
    repeat split; auto. apply spine_ok_app; auto.
    pose proof (spine_unspine l) as Hu. rewrite E in Hu. rewrite <- Hu in Hll.
    rewrite lvl_unspine in Hll.
    destruct a; cbn in *; try contradiction; exact Hll.
Qed.

(* the loop consumes a whole spine *)
Lemma loop_complete :
  forall s,
   (forall o r, In (o,r) s -> forall p rest, p < lvl r -> stops p rest ->
       exists f, parse_bin f p (yield r ++ rest) = Some (r, rest)) ->
   forall p a rest top, spine_ok top s -> (forall o r, In (o,r) s -> p < prec o) ->
     stops p rest ->
     exists f, parse_rest f p a (yield_s s ++ rest) = Some (unspine a s, rest).
Proof.
  induction s as [|[o r] s IH]; intros Hr p a rest top Hs Hp Hst.
  - exists 1%nat. cbn. unfold stops in Hst. destruct rest as [|[n|o| |] rest]; auto.
    apply Z.ltb_ge in Hst. rewrite Hst. reflexivity.
  - cbn in Hs. destruct Hs as (Hot & Hwr & Hlr & Hs').
    assert (Hpo : p < prec o) by (apply (Hp o r); left; reflexivity).
    destruct (Hr o r (or_introl eq_refl) (prec o) (yield_s s ++ rest) Hlr) as [f1 H1].
    { destruct s as [|[o2 r2] s2]; cbn.
      - unfold stops in *. destruct rest as [|[n|o3| |] rest]; auto. lia.
      - cbn in Hs'. tauto. }
    destruct (IH (fun o' r' Hin => Hr o' r' (or_intror Hin)) p (Bin o a r) rest (prec o) Hs'
               (fun o' r' Hin => Hp o' r' (or_intror Hin)) Hst) as [f2 H2].
    exists (S (Nat.max f1 f2)). cbn [parse_rest yield_s app].
    apply Z.ltb_lt in Hpo. rewrite Hpo.
    rewrite <- app_assoc.
    destruct (mono_le f1 (Nat.max f1 f2) (Nat.le_max_l _ _)) as (Mb & _ & _).
    rewrite (Mb _ _ _ H1).
    destruct (mono_le f2 (Nat.max f1 f2) (Nat.le_max_r _ _)) as (_ & Mr & _).
    apply Mr. exact H2.
Qed.

Lemma spine_in_smaller e : let (a,s) := spine e in
  (size a <= size e)%nat /\ forall o r, In (o,r) s -> (size r < size e)%nat.
Proof.
  induction e as [n|o l IHl r IHr|e IH]; cbn; try (split; [lia|intros ? ? []]).
  destruct (spine l) as [a s]. destruct IHl as (Ha & Hs). split; [lia|].
  intros o' r' Hin. apply in_app_or in Hin. destruct Hin as [Hin|[Heq|[]]].
  - specialize (Hs _ _ Hin). lia.
  - inversion Heq; subst. lia.
Qed.

Lemma spine_prec_gt a s p : atom a -> spine_ok INF s -> p < lvl (unspine a s) ->
  forall o r, In (o,r) s -> p < prec o.
Proof.
  intros Ha Hs Hp o r Hin. rewrite lvl_unspine in Hp.
  assert (lvl a = INF) as Ea by (destruct a; cbn in *; auto; contradiction).
  rewrite Ea in Hp. destruct (last_prec_le _ _ Hs) as (_ & H2). specialize (H2 _ _ Hin). lia.
Qed.

Lemma spine_ok_wf top s o r : spine_ok top s -> In (o,r) s -> WF r.
Proof.
  revert top. induction s as [|[o1 r1] s IHs]; intros top Hs Hin; [destruct Hin|].
  cbn in Hs. destruct Hs as (H1 & H2 & H3 & H4).
  destruct Hin as [Heq|Hin]; [inversion Heq; subst; exact H2|eapply IHs; eauto].
Qed.

Theorem complete : forall n e, (size e <= n)%nat -> WF e ->
  forall p rest, p < lvl e -> stops p rest ->
  exists f, parse_bin f p (yield e ++ rest) = Some (e, rest).
Proof.
  induction n as [|n IH]; intros e Hsz Hw p rest Hp Hst.
  { destruct e; cbn in Hsz; lia. }
  pose proof (wf_spine e Hw) as Hsp.
  pose proof (spine_unspine e) as Hu.
  pose proof (yield_spine e) as Hy.
  pose proof (spine_in_smaller e) as Hsm.
  destruct (spine e) as [a s] eqn:E.
  destruct Hsp as (Ha & Hwa & Hs). destruct Hsm as (Hsa & Hsr).
  (* primary a *)
  assert (Hprim : exists f, parse_prim f (yield a ++ (yield_s s ++ rest)) = Some (a, yield_s s ++ rest)).
  { destruct a as [m|o l r|e0]; [| contradiction |].
    - exists 1%nat. reflexivity.
    - inversion Hwa; subst.
      destruct (IH e0) with (p:=0) (rest:=TRP :: yield_s s ++ rest) as [f0 Hf0]; auto.
      + cbn in Hsa. lia.
      + destruct e0; cbn; try (unfold INF; lia). specialize (prec_pos o). lia.
      + exists (S f0). cbn [parse_prim yield app]. rewrite <- app_assoc. cbn [app]. rewrite Hf0. reflexivity. }
  destruct Hprim as [fp Hprim].
  destruct (loop_complete s) with (p:=p) (a:=a) (rest:=rest) (top:=INF) as [fr Hrest]; auto.
  - intros o r Hin p0 rest0 Hp0 Hst0. apply (IH r); auto.
    + specialize (Hsr _ _ Hin). lia.
    + eapply spine_ok_wf; eauto.
  - rewrite <- Hu in Hp. eapply spine_prec_gt; eauto.
  - exists (S (Nat.max fp fr)). cbn [parse_bin]. rewrite Hy, <- app_assoc.
    destruct (mono_le fp (Nat.max fp fr) (Nat.le_max_l _ _)) as (_ & _ & Mp).
    rewrite (Mp _ _ Hprim).
    destruct (mono_le fr (Nat.max fp fr) (Nat.le_max_r _ _)) as (_ & Mr & _).
    rewrite <- Hu. apply Mr. exact Hrest.
Qed.

End P.
Print Assumptions complete.
Print Assumptions sound.
