(* Design experiment 2: totality of a recovering precedence-climbing parser with a
   gated list loop, fuel = recursion depth, bound linear in the number of tokens. *)
From Coq Require Import List ZArith Lia Bool Arith.
Import ListNotations.

Inductive tok := TId (n:Z) | TOp (o:Z) | TLP | TRP | TLB | TRB | TComma | TJunk.

Inductive expr :=
| Id (n:Z) | Missing | Bin (o:Z) (l r:expr) | Paren (e:expr) | Arr (es:list expr).

Section P.
Variable prec : Z -> Z.
Hypothesis prec_pos : forall o, (1 <= prec o)%Z.

(* the gate of the list loop (a finite table in the real development) *)
Definition is_start (t:tok) : bool :=
  match t with TId _ | TLP | TLB | TOp _ => true | _ => false end.
Definition is_term (ts:list tok) : bool :=
  match ts with [] => true | TRB :: _ => true | _ => false end.

Definition R := option (expr * list tok * nat).   (* None = out of fuel; nat = #diagnostics *)

Fixpoint parse_bin (f:nat) (p:Z) (ts:list tok) : R :=
  match f with O => None | S f =>
    match parse_prim f ts with
    | Some (l, ts1, d1) =>
        match parse_rest f p l ts1 with
        | Some (e, ts2, d2) => Some (e, ts2, d1 + d2)
        | None => None end
    | None => None
    end
  end
with parse_rest (f:nat) (p:Z) (l:expr) (ts:list tok) : R :=
  match f with O => None | S f =>
    match ts with
    | TOp o :: ts1 =>
        if (p <? prec o)%Z then
          match parse_bin f (prec o) ts1 with
          | Some (r, ts2, d1) =>
              match parse_rest f p (Bin o l r) ts2 with
              | Some (e, ts3, d2) => Some (e, ts3, d1 + d2)
              | None => None end
          | None => None
          end
        else Some (l, ts, 0)
    | _ => Some (l, ts, 0)
    end
  end
with parse_prim (f:nat) (ts:list tok) : R :=
  match f with O => None | S f =>
    match ts with
    | TId n :: ts1 => Some (Id n, ts1, 0)
    | TLP :: ts1 =>
        match parse_bin f 0 ts1 with
        | Some (e, TRP :: ts2, d) => Some (Paren e, ts2, d)
        | Some (e, ts2, d) => Some (Paren e, ts2, S d)        (* ')' expected: report, consume nothing *)
        | None => None
        end
    | TLB :: ts1 =>
        match parse_list f ts1 with
        | Some (Arr es, TRB :: ts2, d) => Some (Arr es, ts2, d)
        | Some (e, ts2, d) => Some (e, ts2, S d)
        | None => None
        end
    | _ => Some (Missing, ts, 1)                               (* zero-width node + diagnostic *)
    end
  end
with parse_list (f:nat) (ts:list tok) : R :=
  match f with O => None | S f =>
    match ts with
    | t :: ts' =>
      if is_start t then
        match parse_bin f 0 ts with
        | Some (e, TComma :: ts2, d1) =>
            match parse_list f ts2 with
            | Some (Arr es, ts3, d2) => Some (Arr (e :: es), ts3, d1 + d2)
            | Some (x, ts3, d2) => Some (x, ts3, d1 + d2)
            | None => None end
        | Some (e, ts2, d1) =>
            if is_term ts2 then Some (Arr [e], ts2, d1)
            else (* ',' expected: report, consume nothing, go round again *)
              match parse_list f ts2 with
              | Some (Arr es, ts3, d2) => Some (Arr (e :: es), ts3, S (d1 + d2))
              | Some (x, ts3, d2) => Some (x, ts3, S (d1 + d2))
              | None => None end
        | None => None
        end
      else if is_term ts then Some (Arr [], ts, 0)
      else (* skip one token with a diagnostic *)
        match parse_list f ts' with
        | Some (x, ts3, d) => Some (x, ts3, S d)
        | None => None end
    | [] => Some (Arr [], [], 0)
    end
  end.

Definition need (n r:nat) : nat := 4 * n + r + 1.

(* what a successful call guarantees about the remaining input *)
Definition shorter (rest ts:list tok) := (length rest <= length ts)%nat.
Definition strictly (rest ts:list tok) := (length rest < length ts)%nat.

Lemma total : forall f,
  (forall p ts, (need (length ts) 2 <= f)%nat ->
     exists e rest d, parse_bin f p ts = Some (e, rest, d) /\ shorter rest ts /\
       (forall t ts', ts = t :: ts' -> is_start t = true ->
          (forall o, t = TOp o -> (p < prec o)%Z) -> strictly rest ts)) /\
  (forall p l ts, (need (length ts) 1 <= f)%nat ->
     exists e rest d, parse_rest f p l ts = Some (e, rest, d) /\ shorter rest ts /\
       (forall o ts', ts = TOp o :: ts' -> (p < prec o)%Z -> strictly rest ts)) /\
  (forall ts, (need (length ts) 0 <= f)%nat ->
     exists e rest d, parse_prim f ts = Some (e, rest, d) /\ shorter rest ts /\
       (forall t ts', ts = t :: ts' -> is_start t = true -> (forall o, t <> TOp o) -> strictly rest ts)) /\
  (forall ts, (need (length ts) 3 <= f)%nat ->
     exists e rest d, parse_list f ts = Some (e, rest, d) /\ shorter rest ts).
Proof.
  unfold need, shorter, strictly.
  induction f as [|f (IHb & IHr & IHp & IHl)].
  { split; [|split; [|split]]; intros; lia. }
  split; [|split; [|split]].
  - (* parse_bin *)
    intros p ts Hf. cbn [parse_bin].
    destruct (IHp ts) as (l & ts1 & d1 & Hp & Hs1 & Hc1); [lia|]. rewrite Hp.
    destruct (IHr p l ts1) as (e & ts2 & d2 & Hr & Hs2 & Hc2); [lia|]. rewrite Hr.
    exists e, ts2, (d1 + d2)%nat. split; [reflexivity|]. split; [lia|].
    intros t ts' Hts Hst Hop.
    destruct t; try discriminate.
    + assert (H : forall o, TId n <> TOp o) by congruence.
      specialize (Hc1 _ _ Hts eq_refl H). lia.
    + (* operator first: primary is Missing and consumes nothing, the rest loop consumes *)
      subst ts. destruct f as [|f']; [cbn in Hf; lia|].
      cbn in Hp. inversion Hp; subst l ts1 d1.
      specialize (Hc2 o ts' eq_refl (Hop o eq_refl)). exact Hc2.
    + assert (H : forall o, TLP <> TOp o) by congruence.
      specialize (Hc1 _ _ Hts eq_refl H). lia.
    + assert (H : forall o, TLB <> TOp o) by congruence.
      specialize (Hc1 _ _ Hts eq_refl H). lia.
  - (* parse_rest *)
    intros p l ts Hf. cbn [parse_rest].
    destruct ts as [|t ts1]; [exists l, [], 0%nat; repeat split; auto; intros; discriminate|].
    destruct t as [n|o| | | | | |];
      try (exists l; eexists; exists 0%nat; repeat split; auto; intros; discriminate).
    destruct (p <? prec o)%Z eqn:Hlt.
    + destruct (IHb (prec o) ts1) as (r & ts2 & d1 & Hb & Hs1 & _); [cbn in Hf; lia|]. rewrite Hb.
      destruct (IHr p (Bin o l r) ts2) as (e & ts3 & d2 & Hr & Hs2 & _); [cbn in Hf; lia|]. rewrite Hr.
      exists e, ts3, (d1 + d2)%nat. repeat split; auto; cbn; intros; lia.
    + exists l, (TOp o :: ts1), 0%nat. repeat split; auto.
      intros o' ts' Heq Hp. inversion Heq; subst. apply Z.ltb_ge in Hlt. lia.
  - (* parse_prim *)
    intros ts Hf. cbn [parse_prim].
    destruct ts as [|t ts1].
    { exists Missing, [], 1%nat. repeat split; auto. intros; discriminate. }
    destruct t as [n|o| | | | | |].
    + exists (Id n), ts1, 0%nat. repeat split; auto; cbn; intros; lia.
    + exists Missing, (TOp o :: ts1), 1%nat. repeat split; auto. intros t ts' Heq _ Hno.
      inversion Heq; subst. exfalso. eapply Hno; reflexivity.
    + destruct (IHb 0%Z ts1) as (e & ts2 & d & Hb & Hs & _); [cbn in Hf; lia|]. rewrite Hb.
      destruct ts2 as [|t2 ts3]; [exists (Paren e), [], (S d); repeat split; auto; cbn in *; intros; lia|].
      destruct t2; try (exists (Paren e); eexists; exists (S d); repeat split; auto; cbn in *; intros; lia).
      exists (Paren e), ts3, d. repeat split; auto; cbn in *; intros; lia.
    + exists Missing; eexists; exists 1%nat. repeat split; auto.
      intros t ts' Heq Hst; inversion Heq; subst; discriminate.
    + destruct (IHl ts1) as (e & ts2 & d & Hl & Hs); [cbn in Hf; lia|]. rewrite Hl.
      destruct e as [n| |o l r|e0|es];
        try (exists (match e with _ => _ end); fail).
      all: destruct ts2 as [|t2 ts3];
        try (eexists; eexists; eexists; split; [reflexivity|]; split; cbn in *; intros; lia).
      all: destruct t2;
        try (eexists; eexists; eexists; split; [reflexivity|]; split; cbn in *; intros; lia).
    + exists Missing; eexists; exists 1%nat. repeat split; auto.
      intros t ts' Heq Hst; inversion Heq; subst; discriminate.
    + exists Missing; eexists; exists 1%nat. repeat split; auto.
      intros t ts' Heq Hst; inversion Heq; subst; discriminate.
    + exists Missing; eexists; exists 1%nat. repeat split; auto.
      intros t ts' Heq Hst; inversion Heq; subst; discriminate.
  - (* parse_list *)
    intros ts Hf. cbn [parse_list].
    destruct ts as [|t ts']; [exists (Arr []), [], 0%nat; split; auto|].
    destruct (is_start t) eqn:Hst.
    + destruct (IHb 0%Z (t :: ts')) as (e & ts2 & d1 & Hb & Hs & Hc); [lia|]. rewrite Hb.
      assert (Hop : forall o, t = TOp o -> (0 < prec o)%Z).
      { intros o _. pose proof (prec_pos o). lia. }
      specialize (Hc t ts' eq_refl Hst Hop).
      assert (Hrec : forall ts2', (length ts2' < length (t :: ts'))%nat ->
                exists x rest d, parse_list f ts2' = Some (x, rest, d) /\ (length rest <= length ts2')%nat).
      { intros ts2' Hlen. apply IHl. cbn in *. lia. }
      destruct ts2 as [|t2 ts3].
      { cbn. exists (Arr [e]), [], d1. split; [reflexivity|cbn; lia]. }
      destruct t2.
      all: try (cbn [is_term];
                match goal with |- context [parse_list _ ?l] =>
                  destruct (Hrec l) as (x & rest & d2 & Hl & Hs2); [exact Hc|]; rewrite Hl;
                  destruct x; eexists; eexists; eexists; (split; [reflexivity|]); cbn in *; lia end).
      * (* TRB terminator *) cbn. exists (Arr [e]); eexists; eexists; split; [reflexivity|]. cbn in *; lia.
      * (* comma *)
        destruct (Hrec ts3) as (x & rest & d2 & Hl & Hs2); [cbn in *; lia|]. rewrite Hl.
        destruct x; eexists; eexists; eexists; (split; [reflexivity|]); cbn in *; lia.
    + destruct (is_term (t :: ts')) eqn:Ht.
      * exists (Arr []), (t :: ts'), 0%nat. split; auto.
      * destruct (IHl ts') as (x & rest & d & Hl & Hs); [cbn in *; lia|]. rewrite Hl.
        exists x, rest, (S d). split; auto. cbn; lia.
Qed.

Theorem parse_total : forall ts,
  exists e rest d, parse_list (4 * length ts + 4) ts = Some (e, rest, d).
Proof.
  intros ts. destruct (total (4 * length ts + 4)) as (_ & _ & _ & Hl).
  destruct (Hl ts) as (e & rest & d & H & _); [unfold need; lia|]. eauto.
Qed.

End P.
Print Assumptions parse_total.
