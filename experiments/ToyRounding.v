(* Design experiment 3: half-even rounding of a non-negative rational n/d to an integer,
   and rounding of a coefficient to p digits; the arithmetic core of C04. *)
From Coq Require Import ZArith Lia Bool.
Open Scope Z_scope.

Definition rdiv_he (n d : Z) : Z :=
  let q := n / d in
  let r := n mod d in
  if 2 * r <? d then q
  else if d <? 2 * r then q + 1
  else if Z.even q then q else q + 1.

Lemma rdiv_he_spec n d : 0 <= n -> 0 < d ->
  let q := rdiv_he n d in
  0 <= q /\ 2 * Z.abs (n - q * d) <= d /\ (2 * Z.abs (n - q * d) = d -> Z.even q = true).
Proof.
  intros Hn Hd. unfold rdiv_he.
  pose proof (Z.div_mod n d ltac:(lia)) as Hdm.
  pose proof (Z.mod_pos_bound n d Hd) as Hr.
  pose proof (Z.div_pos n d Hn Hd) as Hq.
  set (q := n / d) in *. set (r := n mod d) in *.
  destruct (2 * r <? d) eqn:E1; [apply Z.ltb_lt in E1|apply Z.ltb_ge in E1].
  - cbn zeta. split; [lia|]. replace (n - q * d) with r by lia. split; lia.
  - destruct (d <? 2 * r) eqn:E2; [apply Z.ltb_lt in E2|apply Z.ltb_ge in E2].
    + cbn zeta. split; [lia|]. replace (n - (q + 1) * d) with (r - d) by lia. split; lia.
    + assert (2 * r = d) by lia.
      destruct (Z.even q) eqn:Ev; cbn zeta.
      * split; [lia|]. replace (n - q * d) with r by lia. split; [lia|auto].
      * split; [lia|]. replace (n - (q + 1) * d) with (r - d) by lia. split; [lia|].
        intros _. rewrite Z.even_add, Ev. reflexivity.
Qed.

(* uniqueness: the spec determines the result, so any implementation meeting it agrees *)
Lemma nearest_even_unique n d q1 q2 : 0 < d ->
  2 * Z.abs (n - q1 * d) <= d -> (2 * Z.abs (n - q1 * d) = d -> Z.even q1 = true) ->
  2 * Z.abs (n - q2 * d) <= d -> (2 * Z.abs (n - q2 * d) = d -> Z.even q2 = true) ->
  q1 = q2.
Proof.
  intros Hd H1 E1 H2 E2.
  assert (Z.abs (q1 - q2) * d <= d) as Hdiff by nia.
  assert (Z.abs (q1 - q2) <= 1) as Hle by nia.
  destruct (Z.eq_dec q1 q2) as [|Hne]; [assumption|exfalso].
  assert (q1 = q2 + 1 \/ q2 = q1 + 1) as [Hc|Hc] by lia.
  - assert (2 * Z.abs (n - q1 * d) = d) by nia. assert (2 * Z.abs (n - q2 * d) = d) by nia.
    specialize (E1 H). specialize (E2 H0). subst q1. rewrite Z.even_add in E1. rewrite E2 in E1. discriminate.
  - assert (2 * Z.abs (n - q1 * d) = d) by nia. assert (2 * Z.abs (n - q2 * d) = d) by nia.
    specialize (E1 H). specialize (E2 H0). subst q2. rewrite Z.even_add in E2. rewrite E1 in E2. discriminate.
Qed.

(* number of decimal digits, by fuel on the bit length; digits 0 = 1 as in the library *)
Fixpoint digits_aux (fuel:nat) (n acc:Z) : Z :=
  match fuel with O => acc | S f => if n <? 10 then acc else digits_aux f (n / 10) (acc + 1) end.
Definition digits (n:Z) : Z := digits_aux (Z.to_nat (Z.log2 n + 2)) n 1.

Lemma digits_aux_spec : forall fuel n acc, 0 <= n -> n < 2 ^ Z.of_nat fuel ->
  let k := digits_aux fuel n acc - acc in
  0 <= k /\ (n = 0 \/ 10 ^ k <= n) /\ n < 10 ^ (k + 1).
Proof.
  induction fuel as [|f IH]; intros n acc Hn Hlt.
  - cbn in Hlt. assert (n = 0) by lia. subst. cbn. lia.
  - cbn [digits_aux]. destruct (n <? 10) eqn:E; [apply Z.ltb_lt in E|apply Z.ltb_ge in E].
    + replace (acc - acc) with 0 by lia. cbn. lia.
    + assert (Hn10 : 0 <= n / 10) by (apply Z.div_pos; lia).
      assert (Hlt10 : n / 10 < 2 ^ Z.of_nat f).
      { rewrite Nat2Z.inj_succ, Z.pow_succ_r in Hlt by lia.
        apply Z.div_lt_upper_bound; lia. }
      specialize (IH (n / 10) (acc + 1) Hn10 Hlt10). cbn zeta in IH.
      set (k' := digits_aux f (n / 10) (acc + 1) - (acc + 1)) in *.
      replace (digits_aux f (n / 10) (acc + 1) - acc) with (k' + 1) by (unfold k'; lia).
      destruct IH as (Hk & Hlo & Hhi).
      pose proof (Z.div_mod n 10 ltac:(lia)). pose proof (Z.mod_pos_bound n 10 ltac:(lia)).
      split; [lia|]. rewrite !Z.pow_add_r by lia. change (10 ^ 1) with 10.
      split.
      * right. destruct Hlo as [Hz|Hlo]; [exfalso; apply Z.div_small_iff in Hz; lia|]. nia.
      * rewrite Z.pow_add_r in Hhi by lia. change (10 ^ 1) with 10 in Hhi. nia.
Qed.

Lemma digits_spec n : 0 < n -> 10 ^ (digits n - 1) <= n < 10 ^ digits n.
Proof.
  intros Hn. unfold digits.
  assert (Hb : n < 2 ^ Z.of_nat (Z.to_nat (Z.log2 n + 2))).
  { rewrite Z2Nat.id by (pose proof (Z.log2_nonneg n); lia).
    pose proof (Z.log2_spec n Hn) as [_ H]. rewrite Z.pow_add_r by (pose proof (Z.log2_nonneg n); lia).
    replace (Z.succ (Z.log2 n)) with (Z.log2 n + 1) in H by lia.
    rewrite Z.pow_add_r in H by (pose proof (Z.log2_nonneg n); lia). change (2 ^ 1) with 2 in H. change (2 ^ 2) with 4. lia. }
  pose proof (digits_aux_spec _ n 1 ltac:(lia) Hb) as (Hk & Hlo & Hhi). cbn zeta in *.
  set (k := digits_aux _ n 1 - 1) in *.
  replace (digits_aux (Z.to_nat (Z.log2 n + 2)) n 1) with (k + 1) by (unfold k; lia).
  replace (k + 1 - 1) with k by lia. destruct Hlo as [H0|Hlo]; lia.
Qed.

(* rounding a coefficient c (>= 0) with exponent e to at most p digits *)
Definition round_coeff (p c e : Z) : Z * Z :=
  let k := digits c - p in
  if k <=? 0 then (c, e)
  else let q := rdiv_he c (10 ^ k) in
       if digits q <=? p then (q, e + k) else (q / 10, e + k + 1).   (* 99..9 -> 100..0 *)

Example r1 : round_coeff 3 12345 0 = (123, 2).  Proof. reflexivity. Qed.
Example r2 : round_coeff 3 12350 0 = (124, 2).  Proof. reflexivity. Qed.  (* tie -> even *)
Example r3 : round_coeff 3 12450 0 = (124, 2).  Proof. reflexivity. Qed.
Example r4 : round_coeff 3 99950 (-2) = (100, 1).  Proof. reflexivity. Qed.
Example r5 : round_coeff 34 (3 * 10 ^ 40 + 5) 0 = (3 * 10 ^ 33, 7).  Proof. vm_compute. reflexivity. Qed.

Print Assumptions rdiv_he_spec.
Print Assumptions nearest_even_unique.
Print Assumptions digits_spec.
